import KitModel.CoalescingSim
/-! Soundness of the state-set simulation `Kit.Coalescing.Sim.accepts` (what `kitdrv C09` runs). -/
namespace Kit.Coalescing.Sim
open Kit.Coalescing

/-- Declarative semantics of the wrapped system: a run from `d` to `d'` producing the observed
events `tr`, together with the model labels `ls` it takes (internal steps and API effects in between). -/
inductive WRun (cfg : Config) (hooks : Bool) : DState → List Ev → List Label → DState → Prop where
  | nil (d : DState) : WRun cfg hooks d [] [] d
  | tau {d d1 d2 : DState} {l : Label} {tr : List Ev} {ls : List Label} :
      (l, d1) ∈ tauSuccL cfg hooks d → WRun cfg hooks d1 tr ls d2 → WRun cfg hooks d tr (l :: ls) d2
  | obs {d d1 d2 : DState} {ev : Ev} {ol : Option Label} {tr : List Ev} {ls : List Label} :
      obsStepL cfg hooks ev d = some (ol, d1) → WRun cfg hooks d1 tr ls d2 →
      WRun cfg hooks d (ev :: tr) (ol.toList ++ ls) d2

/-- Events that are themselves a model transition, with that label. -/
def directLabel : Ev → Option Label
  | .runcall => some .runCall
  | .closeret => some .closeRet
  | .cancel => some .cancel
  | .runret => some .runRet
  | .runerr => some .runErrRet
  | .adv t => some (.advance t)
  | .recv _ => some .consume
  | _ => none

def isDirect : Label → Bool
  | .runCall | .closeRet | .cancel | .runRet | .runErrRet | .advance _ | .consume => true
  | _ => false

/-! ### every wrapped step is a model step -/

theorem tauLabel_sound {cfg : Config} {hooks : Bool} {d d1 : DState} {l : Label}
    (h : tauLabel cfg hooks d l = some d1) :
    step cfg d.m l = some d1.m ∧ d1.pAdd = d.pAdd ∧ d1.rAdd = d.rAdd ∧ d1.pClose = d.pClose := by
  unfold tauLabel at h
  split at h
  · cases h
  · cases hs : step cfg d.m l with
    | none => simp [hs] at h
    | some m' =>
      simp only [hs] at h
      cases hooks <;> cases l <;> simp at h <;> subst h <;> simp

theorem tauSuccL_sound {cfg : Config} {hooks : Bool} {d d1 : DState} {l : Label}
    (h : (l, d1) ∈ tauSuccL cfg hooks d) :
    step cfg d.m l = some d1.m ∧ isDirect l = false ∧
    ((l = .add ∧ d.pAdd = d1.pAdd + 1 ∧ d1.rAdd = d.rAdd + 1 ∧ d1.pClose = d.pClose) ∨
     (l = .close ∧ d1.pAdd = d.pAdd ∧ d1.rAdd = d.rAdd ∧ d.pClose = d1.pClose + 1) ∨
     (l ≠ .add ∧ l ≠ .close ∧ d1.pAdd = d.pAdd ∧ d1.rAdd = d.rAdd ∧ d1.pClose = d.pClose)) := by
  unfold tauSuccL at h
  rcases List.mem_append.1 h with h | h
  · rcases List.mem_append.1 h with h | h
    · obtain ⟨l', hl', hm⟩ := List.mem_filterMap.1 h
      cases ht : tauLabel cfg hooks d l' with
      | none => simp [ht] at hm
      | some d' =>
        simp [ht] at hm
        obtain ⟨rfl, rfl⟩ := hm
        obtain ⟨a, b, c, e⟩ := tauLabel_sound ht
        refine ⟨a, ?_, Or.inr (Or.inr ⟨?_, ?_, b, c, e⟩)⟩ <;>
          (simp [internalLabels] at hl'; rcases hl' with rfl | rfl | rfl | rfl | rfl | rfl | rfl <;> simp [isDirect])
    · unfold tauAdd at h
      split at h
      · next hp =>
        cases hs : step cfg d.m .add with
        | none => simp [hs] at h
        | some m' =>
          simp [hs] at h
          obtain ⟨rfl, rfl⟩ := h
          exact ⟨hs, rfl, Or.inl ⟨rfl, by simp; omega, rfl, rfl⟩⟩
      · simp at h
  · unfold tauClose at h
    split at h
    · next hp =>
      cases hs : step cfg d.m .close with
      | none => simp [hs] at h
      | some m' =>
        simp [hs] at h
        obtain ⟨rfl, rfl⟩ := h
        exact ⟨hs, rfl, Or.inr (Or.inl ⟨rfl, rfl, rfl, by simp; omega⟩)⟩
    · simp at h

/-- What an observed event does: the model label it is (if any) and the call/return counters. -/
theorem obsStepL_sound {cfg : Config} {hooks : Bool} {ev : Ev} {d d1 : DState} {ol : Option Label}
    (h : obsStepL cfg hooks ev d = some (ol, d1)) :
    ol = directLabel ev ∧
    (match ol with | some l => step cfg d.m l = some d1.m | none => d1.m = d.m) ∧
    d1.pAdd = d.pAdd + (if ev = .addcall then 1 else 0) ∧
    d1.rAdd + (if ev = .addret then 1 else 0) = d.rAdd ∧
    d1.pClose = d.pClose + (if ev = .closecall then 1 else 0) := by
  unfold obsStepL at h
  cases ev <;> simp only [] at h
  case addcall => cases h; simp [directLabel]
  case closecall => cases h; simp [directLabel]
  case addret =>
    split at h
    · cases h; simp [directLabel]; omega
    · cases h
  case hin p => split at h <;> cases h; simp [directLabel]
  case htm p => split at h <;> cases h; simp [directLabel]
  case release => split at h <;> cases h; simp [directLabel]
  case settle a b c e => split at h <;> cases h; simp [directLabel]
  case recv t =>
    split at h
    · cases hs : step cfg d.m .consume with
      | none => simp [hs] at h
      | some m' => simp [hs] at h; obtain ⟨rfl, rfl⟩ := h; simp [directLabel, hs]
    · cases h
  all_goals
    first
    | (cases hs : step cfg d.m .runCall with
        | none => simp [hs] at h
        | some m' => simp [hs] at h; obtain ⟨rfl, rfl⟩ := h; simp [directLabel, hs])
    | (cases hs : step cfg d.m .closeRet with
        | none => simp [hs] at h
        | some m' => simp [hs] at h; obtain ⟨rfl, rfl⟩ := h; simp [directLabel, hs])
    | (cases hs : step cfg d.m .cancel with
        | none => simp [hs] at h
        | some m' => simp [hs] at h; obtain ⟨rfl, rfl⟩ := h; simp [directLabel, hs])
    | (cases hs : step cfg d.m .runRet with
        | none => simp [hs] at h
        | some m' => simp [hs] at h; obtain ⟨rfl, rfl⟩ := h; simp [directLabel, hs])
    | (cases hs : step cfg d.m .runErrRet with
        | none => simp [hs] at h
        | some m' => simp [hs] at h; obtain ⟨rfl, rfl⟩ := h; simp [directLabel, hs])
    | (rename_i t
       cases hs : step cfg d.m (.advance t) with
        | none => simp [hs] at h
        | some m' => simp [hs] at h; obtain ⟨rfl, rfl⟩ := h; simp [directLabel, hs])


/-! ### runs of the wrapped system are runs of the model -/

theorem WRun.exec {cfg : Config} {hooks : Bool} {d d' : DState} {tr : List Ev} {ls : List Label}
    (h : WRun cfg hooks d tr ls d') : Kit.Coalescing.exec cfg d.m ls = some d'.m := by
  induction h with
  | nil d => rfl
  | tau hm _ ih =>
    have := (tauSuccL_sound hm).1
    simp [Kit.Coalescing.exec, this, ih]
  | @obs d d1 d2 ev ol tr ls ho _ ih =>
    obtain ⟨_, hm, _⟩ := obsStepL_sound ho
    cases ol with
    | none => simp at hm ⊢; rw [← hm]; exact ih
    | some l => simp at hm ⊢; simp [Kit.Coalescing.exec, hm, ih]

/-- The directly observed transitions occur in the run in exactly the observed order. -/
theorem WRun.direct {cfg : Config} {hooks : Bool} {d d' : DState} {tr : List Ev} {ls : List Label}
    (h : WRun cfg hooks d tr ls d') : ls.filter isDirect = tr.filterMap directLabel := by
  induction h with
  | nil d => rfl
  | tau hm _ ih =>
    have := (tauSuccL_sound hm).2.1
    simp [List.filter, this, ih]
  | @obs d d1 d2 ev ol tr ls ho _ ih =>
    obtain ⟨hd, _⟩ := obsStepL_sound ho
    subst hd
    cases hdl : directLabel ev with
    | none => simp [hdl, ih]
    | some l =>
      have : isDirect l = true := by
        cases ev <;> simp [directLabel] at hdl <;> subst hdl <;> rfl
      simp [hdl, this, ih]

/-- Call/return bracket: effects of `Add` (`Close`) lie between their calls and returns. -/
theorem WRun.counts {cfg : Config} {hooks : Bool} {d d' : DState} {tr : List Ev} {ls : List Label}
    (h : WRun cfg hooks d tr ls d') :
    ls.count .add + d'.pAdd = d.pAdd + tr.count .addcall ∧
    tr.count .addret + d'.rAdd = d.rAdd + ls.count .add ∧
    ls.count .close + d'.pClose = d.pClose + tr.count .closecall := by
  induction h with
  | nil d => simp
  | @tau d d1 d2 l tr ls hm _ ih =>
    obtain ⟨_, _, hc⟩ := tauSuccL_sound hm
    obtain ⟨i1, i2, i3⟩ := ih
    rcases hc with ⟨rfl, a, b, c⟩ | ⟨rfl, a, b, c⟩ | ⟨n1, n2, a, b, c⟩
    · simp at *; omega
    · simp at *; omega
    · simp [n1, n2] at *; omega
  | @obs d d1 d2 ev ol tr ls ho _ ih =>
    obtain ⟨hd, _, a, b, c⟩ := obsStepL_sound ho
    obtain ⟨i1, i2, i3⟩ := ih
    have hna : (ol.toList).count Label.add = 0 := by
      subst hd; cases ev <;> simp [directLabel]
    have hnc : (ol.toList).count Label.close = 0 := by
      subst hd; cases ev <;> simp [directLabel]
    simp only [List.count_append, hna, hnc, List.count_cons, beq_iff_eq]
    by_cases e1 : ev = .addcall <;> by_cases e2 : ev = .addret <;> by_cases e3 : ev = .closecall <;>
      simp_all <;> omega

theorem WRun.append {cfg : Config} {hooks : Bool} {d d1 d2 : DState} {tr1 tr2 : List Ev}
    {ls1 ls2 : List Label} (h1 : WRun cfg hooks d tr1 ls1 d1) (h2 : WRun cfg hooks d1 tr2 ls2 d2) :
    WRun cfg hooks d (tr1 ++ tr2) (ls1 ++ ls2) d2 := by
  induction h1 with
  | nil d => simpa using h2
  | tau hm _ ih => exact WRun.tau hm (ih h2)
  | obs ho _ ih => rw [List.cons_append, List.append_assoc]; exact WRun.obs ho (ih h2)

/-- Every prefix of the trace is produced by a prefix of the run. -/
theorem WRun.split {cfg : Config} {hooks : Bool} {d d' : DState} {tr1 tr2 : List Ev} {ls : List Label}
    (h : WRun cfg hooks d (tr1 ++ tr2) ls d') :
    ∃ ls1 ls2 dm, ls = ls1 ++ ls2 ∧ WRun cfg hooks d tr1 ls1 dm ∧ WRun cfg hooks dm tr2 ls2 d' := by
  generalize htr : tr1 ++ tr2 = tr at h
  induction h generalizing tr1 with
  | nil d =>
    have : tr1 = [] ∧ tr2 = [] := by simpa using htr
    obtain ⟨rfl, rfl⟩ := this
    exact ⟨[], [], d, rfl, WRun.nil d, WRun.nil d⟩
  | @tau d d1 d2 l tr ls hm hr ih =>
    obtain ⟨ls1, ls2, dm, e, r1, r2⟩ := ih htr
    exact ⟨l :: ls1, ls2, dm, by simp [e], WRun.tau hm r1, r2⟩
  | @obs d d1 d2 ev ol tr ls ho hr ih =>
    cases tr1 with
    | nil =>
      simp at htr
      subst htr
      exact ⟨[], ol.toList ++ ls, d, rfl, WRun.nil d, WRun.obs ho hr⟩
    | cons e tr1 =>
      simp at htr
      obtain ⟨rfl, htr⟩ := htr
      obtain ⟨ls1, ls2, dm, e', r1, r2⟩ := ih htr
      exact ⟨ol.toList ++ ls1, ls2, dm, by simp [e'], WRun.obs ho r1, r2⟩

/-- At a `settle` event the model state has exactly the counted goroutines and the armed deadline,
and no goroutine of the limiter can move. -/
theorem settle_matches {cfg : Config} {hooks : Bool} {d d1 : DState} {ol : Option Label}
    {tok snd : Nat} {lp : Bool} {tm : Option Nat}
    (h : obsStepL cfg hooks (.settle tok snd lp tm) d = some (ol, d1)) :
    d1 = d ∧ d.m.tokens = tok ∧ d.m.senders = snd ∧ d.m.running = lp ∧ d.m.timer = tm ∧
    tauSucc cfg hooks d = [] := by
  simp only [obsStepL] at h
  split at h
  · next hc =>
    cases h
    simp only [Bool.and_eq_true, beq_iff_eq, quiescent, List.isEmpty_iff] at hc
    obtain ⟨⟨⟨⟨⟨⟨⟨⟨⟨⟨⟨⟨⟨q, _⟩, _⟩, _⟩, _⟩, _⟩, _⟩, _⟩, _⟩, _⟩, a⟩, b⟩, c⟩, e⟩ := hc
    exact ⟨rfl, a.symm, b.symm, c.symm, e.symm, q⟩
  · cases h

/-! ### the worklist closure only adds τ-successors -/

/-- `x` is reachable from some element of `base` by unobserved steps. -/
def Reached (cfg : Config) (hooks : Bool) (base : List DState) (x : DState) : Prop :=
  ∃ y ∈ base, ∃ ls, WRun cfg hooks y [] ls x

theorem Reached.succ {cfg : Config} {hooks : Bool} {base : List DState} {x x' : DState}
    (h : Reached cfg hooks base x) (hs : x' ∈ tauSucc cfg hooks x) : Reached cfg hooks base x' := by
  obtain ⟨y, hy, ls, hr⟩ := h
  obtain ⟨⟨l, d⟩, hm, rfl⟩ := List.mem_map.1 hs
  have := WRun.append hr (WRun.tau hm (WRun.nil d))
  exact ⟨y, hy, _, by simpa using this⟩

theorem fold_sound {P : DState → Prop} (xs : List DState) (hx : ∀ x ∈ xs, P x)
    (st : Std.HashSet DState × List DState × List DState)
    (h1 : ∀ x ∈ st.2.1, P x) (h2 : ∀ x ∈ st.2.2, P x) :
    let r := xs.foldl (fun (st : Std.HashSet DState × List DState × List DState) x =>
        if st.1.contains x then st else (st.1.insert x, x :: st.2.1, x :: st.2.2)) st
    (∀ x ∈ r.2.1, P x) ∧ (∀ x ∈ r.2.2, P x) := by
  induction xs generalizing st with
  | nil => exact ⟨h1, h2⟩
  | cons a xs ih =>
    simp only [List.foldl]
    apply ih (fun x hx' => hx x (List.mem_cons_of_mem _ hx'))
    · split
      · exact h1
      · intro x hx'
        rcases List.mem_cons.1 hx' with rfl | h
        · exact hx _ (List.mem_cons_self ..)
        · exact h1 x h
    · split
      · exact h2
      · intro x hx'
        rcases List.mem_cons.1 hx' with rfl | h
        · exact hx _ (List.mem_cons_self ..)
        · exact h2 x h

theorem closure_sound {cfg : Config} {hooks : Bool} {base : List DState} (fuel : Nat)
    (todo : List DState) (seen : Std.HashSet DState) (acc : List DState)
    (h1 : ∀ x ∈ todo, Reached cfg hooks base x) (h2 : ∀ x ∈ acc, Reached cfg hooks base x) :
    ∀ x ∈ (closure cfg hooks fuel todo seen acc).1, Reached cfg hooks base x := by
  induction fuel generalizing todo seen acc with
  | zero => simpa [closure] using h2
  | succ fuel ih =>
    cases todo with
    | nil => simpa [closure] using h2
    | cons d todo =>
      simp only [closure]
      have hd := h1 d (List.mem_cons_self ..)
      have := fold_sound (P := Reached cfg hooks base) (tauSucc cfg hooks d)
        (fun x hx => hd.succ hx) (seen, todo, acc)
        (fun x hx => h1 x (List.mem_cons_of_mem _ hx)) h2
      exact ih _ _ _ this.1 this.2

theorem closeSet_sound {cfg : Config} {hooks : Bool} (ds : List DState) :
    ∀ x ∈ (closeSet cfg hooks ds).1, Reached cfg hooks ds x := by
  unfold closeSet
  have hb : ∀ x ∈ ds.eraseDups, Reached cfg hooks ds x := by
    intro x hx
    exact ⟨x, List.mem_eraseDups.1 hx, [], WRun.nil x⟩
  exact closure_sound _ _ _ _ hb hb

/-! ### soundness of `accepts` -/

theorem acceptsFrom_sound {cfg : Config} {hooks : Bool} (tr : List Ev) (ds : List DState)
    (h : acceptsFrom cfg hooks ds tr = true) :
    ∃ d ∈ ds, ∃ ls d', WRun cfg hooks d tr ls d' := by
  induction tr generalizing ds with
  | nil =>
    simp only [acceptsFrom, Bool.not_eq_true', List.isEmpty_eq_false_iff_exists_mem] at h
    obtain ⟨d, hd⟩ := h
    exact ⟨d, hd, [], d, WRun.nil d⟩
  | cons ev tr ih =>
    simp only [acceptsFrom, Bool.and_eq_true] at h
    obtain ⟨_, hacc⟩ := h
    obtain ⟨d1, hd1, ls, d', hr⟩ := ih _ hacc
    obtain ⟨y, hy, ls0, hr0⟩ := closeSet_sound _ d1 hd1
    obtain ⟨d, hd, ho⟩ := List.mem_filterMap.1 hy
    unfold obsStep at ho
    cases hol : obsStepL cfg hooks ev d with
    | none => simp [hol] at ho
    | some p =>
      obtain ⟨ol, y'⟩ := p
      simp [hol] at ho
      subst ho
      have := WRun.obs hol (WRun.append hr0 hr)
      exact ⟨d, hd, _, d', by simpa using this⟩

theorem accepts_wrun {cfg : Config} {hooks : Bool} {tr : List Ev}
    (h : accepts cfg hooks tr = true) : ∃ ls d', WRun cfg hooks (initD cfg) tr ls d' := by
  simp only [accepts, Bool.and_eq_true] at h
  obtain ⟨d, hd, ls, d', hr⟩ := acceptsFrom_sound tr _ h.2
  obtain ⟨y, hy, ls0, hr0⟩ := closeSet_sound _ d hd
  have hy' : y = initD cfg := by simpa using hy
  subst hy'
  have := WRun.append hr0 hr
  exact ⟨_, d', by simpa using this⟩

end Kit.Coalescing.Sim
