import KitModel.Locks.OuterCancel
namespace Kit.Locks.OuterCancel
open Kit.Locks

theorem noLive_spec (s : State) (h : noLive s = true) (t : Tid) (ht : t < s.n) : s.live t = false := by
  unfold noLive at h
  rw [List.all_eq_true] at h
  have := h t (List.mem_range.mpr ht)
  simpa using this

/-- Invariants about *why* and *when* a reader's context is cancelled by `rcancel`. -/
structure Inv (s : State) : Prop where
  /-- registrations, holds and non-idle program counters belong to callers -/
  lv : ∀ (t : Tid), s.live t = true → t < s.n
  pn : ∀ (t : Tid), s.pcs t ≠ .idle → t < s.n
  cn : ∀ (t : Tid) (g : Nat) (w : Bool), s.chBuf = some (t, g, w) → t < s.n
  hn : ∀ (t : Tid) (g : Nat) (w : Bool), s.hpc = .slot t g w ∨ s.hpc = .have t g w → t < s.n
  /-- the handler leaves its loop only after close -/
  ex : s.hpc = .exiting ∨ s.hpc = .dead → s.closed = true
  /-- a grace goroutine that woke by its timer waited the grace period -/
  gt : ∀ (t : Tid) (g : Grace) (st : Nat) (b : Option (Tid × Nat)), s.graces t = some g →
        g.woke = some (.timeout st b) → st + s.grace ≤ s.now ∧ b = g.launchedFor
  /-- a reader cancelled by a timer was cancelled no earlier than the grace period after the launch -/
  tt : ∀ (t : Tid) (st : Nat) (b : Option (Tid × Nat)), s.told t = some (.timeout st b) →
        st + s.grace ≤ s.now ∧ (b = none → s.closed = true) ∧
        (∀ w gw, b = some (w, gw) → 0 < gw ∧ gw ≤ s.gen w)
  /-- who launched a grace goroutine: the section of a writer hold that really was requested
  (`0 < gw ≤ gen w`), or the deferred launch at shutdown -/
  gl : ∀ (t : Tid) (g : Grace), s.graces t = some g →
        (g.launchedFor = none ↔ g.byShutdown = true) ∧
        (∀ w gw, g.launchedFor = some (w, gw) → 0 < gw ∧ gw ≤ s.gen w)
  /-- a caller inside a call has made at least one call -/
  gp : ∀ (t : Tid), s.pcs t ≠ .idle → 0 < s.gen t
  /-- every hold in `ch` or in the handler's hands was really requested -/
  hg : ∀ (t : Tid) (g : Nat) (w : Bool),
        (s.chBuf = some (t, g, w) ∨ s.hpc = .have t g w ∨ s.hpc = .slot t g w ∨ (s.hpc = .wait t g ∧ w = true)) →
        0 < g ∧ g ≤ s.gen t
  /-- shutdown causes only after close -/
  gc : ∀ (t : Tid) (g : Grace), s.graces t = some g → (g.woke = some .closed ∨ g.byShutdown = true) →
        s.closed = true
  tc : ∀ (t : Tid), s.told t = some .closed → s.closed = true
  /-- `doneCh` wakes a grace goroutine only after rcancel ran; then rcancel is a no-op -/
  gd : ∀ (t : Tid) (g : Grace), s.graces t = some g → g.woke = some .done → s.live t = false
  td : ∀ (t : Tid), s.told t ≠ some .done

theorem inv_init (n g : Nat) : Inv (init n g) := by
  constructor <;> simp [init]

macro "oc_close" : tactic =>
  `(tactic| (constructor <;> dsimp only <;> grind [rcancel, launchAll, deliver]))

set_option maxHeartbeats 4000000 in
theorem inv_step (s : State) (a : L) (s' : State) (h : Inv s) (hs : lts.step s a = some s') : Inv s' := by
  obtain ⟨lv, pn, cn, hn, ex, gt, tt, gl, gp, hg, gc, tc, gd, td⟩ := h
  cases a with
  | call t op =>
    cases op <;> simp only [lts, step, stepCore] at hs <;> split at hs <;> (try split at hs) <;> simp at hs <;> subst hs
    all_goals oc_close
  | tau t alt =>
    simp only [lts, step, stepCore] at hs
    split at hs
    all_goals (try (repeat' split at hs)) <;> (try simp at hs) <;> (try subst hs) <;> (try oc_close)
    all_goals (unfold rcancel; split <;> oc_close)
  | ret t r =>
    simp only [lts, step, stepCore] at hs
    split at hs <;> (try split at hs) <;> simp at hs <;> subst hs
    all_goals oc_close
  | probe t p =>
    cases p <;> simp only [lts, step, stepCore] at hs <;> (repeat' split at hs) <;> simp at hs <;> subst hs <;>
      exact ⟨lv, pn, cn, hn, ex, gt, tt, gl, gp, hg, gc, tc, gd, td⟩
  | sys i alt =>
    match i with
    | 0 =>
      simp only [lts, step, stepCore] at hs
      split at hs
      all_goals (try (repeat' split at hs)) <;> (try simp at hs) <;> (try subst hs) <;> (try oc_close)
    | 1 =>
      simp only [lts, step, stepCore] at hs
      split at hs <;> simp at hs; subst hs; oc_close
    | j + 2 =>
      simp only [lts, step, stepCore] at hs
      split at hs
      · split at hs
        · (repeat' split at hs) <;> simp at hs <;> subst hs <;> oc_close
        · simp at hs; subst hs
          unfold rcancel; split <;> oc_close
      · simp at hs
  | env e =>
    cases e <;> simp only [lts, step, stepCore] at hs <;> simp at hs <;> subst hs
    all_goals oc_close

theorem inv_reach (n g : Nat) (s : State) (h : Reach lts (init n g) s) : Inv s :=
  Reach.inv Inv (inv_init n g) inv_step s h

end Kit.Locks.OuterCancel
