import KitModel.SpiffeTA
/-! Soundness of the state-set simulation `Kit.Spiffe.TA.accept` (trust-bundle source, property C19). -/
namespace Kit.Spiffe.TA

inductive TauStep : St → St → Prop where
  | run {s t : St} : step s .run = some t → TauStep s t
  | cons {s t : St} (i : Nat) : step s (.cons i) = some t → TauStep s t
  | consClosed {s t : St} (i : Nat) : step s (.consClosed i) = some t → TauStep s t

inductive TauStar : St → St → Prop where
  | refl (s : St) : TauStar s s
  | tail {s t u : St} : TauStar s t → TauStep t u → TauStar s u

/-- A real execution seen through its observable events (`evState` = meaning of one event on one
state), with internal steps in between. -/
inductive TraceRun : St → List Ev → St → Prop where
  | nil (s : St) : TraceRun s [] s
  | cons {s s1 s2 t : St} {e : Ev} {es : List Ev} :
      evState s e = some s1 → TauStar s1 s2 → TraceRun s2 es t → TraceRun s (e :: es) t

theorem tauSucc_sound {s t : St} (h : t ∈ tauSucc s) : TauStep s t := by
  simp only [tauSucc, List.mem_append, List.mem_flatMap, List.mem_range] at h
  rcases h with h | ⟨i, _, h | h⟩
  · cases hr : step s .run with
    | none => rw [hr] at h; simp at h
    | some u => rw [hr] at h; simp at h; subst h; exact .run hr
  · cases hr : step s (.cons i) with
    | none => rw [hr] at h; simp at h
    | some u => rw [hr] at h; simp at h; subst h; exact .cons i hr
  · cases hr : step s (.consClosed i) with
    | none => rw [hr] at h; simp at h
    | some u => rw [hr] at h; simp at h; subst h; exact .consClosed i hr

theorem mem_foldl_insertNew (xs : List St) : ∀ (acc : List St) (t : St),
    t ∈ xs.foldl insertNew acc → t ∈ acc ∨ t ∈ xs := by
  induction xs with
  | nil => intro acc t h; exact Or.inl h
  | cons x xs ih =>
    intro acc t h
    simp only [List.foldl_cons] at h
    rcases ih _ t h with h | h
    · simp only [insertNew] at h
      split at h
      · exact Or.inl h
      · simp only [List.mem_append, List.mem_singleton] at h
        rcases h with h | h
        · exact Or.inl h
        · exact Or.inr (by simp [h])
    · exact Or.inr (by simp [h])

theorem closure_sound (P : St → Prop) (hP : ∀ s t, P s → TauStep s t → P t) :
    ∀ (n : Nat) (seen : Seen) (acc todo : List St), (∀ t ∈ acc, P t) → (∀ t ∈ todo, P t) →
      ∀ t ∈ closure n seen acc todo, P t := by
  intro n
  induction n with
  | zero => intro seen acc todo ha _ t ht; simp only [closure] at ht; exact ha t ht
  | succ n ih =>
    intro seen acc todo ha htodo t ht
    cases todo with
    | nil => simp only [closure] at ht; exact ha t ht
    | cons s todo =>
      simp only [closure] at ht
      have hs : P s := htodo s (by simp)
      have hnew : ∀ u ∈ ((tauSucc s).filter fun t => !(seen.contains t)).foldl insertNew [],
          P u := by
        intro u hu
        rcases mem_foldl_insertNew _ [] u hu with h | h
        · simp at h
        · exact hP s u hs (tauSucc_sound (List.mem_filter.mp h).1)
      apply ih _ _ _ _ _ t ht
      · intro u hu
        rcases List.mem_append.mp hu with h | h
        · exact hnew u h
        · exact ha u h
      · intro u hu
        rcases List.mem_append.mp hu with h | h
        · exact hnew u h
        · exact htodo u (by simp [h])

theorem close_sound {m : List St} {t : St} (ht : t ∈ close m) : ∃ s ∈ m, TauStar s t := by
  simp only [close] at ht
  have hinit : ∀ u ∈ m.foldl insertNew [], ∃ s ∈ m, TauStar s u := by
    intro u hu
    rcases mem_foldl_insertNew _ [] u hu with h | h
    · simp at h
    · exact ⟨u, h, .refl u⟩
  exact closure_sound (fun u => ∃ s ∈ m, TauStar s u)
    (fun s t ⟨s0, h0, hs⟩ hst => ⟨s0, h0, .tail hs hst⟩) _ _ _ _ hinit hinit t ht

theorem closure_superset : ∀ (n : Nat) (seen : Seen) (acc todo : List St) (t : St), t ∈ acc →
    t ∈ closure n seen acc todo := by
  intro n
  induction n with
  | zero => intro seen acc todo t h; simpa [closure] using h
  | succ n ih =>
    intro seen acc todo t h
    cases todo with
    | nil => simpa [closure] using h
    | cons s todo => simp only [closure]; exact ih _ _ _ t (List.mem_append.mpr (Or.inr h))

theorem acceptFrom_sound : ∀ (es : List Ev) (m : List St) (k : Nat) (mf : List St),
    acceptFrom m k es = (none, mf) → (m ≠ [] → mf ≠ []) ∧ ∀ t ∈ mf, ∃ s ∈ m, TraceRun s es t := by
  intro es
  induction es with
  | nil =>
    intro m k mf h
    simp only [acceptFrom, Prod.mk.injEq, true_and] at h
    subst h
    exact ⟨fun h => h, fun t ht => ⟨t, ht, .nil _⟩⟩
  | cons e es ih =>
    intro m k mf h
    simp only [acceptFrom] at h
    split at h
    · simp at h
    · rename_i hne
      obtain ⟨hn, hall⟩ := ih _ _ _ h
      refine ⟨fun _ => hn (by intro h0; rw [h0] at hne; simp at hne), ?_⟩
      intro t ht
      obtain ⟨s2, hs2, htr⟩ := hall t ht
      obtain ⟨s1, hs1, htau⟩ := close_sound hs2
      simp only [List.mem_filterMap] at hs1
      obtain ⟨s, hs, hev⟩ := hs1
      exact ⟨s, hs, .cons hev htau htr⟩

theorem tauStar_reach {a s t : St} (h0 : Reach a s) (h : TauStar s t) : Reach a t := by
  induction h with
  | refl => exact h0
  | tail _ hs ih =>
    cases hs with
    | run h => exact .tail _ ih h
    | cons i h => exact .tail _ ih h
    | consClosed i h => exact .tail _ ih h

theorem of_ite_some {c : Prop} [Decidable c] {s t : St}
    (h : (if c then some s else none) = some t) : s = t := by
  split at h <;> simp_all

theorem evState_reach {a s t : St} {e : Ev} (h0 : Reach a s) (h : evState s e = some t) : Reach a t := by
  cases e with
  | callRun => exact .tail .callRun h0 h
  | callBundle c => exact .tail (.callBundle c) h0 h
  | callWatch => exact .tail .callWatch h0 h
  | file f => exact .tail (.fileWrite f) h0 h
  | nop => simp only [evState, Option.some.injEq] at h; subst h; exact h0
  | ret i r => simp only [evState] at h; exact (of_ite_some h) ▸ h0
  | runRet e => simp only [evState] at h; exact (of_ite_some h) ▸ h0
  | quiet p => simp only [evState] at h; exact (of_ite_some h) ▸ h0
  | stop =>
    simp only [evState] at h
    split at h
    · rename_i u hu; simp at h; subst h; exact .tail _ h0 hu
    · simp at h; subst h; exact h0
  | cancel i =>
    simp only [evState] at h
    split at h
    · rename_i u hu; simp at h; subst h; exact .tail _ h0 hu
    · split at h <;> simp at h <;> subst h <;> exact h0

theorem traceRun_reach {a s t : St} {es : List Ev} (h0 : Reach a s) (h : TraceRun s es t) : Reach a t := by
  induction h with
  | nil => exact h0
  | cons hev htau _ ih => exact ih (tauStar_reach (evState_reach h0 hev) htau)

end Kit.Spiffe.TA
