import KitProofs.Props.C03
/-!
C07 over C03's model of `crypto/symmetric.go`: `EncryptSymmetric` / `DecryptSymmetric` (and with
them every helper they dispatch to) cannot panic, for every algorithm name, key kind and argument
length.  C03's model is tied to the source by its own regenerated guard prefixes
(`Generated.C03.steps_*`, dispatch tables), so these are theorems about the guards as they are
in /repo now.
-/
namespace Kit.CryptoGlue
open Kit Kit.CryptoGlue.Facts

/-- `cipher.AEAD.Open` with a nonce of `NonceSize()` bytes returns (plaintext or error): the
standard-library AEADs panic only on a wrong-size nonce. -/
def AEAD.OpenSafe (a : AEAD) : Prop :=
  ∀ nonce ct ad, nonce.length = a.nonceSize → (a.doOpen nonce ct ad).isPanic = false

structure Prims.OpenSafe (P : Prims) : Prop where
  gcm : ∀ key, (P.gcm key).OpenSafe
  chacha : ∀ key, (P.chacha key).OpenSafe
  xchacha : ∀ key, (P.xchacha key).OpenSafe

theorem ite_np {α} (c : Prop) [Decidable c] (a b : Outcome α)
    (ha : a.isPanic = false) (hb : b.isPanic = false) : (if c then a else b).isPanic = false := by
  by_cases h : c
  · rw [if_pos h]; exact ha
  · rw [if_neg h]; exact hb

theorem bind_ok' {α β} (a : α) (f : α → Outcome β) : (Outcome.ok a).bind f = f a := rfl

theorem dite_np {α} (c : Prop) [Decidable c] (a b : Outcome α)
    (ha : c → a.isPanic = false) (hb : ¬ c → b.isPanic = false) : (if c then a else b).isPanic = false := by
  by_cases h : c
  · rw [if_pos h]; exact ha h
  · rw [if_neg h]; exact hb h

theorem encryptAEAD_np (a : AEAD) (hL : a.Lawful) (pt nonce ad : Bytes) :
    (encryptAEAD a pt nonce ad).isPanic = false := by
  rw [encryptAEAD_eq]
  by_cases h : nonce.length = a.nonceSize
  · rw [if_neg (by simpa using h)]
    obtain ⟨out, h1, h2, _⟩ := hL.roundtrip nonce pt ad h
    rw [h1, bind_ok', if_neg (by omega)]; rfl
  · rw [if_pos (by simpa using h)]; rfl

theorem decryptAEAD_np (a : AEAD) (hO : a.OpenSafe) (ct nonce tag ad : Bytes) :
    (decryptAEAD a ct nonce tag ad).isPanic = false := by
  rw [decryptAEAD_eq]
  by_cases h : nonce.length = a.nonceSize
  · rw [if_neg (by simpa using h)]
    exact ite_np _ _ _ rfl (hO nonce (ct ++ tag) ad h)
  · rw [if_pos (by simpa using h)]; rfl

theorem pad_np (buf : Bytes) (size : Nat) : (pad buf size).isPanic = false := by
  unfold pad; split <;> rfl

theorem unpad_np (buf : Bytes) (size : Nat) : (unpad buf size).isPanic = false := by
  unfold unpad
  split
  · rfl
  · split
    · rfl
    · split
      · rfl
      · simp only
        split
        · rfl
        · split <;> rfl

theorem wrap_np (bc : BlockCipher) (cek : Bytes) : (wrap bc cek).isPanic = false := by
  unfold wrap
  split
  · rfl
  · split <;> rfl

theorem cbcEncrypt_np (bc : BlockCipher) (iv data : Bytes) (h1 : iv.length = 16) (h2 : data.length % 16 = 0) :
    ∃ ct, cbcEncrypt bc iv data = .ok ct := by
  unfold cbcEncrypt
  rw [if_neg (by omega), if_neg (by omega)]
  exact ⟨_, rfl⟩

theorem cbcDecrypt_np (bc : BlockCipher) (iv data : Bytes) (h1 : iv.length = 16) (h2 : data.length % 16 = 0) :
    ∃ pt, cbcDecrypt bc iv data = .ok pt := by
  unfold cbcDecrypt
  rw [if_neg (by omega), if_neg (by omega)]
  exact ⟨_, rfl⟩

theorem pad16_ok (pt : Bytes) : ∃ padded, pad pt 16 = .ok padded ∧ padded.length % 16 = 0 := by
  refine ⟨pt ++ List.replicate (16 - pt.length % 16) (UInt8.ofNat (16 - pt.length % 16)), ?_, ?_⟩
  · unfold pad; simp
  · rw [List.length_append, List.length_replicate]
    have := Nat.mod_lt pt.length (by omega : 16 > 0)
    omega

/-- for a nonce of ANY length (fix c71e752: a wrong-size nonce is an error) -/
theorem cbcHmacOpen_np (P : Prims) (p : AeadParams) (key iv c ad : Bytes) :
    (cbcHmacOpen P p key iv c ad).isPanic = false := by
  unfold cbcHmacOpen
  split
  · rfl
  · rename_i hn
    have hiv : iv.length = 16 := by omega
    split
    · rfl
    · simp only
      split
      · rfl
      · split
        · rfl
        · rename_i hal
          obtain ⟨out, hout⟩ := cbcDecrypt_np (P.aes (encKeyOf p key)) iv (c.take (c.length - p.tagSize)) hiv
            (by simpa using hal)
          rw [hout]
          exact unpad_np out 16

theorem cbcHmacAEAD_openSafe (P : Prims) (p : AeadParams) (key : Bytes) : (cbcHmacAEAD P p key).OpenSafe := by
  intro nonce ct ad _
  exact cbcHmacOpen_np P p key nonce ct ad

/-- a name the dispatch switch knows is one of the supported names -/
theorem mem_of_lookup (sw : Switch) (names : List String)
    (hsub : sw.cases.all (fun c => c.1.all (fun a => names.contains a)) = true)
    (alg : String) (r : String × String) (h : lookupSwitch sw alg = some r) : alg ∈ names := by
  unfold lookupSwitch at h
  cases hf : sw.cases.find? (fun c => c.1.contains alg) with
  | none => rw [hf] at h; cases h
  | some c =>
    have hp := List.find?_some hf
    have hm := List.mem_of_find?_eq_some hf
    rw [List.all_eq_true] at hsub
    have h1 := hsub c hm
    rw [List.all_eq_true] at h1
    have hin : alg ∈ c.1 := by simpa using hp
    have := h1 alg hin
    simpa using this

theorem denotes_of_mem {alg : String} (h : alg ∈ Generated.C03.supportedSymmetric) :
    ∃ d, denotes alg = some d ∧ symFactsB alg d = true := by
  have := symDispatchOK_all alg h
  unfold symDispatchOK at this
  cases hd : denotes alg with
  | none => simp [hd] at this
  | some d => exact ⟨d, rfl, by simpa [hd] using this⟩

theorem decryptSymmetric_oct_np (P : Prims) (hS : P.Std) (hO : P.OpenSafe)
    (ct : Bytes) (alg : String) (key nonce tag ad : Bytes) :
    (decryptSymmetric P ct alg ⟨.oct, key⟩ nonce tag ad).isPanic = false := by
  cases hs : lookupSwitch Generated.C03.sw_DecryptSymmetric alg with
  | none =>
    unfold decryptSymmetric
    simp only [hs]
    exact ite_np _ _ _ rfl rfl
  | some r =>
    have hmem := mem_of_lookup Generated.C03.sw_DecryptSymmetric Generated.C03.supportedSymmetric (by decide) alg r hs
    obtain ⟨d, _, hf⟩ := denotes_of_mem hmem
    cases hfam : d.family with
    | cbc =>
      rw [decNF_cbc P hf hfam]
      refine ite_np _ _ _ rfl (dite_np _ _ _ (fun _ => rfl) fun h2 => dite_np _ _ _ (fun _ => rfl) fun h3 => ?_)
      obtain ⟨pt, hpt⟩ := cbcDecrypt_np (P.aes key) nonce ct (by omega) (by omega)
      rw [hpt, bind_ok']
      exact ite_np _ _ _ rfl (unpad_np pt 16)
    | gcm =>
      rw [decNF_gcm P hf hfam]
      exact ite_np _ _ _ rfl (decryptAEAD_np _ (hO.gcm key) ct nonce tag ad)
    | kw =>
      rw [decNF_kw P hf hfam]
      exact ite_np _ _ _ rfl (unwrap_never_panics _ ct)
    | cbchmac =>
      obtain ⟨c, p, hc, hp, hkl, hsum, _⟩ := symFacts_cbchmac hf hfam
      rw [decNF_cbchmac P hf hfam c p hc hp hkl hsum]
      exact ite_np _ _ _ rfl (decryptAEAD_np _ (cbcHmacAEAD_openSafe P p key) ct nonce tag ad)
    | chacha =>
      obtain ⟨c, hc, hkl, hnl, _, _, hctor⟩ := symFacts_chacha hf hfam
      rw [decNF_chacha P hf hfam c hc hkl hnl]
      refine ite_np _ _ _ rfl (dite_np _ _ _ (fun _ => rfl) fun h2 => ite_np _ _ _ rfl ?_)
      have hsz := (chachaAEAD_sizes P hS c key d.nonceLen hctor).1
      have hsafe : (chachaAEAD P c key).OpenSafe := by
        unfold chachaAEAD
        split
        · exact hO.xchacha key
        · exact hO.chacha key
      exact hsafe nonce (ct ++ tag) ad (by omega)

theorem encryptSymmetric_oct_np (P : Prims) (hS : P.Std) (hL : P.LawfulPrims)
    (pt : Bytes) (alg : String) (key nonce ad : Bytes) :
    (encryptSymmetric P pt alg ⟨.oct, key⟩ nonce ad).isPanic = false := by
  cases hs : lookupSwitch Generated.C03.sw_EncryptSymmetric alg with
  | none =>
    unfold encryptSymmetric
    simp only [hs]
    exact ite_np _ _ _ rfl rfl
  | some r =>
    have hmem := mem_of_lookup Generated.C03.sw_EncryptSymmetric Generated.C03.supportedSymmetric (by decide) alg r hs
    obtain ⟨d, _, hf⟩ := denotes_of_mem hmem
    cases hfam : d.family with
    | cbc =>
      rw [encNF_cbc P hf hfam]
      refine ite_np _ _ _ rfl (dite_np _ _ _ (fun _ => rfl) fun h2 => dite_np _ _ _ (fun _ => rfl) fun h3 => ?_)
      by_cases hnp : d.nopad = true
      · rw [if_pos hnp]
        have h16 : pt.length % 16 = 0 := by
          by_cases h : pt.length % 16 = 0
          · exact h
          · exact absurd ⟨hnp, h⟩ h3
        obtain ⟨ct, hct⟩ := cbcEncrypt_np (P.aes key) nonce pt (by omega) h16
        rw [hct]; rfl
      · rw [if_neg hnp]
        obtain ⟨padded, hp, hlen⟩ := pad16_ok pt
        obtain ⟨ct, hct⟩ := cbcEncrypt_np (P.aes key) nonce padded (by omega) hlen
        rw [hp, bind_ok', hct]; rfl
    | gcm =>
      rw [encNF_gcm P hf hfam]
      exact ite_np _ _ _ rfl (encryptAEAD_np _ (hL.gcm key) pt nonce ad)
    | kw =>
      rw [encNF_kw P hf hfam]
      refine ite_np _ _ _ rfl ?_
      have := wrap_np (P.aes key) pt
      revert this
      cases wrap (P.aes key) pt <;> simp [Outcome.bind, Outcome.isPanic]
    | cbchmac =>
      obtain ⟨c, p, hc, hp, hkl, hsum, _, _, henc, hmac, hbits, _⟩ := symFacts_cbchmac hf hfam
      rw [encNF_cbchmac P hf hfam c p hc hp hkl hsum]
      refine dite_np _ _ _ (fun _ => rfl) fun hk => ?_
      -- `encryptAEAD` of the CBC-HMAC AEAD: nonce guard, then `Seal` on a nonce of one block
      rw [encryptAEAD_eq]
      refine dite_np _ _ _ (fun _ => rfl) fun hn => ?_
      have hn16 : nonce.length = 16 := by
        have : nonce.length = (cbcHmacAEAD P p key).nonceSize := by omega
        simpa [cbcHmacAEAD] using this
      have hlaw : (P.aes (encKeyOf p key)).Lawful := by
        apply hL.aes
        have : (encKeyOf p key).length = p.encKeySize := by
          unfold encKeyOf
          rw [List.length_drop]
          omega
        omega
      have hm : MacLongEnough P p := by
        intro k m
        have := hL.hmacLen p.hashBits k m
        omega
      obtain ⟨out, h1, h2, _⟩ := (cbcHmacAEAD_lawful P p key hlaw hm).roundtrip nonce pt ad (by simpa [cbcHmacAEAD] using hn16)
      rw [h1, bind_ok', if_neg (by omega)]; rfl
    | chacha =>
      obtain ⟨c, hc, hkl, hnl, _, hsplit, hctor⟩ := symFacts_chacha hf hfam
      rw [encNF_chacha P hf hfam c hc hkl hnl]
      refine ite_np _ _ _ rfl (dite_np _ _ _ (fun _ => rfl) fun h2 => ?_)
      obtain ⟨hsz, hov⟩ := chachaAEAD_sizes P hS c key d.nonceLen hctor
      obtain ⟨out, h1, h2', _⟩ := (chachaAEAD_lawful P hL c key).roundtrip nonce pt ad (by omega)
      rw [h1, bind_ok', if_neg (by omega)]; rfl

/-- keys of every other kind are refused before anything is looked at -/
theorem symmetric_nonoct (k : KeyKind) (h : k ≠ .oct) : keyTypeName k ≠ "jwa.OctetSeq" := by
  cases k <;> first | exact absurd rfl h | simp [keyTypeName]

end Kit.CryptoGlue
