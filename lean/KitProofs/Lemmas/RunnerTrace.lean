import KitProofs.Lemmas.RunnerCloserAll
/-! C12 helper lemmas: relating the event log of an execution to the state it reaches. -/
namespace Kit.Runner

/-- The value a runner goroutine carries: what its body returned. -/
def RPc.retVal : RPc → Option Ret
  | .returned v | .delivered v | .done v => some v
  | _ => none

theorem RCM.reach_of_exec {cfg : Cfg} {tr : List Label} {s : RCM} (h : RCM.Exec cfg tr s) :
    RCM.Reach cfg s := by
  induction h with
  | init => exact RCM.Reach.init
  | step a _ hs ih => exact RCM.Reach.step a ih hs

theorem RM.reach_of_exec {tr : List RLabel} {s : RM} (h : RM.Exec tr s) : RM.Reach s := by
  induction h with
  | init => exact RM.Reach.init
  | step a _ hs ih => exact RM.Reach.step a ih hs

/-- A runner carries a value after a step only if this step is its `ret` event or it carried the
value before. -/
theorem RM.retVal_source {s s' : RM} (a : RLabel) (hs : s.step a = some s') (i : Nat) (p' : RPc)
    (v : Ret) (hp : s'.pcs[i]? = some p') (hv : p'.retVal = some v) :
    a = .ret i v ∨ ∃ p, s.pcs[i]? = some p ∧ p.retVal = some v := by
  cases a <;> grind [RM.step, RPc.retVal]

theorem RCM.retVal_source (cfg : Cfg) {s s' : RCM} (a : Label) (hs : s.step cfg a = some s')
    (i : Nat) (p' : RPc) (v : Ret) (hp : s'.inner.pcs[i]? = some p') (hv : p'.retVal = some v) :
    a = .inner (.ret i v) ∨ ∃ p, s.inner.pcs[i]? = some p ∧ p.retVal = some v := by
  cases a with
  | inner b =>
    simp only [RCM.step] at hs
    split at hs
    · cases hb : s.inner.step b with
      | none => simp [hb] at hs
      | some r =>
        simp [hb] at hs; subst hs
        rcases RM.retVal_source b hb i p' v hp hv with h | h
        · left; rw [h]
        · right; exact h
    · simp at hs
  | _ =>
    right
    simp only [RCM.step] at hs
    repeat' (split at hs)
    all_goals (simp at hs)
    all_goals (try subst hs)
    all_goals grind [RPc.retVal]

/-- Every value a runner carries was logged as its `ret` event. -/
theorem RCM.ret_in_trace {cfg : Cfg} {tr : List Label} {s : RCM} (h : RCM.Exec cfg tr s)
    (i : Nat) (p : RPc) (v : Ret) (hp : s.inner.pcs[i]? = some p) (hv : p.retVal = some v) :
    Label.inner (.ret i v) ∈ tr := by
  induction h generalizing p with
  | init => simp at hp
  | step a _ hs ih =>
    rcases RCM.retVal_source cfg a hs i p v hp hv with h | ⟨q, hq, hqv⟩
    · simp [h]
    · exact List.mem_cons_of_mem _ (ih q hq hqv)

theorem RM.ret_in_trace {tr : List RLabel} {s : RM} (h : RM.Exec tr s)
    (i : Nat) (p : RPc) (v : Ret) (hp : s.pcs[i]? = some p) (hv : p.retVal = some v) :
    RLabel.ret i v ∈ tr := by
  induction h generalizing p with
  | init => simp at hp
  | step a _ hs ih =>
    rcases RM.retVal_source a hs i p v hp hv with h | ⟨q, hq, hqv⟩
    · simp [h]
    · exact List.mem_cons_of_mem _ (ih q hq hqv)

theorem RPc.retVal_of_isDelivered (p : RPc) (h : p.isDelivered = true) : ∃ v, p.retVal = some v := by
  cases p <;> simp_all [RPc.isDelivered, RPc.retVal]

end Kit.Runner
