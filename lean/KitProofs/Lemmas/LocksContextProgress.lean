import KitProofs.Lemmas.LocksContext
/-!
lock.Context: progress facts.  Every waiter whose context has ended can leave by its own steps
(any number of them, in any state); the token queue is FIFO: arrivals append at the tail, a waiter
whose context ends removes itself, the release hands the slot to the head, nobody takes the slot
past parked waiters; so the position of a parked waiter never increases and decreases by one with
every hand-off.
-/
namespace Kit.Locks.Context
open Kit.Locks

/-- caller `t` waits in `Lock/RLock` (before or after parking in the select) -/
def waitingPc : PC → Bool
  | .called _ | .queued _ => true
  | _ => false

/-- the state after waiter `t` has returned its context's error -/
def leave (s : State) (t : Tid) : State :=
  { s with pcs := upd s.pcs t .idle,
           sendq := if (s.pcs t).isQueued then s.sendq.erase t else s.sendq }

theorem upd_upd_same {β : Type} (f : Nat → β) (t : Nat) (a b : β) : upd (upd f t a) t b = upd f t b := by
  funext j; unfold upd; split <;> rfl

theorem idxOf_cons_ne' (x t : Tid) (l : List Tid) (h : x ≠ t) : (x :: l).idxOf t = l.idxOf t + 1 := by
  rw [List.idxOf_cons]
  have : (x == t) = false := by simpa using h
  rw [this]; rfl

theorem waiter_leaves (s : State) (t : Tid) (hw : waitingPc (s.pcs t) = true) (hd : s.ctxDone t = true) :
    lts.run s [.tau t 0, .ret t true] = some (leave s t) := by
  generalize hpc : s.pcs t = pc at hw
  cases pc <;> simp [waitingPc] at hw
  · simp [LTS.run, lts, step, hpc, hd, leave, PC.isQueued, upd_upd_same]
  · simp [LTS.run, lts, step, hpc, hd, leave, PC.isQueued, upd_upd_same]

def leaveLabels (t : Tid) : List L := [.tau t 0, .ret t true]

/-- Every waiter whose context has ended leaves, whatever the others do or hold: from ANY state,
for ANY duplicate-free list of such waiters, their own steps alone bring all of them back to idle
with an error; token, RWMutex and all other callers are untouched, the queue only loses them. -/
theorem all_waiters_leave : ∀ (ws : List Tid) (s : State), ws.Nodup →
    (∀ t ∈ ws, waitingPc (s.pcs t) = true ∧ s.ctxDone t = true) →
    ∃ s', lts.run s (ws.flatMap leaveLabels) = some s' ∧
      (∀ t ∈ ws, s'.pcs t = .idle) ∧ (∀ u, u ∉ ws → s'.pcs u = s.pcs u) ∧
      s'.tok = s.tok ∧ s'.w = s.w ∧ s'.rs = s.rs ∧ s'.ctxDone = s.ctxDone ∧
      (∀ u, u ∈ s'.sendq → u ∈ s.sendq) ∧ (∀ u, u ∈ s.sendq → u ∉ ws → u ∈ s'.sendq) := by
  intro ws
  induction ws with
  | nil => intro s _ _; exact ⟨s, rfl, by simp, by simp, rfl, rfl, rfl, rfl, by simp, by simp⟩
  | cons t ws ih =>
    intro s hnd hw
    have ht := hw t List.mem_cons_self
    have hrun := waiter_leaves s t ht.1 ht.2
    have hnd' : ws.Nodup := (List.nodup_cons.mp hnd).2
    have htn : t ∉ ws := (List.nodup_cons.mp hnd).1
    have hw' : ∀ u ∈ ws, waitingPc ((leave s t).pcs u) = true ∧ (leave s t).ctxDone u = true := by
      intro u hu
      have hne : u ≠ t := fun e => htn (e ▸ hu)
      have := hw u (List.mem_cons_of_mem _ hu)
      simpa [leave, upd, hne] using this
    obtain ⟨s', hr, h1, h2, h3, h4, h5, h6, h7, h8⟩ := ih (leave s t) hnd' hw'
    refine ⟨s', ?_, ?_, ?_, ?_, ?_, ?_, ?_, ?_, ?_⟩
    · simp only [List.flatMap_cons, leaveLabels]
      rw [LTS.run_append]
      rw [hrun]; exact hr
    · intro u hu
      rcases List.mem_cons.mp hu with rfl | hu
      · rw [h2 u htn]; simp [leave, upd]
      · exact h1 u hu
    · intro u hu
      have hne : u ≠ t := fun e => hu (e ▸ List.mem_cons_self)
      have hu' : u ∉ ws := fun e => hu (List.mem_cons_of_mem _ e)
      rw [h2 u hu']; simp [leave, upd, hne]
    · rw [h3]; rfl
    · rw [h4]; rfl
    · rw [h5]; rfl
    · rw [h6]; rfl
    · intro u hu
      have := h7 u hu
      simp only [leave] at this
      split at this
      · exact List.mem_of_mem_erase this
      · exact this
    · intro u hu hnu
      have hne : u ≠ t := fun e => hnu (e ▸ List.mem_cons_self)
      have hu' : u ∉ ws := fun e => hnu (List.mem_cons_of_mem _ e)
      apply h8 u _ hu'
      simp only [leave]
      split
      · exact (List.mem_erase_of_ne hne).mpr hu
      · exact hu

/-! ### queue discipline -/

/-- how the token queue may change in one step -/
inductive QStep (s s' : State) : Prop where
  | same : s'.sendq = s.sendq → QStep s s'
  | arrive (t : Tid) : s'.sendq = s.sendq ++ [t] → t ∉ s.sendq → s.tok ≠ none → s.ctxDone t = false → QStep s s'
  | cancel (t : Tid) : s'.sendq = s.sendq.erase t → s.ctxDone t = true → (s'.pcs t) = .errRet → QStep s s'
  | handoff (h : Tid) (rest : List Tid) : s.sendq = h :: rest → s'.sendq = rest → s'.tok = some h →
      (s'.pcs h).hasTok = true → QStep s s'

theorem queue_discipline (s : State) (a : L) (s' : State) (inv : Inv s) (hs : lts.step s a = some s') :
    QStep s s' := by
  cases a with
  | call t op =>
    cases op <;> simp only [lts, step] at hs <;> (repeat' split at hs) <;> simp at hs <;> subst hs <;>
      exact .same rfl
  | tau t alt =>
    simp only [lts, step] at hs
    split at hs
    · rename_i md heq
      by_cases ha : alt = 0
      · simp [ha] at hs
        obtain ⟨_, rfl⟩ := hs
        exact .same rfl
      · simp [ha] at hs
        split at hs
        · simp at hs; subst hs; exact .same rfl
        · rename_i u htok
          split at hs <;> simp at hs
          rename_i hcd
          subst hs
          refine .arrive t rfl ?_ (by simp [htok]) (by simpa using hcd)
          intro hm
          have := (inv.qI t).mp hm
          simp [heq, PC.isQueued] at this
    · rename_i md heq
      split at hs <;> simp at hs
      rename_i hc
      subst hs
      simp at hc
      exact .cancel t rfl hc.2 (by simp [upd])
    · split at hs <;> simp at hs; subst hs; exact .same rfl
    · split at hs <;> simp at hs; subst hs; exact .same rfl
    · split at hs <;> simp at hs; subst hs; exact .same rfl
    · split at hs <;> simp at hs; subst hs; exact .same rfl
    · split at hs
      · split at hs
        · simp at hs; subst hs; exact .same rfl
        · rename_i h rest hq
          split at hs <;> simp at hs
          subst hs
          exact .handoff h rest hq rfl rfl (by simp [upd, PC.hasTok])
      · simp at hs
    · simp at hs
  | ret t r =>
    simp only [lts, step] at hs; (repeat' split at hs) <;> simp at hs <;> subst hs <;> exact .same rfl
  | probe t p =>
    cases p; simp only [lts, step] at hs; split at hs <;> simp at hs; subst hs; exact .same rfl
  | sys i alt => simp [lts, step] at hs
  | env e => cases e; simp only [lts, step] at hs; simp at hs; subst hs; exact .same rfl

theorem idxOf_erase_le (l : List Tid) (t u : Tid) (h : t ≠ u) :
    (l.erase u).idxOf t ≤ l.idxOf t := by
  induction l with
  | nil => simp
  | cons x l ih =>
    by_cases hxu : x = u
    · subst hxu
      simp only [List.erase_cons_head]
      rw [idxOf_cons_ne' _ _ _ (Ne.symm h)]
      exact Nat.le_succ _
    · rw [List.erase_cons_tail (by simpa using hxu)]
      by_cases hxt : x = t
      · subst hxt; simp
      · rw [idxOf_cons_ne' _ _ _ hxt, idxOf_cons_ne' _ _ _ hxt]
        exact Nat.succ_le_succ ih

/-- Bounded overtaking: a parked waiter's position in the token queue never increases, and every
hand-off of the token moves it one place forward (or grants it the token when it is the head). -/
theorem position_never_increases (s : State) (a : L) (s' : State) (inv : Inv s)
    (hs : lts.step s a = some s') (t : Tid) (ht : t ∈ s.sendq) (ht' : t ∈ s'.sendq) :
    s'.sendq.idxOf t ≤ s.sendq.idxOf t ∧
    (∀ h rest, s.sendq = h :: rest → s'.sendq = rest → s'.sendq.idxOf t + 1 = s.sendq.idxOf t) := by
  have hnd := inv.qnd
  constructor
  · cases queue_discipline s a s' inv hs with
    | same e => rw [e]; exact Nat.le_refl _
    | arrive u e _ _ _ => rw [e, List.idxOf_append, if_pos ht]; exact Nat.le_refl _
    | cancel u e _ hpc =>
      rw [e]
      by_cases htu : t = u
      · subst htu
        rw [e] at ht'
        exact absurd ht' (fun hm => (List.Nodup.mem_erase_iff hnd).mp hm |>.1 rfl)
      · exact idxOf_erase_le _ _ _ htu
    | handoff h rest e e' _ _ =>
      rw [e', e]
      have hne : h ≠ t := by
        intro heq; subst heq
        rw [e] at hnd; rw [e'] at ht'
        exact (List.nodup_cons.mp hnd).1 ht'
      rw [idxOf_cons_ne' _ _ _ hne]; exact Nat.le_succ _
  · intro h rest e e'
    rw [e', e]
    have hne : h ≠ t := by
      intro heq; subst heq
      rw [e] at hnd; rw [e'] at ht'
      exact (List.nodup_cons.mp hnd).1 ht'
    rw [idxOf_cons_ne' _ _ _ hne]

end Kit.Locks.Context
