import KitModel.Queue
import KitProofs.Lemmas.Queue
/-!
The binary heap with stored indices (`Kit.Queue.Heap`, the algorithm of `container/heap` as
`queue.go` drives it) refines the queue specification: heap order, stored indices and key
uniqueness are invariants of the four operations, the live items change as the specification says,
and `Peek`/`Pop` return a minimal item.
-/
namespace Kit.Queue.Heap

set_option linter.unusedSectionVars false

variable {κ ν : Type} [DecidableEq κ] [DecidableEq ν]

/-! ### swap -/

theorem size_swap (h : H κ ν) (i j : Nat) : (swap h i j).size = h.size := by
  unfold swap; split <;> simp

theorem lt_of_get {h : H κ ν} {i : Nat} {a : Entry κ ν} (ha : h[i]? = some a) : i < h.size := by
  rcases Nat.lt_or_ge i h.size with h1 | h1
  · exact h1
  · simp [Array.getElem?_eq_none h1] at ha

theorem get_of_lt {h : H κ ν} {i : Nat} (hi : i < h.size) : ∃ a, h[i]? = some a :=
  ⟨h[i], by simp [hi]⟩

theorem getElem?_swap {h : H κ ν} {i j : Nat} {a b : Entry κ ν} (ha : h[i]? = some a) (hb : h[j]? = some b)
    (k : Nat) :
    (swap h i j)[k]? = if k = j then some { a with index := j } else if k = i then some { b with index := i } else h[k]? := by
  unfold swap
  simp only [ha, hb]
  have hi := lt_of_get ha
  have hj := lt_of_get hb
  simp only [Array.getElem?_setIfInBounds, Array.size_setIfInBounds]
  grind

/-- The scheduled time stored at position `k` (0 outside the array). -/
def T (h : H κ ν) (k : Nat) : Int :=
  match h[k]? with
  | some e => e.value.time
  | none => 0

theorem T_swap {h : H κ ν} {i j : Nat} (hi : i < h.size) (hj : j < h.size) (k : Nat) :
    T (swap h i j) k = if k = j then T h i else if k = i then T h j else T h k := by
  obtain ⟨a, ha⟩ := get_of_lt hi
  obtain ⟨b, hb⟩ := get_of_lt hj
  unfold T
  rw [getElem?_swap ha hb k]
  by_cases h1 : k = j
  · simp [h1, ha]
  · by_cases h2 : k = i
    · subst h2; simp [h1, hb]
    · simp [h1, h2]

theorem less_eq {h : H κ ν} {i j : Nat} (hi : i < h.size) (hj : j < h.size) :
    less h i j = decide (T h i < T h j) := by
  obtain ⟨a, ha⟩ := get_of_lt hi
  obtain ⟨b, hb⟩ := get_of_lt hj
  simp [less, T, ha, hb]

/-! ### heap order on a prefix -/

/-- Heap order on the prefix of length `n`. -/
def Ord (h : H κ ν) (n : Nat) : Prop := ∀ k, 0 < k → k < n → T h ((k - 1) / 2) ≤ T h k

/-- Heap order on the prefix except possibly the edge into `x`. -/
def OrdEx (h : H κ ν) (n x : Nat) : Prop := ∀ k, 0 < k → k < n → k ≠ x → T h ((k - 1) / 2) ≤ T h k

/-- The parent of `x` is not later than the children of `x`. -/
def GP (h : H κ ν) (n x : Nat) : Prop :=
  0 < x → ∀ c, 0 < c → c < n → (c - 1) / 2 = x → T h ((x - 1) / 2) ≤ T h c

theorem up_ord (n : Nat) : ∀ (fuel : Nat) (h : H κ ν) (j : Nat), n ≤ h.size → j < n → j < fuel →
    OrdEx h n j → GP h n j → Ord (up h j fuel) n ∧ (up h j fuel).size = h.size := by
  intro fuel
  induction fuel with
  | zero => intro h j _ _ hf; omega
  | succ fuel ih =>
    intro h j hn hj hf hex hgp
    unfold Ord
    simp only [up]
    by_cases h0 : (j - 1) / 2 = j
    · -- j = 0
      rw [if_pos (Or.inl h0)]
      refine ⟨?_, rfl⟩
      have : j = 0 := by omega
      subst this
      intro k hk hkn
      exact hex k hk hkn (by omega)
    · have hjpos : 0 < j := by omega
      have hp : (j - 1) / 2 < j := by omega
      rw [less_eq (by omega) (by omega)]
      by_cases hl : T h j < T h ((j - 1) / 2)
      · rw [if_neg (by simp [h0, hl])]
        have hsz := size_swap h ((j - 1) / 2) j
        have hT := T_swap (h := h) (i := (j - 1) / 2) (j := j) (by omega) (by omega)
        have := ih (swap h ((j - 1) / 2) j) ((j - 1) / 2) (by omega) (by omega) (by omega) ?_ ?_
        · exact ⟨this.1, by rw [this.2, hsz]⟩
        · -- OrdEx for the swapped heap at the parent
          unfold OrdEx
          intro k hk hkn hne
          rw [hT, hT]
          unfold OrdEx at hex
          unfold GP at hgp
          by_cases hkj : k = j
          · subst hkj; simp [h0]; omega
          · by_cases hpk : (k - 1) / 2 = j
            · -- k is a child of j
              have := hgp hjpos k hk hkn hpk
              have hk2 : (k - 1) / 2 ≠ (j - 1) / 2 := by omega
              simp [hkj, hne, hpk]; omega
            · by_cases hpk2 : (k - 1) / 2 = (j - 1) / 2
              · -- sibling of j
                have := hex k hk hkn hkj
                simp [hkj, hne, hpk2]
                have hjj : (j - 1) / 2 ≠ j := h0
                simp [hjj]
                rw [hpk2] at this; omega
              · have := hex k hk hkn hkj
                simp [hkj, hne, hpk, hpk2]; exact this
        · -- GP for the swapped heap at the parent
          unfold GP
          intro hppos c hc hcn hpc
          rw [hT, hT]
          unfold OrdEx at hex
          have hpp : ((j - 1) / 2 - 1) / 2 ≠ j := by omega
          have hpp2 : ((j - 1) / 2 - 1) / 2 ≠ (j - 1) / 2 := by omega
          have e1 := hex ((j - 1) / 2) hppos (by omega) (by omega)
          by_cases hcj : c = j
          · subst hcj; simp [hpp, hpp2]; exact e1
          · have e2 := hex c hc hcn hcj
            have hc2 : c ≠ (j - 1) / 2 := by omega
            simp [hcj, hc2, hpp, hpp2]
            rw [hpc] at e2; omega
      · rw [if_pos (Or.inr (by simp [hl]))]
        refine ⟨?_, rfl⟩
        intro k hk hkn
        by_cases hkj : k = j
        · subst hkj; omega
        · exact hex k hk hkn hkj

/-- Invariant of `down` at position `i` on the prefix `n`: every edge that does not start at `i` is
fine — the edge into `i` itself only if `eok` — and the parent of `i` is not later than `i`'s children. -/
def DInv (h : H κ ν) (n i : Nat) (eok : Prop) : Prop :=
  (∀ k, 0 < k → k < n → (k - 1) / 2 ≠ i → (k ≠ i ∨ eok) → T h ((k - 1) / 2) ≤ T h k) ∧ GP h n i

theorem downLoop_ord (n : Nat) : ∀ (fuel : Nat) (h : H κ ν) (i : Nat) (eok : Prop), n ≤ h.size → i < n →
    n - i ≤ fuel → DInv h n i eok →
    (∀ k, 0 < k → k < n → (k ≠ (downLoop h i n fuel).2 ∨ eok ∨ i < (downLoop h i n fuel).2) →
        T (downLoop h i n fuel).1 ((k - 1) / 2) ≤ T (downLoop h i n fuel).1 k) ∧
    ((downLoop h i n fuel).2 = i → (downLoop h i n fuel).1 = h) ∧ i ≤ (downLoop h i n fuel).2 ∧
    (downLoop h i n fuel).2 < n ∧ (downLoop h i n fuel).1.size = h.size := by
  intro fuel
  induction fuel with
  | zero => intro h i eok _ hi hf; omega
  | succ fuel ih =>
    intro h i eok hn hi hf hinv
    obtain ⟨hedges, hgp⟩ := hinv
    unfold GP at hgp
    simp only [downLoop]
    by_cases hj1 : 2 * i + 1 ≥ n
    · rw [if_pos hj1]
      refine ⟨?_, fun _ => rfl, Nat.le_refl _, hi, rfl⟩
      intro k hk hkn hor
      by_cases hp : (k - 1) / 2 = i
      · omega
      · apply hedges k hk hkn hp
        rcases hor with h1 | h1 | h1
        · exact Or.inl h1
        · exact Or.inr h1
        · simp at h1
    · rw [if_neg hj1]
      -- the smaller child
      generalize hjdef : (if 2 * i + 1 + 1 < n ∧ less h (2 * i + 1 + 1) (2 * i + 1) = true then 2 * i + 1 + 1 else 2 * i + 1) = j
      have hjprop : j < n ∧ (j - 1) / 2 = i ∧ i < j ∧ ∀ c, c < n → 0 < c → (c - 1) / 2 = i → T h j ≤ T h c := by
        by_cases hc : 2 * i + 1 + 1 < n ∧ less h (2 * i + 1 + 1) (2 * i + 1) = true
        · rw [if_pos hc] at hjdef
          subst hjdef
          have hl := hc.2
          rw [less_eq (by omega) (by omega)] at hl
          simp at hl
          refine ⟨hc.1, by omega, by omega, ?_⟩
          intro c hcn hc0 hpc
          have : c = 2 * i + 1 ∨ c = 2 * i + 1 + 1 := by omega
          rcases this with rfl | rfl
          · omega
          · exact Int.le_refl _
        · rw [if_neg hc] at hjdef
          subst hjdef
          refine ⟨by omega, by omega, by omega, ?_⟩
          intro c hcn hc0 hpc
          have : c = 2 * i + 1 ∨ c = 2 * i + 1 + 1 := by omega
          rcases this with rfl | rfl
          · exact Int.le_refl _
          · have hl : ¬ less h (2 * i + 1 + 1) (2 * i + 1) = true := fun hl => hc ⟨hcn, hl⟩
            rw [less_eq (by omega) (by omega)] at hl
            simp at hl
            exact hl
      obtain ⟨hjn, hpj, hij, hmin⟩ := hjprop
      by_cases hl : less h j i = false
      · rw [if_pos hl]
        rw [less_eq (by omega) (by omega)] at hl
        simp at hl
        refine ⟨?_, fun _ => rfl, Nat.le_refl _, hi, rfl⟩
        intro k hk hkn hor
        by_cases hp : (k - 1) / 2 = i
        · have := hmin k hkn hk hp
          show T h ((k - 1) / 2) ≤ T h k
          rw [hp]; omega
        · apply hedges k hk hkn hp
          rcases hor with h1 | h1 | h1
          · exact Or.inl h1
          · exact Or.inr h1
          · simp at h1
      · rw [if_neg hl]
        have hl' : T h j < T h i := by
          rw [less_eq (by omega) (by omega)] at hl
          simpa using hl
        have hsz := size_swap h i j
        have hT := T_swap (h := h) (i := i) (j := j) (by omega) (by omega)
        have hrec := ih (swap h i j) j True (by omega) hjn (by omega) ?_
        · obtain ⟨r1, r2, r3, r4, r5⟩ := hrec
          refine ⟨?_, ?_, by omega, r4, by rw [r5, hsz]⟩
          · intro k hk hkn _
            exact r1 k hk hkn (Or.inr (Or.inl trivial))
          · intro he; omega
        · constructor
          · intro k hk hkn hpk _
            rw [hT, hT]
            by_cases hkj : k = j
            · subst hkj
              have : i ≠ k := by omega
              simp [hpj, this]; omega
            · by_cases hki : k = i
              · subst hki
                have e := hgp hk j (by omega) hjn hpj
                have h1 : (k - 1) / 2 ≠ j := hpk
                have h2 : (k - 1) / 2 ≠ k := by omega
                simp [hkj, h1, h2]; exact e
              · by_cases hpi : (k - 1) / 2 = i
                · have e := hmin k hkn hk hpi
                  have : i ≠ j := by omega
                  simp [hkj, hki, hpi, this]; exact e
                · have e := hedges k hk hkn hpi (Or.inl hki)
                  simp [hkj, hki, hpi, hpk]; exact e
          · unfold GP
            intro hjpos c hc hcn hpc
            rw [hT, hT]
            have e := hedges c hc hcn (by omega) (Or.inl (by omega))
            have h1 : c ≠ j := by omega
            have h2 : c ≠ i := by omega
            have h3 : i ≠ j := by omega
            simp [h1, h2, hpj, h3]
            rw [hpc] at e; exact e

/-! ### stored indices, key uniqueness, the set of values -/

/-- Every entry stores the position it is at (`queueItem.index`). -/
def IdxOK (h : H κ ν) : Prop := ∀ (k : Nat) (e : Entry κ ν), h[k]? = some e → e.index = (k : Int)

/-- One entry per key. -/
def KeysOK (h : H κ ν) : Prop :=
  ∀ (k1 k2 : Nat) (e1 e2 : Entry κ ν), h[k1]? = some e1 → h[k2]? = some e2 → e1.value.key = e2.value.key → k1 = k2

/-- `x` is the value of an entry among the first `n`. -/
def ValN (h : H κ ν) (n : Nat) (x : Item κ ν) : Prop := ∃ k e, k < n ∧ h[k]? = some e ∧ e.value = x

/-- `h'` is a rearrangement of `h` within the prefix `n` that maintains the stored indices. -/
structure Shuf (n : Nat) (h h' : H κ ν) : Prop where
  size : h'.size = h.size
  frame : ∀ k, n ≤ k → h'[k]? = h[k]?
  vals : ∀ x, ValN h' n x ↔ ValN h n x
  keys : KeysOK h → KeysOK h'
  idx : IdxOK h → IdxOK h'

theorem Shuf.refl (n : Nat) (h : H κ ν) : Shuf n h h :=
  ⟨rfl, fun _ _ => rfl, fun _ => Iff.rfl, id, id⟩

theorem Shuf.trans {n : Nat} {a b c : H κ ν} (h1 : Shuf n a b) (h2 : Shuf n b c) : Shuf n a c :=
  ⟨h2.size.trans h1.size, fun k hk => (h2.frame k hk).trans (h1.frame k hk),
   fun x => (h2.vals x).trans (h1.vals x), fun hk => h2.keys (h1.keys hk), fun hi => h2.idx (h1.idx hi)⟩

theorem shuf_swap {n : Nat} {h : H κ ν} {i j : Nat} (hn : n ≤ h.size) (hi : i < n) (hj : j < n) :
    Shuf n h (swap h i j) := by
  obtain ⟨a, ha⟩ := get_of_lt (h := h) (i := i) (by omega)
  obtain ⟨b, hb⟩ := get_of_lt (h := h) (i := j) (by omega)
  have hg := getElem?_swap ha hb
  refine ⟨size_swap h i j, ?_, ?_, ?_, ?_⟩
  · intro k hk
    rw [hg k]
    have : k ≠ j := by omega
    have : k ≠ i := by omega
    simp [*]
  · intro x
    unfold ValN
    constructor
    · rintro ⟨k, e, hk, he, hx⟩
      rw [hg k] at he
      by_cases h1 : k = j
      · subst h1; simp at he; subst he; exact ⟨i, a, hi, ha, hx⟩
      · by_cases h2 : k = i
        · subst h2; simp [h1] at he; subst he; exact ⟨j, b, hj, hb, hx⟩
        · simp [h1, h2] at he; exact ⟨k, e, hk, he, hx⟩
    · rintro ⟨k, e, hk, he, hx⟩
      by_cases h1 : k = i
      · subst h1
        rw [ha] at he; cases he
        refine ⟨j, { a with index := j }, hj, ?_, hx⟩
        rw [hg j]; simp
      · by_cases h2 : k = j
        · subst h2
          rw [hb] at he; cases he
          refine ⟨i, { b with index := i }, hi, ?_, hx⟩
          rw [hg i]; simp
          intro e; exact absurd e.symm h1
        · refine ⟨k, e, hk, ?_, hx⟩
          rw [hg k]; simp [h1, h2, he]
  · intro hk
    unfold KeysOK
    intro k1 k2 e1 e2 he1 he2 hkey
    rw [hg k1] at he1
    rw [hg k2] at he2
    unfold KeysOK at hk
    by_cases a1 : k1 = j <;> by_cases a2 : k1 = i <;> by_cases b1 : k2 = j <;> by_cases b2 : k2 = i <;>
      simp [a1, a2, b1, b2] at he1 he2 <;> (try subst he1) <;> (try subst he2) <;> (try omega) <;>
      (try simp at hkey) <;> grind
  · intro hidx
    unfold IdxOK
    intro k e he
    rw [hg k] at he
    unfold IdxOK at hidx
    by_cases h1 : k = j
    · subst h1; simp at he; subst he; rfl
    · by_cases h2 : k = i
      · subst h2; simp [h1] at he; subst he; rfl
      · simp [h1, h2] at he; exact hidx k e he

theorem up_shuf (n : Nat) : ∀ (fuel : Nat) (h : H κ ν) (j : Nat), n ≤ h.size → j < n → Shuf n h (up h j fuel) := by
  intro fuel
  induction fuel with
  | zero => intro h j _ _; exact Shuf.refl n h
  | succ fuel ih =>
    intro h j hn hj
    simp only [up]
    split
    · exact Shuf.refl n h
    · rename_i hc
      have h0 : (j - 1) / 2 ≠ j := fun e => hc (Or.inl e)
      have hs := shuf_swap (h := h) (i := (j - 1) / 2) (j := j) hn (by omega) hj
      exact Shuf.trans hs (ih _ _ (by rw [hs.size]; exact hn) (by omega))

theorem downLoop_shuf (n : Nat) : ∀ (fuel : Nat) (h : H κ ν) (i : Nat), n ≤ h.size → i < n →
    Shuf n h (downLoop h i n fuel).1 := by
  intro fuel
  induction fuel with
  | zero => intro h i _ _; exact Shuf.refl n h
  | succ fuel ih =>
    intro h i hn hi
    simp only [downLoop]
    split
    · exact Shuf.refl n h
    · rename_i hj1
      generalize hjdef : (if 2 * i + 1 + 1 < n ∧ less h (2 * i + 1 + 1) (2 * i + 1) = true then 2 * i + 1 + 1 else 2 * i + 1) = j
      have hjn : j < n := by
        by_cases hc : 2 * i + 1 + 1 < n ∧ less h (2 * i + 1 + 1) (2 * i + 1) = true
        · rw [if_pos hc] at hjdef; omega
        · rw [if_neg hc] at hjdef; omega
      split
      · exact Shuf.refl n h
      · have hs := shuf_swap (h := h) (i := i) (j := j) hn hi hjn
        exact Shuf.trans hs (ih _ _ (by rw [hs.size]; exact hn) hjn)

/-! ### the invariant and the value set -/

structure Inv (h : H κ ν) : Prop where
  ord : Ord h h.size
  idx : IdxOK h
  keys : KeysOK h

theorem mem_items {h : H κ ν} {x : Item κ ν} : x ∈ items h ↔ ValN h h.size x := by
  unfold items ValN
  simp only [List.mem_map, Array.mem_toList_iff]
  constructor
  · rintro ⟨e, he, rfl⟩
    obtain ⟨k, hk, rfl⟩ := Array.mem_iff_getElem.mp he
    exact ⟨k, h[k], hk, by simp [hk], rfl⟩
  · rintro ⟨k, e, hk, he, rfl⟩
    refine ⟨e, ?_, rfl⟩
    have : h[k] = e := by simpa [hk] using he
    rw [← this]; exact Array.getElem_mem hk

/-- In a heap-ordered prefix the root is not later than anything. -/
theorem root_min {h : H κ ν} {n : Nat} (ho : Ord h n) : ∀ k, k < n → T h 0 ≤ T h k := by
  intro k
  induction k using Nat.strongRecOn with
  | _ k ih =>
    intro hk
    by_cases h0 : k = 0
    · subst h0; exact Int.le_refl _
    · have := ho k (by omega) hk
      have := ih ((k - 1) / 2) (by omega) (by omega)
      omega

theorem T_of_get {h : H κ ν} {k : Nat} {e : Entry κ ν} (he : h[k]? = some e) : T h k = e.value.time := by
  simp [T, he]

/-- `Peek` returns a minimal item. -/
theorem peek_isHead {h : H κ ν} {q : List (Item κ ν)} (hi : Inv h) (hq : ∀ x, x ∈ items h ↔ x ∈ q) :
    IsHead q (peek h) := by
  unfold peek
  cases h0 : h[0]? with
  | none =>
    simp only [Option.map_none, IsHead]
    cases q with
    | nil => rfl
    | cons a q =>
      have := (hq a).mpr (by simp)
      rw [mem_items] at this
      obtain ⟨k, e, hk, _, _⟩ := this
      have hz : ¬ 0 < h.size := by
        intro hz
        simp [hz] at h0
      omega
  | some e0 =>
    simp only [Option.map_some, IsHead, IsMin]
    constructor
    · rw [← hq, mem_items]
      exact ⟨0, e0, lt_of_get h0, h0, rfl⟩
    · intro x hx
      rw [← hq, mem_items] at hx
      obtain ⟨k, e, hk, he, rfl⟩ := hx
      have := root_min hi.ord k hk
      rw [T_of_get h0, T_of_get he] at this
      exact this

/-! ### `find` -/

theorem find_some {h : H κ ν} {k : κ} {pos : Nat} (hf : find h k = some pos) :
    ∃ e, h[pos]? = some e ∧ e.value.key = k := by
  unfold find at hf
  have h1 := List.find?_some hf
  have h2 := List.mem_of_find?_eq_some hf
  simp only [List.mem_range] at h2
  obtain ⟨e, he⟩ := get_of_lt h2
  simp only [he, decide_eq_true_eq] at h1
  exact ⟨e, he, h1⟩

theorem find_none {h : H κ ν} {k : κ} (hf : find h k = none) :
    ∀ (pos : Nat) (e : Entry κ ν), h[pos]? = some e → e.value.key ≠ k := by
  unfold find at hf
  intro pos e he hk
  have := List.find?_eq_none.mp hf pos (by simp [lt_of_get he])
  simp [he, hk] at this

/-! ### generic: restoring the order at one position (`Fix`, and the core of `Remove`) -/

/-- `down` then (if the element did not move) `up` at position `i` on the prefix `n` restores the
heap order, provided only the edges touching `i` may be wrong and `i`'s parent is not later than
`i`'s children. -/
theorem sift_ord {h : H κ ν} {n i : Nat} (hn : n ≤ h.size) (hi : i < n) (hinv : DInv h n i False) :
    let r := downLoop h i n h.size
    let h' := if decide (r.2 > i) = true then r.1 else up r.1 i (h.size + 1)
    Ord h' n ∧ Shuf n h h' := by
  intro r h'
  have hd := downLoop_ord n h.size h i False hn hi (by omega) hinv
  have hs := downLoop_shuf n h.size h i hn hi
  obtain ⟨d1, d2, d3, d4, d5⟩ := hd
  by_cases hm : r.2 > i
  · have : h' = r.1 := by simp [h', hm]
    rw [this]
    refine ⟨?_, hs⟩
    intro k hk hkn
    exact d1 k hk hkn (Or.inr (Or.inr hm))
  · have heq : r.2 = i := by
      have : i ≤ r.2 := d3
      omega
    have hr1 : r.1 = h := d2 heq
    have : h' = up h i (h.size + 1) := by simp [h', hm, hr1]
    rw [this]
    have hex : OrdEx h n i := by
      intro k hk hkn hne
      have := d1 k hk hkn (Or.inl (by rw [heq]; exact hne))
      rw [hr1] at this
      exact this
    have hu := up_ord n (h.size + 1) h i hn hi (by omega) hex hinv.2
    exact ⟨hu.1, up_shuf n (h.size + 1) h i hn hi⟩

/-! ### removing the entry at a position: swap with the last, sift on the prefix, drop the last -/

theorem T_congr {h h' : H κ ν} {k : Nat} (e : h'[k]? = h[k]?) : T h' k = T h k := by
  simp [T, e]

theorem remove_core {h : H κ ν} (hinv : Inv h) {pos n : Nat} {e : Entry κ ν} (hn : n + 1 = h.size)
    (hpos : pos < n) (he : h[pos]? = some e) {h2 : H κ ν}
    (hh2 : h2 = (let r := downLoop (swap h pos n) pos n (swap h pos n).size
                 if decide (r.2 > pos) = true then r.1 else up r.1 pos ((swap h pos n).size + 1))) :
    Inv h2.pop ∧ h2.pop.size = n ∧ (∀ x, ValN h2.pop n x ↔ (ValN h h.size x ∧ x ≠ e.value)) ∧
      h2[n]? = some { e with index := n } := by
  obtain ⟨l, hl⟩ := get_of_lt (h := h) (i := n) (by omega)
  have hg := getElem?_swap he hl
  have hsz1 := size_swap h pos n
  have hs1 : Shuf (n + 1) h (swap h pos n) := shuf_swap (by omega) (by omega) (by omega)
  have hT1 : ∀ k, k ≠ pos → k ≠ n → T (swap h pos n) k = T h k := by
    intro k h1 h2
    apply T_congr
    rw [hg k]; simp [h1, h2]
  have hd : DInv (swap h pos n) n pos False := by
    constructor
    · intro k hk hkn hp hor
      have hkp : k ≠ pos := by
        rcases hor with h1 | h1
        · exact h1
        · exact absurd h1 id
      rw [hT1 _ hp (by omega), hT1 k hkp (by omega)]
      exact hinv.ord k hk (by omega)
    · intro hp0 c hc hcn hpc
      rw [hT1 _ (by omega) (by omega), hT1 c (by omega) (by omega)]
      have e1 := hinv.ord pos hp0 (by omega)
      have e2 := hinv.ord c hc (by omega)
      rw [hpc] at e2
      omega
  have hsift := sift_ord (h := swap h pos n) (n := n) (i := pos) (by omega) hpos hd
  simp only at hsift
  rw [← hh2] at hsift
  obtain ⟨hord2, hs2⟩ := hsift
  have hsz2 : h2.size = n + 1 := by rw [hs2.size, hsz1, hn]
  have hpopget : ∀ k, h2.pop[k]? = if k < n then h2[k]? else none := by
    intro k
    rw [Array.getElem?_pop, hsz2]; simp
  have hidx2 : IdxOK h2 := hs2.idx (hs1.idx hinv.idx)
  have hkeys2 : KeysOK h2 := hs2.keys (hs1.keys hinv.keys)
  refine ⟨⟨?_, ?_, ?_⟩, by rw [Array.size_pop, hsz2]; rfl, ?_, ?_⟩
  · intro k hk hkn
    rw [Array.size_pop, hsz2] at hkn
    have hkn' : k < n := by omega
    rw [T_congr (h := h2) (h' := h2.pop) (k := k) (by rw [hpopget]; simp [hkn']),
        T_congr (h := h2) (h' := h2.pop) (k := (k - 1) / 2) (by rw [hpopget]; simp; omega)]
    exact hord2 k hk hkn'
  · intro k e' hk
    rw [hpopget] at hk
    by_cases hkn : k < n
    · simp [hkn] at hk; exact hidx2 k e' hk
    · simp [hkn] at hk
  · intro k1 k2 e1 e2 h1 h2' hkey
    rw [hpopget] at h1 h2'
    by_cases a : k1 < n <;> by_cases b : k2 < n <;> simp [a, b] at h1 h2'
    exact hkeys2 k1 k2 e1 e2 h1 h2' hkey
  · intro x
    have step1 : ValN h2.pop n x ↔ ValN h2 n x := by
      unfold ValN
      constructor
      · rintro ⟨k, e', hk, he', hx⟩
        rw [hpopget] at he'; simp [hk] at he'
        exact ⟨k, e', hk, he', hx⟩
      · rintro ⟨k, e', hk, he', hx⟩
        exact ⟨k, e', hk, by rw [hpopget]; simp [hk, he'], hx⟩
    rw [step1, hs2.vals x]
    unfold ValN
    constructor
    · rintro ⟨k, e', hk, he', hx⟩
      rw [hg k] at he'
      have hkn : k ≠ n := by omega
      by_cases hkp : k = pos
      · subst hkp
        simp [hkn] at he'
        subst he'
        refine ⟨⟨n, l, by omega, hl, hx⟩, ?_⟩
        intro hxe
        have := hinv.keys n k l e hl he (by rw [← hx] at hxe; simp at hxe; rw [hxe])
        omega
      · simp [hkn, hkp] at he'
        refine ⟨⟨k, e', by omega, he', hx⟩, ?_⟩
        intro hxe
        have := hinv.keys k pos e' e he' he (by rw [← hx] at hxe; rw [hxe])
        exact hkp this
    · rintro ⟨⟨k, e', hk, he', hx⟩, hne⟩
      by_cases hkp : k = pos
      · subst hkp
        rw [he] at he'; cases he'
        exact absurd hx.symm hne
      · by_cases hkn : k = n
        · subst hkn
          have hel : e' = l := by rw [hl] at he'; exact (Option.some.inj he').symm
          subst hel
          refine ⟨pos, { e' with index := pos }, hpos, ?_, hx⟩
          rw [hg pos]
          have : pos ≠ k := by omega
          simp [this]
        · refine ⟨k, e', by omega, ?_, hx⟩
          rw [hg k]; simp [hkn, hkp, he']
  · rw [hs2.frame n (Nat.le_refl _), hg n]; simp

/-- Dropping the last entry. -/
theorem pop_last {h : H κ ν} (hinv : Inv h) {n : Nat} {e : Entry κ ν} (hn : n + 1 = h.size)
    (he : h[n]? = some e) :
    Inv h.pop ∧ h.pop.size = n ∧ (∀ x, ValN h.pop n x ↔ (ValN h h.size x ∧ x ≠ e.value)) := by
  have hpopget : ∀ k, h.pop[k]? = if k < n then h[k]? else none := by
    intro k
    rw [Array.getElem?_pop, ← hn]; simp
  refine ⟨⟨?_, ?_, ?_⟩, by rw [Array.size_pop, ← hn]; rfl, ?_⟩
  · intro k hk hkn
    rw [Array.size_pop, ← hn] at hkn
    have hkn' : k < n := by omega
    rw [T_congr (h := h) (h' := h.pop) (k := k) (by rw [hpopget]; simp [hkn']),
        T_congr (h := h) (h' := h.pop) (k := (k - 1) / 2) (by rw [hpopget]; simp; omega)]
    exact hinv.ord k hk (by omega)
  · intro k e' hk
    rw [hpopget] at hk
    by_cases hkn : k < n
    · simp [hkn] at hk; exact hinv.idx k e' hk
    · simp [hkn] at hk
  · intro k1 k2 e1 e2 h1 h2' hkey
    rw [hpopget] at h1 h2'
    by_cases a : k1 < n <;> by_cases b : k2 < n <;> simp [a, b] at h1 h2'
    exact hinv.keys k1 k2 e1 e2 h1 h2' hkey
  · intro x
    unfold ValN
    constructor
    · rintro ⟨k, e', hk, he', hx⟩
      rw [hpopget] at he'; simp [hk] at he'
      refine ⟨⟨k, e', by omega, he', hx⟩, ?_⟩
      intro hxe
      have := hinv.keys k n e' e he' he (by rw [← hx] at hxe; rw [hxe])
      omega
    · rintro ⟨⟨k, e', hk, he', hx⟩, hne⟩
      by_cases hkn : k = n
      · subst hkn
        rw [he] at he'; cases he'
        exact absurd hx.symm hne
      · exact ⟨k, e', by omega, by rw [hpopget]; simp [show k < n by omega, he'], hx⟩

theorem up_zero (h : H κ ν) (fuel : Nat) : up h 0 (fuel + 1) = h := by
  simp [up]

/-- `heap.Remove(h, pos)`: the invariant is kept and exactly the entry at `pos` disappears. -/
theorem removeAt_spec {h : H κ ν} (hinv : Inv h) {pos : Nat} {e : Entry κ ν} (he : h[pos]? = some e) :
    Inv (removeAt h pos) ∧ ∀ x, x ∈ items (removeAt h pos) ↔ (x ∈ items h ∧ x ≠ e.value) := by
  have hps := lt_of_get he
  obtain ⟨n, hn⟩ : ∃ n, n + 1 = h.size := ⟨h.size - 1, by omega⟩
  have hn' : h.size - 1 = n := by omega
  unfold removeAt
  simp only [hn']
  by_cases hnp : n = pos
  · subst hnp
    simp only [ne_eq, not_true_eq_false, ite_false]
    obtain ⟨i1, i2, i3⟩ := pop_last hinv hn he
    refine ⟨i1, ?_⟩
    intro x
    rw [mem_items, mem_items, i2]
    exact i3 x
  · simp only [ne_eq, hnp, not_false_eq_true, ite_true]
    have hc := remove_core hinv (pos := pos) (n := n) (e := e) hn (by omega) he
      (h2 := (let r := downLoop (swap h pos n) pos n (swap h pos n).size
              if decide (r.2 > pos) = true then r.1 else up r.1 pos ((swap h pos n).size + 1))) rfl
    obtain ⟨i1, i2, i3, _⟩ := hc
    have hform : (if (down (swap h pos n) pos n).2 = true then (down (swap h pos n) pos n).1
        else up (down (swap h pos n) pos n).1 pos (h.size + 1)) =
        (let r := downLoop (swap h pos n) pos n (swap h pos n).size
         if decide (r.2 > pos) = true then r.1 else up r.1 pos ((swap h pos n).size + 1)) := by
      simp only [down, size_swap]
    rw [hform]
    refine ⟨i1, ?_⟩
    intro x
    rw [mem_items, mem_items, i2]
    exact i3 x

/-- `heap.Pop(h)` on a non-empty heap: returns the root's value and removes exactly that entry. -/
theorem popRoot_spec {h : H κ ν} (hinv : Inv h) {e : Entry κ ν} (he : h[0]? = some e) :
    (popRoot h).1 = some e.value ∧ Inv (popRoot h).2 ∧
      ∀ x, x ∈ items (popRoot h).2 ↔ (x ∈ items h ∧ x ≠ e.value) := by
  have hps := lt_of_get he
  obtain ⟨n, hn⟩ : ∃ n, n + 1 = h.size := ⟨h.size - 1, by omega⟩
  have hn' : h.size - 1 = n := by omega
  have hsz : ¬ h.size = 0 := by omega
  unfold popRoot
  simp only [hsz, ite_false, hn']
  by_cases hn0 : n = 0
  · subst hn0
    have hg := getElem?_swap he he
    have hd : (down (swap h 0 0) 0 0).1 = swap h 0 0 := by
      simp only [down, size_swap, ← hn]
      simp [downLoop]
    rw [hd]
    have hinv' : Inv (swap h 0 0) := by
      have hs := shuf_swap (h := h) (n := 1) (i := 0) (j := 0) (by omega) (by omega) (by omega)
      refine ⟨?_, hs.idx hinv.idx, hs.keys hinv.keys⟩
      intro k hk hkn
      rw [size_swap] at hkn; omega
    have he' : (swap h 0 0)[0]? = some { e with index := (0 : Nat) } := by rw [hg 0]; simp
    obtain ⟨i1, i2, i3⟩ := pop_last (h := swap h 0 0) hinv' (n := 0) (by rw [size_swap]; omega) he'
    refine ⟨?_, i1, ?_⟩
    · rw [Array.back?_eq_getElem?, size_swap, ← hn]
      simp [he']
    · intro x
      rw [mem_items, mem_items, i2]
      rw [i3 x]
      have hs := shuf_swap (h := h) (n := 1) (i := 0) (j := 0) (by omega) (by omega) (by omega)
      rw [size_swap, ← hn]
      simp only [Nat.zero_add]
      rw [hs.vals x]
  · have hc := remove_core hinv (pos := 0) (n := n) (e := e) hn (by omega) he
      (h2 := (let r := downLoop (swap h 0 n) 0 n (swap h 0 n).size
              if decide (r.2 > 0) = true then r.1 else up r.1 0 ((swap h 0 n).size + 1))) rfl
    have hform : (down (swap h 0 n) 0 n).1 =
        (let r := downLoop (swap h 0 n) 0 n (swap h 0 n).size
         if decide (r.2 > 0) = true then r.1 else up r.1 0 ((swap h 0 n).size + 1)) := by
      simp only [down, up_zero]
      split <;> rfl
    rw [hform]
    obtain ⟨i1, i2, i3, i4⟩ := hc
    refine ⟨?_, i1, ?_⟩
    · rw [Array.back?_eq_getElem?]
      have : ((let r := downLoop (swap h 0 n) 0 n (swap h 0 n).size
              if decide (r.2 > 0) = true then r.1 else up r.1 0 ((swap h 0 n).size + 1))).size - 1 = n := by
        have := i2
        rw [Array.size_pop] at this
        exact this
      rw [this, i4]; rfl
    · intro x
      rw [mem_items, mem_items, i2]
      exact i3 x

/-- `heap.Push` of an item with a new key. -/
theorem push_spec {h : H κ ν} (hinv : Inv h) {r : Item κ ν}
    (hnew : ∀ (pos : Nat) (e : Entry κ ν), h[pos]? = some e → e.value.key ≠ r.key) :
    Inv (push h r) ∧ ∀ x, x ∈ items (push h r) ↔ (x = r ∨ x ∈ items h) := by
  unfold push
  generalize hh1 : h.push { value := r, index := (h.size : Int) } = h1
  have hsz1 : h1.size = h.size + 1 := by rw [← hh1, Array.size_push]
  have hg : ∀ k, h1[k]? = if k = h.size then some { value := r, index := (h.size : Int) } else h[k]? := by
    intro k; rw [← hh1, Array.getElem?_push]
  have hT : ∀ k, k < h.size → T h1 k = T h k := by
    intro k hk
    apply T_congr
    rw [hg k]; simp [show k ≠ h.size by omega]
  have hex : OrdEx h1 (h.size + 1) h.size := by
    intro k hk hkn hne
    rw [hT _ (by omega), hT k (by omega)]
    exact hinv.ord k hk (by omega)
  have hgp : GP h1 (h.size + 1) h.size := by
    intro _ c hc hcn hpc
    omega
  have hu := up_ord (h.size + 1) (h.size + 1) h1 h.size (by omega) (by omega) (by omega) hex hgp
  have hs := up_shuf (h.size + 1) (h.size + 1) h1 h.size (by omega) (by omega)
  have hidx1 : IdxOK h1 := by
    intro k e he
    rw [hg k] at he
    by_cases hk : k = h.size
    · subst hk; simp at he; subst he; rfl
    · simp [hk] at he; exact hinv.idx k e he
  have hkeys1 : KeysOK h1 := by
    intro k1 k2 e1 e2 h1' h2' hkey
    rw [hg k1] at h1'
    rw [hg k2] at h2'
    by_cases a : k1 = h.size <;> by_cases b : k2 = h.size <;> simp [a, b] at h1' h2'
    · omega
    · subst h1'; exact absurd hkey.symm (hnew k2 e2 h2')
    · subst h2'; exact absurd hkey (hnew k1 e1 h1')
    · exact hinv.keys k1 k2 e1 e2 h1' h2' hkey
  refine ⟨⟨?_, hs.idx hidx1, hs.keys hkeys1⟩, ?_⟩
  · rw [hu.2, hsz1]; exact hu.1
  · intro x
    rw [mem_items, mem_items, hu.2, hsz1, hs.vals x]
    unfold ValN
    constructor
    · rintro ⟨k, e, hk, he, hx⟩
      rw [hg k] at he
      by_cases hks : k = h.size
      · subst hks; simp at he; subst he; exact Or.inl hx.symm
      · simp [hks] at he; exact Or.inr ⟨k, e, by omega, he, hx⟩
    · rintro (hx | ⟨k, e, hk, he, hx⟩)
      · exact ⟨h.size, { value := r, index := (h.size : Int) }, by omega, by rw [hg]; simp, hx.symm⟩
      · exact ⟨k, e, by omega, by rw [hg k]; simp [show k ≠ h.size by omega, he], hx⟩

/-- Replacing the value of the entry at `pos` by one with the same key, then `heap.Fix`. -/
theorem replace_spec {h : H κ ν} (hinv : Inv h) {pos : Nat} {e : Entry κ ν} {r : Item κ ν}
    (he : h[pos]? = some e) (hkey : e.value.key = r.key) :
    Inv (fix (h.setIfInBounds pos { e with value := r }) pos) ∧
      ∀ x, x ∈ items (fix (h.setIfInBounds pos { e with value := r }) pos) ↔
        (x = r ∨ (x ∈ items h ∧ x ≠ e.value)) := by
  have hps := lt_of_get he
  generalize hh1 : h.setIfInBounds pos { e with value := r } = h1
  have hsz1 : h1.size = h.size := by rw [← hh1, Array.size_setIfInBounds]
  have hg : ∀ k, h1[k]? = if k = pos then some { e with value := r } else h[k]? := by
    intro k
    rw [← hh1, Array.getElem?_setIfInBounds]
    by_cases hk : pos = k
    · subst hk; simp [hps]
    · have : k ≠ pos := fun e => hk e.symm
      simp [hk, this]
  have hT : ∀ k, k ≠ pos → T h1 k = T h k := by
    intro k hk
    apply T_congr
    rw [hg k]; simp [hk]
  have hd : DInv h1 h.size pos False := by
    constructor
    · intro k hk hkn hp hor
      have hkp : k ≠ pos := by
        rcases hor with h1' | h1'
        · exact h1'
        · exact absurd h1' id
      rw [hT _ hp, hT k hkp]
      exact hinv.ord k hk hkn
    · intro hp0 c hc hcn hpc
      rw [hT _ (by omega), hT c (by omega)]
      have e1 := hinv.ord pos hp0 hps
      have e2 := hinv.ord c hc hcn
      rw [hpc] at e2
      omega
  have hsift := sift_ord (h := h1) (n := h.size) (i := pos) (by omega) hps hd
  simp only at hsift
  have hform : fix h1 pos = (let r := downLoop h1 pos h.size h1.size
      if decide (r.2 > pos) = true then r.1 else up r.1 pos (h1.size + 1)) := by
    simp only [fix, down, hsz1]
  have hsift' : Ord (fix h1 pos) h.size ∧ Shuf h.size h1 (fix h1 pos) := by
    rw [hform]; exact hsift
  obtain ⟨hord, hs⟩ := hsift'
  have hidx1 : IdxOK h1 := by
    intro k e' he'
    rw [hg k] at he'
    by_cases hk : k = pos
    · subst hk; simp at he'; subst he'; exact hinv.idx k e he
    · simp [hk] at he'; exact hinv.idx k e' he'
  have hkeys1 : KeysOK h1 := by
    intro k1 k2 e1 e2 h1' h2' hk
    rw [hg k1] at h1'
    rw [hg k2] at h2'
    by_cases a : k1 = pos <;> by_cases b : k2 = pos <;> simp [a, b] at h1' h2'
    · omega
    · subst h1'; simp at hk
      have := hinv.keys pos k2 e e2 he h2' (by rw [hkey, hk]); omega
    · subst h2'; simp at hk
      have := hinv.keys k1 pos e1 e h1' he (by rw [hkey, hk]); omega
    · exact hinv.keys k1 k2 e1 e2 h1' h2' hk
  refine ⟨⟨?_, hs.idx hidx1, hs.keys hkeys1⟩, ?_⟩
  · rw [hs.size, hsz1]; exact hord
  · intro x
    rw [mem_items, mem_items, hs.size, hsz1, hs.vals x]
    unfold ValN
    constructor
    · rintro ⟨k, e', hk, he', hx⟩
      rw [hg k] at he'
      by_cases hkp : k = pos
      · subst hkp; simp at he'; subst he'; exact Or.inl hx.symm
      · simp [hkp] at he'
        refine Or.inr ⟨⟨k, e', hk, he', hx⟩, ?_⟩
        intro hxe
        have := hinv.keys k pos e' e he' he (by rw [← hx] at hxe; rw [hxe])
        exact hkp this
    · rintro (hx | ⟨⟨k, e', hk, he', hx⟩, hne⟩)
      · exact ⟨pos, { e with value := r }, hps, by rw [hg]; simp, hx.symm⟩
      · by_cases hkp : k = pos
        · subst hkp
          rw [he] at he'; cases he'
          exact absurd hx.symm hne
        · exact ⟨k, e', hk, by rw [hg k]; simp [hkp, he'], hx⟩

/-! ### the four operations of `queue.go` refine the specification -/

/-- The heap `h` represents the specification queue `q`. -/
def HRefines (h : H κ ν) (q : List (Item κ ν)) : Prop := Inv h ∧ ∀ x, x ∈ items h ↔ x ∈ q

theorem hrefines_empty : HRefines (#[] : H κ ν) [] := by
  refine ⟨⟨?_, ?_, ?_⟩, ?_⟩
  · intro k _ hk; simp at hk
  · intro k e he; simp at he
  · intro k1 k2 e1 e2 h1; simp at h1
  · intro x; simp [items]

theorem key_ne_of_ne {h : H κ ν} (hinv : Inv h) {pos : Nat} {e : Entry κ ν} (he : h[pos]? = some e)
    {x : Item κ ν} (hx : x ∈ items h) : x ≠ e.value ↔ x.key ≠ e.value.key := by
  rw [mem_items] at hx
  obtain ⟨k, e', hk, he', rfl⟩ := hx
  constructor
  · intro hne hkey
    have := hinv.keys k pos e' e he' he hkey
    subst this
    rw [he] at he'; cases he'
    exact hne rfl
  · intro hne heq
    exact hne (by rw [heq])

theorem hrefines_insert {h : H κ ν} {q : List (Item κ ν)} (hr : HRefines h q) (r : Item κ ν) :
    HRefines (Heap.insert h r) (Queue.insert q r) := by
  obtain ⟨hinv, hq⟩ := hr
  unfold Heap.insert
  cases hf : find h r.key with
  | none =>
    have hnew := find_none hf
    obtain ⟨i1, i2⟩ := push_spec hinv hnew
    refine ⟨i1, ?_⟩
    intro x
    rw [i2 x, Kit.Processor.mem_insert, ← hq]
    constructor
    · rintro (hx | hx)
      · exact Or.inl hx
      · refine Or.inr ⟨hx, ?_⟩
        rw [mem_items] at hx
        obtain ⟨k, e, _, he, rfl⟩ := hx
        exact hnew k e he
    · rintro (hx | hx)
      · exact Or.inl hx
      · exact Or.inr hx.1
  | some pos =>
    obtain ⟨e, he, hkey⟩ := find_some hf
    simp only [he]
    have hidx : e.index.toNat = pos := by
      have := hinv.idx pos e he
      rw [this]; simp
    rw [hidx]
    obtain ⟨i1, i2⟩ := replace_spec hinv he hkey
    refine ⟨i1, ?_⟩
    intro x
    rw [i2 x, Kit.Processor.mem_insert, ← hq]
    constructor
    · rintro (hx | ⟨hx, hne⟩)
      · exact Or.inl hx
      · refine Or.inr ⟨hx, ?_⟩
        rw [← hkey]
        exact (key_ne_of_ne hinv he hx).mp hne
    · rintro (hx | ⟨hx, hne⟩)
      · exact Or.inl hx
      · refine Or.inr ⟨hx, ?_⟩
        rw [← hkey] at hne
        exact (key_ne_of_ne hinv he hx).mpr hne

theorem hrefines_remove {h : H κ ν} {q : List (Item κ ν)} (hr : HRefines h q) (k : κ) :
    HRefines (Heap.remove h k) (Queue.remove q k) := by
  obtain ⟨hinv, hq⟩ := hr
  unfold Heap.remove
  cases hf : find h k with
  | none =>
    have hnew := find_none hf
    refine ⟨hinv, ?_⟩
    intro x
    rw [Kit.Processor.mem_remove, ← hq]
    constructor
    · intro hx
      refine ⟨hx, ?_⟩
      rw [mem_items] at hx
      obtain ⟨p, e, _, he, rfl⟩ := hx
      exact hnew p e he
    · exact fun hx => hx.1
  | some pos =>
    obtain ⟨e, he, hkey⟩ := find_some hf
    simp only [he]
    have hidx : e.index.toNat = pos := by
      have := hinv.idx pos e he
      rw [this]; simp
    rw [hidx]
    obtain ⟨i1, i2⟩ := removeAt_spec hinv he
    refine ⟨i1, ?_⟩
    intro x
    rw [i2 x, Kit.Processor.mem_remove, ← hq]
    constructor
    · rintro ⟨hx, hne⟩
      refine ⟨hx, ?_⟩
      rw [← hkey]
      exact (key_ne_of_ne hinv he hx).mp hne
    · rintro ⟨hx, hne⟩
      refine ⟨hx, ?_⟩
      rw [← hkey] at hne
      exact (key_ne_of_ne hinv he hx).mpr hne

theorem hrefines_peek {h : H κ ν} {q : List (Item κ ν)} (hr : HRefines h q) : IsHead q (Heap.peek h) :=
  peek_isHead hr.1 hr.2

theorem hrefines_pop {h : H κ ν} {q : List (Item κ ν)} (hr : HRefines h q) :
    match (Heap.pop h).1 with
    | none => q = [] ∧ (Heap.pop h).2 = h
    | some r => IsHead q (some r) ∧ HRefines (Heap.pop h).2 (Queue.pop q r) := by
  obtain ⟨hinv, hq⟩ := hr
  unfold Heap.pop
  cases h0 : h[0]? with
  | none =>
    have hsz : h.size = 0 := by
      rcases Nat.eq_zero_or_pos h.size with hz | hz
      · exact hz
      · simp [hz] at h0
    have hp : popRoot h = (none, h) := by simp [popRoot, hsz]
    rw [hp]
    refine ⟨?_, rfl⟩
    have := peek_isHead hinv hq
    simpa [peek, h0, IsHead] using this
  | some e =>
    obtain ⟨p1, p2, p3⟩ := popRoot_spec hinv h0
    rw [p1]
    refine ⟨?_, p2, ?_⟩
    · have := peek_isHead hinv hq
      simpa [peek, h0] using this
    · intro x
      rw [p3 x, Kit.Processor.mem_pop, ← hq]

end Kit.Queue.Heap
