/-
A decidable condition on transition tables (`hourTable`) that makes a zone an `HourZone`:
offsets are whole hours (|off| ≤ 26 h), transitions lie on whole UTC hours, change the offset by
exactly one hour and are at least 1801 hours apart.
-/
import KitProofs.Lemmas.CronDstZone

namespace Kit.CronSpec

/-- Check of the entries after the current period (`ps` = start of the current period if it is a
real transition, `po` = its offset). -/
def hourTableAux : Option Int → Int → List (Int × Int) → Bool
  | _, _, [] => true
  | ps, po, (s, o) :: rest =>
    decide (s % 3600 = 0) && (decide (o = po + 3600) || decide (o = po - 3600)) &&
    decide (-93600 ≤ o) && decide (o ≤ 93600) &&
    (match ps with
      | none => true
      | some p => decide (p + 6483600 ≤ s)) &&
    hourTableAux (some s) o rest

/-- The table describes an hour zone. -/
def hourTable : Zone → Bool
  | [] => true
  | (_, o) :: rest =>
    decide (o % 3600 = 0) && decide (-93600 ≤ o) && decide (o ≤ 93600) && hourTableAux none o rest

theorem hourTableAux_cons {ps : Option Int} {po s o : Int} {rest : List (Int × Int)}
    (h : hourTableAux ps po ((s, o) :: rest) = true) :
    s % 3600 = 0 ∧ (o = po + 3600 ∨ o = po - 3600) ∧ -93600 ≤ o ∧ o ≤ 93600 ∧
      (∀ p, ps = some p → p + 6483600 ≤ s) ∧ hourTableAux (some s) o rest = true := by
  simp only [hourTableAux, Bool.and_eq_true, Bool.or_eq_true, decide_eq_true_eq] at h
  obtain ⟨⟨⟨⟨⟨h1, h2⟩, h3⟩, h4⟩, h5⟩, h6⟩ := h
  refine ⟨h1, h2, h3, h4, ?_, h6⟩
  intro p hp
  subst hp
  simpa using h5

/-- Offset part of `lookupAux`. -/
def offA (rest : List (Int × Int)) (o st u : Int) : Int := (lookupAux rest o st u).1

theorem offA_nil (o st u : Int) : offA [] o st u = o := rfl

theorem offA_cons (s o' : Int) (rest : List (Int × Int)) (o st u : Int) :
    offA ((s, o') :: rest) o st u = if u < s then o else offA rest o' s u := by
  simp only [offA, lookupAux]
  split <;> rfl

/-- `lookupAux` does not depend on the start of the current period, as far as the offset goes. -/
theorem offA_start (rest : List (Int × Int)) (o st st' u : Int) :
    offA rest o st u = offA rest o st' u := by
  cases rest with
  | nil => rfl
  | cons e rest => obtain ⟨s, o'⟩ := e; rw [offA_cons, offA_cons]

theorem offA_before {rest : List (Int × Int)} {o st u : Int}
    (h : ∀ e ∈ rest.head?, u < e.1) : offA rest o st u = o := by
  cases rest with
  | nil => rfl
  | cons e rest =>
    obtain ⟨s, o'⟩ := e
    have : u < s := h (s, o') (by simp)
    rw [offA_cons, if_pos this]

theorem offA_facts : ∀ (rest : List (Int × Int)) (ps : Option Int) (o st : Int),
    hourTableAux ps o rest = true → o % 3600 = 0 → -93600 ≤ o → o ≤ 93600 → ∀ u,
      offA rest o st u % 3600 = 0 ∧ -93600 ≤ offA rest o st u ∧ offA rest o st u ≤ 93600 ∧
      offA rest o st u = offA rest o st (3600 * (u / 3600)) := by
  intro rest
  induction rest with
  | nil => intro ps o st _ h1 h2 h3 u; exact ⟨h1, h2, h3, rfl⟩
  | cons e rest ih =>
    intro ps o st h h1 h2 h3 u
    obtain ⟨s, o'⟩ := e
    obtain ⟨g1, g2, g3, g4, _, g6⟩ := hourTableAux_cons h
    have := ih (some s) o' s g6 (by omega) g3 g4 u
    rw [offA_cons, offA_cons]
    by_cases hlt : u < s
    · rw [if_pos hlt, if_pos (by omega)]
      exact ⟨h1, h2, h3, rfl⟩
    · rw [if_neg hlt, if_neg (by omega)]
      exact this

/-- At most one change, by one hour, in any window of 1801 hour blocks. -/
theorem offA_window : ∀ (rest : List (Int × Int)) (ps : Option Int) (o st : Int),
    hourTableAux ps o rest = true → ∀ c : Int, ∃ τ oa ob,
      (ob = oa ∨ ob = oa + 3600 ∨ ob = oa - 3600) ∧
      ∀ k, c - 900 ≤ k → k ≤ c + 900 → offA rest o st (3600 * k) = if k < τ then oa else ob := by
  intro rest
  induction rest with
  | nil =>
    intro ps o st _ c
    exact ⟨c, o, o, Or.inl rfl, fun k _ _ => by rw [offA_nil]; split <;> rfl⟩
  | cons e rest ih =>
    intro ps o st h c
    obtain ⟨s, o'⟩ := e
    obtain ⟨g1, g2, g3, g4, _, g6⟩ := hourTableAux_cons h
    by_cases hA : 3600 * (c + 900) < s
    · -- the whole window lies before the transition
      refine ⟨c, o, o, Or.inl rfl, fun k hk1 hk2 => ?_⟩
      rw [offA_cons, if_pos (by omega)]; split <;> rfl
    · by_cases hB : s ≤ 3600 * (c - 900)
      · -- the whole window lies after it
        obtain ⟨τ, oa, ob, h1, h2⟩ := ih (some s) o' s g6 c
        refine ⟨τ, oa, ob, h1, fun k hk1 hk2 => ?_⟩
        rw [offA_cons, if_neg (by omega)]
        exact h2 k hk1 hk2
      · -- the transition is inside the window: the next one is beyond it
        refine ⟨s / 3600, o, o', by omega, fun k hk1 hk2 => ?_⟩
        rw [offA_cons]
        by_cases hk : k < s / 3600
        · rw [if_pos hk, if_pos (by omega)]
        · rw [if_neg hk, if_neg (by omega)]
          apply offA_before
          intro e he
          cases rest with
          | nil => simp at he
          | cons e' rest' =>
            obtain ⟨s2, o2⟩ := e'
            simp only [List.head?_cons, Option.mem_def, Option.some.injEq] at he
            subst he
            obtain ⟨_, _, _, _, g5', _⟩ := hourTableAux_cons g6
            have := g5' s rfl
            simp only
            omega

/-- The offset is constant on the period `lookupAux` reports. -/
theorem lookupAux_period : ∀ (rest : List (Int × Int)) (ps : Option Int) (o st u v : Int),
    hourTableAux ps o rest = true → (∀ p, ps = some p → p = st) →
    (lookupAux rest o st u).2.1 ≤ v → v < (lookupAux rest o st u).2.2 →
      offA rest o st v = (lookupAux rest o st u).1 ∧
      (∀ p, ps = some p → p ≤ (lookupAux rest o st u).2.1) := by
  intro rest
  induction rest with
  | nil =>
    intro ps o st u v _ hps _ _
    exact ⟨rfl, fun p hp => by simp only [lookupAux]; have := hps p hp; omega⟩
  | cons e rest ih =>
    intro ps o st u v h hps h1 h2
    obtain ⟨s, o'⟩ := e
    obtain ⟨_, _, _, _, g5, g6⟩ := hourTableAux_cons h
    simp only [lookupAux] at h1 h2 ⊢
    by_cases hlt : u < s
    · rw [if_pos hlt] at h1 h2 ⊢
      simp only at h1 h2 ⊢
      rw [offA_cons, if_pos h2]
      exact ⟨rfl, fun p hp => by have := hps p hp; omega⟩
    · rw [if_neg hlt] at h1 h2 ⊢
      have := ih (some s) o' s u v g6 (fun p hp => by simpa using hp.symm) h1 h2
      have hs := this.2 s rfl
      rw [offA_cons, if_neg (by omega)]
      exact ⟨this.1, fun p hp => by have := g5 p hp; omega⟩

/-- Hour block function of a table. -/
def blockOff (z : Zone) (k : Int) : Int := offsetAt z (3600 * k) / 3600

theorem hourZone_of_table (z : Zone) (h : hourTable z = true) : HourZone z (blockOff z) := by
  cases z with
  | nil =>
    refine ⟨fun u => ?_, fun k => ?_, fun c => ⟨c, 0, 0, Or.inl rfl, fun k _ _ => ?_⟩, fun u v _ _ => rfl⟩
    · simp [offsetAt, lookup, blockOff]
    · simp [offsetAt, lookup, blockOff]
    · simp [offsetAt, lookup, blockOff]
  | cons e rest =>
    obtain ⟨s0, o⟩ := e
    simp only [hourTable, Bool.and_eq_true, decide_eq_true_eq] at h
    obtain ⟨⟨⟨h1, h2⟩, h3⟩, h4⟩ := h
    have hoff : ∀ u, offsetAt ((s0, o) :: rest) u = offA rest o alpha u := fun u => rfl
    have hf := offA_facts rest none o alpha h4 h1 h2 h3
    refine ⟨fun u => ?_, fun k => ?_, fun c => ?_, fun u v hv1 hv2 => ?_⟩
    · simp only [blockOff, hoff]
      have := hf u
      have := hf (3600 * (u / 3600))
      omega
    · simp only [blockOff, hoff]
      have := hf (3600 * k)
      omega
    · obtain ⟨τ, oa, ob, g1, g2⟩ := offA_window rest none o alpha h4 c
      have ha : ∀ k, c - 900 ≤ k → k ≤ c + 900 → k < τ → oa % 3600 = 0 := by
        intro k hk1 hk2 hk3
        have := g2 k hk1 hk2; rw [if_pos hk3] at this
        have := (hf (3600 * k)).1; omega
      have hb : ∀ k, c - 900 ≤ k → k ≤ c + 900 → τ ≤ k → ob % 3600 = 0 := by
        intro k hk1 hk2 hk3
        have := g2 k hk1 hk2; rw [if_neg (by omega)] at this
        have := (hf (3600 * k)).1; omega
      by_cases hτ1 : τ ≤ c - 900
      · -- only `ob` is seen
        refine ⟨τ, ob / 3600, ob / 3600, Or.inl rfl, fun k hk1 hk2 => ?_⟩
        simp only [blockOff, hoff]
        rw [g2 k hk1 hk2, if_neg (by omega)]; split <;> rfl
      · by_cases hτ2 : c + 900 < τ
        · refine ⟨τ, oa / 3600, oa / 3600, Or.inl rfl, fun k hk1 hk2 => ?_⟩
          simp only [blockOff, hoff]
          rw [g2 k hk1 hk2, if_pos (by omega)]; split <;> rfl
        · have h5 := ha (c - 900) (by omega) (by omega) (by omega)
          have h6 := hb (c + 900) (by omega) (by omega) (by omega)
          refine ⟨τ, oa / 3600, ob / 3600, by omega, fun k hk1 hk2 => ?_⟩
          simp only [blockOff, hoff]
          rw [g2 k hk1 hk2]; split <;> rfl
    · have hl : lookup ((s0, o) :: rest) u = lookupAux rest o alpha u := rfl
      rw [hl] at hv1 hv2 ⊢
      rw [hoff]
      exact (lookupAux_period rest none o alpha u v h4 (fun p hp => by simp at hp) hv1 hv2).1

end Kit.CronSpec
