import KitModel.Broadcaster
/-! Helper lemmas for C11 (broadcaster): reachability kernel, step inversion, the inductive
invariants. -/
namespace Kit.Broadcaster

theorem inv_of_inductive {v : Variant} (Inv : State → Prop) (h0 : Inv init)
    (hs : ∀ s l s', Reach v s → Inv s → step v s l = some s' → Inv s') :
    ∀ s, Reach v s → Inv s := by
  intro s hr
  induction hr with
  | init => exact h0
  | step l hr hst ih => exact hs _ l _ hr ih hst

theorem reach_of_run {v : Variant} : ∀ (ls : List Label) (s s' : State),
    Reach v s → runLabels v s ls = some s' → Reach v s'
  | [], s, s', hr, h => by simp [runLabels] at h; subst h; exact hr
  | l :: ls, s, s', hr, h => by
    simp only [runLabels] at h
    split at h
    · next s1 h1 => exact reach_of_run ls s1 s' (Reach.step l hr h1) h
    · simp at h

theorem Path.trans {v : Variant} {ok : Label → Prop} {a b c : State} :
    Path v ok a b → Path v ok b c → Path v ok a c := by
  intro h1 h2
  induction h1 with
  | refl => exact h2
  | cons l hl hs _ ih => exact Path.cons l hl hs (ih h2)

theorem Path.reach {v : Variant} {ok : Label → Prop} {a b : State} :
    Path v ok a b → Reach v a → Reach v b := by
  intro h hr
  induction h with
  | refl => exact hr
  | cons l _ hs _ ih => exact ih (Reach.step l hr hs)

theorem Path.mono {v : Variant} {ok ok' : Label → Prop} (h : ∀ l, ok l → ok' l) {a b : State} :
    Path v ok a b → Path v ok' a b := by
  intro p
  induction p with
  | refl => exact Path.refl _
  | cons l hl hs _ ih => exact Path.cons l (h l hl) hs ih

/-- Progress by a decreasing measure: if from every good non-target state some permitted step
leads to a good state with smaller measure, every good state has a permitted path to a target. -/
theorem path_of_measure {v : Variant} {ok : Label → Prop} (Good Target : State → Prop)
    (μ : State → Nat)
    (hstep : ∀ s, Good s → ¬ Target s →
      ∃ l s', ok l ∧ step v s l = some s' ∧ Good s' ∧ μ s' < μ s) :
    ∀ s, Good s → ∃ s', Path v ok s s' ∧ Good s' ∧ Target s' := by
  suffices H : ∀ n s, μ s < n → Good s → ∃ s', Path v ok s s' ∧ Good s' ∧ Target s' from
    fun s hg => H (μ s + 1) s (Nat.lt_succ_self _) hg
  intro n
  induction n with
  | zero => intro s h; omega
  | succ n ih =>
    intro s hlt hg
    by_cases ht : Target s
    · exact ⟨s, Path.refl s, hg, ht⟩
    · obtain ⟨l, s1, hl, hs, hg1, hlt1⟩ := hstep s hg ht
      obtain ⟨s2, hp, hg2, ht2⟩ := ih s1 (by omega) hg1
      exact ⟨s2, Path.cons l hl hs hp, hg2, ht2⟩

/-- Unfold one step of the LTS in hypothesis `h : step v s l = some s'` after `cases l`. -/
macro "unfold_step" h:ident : tactic =>
  `(tactic| simp only [step, bcCall, bcAcquire, bcPush, bcSkipExit, bcSkipClose, bcSkipGone, bcFinish,
      bcReturn, subCall, subAcquire, subReturn, cancel, fwdTake, fwdDeliver, fwdExitCtx, fwdExitClose,
      fwdCloseExit, fwdRemove, closeCall, closeCas, closeChClose, closePass, closeReturn, setSub] at $h:ident)

/-! ### `unlist` touches nothing but one `inList` flag -/

theorem unlist_eq (s : State) (t : Option Nat) :
    unlist s t = s ∨ ∃ j w, s.subs[j]? = some w ∧ unlist s t = setSub s j { w with inList := false } := by
  cases t with
  | none => exact Or.inl rfl
  | some j =>
    cases hw : s.subs[j]? with
    | none => left; simp [unlist, hw]
    | some w => right; exact ⟨j, w, hw, by simp [unlist, hw]⟩

@[simp] theorem unlist_bc (s t) : (unlist s t).bc = s.bc := by
  rcases unlist_eq s t with h | ⟨_, _, _, h⟩ <;> rw [h] <;> rfl
@[simp] theorem unlist_closed (s t) : (unlist s t).closed = s.closed := by
  rcases unlist_eq s t with h | ⟨_, _, _, h⟩ <;> rw [h] <;> rfl
@[simp] theorem unlist_closeCh (s t) : (unlist s t).closeCh = s.closeCh := by
  rcases unlist_eq s t with h | ⟨_, _, _, h⟩ <;> rw [h] <;> rfl
@[simp] theorem unlist_log (s t) : (unlist s t).log = s.log := by
  rcases unlist_eq s t with h | ⟨_, _, _, h⟩ <;> rw [h] <;> rfl
@[simp] theorem unlist_waitB (s t) : (unlist s t).waitB = s.waitB := by
  rcases unlist_eq s t with h | ⟨_, _, _, h⟩ <;> rw [h] <;> rfl
@[simp] theorem unlist_retB (s t) : (unlist s t).retB = s.retB := by
  rcases unlist_eq s t with h | ⟨_, _, _, h⟩ <;> rw [h] <;> rfl
@[simp] theorem unlist_returnedT (s t) : (unlist s t).returnedT = s.returnedT := by
  rcases unlist_eq s t with h | ⟨_, _, _, h⟩ <;> rw [h] <;> rfl
@[simp] theorem unlist_nextTicket (s t) : (unlist s t).nextTicket = s.nextTicket := by
  rcases unlist_eq s t with h | ⟨_, _, _, h⟩ <;> rw [h] <;> rfl
@[simp] theorem unlist_closeNew (s t) : (unlist s t).closeNew = s.closeNew := by
  rcases unlist_eq s t with h | ⟨_, _, _, h⟩ <;> rw [h] <;> rfl
@[simp] theorem unlist_closePre (s t) : (unlist s t).closePre = s.closePre := by
  rcases unlist_eq s t with h | ⟨_, _, _, h⟩ <;> rw [h] <;> rfl
@[simp] theorem unlist_closePost (s t) : (unlist s t).closePost = s.closePost := by
  rcases unlist_eq s t with h | ⟨_, _, _, h⟩ <;> rw [h] <;> rfl
@[simp] theorem unlist_closeReturned (s t) : (unlist s t).closeReturned = s.closeReturned := by
  rcases unlist_eq s t with h | ⟨_, _, _, h⟩ <;> rw [h] <;> rfl

/-! ### Close bookkeeping -/

structure CInv (v : Variant) (s : State) : Prop where
  ch_closed : s.closeCh = true → s.closed = true
  post_closed : 0 < s.closePre + s.closePost + s.closeReturned → s.closed = true
  winner : v = .fixed → s.closed = true → s.closeCh = false → 1 ≤ s.closePre
  orig_pre : v = .orig → s.closePre = 0 ∧ (s.closed = true → s.closeCh = true)
  closed_called : s.closed = true → 0 < s.closePre + s.closePost + s.closeReturned

theorem cinv_init (v : Variant) : CInv v init := by
  constructor <;> simp [init]

theorem cinv_step {v s l s'} (h : CInv v s) (hs : step v s l = some s') : CInv v s' := by
  obtain ⟨h1, h2, h3, h4, h5⟩ := h
  cases l <;> unfold_step hs <;> (repeat' split at hs) <;> (try simp at hs) <;> (try subst hs) <;>
    (try (constructor <;> simp_all <;> omega))
  · -- closePass
    next hg =>
    obtain ⟨_, hp, hc⟩ := hg
    constructor <;> simp_all
    · intro _; exact h2 (by omega)
    · intro hv hcl hch
      rcases hc with hc | hc
      · simp [hc] at hch
      · omega
    · intro _; omega
  · -- closeReturn
    next hg =>
    constructor <;> simp_all
    · intro _; exact h2 (by omega)
    · intro _; omega

/-! ### The per-subscriber invariant -/

def pendOf (bc : Option (Entry × Nat)) (i : Nat) : List Entry :=
  match bc with
  | some (e, pc) => if pc ≤ i then [e] else []
  | none => []

theorem pend_eq (s : State) (i : Nat) : pend s i = pendOf s.bc i := rfl

/-- Invariant of subscriber `i` in a context (log, fan-out, closeCh, closed). -/
structure SubWF (log : List Entry) (bc : Option (Entry × Nat)) (closeCh closed : Bool)
    (i : Nat) (u : Sub) : Prop where
  joined : u.joinedAt ≤ log.length
  suffix : u.missed = false → u.seq ++ pendOf bc i = log.drop u.joinedAt
  missedWhy : u.missed = true → u.exitClosed = true ∨ closeCh = true
  exitPc : u.exitClosed = true ↔ (u.pc = .wantLock ∨ u.pc = .done)
  listPc : u.inList = false ↔ u.pc = .done
  missedLoop : u.missed = true → inLoop u = true →
    closed = true ∧ ∀ e pc, bc = some (e, pc) → i < pc
  loopPrefix : inLoop u = true → u.seq <+: log.drop u.joinedAt
  delPrefix : u.delivered <+: log.drop u.joinedAt
  holding : u.pc = .holding → u.hand.isSome = true
  idle : u.pc = .idle → u.hand = none
  bufLen : u.buf.length ≤ bufferSize

structure WF (s : State) : Prop where
  bcLast : ∀ e pc, s.bc = some (e, pc) → ∃ l0, s.log = l0 ++ [e]
  bcPc : ∀ e pc, s.bc = some (e, pc) → pc ≤ s.subs.length
  chClosed : s.closeCh = true → s.closed = true
  subs : ∀ i u, s.subs[i]? = some u → SubWF s.log s.bc s.closeCh s.closed i u

theorem getElem?_set_cases {α : Type} {l : List α} {k i : Nat} {a b : α}
    (h : (l.set k a)[i]? = some b) : (i = k ∧ b = a) ∨ (i ≠ k ∧ l[i]? = some b) := by
  rw [List.getElem?_set] at h
  split at h
  · next hk =>
    split at h
    · left; exact ⟨hk.symm, by simpa using h.symm⟩
    · simp at h
  · next hk => right; exact ⟨fun e => hk e.symm, h⟩

theorem getElem?_append_one_cases {α : Type} {l : List α} {i : Nat} {a b : α}
    (h : (l ++ [a])[i]? = some b) : (i = l.length ∧ b = a) ∨ (i < l.length ∧ l[i]? = some b) := by
  by_cases hi : i < l.length
  · right; rw [List.getElem?_append_left hi] at h; exact ⟨hi, h⟩
  · left
    have hi' : l.length ≤ i := by omega
    rw [List.getElem?_append_right hi'] at h
    have : i - l.length = 0 := by
      cases hk : i - l.length with
      | zero => rfl
      | succ n => simp [hk] at h
    simp [this] at h
    exact ⟨by omega, h.symm⟩

theorem drop_append_one {α : Type} (l : List α) (e : α) (j : Nat) (h : j ≤ l.length) :
    (l ++ [e]).drop j = l.drop j ++ [e] := List.drop_append_of_le_length h

theorem prefix_drop_append_one {α : Type} (x l : List α) (e : α) (j : Nat) (h : j ≤ l.length)
    (hp : x <+: l.drop j) : x <+: (l ++ [e]).drop j := by
  rw [drop_append_one l e j h]
  exact hp.trans (List.prefix_append _ _)

/-- Nothing about subscriber `i` changes; the log grows by the entry whose fan-out starts. -/
theorem SubWF.acquire {log cc cl i u} (e : Entry) (h : SubWF log none cc cl i u) (hcl : cl = false) :
    SubWF (log ++ [e]) (some (e, 0)) cc cl i u := by
  constructor
  · simp; have := h.joined; omega
  · intro hm
    have := h.suffix hm
    simp [pendOf] at this ⊢
    rw [drop_append_one _ _ _ h.joined, ← this]
  · exact h.missedWhy
  · exact h.exitPc
  · exact h.listPc
  · intro hm hl
    have := (h.missedLoop hm hl).1
    simp [hcl] at this
  · intro hl; exact prefix_drop_append_one _ _ _ _ h.joined (h.loopPrefix hl)
  · exact prefix_drop_append_one _ _ _ _ h.joined h.delPrefix
  · exact h.holding
  · exact h.idle
  · exact h.bufLen

/-- The fan-out moves on from `pc`; subscriber `i ≠ pc` is untouched. -/
theorem SubWF.advance {log cc cl i u e pc} (h : SubWF log (some (e, pc)) cc cl i u) (hi : i ≠ pc) :
    SubWF log (some (e, pc + 1)) cc cl i u := by
  have hp : pendOf (some (e, pc + 1)) i = pendOf (some (e, pc)) i := by
    simp only [pendOf]
    by_cases h1 : pc ≤ i
    · have : pc + 1 ≤ i := by omega
      simp [h1, this]
    · have : ¬ pc + 1 ≤ i := by omega
      simp [h1, this]
  constructor
  · exact h.joined
  · intro hm; rw [hp]; exact h.suffix hm
  · exact h.missedWhy
  · exact h.exitPc
  · exact h.listPc
  · intro hm hl
    obtain ⟨h1, h2⟩ := h.missedLoop hm hl
    refine ⟨h1, ?_⟩
    intro e' pc' heq
    simp at heq
    have := h2 e pc rfl
    omega
  · exact h.loopPrefix
  · exact h.delPrefix
  · exact h.holding
  · exact h.idle
  · exact h.bufLen

/-- The fan-out is over (`pc` is past every subscriber). -/
theorem SubWF.finish {log cc cl i u e pc} (h : SubWF log (some (e, pc)) cc cl i u) (hi : i < pc) :
    SubWF log none cc cl i u := by
  have hp : pendOf (some (e, pc)) i = [] := by
    simp only [pendOf]
    have : ¬ pc ≤ i := by omega
    simp [this]
  constructor
  · exact h.joined
  · intro hm; have := h.suffix hm; rw [hp] at this; simpa [pendOf] using this
  · exact h.missedWhy
  · exact h.exitPc
  · exact h.listPc
  · intro hm hl
    exact ⟨(h.missedLoop hm hl).1, by intro e pc h; simp at h⟩
  · exact h.loopPrefix
  · exact h.delPrefix
  · exact h.holding
  · exact h.idle
  · exact h.bufLen

/-- `closed` / `closeCh` only ever become true. -/
theorem SubWF.mono {log bc cc cl cc' cl' i u} (h : SubWF log bc cc cl i u)
    (h1 : cc = true → cc' = true) (h2 : cl = true → cl' = true) : SubWF log bc cc' cl' i u := by
  constructor
  · exact h.joined
  · exact h.suffix
  · intro hm; rcases h.missedWhy hm with h | h
    · exact Or.inl h
    · exact Or.inr (h1 h)
  · exact h.exitPc
  · exact h.listPc
  · intro hm hl; exact ⟨h2 (h.missedLoop hm hl).1, (h.missedLoop hm hl).2⟩
  · exact h.loopPrefix
  · exact h.delPrefix
  · exact h.holding
  · exact h.idle
  · exact h.bufLen

/-! ### updates of the subscriber itself -/

theorem SubWF.push {log cc cl u e pc} (h : SubWF log (some (e, pc)) cc cl pc u)
    (hb : u.buf.length < bufferSize) :
    SubWF log (some (e, pc + 1)) cc cl pc { u with buf := u.buf ++ [e] } := by
  have hp : pendOf (some (e, pc)) pc = [e] := by simp [pendOf]
  have hp' : pendOf (some (e, pc + 1)) pc = [] := by simp [pendOf]
  have hseq : ({ u with buf := u.buf ++ [e] } : Sub).seq = u.seq ++ [e] := by
    simp [Sub.seq, List.append_assoc]
  have hnm : inLoop u = true → u.missed = false := by
    intro hl
    cases hm : u.missed with
    | false => rfl
    | true => have := (h.missedLoop hm hl).2 e pc rfl; omega
  constructor
  · exact h.joined
  · intro hm
    rw [hseq, hp', List.append_nil]
    have := h.suffix hm
    rwa [hp] at this
  · exact h.missedWhy
  · exact h.exitPc
  · exact h.listPc
  · intro hm hl
    have := hnm hl
    simp_all
  · intro hl
    have hm := hnm hl
    have := h.suffix hm
    rw [hp] at this
    rw [hseq, this]
    exact List.prefix_refl _
  · exact h.delPrefix
  · exact h.holding
  · exact h.idle
  · show (u.buf ++ [e]).length ≤ bufferSize
    simp; omega

theorem SubWF.skip {log cc cl u e pc} (h : SubWF log (some (e, pc)) cc cl pc u)
    (hr : u.exitClosed = true ∨ (cc = true ∧ cl = true)) :
    SubWF log (some (e, pc + 1)) cc cl pc { u with missed := true } := by
  constructor
  · exact h.joined
  · intro hm; simp at hm
  · intro _; rcases hr with hr | hr
    · exact Or.inl hr
    · exact Or.inr hr.1
  · exact h.exitPc
  · exact h.listPc
  · intro _ hl
    have hl' : inLoop u = true := hl
    rcases hr with hr | hr
    · have := h.exitPc.mp hr
      simp [inLoop] at hl'
      rcases this with this | this <;> simp [this] at hl'
    · refine ⟨hr.2, ?_⟩
      intro e' pc' heq
      simp at heq
      omega
  · exact h.loopPrefix
  · exact h.delPrefix
  · exact h.holding
  · exact h.idle
  · exact h.bufLen

theorem SubWF.take {log bc cc cl i u x rest} (h : SubWF log bc cc cl i u)
    (hpc : u.pc = .idle) (hb : u.buf = x :: rest) :
    SubWF log bc cc cl i { u with hand := some x, buf := rest, pc := .holding } := by
  have hh := h.idle hpc
  have hseq : ({ u with hand := some x, buf := rest, pc := .holding } : Sub).seq = u.seq := by
    simp [Sub.seq, hh, hb]
  have hl : inLoop u = true := by simp [inLoop, hpc]
  constructor
  · exact h.joined
  · intro hm; rw [hseq]; exact h.suffix hm
  · exact h.missedWhy
  · have := h.exitPc; simp [hpc] at this ⊢; exact this
  · have := h.listPc; simp [hpc] at this ⊢; exact this
  · intro hm _; exact h.missedLoop hm hl
  · intro _; rw [hseq]; exact h.loopPrefix hl
  · exact h.delPrefix
  · intro _; rfl
  · intro hc; simp at hc
  · have := h.bufLen; rw [hb] at this; simp at this ⊢; omega

theorem SubWF.deliver {log bc cc cl i u x} (h : SubWF log bc cc cl i u)
    (hpc : u.pc = .holding) (hh : u.hand = some x) :
    SubWF log bc cc cl i { u with delivered := u.delivered ++ [x], hand := none, pc := .idle } := by
  have hseq : ({ u with delivered := u.delivered ++ [x], hand := none, pc := .idle } : Sub).seq = u.seq := by
    simp [Sub.seq, hh]
  have hl : inLoop u = true := by simp [inLoop, hpc]
  constructor
  · exact h.joined
  · intro hm; rw [hseq]; exact h.suffix hm
  · exact h.missedWhy
  · have := h.exitPc; simp [hpc] at this ⊢; exact this
  · have := h.listPc; simp [hpc] at this ⊢; exact this
  · intro hm _; exact h.missedLoop hm hl
  · intro _; rw [hseq]; exact h.loopPrefix hl
  · have := h.loopPrefix hl
    refine List.IsPrefix.trans ?_ this
    simp only [Sub.seq, hh, Option.toList]
    exact List.prefix_append _ _
  · intro hc; simp at hc
  · intro _; rfl
  · exact h.bufLen

theorem SubWF.cancel {log bc cc cl i u} (h : SubWF log bc cc cl i u) :
    SubWF log bc cc cl i { u with cancelled := true } := by
  constructor
  · exact h.joined
  · exact h.suffix
  · exact h.missedWhy
  · exact h.exitPc
  · exact h.listPc
  · exact h.missedLoop
  · exact h.loopPrefix
  · exact h.delPrefix
  · exact h.holding
  · exact h.idle
  · exact h.bufLen

theorem SubWF.exit {log bc cc cl i u} (h : SubWF log bc cc cl i u) (hl : inLoop u = true) :
    SubWF log bc cc cl i { u with pc := .exiting } := by
  have hpc : u.pc = .idle ∨ u.pc = .holding := by simpa [inLoop] using hl
  constructor
  · exact h.joined
  · exact h.suffix
  · exact h.missedWhy
  · have := h.exitPc; rcases hpc with hpc | hpc <;> simp [hpc] at this ⊢ <;> exact this
  · have := h.listPc; rcases hpc with hpc | hpc <;> simp [hpc] at this ⊢ <;> exact this
  · intro _ hc; simp [inLoop] at hc
  · intro hc; simp [inLoop] at hc
  · exact h.delPrefix
  · intro hc; simp at hc
  · intro hc; simp at hc
  · exact h.bufLen

theorem SubWF.closeExit {log bc cc cl i u} (h : SubWF log bc cc cl i u) (hpc : u.pc = .exiting) :
    SubWF log bc cc cl i { u with exitClosed := true, pc := .wantLock } := by
  constructor
  · exact h.joined
  · exact h.suffix
  · intro _; exact Or.inl rfl
  · simp
  · have := h.listPc; simp [hpc] at this ⊢; exact this
  · intro _ hc; simp [inLoop] at hc
  · intro hc; simp [inLoop] at hc
  · exact h.delPrefix
  · intro hc; simp at hc
  · intro hc; simp at hc
  · exact h.bufLen

theorem SubWF.remove {log bc cc cl i u} (h : SubWF log bc cc cl i u) (hpc : u.pc = .wantLock) :
    SubWF log bc cc cl i { u with inList := false, pc := .done } := by
  have he : u.exitClosed = true := h.exitPc.mpr (Or.inl hpc)
  constructor
  · exact h.joined
  · exact h.suffix
  · intro _; exact Or.inl he
  · simp [he]
  · simp
  · intro _ hc; simp [inLoop] at hc
  · intro hc; simp [inLoop] at hc
  · exact h.delPrefix
  · intro hc; simp at hc
  · intro hc; simp at hc
  · exact h.bufLen

theorem SubWF.new (log : List Entry) (cc cl : Bool) (i id h c : Nat) (b : Bool) :
    SubWF log none cc cl i (Sub.new id h c log.length b) := by
  constructor <;> simp [Sub.new, Sub.seq, pendOf, inLoop, bufferSize]

/-! ### state-level preservation, by shape of the update -/

theorem WF.frame {s s' : State} (h : WF s) (h1 : s'.subs = s.subs) (h2 : s'.log = s.log)
    (h3 : s'.bc = s.bc) (h4 : s'.closeCh = s.closeCh) (h5 : s'.closed = s.closed) : WF s' := by
  constructor
  · rw [h2, h3]; exact h.bcLast
  · rw [h1, h3]; exact h.bcPc
  · rw [h4, h5]; exact h.chClosed
  · rw [h1, h2, h3, h4, h5]; exact h.subs

theorem WF.close {s s' : State} (h : WF s) (h1 : s'.subs = s.subs) (h2 : s'.log = s.log)
    (h3 : s'.bc = s.bc) (h4 : s.closeCh = true → s'.closeCh = true)
    (h5 : s.closed = true → s'.closed = true) (h6 : s'.closeCh = true → s'.closed = true) : WF s' := by
  constructor
  · rw [h2, h3]; exact h.bcLast
  · rw [h1, h3]; exact h.bcPc
  · exact h6
  · rw [h1, h2, h3]; intro i u hi; exact (h.subs i u hi).mono h4 h5

theorem WF.setSub {s s' : State} {k : Nat} {u' : Sub} (h : WF s)
    (hu : SubWF s.log s.bc s.closeCh s.closed k u') (h1 : s'.subs = s.subs.set k u')
    (h2 : s'.log = s.log) (h3 : s'.bc = s.bc) (h4 : s'.closeCh = s.closeCh)
    (h5 : s'.closed = s.closed) : WF s' := by
  constructor
  · rw [h2, h3]; exact h.bcLast
  · rw [h1, h3]; simpa using h.bcPc
  · rw [h4, h5]; exact h.chClosed
  · rw [h1, h2, h3, h4, h5]
    intro i u hi
    rcases getElem?_set_cases hi with ⟨rfl, rfl⟩ | ⟨_, hi'⟩
    · exact hu
    · exact h.subs i u hi'

theorem WF.fan {s s' : State} {e : Entry} {pc : Nat} {u' : Sub} (h : WF s)
    (hbc : s.bc = some (e, pc)) (hlt : pc < s.subs.length)
    (hu : SubWF s.log (some (e, pc + 1)) s.closeCh s.closed pc u')
    (h1 : s'.subs = s.subs.set pc u') (h2 : s'.log = s.log) (h3 : s'.bc = some (e, pc + 1))
    (h4 : s'.closeCh = s.closeCh) (h5 : s'.closed = s.closed) : WF s' := by
  constructor
  · rw [h2, h3]; intro e' pc' heq; simp at heq; obtain ⟨rfl, _⟩ := heq; exact h.bcLast e pc hbc
  · rw [h1, h3]; intro e' pc' heq; simp at heq ⊢; omega
  · rw [h4, h5]; exact h.chClosed
  · rw [h1, h2, h3, h4, h5]
    intro i u hi
    rcases getElem?_set_cases hi with ⟨rfl, rfl⟩ | ⟨hne, hi'⟩
    · exact hu
    · have := h.subs i u hi'
      rw [hbc] at this
      exact this.advance hne

theorem WF.acquire {s s' : State} {e : Entry} (h : WF s) (hbc : s.bc = none)
    (hcl : s.closed = false) (h1 : s'.subs = s.subs) (h2 : s'.log = s.log ++ [e])
    (h3 : s'.bc = some (e, 0)) (h4 : s'.closeCh = s.closeCh) (h5 : s'.closed = s.closed) :
    WF s' := by
  constructor
  · rw [h2, h3]; intro e' pc' heq; simp at heq; obtain ⟨rfl, _⟩ := heq; exact ⟨_, rfl⟩
  · rw [h3]; intro e' pc' heq; simp at heq; omega
  · rw [h4, h5]; exact h.chClosed
  · rw [h1, h2, h3, h4, h5]
    intro i u hi
    have := h.subs i u hi
    rw [hbc] at this
    exact this.acquire e hcl

theorem WF.finish {s s' : State} {e : Entry} {pc : Nat} (h : WF s) (hbc : s.bc = some (e, pc))
    (hpc : s.subs.length ≤ pc) (h1 : s'.subs = s.subs) (h2 : s'.log = s.log)
    (h3 : s'.bc = none) (h4 : s'.closeCh = s.closeCh) (h5 : s'.closed = s.closed) : WF s' := by
  constructor
  · rw [h3]; intro e' pc' heq; simp at heq
  · rw [h3]; intro e' pc' heq; simp at heq
  · rw [h4, h5]; exact h.chClosed
  · rw [h1, h2, h3, h4, h5]
    intro i u hi
    have hlt : i < s.subs.length := by
      have := List.getElem?_eq_some_iff.mp hi
      exact this.1
    have := h.subs i u hi
    rw [hbc] at this
    exact this.finish (by omega)

theorem mem_newSubs {s : State} {t j : Nat} {u : Sub} (h : u ∈ newSubs s t j) :
    ∃ m, m < j ∧ u = Sub.new (s.currentID + m) (t + m) t s.log.length (s.cancelledCalls.contains t) := by
  simp only [newSubs, List.mem_map, List.mem_range] at h
  obtain ⟨m, hm, rfl⟩ := h
  exact ⟨m, hm, rfl⟩

theorem getElem?_append_cases {α : Type} {l r : List α} {i : Nat} {b : α}
    (h : (l ++ r)[i]? = some b) :
    (i < l.length ∧ l[i]? = some b) ∨ (l.length ≤ i ∧ r[i - l.length]? = some b) := by
  by_cases hi : i < l.length
  · left; rw [List.getElem?_append_left hi] at h; exact ⟨hi, h⟩
  · right
    have hi' : l.length ≤ i := by omega
    rw [List.getElem?_append_right hi'] at h
    exact ⟨hi', h⟩

theorem WF.newSubs {s s' : State} {t j : Nat} (h : WF s) (hbc : s.bc = none)
    (h1 : s'.subs = s.subs ++ newSubs s t j) (h2 : s'.log = s.log)
    (h3 : s'.bc = s.bc) (h4 : s.closeCh = true → s'.closeCh = true)
    (h5 : s.closed = true → s'.closed = true) (h6 : s'.closeCh = true → s'.closed = true) :
    WF s' := by
  constructor
  · rw [h2, h3]; exact h.bcLast
  · rw [h3, hbc]; intro e' pc' heq; simp at heq
  · exact h6
  · rw [h1, h2, h3]
    intro i u hi
    rcases getElem?_append_cases hi with ⟨_, hi'⟩ | ⟨_, hi'⟩
    · exact (h.subs i u hi').mono h4 h5
    · obtain ⟨m, _, rfl⟩ := mem_newSubs (List.mem_of_getElem? hi')
      rw [hbc]; exact SubWF.new _ _ _ _ _ _ _ _

/-- The same update applied to every subscriber, leaving the context alone. -/
theorem WF.mapSubs {s s' : State} {f : Sub → Sub} (h : WF s)
    (hf : ∀ i u, SubWF s.log s.bc s.closeCh s.closed i u → SubWF s.log s.bc s.closeCh s.closed i (f u))
    (h1 : s'.subs = s.subs.map f) (h2 : s'.log = s.log) (h3 : s'.bc = s.bc)
    (h4 : s'.closeCh = s.closeCh) (h5 : s'.closed = s.closed) : WF s' := by
  constructor
  · rw [h2, h3]; exact h.bcLast
  · rw [h1, h3]; simpa using h.bcPc
  · rw [h4, h5]; exact h.chClosed
  · rw [h1, h2, h3, h4, h5]
    intro i u hi
    rw [List.getElem?_map] at hi
    cases hu : s.subs[i]? with
    | none => simp [hu] at hi
    | some w =>
      simp [hu] at hi
      subst hi
      exact hf i w (h.subs i w hu)

theorem SubWF.cancelSub {log bc cc cl i u} (c : Nat) (h : SubWF log bc cc cl i u) :
    SubWF log bc cc cl i (cancelSub c u) := by
  unfold Kit.Broadcaster.cancelSub
  split
  · exact h.cancel
  · exact h

theorem wf_init : WF init := by
  constructor <;> simp [init]

/-! ### subscriber ids: fresh from a counter, never reused -/

/-- The id of the subscriber in slot `i` is `i` (ids are handed out by the counter `currentID`,
which is incremented at every subscribe and never decremented). -/
structure IdInv (s : State) : Prop where
  cur : s.currentID = s.subs.length
  ids : ∀ (i : Nat) (u : Sub), s.subs[i]? = some u → u.id = i

theorem idinv_init : IdInv init := by constructor <;> simp [init]

/-- With fresh ids the removal loop finds the forwarder's own entry. -/
theorem removeTarget_eq {s : State} (hid : IdInv s) {i : Nat} {u : Sub}
    (hu : s.subs[i]? = some u) (hin : u.inList = true) : removeTarget s u.id = some i := by
  have hlt : i < s.subs.length := (List.getElem?_eq_some_iff.mp hu).1
  have hget : s.subs[i] = u := (List.getElem?_eq_some_iff.mp hu).2
  unfold removeTarget
  rw [List.findIdx?_eq_some_iff_getElem]
  refine ⟨hlt, ?_, ?_⟩
  · simp [hget, hin]
  · intro j hj
    have hjl : j < s.subs.length := by omega
    have h1 := hid.ids j s.subs[j] (List.getElem?_eq_getElem hjl)
    have h2 := hid.ids i u hu
    simp [h1, h2]
    intro _; omega

/-- Under the invariants, `fwdRemove` removes exactly the leaver's own entry. -/
theorem fwdRemove_spec {s s' : State} {i : Nat} (hw : WF s) (hid : IdInv s)
    (hs : fwdRemove s i = some s') :
    ∃ u, s.subs[i]? = some u ∧ u.pc = .wantLock ∧ s.bc = none ∧
      s' = setSub s i { u with inList := false, pc := .done } := by
  unfold fwdRemove at hs
  split at hs
  · next u hu =>
    split at hs
    · next hg =>
      have hin : u.inList = true := by
        cases h : u.inList with
        | true => rfl
        | false => have := (hw.subs i u hu).listPc.mp h; simp [hg.1] at this
      rw [if_pos (removeTarget_eq hid hu hin)] at hs
      simp at hs
      exact ⟨u, hu, hg.1, hg.2, hs.symm⟩
    · simp at hs
  · simp at hs

theorem lt_of_getElem? {α} {l : List α} {i : Nat} {a : α} (h : l[i]? = some a) : i < l.length :=
  (List.getElem?_eq_some_iff.mp h).1

theorem wf_step {v s l s'} (h : WF s) (hid : IdInv s) (hs : step v s l = some s') : WF s' := by
  cases l
  case fwdRemove i =>
    obtain ⟨u, hu, hpc, _, rfl⟩ := fwdRemove_spec h hid (by simpa [step] using hs)
    exact h.setSub ((h.subs i u hu).remove hpc) rfl rfl rfl rfl rfl
  all_goals unfold_step hs
  case bcCall x => simp at hs; subst hs; exact h.frame rfl rfl rfl rfl rfl
  case bcAcquire k =>
    split at hs
    · next e hbc hk =>
      split at hs <;> simp at hs <;> subst hs
      · exact h.frame rfl rfl rfl rfl rfl
      · next hcl => exact h.acquire hbc (by simpa using hcl) rfl rfl rfl rfl rfl
    · simp at hs
  case bcPush =>
    split at hs
    · next e pc hbc =>
      split at hs
      · next u hu =>
        split at hs <;> simp at hs
        next hg =>
        subst hs
        have hw := h.subs pc u hu
        rw [hbc] at hw
        exact h.fan hbc (lt_of_getElem? hu) (hw.push hg.2) rfl rfl rfl rfl rfl
      · simp at hs
    · simp at hs
  case bcSkipExit =>
    split at hs
    · next e pc hbc =>
      split at hs
      · next u hu =>
        split at hs <;> simp at hs
        next hg =>
        subst hs
        have hw := h.subs pc u hu
        rw [hbc] at hw
        exact h.fan hbc (lt_of_getElem? hu) (hw.skip (Or.inl hg.2)) rfl rfl rfl rfl rfl
      · simp at hs
    · simp at hs
  case bcSkipClose =>
    split at hs
    · next e pc hbc =>
      split at hs
      · next u hu =>
        split at hs <;> simp at hs
        next hg =>
        subst hs
        have hw := h.subs pc u hu
        rw [hbc] at hw
        exact h.fan hbc (lt_of_getElem? hu) (hw.skip (Or.inr ⟨hg.2, h.chClosed hg.2⟩)) rfl rfl rfl rfl rfl
      · simp at hs
    · simp at hs
  case bcSkipGone =>
    split at hs
    · next e pc hbc =>
      split at hs
      · next u hu =>
        split at hs <;> simp at hs
        next hg =>
        subst hs
        have hw := h.subs pc u hu
        rw [hbc] at hw
        have hex : u.exitClosed = true := hw.exitPc.mpr (Or.inr (hw.listPc.mp hg))
        exact h.fan hbc (lt_of_getElem? hu) (hw.skip (Or.inl hex)) rfl rfl rfl rfl rfl
      · simp at hs
    · simp at hs
  case bcFinish =>
    split at hs
    · next e pc hbc =>
      split at hs <;> simp at hs
      next hg =>
      subst hs
      exact h.finish hbc hg rfl rfl rfl rfl rfl
    · simp at hs
  case bcReturn t =>
    split at hs
    · simp at hs; subst hs; exact h.frame rfl rfl rfl rfl rfl
    · split at hs <;> simp at hs
      subst hs; exact h.frame rfl rfl rfl rfl rfl
  case subCall => simp at hs; subst hs; exact h.frame rfl rfl rfl rfl rfl
  case subAcquire k j =>
    split at hs
    · next t n hbc hk =>
      split at hs
      · split at hs <;> simp at hs
        subst hs; exact h.frame rfl rfl rfl rfl rfl
      · split at hs
        · simp at hs; subst hs
          exact h.newSubs hbc rfl rfl rfl (fun x => x) (fun x => x) h.chClosed
        · split at hs <;> simp at hs
          subst hs
          exact h.newSubs hbc rfl rfl rfl (fun x => x) (fun _ => rfl) (fun _ => rfl)
    · simp at hs
  case subReturn t =>
    split at hs <;> simp at hs
    subst hs; exact h.frame rfl rfl rfl rfl rfl
  case cancel c =>
    simp at hs; subst hs
    exact h.mapSubs (fun _ _ hu => hu.cancelSub c) rfl rfl rfl rfl rfl
  case fwdTake i =>
    split at hs
    · next u hu =>
      split at hs <;> simp at hs
      next x rest hpc hb =>
      subst hs
      exact h.setSub ((h.subs i u hu).take hpc hb) rfl rfl rfl rfl rfl
    · simp at hs
  case fwdDeliver i =>
    split at hs
    · next u hu =>
      split at hs <;> simp at hs
      next x hpc hh =>
      subst hs
      exact h.setSub ((h.subs i u hu).deliver hpc hh) rfl rfl rfl rfl rfl
    · simp at hs
  case fwdExitCtx i =>
    split at hs
    · next u hu =>
      split at hs <;> simp at hs
      next hg =>
      subst hs
      exact h.setSub ((h.subs i u hu).exit hg.1) rfl rfl rfl rfl rfl
    · simp at hs
  case fwdExitClose i =>
    split at hs
    · next u hu =>
      split at hs <;> simp at hs
      next hg =>
      subst hs
      exact h.setSub ((h.subs i u hu).exit hg.1) rfl rfl rfl rfl rfl
    · simp at hs
  case fwdCloseExit i =>
    split at hs
    · next u hu =>
      split at hs <;> simp at hs
      next hg =>
      subst hs
      exact h.setSub ((h.subs i u hu).closeExit hg) rfl rfl rfl rfl rfl
    · simp at hs
  case closeCall => simp at hs; subst hs; exact h.frame rfl rfl rfl rfl rfl
  case closeCas =>
    split at hs
    · split at hs <;> simp at hs
      subst hs
      exact h.close rfl rfl rfl (fun x => x) (fun _ => rfl) (fun _ => rfl)
    · split at hs <;> simp at hs
      subst hs
      exact h.close rfl rfl rfl (fun _ => rfl) (fun _ => rfl) (fun _ => rfl)
  case closeChClose =>
    split at hs <;> simp at hs
    next hg =>
    subst hs
    exact h.close rfl rfl rfl (fun _ => rfl) (fun x => x) (fun _ => hg.2.1)
  case closePass =>
    split at hs <;> simp at hs
    subst hs; exact h.frame rfl rfl rfl rfl rfl
  case closeReturn =>
    split at hs <;> simp at hs
    subst hs; exact h.frame rfl rfl rfl rfl rfl

/-- Every subscriber's forwarder has finished. -/
def AllDone (s : State) : Prop := ∀ (i : Nat) (u : Sub), s.subs[i]? = some u → u.pc = FPc.done

theorem allDone_iff (s : State) : allDone s = true ↔ AllDone s := by
  simp only [allDone, AllDone, List.all_eq_true, beq_iff_eq]
  constructor
  · intro h i u hi; exact h u (List.mem_of_getElem? hi)
  · intro h u hu
    obtain ⟨i, hi, rfl⟩ := List.getElem_of_mem hu
    exact h i _ (List.getElem?_eq_getElem hi)

@[simp] theorem cancelSub_pc (c : Nat) (u : Sub) : (cancelSub c u).pc = u.pc := by
  unfold cancelSub; split <;> rfl
@[simp] theorem cancelSub_id (c : Nat) (u : Sub) : (cancelSub c u).id = u.id := by
  unfold cancelSub; split <;> rfl

theorem done_step {v s l s'} (hw : WF s) (hid : IdInv s) (hci : CInv v s)
    (hs : step v s l = some s')
    (h : 0 < s.closeReturned → s.closed = true ∧ AllDone s) :
    0 < s'.closeReturned → s'.closed = true ∧ AllDone s' := by
  cases l
  case fwdRemove i =>
    obtain ⟨u, hu, hpc, _, rfl⟩ := fwdRemove_spec hw hid (by simpa [step] using hs)
    intro hr
    obtain ⟨hc, hd⟩ := h hr
    refine ⟨hc, ?_⟩
    intro k w hk
    rcases getElem?_set_cases hk with ⟨rfl, rfl⟩ | ⟨_, hk'⟩
    · rfl
    · exact hd _ _ hk'
  case cancel c =>
    unfold_step hs; simp at hs; subst hs
    intro hr
    obtain ⟨hc, hd⟩ := h hr
    refine ⟨hc, ?_⟩
    intro k w hk
    simp only [List.getElem?_map] at hk
    cases hu : s.subs[k]? with
    | none => simp [hu] at hk
    | some u => simp [hu] at hk; subst hk; simpa using hd k u hu
  case subAcquire k j =>
    unfold_step hs
    intro hr
    split at hs
    · next t n hbc hk =>
      split at hs
      · split at hs <;> simp at hs
        subst hs; exact h hr
      · next hcl =>
        have hr0 : 0 < s.closeReturned := by
          split at hs
          · simp at hs; subst hs; exact hr
          · split at hs <;> simp at hs
            subst hs; exact hr
        exact absurd (h hr0).1 hcl
    · simp at hs
  all_goals unfold_step hs <;> (repeat' split at hs) <;> (try simp at hs) <;> (try subst hs) <;>
    simp only [AllDone] at h ⊢ <;> intro hr
  all_goals try (
    have hr0 : 0 < s.closeReturned := by first | exact hr | fail
    obtain ⟨hc, hd⟩ := h hr0
    first
    | exact ⟨hc, hd⟩
    | (refine ⟨hc, ?_⟩
       intro i u hi
       rcases getElem?_set_cases hi with ⟨rfl, rfl⟩ | ⟨_, hi'⟩
       · have := hd _ _ (by assumption)
         simp_all [inLoop]
       · exact hd _ _ hi')
    | exact ⟨by simp, hd⟩
    | (simp_all; done))
  · -- closeReturn
    next hg =>
    exact ⟨hci.post_closed (by omega), (allDone_iff s).mp hg.2⟩

theorem idinv_step {v s l s'} (hw : WF s) (hid : IdInv s) (hs : step v s l = some s') :
    IdInv s' := by
  cases l
  case fwdRemove i =>
    obtain ⟨u, hu, hpc, _, rfl⟩ := fwdRemove_spec hw hid (by simpa [step] using hs)
    refine ⟨by simpa [setSub] using hid.cur, ?_⟩
    intro k w hk
    rcases getElem?_set_cases hk with ⟨rfl, rfl⟩ | ⟨_, hk'⟩
    · exact hid.ids _ u hu
    · exact hid.ids _ _ hk'
  case cancel c =>
    unfold_step hs; simp at hs; subst hs
    refine ⟨by simpa using hid.cur, ?_⟩
    intro k w hk
    simp only [List.getElem?_map] at hk
    cases hu : s.subs[k]? with
    | none => simp [hu] at hk
    | some u => simp [hu] at hk; subst hk; simpa using hid.ids k u hu
  case subAcquire k j =>
    have hnew : ∀ t, IdInv { s with subs := s.subs ++ newSubs s t j, currentID := s.currentID + j } →
        True := fun _ _ => trivial
    have key : ∀ t (i : Nat) (w : Sub), (s.subs ++ newSubs s t j)[i]? = some w → w.id = i := by
      intro t i w hi
      rcases getElem?_append_cases hi with ⟨_, hi'⟩ | ⟨hle, hi'⟩
      · exact hid.ids _ _ hi'
      · simp only [newSubs, List.getElem?_map] at hi'
        cases hm : (List.range j)[i - s.subs.length]? with
        | none => simp [hm] at hi'
        | some m =>
          have hmv : m = i - s.subs.length := by
            have := List.getElem?_eq_some_iff.mp hm
            obtain ⟨h1, h2⟩ := this
            simpa using h2.symm
          simp [hm] at hi'
          subst hi'
          simp [Sub.new, hid.cur]; omega
    have hlen : ∀ t, (s.subs ++ newSubs s t j).length = s.subs.length + j := by
      intro t; simp [newSubs]
    unfold_step hs
    split at hs
    · next t n hbc hk =>
      split at hs
      · split at hs <;> simp at hs
        subst hs; exact ⟨hid.cur, hid.ids⟩
      · split at hs
        · simp at hs; subst hs
          exact ⟨by simp [hlen, hid.cur], key t⟩
        · split at hs <;> simp at hs
          subst hs
          exact ⟨by simp [hlen, hid.cur], key t⟩
    · simp at hs
  all_goals
    unfold_step hs <;> (repeat' split at hs) <;> (try simp at hs) <;> (try subst hs) <;>
    first
    | exact ⟨hid.cur, hid.ids⟩
    | (refine ⟨by simpa using hid.cur, ?_⟩
       intro j w hj
       rcases getElem?_set_cases hj with ⟨rfl, rfl⟩ | ⟨_, hj'⟩
       · have h1 := hid.ids j _ (by assumption)
         exact h1
       · exact hid.ids _ _ hj')

theorem wfid_reach {v : Variant} : ∀ s, Reach v s → WF s ∧ IdInv s :=
  inv_of_inductive (fun s => WF s ∧ IdInv s) ⟨wf_init, idinv_init⟩
    (fun _ _ _ _ h hs => ⟨wf_step h.1 h.2 hs, idinv_step h.1 h.2 hs⟩)

theorem wf_reach {v : Variant} (s : State) (hr : Reach v s) : WF s := (wfid_reach s hr).1

theorem idinv_reach {v : Variant} (s : State) (hr : Reach v s) : IdInv s := (wfid_reach s hr).2

theorem cinv_reach {v : Variant} : ∀ s, Reach v s → CInv v s :=
  inv_of_inductive (CInv v) (cinv_init v) (fun _ _ _ _ h hs => cinv_step h hs)

theorem done_reach {v : Variant} : ∀ s, Reach v s →
    (0 < s.closeReturned → s.closed = true ∧ AllDone s) :=
  inv_of_inductive (fun s => 0 < s.closeReturned → s.closed = true ∧ AllDone s)
    (by simp [init])
    (fun s _ _ hr h hs => done_step (wf_reach s hr) (idinv_reach s hr) (cinv_reach s hr) hs h)

end Kit.Broadcaster
