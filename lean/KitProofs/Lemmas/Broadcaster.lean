import KitModel.Broadcaster
/-! Helper lemmas for C11 (broadcaster): reachability kernel, step inversion, the inductive
invariants. -/
namespace Kit.Broadcaster

theorem inv_of_inductive {v : Variant} (Inv : State → Prop) (h0 : Inv init)
    (hs : ∀ s l s', Reach v s → Inv s → step v s l = some s' → Inv s') :
    ∀ s, Reach v s → Inv s := by
  intro s hr
  induction hr with
  | init => exact h0
  | step l hr hst ih => exact hs _ l _ hr ih hst

theorem reach_of_run {v : Variant} : ∀ (ls : List Label) (s s' : State),
    Reach v s → runLabels v s ls = some s' → Reach v s'
  | [], s, s', hr, h => by simp [runLabels] at h; subst h; exact hr
  | l :: ls, s, s', hr, h => by
    simp only [runLabels] at h
    split at h
    · next s1 h1 => exact reach_of_run ls s1 s' (Reach.step l hr h1) h
    · simp at h

theorem Path.trans {v : Variant} {ok : Label → Prop} {a b c : State} :
    Path v ok a b → Path v ok b c → Path v ok a c := by
  intro h1 h2
  induction h1 with
  | refl => exact h2
  | cons l hl hs _ ih => exact Path.cons l hl hs (ih h2)

theorem Path.reach {v : Variant} {ok : Label → Prop} {a b : State} :
    Path v ok a b → Reach v a → Reach v b := by
  intro h hr
  induction h with
  | refl => exact hr
  | cons l _ hs _ ih => exact ih (Reach.step l hr hs)

theorem Path.mono {v : Variant} {ok ok' : Label → Prop} (h : ∀ l, ok l → ok' l) {a b : State} :
    Path v ok a b → Path v ok' a b := by
  intro p
  induction p with
  | refl => exact Path.refl _
  | cons l hl hs _ ih => exact Path.cons l (h l hl) hs ih

/-- Progress by a decreasing measure: if from every good non-target state some permitted step
leads to a good state with smaller measure, every good state has a permitted path to a target. -/
theorem path_of_measure {v : Variant} {ok : Label → Prop} (Good Target : State → Prop)
    (μ : State → Nat)
    (hstep : ∀ s, Good s → ¬ Target s →
      ∃ l s', ok l ∧ step v s l = some s' ∧ Good s' ∧ μ s' < μ s) :
    ∀ s, Good s → ∃ s', Path v ok s s' ∧ Good s' ∧ Target s' := by
  suffices H : ∀ n s, μ s < n → Good s → ∃ s', Path v ok s s' ∧ Good s' ∧ Target s' from
    fun s hg => H (μ s + 1) s (Nat.lt_succ_self _) hg
  intro n
  induction n with
  | zero => intro s h; omega
  | succ n ih =>
    intro s hlt hg
    by_cases ht : Target s
    · exact ⟨s, Path.refl s, hg, ht⟩
    · obtain ⟨l, s1, hl, hs, hg1, hlt1⟩ := hstep s hg ht
      obtain ⟨s2, hp, hg2, ht2⟩ := ih s1 (by omega) hg1
      exact ⟨s2, Path.cons l hl hs hp, hg2, ht2⟩

/-- Unfold one step of the LTS in hypothesis `h : step v s l = some s'` after `cases l`. -/
macro "unfold_step" h:ident : tactic =>
  `(tactic| simp only [step, bcCall, bcAcquire, bcPush, bcSkipExit, bcSkipClose, bcSkipGone, bcFinish,
      bcReturn, subCall, subAcquire, subReturn, cancel, fwdTake, fwdDeliver, fwdExitCtx, fwdExitClose,
      fwdCloseExit, fwdRemove, closeCall, closeCas, closeChClose, closePass, closeReturn, setSub] at $h:ident)

/-! ### Close bookkeeping -/

structure CInv (v : Variant) (s : State) : Prop where
  ch_closed : s.closeCh = true → s.closed = true
  post_closed : 0 < s.closePre + s.closePost + s.closeReturned → s.closed = true
  winner : v = .fixed → s.closed = true → s.closeCh = false → 1 ≤ s.closePre
  orig_pre : v = .orig → s.closePre = 0 ∧ (s.closed = true → s.closeCh = true)

theorem cinv_init (v : Variant) : CInv v init := by
  constructor <;> simp [init]

theorem cinv_step {v s l s'} (h : CInv v s) (hs : step v s l = some s') : CInv v s' := by
  obtain ⟨h1, h2, h3, h4⟩ := h
  cases l <;> unfold_step hs <;> (repeat' split at hs) <;> (try simp at hs) <;> (try subst hs) <;>
    (try (constructor <;> simp_all <;> omega))
  · -- closePass
    next hg =>
    obtain ⟨_, hp, hc⟩ := hg
    constructor <;> simp_all
    · intro _; exact h2 (by omega)
    · intro hv hcl hch
      rcases hc with hc | hc
      · simp [hc] at hch
      · omega
  · -- closeReturn
    next hg =>
    constructor <;> simp_all
    intro _; exact h2 (by omega)

end Kit.Broadcaster
