import KitModel.PoolAdd
import KitProofs.Lemmas.Pool
/-!
Helper lemmas for C20, `Add` in its real steps: the fine system refines the coarse one
(`fstep_abs`, `reach_abs_of_freach`), the window invariant, the lifted progress paths and the
soundness of the driver's window simulation.
-/
namespace Kit.Pool

theorem abs_of_win_none {g : FState} (h : g.win = none) : g.abs = g.base := by
  simp [FState.abs, h]

/-- One fine step is one coarse step of the abstraction, or leaves it unchanged. -/
theorem fstep_abs {g g' : FState} {l : FLabel} (h : fstep g l = some g') :
    g'.abs = g.abs ∨ ∃ a, step .fixed g.abs a = some g'.abs := by
  cases l with
  | base a =>
    simp only [fstep] at h
    cases hw : g.win with
    | none =>
      rw [hw] at h
      simp only [Option.map_eq_some_iff] at h
      obtain ⟨s, hs, rfl⟩ := h
      right
      exact ⟨a, by simpa [FState.abs, hw] using hs⟩
    | some c =>
      rw [hw] at h
      simp only [] at h
      split at h
      · rename_i hlf
        simp only [Option.map_eq_some_iff] at h
        obtain ⟨s, hs, rfl⟩ := h
        right
        refine ⟨a, ?_⟩
        cases a <;> simp [Label.lockFree] at hlf
        case endCtx e =>
          simp only [step, Option.some.injEq] at hs
          subst hs
          simp [step, FState.abs, hw]
        case poll d =>
          simp only [step] at hs
          split at hs
          · rename_i hd
            cases hs
            simp [step, FState.abs, hw, hd]
          · cases hs
        case wWake =>
          simp only [step] at hs
          split at hs
          · rename_i i x hpc
            split at hs
            · rename_i hcond
              cases hs
              simp [step, FState.abs, hw, hpc, hcond]
            · cases hs
          · cases hs
        case wCancel =>
          simp only [step] at hs
          split at hs
          · rename_i hpc
            cases hs
            simp [step, FState.abs, hw, hpc]
          · cases hs
      · cases h
  | addEnter =>
    simp only [fstep] at h
    split at h
    · rename_i c hwin hwr
      split at h
      · cases h
      · rename_i hcond
        cases h
        simp only [Bool.or_eq_true, not_or, Bool.not_eq_true] at hcond
        right
        refine ⟨.complete, ?_⟩
        have hig : State.addIgnored .fixed { g.base with writer := none } = false := hcond.2
        simp only [FState.abs, hwin, step, hwr, hcond.1, applyOp, hig]
        rfl
    · cases h
  | addExit =>
    simp only [fstep] at h
    split at h
    · rename_i c hwin
      cases h
      left
      simp [FState.abs, hwin]
    · cases h

theorem reach_abs_of_freach {cfg : Config} {g : FState} (h : FReach cfg g) : Reach .fixed cfg g.abs := by
  induction h with
  | init => exact .init
  | step _ hs ih =>
    rcases fstep_abs hs with h | ⟨a, ha⟩
    · rw [h]; exact ih
    · exact .step ih ha

/-- The coarse system is part of the fine one. -/
theorem freach_of_reach {cfg : Config} {s : State} (h : Reach .fixed cfg s) : FReach cfg { base := s, win := none } := by
  induction h with
  | init => exact .init
  | @step s s' a _ hs ih => exact .step (l := .base a) ih (by simp [fstep, hs])

/-! ### the window invariant -/

/-- While an `Add` is inside its call-out: the watcher is still in its loop (it will re-read
`len(p.pool)` under the read lock), `Cancel` has not run, the caller is the registered writer. -/
structure WInv (g : FState) : Prop where
  inLoop : ∀ c, g.win = some c → (∃ i x, g.base.pc = .waiting i x) ∨ (∃ i, g.base.pc = .woken i)
  notClosed : ∀ c, g.win = some c → g.base.closed = false
  writer : ∀ c, g.win = some c → g.base.writer = some (.add c)

theorem winv_of_win_none {g : FState} (h : g.win = none) : WInv g :=
  ⟨fun c hc => by simp [h] at hc, fun c hc => by simp [h] at hc, fun c hc => by simp [h] at hc⟩

theorem winv_step {cfg : Config} {g g' : FState} {l : FLabel} (hr : FReach cfg g) (hW : WInv g)
    (h : fstep g l = some g') : WInv g' := by
  cases l with
  | base a =>
    simp only [fstep] at h
    cases hw : g.win with
    | none =>
      rw [hw] at h
      simp only [Option.map_eq_some_iff] at h
      obtain ⟨s, _, rfl⟩ := h
      exact winv_of_win_none rfl
    | some c =>
      rw [hw] at h
      simp only [] at h
      split at h
      · rename_i hlf
        simp only [Option.map_eq_some_iff] at h
        obtain ⟨s, hs, rfl⟩ := h
        have hL := hW.inLoop c hw
        have hC := hW.notClosed c hw
        have hWr := hW.writer c hw
        cases a <;> simp [Label.lockFree] at hlf
        case endCtx e =>
          simp only [step, Option.some.injEq] at hs
          subst hs
          exact ⟨fun c' hc' => hL, fun c' hc' => hC, fun c' hc' => by cases hc'; exact hWr⟩
        case poll d =>
          simp only [step] at hs
          split at hs
          · cases hs
            exact ⟨fun c' hc' => hL, fun c' hc' => hC, fun c' hc' => by cases hc'; exact hWr⟩
          · cases hs
        case wWake =>
          simp only [step] at hs
          split at hs
          · rename_i i x hpc
            split at hs
            · cases hs
              exact ⟨fun c' hc' => Or.inr ⟨i, rfl⟩, fun c' hc' => hC, fun c' hc' => by cases hc'; exact hWr⟩
            · cases hs
          · cases hs
        case wCancel =>
          simp only [step] at hs
          split at hs
          · rename_i hpc
            rcases hL with ⟨i, x, hp⟩ | ⟨i, hp⟩ <;> rw [hp] at hpc <;> cases hpc
          · cases hs
      · cases h
  | addEnter =>
    simp only [fstep] at h
    split at h
    · rename_i c hwin hwr
      split at h
      · cases h
      · rename_i hcond
        cases h
        simp only [Bool.or_eq_true, not_or, Bool.not_eq_true] at hcond
        have hreach : Reach .fixed cfg g.base := by
          have := reach_abs_of_freach hr
          rwa [abs_of_win_none hwin] at this
        have hI := inv_of_reach hreach
        have hP := pm_of_reach hreach
        have hig := hcond.2
        have hnc : g.base.closed = false := by
          cases hd : g.base.closed with
          | false => rfl
          | true => simp [State.addIgnored, hd] at hig
        have hal : g.base.anyLive = true := by
          cases ha : g.base.anyLive with
          | true => rfl
          | false => simp [State.addIgnored, ha] at hig
        have hloop : (∃ i x, g.base.pc = .waiting i x) ∨ (∃ i, g.base.pc = .woken i) := by
          have hexit : (g.base.pc = .exiting ∨ g.base.pc = .released ∨ g.base.pc = .finished) → False := by
            intro hpc
            have hall := hI.exited hnc hpc
            simp only [State.anyLive, List.any_eq_true, decide_eq_true_eq] at hal
            obtain ⟨x, hx, hne⟩ := hal
            exact hne (hall x (hP x hx))
          cases hpc : g.base.pc with
          | head i => simp [hpc, PC.holdsRead] at hcond
          | waiting i x => exact Or.inl ⟨i, x, rfl⟩
          | woken i => exact Or.inr ⟨i, rfl⟩
          | exiting => exact (hexit (Or.inl hpc)).elim
          | released => exact (hexit (Or.inr (Or.inl hpc))).elim
          | finished => exact (hexit (Or.inr (Or.inr hpc))).elim
        exact ⟨fun c' _ => hloop, fun c' _ => hnc, fun c' hc' => by cases hc'; exact hwr⟩
    · cases h
  | addExit =>
    simp only [fstep] at h
    split at h
    · cases h
      exact winv_of_win_none rfl
    · cases h

theorem winv_of_freach {cfg : Config} {g : FState} (h : FReach cfg g) : WInv g := by
  induction h with
  | init => exact winv_of_win_none rfl
  | step hr hs ih => exact winv_step hr ih hs

/-! ### progress paths, lifted -/

theorem fpath_trans {a b c : FState} (h1 : FInternalPath a b) (h2 : FInternalPath b c) : FInternalPath a c := by
  induction h1 with
  | refl => exact h2
  | step hi hs _ ih => exact .step hi hs (ih h2)

theorem fpath_of_path {s s' : State} (h : InternalPath .fixed s s') :
    FInternalPath { base := s, win := none } { base := s', win := none } := by
  induction h with
  | refl => exact .refl _
  | @step s s' s'' a hi hs _ ih =>
    exact .step (l := .base a) hi (by simp [fstep, hs]) ih

theorem freach_of_fpath {cfg : Config} {g g' : FState} (hr : FReach cfg g) (hp : FInternalPath g g') : FReach cfg g' := by
  induction hp with
  | refl => exact hr
  | step _ hs _ ih => exact ih (.step hr hs)

/-! ### the driver's window simulation only ever holds reachable states -/

def AllFReach (cfg : Config) (xs : List FState) : Prop := ∀ g ∈ xs, FReach cfg g

theorem windowWatcherStep_is_fstep {g g' : FState} (h : windowWatcherStep g = some g') : ∃ l, fstep g l = some g' := by
  obtain ⟨l, _, hl⟩ := List.exists_of_findSome?_eq_some h
  exact ⟨l, hl⟩

theorem freach_of_wchain {cfg} : ∀ (n : Nat) (g t : FState), FReach cfg g → t ∈ wchain n g → FReach cfg t := by
  intro n
  induction n with
  | zero => intro g t hr ht; simp [wchain] at ht; subst ht; exact hr
  | succ n ih =>
    intro g t hr ht
    simp only [wchain] at ht
    split at ht
    · simp at ht; subst ht; exact hr
    · rename_i g' hg
      rcases List.mem_cons.mp ht with rfl | ht
      · exact hr
      · obtain ⟨l, hl⟩ := windowWatcherStep_is_fstep hg
        exact ih g' t (.step hr hl) ht

theorem allFReach_closeW {cfg} (frozen : Bool) {xs : List FState} (h : AllFReach cfg xs) :
    AllFReach cfg (closeW frozen xs) := by
  intro t ht
  simp only [closeW] at ht
  split at ht
  · exact h t (List.mem_eraseDups.mp ht)
  · obtain ⟨g, hg, htg⟩ := List.mem_flatMap.mp (List.mem_eraseDups.mp ht)
    exact freach_of_wchain _ g t (h g hg) htg

theorem allFReach_filterMap_fstep {cfg} (l : FLabel) {xs : List FState} (h : AllFReach cfg xs) :
    AllFReach cfg (xs.filterMap (fun g => fstep g l)) := by
  intro t ht
  obtain ⟨g, hg, hgt⟩ := List.mem_filterMap.mp ht
  exact .step (h g hg) hgt

def DSim.Ok (cfg : Config) : DSim → Prop
  | .plain sim => AllReach cfg sim.states
  | .window xs _ => AllFReach cfg xs

theorem ok_dadvance {cfg} (d : DSim) (e : DEvent) (h : DSim.Ok cfg d) : DSim.Ok cfg (dadvance d e) := by
  cases d with
  | plain sim =>
    have h' : AllReach cfg sim.states := h
    cases e with
    | ev e => exact allReach_advance sim e h'
    | gate c =>
      show AllFReach cfg (closeW sim.frozen _)
      apply allFReach_closeW
      intro t ht
      obtain ⟨s, hs, hst⟩ := List.mem_filterMap.mp ht
      have hsr : Reach .fixed cfg s := allReach_close _ (allReach_filterMap_step _ h') s hs
      exact .step (freach_of_reach hsr) hst
    | ungate => intro s hs; simp at hs
    | obsw q dn a => intro s hs; simp at hs
  | window xs frozen =>
    have h' : AllFReach cfg xs := h
    cases e with
    | ev e =>
      cases e with
      | endCtx c => exact allFReach_closeW _ (allFReach_filterMap_fstep _ h')
      | add c => intro s hs; simp at hs
      | cancel => intro s hs; simp at hs
      | release => intro s hs; simp at hs
      | race e c => intro s hs; simp at hs
      | obs q p dn n a => intro s hs; simp at hs
    | gate c => intro s hs; simp at hs
    | obsw q dn a =>
      intro t ht
      exact h' t (List.mem_filter.mp ht).1
    | ungate =>
      show AllReach cfg (Sim.close frozen _)
      apply allReach_close
      intro s hs
      obtain ⟨g', hg', rfl⟩ := List.mem_map.mp hs
      have hfr : FReach cfg g' := allFReach_filterMap_fstep _ h' g' hg'
      obtain ⟨g, _, hgg⟩ := List.mem_filterMap.mp hg'
      have hwin : g'.win = none := by
        simp only [fstep] at hgg
        split at hgg
        · cases hgg; rfl
        · cases hgg
      have := reach_abs_of_freach hfr
      rwa [abs_of_win_none hwin] at this

end Kit.Pool
