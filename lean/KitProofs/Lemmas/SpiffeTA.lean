import KitModel.SpiffeTA
/-! Helper lemmas for property C19, trust-bundle source (`KitModel/SpiffeTA.lean`). -/
namespace Kit.Spiffe.TA

def sumBy (f : ConsPc → Nat) : List ConsPc → Nat
  | [] => 0
  | c :: cs => f c + sumBy f cs

theorem sumBy_append (f : ConsPc → Nat) (l₁ l₂ : List ConsPc) :
    sumBy f (l₁ ++ l₂) = sumBy f l₁ + sumBy f l₂ := by
  induction l₁ with
  | nil => simp [sumBy]
  | cons a l ih => simp [sumBy, ih]; omega

theorem sumBy_set (f : ConsPc → Nat) : ∀ (l : List ConsPc) (i : Nat) (a b : ConsPc),
    l[i]? = some a → sumBy f (l.set i b) + f a = sumBy f l + f b := by
  intro l
  induction l with
  | nil => intro i a b h; simp at h
  | cons c cs ih =>
    intro i a b h
    cases i with
    | zero => simp at h; subst h; simp [sumBy]; omega
    | succ j =>
      simp at h
      have := ih j a b h
      simp [sumBy]; omega

theorem sumBy_pos_exists (f : ConsPc → Nat) : ∀ (l : List ConsPc), 0 < sumBy f l →
    ∃ (i : Nat) (a : ConsPc), l[i]? = some a ∧ 0 < f a := by
  intro l
  induction l with
  | nil => intro h; simp [sumBy] at h
  | cons c cs ih =>
    intro h
    by_cases hc : 0 < f c
    · exact ⟨0, c, by simp, hc⟩
    · have : 0 < sumBy f cs := by simp [sumBy] at h; omega
      obtain ⟨i, a, hi, ha⟩ := ih this
      exact ⟨i + 1, a, by simpa using hi, ha⟩

theorem sumBy_ge_of_getElem (f : ConsPc → Nat) (l : List ConsPc) (i : Nat) (a : ConsPc)
    (h : l[i]? = some a) : f a ≤ sumBy f l := by
  induction l generalizing i with
  | nil => simp at h
  | cons c cs ih =>
    cases i with
    | zero => simp at h; subst h; simp [sumBy]
    | succ j => simp at h; have := ih j h; simp [sumBy]; omega

theorem mem_set_cases {l : List ConsPc} {i : Nat} {b c : ConsPc} (h : c ∈ l.set i b) : c = b ∨ c ∈ l := by
  rcases List.mem_or_eq_of_mem_set h with h | h
  · exact Or.inr h
  · exact Or.inl h

def RunPc.isPend : RunPc → Nat
  | .uPend _ => 1
  | _ => 0

def RunPc.isHeld : RunPc → Nat
  | .uRead _ | .uSet _ _ | .uNotify _ | .uUnlock _ | .uUnlockErr => 1
  | _ => 0

def RunPc.started : RunPc → Bool
  | .idle | .called => false
  | _ => true

/-- pcs between the first successful load and `close(readyCh)`. -/
def RunPc.loadedPc : RunPc → Bool
  | .uNotify _ | .uUnlock _ | .mkWatcher | .closeReady => true
  | _ => false

def RunPc.isDone : RunPc → Bool
  | .done _ => true
  | _ => false

def cPend : ConsPc → Nat
  | .sPend => 1
  | _ => 0

def cHeld : ConsPc → Nat
  | .sHeld => 1
  | _ => 0

def b2n (b : Bool) : Nat := if b then 1 else 0

/-- A consumer that got past the readiness select. -/
def pastSelect : ConsPc → Bool
  | .bPassed | .bHold | .bUnlock _ | .bDone (.ok _) => true
  | _ => false

structure Inv (s : St) : Prop where
  pend : s.run.isPend + sumBy cPend s.cons = b2n s.wPend
  held : s.run.isHeld + sumBy cHeld s.cons = b2n s.wHeld
  excl : ¬ (s.wPend = true ∧ s.wHeld = true)
  readers : s.readers = sumBy holdsR s.cons
  readyBundle : s.ready = true → s.bundle.isSome = true
  closedDone : s.closed = s.run.isDone
  passed : ∀ c ∈ s.cons, pastSelect c = true → s.ready = true
  results : ∀ c ∈ s.cons, ∀ r, (c = .bUnlock r ∨ c = .bDone (.ok r)) → r.isSome = true
  closedRes : ∀ c ∈ s.cons, c = .bDone .closed → s.closed = true
  running : s.running = s.run.started
  loaded : s.run.loadedPc = true → s.bundle.isSome = true

theorem inv_init : Inv init := by
  constructor <;> simp [init, RunPc.isPend, RunPc.isHeld, RunPc.isDone, RunPc.started, RunPc.loadedPc, sumBy, b2n]

/-- Complete description of a consumer statement. -/
theorem consStep_cases {s t : St} {i : Nat} (hs : step s (.cons i) = some t) :
    ∃ pc, s.cons[i]? = some pc ∧
      ((∃ c, pc = .bCall c ∧ s.ready = true ∧ t = { s with cons := s.cons.set i .bPassed }) ∨
       (pc = .bPassed ∧ s.canRLock = true ∧ t = { s with readers := s.readers + 1, cons := s.cons.set i .bHold }) ∨
       (pc = .bHold ∧ t = { s with cons := s.cons.set i (.bUnlock s.bundle) }) ∨
       (∃ r, pc = .bUnlock r ∧ t = { s with readers := s.readers - 1, cons := s.cons.set i (.bDone (.ok r)) }) ∨
       (pc = .sCall ∧ s.busy = false ∧ t = { s with wPend := true, cons := s.cons.set i .sPend }) ∨
       (pc = .sPend ∧ s.readers = 0 ∧ t = { s with wPend := false, wHeld := true, cons := s.cons.set i .sHeld }) ∨
       (pc = .sHeld ∧ t = { s with wHeld := false, cons := s.cons.set i .sDone })) := by
  simp only [step, consStep] at hs
  split at hs
  · simp at hs
  · rename_i pc hi
    refine ⟨pc, hi, ?_⟩
    split at hs <;> (try split at hs) <;> simp at hs <;> subst hs <;> simp_all

theorem forall_set {P : ConsPc → Prop} {l : List ConsPc} {i : Nat} {b : ConsPc}
    (h : ∀ c ∈ l, P c) (hb : P b) : ∀ c ∈ l.set i b, P c := by
  intro c hc
  rcases mem_set_cases hc with hc | hc
  · rw [hc]; exact hb
  · exact h c hc

theorem forall_append {P : ConsPc → Prop} {l : List ConsPc} {b : ConsPc}
    (h : ∀ c ∈ l, P c) (hb : P b) : ∀ c ∈ l ++ [b], P c := by
  intro c hc
  simp only [List.mem_append, List.mem_singleton] at hc
  rcases hc with hc | hc
  · exact h c hc
  · rw [hc]; exact hb

theorem b2n_cases (b : Bool) : (b = true ∧ b2n b = 1) ∨ (b = false ∧ b2n b = 0) := by
  cases b <;> simp [b2n]

theorem inv_cons_step {s t : St} {i : Nat} (h : Inv s) (hs : step s (.cons i) = some t) : Inv t := by
  obtain ⟨pc, hi, hcase⟩ := consStep_cases hs
  have hpcm : pc ∈ s.cons := List.mem_of_getElem? hi
  have sP := fun b => sumBy_set cPend s.cons i pc b hi
  have sH := fun b => sumBy_set cHeld s.cons i pc b hi
  have sR := fun b => sumBy_set holdsR s.cons i pc b hi
  have gP := sumBy_ge_of_getElem cPend s.cons i pc hi
  have gH := sumBy_ge_of_getElem cHeld s.cons i pc hi
  have gR := sumBy_ge_of_getElem holdsR s.cons i pc hi
  obtain ⟨h1, h2, h3, h4, h5, h6, h7, h8, h9, h10, h11⟩ := h
  have e1 : b2n true = 1 := rfl
  have e0 : b2n false = 0 := rfl
  rcases hcase with ⟨c, rfl, hr, rfl⟩ | ⟨rfl, hc, rfl⟩ | ⟨rfl, rfl⟩ | ⟨r, rfl, rfl⟩ | ⟨rfl, hb, rfl⟩ | ⟨rfl, h0, rfl⟩ | ⟨rfl, rfl⟩
  · -- select sees readyCh closed
    have a := sP .bPassed; have b := sH .bPassed; have c' := sR .bPassed
    simp [cPend, cHeld, holdsR] at a b c'
    refine ⟨by simpa using (by omega : s.run.isPend + sumBy cPend (s.cons.set i .bPassed) = b2n s.wPend),
      by simpa using (by omega : s.run.isHeld + sumBy cHeld (s.cons.set i .bPassed) = b2n s.wHeld), h3,
      by dsimp only; omega, h5, h6, ?_, ?_, ?_, h10, h11⟩
    · exact forall_set (P := fun c => pastSelect c = true → s.ready = true) h7 (fun _ => hr)
    · exact forall_set (P := fun c => ∀ r, (c = .bUnlock r ∨ c = .bDone (.ok r)) → r.isSome = true) h8 (by intro r hh; simp at hh)
    · exact forall_set (P := fun c => c = .bDone .closed → s.closed = true) h9 (by intro hh; cases hh)
  · -- RLock
    have a := sP .bHold; have b := sH .bHold; have c' := sR .bHold
    simp [cPend, cHeld, holdsR] at a b c'
    have hready := h7 _ hpcm rfl
    refine ⟨by dsimp only; omega, by dsimp only; omega, h3,
      by dsimp only; omega, h5, h6, ?_, ?_, ?_, h10, h11⟩
    · exact forall_set (P := fun c => pastSelect c = true → s.ready = true) h7 (fun _ => hready)
    · exact forall_set (P := fun c => ∀ r, (c = .bUnlock r ∨ c = .bDone (.ok r)) → r.isSome = true) h8 (by intro r hh; simp at hh)
    · exact forall_set (P := fun c => c = .bDone .closed → s.closed = true) h9 (by intro hh; cases hh)
  · -- read
    have a := sP (.bUnlock s.bundle); have b := sH (.bUnlock s.bundle); have c' := sR (.bUnlock s.bundle)
    simp [cPend, cHeld, holdsR] at a b c'
    have hready := h7 _ hpcm rfl
    refine ⟨by dsimp only; omega, by dsimp only; omega, h3,
      by dsimp only; omega, h5, h6, ?_, ?_, ?_, h10, h11⟩
    · exact forall_set (P := fun c => pastSelect c = true → s.ready = true) h7 (fun _ => hready)
    · refine forall_set (P := fun c => ∀ r, (c = .bUnlock r ∨ c = .bDone (.ok r)) → r.isSome = true) h8 ?_
      intro r hh
      simp at hh
      rw [← hh]; exact h5 hready
    · exact forall_set (P := fun c => c = .bDone .closed → s.closed = true) h9 (by intro hh; cases hh)
  · -- RUnlock, return
    have a := sP (.bDone (.ok r)); have b := sH (.bDone (.ok r)); have c' := sR (.bDone (.ok r))
    simp [cPend, cHeld, holdsR] at a b c' gR
    have hready := h7 _ hpcm rfl
    refine ⟨by dsimp only; omega, by dsimp only; omega, h3,
      by dsimp only; omega, h5, h6, ?_, ?_, ?_, h10, h11⟩
    · exact forall_set (P := fun c => pastSelect c = true → s.ready = true) h7 (fun _ => hready)
    · refine forall_set (P := fun c => ∀ r, (c = .bUnlock r ∨ c = .bDone (.ok r)) → r.isSome = true) h8 ?_
      intro r' hh
      simp at hh
      rw [← hh]; exact h8 _ hpcm r (Or.inl rfl)
    · exact forall_set (P := fun c => c = .bDone .closed → s.closed = true) h9 (by intro hh; cases hh)
  · -- Watch: Lock() announces
    have a := sP .sPend; have b := sH .sPend; have c' := sR .sPend
    simp [cPend, cHeld, holdsR] at a b c'
    simp only [St.busy, Bool.or_eq_false_iff] at hb
    obtain ⟨hb1, hb2⟩ := hb
    rw [hb1] at h1; rw [hb2] at h2
    refine ⟨by dsimp only; omega, by dsimp only; rw [hb2]; omega,
      by show ¬ (true = true ∧ s.wHeld = true); simp [hb2], by dsimp only; omega, h5, h6, ?_, ?_, ?_, h10, h11⟩
    · exact forall_set (P := fun c => pastSelect c = true → s.ready = true) h7 (by intro hh; cases hh)
    · exact forall_set (P := fun c => ∀ r, (c = .bUnlock r ∨ c = .bDone (.ok r)) → r.isSome = true) h8 (by intro r hh; simp at hh)
    · exact forall_set (P := fun c => c = .bDone .closed → s.closed = true) h9 (by intro hh; cases hh)
  · -- Watch: Lock() acquires
    have a := sP .sHeld; have b := sH .sHeld; have c' := sR .sHeld
    simp [cPend, cHeld, holdsR] at a b c' gP
    have hwp : s.wPend = true := by
      rcases b2n_cases s.wPend with ⟨hh, _⟩ | ⟨_, hh⟩
      · exact hh
      · rw [hh] at h1; omega
    have hwh : s.wHeld = false := by
      cases hh : s.wHeld
      · rfl
      · exact absurd ⟨hwp, hh⟩ h3
    rw [hwp] at h1; rw [hwh] at h2
    refine ⟨by dsimp only; omega, by dsimp only; omega,
      by show ¬ (false = true ∧ true = true); simp, by dsimp only; omega, h5, h6, ?_, ?_, ?_, h10, h11⟩
    · exact forall_set (P := fun c => pastSelect c = true → s.ready = true) h7 (by intro hh; cases hh)
    · exact forall_set (P := fun c => ∀ r, (c = .bUnlock r ∨ c = .bDone (.ok r)) → r.isSome = true) h8 (by intro r hh; simp at hh)
    · exact forall_set (P := fun c => c = .bDone .closed → s.closed = true) h9 (by intro hh; cases hh)
  · -- Watch: Unlock()
    have a := sP .sDone; have b := sH .sDone; have c' := sR .sDone
    simp [cPend, cHeld, holdsR] at a b c' gH
    have hwh : s.wHeld = true := by
      rcases b2n_cases s.wHeld with ⟨hh, _⟩ | ⟨_, hh⟩
      · exact hh
      · rw [hh] at h2; omega
    have hwp : s.wPend = false := by
      cases hh : s.wPend
      · rfl
      · exact absurd ⟨hh, hwh⟩ h3
    rw [hwh] at h2
    refine ⟨by dsimp only; omega, by dsimp only; omega,
      by show ¬ (s.wPend = true ∧ false = true); simp, by dsimp only; omega, h5, h6, ?_, ?_, ?_, h10, h11⟩
    · exact forall_set (P := fun c => pastSelect c = true → s.ready = true) h7 (by intro hh; cases hh)
    · exact forall_set (P := fun c => ∀ r, (c = .bUnlock r ∨ c = .bDone (.ok r)) → r.isSome = true) h8 (by intro r hh; simp at hh)
    · exact forall_set (P := fun c => c = .bDone .closed → s.closed = true) h9 (by intro hh; cases hh)

theorem inv_run_step {s t : St} (h : Inv s) (hs : step s .run = some t) : Inv t := by
  obtain ⟨h1, h2, h3, h4, h5, h6, h7, h8, h9, h10, h11⟩ := h
  have e1 : b2n true = 1 := rfl
  have e0 : b2n false = 0 := rfl
  have nP : ∀ b, b2n b ≤ 1 := by intro b; cases b <;> simp [b2n]
  simp only [step] at hs
  cases hr : s.run <;> simp [runStep, hr] at hs
  all_goals (rw [hr] at h1 h2 h6 h10 h11; simp only [RunPc.isPend, RunPc.isHeld, RunPc.isDone, RunPc.started, RunPc.loadedPc] at h1 h2 h6 h10 h11)
  case called =>
    simp [h10] at hs
    subst hs
    exact ⟨by simpa [RunPc.isPend] using h1, by simpa [RunPc.isHeld] using h2, h3, h4, h5, by simpa [RunPc.isDone] using h6, h7, h8, h9, rfl, by simp [RunPc.loadedPc]⟩
  case waitFile =>
    obtain ⟨_, rfl⟩ := hs
    exact ⟨by simpa [RunPc.isPend] using h1, by simpa [RunPc.isHeld] using h2, h3, h4, h5, by simpa [RunPc.isDone] using h6, h7, h8, h9, by simp [RunPc.started, h10], by simp_all [RunPc.loadedPc]⟩
  case uWant r =>
    obtain ⟨hb, rfl⟩ := hs
    simp only [St.busy, Bool.or_eq_false_iff] at hb
    obtain ⟨hb1, hb2⟩ := hb
    rw [hb1] at h1; rw [hb2] at h2
    exact ⟨by simp [RunPc.isPend]; omega, by simp [RunPc.isHeld]; rw [hb2]; omega, by simp [hb2], h4, h5,
      by simpa [RunPc.isDone] using h6, h7, h8, h9, by simp [RunPc.started, h10], by simp_all [RunPc.loadedPc]⟩
  case uPend r =>
    obtain ⟨h0, rfl⟩ := hs
    have hwp : s.wPend = true := by
      rcases b2n_cases s.wPend with ⟨hh, _⟩ | ⟨_, hh⟩
      · exact hh
      · rw [hh] at h1; omega
    have hwh : s.wHeld = false := by
      cases hh : s.wHeld
      · rfl
      · exact absurd ⟨hwp, hh⟩ h3
    rw [hwp] at h1; rw [hwh] at h2
    exact ⟨by simp [RunPc.isPend]; omega, by simp [RunPc.isHeld]; omega, by simp, h4, h5,
      by simpa [RunPc.isDone] using h6, h7, h8, h9, by simp [RunPc.started, h10], by simp_all [RunPc.loadedPc]⟩
  case uRead r =>
    split at hs <;> simp at hs <;> subst hs <;>
      exact ⟨by simpa [RunPc.isPend] using h1, by simpa [RunPc.isHeld] using h2, h3, h4, h5, by simpa [RunPc.isDone] using h6, h7, h8, h9, by simp [RunPc.started, h10], by simp_all [RunPc.loadedPc]⟩
  case uSet r v =>
    subst hs
    exact ⟨by simpa [RunPc.isPend] using h1, by simpa [RunPc.isHeld] using h2, h3, h4, fun _ => rfl,
      by simpa [RunPc.isDone] using h6, h7, h8, h9, by simp [RunPc.started, h10], by simp_all [RunPc.loadedPc]⟩
  case uNotify r =>
    obtain ⟨_, rfl⟩ := hs
    exact ⟨by simpa [RunPc.isPend] using h1, by simpa [RunPc.isHeld] using h2, h3, h4, h5,
      by simpa [RunPc.isDone] using h6, h7, h8, h9, by simp [RunPc.started, h10], fun _ => h11 trivial⟩
  case uUnlock r =>
    subst hs
    have hwh : s.wHeld = true := by
      rcases b2n_cases s.wHeld with ⟨hh, _⟩ | ⟨_, hh⟩
      · exact hh
      · rw [hh] at h2; omega
    rw [hwh] at h2
    refine ⟨?_, ?_, by simp, h4, h5, ?_, h7, h8, h9, by cases r <;> simp [RunPc.started, h10], ?_⟩
    rotate_left 3
    · intro _; exact h11 trivial
    · cases r <;> simp [RunPc.isPend] <;> omega
    · cases r <;> simp [RunPc.isHeld] <;> omega
    · cases r <;> simpa [RunPc.isDone] using h6
  case uUnlockErr =>
    subst hs
    have hwh : s.wHeld = true := by
      rcases b2n_cases s.wHeld with ⟨hh, _⟩ | ⟨_, hh⟩
      · exact hh
      · rw [hh] at h2; omega
    rw [hwh] at h2
    exact ⟨by simp [RunPc.isPend]; omega, by simp [RunPc.isHeld]; omega, by simp, h4, h5,
      by simpa [RunPc.isDone] using h6, h7, h8, h9, by simp [RunPc.started, h10], by simp_all [RunPc.loadedPc]⟩
  case mkWatcher =>
    subst hs
    exact ⟨by simpa [RunPc.isPend] using h1, by simpa [RunPc.isHeld] using h2, h3, h4, h5, by simpa [RunPc.isDone] using h6, h7, h8, h9, by simp [RunPc.started, h10], by simp_all [RunPc.loadedPc]⟩
  case closeReady =>
    subst hs
    exact ⟨by simpa [RunPc.isPend] using h1, by simpa [RunPc.isHeld] using h2, h3, h4, fun _ => h11 trivial,
      by simpa [RunPc.isDone] using h6, fun _ _ _ => rfl, h8, h9, by simp [RunPc.started, h10], by simp [RunPc.loadedPc]⟩
  case exiting e =>
    subst hs
    exact ⟨by simpa [RunPc.isPend] using h1, by simpa [RunPc.isHeld] using h2, h3, h4, h5, by simp [RunPc.isDone],
      h7, h8, fun _ _ _ => rfl, by simp [RunPc.started, h10], by simp [RunPc.loadedPc]⟩

/-- A consumer leaves the select without touching the lock (`b` is a returned result). -/
theorem inv_select_exit {s : St} {i : Nat} {c : Bool} {b : ConsPc} (h : Inv s) (hi : s.cons[i]? = some (.bCall c))
    (hb0 : cPend b = 0 ∧ cHeld b = 0 ∧ holdsR b = 0) (hb1 : pastSelect b = false)
    (hb2 : ∀ r, ¬ (b = .bUnlock r ∨ b = .bDone (.ok r))) (hb3 : b = .bDone .closed → s.closed = true) :
    Inv { s with cons := s.cons.set i b } := by
  obtain ⟨h1, h2, h3, h4, h5, h6, h7, h8, h9, h10, h11⟩ := h
  have a := sumBy_set cPend s.cons i _ b hi
  have b' := sumBy_set cHeld s.cons i _ b hi
  have c' := sumBy_set holdsR s.cons i _ b hi
  rw [hb0.1, show cPend (.bCall c) = 0 from rfl] at a
  rw [hb0.2.1, show cHeld (.bCall c) = 0 from rfl] at b'
  rw [hb0.2.2, show holdsR (.bCall c) = 0 from rfl] at c'
  refine ⟨by dsimp only; omega, by dsimp only; omega, h3, by dsimp only; omega, h5, h6, ?_, ?_, ?_, h10, h11⟩
  · exact forall_set (P := fun c => pastSelect c = true → s.ready = true) h7 (by intro hh; rw [hb1] at hh; cases hh)
  · exact forall_set (P := fun c => ∀ r, (c = .bUnlock r ∨ c = .bDone (.ok r)) → r.isSome = true) h8
      (fun r hh => absurd hh (hb2 r))
  · exact forall_set (P := fun c => c = .bDone .closed → s.closed = true) h9 hb3

theorem inv_step {s t : St} {l : Lbl} (h : Inv s) (hs : step s l = some t) : Inv t := by
  cases l with
  | run => exact inv_run_step h hs
  | cons i => exact inv_cons_step h hs
  | callRun =>
    obtain ⟨h1, h2, h3, h4, h5, h6, h7, h8, h9, h10, h11⟩ := h
    simp only [step] at hs
    split at hs <;> simp at hs
    subst hs
    rename_i hr
    rw [hr] at h1 h2 h6 h10
    exact ⟨by simpa [RunPc.isPend] using h1, by simpa [RunPc.isHeld] using h2, h3, h4, h5, by simpa [RunPc.isDone] using h6,
      h7, h8, h9, by simpa [RunPc.started] using h10, by simp [RunPc.loadedPc]⟩
  | callBundle c =>
    obtain ⟨h1, h2, h3, h4, h5, h6, h7, h8, h9, h10, h11⟩ := h
    simp only [step, Option.some.injEq] at hs
    subst hs
    refine ⟨by simp [sumBy_append, sumBy, cPend]; exact h1, by simp [sumBy_append, sumBy, cHeld]; exact h2, h3,
      by simp [sumBy_append, sumBy, holdsR]; exact h4, h5, h6, ?_, ?_, ?_, h10, h11⟩
    · exact forall_append (P := fun c => pastSelect c = true → s.ready = true) h7 (by intro hh; cases hh)
    · exact forall_append (P := fun c => ∀ r, (c = .bUnlock r ∨ c = .bDone (.ok r)) → r.isSome = true) h8 (by intro r hh; simp at hh)
    · exact forall_append (P := fun c => c = .bDone .closed → s.closed = true) h9 (by intro hh; cases hh)
  | callWatch =>
    obtain ⟨h1, h2, h3, h4, h5, h6, h7, h8, h9, h10, h11⟩ := h
    simp only [step, Option.some.injEq] at hs
    subst hs
    refine ⟨by simp [sumBy_append, sumBy, cPend]; exact h1, by simp [sumBy_append, sumBy, cHeld]; exact h2, h3,
      by simp [sumBy_append, sumBy, holdsR]; exact h4, h5, h6, ?_, ?_, ?_, h10, h11⟩
    · exact forall_append (P := fun c => pastSelect c = true → s.ready = true) h7 (by intro hh; cases hh)
    · exact forall_append (P := fun c => ∀ r, (c = .bUnlock r ∨ c = .bDone (.ok r)) → r.isSome = true) h8 (by intro r hh; simp at hh)
    · exact forall_append (P := fun c => c = .bDone .closed → s.closed = true) h9 (by intro hh; cases hh)
  | runLoser =>
    simp only [step] at hs
    split at hs <;> simp at hs
    subst hs; exact h
  | subStall =>
    simp only [step, Option.some.injEq] at hs
    subst hs
    obtain ⟨h1, h2, h3, h4, h5, h6, h7, h8, h9, h10, h11⟩ := h
    exact ⟨h1, h2, h3, h4, h5, h6, h7, h8, h9, h10, h11⟩
  | subDrain =>
    simp only [step, Option.some.injEq] at hs
    subst hs
    obtain ⟨h1, h2, h3, h4, h5, h6, h7, h8, h9, h10, h11⟩ := h
    exact ⟨h1, h2, h3, h4, h5, h6, h7, h8, h9, h10, h11⟩
  | fileWrite f =>
    obtain ⟨h1, h2, h3, h4, h5, h6, h7, h8, h9, h10, h11⟩ := h
    simp only [step, Option.some.injEq] at hs
    subst hs
    by_cases hl : s.run = .loop
    · rw [hl] at h1 h2 h6 h10
      simp only [hl, if_true]
      exact ⟨by simpa [RunPc.isPend] using h1, by simpa [RunPc.isHeld] using h2, h3, h4, h5, by simpa [RunPc.isDone] using h6,
        h7, h8, h9, by simpa [RunPc.started] using h10, by simp [RunPc.loadedPc]⟩
    · simp only [hl, if_false]
      exact ⟨h1, h2, h3, h4, h5, h6, h7, h8, h9, h10, h11⟩
  | stop =>
    obtain ⟨h1, h2, h3, h4, h5, h6, h7, h8, h9, h10, h11⟩ := h
    simp only [step] at hs
    split at hs
    · rename_i hr
      simp at hs; subst hs
      rw [hr] at h1 h2 h6 h10
      exact ⟨by simpa [RunPc.isPend] using h1, by simpa [RunPc.isHeld] using h2, h3, h4, h5, by simpa [RunPc.isDone] using h6,
        h7, h8, h9, by simpa [RunPc.started] using h10, by simp [RunPc.loadedPc]⟩
    · split at hs <;> simp at hs
      rename_i hr
      subst hs
      rw [hr] at h1 h2 h6 h10
      exact ⟨by simpa [RunPc.isPend] using h1, by simpa [RunPc.isHeld] using h2, h3, h4, h5, by simpa [RunPc.isDone] using h6,
        h7, h8, h9, by simpa [RunPc.started] using h10, by simp [RunPc.loadedPc]⟩
  | watcherErr =>
    obtain ⟨h1, h2, h3, h4, h5, h6, h7, h8, h9, h10, h11⟩ := h
    simp only [step] at hs
    split at hs <;> simp at hs
    rename_i hr
    subst hs
    rw [hr] at h1 h2 h6 h10
    exact ⟨by simpa [RunPc.isPend] using h1, by simpa [RunPc.isHeld] using h2, h3, h4, h5, by simpa [RunPc.isDone] using h6,
      h7, h8, h9, by simpa [RunPc.started] using h10, by simp [RunPc.loadedPc]⟩
  | ctxDone i =>
    simp only [step] at hs
    split at hs <;> simp at hs
    rename_i hi
    subst hs
    exact inv_select_exit h hi ⟨rfl, rfl, rfl⟩ rfl (by intro r hh; simp at hh) (by intro hh; cases hh)
  | consClosed i =>
    simp only [step] at hs
    split at hs
    · rename_i c hi
      split at hs <;> simp at hs
      rename_i hc
      subst hs
      exact inv_select_exit h hi ⟨rfl, rfl, rfl⟩ rfl (by intro r hh; simp at hh) (fun _ => hc)
    · simp at hs

theorem inv_reach {s t : St} (h : Inv s) (hr : Reach s t) : Inv t := by
  induction hr with
  | refl => exact h
  | tail l _ hs ih => exact inv_step ih hs

/-! ### progress -/

def runRank : RunPc → Nat
  | .uPend _ => 5 | .uRead _ => 4 | .uSet _ _ => 3 | .uNotify _ => 2 | .uUnlock _ => 1 | .uUnlockErr => 1
  | _ => 0

def consRank : ConsPc → Nat
  | .bCall _ => 4 | .bPassed => 3 | .bHold => 2 | .bUnlock _ => 1
  | .sCall => 3 | .sPend => 2 | .sHeld => 1
  | _ => 0

def total (s : St) : Nat := runRank s.run + sumBy consRank s.cons

theorem cons_total {s : St} {i : Nat} {pc b : ConsPc} (hi : s.cons[i]? = some pc) (hlt : consRank b < consRank pc)
    (t : St) (hrun : t.run = s.run) (hcons : t.cons = s.cons.set i b) : total t < total s := by
  have := sumBy_set consRank s.cons i pc b hi
  simp only [total, hrun, hcons]; omega

theorem not_returned_cases {a : ConsPc} (h : a.returned = false) :
    (∃ c, a = .bCall c) ∨ a = .bPassed ∨ a = .bHold ∨ (∃ r, a = .bUnlock r) ∨ a = .sCall ∨ a = .sPend ∨ a = .sHeld := by
  cases a <;> simp_all [ConsPc.returned]

theorem cHeld_pos {a : ConsPc} (h : 0 < cHeld a) : a = .sHeld := by cases a <;> simp_all [cHeld]
theorem cPend_pos {a : ConsPc} (h : 0 < cPend a) : a = .sPend := by cases a <;> simp_all [cPend]
theorem holdsR_pos {a : ConsPc} (h : 0 < holdsR a) : a = .bHold ∨ ∃ r, a = .bUnlock r := by
  cases a <;> simp_all [holdsR]

def consEnabled (s : St) : ConsPc → Bool
  | .bCall _ => s.ready
  | .bPassed => s.canRLock
  | .bHold | .bUnlock _ | .sHeld => true
  | .sCall => !s.busy
  | .sPend => decide (s.readers = 0)
  | _ => false

theorem cons_can_step {s : St} {i : Nat} {pc : ConsPc} (hi : s.cons[i]? = some pc)
    (hen : consEnabled s pc = true) : ∃ t, step s (.cons i) = some t ∧ total t < total s := by
  have key : ∀ (t : St) (b : ConsPc), step s (.cons i) = some t → t.run = s.run → t.cons = s.cons.set i b →
      consRank b < consRank pc → ∃ t, step s (.cons i) = some t ∧ total t < total s :=
    fun t b h1 h2 h3 h4 => ⟨t, h1, cons_total hi h4 t h2 h3⟩
  cases pc <;> simp [consEnabled] at hen
  · exact key { s with cons := s.cons.set i .bPassed } .bPassed (by simp [step, consStep, hi, hen]) rfl rfl (by simp [consRank])
  · exact key { s with readers := s.readers + 1, cons := s.cons.set i .bHold } .bHold
      (by simp [step, consStep, hi, hen]) rfl rfl (by simp [consRank])
  · exact key { s with cons := s.cons.set i (.bUnlock s.bundle) } (.bUnlock s.bundle)
      (by simp [step, consStep, hi]) rfl rfl (by simp [consRank])
  · rename_i r
    exact key { s with readers := s.readers - 1, cons := s.cons.set i (.bDone (.ok r)) } (.bDone (.ok r))
      (by simp [step, consStep, hi]) rfl rfl (by simp [consRank])
  · exact key { s with wPend := true, cons := s.cons.set i .sPend } .sPend
      (by simp [step, consStep, hi, hen]) rfl rfl (by simp [consRank])
  · exact key { s with wPend := false, wHeld := true, cons := s.cons.set i .sHeld } .sHeld
      (by simp [step, consStep, hi, hen]) rfl rfl (by simp [consRank])
  · exact key { s with wHeld := false, cons := s.cons.set i .sDone } .sDone
      (by simp [step, consStep, hi]) rfl rfl (by simp [consRank])

theorem run_can_step {s : St} (hdrain : s.subBlocked = false)
    (hen : (s.run.isHeld = 1) ∨ (s.run.isPend = 1 ∧ s.readers = 0)) :
    ∃ t, step s .run = some t ∧ total t < total s := by
  have key : ∀ (t : St), step s .run = some t → t.cons = s.cons → runRank t.run < runRank s.run →
      ∃ t, step s .run = some t ∧ total t < total s :=
    fun t h1 h2 h3 => ⟨t, h1, by simp only [total, h2]; omega⟩
  cases hr : s.run <;> simp [RunPc.isHeld, RunPc.isPend, hr] at hen
  · rename_i r
    exact key { s with wPend := false, wHeld := true, run := .uRead r } (by simp [step, runStep, hr, hen]) rfl
      (by simp [runRank, hr])
  · rename_i r
    cases hf : s.file with
    | ver v => exact key { s with run := .uSet r v } (by simp [step, runStep, hr, hf]) rfl (by simp [runRank, hr])
    | absent => exact key { s with run := .uUnlockErr } (by simp [step, runStep, hr, hf]) rfl (by simp [runRank, hr])
    | garbage => exact key { s with run := .uUnlockErr } (by simp [step, runStep, hr, hf]) rfl (by simp [runRank, hr])
  · rename_i r v
    exact key { s with bundle := some v, run := .uNotify r } (by simp [step, runStep, hr]) rfl (by simp [runRank, hr])
  · rename_i r
    exact key { s with run := .uUnlock r } (by simp [step, runStep, hr, hdrain]) rfl (by simp [runRank, hr])
  · rename_i r
    exact key { s with wHeld := false, run := if r then .loop else .mkWatcher } (by simp [step, runStep, hr]) rfl
      (by cases r <;> simp [runRank, hr])
  · exact key { s with wHeld := false, run := .exiting true } (by simp [step, runStep, hr]) rfl (by simp [runRank, hr])

/-- Once the source is ready or closed, as long as some call has not returned some goroutine can take
a step, and the measure decreases. -/
theorem progress_step {s : St} (h : Inv s) (hup : s.ready = true ∨ s.closed = true)
    (hdrain : s.subBlocked = false) (hnot : s.allReturned = false) :
    ∃ l t, l.internal = true ∧ step s l = some t ∧ total t < total s := by
  have e1 : b2n true = 1 := rfl
  have e0 : b2n false = 0 := rfl
  have isHeld_cases : s.run.isHeld = 1 ∨ s.run.isHeld = 0 := by cases s.run <;> simp [RunPc.isHeld]
  have isPend_cases : s.run.isPend = 1 ∨ s.run.isPend = 0 := by cases s.run <;> simp [RunPc.isPend]
  cases hwh : s.wHeld with
  | true =>
    -- the writer holding the lock can always continue
    have hh := h.held; rw [hwh, e1] at hh
    rcases isHeld_cases with hrun | hrun
    · obtain ⟨t, ht, hlt⟩ := run_can_step hdrain (Or.inl hrun)
      exact ⟨.run, t, rfl, ht, hlt⟩
    · obtain ⟨i, a, hi, ha⟩ := sumBy_pos_exists cHeld s.cons (by omega)
      have := cHeld_pos ha; subst this
      obtain ⟨t, ht, hlt⟩ := cons_can_step hi rfl
      exact ⟨.cons i, t, rfl, ht, hlt⟩
  | false =>
    cases hwp : s.wPend with
    | true =>
      have hp := h.pend; rw [hwp, e1] at hp
      by_cases h0 : s.readers = 0
      · rcases isPend_cases with hrun | hrun
        · obtain ⟨t, ht, hlt⟩ := run_can_step hdrain (Or.inr ⟨hrun, h0⟩)
          exact ⟨.run, t, rfl, ht, hlt⟩
        · obtain ⟨i, a, hi, ha⟩ := sumBy_pos_exists cPend s.cons (by omega)
          have := cPend_pos ha; subst this
          obtain ⟨t, ht, hlt⟩ := cons_can_step hi (by simp [consEnabled, h0])
          exact ⟨.cons i, t, rfl, ht, hlt⟩
      · have hpos : 0 < sumBy holdsR s.cons := by have := h.readers; omega
        obtain ⟨i, a, hi, ha⟩ := sumBy_pos_exists holdsR s.cons hpos
        rcases holdsR_pos ha with rfl | ⟨r, rfl⟩
        · obtain ⟨t, ht, hlt⟩ := cons_can_step hi rfl
          exact ⟨.cons i, t, rfl, ht, hlt⟩
        · obtain ⟨t, ht, hlt⟩ := cons_can_step hi rfl
          exact ⟨.cons i, t, rfl, ht, hlt⟩
    | false =>
      -- no writer around: any pending consumer can step
      have hp := h.pend; rw [hwp, e0] at hp
      have hh := h.held; rw [hwh, e0] at hh
      have : ∃ a ∈ s.cons, a.returned = false := by
        simp only [St.allReturned] at hnot
        obtain ⟨a, ha, hna⟩ := List.all_eq_false.mp hnot
        exact ⟨a, ha, by simpa using hna⟩
      obtain ⟨a, ham, hna⟩ := this
      obtain ⟨i, hi⟩ := List.getElem?_of_mem ham
      rcases not_returned_cases hna with ⟨c, rfl⟩ | rfl | rfl | ⟨r, rfl⟩ | rfl | rfl | rfl
      · rcases hup with hr | hc
        · obtain ⟨t, ht, hlt⟩ := cons_can_step hi (by simp [consEnabled, hr])
          exact ⟨.cons i, t, rfl, ht, hlt⟩
        · exact ⟨.consClosed i, { s with cons := s.cons.set i (.bDone .closed) }, rfl, by simp [step, hi, hc],
            cons_total hi (by simp [consRank]) _ rfl rfl⟩
      · obtain ⟨t, ht, hlt⟩ := cons_can_step hi (by simp [consEnabled, St.canRLock, hwh, hwp])
        exact ⟨.cons i, t, rfl, ht, hlt⟩
      · obtain ⟨t, ht, hlt⟩ := cons_can_step hi rfl
        exact ⟨.cons i, t, rfl, ht, hlt⟩
      · obtain ⟨t, ht, hlt⟩ := cons_can_step hi rfl
        exact ⟨.cons i, t, rfl, ht, hlt⟩
      · obtain ⟨t, ht, hlt⟩ := cons_can_step hi (by simp [consEnabled, St.busy, hwh, hwp])
        exact ⟨.cons i, t, rfl, ht, hlt⟩
      · have := sumBy_ge_of_getElem cPend s.cons i _ hi
        simp [cPend] at this; omega
      · have := sumBy_ge_of_getElem cHeld s.cons i _ hi
        simp [cHeld] at this; omega

theorem up_step {s t : St} {l : Lbl} (hl : l.internal = true) (hs : step s l = some t) :
    (s.ready = true → t.ready = true) ∧ (s.closed = true → t.closed = true) ∧ t.cons.length = s.cons.length ∧
    t.subBlocked = s.subBlocked := by
  cases l with
  | run =>
    simp only [step] at hs
    cases hr : s.run <;> simp [runStep, hr] at hs
    all_goals (try split at hs)
    all_goals first
      | (obtain ⟨_, rfl⟩ := hs; simp)
      | (simp at hs; subst hs; simp)
      | (subst hs; simp)
  | cons i =>
    obtain ⟨pc, _, hc⟩ := consStep_cases hs
    rcases hc with ⟨c, _, _, rfl⟩ | ⟨_, _, rfl⟩ | ⟨_, rfl⟩ | ⟨r, _, rfl⟩ | ⟨_, _, rfl⟩ | ⟨_, _, rfl⟩ | ⟨_, rfl⟩ <;> simp
  | consClosed i =>
    simp only [step] at hs
    split at hs
    · split at hs <;> simp at hs
      subst hs; simp
    · simp at hs
  | _ => simp [Lbl.internal] at hl

theorem progress : ∀ (n : Nat) (s : St), total s ≤ n → Inv s → (s.ready = true ∨ s.closed = true) →
    s.subBlocked = false → ∃ t, IntPath s t ∧ t.allReturned = true ∧ t.cons.length = s.cons.length := by
  intro n
  induction n with
  | zero =>
    intro s hn hi hup hdr
    cases hall : s.allReturned
    · obtain ⟨l, t, _, _, hlt⟩ := progress_step hi hup hdr hall
      omega
    · exact ⟨s, .refl s, hall, rfl⟩
  | succ n ih =>
    intro s hn hi hup hdr
    cases hall : s.allReturned
    · obtain ⟨l, t, hl, ht, hlt⟩ := progress_step hi hup hdr hall
      obtain ⟨h1, h2, h3, h4⟩ := up_step hl ht
      obtain ⟨u, hp, hu, hlen⟩ := ih t (by omega) (inv_step hi ht) (hup.elim (fun h => Or.inl (h1 h)) (fun h => Or.inr (h2 h)))
        (h4 ▸ hdr)
      exact ⟨u, .head l hl ht hp, hu, by rw [hlen, h3]⟩
    · exact ⟨s, .refl s, hall, rfl⟩

theorem reach_of_intPath {a s t : St} (h : Reach a s) (p : IntPath s t) : Reach a t := by
  induction p with
  | refl s => exact h
  | head l _ hs _ ih => exact ih (.tail l h hs)

end Kit.Spiffe.TA
