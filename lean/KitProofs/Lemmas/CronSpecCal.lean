/-
Calendar facts about `Kit.CronCal` (Hinnant days-from-civil / civil-from-days), fully general
over `Int`: round trip, month ranges, month starts are strictly increasing by 28..31 days, and
`monthIndex` is the unique month whose `[monthStart M, monthStart (M+1))` contains the day.
Core Lean + `omega` only.
-/
import KitModel.CronCal

namespace Kit.CronCal

/-- Hinnant's year-of-era formula, for `doe < 146096`. -/
private theorem core_lt (doe yoe : Int) (h0 : 0 ≤ doe) (h1 : doe < 146096)
    (hy : yoe = (doe - doe / 1460 + doe / 36524 - doe / 146096) / 365) :
    0 ≤ yoe ∧ yoe ≤ 399 ∧ 365 * yoe + yoe / 4 - yoe / 100 ≤ doe ∧
    (yoe < 399 → doe < 365 * (yoe + 1) + (yoe + 1) / 4 - (yoe + 1) / 100) := by
  obtain ⟨c, hc⟩ : ∃ c, c = doe / 36524 := ⟨_, rfl⟩
  obtain ⟨r, hr⟩ : ∃ r, r = doe - 36524 * c := ⟨_, rfl⟩
  obtain ⟨q, hq⟩ : ∃ q, q = r / 1461 := ⟨_, rfl⟩
  obtain ⟨s, hs⟩ : ∃ s, s = r - 1461 * q := ⟨_, rfl⟩
  have hc3 : 0 ≤ c ∧ c ≤ 3 := by omega
  have hq24 : 0 ≤ q ∧ q ≤ 24 := by omega
  have he : doe / 146096 = 0 := by omega
  have hdoe : doe = 36524 * c + 1461 * q + s := by omega
  have hs0 : 0 ≤ s ∧ s ≤ 1460 := by omega
  rw [he, ← hc] at hy
  by_cases h1460 : s = 1460
  · have h2 : doe / 1460 = 25 * c + q + 1 := by omega
    rw [h2] at hy
    have : yoe = 100 * c + 4 * q + 3 := by omega
    have h4 : yoe / 4 = 25 * c + q := by omega
    have h100 : yoe / 100 = c := by omega
    have h4' : (yoe + 1) / 4 = 25 * c + q + 1 := by omega
    have h100' : yoe < 399 → (yoe + 1) / 100 = c := by omega
    omega
  · obtain ⟨t, ht⟩ : ∃ t, t = s / 365 := ⟨_, rfl⟩
    have ht3 : 0 ≤ t ∧ t ≤ 3 := by omega
    have h2 : doe / 1460 = 25 * c + q + (24 * c + q + s) / 1460 := by omega
    have h3 : (24 * c + q + s) / 1460 = 0 ∨
        ((24 * c + q + s) / 1460 = 1 ∧ t = 3 ∧ s ≥ 1364) := by omega
    rw [h2] at hy
    have : yoe = 100 * c + 4 * q + t := by omega
    have h4 : yoe / 4 = 25 * c + q := by omega
    have h100 : yoe / 100 = c := by omega
    have h4' : (yoe + 1) / 4 = 25 * c + q ∨ (t = 3 ∧ (yoe + 1) / 4 = 25 * c + q + 1) := by
      omega
    have h100' : (yoe + 1) / 100 = c ∨ (t = 3 ∧ q = 24 ∧ (yoe + 1) / 100 = c + 1) := by
      omega
    omega

/-- Hinnant's year-of-era formula. -/
private theorem core (doe yoe : Int) (h0 : 0 ≤ doe) (h1 : doe < 146097)
    (hy : yoe = (doe - doe / 1460 + doe / 36524 - doe / 146096) / 365) :
    0 ≤ yoe ∧ yoe ≤ 399 ∧ 365 * yoe + yoe / 4 - yoe / 100 ≤ doe ∧
    (yoe < 399 → doe < 365 * (yoe + 1) + (yoe + 1) / 4 - (yoe + 1) / 100) := by
  by_cases h : doe < 146096
  · exact core_lt doe yoe h0 h hy
  · have : doe = 146096 := by omega
    subst this
    have : yoe = 399 := by omega
    subst this
    omega

/-- Days from 0000-03-01 to the first of March of (March-based) year `Y`. -/
private def ydays (Y : Int) : Int := 365 * Y + Y / 4 - Y / 100 + Y / 400

private theorem ydays_eq (era yoe : Int) (h0 : 0 ≤ yoe) (h1 : yoe ≤ 399) :
    ydays (yoe + era * 400) = era * 146097 + (365 * yoe + yoe / 4 - yoe / 100) := by
  simp only [ydays]
  omega

private theorem ydays_step (Y : Int) :
    365 ≤ ydays (Y + 1) - ydays Y ∧ ydays (Y + 1) - ydays Y ≤ 366 := by
  simp only [ydays]
  omega

/-- `daysFromCivil` in March-based form. -/
private theorem daysFromCivil_eq (y m d : Int) :
    daysFromCivil y m d =
      ydays (if m ≤ 2 then y - 1 else y) + (153 * (if m > 2 then m - 3 else m + 9) + 2) / 5
        + d - 1 - 719468 := by
  simp only [daysFromCivil, ydays]
  generalize (if m ≤ 2 then y - 1 else y) = y'
  generalize (if m > 2 then m - 3 else m + 9) = mp
  omega

private theorem monthStart_eq (M : Int) :
    monthStart M = ydays ((M - 2) / 12) + (153 * ((M - 2) % 12) + 2) / 5 - 719468 := by
  simp only [monthStart, daysFromCivil_eq]
  have h1 : (if M % 12 + 1 ≤ 2 then M / 12 - 1 else M / 12) = (M - 2) / 12 := by
    split <;> omega
  have h2 : (if M % 12 + 1 > 2 then M % 12 + 1 - 3 else M % 12 + 1 + 9) = (M - 2) % 12 := by
    split <;> omega
  rw [h1, h2]
  omega

/-- The intermediate quantities of `civilFromDays`, in March-based form. -/
private theorem civil_decomp (n : Int) :
    ∃ Y doy mp : Int,
      0 ≤ doy ∧ n + 719468 = ydays Y + doy ∧ ydays Y + doy < ydays (Y + 1) ∧
      0 ≤ mp ∧ mp ≤ 11 ∧ mp = (5 * doy + 2) / 153 ∧
      civilFromDays n =
        (if (if mp < 10 then mp + 3 else mp - 9) ≤ 2 then Y + 1 else Y,
         if mp < 10 then mp + 3 else mp - 9,
         doy - (153 * mp + 2) / 5 + 1) := by
  obtain ⟨era, hera⟩ : ∃ era, era = (n + 719468) / 146097 := ⟨_, rfl⟩
  obtain ⟨doe, hdoe⟩ : ∃ doe, doe = (n + 719468) - era * 146097 := ⟨_, rfl⟩
  obtain ⟨yoe, hyoe⟩ : ∃ yoe,
      yoe = (doe - doe / 1460 + doe / 36524 - doe / 146096) / 365 := ⟨_, rfl⟩
  obtain ⟨doy, hdoy⟩ : ∃ doy, doy = doe - (365 * yoe + yoe / 4 - yoe / 100) := ⟨_, rfl⟩
  obtain ⟨mp, hmp⟩ : ∃ mp, mp = (5 * doy + 2) / 153 := ⟨_, rfl⟩
  have hd0 : 0 ≤ doe ∧ doe < 146097 := by omega
  obtain ⟨c1, c2, c3, c4⟩ := core doe yoe hd0.1 hd0.2 hyoe
  have hY := ydays_eq era yoe c1 c2
  have hlt : ydays (yoe + era * 400) + doy < ydays (yoe + era * 400 + 1) := by
    by_cases h : yoe < 399
    · have := c4 h
      have e : yoe + era * 400 + 1 = (yoe + 1) + era * 400 := by omega
      rw [e, ydays_eq era (yoe + 1) (by omega) (by omega), hY]
      omega
    · have : yoe = 399 := by omega
      subst this
      have e : 399 + era * 400 + 1 = 0 + (era + 1) * 400 := by omega
      rw [e, ydays_eq (era + 1) 0 (by omega) (by omega), hY]
      omega
  have hdoy365 : doy ≤ 365 := by
    have := ydays_step (yoe + era * 400)
    omega
  refine ⟨yoe + era * 400, doy, mp, by omega, by omega, hlt, by omega, by omega, hmp, ?_⟩
  simp only [civilFromDays]
  rw [← hera, ← hdoe, ← hyoe, ← hdoy, ← hmp]

theorem civil_month_range (n : Int) :
    1 ≤ (civilFromDays n).2.1 ∧ (civilFromDays n).2.1 ≤ 12 := by
  obtain ⟨Y, doy, mp, _, _, _, hm0, hm1, _, hc⟩ := civil_decomp n
  rw [hc]
  simp only
  omega

theorem civil_day_range (n : Int) :
    1 ≤ (civilFromDays n).2.2 ∧ (civilFromDays n).2.2 ≤ 31 := by
  obtain ⟨Y, doy, mp, hd0, _, _, hm0, hm1, hmp, hc⟩ := civil_decomp n
  rw [hc]
  simp only
  omega

theorem civil_year_month (n : Int) :
    (civilFromDays n).1 = monthIndex n / 12 ∧ (civilFromDays n).2.1 = monthIndex n % 12 + 1 := by
  have := civil_month_range n
  simp only [monthIndex]
  omega

theorem daysFromCivil_day (y m d : Int) :
    daysFromCivil y m d = daysFromCivil y m 1 + (d - 1) := by
  simp only [daysFromCivil_eq]
  omega

/-- `monthIndex` and the day of month in March-based form. -/
private theorem monthIndex_decomp (n : Int) :
    ∃ Y doy mp : Int,
      0 ≤ doy ∧ n + 719468 = ydays Y + doy ∧ ydays Y + doy < ydays (Y + 1) ∧
      0 ≤ mp ∧ mp ≤ 11 ∧ mp = (5 * doy + 2) / 153 ∧
      monthIndex n = 12 * Y + mp + 2 ∧
      (civilFromDays n).2.2 = doy - (153 * mp + 2) / 5 + 1 := by
  obtain ⟨Y, doy, mp, hd0, hn, hlt, hm0, hm1, hmp, hc⟩ := civil_decomp n
  refine ⟨Y, doy, mp, hd0, hn, hlt, hm0, hm1, hmp, ?_, ?_⟩
  · simp only [monthIndex, hc]
    by_cases h : mp < 10
    · have h1 : ¬ (mp + 3 ≤ 2) := by omega
      simp only [h, h1, if_true, if_false]
      omega
    · have h1 : mp - 9 ≤ 2 := by omega
      simp only [h, h1, if_true, if_false]
      omega
  · rw [hc]

theorem monthStart_le (n : Int) : monthStart (monthIndex n) ≤ n := by
  obtain ⟨Y, doy, mp, hd0, hn, hlt, hm0, hm1, hmp, hMI, hd⟩ := monthIndex_decomp n
  rw [monthStart_eq, hMI]
  have h1 : (12 * Y + mp + 2 - 2) / 12 = Y := by omega
  have h2 : (12 * Y + mp + 2 - 2) % 12 = mp := by omega
  rw [h1, h2]
  omega

theorem civil_day_eq (n : Int) : (civilFromDays n).2.2 = n - monthStart (monthIndex n) + 1 := by
  obtain ⟨Y, doy, mp, hd0, hn, hlt, hm0, hm1, hmp, hMI, hd⟩ := monthIndex_decomp n
  rw [monthStart_eq, hMI, hd]
  have h1 : (12 * Y + mp + 2 - 2) / 12 = Y := by omega
  have h2 : (12 * Y + mp + 2 - 2) % 12 = mp := by omega
  rw [h1, h2]
  omega

theorem lt_monthStart_succ (n : Int) : n < monthStart (monthIndex n + 1) := by
  obtain ⟨Y, doy, mp, hd0, hn, hlt, hm0, hm1, hmp, hMI, hd⟩ := monthIndex_decomp n
  rw [monthStart_eq, hMI]
  by_cases h : mp < 11
  · have h1 : (12 * Y + mp + 2 + 1 - 2) / 12 = Y := by omega
    have h2 : (12 * Y + mp + 2 + 1 - 2) % 12 = mp + 1 := by omega
    rw [h1, h2]
    omega
  · have h1 : (12 * Y + mp + 2 + 1 - 2) / 12 = Y + 1 := by omega
    have h2 : (12 * Y + mp + 2 + 1 - 2) % 12 = 0 := by omega
    rw [h1, h2]
    omega

theorem daysFromCivil_civil (n : Int) :
    daysFromCivil (civilFromDays n).1 (civilFromDays n).2.1 (civilFromDays n).2.2 = n := by
  have h := civil_year_month n
  have hd := civil_day_eq n
  rw [daysFromCivil_day, h.1, h.2]
  simp only [monthStart] at hd
  omega

theorem monthStart_step (M : Int) :
    28 ≤ monthStart (M + 1) - monthStart M ∧ monthStart (M + 1) - monthStart M ≤ 31 := by
  obtain ⟨Y, hY⟩ : ∃ Y, Y = (M - 2) / 12 := ⟨_, rfl⟩
  obtain ⟨mp, hmp⟩ : ∃ mp, mp = (M - 2) % 12 := ⟨_, rfl⟩
  rw [monthStart_eq, monthStart_eq, ← hY, ← hmp]
  by_cases h : mp < 11
  · have h1 : (M + 1 - 2) / 12 = Y := by omega
    have h2 : (M + 1 - 2) % 12 = mp + 1 := by omega
    rw [h1, h2]
    omega
  · have h1 : (M + 1 - 2) / 12 = Y + 1 := by omega
    have h2 : (M + 1 - 2) % 12 = 0 := by omega
    have := ydays_step Y
    rw [h1, h2]
    omega

theorem monthStart_add_bounds (M : Int) (k : Nat) :
    monthStart M + 28 * (k : Int) ≤ monthStart (M + k) ∧
      monthStart (M + k) ≤ monthStart M + 31 * (k : Int) := by
  induction k with
  | zero => simp
  | succ k ih =>
    have hs := monthStart_step (M + (k : Int))
    have e : M + ((k + 1 : Nat) : Int) = M + (k : Int) + 1 := by omega
    rw [e]
    omega

theorem monthStart_strictMono {M M' : Int} (h : M < M') : monthStart M < monthStart M' := by
  have hb := monthStart_add_bounds M (M' - M).toNat
  have e : M + ((M' - M).toNat : Int) = M' := by omega
  rw [e] at hb
  omega

private theorem monthStart_mono {M M' : Int} (h : M ≤ M') : monthStart M ≤ monthStart M' := by
  by_cases h' : M = M'
  · subst h'
    exact Int.le_refl _
  · exact Int.le_of_lt (monthStart_strictMono (by omega))

theorem monthIndex_unique {n M : Int} (h1 : monthStart M ≤ n) (h2 : n < monthStart (M + 1)) :
    monthIndex n = M := by
  have a1 := monthStart_le n
  have a2 := lt_monthStart_succ n
  by_cases hlt : monthIndex n < M
  · have := monthStart_mono (show monthIndex n + 1 ≤ M by omega)
    omega
  · by_cases hgt : M < monthIndex n
    · have := monthStart_mono (show M + 1 ≤ monthIndex n by omega)
      omega
    · omega

theorem monthIndex_mono {n n' : Int} (h : n ≤ n') : monthIndex n ≤ monthIndex n' := by
  have a1 := monthStart_le n
  have a2 := lt_monthStart_succ n'
  by_cases hlt : monthIndex n' < monthIndex n
  · have := monthStart_mono (show monthIndex n' + 1 ≤ monthIndex n by omega)
    omega
  · omega

theorem monthIndex_monthStart (M : Int) : monthIndex (monthStart M) = M :=
  monthIndex_unique (Int.le_refl _) (monthStart_strictMono (by omega))

theorem civil_of_month_day {M d : Int} (h1 : 1 ≤ d)
    (h2 : monthStart M + (d - 1) < monthStart (M + 1)) :
    civilFromDays (monthStart M + (d - 1)) = (M / 12, M % 12 + 1, d) := by
  have hM : monthIndex (monthStart M + (d - 1)) = M := monthIndex_unique (by omega) h2
  have hym := civil_year_month (monthStart M + (d - 1))
  have hd := civil_day_eq (monthStart M + (d - 1))
  rw [hM] at hym hd
  have hd' : (civilFromDays (monthStart M + (d - 1))).2.2 = d := by omega
  exact Prod.ext hym.1 (Prod.ext hym.2 hd')

theorem civil_monthStart (M : Int) : civilFromDays (monthStart M) = (M / 12, M % 12 + 1, 1) := by
  have h := civil_of_month_day (M := M) (d := 1) (by omega)
    (by have := monthStart_strictMono (show M < M + 1 by omega); omega)
  have e : monthStart M + (1 - 1) = monthStart M := by omega
  rwa [e] at h

end Kit.CronCal
