import KitModel.Locks.FifoMutex
namespace Kit.Locks.FifoMutex
open Kit.Locks

structure Inv (s : State) : Prop where
  own : ∀ t, owns s t ↔ s.slot = some t
  que : ∀ t, s.pcs[t]? = some .queued ↔ t ∈ s.sendq
  nodup : s.sendq.Nodup
  hist : s.arrivals = s.grants ++ s.sendq
  empty : s.slot = none → s.sendq = []

theorem inv_init (n : Nat) : Inv (init n) := by
  constructor <;> simp [init, owns, List.getElem?_replicate] <;> grind

theorem inv_step (s : State) (a : L) (s' : State) (h : Inv s) (hs : step s a = some s') : Inv s' := by
  obtain ⟨own, que, nodup, hist, empty⟩ := h
  cases a with
  | call t op =>
    cases op <;> simp only [step] at hs <;> split at hs <;> simp at hs <;> subst hs <;>
    constructor <;> simp_all [owns, List.getElem?_set] <;> grind
  | tau t alt =>
    simp only [step] at hs
    split at hs
    · split at hs <;> simp at hs <;> subst hs <;>
      constructor <;> simp_all [owns, List.getElem?_set] <;> grind
    · split at hs
      · simp at hs
      · split at hs <;> simp at hs <;> subst hs <;>
        constructor <;> simp_all [owns, List.getElem?_set] <;> grind
    · simp at hs
  | ret t r =>
    simp only [step] at hs <;> split at hs <;> simp at hs <;> subst hs <;>
    constructor <;> simp_all [owns, List.getElem?_set] <;> grind
  | probe t p =>
    cases p; simp only [step] at hs; split at hs <;> simp at hs; subst hs
    exact ⟨own, que, nodup, hist, empty⟩
  | sys i alt => simp [step] at hs
  | env e => simp [step] at hs

theorem inv_reach (n : Nat) (s : State) (h : Reach lts (init n) s) : Inv s :=
  Reach.inv Inv (inv_init n) (fun s a s' hi hs => inv_step s a s' hi hs) s h

end Kit.Locks.FifoMutex
