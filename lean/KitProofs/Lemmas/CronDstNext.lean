/-
Hour zones: the code from label `WRAP` on — soundness, minimality, the zero answer and
termination in one induction over the outer fuel.
-/
import KitProofs.Lemmas.CronDstLoops

set_option linter.unusedSimpArgs false

namespace Kit.CronSpec
open Kit.CronCal

/-- Summary of one run of `nextFrom` on an hour zone. -/
def NextPostD (s : Sched) (z : Zone) (t0 yl : Int) : Result → Prop
  | .at r => Matches s z r ∧ NoMatchB s z t0 r
  | .zero => ∃ t', yl < year z t' ∧ NoMatchB s z t0 t'
  | .fuel => False

section
variable {s : Sched} {z : Zone} {b : Int → Int} (H : HourZone z b)
include H

/-- One pass through the five loops on an hour zone. -/
def PassPostD (s : Sched) (z : Zone) (b : Int → Int) (t0 tin : Int) (ain : Bool) : PassOut → Prop
  | .wrap t' a' => a' = true ∧ QWD s z b t0 tin ain t'
  | .done r => Matches s z r ∧ NoMatchB s z t0 r
  | .fuel => False

theorem pass_ruleD (t0 t : Int) (a : Bool) (hinv : InvD s z b t0 t a) :
    PassPostD s z b t0 t a (pass s z t a) := by
  simp only [pass]
  have hprog : Prog t a t a := by
    simp only [Prog]; cases a <;> simp
  have hm := month_ruleD H t0 t a t a ⟨hprog, hinv⟩
  cases hml : monthLoop s z innerFuel t a with
  | fuel => rw [hml] at hm; exact hm.elim
  | wrap t' a' => rw [hml] at hm; exact hm
  | next t1 a1 =>
  rw [hml] at hm
  simp only [LoopOut.andThen]
  have hd := day_ruleD H t0 t a t1 a1 ⟨hm.1.1, hm.1.2, hm.2⟩
  cases hdl : dayLoop s z innerFuel t1 a1 with
  | fuel => rw [hdl] at hd; exact hd.elim
  | wrap t' a' => rw [hdl] at hd; exact hd
  | next t2 a2 =>
  rw [hdl] at hd
  simp only [LoopOut.andThen]
  have hh := hour_ruleD H t0 t a t2 a2 ⟨hd.1.1, hd.1.2.1, hd.1.2.2, hd.2⟩
  cases hhl : hourLoop s z innerFuel t2 a2 with
  | fuel => rw [hhl] at hh; exact hh.elim
  | wrap t' a' => rw [hhl] at hh; exact hh
  | next t3 a3 =>
  rw [hhl] at hh
  simp only [LoopOut.andThen]
  have hmi := minute_ruleD H t0 t a t3 a3
    ⟨hh.1.1, hh.1.2.1, hh.1.2.2.1, hh.1.2.2.2, hh.2⟩
  cases hmil : minuteLoop s z innerFuel t3 a3 with
  | fuel => rw [hmil] at hmi; exact hmi.elim
  | wrap t' a' => rw [hmil] at hmi; exact hmi
  | next t4 a4 =>
  rw [hmil] at hmi
  simp only [LoopOut.andThen]
  have hs := second_ruleD H t0 t a t4 a4
    ⟨hmi.1.1, hmi.1.2.1.1, hmi.1.2.2.1, hmi.1.2.2.2.1, hmi.1.2.2.2.2, hmi.2⟩
  cases hsl : secondLoop s z innerFuel t4 a4 with
  | fuel => rw [hsl] at hs; exact hs.elim
  | wrap t' a' => rw [hsl] at hs; exact hs
  | next t5 a5 =>
  rw [hsl] at hs
  simp only [LoopOut.andThen]
  exact ⟨hs.2, hs.1⟩

theorem nextFrom_ruleD (t0 yl B : Int) (hB : ∀ u, year z u ≤ yl → u < B) :
    ∀ (f : Nat) (t : Int) (a : Bool), InvD s z b t0 t a →
      B - t + (if a then 0 else 3600) < f → 0 < f →
      NextPostD s z t0 yl (nextFrom s z yl f t a) := by
  intro f
  induction f with
  | zero => intro t a _ _ h; omega
  | succ f ih =>
    intro t a hinv hf _
    simp only [nextFrom]
    split
    · exact ⟨t, by assumption, hinv.1⟩
    · rename_i hy
      have hlt := hB t (by omega)
      have hp := pass_ruleD H (s := s) t0 t a hinv
      cases hps : pass s z t a with
      | fuel => rw [hps] at hp; exact hp.elim
      | done r => rw [hps] at hp; exact hp
      | wrap t' a' =>
        rw [hps] at hp
        obtain ⟨ha, ⟨hq1, hq2⟩, hinv'⟩ := hp
        subst ha
        have hf' : B - t' + (if true = true then 0 else 3600) < (f : Int) := by
          simp only [if_true]
          cases a
          · have := hq2 rfl; simp at hf; omega
          · have := hq1 rfl; simp at hf; omega
        exact ih t' true hinv' hf' (by cases a <;> simp at hf <;> omega)

/-- Five more local years are fewer than 2233 days plus 52 hours away. -/
theorem year_limit_boundD (t0 u : Int) (h : year z u ≤ year z t0 + 5) : u < t0 + 193200000 := by
  rw [year_eq, year_eq] at h
  have h1 : mIdx z u + 1 ≤ mIdx z t0 + 72 := by omega
  have hi := mIdx_hi z u
  have lo := mIdx_lo z t0
  have hb := (monthStart_add_bounds (mIdx z t0) 72).2
  have hmono : monthStart (mIdx z u + 1) ≤ monthStart (mIdx z t0 + 72) := by
    by_cases he : mIdx z u + 1 = mIdx z t0 + 72
    · rw [he]; omega
    · have := monthStart_strictMono (M := mIdx z u + 1) (M' := mIdx z t0 + 72) (by omega); omega
  rw [dayNum_hz H] at hi lo
  have : ((72 : Nat) : Int) = 72 := rfl
  rw [this] at hb
  simp only [lam] at hi lo
  have b1 := H.bound (u / 3600)
  have b2 := H.bound (t0 / 3600)
  omega

end
end Kit.CronSpec
