import KitModel.BroadcasterClose
/-! Invariant and progress measure of the caller-by-caller model of concurrent `Close` calls (C11). -/
namespace Kit.Broadcaster.Cl

/-- Invariant of the code as it is (`Wait.all`). -/
structure Inv (s : State) : Prop where
  /-- the counter is the number of forwarders started and not finished -/
  wgCount : s.wg = s.idle + s.holding + s.exiting
  /-- nobody is past the CAS while `closed` is false -/
  stillOpen : s.closed = false → s.cWon + s.cLock + s.cWait + s.cRet = 0 ∧ s.closeCh = false
  /-- exactly one winner, and it is between its CAS and `close(closeCh)` iff `closeCh` is still open -/
  won : s.cWon = if s.closed = true ∧ s.closeCh = false then 1 else 0
  /-- a Subscribe that loaded `closed = false` still holds the lock: no Close caller has passed it -/
  sawOpen : s.lock = .subOpen → s.cWait + s.cRet = 0
  /-- some Close call has returned ⇒ the counter is zero (and stays zero) -/
  ret : 0 < s.cRet → s.wg = 0
  late : s.late = 0
  losers : s.retLosers = 0

theorem inv_init : Inv init := by
  constructor <;> simp [init]

theorem inv_step {s s' : State} {l : Label} (hi : Inv s) (hs : step .all s l = some s') : Inv s' := by
  obtain ⟨h1, h2, h3, h4, h5, h6, h7⟩ := hi
  cases l with
  | subLock =>
    simp only [step, subLock] at hs
    split at hs
    · next hl =>
      simp at hs; subst hs
      exact ⟨h1, h2, h3, by simp, h5, h6, h7⟩
    · simp at hs
  | subLoad =>
    simp only [step, subLoad] at hs
    split at hs
    · next hl =>
      simp at hs; subst hs
      refine ⟨h1, h2, h3, ?_, h5, h6, h7⟩
      intro ho
      cases hc : s.closed with
      | true => simp [hc] at ho
      | false => have := (h2 hc).1; simp only []; omega
    · simp at hs
  | subFinish =>
    simp only [step, subFinish] at hs
    split at hs
    · next hl =>
      simp at hs; subst hs
      have := h4 hl
      refine ⟨by simp; omega, h2, h3, by simp, ?_, h6, h7⟩
      intro hr; simp at hr; omega
    · next hl =>
      simp at hs; subst hs
      exact ⟨h1, h2, h3, by simp, h5, h6, h7⟩
    · simp at hs
  | bcast n =>
    simp only [step, bcast] at hs
    split at hs
    · split at hs
      · split at hs
        · simp at hs; subst hs; exact ⟨h1, h2, h3, h4, h5, h6, h7⟩
        · simp at hs
      · split at hs
        · simp at hs; subst hs; exact ⟨h1, h2, h3, h4, h5, h6, h7⟩
        · simp at hs
    · simp at hs
  | fwdTake =>
    simp only [step, fwdTake] at hs
    split at hs
    · simp at hs; subst hs
      exact ⟨by simp; omega, h2, h3, h4, h5, h6, h7⟩
    · simp at hs
  | fwdDeliver =>
    simp only [step, fwdDeliver] at hs
    split at hs
    · next hh =>
      simp at hs; subst hs
      have hr : ¬ 0 < s.cRet := fun hr => by have := h5 hr; omega
      exact ⟨by simp; omega, h2, h3, h4, h5, by simp [h6, hr], h7⟩
    · simp at hs
  | fwdExitClose =>
    simp only [step, fwdExitClose] at hs
    split at hs
    · simp at hs; subst hs
      exact ⟨by simp; omega, h2, h3, h4, h5, h6, h7⟩
    · simp at hs
  | fwdExitCloseHolding =>
    simp only [step, fwdExitCloseHolding] at hs
    split at hs
    · simp at hs; subst hs
      exact ⟨by simp; omega, h2, h3, h4, h5, h6, h7⟩
    · simp at hs
  | fwdExitCtx =>
    simp only [step, fwdExitCtx] at hs
    split at hs
    · simp at hs; subst hs
      exact ⟨by simp; omega, h2, h3, h4, h5, h6, h7⟩
    · simp at hs
  | fwdExitCtxHolding =>
    simp only [step, fwdExitCtxHolding] at hs
    split at hs
    · simp at hs; subst hs
      exact ⟨by simp; omega, h2, h3, h4, h5, h6, h7⟩
    · simp at hs
  | fwdDone =>
    simp only [step, fwdDone] at hs
    split at hs
    · simp at hs; subst hs
      refine ⟨by simp; omega, h2, h3, h4, ?_, h6, h7⟩
      intro hr; have := h5 hr; simp; omega
    · simp at hs
  | closeCall =>
    simp [step, closeCall] at hs; subst hs
    exact ⟨h1, h2, h3, h4, h5, h6, h7⟩
  | closeCas =>
    simp only [step, closeCas] at hs
    split at hs
    · split at hs
      · next hc =>
        simp at hs; subst hs
        obtain ⟨hz, hch⟩ := h2 hc
        refine ⟨h1, by simp, ?_, h4, h5, h6, h7⟩
        simp [hch]; omega
      · next hc =>
        simp at hs; subst hs
        have hc' : s.closed = true := by simpa using hc
        refine ⟨h1, by simp [hc'], h3, h4, h5, h6, h7⟩
    · simp at hs
  | closeChClose =>
    simp only [step, closeChClose] at hs
    split at hs
    · next hw =>
      simp at hs; subst hs
      have hcl : s.closed = true ∧ s.closeCh = false := by
        by_cases h : s.closed = true ∧ s.closeCh = false
        · exact h
        · simp [h] at h3; omega
      refine ⟨h1, ?_, ?_, h4, h5, h6, h7⟩
      · intro hc; simp [hcl.1] at hc
      · simp [h3, hcl]
    · simp at hs
  | closePass =>
    simp only [step, closePass] at hs
    split at hs
    · next hc =>
      simp at hs; subst hs
      refine ⟨h1, ?_, h3, ?_, h5, h6, h7⟩
      · intro hcl; have := (h2 hcl).1; exact ⟨by simp; omega, (h2 hcl).2⟩
      · intro ho; simp [hc.2] at ho
    · simp at hs
  | closeReturn =>
    simp only [step, closeReturn] at hs
    split at hs
    · next hc =>
      simp at hs; subst hs
      refine ⟨h1, ?_, h3, ?_, fun _ => hc.2, h6, h7⟩
      · intro hcl; have := (h2 hcl).1; omega
      · intro ho; have := h4 ho; omega
    · simp at hs

theorem inv_reach {s : State} (hr : Reach .all s) : Inv s := by
  induction hr with
  | init => exact inv_init
  | step l _ hs ih => exact inv_step ih hs

/-! ### progress -/

def muLock : Lock → Nat
  | .free => 0
  | .subBefore => 4
  | .subOpen => 3
  | .subClosed => 1

def mu (s : State) : Nat :=
  muLock s.lock + 3 * s.cNew + 2 * s.cWon + s.cLock + 2 * (s.idle + s.holding) + s.exiting

/-- While some `Close` call is pending and none can return yet, an internal step makes `mu` smaller. -/
theorem progress_step {s : State} (hi : Inv s) (hp : closePending s)
    (hn : step .all s .closeReturn = none) :
    ∃ l s', l.internal = true ∧ step .all s l = some s' ∧ mu s' < mu s := by
  obtain ⟨h1, h2, h3, h4, h5, h6, h7⟩ := hi
  simp only [closePending] at hp
  cases hl : s.lock with
  | subBefore =>
    refine ⟨.subLoad, _, rfl, by simp [step, subLoad, hl]; rfl, ?_⟩
    cases hc : s.closed <;> simp [mu, muLock, hl]
  | subOpen =>
    exact ⟨.subFinish, _, rfl, by simp [step, subFinish, hl]; rfl, by simp [mu, muLock, hl]; omega⟩
  | subClosed =>
    exact ⟨.subFinish, _, rfl, by simp [step, subFinish, hl]; rfl, by simp [mu, muLock, hl]⟩
  | free =>
    by_cases hnew : 0 < s.cNew
    · cases hc : s.closed with
      | false =>
        exact ⟨.closeCas, _, rfl, by simp [step, closeCas, hnew, hc]; rfl, by simp [mu, hl]; omega⟩
      | true =>
        exact ⟨.closeCas, _, rfl, by simp [step, closeCas, hnew, hc]; rfl, by simp [mu, hl]; omega⟩
    · by_cases hw : 0 < s.cWon
      · exact ⟨.closeChClose, _, rfl, by simp [step, closeChClose, hw]; rfl, by simp [mu, hl]; omega⟩
      · have hcl : s.closed = true := by
          cases hc : s.closed with
          | true => rfl
          | false => have := (h2 hc).1; omega
        have hch : s.closeCh = true := by
          cases hc : s.closeCh with
          | true => rfl
          | false => simp [hcl, hc] at h3; omega
        by_cases hid : 0 < s.idle
        · exact ⟨.fwdExitClose, _, rfl, by simp [step, fwdExitClose, hid, hch]; rfl,
            by simp [mu, hl]; omega⟩
        · by_cases hh : 0 < s.holding
          · exact ⟨.fwdExitCloseHolding, _, rfl, by simp [step, fwdExitCloseHolding, hh, hch]; rfl,
              by simp [mu, hl]; omega⟩
          · by_cases he : 0 < s.exiting
            · exact ⟨.fwdDone, _, rfl, by simp [step, fwdDone, he, hl]; rfl, by simp [mu, hl]; omega⟩
            · by_cases hk : 0 < s.cLock
              · exact ⟨.closePass, _, rfl, by simp [step, closePass, hk, hl]; rfl,
                  by simp [mu, hl]; omega⟩
              · exfalso
                have hwg : s.wg = 0 := by omega
                have hwt : 0 < s.cWait := by omega
                simp [step, closeReturn, hwg, hwt] at hn

theorem pending_internal {s s' : State} {l : Label} (hl : l.internal = true)
    (hs : step .all s l = some s') :
    s'.cNew + s'.cWon + s'.cLock + s'.cWait = s.cNew + s.cWon + s.cLock + s.cWait := by
  cases l <;> simp [Label.internal] at hl <;>
    simp only [step, subLoad, subFinish, fwdTake, fwdExitClose, fwdExitCloseHolding, fwdDone, closeCas,
      closeChClose, closePass] at hs <;>
    (repeat' split at hs) <;> (try simp at hs) <;> (try subst hs) <;> (try simp) <;> (try omega)

theorem reach_of_run (w : Wait) : ∀ (ls : List Label) (s s' : State), Reach w s →
    runLabels w s ls = some s' → Reach w s'
  | [], s, s', hr, h => by simp [runLabels] at h; subst h; exact hr
  | l :: ls, s, s', hr, h => by
    simp only [runLabels] at h
    split at h
    · next s1 h1 => exact reach_of_run w ls s1 s' (Reach.step l hr h1) h
    · simp at h

end Kit.Broadcaster.Cl
