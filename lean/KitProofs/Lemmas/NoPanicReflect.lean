import KitModel.NoPanicReflect
/-! Helper lemmas for C07: the reflection prefixes stay inside the documented domains of `reflect`. -/
namespace Kit.NoPanic.Reflect
open Kit Kit.NoPanic

theorem leaf_kind_ne_iface (k : LK) : k.kind ≠ .iface := by cases k <;> decide
theorem leaf_kind_ne_ptr (k : LK) : k.kind ≠ .ptr := by cases k <;> decide

/-- `IsNil` is legal on every value whose kind is Interface or Pointer -/
theorem rIsNil_ok_of_kind (v : RV) (h : v.kind = .iface ∨ v.kind = .ptr) : ∃ b, rIsNil v = .ok b := by
  cases v with
  | zero => rcases h with h | h <;> simp [RV.kind] at h
  | nilOf k => exact ⟨true, rfl⟩
  | ptrTo v => exact ⟨false, rfl⟩
  | ifaceOf v => exact ⟨false, rfl⟩
  | leaf k =>
    rcases h with h | h
    · exact absurd h (leaf_kind_ne_iface k)
    · exact absurd h (leaf_kind_ne_ptr k)

/-- the interface-unwrapping loop ends within `depth` iterations, without a panic, and maps the
zero Value to itself -/
theorem unwrapIface_ok : ∀ (fuel : Nat) (v : RV), v.depth ≤ fuel → ∃ w, unwrapIface fuel v = .ok w := by
  intro fuel
  induction fuel with
  | zero =>
    intro v hd
    unfold unwrapIface
    cases v with
    | zero => exact ⟨.zero, by simp [RV.kind]⟩
    | nilOf k => refine ⟨.nilOf k, ?_⟩; cases k <;> simp [RV.kind, NK.kind, rIsNil, Outcome.bind]
    | ptrTo v => exact ⟨.ptrTo v, by simp [RV.kind]⟩
    | ifaceOf v => simp [RV.depth] at hd
    | leaf k => exact ⟨.leaf k, by simp [RV.kind, leaf_kind_ne_iface]⟩
  | succ n ih =>
    intro v hd
    unfold unwrapIface
    cases v with
    | zero => exact ⟨.zero, by simp [RV.kind]⟩
    | nilOf k => refine ⟨.nilOf k, ?_⟩; cases k <;> simp [RV.kind, NK.kind, rIsNil, Outcome.bind]
    | ptrTo v => exact ⟨.ptrTo v, by simp [RV.kind]⟩
    | ifaceOf v =>
      have hv : v.depth ≤ n := by simp [RV.depth] at hd; omega
      obtain ⟨w, hw⟩ := ih v hv
      exact ⟨w, by simp [RV.kind, rIsNil, rElem, Outcome.bind, hw]⟩
    | leaf k => exact ⟨.leaf k, by simp [RV.kind, leaf_kind_ne_iface]⟩

theorem unwrapIface_zero (fuel : Nat) : unwrapIface fuel .zero = .ok .zero := by
  cases fuel <;> simp [unwrapIface, RV.kind]

theorem rInterface_ok (v : RV) (h : v.isValid = true) : rInterface v = .ok () := by
  cases v <;> first | rfl | simp [RV.isValid] at h

theorem rElem_of_ptr (data : RV) (h : data.kind = .ptr) : ∃ e, rElem data = .ok e := by
  cases data with
  | zero => simp [RV.kind] at h
  | nilOf k => cases k <;> first | exact ⟨_, rfl⟩ | simp [RV.kind, NK.kind] at h
  | ptrTo v => exact ⟨v, rfl⟩
  | ifaceOf v => exact ⟨v, rfl⟩
  | leaf k => exact absurd h (leaf_kind_ne_ptr k)

theorem decodePtrPrefix_noPanic (data : RV) (h : data.kind = .ptr) : (decodePtrPrefix data).isPanic = false := by
  unfold decodePtrPrefix
  obtain ⟨elem, he⟩ := rElem_of_ptr data h
  rw [he, bind_ok]
  obtain ⟨inner, hi⟩ := unwrapIface_ok elem.depth elem (Nat.le_refl _)
  rw [hi, bind_ok]
  by_cases hv : inner.isValid = true
  · have hev : elem.isValid = true := by
      cases elem with
      | zero => rw [unwrapIface_zero] at hi; cases hi; simp [RV.isValid] at hv
      | _ => rfl
    simp only [hv, Bool.not_true, Bool.false_eq_true, if_false]
    by_cases hk : inner.kind = .iface ∨ inner.kind = .ptr
    · rw [if_pos hk]
      obtain ⟨b, hb⟩ := rIsNil_ok_of_kind inner hk
      rw [hb, bind_ok]
      cases b
      · simp only [Bool.false_eq_true, if_false]
        rw [rInterface_ok elem hev, bind_ok]; rfl
      · rfl
    · rw [if_neg hk, rInterface_ok elem hev, bind_ok]; rfl
  · have : inner.isValid = false := by simpa using hv
    simp [this]

mutual
theorem aliasesInType_noPanic : ∀ t : RT, (match t with | .struct _ => True | _ => False) → t.squashOK = true →
    (aliasesInType t).isPanic = false
  | .struct fields, _, h => by
    rw [aliasesInType]
    exact aliasesFields_noPanic fields (by simpa [RT.squashOK] using h)
  | .ptr _, h, _ => by cases h
  | .other, h, _ => by cases h
theorem aliasesFields_noPanic : ∀ fs : List (Bool × RT), fieldsOK fs = true → (aliasesFields fs).isPanic = false
  | [], _ => by simp [aliasesFields]
  | (squash, ft) :: rest, h => by
    rw [aliasesFields]
    cases squash with
    | false =>
      simp only [fieldsOK, Bool.false_eq_true, if_false, Bool.true_and] at h
      simp only [Bool.false_eq_true, if_false]
      exact aliasesFields_noPanic rest h
    | true =>
      simp only [if_true]
      cases ft with
      | struct fields =>
        simp only [fieldsOK, if_true, Bool.and_eq_true] at h
        have hin := aliasesInType_noPanic (.struct fields) trivial h.1
        have hrest := aliasesFields_noPanic rest h.2
        revert hin
        cases aliasesInType (.struct fields) with
        | ok _ => intro _; simpa [Outcome.bind] using hrest
        | err _ => intro _; rfl
        | panic _ => intro hp; simp at hp
      | ptr _ => simp [fieldsOK] at h
      | other => simp [fieldsOK] at h
end

end Kit.NoPanic.Reflect
