/-
Never-panics lemmas for the instrumented enc/v1 model (`KitModel/EncChk.lean`): no bounds check ever
fails, and the instrumented segment loop computes exactly what the plain model computes.
-/
import KitModel.Enc
import KitModel.EncChk
import KitProofs.Lemmas.EncReader
import KitProofs.Lemmas.EncLoop

namespace Kit.Enc.Chk
open Kit Kit.Enc

theorem read_len (r : Reader) (m : Nat) (hm : 0 < m) : (r.read m).1.length ≤ m := by
  rcases r.read_cases m hm with h | h
  · exact h.len
  · exact h.len

/-- The buffer never grows beyond the limit `segSize + 1`. -/
theorem fill_length_le : ∀ (fuel : Nat) (r : Reader) (limit : Nat) (buf : Bytes), buf.length ≤ limit →
    (fill fuel r limit buf).1.length ≤ limit := by
  intro fuel
  induction fuel with
  | zero => intro r limit buf h; simpa [fill] using h
  | succ fuel ih =>
    intro r limit buf h
    unfold fill
    by_cases hlt : buf.length < limit
    · simp only [hlt, if_true]
      have hl := read_len r (limit - buf.length) (by omega)
      generalize r.read (limit - buf.length) = x at hl
      obtain ⟨chunk, res, r'⟩ := x
      simp only at hl
      have hb : (buf ++ chunk).length ≤ limit := by simp only [List.length_append]; omega
      cases res with
      | none => exact ih r' limit (buf ++ chunk) hb
      | eof => exact hb
      | fail => exact hb
    · simp only [hlt, if_false]; exact h

/-- `fill` with the slice check `(*buf)[n:limit]`: the check never fails when `limit ≤ cap`. -/
theorem fillO_eq (cap : Nat) : ∀ (fuel : Nat) (r : Reader) (limit : Nat) (buf : Bytes), buf.length ≤ limit → limit ≤ cap →
    fillO cap fuel r limit buf = some (fill fuel r limit buf) := by
  intro fuel
  induction fuel with
  | zero => intro r limit buf _ _; rfl
  | succ fuel ih =>
    intro r limit buf h hc
    unfold fillO fill
    by_cases hlt : buf.length < limit
    · have hs : sliceOK cap buf.length limit = true := by simp [sliceOK]; omega
      simp only [hlt, if_true, hs, Bool.not_true, Bool.false_eq_true, if_false]
      have hl := read_len r (limit - buf.length) (by omega)
      generalize r.read (limit - buf.length) = x at hl
      obtain ⟨chunk, res, r'⟩ := x
      simp only at hl
      have hb : (buf ++ chunk).length ≤ limit := by simp only [List.length_append]; omega
      cases res with
      | none => exact ih r' limit (buf ++ chunk) hb hc
      | eof => rfl
      | fail => rfl
    · simp only [hlt, if_false]


/-- **The instrumented segment loop never fails a bounds check and computes the plain model's result**,
    for every reader script, provided the pooled buffer has room for a segment plus the look-ahead
    byte (`segSize + 1 ≤ cap`) and the process function does not panic on segments of `1..segSize` bytes. -/
theorem psLoopO_eq (cap segSize maxSeg : Nat) (hcap : segSize + 1 ≤ cap) (fnO : ProcFnO) (fn : ProcFn)
    (hfn : ∀ d i l, 0 < d.length → d.length ≤ segSize → fnO d i l = some (fn d i l)) :
    ∀ (fuel : Nat) (r : Reader) (carry : Option UInt8) (seg : Nat),
      psLoopO cap segSize maxSeg fnO fuel r carry seg = some (psLoop segSize maxSeg fn fuel r carry seg) := by
  intro fuel
  induction fuel with
  | zero => intro r carry seg; rfl
  | succ fuel ih =>
    intro r carry seg
    have hL : carry.toList.length ≤ 1 := by cases carry <;> simp
    have hi0 : indexOK cap 0 = true := by simp [indexOK]; omega
    have hfill := fillO_eq cap (r.measure + 1) r (segSize + 1) carry.toList (by omega) hcap
    have hlen := fill_length_le (r.measure + 1) r (segSize + 1) carry.toList (by omega)
    unfold psLoopO psLoop
    simp only [hi0, Bool.not_true, Bool.and_false, Bool.false_eq_true, if_false, hfill]
    generalize fill (r.measure + 1) r (segSize + 1) carry.toList = filled at hlen
    obtain ⟨buf, res, r'⟩ := filled
    simp only at hlen ⊢
    by_cases hres : res = .fail
    · simp only [hres, if_true]
    · simp only [hres, if_false]
      by_cases hover : buf.length > segSize
      · -- non-final segment
        have hix : indexOK cap (buf.length - 1) = true := by simp [indexOK]; omega
        have hdl : (buf.take (buf.length - 1)).length = buf.length - 1 := by simp
        simp only [hover, decide_true, hix, Bool.not_true, Bool.and_false, Bool.false_eq_true, if_false, if_true,
          Bool.not_true, hdl]
        have hnlt : ¬ (buf.length - 1 < segSize) := by omega
        simp only [and_true, hnlt, if_false, true_and]
        by_cases h0 : buf.length - 1 = 0
        · simp only [h0, if_true]
          by_cases hs : seg ≠ 0 <;> simp [hs]
        · have hsl : sliceOK cap 0 (buf.length - 1) = true := by simp [sliceOK]; omega
          simp only [h0, if_false, hsl, Bool.not_true, Bool.false_eq_true]
          rw [hfn (buf.take (buf.length - 1)) seg false (by rw [hdl]; omega) (by rw [hdl]; omega)]
          cases fn (buf.take (buf.length - 1)) seg false with
          | error e => rfl
          | ok o =>
            simp only []
            by_cases hm : seg = maxSeg
            · simp only [hm, if_true]
            · simp only [hm, if_false, ih, Option.map_some]
      · -- final segment (or nothing)
        have hle : buf.length ≤ segSize := by omega
        simp only [hover, decide_false, Bool.false_and, Bool.false_eq_true, if_false, Bool.not_false]
        by_cases h1 : buf.length < segSize ∧ (true = false)
        · exact absurd h1.2 (by decide)
        · simp only [h1, if_false]
          by_cases h0 : buf.length = 0
          · simp only [h0, if_true]
            by_cases hs : seg ≠ 0 <;> simp [hs]
          · have hsl : sliceOK cap 0 buf.length = true := by simp [sliceOK]; omega
            simp only [h0, if_false, hsl, Bool.not_true, Bool.false_eq_true]
            rw [hfn buf seg true (by omega) hle]
            cases fn buf seg true with
            | error e => rfl
            | ok o => simp

theorem processSegmentsO_eq (cap segSize maxSeg : Nat) (hcap : segSize + 1 ≤ cap) (fnO : ProcFnO) (fn : ProcFn)
    (hfn : ∀ d i l, 0 < d.length → d.length ≤ segSize → fnO d i l = some (fn d i l)) (r : Reader) :
    processSegmentsO cap segSize maxSeg fnO r = some (processSegments segSize maxSeg fn r) :=
  psLoopO_eq cap segSize maxSeg hcap fnO fn hfn _ r none 0


/-! ### segment functions -/

/-- What the AEAD guarantees about a successful `Open` (Go: an input shorter than the tag is an
    error, and the plaintext is `Overhead()` bytes shorter than the input). -/
def OpenLen (c : Crypto) (P : EncParams) (pk np : Bytes) : Prop :=
  ∀ cph i l x q, c.aopen cph pk (nonceFor P np i l) x = some q → P.overhead ≤ x.length ∧ q.length = x.length - P.overhead

theorem decryptSegO_eq (c : Crypto) (P : EncParams) (nonceLen cph : Nat) (pk np : Bytes)
    (hn : ∀ i l, (nonceFor P np i l).length = nonceLen) (ho : OpenLen c P pk np) (d : Bytes) (i : Nat) (l : Bool) :
    decryptSegO c P nonceLen cph pk np d i l = some (decryptSeg c P cph pk np d i l) := by
  unfold decryptSegO decryptSeg
  by_cases he : d.isEmpty = true
  · simp [he]
  · have hnk : nonceOK nonceLen (nonceFor P np i l) = true := by simp [nonceOK, hn]
    simp only [he, Bool.false_eq_true, if_false, hnk, Bool.not_true]
    cases hop : c.aopen cph pk (nonceFor P np i l) d with
    | none => rfl
    | some pt =>
      obtain ⟨h1, h2⟩ := ho cph i l d pt hop
      have h3 : ¬ d.length < P.overhead := by omega
      have h4 : sliceOK pt.length 0 (d.length - P.overhead) = true := by simp [sliceOK]; omega
      simp [h3, h4]

theorem encryptSegO_eq (c : Crypto) (P : EncParams) (nonceLen cph : Nat) (pk np : Bytes)
    (hn : ∀ i l, (nonceFor P np i l).length = nonceLen) (lc : c.LawfulFor P pk np) (d : Bytes) (i : Nat) (l : Bool) :
    encryptSegO c P nonceLen cph pk np d i l = some (encryptSeg c P cph pk np d i l) := by
  unfold encryptSegO encryptSeg
  by_cases he : d.isEmpty = true
  · simp [he]
  · have hnk : nonceOK nonceLen (nonceFor P np i l) = true := by simp [nonceOK, hn]
    have h4 : sliceOK (c.aseal cph pk (nonceFor P np i l) d).length 0 (d.length + P.overhead) = true := by
      simp [sliceOK, lc.seal_length]
    simp [he, hnk, h4]

/-! ### readHeader -/

theorem hdrStepO_ne_none (cap : Nat) (scheme buf : Bytes) (st : HdrIdx) (i : Nat) (hi : i < cap) :
    hdrStepO cap scheme buf st i ≠ none := by
  unfold hdrStepO
  have h1 : indexOK cap i = true := by simp [indexOK, hi]
  by_cases hn : st.newlines ≥ 3
  · simp [hn]
  · simp only [hn, if_false, h1, Bool.not_true, Bool.false_eq_true]
    by_cases hb : buf[i]? ≠ some 10
    · simp [hb]
    · simp only [hb, if_false]
      by_cases hl : i ≤ st.last
      · simp [hl]
      · have h2 : sliceOK cap st.last i = true := by simp [sliceOK]; omega
        simp only [hl, if_false, h2, Bool.not_true, Bool.false_eq_true]
        split
        · split <;> simp
        · simp
        · simp

theorem hdrScanO_ne_none (cap : Nat) (scheme buf : Bytes) : ∀ (k : Nat) (st : HdrIdx) (i : Nat), i + k ≤ cap →
    hdrScanO cap scheme buf k st i ≠ none := by
  intro k
  induction k with
  | zero => intro st i _; simp [hdrScanO]
  | succ k ih =>
    intro st i h
    unfold hdrScanO
    have := hdrStepO_ne_none cap scheme buf st i (by omega)
    cases hs : hdrStepO cap scheme buf st i with
    | none => exact absurd hs this
    | some x =>
      cases x with
      | error e => simp
      | ok st' => simp only []; exact ih st' (i + 1) (by omega)

theorem hdrLoopO_ne_none (cap : Nat) (scheme : Bytes) (hdrMax : Nat) (hcap : hdrMax ≤ cap) :
    ∀ (fuel : Nat) (r : Reader) (buf : Bytes) (st : HdrIdx), buf.length ≤ hdrMax →
      ∃ x, hdrLoopO cap scheme hdrMax fuel r buf st = some x ∧
        ∀ st' b res r', x = .ok (st', b, res, r') → b.length ≤ hdrMax := by
  intro fuel
  induction fuel with
  | zero => intro r buf st _; exact ⟨_, rfl, fun _ _ _ _ h => by cases h⟩
  | succ fuel ih =>
    intro r buf st hb
    unfold hdrLoopO
    by_cases hn : st.newlines ≥ 3
    · simp only [hn, if_true]
      exact ⟨_, rfl, fun _ _ _ _ h => by cases h; exact hb⟩
    · simp only [hn, if_false]
      by_cases hfull : buf.length = hdrMax
      · simp only [hfull, if_true]
        exact ⟨_, rfl, fun _ _ _ _ h => by cases h; omega⟩
      · have hs : sliceOK cap buf.length hdrMax = true := by simp [sliceOK]; omega
        simp only [hfull, if_false, hs, Bool.not_true, Bool.false_eq_true]
        have hl := read_len r (hdrMax - buf.length) (by omega)
        generalize r.read (hdrMax - buf.length) = x at hl
        obtain ⟨chunk, res, r'⟩ := x
        simp only at hl ⊢
        have hb' : (buf ++ chunk).length ≤ hdrMax := by simp only [List.length_append]; omega
        have hsc := hdrScanO_ne_none cap scheme (buf ++ chunk) chunk.length st buf.length (by omega)
        cases hscan : hdrScanO cap scheme (buf ++ chunk) chunk.length st buf.length with
        | none => exact absurd hscan hsc
        | some y =>
          cases y with
          | error e => exact ⟨_, rfl, fun _ _ _ _ h => by cases h⟩
          | ok st' =>
            simp only []
            by_cases hr : res = .none
            · simp only [hr, if_true]; exact ih r' (buf ++ chunk) st' hb'
            · simp only [hr, if_false]
              exact ⟨_, rfl, fun _ _ _ _ h => by cases h; exact hb'⟩

/-- **`readHeader` never panics**: for every source script and every byte content, none of its index
    or slice expressions is out of range (the buffer holds `cap ≥ hdrMax` bytes). -/
theorem readHeaderO_ne_none (cap : Nat) (P : EncParams) (hcap : P.hdrMax ≤ cap) (r : Reader) :
    readHeaderO cap P r ≠ none := by
  unfold readHeaderO
  obtain ⟨x, hx, hlen⟩ := hdrLoopO_ne_none cap P.scheme P.hdrMax hcap (r.measure + 1) r [] {} (by simp)
  rw [hx]
  cases x with
  | error e => simp
  | ok y =>
    obtain ⟨st, buf, res, r'⟩ := y
    have hb := hlen st buf res r' rfl
    simp only []
    by_cases c1 : st.newlines < 1
    · simp [c1]
    · by_cases c2 : st.manifest.isEmpty = true
      · simp [c1, c2]
      · by_cases c3 : st.mac.isEmpty = true
        · simp [c1, c2, c3]
        · by_cases c4 : res = .fail
          · simp [c1, c2, c3, c4]
          · by_cases c5 : buf.length > st.last
            · have : sliceOK cap st.last buf.length = true := by
                simp only [sliceOK, Bool.and_eq_true, decide_eq_true_eq]; exact ⟨by omega, by omega⟩
              simp [c1, c2, c3, c4, c5, this]
            · simp [c1, c2, c3, c4, c5]


/-! ### the index-based header scan computes what the list-based one computes -/

/-- `pre` = the bytes of the buffer scanned so far. -/
structure Sim (pre : Bytes) (st : HdrState) (ix : HdrIdx) : Prop where
  nl : st.newlines = ix.newlines
  man : st.manifest = ix.manifest
  mac : st.mac = ix.mac
  le : ix.last ≤ pre.length
  cur : st.curRev.reverse = pre.drop ix.last

theorem sim_push (pre : Bytes) (st : HdrState) (ix : HdrIdx) (b : UInt8) (h : Sim pre st ix) :
    Sim (pre ++ [b]) { st with curRev := b :: st.curRev } ix :=
  ⟨h.nl, h.man, h.mac, by simp only [List.length_append, List.length_singleton]; have := h.le; omega,
   by simp only [List.reverse_cons, h.cur]; rw [List.drop_append_of_le_length h.le]⟩

/-- One index of the Go loop against one byte of the list scan. -/
theorem hdrStepO_sim (cap : Nat) (scheme pre post : Bytes) (b : UInt8) (st : HdrState) (ix : HdrIdx)
    (h : Sim pre st ix) (hi : pre.length < cap) :
    match hdrStep scheme st b with
    | .error e => hdrStepO cap scheme (pre ++ b :: post) ix pre.length = some (.error e)
    | .ok st' => ∃ ix', hdrStepO cap scheme (pre ++ b :: post) ix pre.length = some (.ok ix') ∧ Sim (pre ++ [b]) st' ix' := by
  have hget : (pre ++ b :: post)[pre.length]? = some b := by simp
  have hidx : indexOK cap pre.length = true := by simp [indexOK, hi]
  unfold hdrStep hdrStepO
  rw [← h.nl]
  by_cases hn : st.newlines ≥ 3
  · simp only [hn, if_true]
    exact ⟨ix, rfl, sim_push pre st ix b h⟩
  · simp only [hn, if_false, hidx, Bool.not_true, Bool.false_eq_true, hget]
    by_cases hb : b ≠ 10
    · have : ¬ (some b = some (10 : UInt8)) := by simpa using hb
      simp only [hb, ne_eq, not_false_eq_true, if_true, this]
      exact ⟨ix, rfl, sim_push pre st ix b h⟩
    · have hb' : b = 10 := by simpa using hb
      subst hb'
      simp only [ne_eq, not_true_eq_false, if_false]
      have hle := h.le
      have hcur := h.cur
      by_cases he : st.curRev.isEmpty = true
      · -- empty line
        have : st.curRev = [] := by simpa using he
        have hd : pre.drop ix.last = [] := by rw [← hcur, this]; rfl
        have : pre.length ≤ ix.last := by simpa [List.drop_eq_nil_iff] using hd
        simp [he, this]
      · have hne : st.curRev ≠ [] := by simpa using he
        have hlt : ¬ pre.length ≤ ix.last := by
          intro hh
          have : pre.drop ix.last = [] := List.drop_of_length_le hh
          rw [← hcur] at this
          exact hne (by simpa using this)
        have hsl : sliceOK cap ix.last pre.length = true := by
          simp only [sliceOK, Bool.and_eq_true, decide_eq_true_eq]; exact ⟨hle, by omega⟩
        have hline : ((pre ++ (10 : UInt8) :: post).drop ix.last).take (pre.length - ix.last) = st.curRev.reverse := by
          rw [hcur, List.drop_append_of_le_length hle, List.take_append_of_le_length (by simp)]
          rw [List.take_of_length_le (by simp)]
        simp only [he, Bool.false_eq_true, if_false, hlt, hsl, Bool.not_true, hline]
        have hsim : ∀ (st' : HdrState) (ix' : HdrIdx), st'.newlines = ix'.newlines → st'.manifest = ix'.manifest →
            st'.mac = ix'.mac → st'.curRev = [] → ix'.last = pre.length + 1 → Sim (pre ++ [10]) st' ix' := by
          intro st' ix' a1 a2 a3 a4 a5
          exact ⟨a1, a2, a3, by rw [a5]; simp, by rw [a4, a5]; simp⟩
        match hnl : st.newlines with
        | 0 =>
          simp only []
          by_cases hs : st.curRev.reverse = scheme
          · simp only [hs, if_true]
            exact ⟨_, rfl, hsim _ _ rfl h.man h.mac rfl rfl⟩
          · simp only [hs, if_false]
        | 1 => exact ⟨_, rfl, hsim _ _ rfl rfl h.mac rfl rfl⟩
        | n + 2 => exact ⟨_, rfl, hsim _ _ rfl h.man rfl rfl rfl⟩


theorem hdrScanO_sim (cap : Nat) (scheme : Bytes) : ∀ (chunk pre : Bytes) (st : HdrState) (ix : HdrIdx),
    Sim pre st ix → pre.length + chunk.length ≤ cap →
    match hdrScan scheme st chunk with
    | .error e => hdrScanO cap scheme (pre ++ chunk) chunk.length ix pre.length = some (.error e)
    | .ok st' => ∃ ix', hdrScanO cap scheme (pre ++ chunk) chunk.length ix pre.length = some (.ok ix') ∧
        Sim (pre ++ chunk) st' ix' := by
  intro chunk
  induction chunk with
  | nil =>
    intro pre st ix h _
    simp only [hdrScan, List.length_nil, hdrScanO, List.append_nil]
    exact ⟨ix, rfl, h⟩
  | cons b t ih =>
    intro pre st ix h hc
    have hstep := hdrStepO_sim cap scheme pre t b st ix h (by simp only [List.length_cons] at hc; omega)
    simp only [hdrScan, List.length_cons, hdrScanO]
    cases hs : hdrStep scheme st b with
    | error e =>
      rw [hs] at hstep
      simp only [hstep]
    | ok st1 =>
      rw [hs] at hstep
      obtain ⟨ix1, h1, hsim1⟩ := hstep
      simp only [h1]
      have := ih (pre ++ [b]) st1 ix1 hsim1 (by simp only [List.length_append, List.length_cons, List.length_nil] at hc ⊢; omega)
      simp only [List.append_assoc, List.singleton_append, List.length_append, List.length_singleton] at this
      exact this

theorem hdrLoopO_sim (cap : Nat) (scheme : Bytes) (hdrMax : Nat) (hcap : hdrMax ≤ cap) :
    ∀ (fuel : Nat) (r : Reader) (buf : Bytes) (st : HdrState) (ix : HdrIdx), Sim buf st ix → buf.length ≤ hdrMax →
    match hdrLoop scheme hdrMax fuel r buf.length st with
    | .error e => hdrLoopO cap scheme hdrMax fuel r buf ix = some (.error e)
    | .ok (st', res, r') => ∃ ix' buf', hdrLoopO cap scheme hdrMax fuel r buf ix = some (.ok (ix', buf', res, r')) ∧
        Sim buf' st' ix' ∧ buf'.length ≤ hdrMax := by
  intro fuel
  induction fuel with
  | zero => intro r buf st ix _ _; simp [hdrLoop, hdrLoopO]
  | succ fuel ih =>
    intro r buf st ix h hb
    unfold hdrLoop hdrLoopO
    rw [← h.nl]
    by_cases hn : st.newlines ≥ 3
    · simp only [hn, if_true]
      exact ⟨ix, buf, rfl, h, hb⟩
    · simp only [hn, if_false]
      by_cases hfull : buf.length = hdrMax
      · simp only [hfull, if_true]
        exact ⟨ix, buf, rfl, h, hb⟩
      · have hs : sliceOK cap buf.length hdrMax = true := by
          simp only [sliceOK, Bool.and_eq_true, decide_eq_true_eq]; exact ⟨hb, hcap⟩
        simp only [hfull, if_false, hs, Bool.not_true, Bool.false_eq_true]
        have hl := read_len r (hdrMax - buf.length) (by omega)
        generalize r.read (hdrMax - buf.length) = x at hl
        obtain ⟨chunk, res, r'⟩ := x
        simp only at hl ⊢
        have hb' : (buf ++ chunk).length ≤ hdrMax := by simp only [List.length_append]; omega
        have hscan := hdrScanO_sim cap scheme chunk buf st ix h (by omega)
        cases hsc : hdrScan scheme st chunk with
        | error e =>
          rw [hsc] at hscan
          simp only [hscan]
        | ok st1 =>
          rw [hsc] at hscan
          obtain ⟨ix1, h1, hsim1⟩ := hscan
          simp only [h1]
          by_cases hr : res = .none
          · simp only [hr, if_true]
            have := ih r' (buf ++ chunk) st1 ix1 hsim1 hb'
            simp only [List.length_append] at this
            exact this
          · simp only [hr, if_false]
            exact ⟨ix1, buf ++ chunk, rfl, hsim1, hb'⟩

/-- **`readHeader` with all its index and slice expressions checked never panics and returns exactly
    what the list model returns**, for every source script and every content. -/
theorem readHeaderO_eq (cap : Nat) (P : EncParams) (hcap : P.hdrMax ≤ cap) (r : Reader) :
    readHeaderO cap P r = some (readHeaderWith true P r) := by
  have h := hdrLoopO_sim cap P.scheme P.hdrMax hcap (r.measure + 1) r [] {} {}
    ⟨rfl, rfl, rfl, by simp, by simp⟩ (by simp)
  unfold readHeaderO readHeaderWith
  simp only [List.length_nil] at h
  cases hl : hdrLoop P.scheme P.hdrMax (r.measure + 1) r 0 {} with
  | error e => rw [hl] at h; simp only [h]
  | ok x =>
    obtain ⟨st, res, r'⟩ := x
    rw [hl] at h
    obtain ⟨ix, buf, h1, hsim, hb⟩ := h
    simp only [h1, ← hsim.nl, ← hsim.man, ← hsim.mac]
    by_cases c1 : st.newlines < 1
    · simp [c1]
    · by_cases c2 : st.manifest.isEmpty = true
      · simp [c1, c2]
      · by_cases c3 : st.mac.isEmpty = true
        · simp [c1, c2, c3]
        · by_cases c4 : res = .fail
          · simp [c1, c2, c3, c4]
          · simp only [c1, c2, c3, c4, if_false, Bool.true_and, decide_false, Bool.false_eq_true, hsim.cur]
            by_cases c5 : buf.length > ix.last
            · have : sliceOK cap ix.last buf.length = true := by
                simp only [sliceOK, Bool.and_eq_true, decide_eq_true_eq]; exact ⟨hsim.le, by omega⟩
              simp [c5, this]
            · have : buf.drop ix.last = [] := List.drop_of_length_le (by omega)
              simp [c5, this]


/-- **`Decrypt` never panics, for any document bytes, any source script, any unwrapped key**: the
    instrumented `Decrypt` passes every bounds check and AEAD precondition and returns what the plain
    model returns (a released prefix and a terminal that is `ok` or an error). -/
theorem decryptO_eq (cap nonceLen : Nat) (c : Crypto) (cd : Codec) (P : EncParams)
    (hcap1 : P.hdrMax ≤ cap) (hcap2 : P.segSize + P.overhead + 1 ≤ cap)
    (hn : ∀ np i l, (nonceFor P np i l).length = nonceLen) (ho : ∀ pk np, OpenLen c P pk np)
    (o : DecryptOpts) (r : Reader) :
    decryptO cap nonceLen c cd P o r = some (decryptImpl c cd P o r) := by
  unfold decryptO decryptImpl decryptWith
  rw [readHeaderO_eq cap P hcap1 r]
  cases readHeaderWith true P r with
  | error e => rfl
  | ok x =>
    obtain ⟨ml, cl, r'⟩ := x
    simp only []
    cases cd.parse ml with
    | none => rfl
    | some m =>
      simp only []
      by_cases hv : (!m.valid P) = true
      · simp only [hv, if_true]
      · simp only [hv, Bool.false_eq_true, if_false]
        by_cases hk : (if o.keyName.isEmpty then m.keyName else o.keyName).isEmpty = true
        · simp only [hk, if_true]
        · simp only [hk, Bool.false_eq_true, if_false]
          cases verifyHeader c cd P _ ml cl with
          | some e => rfl
          | none =>
            simp only [Bool.true_and]
            by_cases hu : unwrapFailed true P o m (if o.keyName.isEmpty then m.keyName else o.keyName) = true
            · simp only [hu, if_true]
            · simp only [hu, Bool.false_eq_true, if_false]
              rw [processSegmentsO_eq cap (P.segSize + P.overhead) P.maxSeg hcap2 _ _
                (fun d i l _ _ => decryptSegO_eq c P nonceLen m.cph _ m.np (hn m.np) (ho _ m.np) d i l) r']
              rfl


/-! ### termination: the fuel of the model loops is never exhausted -/

theorem runSegs_term_ne_fuel (m : Nat) (fn : ProcFn) (hfn : ∀ d i l, fn d i l ≠ .error .fuel)
    (fin : Terminal) (hfin : fin ≠ .err .fuel) :
    ∀ (segs : List (Bytes × Bool)) (i : Nat), (runSegs m fn segs i fin).term ≠ .err .fuel := by
  intro segs
  induction segs with
  | nil => intro i; simpa [runSegs] using hfin
  | cons a t ih =>
    intro i
    obtain ⟨d, l⟩ := a
    simp only [runSegs]
    cases hf : fn d i l with
    | error e =>
      simp only []
      intro h; cases h; exact hfn d i l hf
    | ok o =>
      simp only []
      split
      · simp
      · split
        · simp
        · simpa [PSResult.cons] using ih (i + 1)

/-- The inner read loop leaves by its own exit condition (buffer full, or the source reported its end
    or a failure), never because the model's fuel ran out: `r.measure + 1` iterations always suffice. -/
theorem fill_exits (fuel : Nat) (r : Reader) (limit : Nat) (buf : Bytes) (hf : r.measure < fuel)
    (hb : buf.length ≤ limit) :
    (fill fuel r limit buf).2.1 ≠ .none ∨ (fill fuel r limit buf).1.length = limit := by
  have hs := fill_spec fuel r limit buf hf hb
  by_cases hA : limit - buf.length < r.stream.length ∨ (limit - buf.length = r.stream.length ∧ r.D = false)
  · right
    obtain ⟨_, e2, _⟩ := hs.1 hA
    rw [e2]
    simp only [List.length_append, List.length_take]
    rcases hA with h | ⟨h, _⟩ <;> omega
  · by_cases h0 : limit - buf.length = 0
    · right
      have : ¬ buf.length < limit := by omega
      have hfe : fill fuel r limit buf = (buf, .none, r) := by
        cases fuel with
        | zero => omega
        | succ f => unfold fill; simp [this]
      rw [hfe]; simp; omega
    · left
      have hB : r.stream.length < limit - buf.length ∨
          (r.stream.length = limit - buf.length ∧ r.D = true ∧ 0 < limit - buf.length) := by
        by_cases hD : r.D = true
        · by_cases h : r.stream.length = limit - buf.length
          · right; exact ⟨h, hD, by omega⟩
          · left
            have : ¬ (limit - buf.length < r.stream.length) := fun h' => hA (Or.inl h')
            omega
        · have hD' : r.D = false := by simpa using hD
          left
          have h1 : ¬ (limit - buf.length < r.stream.length) := fun h' => hA (Or.inl h')
          have h2 : ¬ (limit - buf.length = r.stream.length) := fun h' => hA (Or.inr ⟨h', hD'⟩)
          omega
      obtain ⟨e1, _⟩ := hs.2 hB
      rw [e1]; exact Term.res_ne_none _

theorem hdrScan_ne_fuel (scheme : Bytes) : ∀ (bs : Bytes) (st : HdrState), hdrScan scheme st bs ≠ .error .fuel := by
  intro bs
  induction bs with
  | nil => intro st; simp [hdrScan]
  | cons b t ih =>
    intro st
    simp only [hdrScan]
    cases hs : hdrStep scheme st b with
    | error e =>
      simp only []
      intro h; cases h
      unfold hdrStep at hs
      repeat' split at hs
      all_goals cases hs
    | ok st' => exact ih st'

/-- The header loop ends by its own conditions within `r.measure + 1` iterations. -/
theorem hdrLoop_ne_fuel (scheme : Bytes) (hdrMax : Nat) : ∀ (fuel : Nat) (r : Reader) (n : Nat) (st : HdrState),
    r.measure < fuel → n ≤ hdrMax → hdrLoop scheme hdrMax fuel r n st ≠ .error .fuel := by
  intro fuel
  induction fuel with
  | zero => intro r n st h; omega
  | succ fuel ih =>
    intro r n st hf hn
    unfold hdrLoop
    by_cases h3 : st.newlines ≥ 3
    · simp [h3]
    · simp only [h3, if_false]
      by_cases hfull : n = hdrMax
      · simp [hfull]
      · simp only [hfull, if_false]
        have hm : 0 < hdrMax - n := by omega
        rcases r.read_cases (hdrMax - n) hm with hnone | hend
        · obtain ⟨hres, _, hlen, hmeas, _, _, _⟩ := hnone
          generalize r.read (hdrMax - n) = x at *
          obtain ⟨chunk, res, r'⟩ := x
          simp only at hres hlen hmeas ⊢
          subst hres
          cases hsc : hdrScan scheme st chunk with
          | error e =>
            simp only []
            intro h; cases h; exact hdrScan_ne_fuel scheme chunk st hsc
          | ok st' =>
            simp only [if_true]
            exact ih r' (n + chunk.length) st' (by omega) (by omega)
        · obtain ⟨hres, _, _, _, _, _, _, _⟩ := hend
          generalize r.read (hdrMax - n) = x at *
          obtain ⟨chunk, res, r'⟩ := x
          simp only at hres ⊢
          have hne : res ≠ .none := by rw [hres]; exact Term.res_ne_none _
          cases hsc : hdrScan scheme st chunk with
          | error e =>
            simp only []
            intro h; cases h; exact hdrScan_ne_fuel scheme chunk st hsc
          | ok st' => simp [hne]

end Kit.Enc.Chk
