import KitModel.CronParser
/-!
# Declarative meaning of a cron field, written from `/repo/cron/doc.go`

This file contains **no reference to the parsing functions of the model** (`getRange`, `getField`,
`getBits`, `atoi`, …): it says which strings are terms, and which values a term denotes.

  * a field is a comma separated list of terms; its meaning is the union of the terms' meanings
    (doc.go "Comma"); empty list items are ignored (Go's `strings.FieldsFunc`; accepted oddity);
  * a term is `*` or `?` (doc.go "Asterisk", "Question mark": the whole range of the field),
    a value `N`, or a range `N-M` (doc.go "Hyphen"), optionally followed by `/step`
    (doc.go "Slash": increments over the range; `*/s` = `first-last/s`; `N/s` = `N-MAX/s`;
    it does not wrap around);
  * a value is a month / weekday name in any casing (doc.go: "case insensitive") or a decimal
    numeral (optional `+`, leading zeros allowed: what `strconv.Atoi` accepts — accepted oddity).
-/
namespace Kit.Cron.Spec
open Kit Kit.Cron

def IsDigit (c : Char) : Prop := '0' ≤ c ∧ c ≤ '9'

/-- Value of a string of decimal digits. -/
def decVal (ds : List Char) : Nat := ds.foldl (fun a c => a * 10 + (c.toNat - 48)) 0

/-- `s` is a decimal numeral for `n`: optional `+`, at least one digit, digits only, and
`n < 2^63` (Go `int`). -/
def Numeral (s : List Char) (n : Nat) : Prop :=
  ∃ ds, (s = ds ∨ s = '+' :: ds) ∧ ds ≠ [] ∧ (∀ c ∈ ds, IsDigit c) ∧ decVal ds = n ∧ n < 2 ^ 63

/-- `a` is a value: a name of the field (any casing) or, failing that, a numeral. -/
def Atom (b : Bounds) (a : List Char) (n : Nat) : Prop :=
  nameLookup b.names (toLower a) = some n ∨
  (nameLookup b.names (toLower a) = none ∧ Numeral a n)

inductive Base where
  | star                       -- `*` or `?`
  | single (n : Nat)           -- `N`
  | range (lo hi : Nat)        -- `N-M`
  deriving Repr, DecidableEq

/-- Abstract syntax of one list item: a base and an optional `/step`. -/
structure Term where
  base : Base
  step : Option Nat
  deriving Repr, DecidableEq

def Term.lo (b : Bounds) (t : Term) : Nat :=
  match t.base with
  | .star => b.min
  | .single n => n
  | .range lo _ => lo

/-- Upper end: `*` = last; `N` alone = `N`; `N/step` = `N-MAX/step`. -/
def Term.hi (b : Bounds) (t : Term) : Nat :=
  match t.base, t.step with
  | .star, _ => b.max
  | .single n, none => n
  | .single _, some _ => b.max
  | .range _ hi, _ => hi

def Term.stepVal (t : Term) : Nat := t.step.getD 1

/-- The documentation gives the term a meaning in a field with bounds `b`. Everything else must
be refused: out of range, inverted range, zero step. -/
def Term.WF (b : Bounds) (t : Term) : Prop :=
  b.min ≤ t.lo b ∧ t.hi b ≤ b.max ∧ t.lo b ≤ t.hi b ∧ 1 ≤ t.stepVal

instance (b : Bounds) (t : Term) : Decidable (t.WF b) := by unfold Term.WF; infer_instance

/-- The documented denotation: `v ∈ ⟦lo-hi/step⟧ ↔ lo ≤ v ≤ hi ∧ step ∣ v − lo`. -/
def Term.denote (b : Bounds) (t : Term) (v : Nat) : Prop :=
  t.lo b ≤ v ∧ v ≤ t.hi b ∧ t.stepVal ∣ (v - t.lo b)

/-- The term leaves the field unrestricted (`*`/`?`, no step > 1): what the star bit records
(`Next` uses it for the either-day rule). -/
def Term.starred (t : Term) : Prop := t.base = .star ∧ t.stepVal ≤ 1

instance (t : Term) : Decidable t.starred := by unfold Term.starred; infer_instance

/-- Concrete syntax of the part before `/`. -/
def BaseSyn (b : Bounds) (s : List Char) : Base → Prop
  | .star => s = ['*'] ∨ s = ['?']
  | .single n => isWild s = false ∧ '-' ∉ s ∧ Atom b s n
  | .range lo hi => ∃ a c, s = a ++ '-' :: c ∧ isWild a = false ∧ '-' ∉ a ∧ '-' ∉ c ∧
      Atom b a lo ∧ Atom b c hi

/-- Concrete syntax of the optional step. -/
def StepSyn : Option (List Char) → Option Nat → Prop
  | none, none => True
  | some st, some n => Numeral st n
  | _, _ => False

def stepSuffix : Option (List Char) → List Char
  | none => []
  | some st => '/' :: st

/-- `e` is the concrete syntax of the term `t` in a field with bounds `b`. -/
def TermSyn (b : Bounds) (e : List Char) (t : Term) : Prop :=
  ∃ baseS stepS, e = baseS ++ stepSuffix stepS ∧ '/' ∉ baseS ∧ BaseSyn b baseS t.base ∧
    StepSyn stepS t.step

/-- Item by item, `es` are the concrete syntaxes of the terms `ts`. -/
inductive ItemsSyn (b : Bounds) : List (List Char) → List Term → Prop
  | nil : ItemsSyn b [] []
  | cons {e : List Char} {t : Term} {es : List (List Char)} {ts : List Term} :
      TermSyn b e t → ItemsSyn b es ts → ItemsSyn b (e :: es) (t :: ts)

/-- A field is its non-empty comma separated items, each the syntax of one term. -/
def FieldSyn (b : Bounds) (s : List Char) (ts : List Term) : Prop :=
  ItemsSyn b (fieldsFunc (· == ',') s) ts

/-- The values (below 63) a list of terms denotes: the union. -/
def denotes (b : Bounds) (ts : List Term) (v : Nat) : Prop := ∃ t ∈ ts, t.denote b v

/-- The documented meaning of a whole schedule expression with all six fields given. -/
structure FieldMeaning (b : Bounds) (bits : BitVec 64) (ts : List Term) : Prop where
  wf : ∀ t ∈ ts, t.WF b
  values : ∀ v, v < 63 → (bits.getLsbD v = true ↔ denotes b ts v)
  star : bits.getLsbD 63 = true ↔ ∃ t ∈ ts, t.starred

/-! ## Field normalisation (doc.go "Alternative Formats"; `ParseOption` comments) -/

/-- Number of fields a parser with options `o` reads at most (= number of enabled places). -/
def _root_.Kit.Cron.Opts.maxFields (o : Opts) : Nat := (places.filter o.merged.has).length

def _root_.Kit.Cron.Opts.hasOptional (o : Opts) : Bool := o.secondOptional || o.dowOptional

/-- Declarative description of the six-slot list `r` that `normalizeFields` returns for the
supplied fields `fs`: one slot per place; the slots of enabled places are, in order, exactly the
supplied fields; the slot of a place that is not enabled holds that place's default. -/
structure Expanded (o : Opts) (ps : List Place) (ds fs r : List (List Char)) : Prop where
  length : r.length = ps.length
  supplied : ((ps.zip r).filter (fun x => o.has x.1)).map (·.2) = fs
  defaults : ∀ x ∈ ps.zip (r.zip ds), o.has x.1 = false → x.2.1 = x.2.2

end Kit.Cron.Spec
