import KitProofs.Lemmas.Broadcaster
/-! Progress lemmas for C11: from a state in which a fan-out holds the lock there is always a
permitted step that makes the measure `nu` smaller, provided `Close` has been called or every
stalled subscriber has left. -/
namespace Kit.Broadcaster

def ew : FPc → Nat
  | .idle => 3 | .holding => 3 | .exiting => 2 | .wantLock => 1 | .done => 0

def subM (u : Sub) : Nat := 2 * u.buf.length + (if u.pc = .holding then 1 else 0) + ew u.pc

def sumM (l : List Sub) : Nat := (l.map subM).sum

def nuC (s : State) : Nat := (if s.closed then 0 else 2) + (if s.closeCh then 0 else 1)

def nuF (s : State) : Nat :=
  match s.bc with
  | some (_, pc) => 3 * (s.subs.length + 1 - pc)
  | none => 0

def nu (s : State) : Nat := nuC s + nuF s + sumM s.subs

theorem sumM_set : ∀ {l : List Sub} {i : Nat} {u u' : Sub}, l[i]? = some u →
    sumM (l.set i u') + subM u = sumM l + subM u'
  | [], i, u, u', h => by simp at h
  | a :: l, 0, u, u', h => by
    simp at h; subst h
    simp [sumM]; omega
  | a :: l, i + 1, u, u', h => by
    simp at h
    have := sumM_set (u' := u') h
    simp [sumM] at this ⊢; omega

/-- `Close` has been called (pending or returned). -/
def closeCalled (s : State) : Prop := 0 < s.closeNew + s.closePre + s.closePost + s.closeReturned

/-- Every stalled subscriber whose forwarder is still around has had its context cancelled. -/
def stalledLeft (stalled : Nat → Bool) (s : State) : Prop :=
  ∀ (i : Nat) (u : Sub), s.subs[i]? = some u → stalled i = true → u.pc ≠ .done → u.cancelled = true

def Hyp (stalled : Nat → Bool) (s : State) : Prop := closeCalled s ∨ stalledLeft stalled s

/-- What a progress step leaves alone. -/
structure Frame (s s' : State) : Prop where
  len : s'.subs.length = s.subs.length
  waitB : s'.waitB = s.waitB
  waitS : s'.waitS = s.waitS
  retS : s'.retS = s.retS
  retB : ∀ x, x ∈ s.retB → x ∈ s'.retB
  closeSum : s'.closeNew + s'.closePre + s'.closePost + s'.closeReturned =
    s.closeNew + s.closePre + s.closePost + s.closeReturned
  closeW : 2 * s'.closeNew + s'.closePre ≤ 2 * s.closeNew + s.closePre
  closePost : s'.closePost = s.closePost
  closeRet : s'.closeReturned = s.closeReturned
  log : s'.log = s.log

theorem stalledLeft_set {stalled s k u u'} (h : stalledLeft stalled s) (hk : s.subs[k]? = some u)
    (hc : u.cancelled = true → u'.cancelled = true) (hd : u.pc = .done → u'.pc = .done)
    (s' : State) (hs : s'.subs = s.subs.set k u') : stalledLeft stalled s' := by
  intro i w hi hst hpc
  rw [hs] at hi
  rcases getElem?_set_cases hi with ⟨rfl, rfl⟩ | ⟨_, hi'⟩
  · exact hc (h i u hk hst (fun hdd => hpc (hd hdd)))
  · exact h i w hi' hst hpc

/-- How a progress step may change the fan-out. -/
def BcRel (s s' : State) : Prop :=
  s'.bc = s.bc ∨ (∃ e pc, s.bc = some (e, pc) ∧ s'.bc = some (e, pc + 1)) ∨
  (∃ e pc, s.bc = some (e, pc) ∧ s'.bc = none ∧ (e.ticket, true) ∈ s'.retB)

structure Prog (stalled : Nat → Bool) (s s' : State) : Prop where
  frame : Frame s s'
  hyp : Hyp stalled s'
  lt : nu s' < nu s
  bc : BcRel s s'

theorem hyp_of {stalled s s'} (hH : Hyp stalled s)
    (h1 : s'.closeNew + s'.closePre + s'.closePost + s'.closeReturned =
      s.closeNew + s.closePre + s.closePost + s.closeReturned)
    (h2 : stalledLeft stalled s → stalledLeft stalled s') : Hyp stalled s' := by
  rcases hH with h | h
  · left; simp only [closeCalled] at h ⊢; omega
  · right; exact h2 h

theorem prog_closeCas {stalled s} (hH : Hyp stalled s) (hn : 0 < s.closeNew)
    (hcl : s.closed = false) :
    ∃ s', step .fixed s .closeCas = some s' ∧ Prog stalled s s' := by
  refine ⟨{ s with closeNew := s.closeNew - 1, closePre := s.closePre + 1, closed := true }, ?_, ?_⟩
  · simp [step, closeCas, hn]
  · refine ⟨⟨rfl, rfl, rfl, rfl, fun _ h => h, ?_, ?_, rfl, rfl, rfl⟩, ?_, ?_, Or.inl rfl⟩
    · simp; omega
    · simp; omega
    · exact hyp_of hH (by simp; omega) (fun h => h)
    · simp [nu, nuC, nuF, hcl]

theorem prog_closeChClose {stalled s} (hH : Hyp stalled s) (hcl : s.closed = true)
    (hcc : s.closeCh = false) :
    ∃ s', step .fixed s .closeChClose = some s' ∧ Prog stalled s s' := by
  refine ⟨{ s with closeCh := true }, ?_, ?_⟩
  · simp [step, closeChClose, hcl, hcc]
  · refine ⟨⟨rfl, rfl, rfl, rfl, fun _ h => h, rfl, Nat.le_refl _, rfl, rfl, rfl⟩, ?_, ?_, Or.inl rfl⟩
    · exact hyp_of hH rfl (fun h => h)
    · simp [nu, nuC, nuF, hcc]

theorem prog_bcFinish {stalled s e pc} (hH : Hyp stalled s) (hbc : s.bc = some (e, pc))
    (hpc : s.subs.length ≤ pc) (hle : pc ≤ s.subs.length) :
    ∃ s', step .fixed s .bcFinish = some s' ∧ Prog stalled s s' := by
  refine ⟨{ s with bc := none, retB := s.retB ++ [(e.ticket, true)] }, ?_, ?_⟩
  · simp [step, bcFinish, hbc, hpc]
  · refine ⟨⟨rfl, rfl, rfl, rfl, ?_, rfl, Nat.le_refl _, rfl, rfl, rfl⟩, ?_, ?_, ?_⟩
    · intro x hx; simp; exact Or.inl hx
    · exact hyp_of hH rfl (fun h => h)
    · simp [nu, nuC, nuF, hbc]; omega
    · right; right; exact ⟨e, pc, hbc, rfl, by simp⟩

/-- Generic fan-out move: the subscriber at `pc` is replaced by `u'`, the fan-out advances. -/
theorem prog_fan {stalled s e pc u u'} (hH : Hyp stalled s) (hbc : s.bc = some (e, pc))
    (hu : s.subs[pc]? = some u) (hm : subM u' ≤ subM u + 2)
    (hc : u.cancelled = true → u'.cancelled = true) (hd : u.pc = .done → u'.pc = .done) :
    Prog stalled s { s with subs := s.subs.set pc u', bc := some (e, pc + 1) } := by
  have hlt := lt_of_getElem? hu
  refine ⟨⟨by simp, rfl, rfl, rfl, fun _ h => h, rfl, Nat.le_refl _, rfl, rfl, rfl⟩, ?_, ?_, ?_⟩
  · exact hyp_of hH rfl (fun h => stalledLeft_set h hu hc hd _ rfl)
  · have := sumM_set (u' := u') hu
    simp only [nu, nuC, nuF, hbc, List.length_set]
    omega
  · right; left; exact ⟨e, pc, hbc, rfl⟩

theorem prog_bcPush {stalled s e pc u} (hH : Hyp stalled s) (hbc : s.bc = some (e, pc))
    (hu : s.subs[pc]? = some u) (hin : u.inList = true) (hroom : u.buf.length < bufferSize) :
    ∃ s', step .fixed s .bcPush = some s' ∧ Prog stalled s s' := by
  refine ⟨_, ?_, prog_fan (u' := { u with buf := u.buf ++ [e] }) hH hbc hu ?_ (fun h => h) (fun h => h)⟩
  · simp [step, bcPush, hbc, hu, hin, hroom]
  · simp [subM]; omega

theorem prog_bcSkipExit {stalled s e pc u} (hH : Hyp stalled s) (hbc : s.bc = some (e, pc))
    (hu : s.subs[pc]? = some u) (hin : u.inList = true) (hex : u.exitClosed = true) :
    ∃ s', step .fixed s .bcSkipExit = some s' ∧ Prog stalled s s' := by
  refine ⟨_, ?_, prog_fan (u' := { u with missed := true }) hH hbc hu ?_ (fun h => h) (fun h => h)⟩
  · simp [step, bcSkipExit, hbc, hu, hin, hex]
  · simp [subM]

theorem prog_bcSkipClose {stalled s e pc u} (hH : Hyp stalled s) (hbc : s.bc = some (e, pc))
    (hu : s.subs[pc]? = some u) (hin : u.inList = true) (hcc : s.closeCh = true) :
    ∃ s', step .fixed s .bcSkipClose = some s' ∧ Prog stalled s s' := by
  refine ⟨_, ?_, prog_fan (u' := { u with missed := true }) hH hbc hu ?_ (fun h => h) (fun h => h)⟩
  · simp [step, bcSkipClose, hbc, hu, hin, hcc]
  · simp [subM]

theorem prog_bcSkipGone {stalled s e pc u} (hH : Hyp stalled s) (hbc : s.bc = some (e, pc))
    (hu : s.subs[pc]? = some u) (hin : u.inList = false) :
    ∃ s', step .fixed s .bcSkipGone = some s' ∧ Prog stalled s s' := by
  refine ⟨_, ?_, prog_fan (u' := { u with missed := true }) hH hbc hu ?_ (fun h => h) (fun h => h)⟩
  · simp [step, bcSkipGone, hbc, hu, hin]
  · simp [subM]

/-- Generic forwarder move on subscriber `i`: only that subscriber changes, its measure drops. -/
theorem prog_fwd {stalled s i u u'} (hH : Hyp stalled s) (hu : s.subs[i]? = some u)
    (hm : subM u' < subM u) (hc : u.cancelled = true → u'.cancelled = true)
    (hd : u.pc = .done → u'.pc = .done) : Prog stalled s (setSub s i u') := by
  refine ⟨⟨by simp [setSub], rfl, rfl, rfl, fun _ h => h, rfl, Nat.le_refl _, rfl, rfl, rfl⟩, ?_, ?_, Or.inl rfl⟩
  · exact hyp_of hH rfl (fun h => stalledLeft_set h hu hc hd _ rfl)
  · have := sumM_set (u' := u') hu
    have hF : nuF (setSub s i u') = nuF s := by simp only [nuF, setSub, List.length_set]
    have hC : nuC (setSub s i u') = nuC s := rfl
    simp only [nu, hF, hC]
    simp only [setSub]
    omega

theorem prog_fwdCloseExit {stalled s i u} (hH : Hyp stalled s) (hu : s.subs[i]? = some u)
    (hpc : u.pc = .exiting) :
    ∃ s', step .fixed s (.fwdCloseExit i) = some s' ∧ Prog stalled s s' := by
  refine ⟨_, ?_, prog_fwd (u' := { u with exitClosed := true, pc := .wantLock }) hH hu ?_ (fun h => h) ?_⟩
  · simp [step, fwdCloseExit, hu, hpc]
  · simp [subM, hpc, ew]
  · simp [hpc]

theorem prog_fwdExitCtx {stalled s i u} (hH : Hyp stalled s) (hu : s.subs[i]? = some u)
    (hl : inLoop u = true) (hca : u.cancelled = true) :
    ∃ s', step .fixed s (.fwdExitCtx i) = some s' ∧ Prog stalled s s' := by
  refine ⟨_, ?_, prog_fwd (u' := { u with pc := .exiting }) hH hu ?_ (fun h => h) ?_⟩
  · simp [step, fwdExitCtx, hu, hl, hca]
  · have : u.pc = .idle ∨ u.pc = .holding := by simpa [inLoop] using hl
    rcases this with h | h <;> simp [subM, h, ew]
  · have : u.pc = .idle ∨ u.pc = .holding := by simpa [inLoop] using hl
    rcases this with h | h <;> simp [h]

theorem prog_fwdExitClose {stalled s i u} (hH : Hyp stalled s) (hu : s.subs[i]? = some u)
    (hl : inLoop u = true) (hcc : s.closeCh = true) :
    ∃ s', step .fixed s (.fwdExitClose i) = some s' ∧ Prog stalled s s' := by
  refine ⟨_, ?_, prog_fwd (u' := { u with pc := .exiting }) hH hu ?_ (fun h => h) ?_⟩
  · simp [step, fwdExitClose, hu, hl, hcc]
  · have : u.pc = .idle ∨ u.pc = .holding := by simpa [inLoop] using hl
    rcases this with h | h <;> simp [subM, h, ew]
  · have : u.pc = .idle ∨ u.pc = .holding := by simpa [inLoop] using hl
    rcases this with h | h <;> simp [h]

theorem prog_fwdRemove {stalled s i u} (hH : Hyp stalled s) (hu : s.subs[i]? = some u)
    (hpc : u.pc = .wantLock) (hbc : s.bc = none) (hrt : removeTarget s u.id = some i) :
    ∃ s', step .fixed s (.fwdRemove i) = some s' ∧ Prog stalled s s' := by
  refine ⟨_, ?_, prog_fwd (u' := { u with inList := false, pc := .done }) hH hu ?_ (fun h => h) ?_⟩
  · simp [step, fwdRemove, hu, hpc, hbc, hrt]
  · simp [subM, hpc, ew]
  · simp

theorem prog_fwdDeliver {stalled s i u x} (hH : Hyp stalled s) (hu : s.subs[i]? = some u)
    (hpc : u.pc = .holding) (hh : u.hand = some x) :
    ∃ s', step .fixed s (.fwdDeliver i) = some s' ∧ Prog stalled s s' := by
  refine ⟨_, ?_, prog_fwd (u' := { u with delivered := u.delivered ++ [x], hand := none, pc := .idle })
    hH hu ?_ (fun h => h) ?_⟩
  · simp [step, fwdDeliver, hu, hpc, hh]
  · simp [subM, hpc, ew]
  · simp [hpc]

theorem prog_fwdTake {stalled s i u x rest} (hH : Hyp stalled s) (hu : s.subs[i]? = some u)
    (hpc : u.pc = .idle) (hb : u.buf = x :: rest) :
    ∃ s', step .fixed s (.fwdTake i) = some s' ∧ Prog stalled s s' := by
  refine ⟨_, ?_, prog_fwd (u' := { u with hand := some x, buf := rest, pc := .holding })
    hH hu ?_ (fun h => h) ?_⟩
  · simp [step, fwdTake, hu, hpc, hb]
  · simp [subM, hpc, hb, ew]; omega
  · simp [hpc]

theorem allowed_internal {stalled : Nat → Bool} {l : Label} (h : l.internal = true) :
    allowed stalled l := Or.inl h

/-- While a fan-out holds the lock and either `Close` has been called or every stalled subscriber
has left, some permitted step makes progress. -/
theorem fan_progress (stalled : Nat → Bool) {s : State} {e : Entry} {pc : Nat}
    (hr : Reach .fixed s) (hbc : s.bc = some (e, pc)) (hH : Hyp stalled s) :
    ∃ l s', allowed stalled l ∧ step .fixed s l = some s' ∧ Prog stalled s s' := by
  have hw := wf_reach s hr
  have hci := cinv_reach s hr
  by_cases hcalled : closeCalled s ∧ s.closeCh = false
  · obtain ⟨hca, hcc⟩ := hcalled
    cases hcl : s.closed with
    | false =>
      have hn : 0 < s.closeNew := by
        have := hci.post_closed
        simp only [closeCalled] at hca
        by_cases h0 : 0 < s.closePre + s.closePost + s.closeReturned
        · have := this h0; simp [hcl] at this
        · omega
      obtain ⟨s', h1, h2⟩ := prog_closeCas hH hn hcl
      exact ⟨_, s', allowed_internal rfl, h1, h2⟩
    | true =>
      obtain ⟨s', h1, h2⟩ := prog_closeChClose hH hcl hcc
      exact ⟨_, s', allowed_internal rfl, h1, h2⟩
  · by_cases hlen : s.subs.length ≤ pc
    · obtain ⟨s', h1, h2⟩ := prog_bcFinish hH hbc hlen (hw.bcPc e pc hbc)
      exact ⟨_, s', allowed_internal rfl, h1, h2⟩
    · have hlt : pc < s.subs.length := by omega
      have hu : s.subs[pc]? = some s.subs[pc] := List.getElem?_eq_getElem hlt
      generalize s.subs[pc] = u at hu
      have hsw := hw.subs pc u hu
      cases hin : u.inList with
      | false =>
        obtain ⟨s', h1, h2⟩ := prog_bcSkipGone hH hbc hu hin
        exact ⟨_, s', allowed_internal rfl, h1, h2⟩
      | true =>
        cases hcc : s.closeCh with
        | true =>
          obtain ⟨s', h1, h2⟩ := prog_bcSkipClose hH hbc hu hin hcc
          exact ⟨_, s', allowed_internal rfl, h1, h2⟩
        | false =>
          have hleft : stalledLeft stalled s := by
            rcases hH with h | h
            · exact absurd ⟨h, hcc⟩ hcalled
            · exact h
          by_cases hroom : u.buf.length < bufferSize
          · obtain ⟨s', h1, h2⟩ := prog_bcPush hH hbc hu hin hroom
            exact ⟨_, s', allowed_internal rfl, h1, h2⟩
          · cases hex : u.exitClosed with
            | true =>
              obtain ⟨s', h1, h2⟩ := prog_bcSkipExit hH hbc hu hin hex
              exact ⟨_, s', allowed_internal rfl, h1, h2⟩
            | false =>
              have hne : ¬ (u.pc = .wantLock ∨ u.pc = .done) := by
                intro h; have := hsw.exitPc.mpr h; simp [hex] at this
              cases hp : u.pc with
              | wantLock => exact absurd (Or.inl hp) hne
              | done => exact absurd (Or.inr hp) hne
              | exiting =>
                obtain ⟨s', h1, h2⟩ := prog_fwdCloseExit (i := pc) hH hu hp
                exact ⟨_, s', allowed_internal rfl, h1, h2⟩
              | idle =>
                cases hst : stalled pc with
                | true =>
                  have hca := hleft pc u hu hst (by simp [hp])
                  obtain ⟨s', h1, h2⟩ := prog_fwdExitCtx (i := pc) hH hu (by simp [inLoop, hp]) hca
                  exact ⟨_, s', allowed_internal rfl, h1, h2⟩
                | false =>
                  cases hb : u.buf with
                  | nil => simp [hb, bufferSize, Kit.Generated.C11.bufferSize] at hroom
                  | cons x rest =>
                    obtain ⟨s', h1, h2⟩ := prog_fwdTake (i := pc) hH hu hp hb
                    exact ⟨_, s', allowed_internal rfl, h1, h2⟩
              | holding =>
                cases hst : stalled pc with
                | true =>
                  have hca := hleft pc u hu hst (by simp [hp])
                  obtain ⟨s', h1, h2⟩ := prog_fwdExitCtx (i := pc) hH hu (by simp [inLoop, hp]) hca
                  exact ⟨_, s', allowed_internal rfl, h1, h2⟩
                | false =>
                  have hh := hsw.holding hp
                  cases hx : u.hand with
                  | none => simp [hx] at hh
                  | some x =>
                    obtain ⟨s', h1, h2⟩ := prog_fwdDeliver (i := pc) hH hu hp hx
                    exact ⟨_, s', Or.inr ⟨pc, rfl, hst⟩, h1, h2⟩

theorem Frame.refl (s : State) : Frame s s :=
  ⟨rfl, rfl, rfl, rfl, fun _ h => h, rfl, Nat.le_refl _, rfl, rfl, rfl⟩

theorem Frame.trans {a b c : State} (h1 : Frame a b) (h2 : Frame b c) : Frame a c :=
  ⟨h2.len.trans h1.len, h2.waitB.trans h1.waitB, h2.waitS.trans h1.waitS, h2.retS.trans h1.retS,
   fun x hx => h2.retB x (h1.retB x hx), h2.closeSum.trans h1.closeSum,
   Nat.le_trans h2.closeW h1.closeW, h2.closePost.trans h1.closePost,
   h2.closeRet.trans h1.closeRet, h2.log.trans h1.log⟩

/-- The lock can always be released: from any reachable state in which `Close` has been called or
every stalled subscriber has left, permitted steps lead to a state where no fan-out holds the lock
(and the Broadcast that held it has finished). -/
theorem drain_lock (stalled : Nat → Bool) {s0 : State} (hr : Reach .fixed s0)
    (hH : Hyp stalled s0) :
    ∃ s', Path .fixed (allowed stalled) s0 s' ∧ Reach .fixed s' ∧ Hyp stalled s' ∧ Frame s0 s' ∧
      s'.bc = none ∧ (∀ e pc, s0.bc = some (e, pc) → (e.ticket, true) ∈ s'.retB) := by
  let Good : State → Prop := fun s => Reach .fixed s ∧ Hyp stalled s ∧ Frame s0 s ∧
    (s.bc = s0.bc ∨ (∃ e pc pc', s0.bc = some (e, pc) ∧ s.bc = some (e, pc')) ∨
     (s.bc = none ∧ ∀ e pc, s0.bc = some (e, pc) → (e.ticket, true) ∈ s.retB))
  have key := path_of_measure (v := .fixed) (ok := allowed stalled) Good (fun s => s.bc = none) nu
    (by
      intro s ⟨hr, hH, hf, hb⟩ hnt
      cases hbc : s.bc with
      | none => exact absurd hbc hnt
      | some p =>
        obtain ⟨e, pc⟩ := p
        obtain ⟨l, s', hl, hs, hp⟩ := fan_progress stalled hr hbc hH
        refine ⟨l, s', hl, hs, ⟨Reach.step l hr hs, hp.hyp, hf.trans hp.frame, ?_⟩, hp.lt⟩
        have h0 : ∃ pc0, s0.bc = some (e, pc0) := by
          rcases hb with h | ⟨e', p0, p1, h1, h2⟩ | ⟨h, _⟩
          · exact ⟨pc, by rw [← h, hbc]⟩
          · rw [hbc] at h2; simp at h2; exact ⟨p0, by rw [h1, h2.1]⟩
          · rw [hbc] at h; simp at h
        obtain ⟨pc0, h0⟩ := h0
        rcases hp.bc with h | ⟨e', p', h1, h2⟩ | ⟨e', p', h1, h2, h3⟩
        · right; left; exact ⟨e, pc0, pc, h0, by rw [h, hbc]⟩
        · rw [hbc] at h1; simp at h1
          right; left; exact ⟨e, pc0, p' + 1, h0, by rw [h2, h1.1]⟩
        · rw [hbc] at h1; simp at h1
          right; right
          refine ⟨h2, ?_⟩
          intro e2 pc2 h4
          rw [h0] at h4; simp at h4
          rw [← h4.1, h1.1]; exact h3)
  obtain ⟨s', hp, ⟨hr', hH', hf', hb'⟩, ht⟩ := key s0 ⟨hr, hH, Frame.refl _, Or.inl rfl⟩
  refine ⟨s', hp, hr', hH', hf', ht, ?_⟩
  intro e pc h0
  rcases hb' with h | ⟨e', p0, p1, _, h2⟩ | ⟨_, h⟩
  · rw [ht] at h; rw [h0] at h; simp at h
  · rw [ht] at h2; simp at h2
  · exact h e pc h0

theorem internal_of_allowed_all {l : Label} (h : allowed (fun _ => true) l) : l.internal = true := by
  rcases h with h | ⟨i, _, h⟩
  · exact h
  · simp at h

theorem Prog.bc_none {stalled s s'} (h : Prog stalled s s') (hbc : s.bc = none) : s'.bc = none := by
  rcases h.bc with h | ⟨_, _, h, _⟩ | ⟨_, _, h, _⟩
  · rw [h, hbc]
  · rw [hbc] at h; simp at h
  · rw [hbc] at h; simp at h

def closePending (s : State) : Prop := 0 < s.closeNew + s.closePre + s.closePost

/-- With the lock free and a `Close` pending, internal steps lead to the point where `Close`
returns: CAS, close(closeCh), every forwarder exits and removes itself, `Close` passes the lock. -/
theorem close_phase2 {s0 : State} (hr : Reach .fixed s0) (hbc : s0.bc = none)
    (hp : closePending s0) :
    ∃ s', Path .fixed (fun l => l.internal = true) s0 s' ∧ Reach .fixed s' ∧
      (step .fixed s' .closeReturn).isSome = true := by
  let stalled : Nat → Bool := fun _ => true
  let Good : State → Prop := fun s => Reach .fixed s ∧ s.bc = none ∧ closePending s
  have key := path_of_measure (v := .fixed) (ok := fun l => l.internal = true) Good
    (fun s => (step .fixed s .closeReturn).isSome = true)
    (fun s => nu s + 2 * s.closeNew + s.closePre)
    (by
      intro s ⟨hr, hbc, hp⟩ hnt
      have hci := cinv_reach s hr
      have hH : Hyp stalled s := Or.inl (by simp only [closeCalled]; simp only [closePending] at hp; omega)
      -- what a `Prog` step gives
      have fromProg : ∀ l s', l.internal = true → step .fixed s l = some s' → Prog stalled s s' →
          ∃ l s', l.internal = true ∧ step .fixed s l = some s' ∧ Good s' ∧
            nu s' + 2 * s'.closeNew + s'.closePre < nu s + 2 * s.closeNew + s.closePre := by
        intro l s' hl hs hpr
        refine ⟨l, s', hl, hs, ⟨Reach.step l hr hs, hpr.bc_none hbc, ?_⟩, ?_⟩
        · have h1 := hpr.frame.closeSum; have h2 := hpr.frame.closeRet
          simp only [closePending] at hp ⊢; omega
        · have h1 := hpr.lt; have h2 := hpr.frame.closeW; omega
      by_cases hn : 0 < s.closeNew
      · refine ⟨.closeCas, { s with closeNew := s.closeNew - 1, closePre := s.closePre + 1, closed := true },
          rfl, by simp [step, closeCas, hn], ⟨?_, hbc, ?_⟩, ?_⟩
        · exact Reach.step .closeCas hr (by simp [step, closeCas, hn])
        · simp only [closePending]; omega
        · have h1 : nu { s with closeNew := s.closeNew - 1, closePre := s.closePre + 1, closed := true }
              ≤ nu s := by
            simp only [nu, nuC, nuF]
            cases s.closed <;> simp
          show nu _ + 2 * (s.closeNew - 1) + (s.closePre + 1) < _
          omega
      · have hcl : s.closed = true := hci.post_closed (by simp only [closePending] at hp; omega)
        cases hcc : s.closeCh with
        | false =>
          obtain ⟨s', h1, h2⟩ := prog_closeChClose hH hcl hcc
          exact fromProg _ s' rfl h1 h2
        | true =>
          by_cases hd : AllDone s
          · by_cases hpost : 0 < s.closePost
            · exfalso; apply hnt
              have : allDone s = true := (allDone_iff s).mpr hd
              simp [step, closeReturn, hpost, this]
            · have hpre : 0 < s.closePre := by simp only [closePending] at hp; omega
              refine ⟨.closePass, { s with closePre := s.closePre - 1, closePost := s.closePost + 1 },
                rfl, by simp [step, closePass, hbc, hpre, hcc], ⟨?_, hbc, ?_⟩, ?_⟩
              · exact Reach.step .closePass hr (by simp [step, closePass, hbc, hpre, hcc])
              · simp only [closePending]; omega
              · simp only [nu, nuC, nuF]; omega
          · simp only [AllDone] at hd
            obtain ⟨i, hd⟩ := Classical.not_forall.mp hd
            obtain ⟨u, hd⟩ := Classical.not_forall.mp hd
            obtain ⟨hu, hpc⟩ := Classical.not_imp.mp hd
            cases hp' : u.pc with
            | done => exact absurd hp' hpc
            | idle =>
              obtain ⟨s', h1, h2⟩ := prog_fwdExitClose (i := i) hH hu (by simp [inLoop, hp']) hcc
              exact fromProg _ s' rfl h1 h2
            | holding =>
              obtain ⟨s', h1, h2⟩ := prog_fwdExitClose (i := i) hH hu (by simp [inLoop, hp']) hcc
              exact fromProg _ s' rfl h1 h2
            | exiting =>
              obtain ⟨s', h1, h2⟩ := prog_fwdCloseExit (i := i) hH hu hp'
              exact fromProg _ s' rfl h1 h2
            | wantLock =>
              have hwf := (wf_reach s hr).subs i u hu
              have hin : u.inList = true := by
                cases h : u.inList with
                | true => rfl
                | false => have := hwf.listPc.mp h; simp [hp'] at this
              obtain ⟨s', h1, h2⟩ := prog_fwdRemove (i := i) hH hu hp' hbc
                (removeTarget_eq (idinv_reach s hr) hu hin)
              exact fromProg _ s' rfl h1 h2)
  obtain ⟨s', hpath, ⟨hr', _, _⟩, ht⟩ := key s0 ⟨hr, hbc, hp⟩
  exact ⟨s', hpath, hr', ht⟩

theorem Path.preserve {v : Variant} {ok : Label → Prop} (Q : State → Prop)
    (hQ : ∀ s l s', Reach v s → Q s → ok l → step v s l = some s' → Q s') {a b : State}
    (p : Path v ok a b) (hr : Reach v a) (ha : Q a) : Q b := by
  induction p with
  | refl => exact ha
  | cons l hl hs _ ih => exact ih (Reach.step l hr hs) (hQ _ l _ hr ha hl hs)

/-- Subscriber `i` is subscribed and stays so: its forwarder is in its loop, its context is not
cancelled, no Broadcast has skipped it, and nobody has called `Close`. -/
def Live (i : Nat) (s : State) : Prop :=
  s.closeNew + s.closePre + s.closePost + s.closeReturned = 0 ∧ s.closed = false ∧
  s.closeCh = false ∧
  ∃ u, s.subs[i]? = some u ∧ inLoop u = true ∧ u.cancelled = false ∧ u.missed = false

theorem live_set {s : State} {i k : Nat} {u uk u' : Sub} (hu : s.subs[i]? = some u)
    (hk : s.subs[k]? = some uk) (hlp : inLoop u = true) (hca : u.cancelled = false)
    (hm : u.missed = false)
    (hkeep : uk = u → inLoop u' = true ∧ u'.cancelled = false ∧ u'.missed = false) :
    ∃ w, (s.subs.set k u')[i]? = some w ∧ inLoop w = true ∧ w.cancelled = false ∧ w.missed = false := by
  by_cases hki : k = i
  · subst hki
    have : uk = u := by rw [hu] at hk; exact (Option.some.inj hk).symm
    obtain ⟨a, b, c⟩ := hkeep this
    exact ⟨u', by simp [List.getElem?_set, lt_of_getElem? hu], a, b, c⟩
  · exact ⟨u, by simp [List.getElem?_set, hki, hu], hlp, hca, hm⟩

theorem live_step (stalled : Nat → Bool) {i : Nat} {s s' : State} {l : Label}
    (hr : Reach .fixed s) (hq : Live i s) (hl : allowed stalled l)
    (hs : step .fixed s l = some s') : Live i s' := by
  have hw := wf_reach s hr
  have hid := idinv_reach s hr
  obtain ⟨h0, hcl, hcc, u, hu, hlp, hca, hm⟩ := hq
  have hsw := hw.subs i u hu
  have hpc : u.pc = .idle ∨ u.pc = .holding := by simpa [inLoop] using hlp
  have hex : u.exitClosed = false := by
    cases h : u.exitClosed with
    | false => rfl
    | true => have := hsw.exitPc.mp h; rcases hpc with a | a <;> simp [a] at this
  have hin : u.inList = true := by
    cases h : u.inList with
    | true => rfl
    | false => have := hsw.listPc.mp h; rcases hpc with a | a <;> simp [a] at this
  have hint : l.internal = true ∨ ∃ j, l = .fwdDeliver j := by
    rcases hl with h | ⟨j, h, _⟩
    · exact Or.inl h
    · exact Or.inr ⟨j, h⟩
  cases l
  case fwdRemove k =>
    obtain ⟨uk, huk, hpk, _, rfl⟩ := fwdRemove_spec hw hid (by simpa [step] using hs)
    refine ⟨h0, hcl, hcc, ?_⟩
    apply live_set hu huk hlp hca hm
    intro e; subst e; rcases hpc with a | a <;> simp [a] at hpk
  case subAcquire k j =>
    unfold_step hs
    split at hs
    · split at hs
      · split at hs <;> simp at hs
        subst hs; exact ⟨h0, hcl, hcc, u, hu, hlp, hca, hm⟩
      · split at hs
        · simp at hs; subst hs
          exact ⟨h0, hcl, hcc, u, by simp [List.getElem?_append_left (lt_of_getElem? hu), hu], hlp, hca, hm⟩
        · split at hs <;> simp at hs
          next hg => omega
    · simp at hs
  all_goals
    simp [Label.internal] at hint <;> unfold_step hs <;> (repeat' split at hs) <;>
    (try simp at hs) <;> (try subst hs)
  all_goals first
    | (exfalso; omega)
    | (exact ⟨by simpa using h0, by simpa using hcl, by simpa using hcc, u, by simpa using hu, hlp, hca, hm⟩)
    | (refine ⟨by simpa using h0, by simpa using hcl, by simpa using hcc, ?_⟩
       apply live_set hu (by assumption) hlp hca hm
       intro e; subst e
       simp_all [inLoop])
    | (simp_all; done)


end Kit.Broadcaster
