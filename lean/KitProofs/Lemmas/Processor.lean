import KitModel.Processor
/-!
Helper lemmas for property C06: membership laws of the queue specification and the inductive
invariants of the repaired (`fixed = true`) processor LTS.
-/
namespace Kit.Processor
open Kit.Queue

set_option linter.unusedSectionVars false

variable {κ ν : Type} [DecidableEq κ] [DecidableEq ν]

/-! ### queue specification -/

@[simp, grind =] theorem mem_remove {q : List (Item κ ν)} {k : κ} {x : Item κ ν} :
    x ∈ remove q k ↔ x ∈ q ∧ x.key ≠ k := by
  simp [remove]

@[simp, grind =] theorem mem_insert {q : List (Item κ ν)} {r x : Item κ ν} :
    x ∈ insert q r ↔ x = r ∨ (x ∈ q ∧ x.key ≠ r.key) := by
  simp [Queue.insert]

@[simp, grind =] theorem mem_pop {q : List (Item κ ν)} {r x : Item κ ν} :
    x ∈ pop q r ↔ x ∈ q ∧ x ≠ r := by
  simp [pop]

theorem lookup_some {q : List (Item κ ν)} {k : κ} {o : Item κ ν} (h : lookup q k = some o) :
    o ∈ q ∧ o.key = k := by
  unfold lookup at h
  have h1 := List.mem_of_find?_eq_some h
  have h2 := List.find?_some h
  simp at h2
  exact ⟨h1, h2⟩

theorem tok3 (t : Token) : t = .free ∨ t = .loop ∨ t = .close := by cases t <;> simp


/-! ### control invariants: who holds the token, where Close is -/

def InvA (s : State κ ν) : Prop :=
  (s.token = .loop ↔ s.pc ≠ .absent) ∧
  (s.token = .close ↔ (s.cpc = .tokenTaken ∨ s.cpc = .returned)) ∧
  (s.stopped = false ↔ s.cpc = .idle) ∧
  (s.stopClosed = true ↔ (s.cpc = .chClosed ∨ s.cpc = .tokenTaken ∨ s.cpc = .returned)) ∧
  (s.pc = .exiting → s.stopClosed = true)

/-- Case analysis of one step: after this tactic every goal has the successor state substituted. -/
syntax "step_cases " ident : tactic
macro_rules
  | `(tactic| step_cases $h) => `(tactic|
      (simp only [step] at $h:ident <;> (try split at $h:ident) <;> (try split at $h:ident) <;> (try split at $h:ident) <;>
       (try (simp only [Option.some.injEq, reduceCtorEq] at $h:ident)) <;> (try subst $h:ident) <;> (try contradiction) <;>
       (try (simp only [↓reduceIte, Option.some.injEq] at $h:ident; subst $h:ident))))

/-- Closing tactic for invariant-preservation goals. -/
macro "auto_inv" : tactic =>
  `(tactic| (first | grind | (simp_all [IsHead, IsMin]; done) | (simp_all [IsHead, IsMin]; grind)))

theorem invA_step {s s' : State κ ν} {a : Label κ ν} (h : InvA s)
    (hst : step fixedCfg s a = some s') : InvA s' := by
  unfold InvA at *
  cases a <;> step_cases hst <;> (try (simp only [process]; split)) <;> grind

theorem invA {s : State κ ν} (hr : Reach (lts fixedCfg) s) : InvA s := by
  induction hr with
  | init => simp [InvA, lts, init]
  | step a _ hst ih => exact invA_step ih hst

/-! ### the loop will look again: `served` and `covers` -/

/-- The loop's pending wake-up for `r` is not later than any live item, or a reset is buffered. -/
def Covers (s : State κ ν) (r : Item κ ν) : Prop :=
  s.reset = true ∨ ∀ x ∈ s.q, r.time ≤ x.time

def InvB (s : State κ ν) : Prop :=
  (s.stopped = false → ∀ x ∈ s.q, s.pc ≠ .absent) ∧
  (∀ r, (s.pc = .peeked r ∨ s.pc = .polled r ∨ s.pc = .arming r ∨ s.pc = .armed r) → Covers s r)

theorem invB_step {s s' : State κ ν} {a : Label κ ν} (hA : InvA s) (h : InvB s)
    (hst : step fixedCfg s a = some s') : InvB s' := by
  unfold InvB Covers at *
  unfold InvA at hA
  have ht := tok3 s.token
  cases a <;> step_cases hst
  case enqueue k t v first hg =>
    unfold enqGuard at hg
    simp only [process]
    split <;> cases first <;> simp_all <;> grind
  case dequeue k first hg =>
    simp only [process]
    split <;> (try split) <;> simp_all <;> grind
  all_goals (first | grind | (simp_all [IsHead, IsMin]; done) | (simp_all [IsHead, IsMin]; grind))

theorem invB {s : State κ ν} (hr : Reach (lts fixedCfg) s) : InvB s := by
  induction hr with
  | init => simp [InvB, lts, init]
  | step a hr hst ih => exact invB_step (invA hr) ih hst

/-! ### the timer: late by exactly the clock time between `Now()` and `NewTimer()`, never early -/

def InvT (s : State κ ν) : Prop :=
  0 ≤ s.now ∧
  (∀ r, s.pc = .arming r → s.timer = satDur (r.time - s.readAt) ∧ 0 ≤ s.readAt ∧ s.readAt ≤ s.now ∧
    halfMs ≤ r.time - s.readAt) ∧
  (∀ r, s.pc = .armed r → s.timer = s.armAt + satDur (r.time - s.readAt) ∧ 0 ≤ s.readAt ∧
    s.readAt ≤ s.armAt ∧ s.armAt ≤ s.now ∧ halfMs ≤ r.time - s.readAt)

theorem satDur_cases (d : Int) : (d ≤ maxDur ∧ minDur ≤ d ∧ satDur d = d) ∨ (maxDur < d ∧ satDur d = maxDur) ∨
    (d < minDur ∧ satDur d = minDur) := by
  unfold satDur
  split
  · exact Or.inr (Or.inl ⟨by assumption, rfl⟩)
  · split
    · exact Or.inr (Or.inr ⟨by assumption, rfl⟩)
    · exact Or.inl ⟨by omega, by omega, rfl⟩

theorem invT_step {s s' : State κ ν} {a : Label κ ν} (h : InvT s)
    (hst : step fixedCfg s a = some s') : InvT s' := by
  unfold InvT at *
  cases a <;> step_cases hst <;> (try (simp only [process]; split)) <;> (try split) <;>
    (first | grind | (simp_all; done) | (simp_all; grind) |
      (rename_i r _ hnd; have := satDur_cases (r.time - s.now); simp_all [halfMs, Kit.Generated.C06.runNowMarginNs, maxDur, minDur]; grind))

theorem invT {s : State κ ν} (hr : Reach (lts fixedCfg) s) : InvT s := by
  induction hr with
  | init => simp [InvT, lts, init]
  | step a _ hst ih => exact invT_step ih hst

/-! ### timing: an item on its way to the callback is due (within the half-millisecond margin) -/

def InvC (s : State κ ν) : Prop :=
  ∀ r, (s.pc = .firing r ∨ s.pc = .popped r) → r.time - halfMs < s.now ∨ maxDur ≤ s.now

theorem invC_step {s s' : State κ ν} {a : Label κ ν} (hT : InvT s) (h : InvC s)
    (hst : step fixedCfg s a = some s') : InvC s' := by
  unfold InvC at *
  unfold InvT at hT
  have hsat := fun d : Int => satDur_cases d
  have hmax : (maxDur : Int) = 9223372036854775807 := rfl
  have hmin : (minDur : Int) = -9223372036854775808 := rfl
  cases a <;> step_cases hst <;> (try (simp only [process]; split)) <;> (try split) <;>
    (first | grind | (simp_all [halfMs, Kit.Generated.C06.runNowMarginNs]; grind))

theorem invC {s : State κ ν} (hr : Reach (lts fixedCfg) s) : InvC s := by
  induction hr with
  | init => simp [InvC, lts, init]
  | step a hr hst ih => exact invC_step (invT hr) ih hst

/-! ### the ghost history describes the queue -/

def InvD (s : State κ ν) : Prop := live s.log = s.q

theorem invD_step {s s' : State κ ν} {a : Label κ ν} (h : InvD s)
    (hst : step fixedCfg s a = some s') : InvD s' := by
  unfold InvD at *
  cases a <;> step_cases hst <;> (try (simp only [process]; split)) <;> (try split) <;>
    simp_all [live]

theorem invD {s : State κ ν} (hr : Reach (lts fixedCfg) s) : InvD s := by
  induction hr with
  | init => simp [InvD, lts, init, live]
  | step a _ hst ih => exact invD_step ih hst

/-! ### identities are fresh; a popped item never comes back; callbacks follow pops -/

def InvE (s : State κ ν) : Prop :=
  (∀ r ∈ s.q, r.id < s.nextId) ∧ (∀ r, Event.pop r ∈ s.log → r.id < s.nextId) ∧
  (∀ r, Event.enq r ∈ s.log → r.id < s.nextId)

theorem invE_step {s s' : State κ ν} {a : Label κ ν} (h : InvE s)
    (hst : step fixedCfg s a = some s') : InvE s' := by
  unfold InvE at *
  cases a <;> step_cases hst <;> (try (simp only [process]; split)) <;> (try split) <;>
    auto_inv

theorem invE {s : State κ ν} (hr : Reach (lts fixedCfg) s) : InvE s := by
  induction hr with
  | init => simp [InvE, lts, init]
  | step a _ hst ih => exact invE_step ih hst

def InvF (s : State κ ν) : Prop :=
  (∀ r, s.pc = .popped r → Event.pop r ∈ s.log ∧ ∀ n, Event.exec r n ∉ s.log) ∧
  (∀ r n, Event.exec r n ∈ s.log → Event.pop r ∈ s.log) ∧
  (∀ r, Event.pop r ∈ s.log → r ∉ s.q)

theorem invF_step {s s' : State κ ν} {a : Label κ ν} (hE : InvE s) (h : InvF s)
    (hst : step fixedCfg s a = some s') : InvF s' := by
  unfold InvF at *
  unfold InvE at hE
  cases a <;> step_cases hst <;> (try (simp only [process]; split)) <;> (try split) <;>
    auto_inv

theorem invF {s : State κ ν} (hr : Reach (lts fixedCfg) s) : InvF s := by
  induction hr with
  | init => simp [InvF, lts, init]
  | step a hr hst ih => exact invF_step (invE hr) ih hst

def InvG (s : State κ ν) : Prop := Event.closeRet ∈ s.log → s.token = .close

theorem invG_step {s s' : State κ ν} {a : Label κ ν} (hA : InvA s) (h : InvG s)
    (hst : step fixedCfg s a = some s') : InvG s' := by
  unfold InvG at *
  unfold InvA at hA
  cases a <;> step_cases hst <;> (try (simp only [process]; split)) <;> (try split) <;> grind

theorem invG {s : State κ ν} (hr : Reach (lts fixedCfg) s) : InvG s := by
  induction hr with
  | init => simp [InvG, lts, init]
  | step a hr hst ih => exact invG_step (invA hr) ih hst

/-! ### the history is well formed: every pop and every callback was legitimate when it happened -/

/-- What must hold of an event given the history before it. -/
def EvOK (e : Event κ ν) (l : List (Event κ ν)) : Prop :=
  match e with
  | .pop r => IsMin (live l) r ∧ Event.pop r ∉ l ∧ Event.closeRet ∉ l
  | .exec r n => (r.time - halfMs < n ∨ maxDur ≤ n) ∧ Event.pop r ∈ l ∧ (∀ m, Event.exec r m ∉ l) ∧ Event.closeRet ∉ l
  | .enq r => ∀ r', Event.enq r' ∈ l → r'.id < r.id
  | _ => True

def LogOK : List (Event κ ν) → Prop
  | [] => True
  | e :: l => EvOK e l ∧ LogOK l

theorem logOK_step {s s' : State κ ν} {a : Label κ ν} (hA : InvA s) (hC : InvC s) (hD : InvD s) (hE : InvE s)
    (hF : InvF s) (hG : InvG s) (h : LogOK s.log)
    (hst : step fixedCfg s a = some s') : LogOK s'.log := by
  unfold InvA at hA; unfold InvC at hC; unfold InvD at hD; unfold InvF at hF; unfold InvG at hG
  unfold InvE at hE
  have ht := tok3 s.token
  cases a <;> step_cases hst <;> (try (simp only [process]; split)) <;> (try split) <;>
    (first | exact h | (simp_all [LogOK, EvOK, IsHead, IsMin]; done) | (simp_all [LogOK, EvOK, IsHead, IsMin]; grind))

theorem logOK {s : State κ ν} (hr : Reach (lts fixedCfg) s) : LogOK s.log := by
  induction hr with
  | init => simp [LogOK, lts, init]
  | step a hr hst ih => exact logOK_step (invA hr) (invC hr) (invD hr) (invE hr) (invF hr) (invG hr) ih hst

/-- Split form of `LogOK`: every event of the history was legitimate given what preceded it. -/
theorem logOK_split {l : List (Event κ ν)} (h : LogOK l) {post pre : List (Event κ ν)} {e : Event κ ν}
    (hl : l = post ++ e :: pre) : EvOK e pre := by
  induction post generalizing l with
  | nil => subst hl; exact h.1
  | cons x post ih => subst hl; exact ih h.2 rfl

theorem logOK_suffix {a b : List (Event κ ν)} (h : LogOK (a ++ b)) : LogOK b := by
  induction a with
  | nil => exact h
  | cons x a ih => exact ih h.2

/-- Live items were enqueued. -/
theorem enq_of_live {l : List (Event κ ν)} {x : Item κ ν} (h : x ∈ live l) : Event.enq x ∈ l := by
  induction l with
  | nil => simp [live] at h
  | cons e l ih =>
    cases e <;> simp only [live] at h <;> grind

/-- An item that was enqueued and is no longer live never becomes live again. -/
theorem dead_stays_dead {p pre : List (Event κ ν)} {r : Item κ ν} (hok : LogOK (p ++ pre))
    (henq : Event.enq r ∈ pre) (hdead : r ∉ live pre) : r ∉ live (p ++ pre) := by
  induction p with
  | nil => exact hdead
  | cons e p ih =>
    have hok' : LogOK (e :: (p ++ pre)) := hok
    have ih := ih hok'.2
    have hev : EvOK e (p ++ pre) := hok'.1
    cases e <;> simp only [List.cons_append, live] <;> simp only [EvOK] at hev <;> grind

/-- Keys are unique in the queue (one item per key). -/
def InvK (s : State κ ν) : Prop := s.q.Pairwise (fun x y => x.key ≠ y.key)

theorem invK_step {s s' : State κ ν} {a : Label κ ν} (h : InvK s)
    (hst : step fixedCfg s a = some s') : InvK s' := by
  unfold InvK at *
  have hf : ∀ p : Item κ ν → Bool, (s.q.filter p).Pairwise (fun x y => x.key ≠ y.key) :=
    fun p => List.Pairwise.sublist List.filter_sublist h
  have hi : ∀ r : Item κ ν, (Queue.insert s.q r).Pairwise (fun x y => x.key ≠ y.key) := by
    intro r
    simp only [Queue.insert, List.pairwise_cons]
    refine ⟨?_, hf _⟩
    intro x hx
    have := (mem_remove.mp hx).2
    exact fun e => this e.symm
  cases a <;> step_cases hst <;> (try (simp only [process]; split)) <;> (try split) <;>
    (first | exact h | exact hf _ | exact hi _)

theorem invK {s : State κ ν} (hr : Reach (lts fixedCfg) s) : InvK s := by
  induction hr with
  | init => simp [InvK, lts, init]
  | step a _ hst ih => exact invK_step ih hst

/-! ### the remembered root is a head, and it is the item the loop is working on -/

def InvR (s : State κ ν) : Prop :=
  (∀ h, s.root = some h → IsMin s.q h) ∧
  (∀ r h, (s.pc = .peeked r ∨ s.pc = .polled r ∨ s.pc = .arming r ∨ s.pc = .armed r ∨ s.pc = .firing r) →
    s.root = some h → h = r)

theorem invR_step {s s' : State κ ν} {a : Label κ ν} (h : InvR s)
    (hst : step fixedCfg s a = some s') : InvR s' := by
  unfold InvR at *
  cases a <;> step_cases hst <;> (try (simp only [process]; split)) <;> (try split) <;>
    (first | grind | (simp_all [IsHead]; done) | (simp_all [IsHead]; grind))

theorem invR {s : State κ ν} (hr : Reach (lts fixedCfg) s) : InvR s := by
  induction hr with
  | init => simp [InvR, lts, init]
  | step a _ hst ih => exact invR_step ih hst

/-- `taus` is complete: every enabled internal label is listed (so "no `taus`" = "no internal
step", which is what the driver's `quiet` check and `stranded_witness` rely on). -/
theorem taus_complete {cfg : Cfg} {s s' : State κ ν} {l : Label κ ν} (hi : l.isInternal = true)
    (hst : step cfg s l = some s') : l ∈ taus cfg s := by
  unfold taus
  rw [List.mem_filter]
  refine ⟨?_, by simp [hst]⟩
  unfold tauCandidates
  cases l <;> simp [Label.isInternal, Label.isLoop] at hi <;> try (simp; done)
  case peek hd =>
    cases hd with
    | none => simp
    | some r =>
      have : r ∈ s.q := by
        simp only [step] at hst
        split at hst <;> try contradiction
        split at hst <;> try contradiction
        rename_i h; exact h.1.1
      simp [this]
  case execCheck hd =>
    cases hd with
    | none => simp
    | some r =>
      have : r ∈ s.q := by
        simp only [step] at hst
        split at hst <;> try contradiction
        split at hst <;> try contradiction
        rename_i h; exact h.1.1
      simp [this]

/-- Run a list of labels. -/
def runFrom (cfg : Cfg) (s : State κ ν) : List (Label κ ν) → Option (State κ ν)
  | [] => some s
  | a :: as => (step cfg s a).bind fun s' => runFrom cfg s' as

theorem reach_of_run {cfg : Cfg} {s s' : State κ ν} (hr : Reach (lts cfg) s) :
    ∀ {ls : List (Label κ ν)}, runFrom cfg s ls = some s' → Reach (lts cfg) s' := by
  intro ls
  induction ls generalizing s with
  | nil => intro h; simp [runFrom] at h; exact h ▸ hr
  | cons a as ih =>
    intro h
    simp only [runFrom] at h
    cases hst : step cfg s a with
    | none => simp [hst] at h
    | some s1 =>
      simp only [hst, Option.bind_some] at h
      exact ih (Reach.step a hr hst) h

end Kit.Processor
