import KitModel.Containers
/-! Helper lemmas for C14 (linearizability of objects made of atomic sections). -/
namespace Kit.Containers

variable {σ ι ρ κ : Type}

theorem Run.append {C L : Type} {step : C → L → C → Prop} {a b c : C} {l₁ l₂ : List L}
    (h₁ : Run step a l₁ b) (h₂ : Run step b l₂ c) : Run step a (l₁ ++ l₂) c := by
  induction h₁ with
  | nil _ => simpa using h₂
  | cons hs _ ih => exact Run.cons hs (ih h₂)

theorem Run.split {C L : Type} {step : C → L → C → Prop} {a c : C} {l₁ l₂ : List L}
    (h : Run step a (l₁ ++ l₂) c) : ∃ b, Run step a l₁ b ∧ Run step b l₂ c := by
  induction l₁ generalizing a with
  | nil => exact ⟨a, Run.nil a, by simpa using h⟩
  | cons x xs ih =>
    cases h with
    | cons hs hr =>
      obtain ⟨b, h1, h2⟩ := ih hr
      exact ⟨b, Run.cons hs h1, h2⟩

@[simp] theorem upd_same {β : Type} (f : Nat → β) (t : Nat) (v : β) : upd f t v t = v := by simp [upd]
theorem upd_other {β : Type} (f : Nat → β) {t u : Nat} (v : β) (h : u ≠ t) : upd f t v u = f u := by
  simp [upd, h]

/-- abstraction of an implementation thread status -/
def absStat (I : Impl σ ι ρ κ) : IStat ρ κ → SStat ι ρ
  | .idle => .idle
  | .run k => .pend (I.opOf k)
  | .done r => .done r

/-- abstraction of an implementation configuration: the same shared state, and a thread that is
inside an operation whose finishing section has not run yet counts as "pending". -/
def absCfg (I : Impl σ ι ρ κ) (c : ICfg σ ρ κ) : SCfg σ ι ρ :=
  { st := c.st, thr := fun t => absStat I (c.thr t) }

theorem absCfg_upd (I : Impl σ ι ρ κ) (s : σ) (thr : Nat → IStat ρ κ) (t : Nat) (x : IStat ρ κ) :
    absCfg I { st := s, thr := upd thr t x } = { st := s, thr := upd (absCfg I { st := s, thr := thr }).thr t (absStat I x) } := by
  simp only [absCfg, SCfg.mk.injEq, true_and]
  funext u
  by_cases h : u = t <;> simp [upd, h]

/-- one implementation step is one step of the atomic object, or none (a read-only hand-over). -/
theorem step_sim (I : Impl σ ι ρ κ) (S : Spec σ ι ρ) (hA : I.Atomic S)
    {c c' : ICfg σ ρ κ} {l : ILabel ι ρ} (h : I.Step c l c') :
    match l.toSpec with
    | some l' => S.Step (absCfg I c) l' (absCfg I c')
    | none => absCfg I c = absCfg I c' := by
  cases h with
  | @inv t i hidle =>
    simp only [ILabel.toSpec]
    rw [absCfg_upd]
    have := @Spec.Step.inv σ ι ρ S (absCfg I c) t i (by simp [absCfg, hidle, absStat])
    simp only [absStat, hA.start_op]
    exact this
  | @commit t k r s' hrun hsect =>
    simp only [ILabel.toSpec]
    rw [absCfg_upd]
    have hx := hA.commit k c.st s' r hsect
    have := @Spec.Step.lin σ ι ρ S (absCfg I c) t (I.opOf k) r s' (by simp [absCfg, hrun, absStat]) (by simpa [absCfg] using hx)
    simpa [absStat, absCfg] using this
  | @defer t k k' s' hrun hsect =>
    simp only [ILabel.toSpec]
    obtain ⟨hs, hop⟩ := hA.defer k c.st s' k' hsect
    subst hs
    simp only [absCfg, SCfg.mk.injEq, true_and]
    funext u
    by_cases h : u = t
    · subst h; simp [upd, hrun, absStat, hop]
    · simp [upd, h]
  | @ret t r hdone =>
    simp only [ILabel.toSpec]
    rw [absCfg_upd]
    have := @Spec.Step.ret σ ι ρ S (absCfg I c) t r (by simp [absCfg, hdone, absStat])
    simp only [absStat]
    exact this

theorem run_sim (I : Impl σ ι ρ κ) (S : Spec σ ι ρ) (hA : I.Atomic S)
    {c c' : ICfg σ ρ κ} {tr : List (ILabel ι ρ)} (h : Run I.Step c tr c') :
    Run S.Step (absCfg I c) (tr.filterMap ILabel.toSpec) (absCfg I c') := by
  induction h with
  | nil c => exact Run.nil _
  | @cons c c1 c2 l ls hs _ ih =>
    have := step_sim I S hA hs
    cases hl : l.toSpec with
    | some l' =>
      rw [hl] at this
      simp only [List.filterMap_cons, hl]
      exact Run.cons this ih
    | none =>
      rw [hl] at this
      simp only [List.filterMap_cons, hl]
      rw [this]; exact ih

theorem hist_toSpec (tr : List (ILabel ι ρ)) :
    (tr.filterMap ILabel.toSpec).filterMap SLabel.hist = tr.filterMap ILabel.hist := by
  induction tr with
  | nil => rfl
  | cons l ls ih => cases l <;> simp only [List.filterMap_cons, ILabel.toSpec, SLabel.hist, ILabel.hist, ih]

/-- the `lin` events of a run of the atomic object form a legal sequential execution -/
theorem run_legal (S : Spec σ ι ρ) {c c' : SCfg σ ι ρ} {tr : List (SLabel ι ρ)}
    (h : Run S.Step c tr c') : S.Legal c.st (tr.filterMap SLabel.seq) c'.st := by
  induction h with
  | nil c => exact rfl
  | @cons c c1 c2 l ls hs _ ih =>
    cases hs with
    | inv _ => simp only [List.filterMap_cons, SLabel.seq]; exact ih
    | ret _ => simp only [List.filterMap_cons, SLabel.seq]; exact ih
    | @lin t i r s' hp he =>
      simp only [List.filterMap_cons, SLabel.seq, Spec.Legal]
      exact ⟨s', he, ih⟩

/-! per-thread protocol: `inv i`, then `lin i r`, then `ret r`, and again -/

def SLabel.tid : SLabel ι ρ → Nat
  | .inv t _ => t
  | .lin t _ _ => t
  | .ret t _ => t

/-- `Proto a l b`: a thread in status `a` may perform `l` and is then in status `b` -/
inductive Proto : SStat ι ρ → SLabel ι ρ → SStat ι ρ → Prop where
  | inv (t : Nat) (i : ι) : Proto .idle (.inv t i) (.pend i)
  | lin (t : Nat) (i : ι) (r : ρ) : Proto (.pend i) (.lin t i r) (.done r)
  | ret (t : Nat) (r : ρ) : Proto (.done r) (.ret t r) .idle

theorem run_proto (S : Spec σ ι ρ) {c c' : SCfg σ ι ρ} {tr : List (SLabel ι ρ)}
    (h : Run S.Step c tr c') (t : Nat) :
    Run Proto (c.thr t) (tr.filter fun l => l.tid = t) (c'.thr t) := by
  induction h with
  | nil c => exact Run.nil _
  | @cons c c1 c2 l ls hs _ ih =>
    cases hs with
    | @inv u i hidle =>
      by_cases hu : u = t
      · subst hu
        rw [List.filter_cons, if_pos (by simp [SLabel.tid])]
        refine Run.cons ?_ ih
        simp only [upd_same]; rw [hidle]; exact Proto.inv u i
      · rw [List.filter_cons, if_neg (by simp [SLabel.tid, hu])]
        simpa [upd_other _ _ (Ne.symm hu)] using ih
    | @lin u i r s' hp he =>
      by_cases hu : u = t
      · subst hu
        rw [List.filter_cons, if_pos (by simp [SLabel.tid])]
        refine Run.cons ?_ ih
        simp only [upd_same]; rw [hp]; exact Proto.lin u i r
      · rw [List.filter_cons, if_neg (by simp [SLabel.tid, hu])]
        simpa [upd_other _ _ (Ne.symm hu)] using ih
    | @ret u r hd =>
      by_cases hu : u = t
      · subst hu
        rw [List.filter_cons, if_pos (by simp [SLabel.tid])]
        refine Run.cons ?_ ih
        simp only [upd_same]; rw [hd]; exact Proto.ret u r
      · rw [List.filter_cons, if_neg (by simp [SLabel.tid, hu])]
        simpa [upd_other _ _ (Ne.symm hu)] using ih

/-- if thread `t` ends `done r`, either it was so all along or the last event of `t` is `lin t _ r` -/
theorem last_event_done (S : Spec σ ι ρ) {a b : SCfg σ ι ρ} {A : List (SLabel ι ρ)} {t : Nat} {r : ρ}
    (h : Run S.Step a A b) (hb : b.thr t = .done r) :
    (a.thr t = .done r ∧ ∀ l ∈ A, l.tid ≠ t) ∨
    ∃ A₁ A₂ i, A = A₁ ++ SLabel.lin t i r :: A₂ ∧ ∀ l ∈ A₂, l.tid ≠ t := by
  induction h with
  | nil c => exact .inl ⟨hb, by simp⟩
  | @cons c c1 c2 l ls hs _ ih =>
    rcases ih hb with ⟨h1, hno⟩ | ⟨A₁, A₂, i, hEq, hno⟩
    · by_cases hl : l.tid = t
      · right
        cases hs with
        | @inv u i hi => simp only [SLabel.tid] at hl; subst hl; simp at h1
        | @ret u r' hi => simp only [SLabel.tid] at hl; subst hl; simp at h1
        | @lin u i r' s' hp he =>
          simp only [SLabel.tid] at hl; subst hl
          simp only [upd_same, SStat.done.injEq] at h1; subst h1
          exact ⟨[], ls, i, rfl, hno⟩
      · left
        refine ⟨?_, ?_⟩
        · cases hs with
          | @inv u i hi => simp only [SLabel.tid] at hl; simpa [upd_other _ _ (Ne.symm hl)] using h1
          | @ret u r' hi => simp only [SLabel.tid] at hl; simpa [upd_other _ _ (Ne.symm hl)] using h1
          | @lin u i r' s' hp he => simp only [SLabel.tid] at hl; simpa [upd_other _ _ (Ne.symm hl)] using h1
        · intro x hx
          rcases List.mem_cons.mp hx with hx | hx
          · subst hx; exact hl
          · exact hno x hx
    · exact .inr ⟨l :: A₁, A₂, i, by simp [hEq], hno⟩

/-- if thread `t` ends `pend i`, either it was so all along or the last event of `t` is `inv t i` -/
theorem last_event_pend (S : Spec σ ι ρ) {a b : SCfg σ ι ρ} {A : List (SLabel ι ρ)} {t : Nat} {i : ι}
    (h : Run S.Step a A b) (hb : b.thr t = .pend i) :
    (a.thr t = .pend i ∧ ∀ l ∈ A, l.tid ≠ t) ∨
    ∃ A₁ A₂, A = A₁ ++ SLabel.inv t i :: A₂ ∧ ∀ l ∈ A₂, l.tid ≠ t := by
  induction h with
  | nil c => exact .inl ⟨hb, by simp⟩
  | @cons c c1 c2 l ls hs _ ih =>
    rcases ih hb with ⟨h1, hno⟩ | ⟨A₁, A₂, hEq, hno⟩
    · by_cases hl : l.tid = t
      · right
        cases hs with
        | @inv u j hi =>
          simp only [SLabel.tid] at hl; subst hl
          simp only [upd_same, SStat.pend.injEq] at h1; subst h1
          exact ⟨[], ls, rfl, hno⟩
        | @ret u r' hi => simp only [SLabel.tid] at hl; subst hl; simp at h1
        | @lin u j r' s' hp he => simp only [SLabel.tid] at hl; subst hl; simp at h1
      · left
        refine ⟨?_, ?_⟩
        · cases hs with
          | @inv u j hi => simp only [SLabel.tid] at hl; simpa [upd_other _ _ (Ne.symm hl)] using h1
          | @ret u r' hi => simp only [SLabel.tid] at hl; simpa [upd_other _ _ (Ne.symm hl)] using h1
          | @lin u j r' s' hp he => simp only [SLabel.tid] at hl; simpa [upd_other _ _ (Ne.symm hl)] using h1
        · intro x hx
          rcases List.mem_cons.mp hx with hx | hx
          · subst hx; exact hl
          · exact hno x hx
    · exact .inr ⟨l :: A₁, A₂, by simp [hEq], hno⟩

end Kit.Containers
