/-
Bridge lemmas: with the documented meaning of the six fields (`FieldMeaning`, parser half), the
bit-level `Matches` of the `Next` half is the documented `DocMatches`.
-/
import KitModel.CronBridge
import KitProofs.Lemmas.CronParserSpec
import KitProofs.Lemmas.CronSpecFixed

namespace Kit.CronBridge
open Kit Kit.Cron Kit.Cron.Spec Kit.CronSpec

/-- Abstract syntax of a schedule expression: six lists of terms. -/
structure Expr where
  second : List Term
  minute : List Term
  hour : List Term
  dom : List Term
  month : List Term
  dow : List Term

/-- Some day field is left unrestricted (`*` / `?` without a step > 1). -/
def Expr.dayStar (e : Expr) : Prop := (∃ t ∈ e.dom, t.starred) ∨ (∃ t ∈ e.dow, t.starred)

/-- The documented meaning of the expression at the whole second `u` on the wall clock of `z`:
second, minute, hour and month are denoted by their fields; both day fields must hold when one of
them is unrestricted, otherwise either suffices. -/
def DocMatches (e : Expr) (z : Zone) (u : Int) : Prop :=
  denotes seconds e.second (CronSpec.second z u).toNat ∧
  denotes minutes e.minute (CronSpec.minute z u).toNat ∧
  denotes hours e.hour (CronSpec.hour z u).toNat ∧
  denotes months e.month (CronSpec.month z u).toNat ∧
  (e.dayStar → denotes Cron.dom e.dom (day z u).toNat ∧ denotes Cron.dow e.dow (wday z u).toNat) ∧
  (¬ e.dayStar → denotes Cron.dom e.dom (day z u).toNat ∨ denotes Cron.dow e.dow (wday z u).toNat)

/-- Each of the six bit sets means what its term list denotes. -/
structure Meaning (s : SpecSchedule) (e : Expr) : Prop where
  second : FieldMeaning seconds s.second e.second
  minute : FieldMeaning minutes s.minute e.minute
  hour : FieldMeaning hours s.hour e.hour
  dom : FieldMeaning Cron.dom s.dom e.dom
  month : FieldMeaning months s.month e.month
  dow : FieldMeaning Cron.dow s.dow e.dow

theorem has_toNat (b : BitVec 64) (v : Int) : has b.toNat v = b.getLsbD v.toNat := by
  simp [has, BitVec.getLsbD]

theorem star_toNat (b : BitVec 64) : star b.toNat = b.getLsbD 63 := by
  simp [star, BitVec.getLsbD, Generated.C04Next.starBit]

theorem has_iff {bd : Bounds} {b : BitVec 64} {ts : List Term} (hm : FieldMeaning bd b ts)
    (v : Int) (h0 : 0 ≤ v) (h1 : v < 63) : has b.toNat v = true ↔ denotes bd ts v.toNat := by
  rw [has_toNat]; exact hm.values v.toNat (by omega)

theorem wday_range (z : Zone) (u : Int) : 0 ≤ wday z u ∧ wday z u < 7 := by
  simp only [wday, CronCal.weekday]; omega

theorem matches_iff {s : SpecSchedule} {e : Expr} (hm : Meaning s e) (z : Zone) (u : Int) :
    Matches (toSched s) z u ↔ DocMatches e z u := by
  have hs : 0 ≤ CronSpec.second z u ∧ CronSpec.second z u < 60 := by
    simp only [CronSpec.second]; omega
  have hmi : 0 ≤ CronSpec.minute z u ∧ CronSpec.minute z u < 60 := by
    simp only [CronSpec.minute]; omega
  have hh : 0 ≤ CronSpec.hour z u ∧ CronSpec.hour z u < 24 := by
    simp only [CronSpec.hour]; omega
  have hmo := month_range z u
  have hd := day_range z u
  have hw := wday_range z u
  have e1 : has (toSched s).second (CronSpec.second z u) = true ↔ _ :=
    has_iff hm.second (CronSpec.second z u) (by omega) (by omega)
  have e2 : has (toSched s).minute (CronSpec.minute z u) = true ↔ _ :=
    has_iff hm.minute (CronSpec.minute z u) (by omega) (by omega)
  have e3 : has (toSched s).hour (CronSpec.hour z u) = true ↔ _ :=
    has_iff hm.hour (CronSpec.hour z u) (by omega) (by omega)
  have e4 : has (toSched s).month (CronSpec.month z u) = true ↔ _ :=
    has_iff hm.month (CronSpec.month z u) (by omega) (by omega)
  have e5 : has (toSched s).dom (day z u) = true ↔ _ :=
    has_iff hm.dom (day z u) (by omega) (by omega)
  have e6 : has (toSched s).dow (wday z u) = true ↔ _ :=
    has_iff hm.dow (wday z u) (by omega) (by omega)
  have est : (star (toSched s).dom = true ∨ star (toSched s).dow = true) ↔ e.dayStar := by
    have h1 : star (toSched s).dom = s.dom.getLsbD 63 := star_toNat s.dom
    have h2 : star (toSched s).dow = s.dow.getLsbD 63 := star_toNat s.dow
    rw [h1, h2, hm.dom.star, hm.dow.star]; rfl
  have hday : dayRule (toSched s) z u ↔
      ((e.dayStar → denotes Cron.dom e.dom (day z u).toNat ∧ denotes Cron.dow e.dow (wday z u).toNat) ∧
       (¬ e.dayStar → denotes Cron.dom e.dom (day z u).toNat ∨ denotes Cron.dow e.dow (wday z u).toNat)) := by
    unfold dayRule
    split
    · rename_i h
      have hst := est.1 h
      rw [e5, e6]
      exact ⟨fun f => ⟨fun _ => f, fun h' => absurd hst h'⟩, fun f => f.1 hst⟩
    · rename_i h
      have hst : ¬ e.dayStar := fun h' => h (est.2 h')
      rw [e5, e6]
      exact ⟨fun f => ⟨fun h' => absurd h' hst, fun _ => f⟩, fun f => f.2 hst⟩
  unfold Matches DocMatches
  rw [e1, e2, e3, e4, hday]

end Kit.CronBridge
