import KitProofs.Lemmas.RunnerCloserB
import KitProofs.Lemmas.RunnerCloserC
/-! C12 helper lemmas: the combined invariant of `RCM`, reachability, stability facts. -/
namespace Kit.Runner

structure RCM.Inv (cfg : Cfg) (s : RCM) : Prop where
  a : RCM.InvA s
  b : RCM.InvB cfg s
  c : RCM.InvC s

theorem RCM.inv_init (cfg : Cfg) : RCM.Inv cfg {} :=
  ⟨RCM.invA_init, RCM.invB_init cfg, RCM.invC_init⟩

theorem RCM.inv_step (cfg : Cfg) {s s' : RCM} (a : Label) (h : RCM.Inv cfg s)
    (hs : s.step cfg a = some s') : RCM.Inv cfg s' :=
  ⟨RCM.invA_step cfg a h.a hs, RCM.invB_step cfg a h.a h.b hs, RCM.invC_step cfg a h.c hs⟩

theorem RCM.inv_of_reach {cfg : Cfg} {s : RCM} (h : RCM.Reach cfg s) : RCM.Inv cfg s := by
  induction h with
  | init => exact RCM.inv_init cfg
  | step a _ hs ih => exact RCM.inv_step cfg a ih hs

theorem RCM.reach_of_steps {cfg : Cfg} {s t : RCM} (h : RCM.Steps cfg s t) (hr : RCM.Reach cfg s) :
    RCM.Reach cfg t := by
  induction h with
  | refl => exact hr
  | tail a _ hs ih => exact RCM.Reach.step a ih hs

theorem RM.reach_runLabels_from {s : RM} (hr : RM.Reach s) (ls : List RLabel) {t : RM}
    (h : RM.runLabels s ls = some t) : RM.Reach t := by
  induction ls generalizing s with
  | nil => simp [RM.runLabels] at h; subst h; exact hr
  | cons a as ih =>
    simp only [RM.runLabels] at h
    cases hs : s.step a with
    | none => simp [hs] at h
    | some s1 => simp [hs] at h; exact ih (RM.Reach.step a hr hs) h

theorem RM.reach_runLabels (ls : List RLabel) {t : RM} (h : RM.runLabels {} ls = some t) :
    RM.Reach t := RM.reach_runLabels_from RM.Reach.init ls h

theorem RCM.reach_runLabels_from {cfg : Cfg} {s : RCM} (hr : RCM.Reach cfg s) (ls : List Label)
    {t : RCM} (h : RCM.runLabels cfg s ls = some t) : RCM.Reach cfg t := by
  induction ls generalizing s with
  | nil => simp [RCM.runLabels] at h; subst h; exact hr
  | cons a as ih =>
    simp only [RCM.runLabels] at h
    cases hs : s.step cfg a with
    | none => simp [hs] at h
    | some s1 => simp [hs] at h; exact ih (RCM.Reach.step a hr hs) h

theorem RCM.reach_runLabels {cfg : Cfg} (ls : List Label) {t : RCM}
    (h : RCM.runLabels cfg {} ls = some t) : RCM.Reach cfg t :=
  RCM.reach_runLabels_from RCM.Reach.init ls h

/-- A closer that has been started is never "not started" again. -/
theorem RCM.cpc_started_stable (cfg : Cfg) {s s' : RCM} (a : Label) (hs : s.step cfg a = some s')
    (j : Nat) (p : CPc) (hp : s.cpcs[j]? = some p) (hne : p ≠ .idle) :
    ∃ p', s'.cpcs[j]? = some p' ∧ p' ≠ .idle := by
  cases a with
  | inner b =>
    simp only [RCM.step] at hs
    split at hs
    · cases hb : s.inner.step b with
      | none => simp [hb] at hs
      | some r => simp [hb] at hs; subst hs; exact ⟨p, hp, hne⟩
    · simp at hs
  | _ =>
    simp only [RCM.step] at hs
    repeat' (split at hs)
    all_goals (simp at hs)
    all_goals (try subst hs)
    all_goals grind

/-- The list of registered closers only grows. -/
theorem RCM.cpcs_length_mono (cfg : Cfg) {s s' : RCM} (a : Label) (hs : s.step cfg a = some s') :
    s.cpcs.length ≤ s'.cpcs.length := by
  cases a with
  | inner b =>
    simp only [RCM.step] at hs
    split at hs
    · cases hb : s.inner.step b with
      | none => simp [hb] at hs
      | some r => simp [hb] at hs; subst hs; exact Nat.le_refl _
    · simp at hs
  | _ =>
    simp only [RCM.step] at hs
    repeat' (split at hs)
    all_goals (simp at hs)
    all_goals (try subst hs)
    all_goals grind

/-- After `finish` the value every caller gets is fixed; a Close that won the CAS stays the winner. -/
theorem RCM.final_stable (cfg : Cfg) {s s' : RCM} (a : Label) (hA : RCM.InvA s)
    (hs : s.step cfg a = some s') :
    (6 ≤ s.opc.rank → 6 ≤ s'.opc.rank ∧ s'.retErr = s.retErr) ∧
    (s.closeWon = true → s'.closeWon = true) ∧ (s.running = true → s'.running = true) := by
  obtain ⟨a0, a1, a2, a3, a4, a5, a6, a7, a8, a9, a10⟩ := hA
  cases a with
  | inner b =>
    simp only [RCM.step] at hs
    split at hs
    · cases hb : s.inner.step b with
      | none => simp [hb] at hs
      | some r => simp [hb] at hs; subst hs; simp
    · simp at hs
  | _ =>
    simp only [RCM.step] at hs
    repeat' (split at hs)
    all_goals (simp at hs)
    all_goals (try subst hs)
    all_goals grind [OPc.rank]

/-- `count` of a `filterMap` as a `countP`. -/
theorem count_filterMap_eq_countP {α} (f : α → Option Nat) (l : List α) (e : Nat) :
    (l.filterMap f).count e = l.countP (fun p => f p == some e) := by
  induction l with
  | nil => simp
  | cons x xs ih =>
    cases hx : f x with
    | none => simp [List.filterMap_cons, hx, List.countP_cons, ih]
    | some v =>
      simp [List.filterMap_cons, hx, List.countP_cons, List.count_cons, ih]

/-- If no element from index `k` on satisfies `p`, at most `k` elements do. -/
theorem countP_le_of_suffix {α} (p : α → Bool) (l : List α) (k : Nat)
    (h : ∀ (j : Nat) x, l[j]? = some x → k ≤ j → p x = false) : l.countP p ≤ k := by
  induction l generalizing k with
  | nil => simp
  | cons x xs ih =>
    cases k with
    | zero =>
      have hx : p x = false := h 0 x (by simp) (Nat.le_refl _)
      have := ih 0 (fun j y hy _ => h (j + 1) y (by simpa using hy) (Nat.zero_le _))
      have h0 : List.countP p xs = 0 := by omega
      simp [List.countP_cons, hx, h0]
    | succ k' =>
      have := ih k' (fun j y hy hk => h (j + 1) y (by simpa using hy) (by omega))
      simp only [List.countP_cons]; split <;> omega

end Kit.Runner
