/-
Hour zones: `dayStart`, `dayInc`, `addDate` in terms of hour blocks, and where the resets and
advances of the month, day and hour loops land.
-/
import KitProofs.Lemmas.CronDstZone

namespace Kit.CronSpec
open Kit.CronCal

/-- Consecutive days never have the same day of the month. -/
theorem civil_day_succ_ne (n : Int) : (civilFromDays (n + 1)).2.2 ≠ (civilFromDays n).2.2 := by
  rw [civil_day_eq, civil_day_eq]
  have lo := monthStart_le n
  have hi := lt_monthStart_succ n
  have st := monthStart_step (monthIndex n)
  by_cases he : n + 1 = monthStart (monthIndex n + 1)
  · have : monthIndex (n + 1) = monthIndex n + 1 := by rw [he]; exact monthIndex_monthStart _
    rw [this]; omega
  · have : monthIndex (n + 1) = monthIndex n := monthIndex_unique (by omega) (by omega)
    rw [this]; omega

theorem civil_day_eq_iff {m n : Int} (h : m = n ∨ m = n + 1 ∨ n = m + 1) :
    (civilFromDays m).2.2 = (civilFromDays n).2.2 ↔ m = n := by
  constructor
  · intro he
    rcases h with h | h | h
    · exact h
    · subst h; exact absurd he (civil_day_succ_ne n)
    · subst h; exact absurd he.symm (civil_day_succ_ne m)
  · intro h; rw [h]

/-- `dayStart` on block indices. -/
def dsb (b : Int → Int) (ρ : Int) : Int :=
  if lam b ρ % 24 > 12 then ρ + (24 - lam b ρ % 24)
  else if lam b ρ % 24 > 0 then
    (if lam b (ρ - lam b ρ % 24) / 24 = lam b ρ / 24 then ρ - lam b ρ % 24 else ρ)
  else (if lam b (ρ - 1) % 24 = 0 ∧ lam b (ρ - 1) / 24 = lam b ρ / 24 then ρ - 1 else ρ)

/-- Block `k` is the first block of the local day `X`. -/
def DFb (b : Int → Int) (k X : Int) : Prop := lam b k / 24 = X ∧ lam b (k - 1) / 24 < X

section
variable {z : Zone} {b : Int → Int} (H : HourZone z b)
include H

theorem day_eq_iff_block {j k : Int} (h : k - 13 ≤ j ∧ j ≤ k) :
    day z (3600 * j) = day z (3600 * k) ↔ lam b j / 24 = lam b k / 24 := by
  simp only [day]
  rw [dayNum_hz H, dayNum_hz H]
  have e1 : 3600 * j / 3600 = j := by omega
  have e2 : 3600 * k / 3600 = k := by omega
  rw [e1, e2]
  apply civil_day_eq_iff
  have m1 := lam_mono H (j := j) (k := k) h.2
  have : lam b k ≤ lam b j + 14 := by
    simp only [lam]
    obtain ⟨τ, ba, bb, h1, h2⟩ := win H k
    have := h2 j (by omega) (by omega)
    have := h2 k (by omega) (by omega)
    omega
  omega

theorem dayStart_hz (ρ : Int) : dayStart z (3600 * ρ) = 3600 * dsb b ρ := by
  have e0 : 3600 * ρ / 3600 = ρ := by omega
  have hh : hour z (3600 * ρ) = lam b ρ % 24 := by rw [hour_hz H, e0]
  simp only [dayStart, dsb, hh]
  have hr : 0 ≤ lam b ρ % 24 ∧ lam b ρ % 24 < 24 := by omega
  by_cases h12 : lam b ρ % 24 > 12
  · simp only [h12, if_true]; omega
  · simp only [h12, if_false]
    by_cases h0 : lam b ρ % 24 > 0
    · simp only [h0, if_true]
      have e : 3600 * ρ - lam b ρ % 24 * 3600 = 3600 * (ρ - lam b ρ % 24) := by omega
      rw [e]
      have key := day_eq_iff_block H (j := ρ - lam b ρ % 24) (k := ρ) (by omega)
      by_cases hc : day z (3600 * (ρ - lam b ρ % 24)) = day z (3600 * ρ)
      · rw [if_pos hc, if_pos (key.1 hc)]
      · rw [if_neg hc, if_neg (fun h => hc (key.2 h))]
    · simp only [h0, if_false]
      have e : 3600 * ρ - 3600 = 3600 * (ρ - 1) := by omega
      have e1 : 3600 * (ρ - 1) / 3600 = ρ - 1 := by omega
      rw [e, hour_hz H, e1]
      have key := day_eq_iff_block H (j := ρ - 1) (k := ρ) (by omega)
      by_cases hc : lam b (ρ - 1) % 24 = 0 ∧ day z (3600 * (ρ - 1)) = day z (3600 * ρ)
      · rw [if_pos hc, if_pos ⟨hc.1, key.1 hc.2⟩]
      · rw [if_neg hc, if_neg (fun h => hc ⟨h.1, key.2 h.2⟩)]

/-- The block situations from which `dayStart` reaches the first block of local day `X`:
at 00:00 (first or second occurrence), at 01:00 (midnight missing, or regular), at 23:00 of the
previous day. -/
def NearStart (b : Int → Int) (ρ X : Int) : Prop :=
  (lam b ρ = 24 * X) ∨
  (lam b ρ = 24 * X + 1 ∧ (lam b (ρ - 1) = 24 * X - 1 ∨
      (lam b (ρ - 1) = 24 * X ∧ lam b (ρ - 2) < 24 * X))) ∨
  (lam b ρ = 24 * X - 1 ∧ 24 * X ≤ lam b (ρ + 1))

theorem dsb_DF {ρ X : Int} (h : NearStart b ρ X) : DFb b (dsb b ρ) X := by
  have s1 := lam_step H (ρ - 1)
  have s2 := lam_step H (ρ - 2)
  have s3 := lam_step H ρ
  have e1 : ρ - 1 + 1 = ρ := by omega
  have e2 : ρ - 2 + 1 = ρ - 1 := by omega
  rw [e1] at s1; rw [e2] at s2
  have st := lam_strict H (j := ρ - 2) (k := ρ) (by omega)
  rcases h with h | ⟨h, h'⟩ | ⟨h, h'⟩
  · have hh : lam b ρ % 24 = 0 := by omega
    simp only [dsb, hh, DFb]
    simp only [show ¬ (0 : Int) > 12 by omega, show ¬ (0 : Int) > 0 by omega, if_false]
    split
    · rename_i hc
      have e3 : ρ - 1 - 1 = ρ - 2 := by omega
      rw [e3]; omega
    · rename_i hc
      constructor
      · omega
      · by_cases hlt : lam b (ρ - 1) / 24 < X
        · exact hlt
        · exfalso; apply hc; omega
  · have hh : lam b ρ % 24 = 1 := by omega
    simp only [dsb, hh, DFb]
    simp only [show ¬ (1 : Int) > 12 by omega, show (1 : Int) > 0 by omega, if_false, if_true]
    rcases h' with h' | ⟨h', h''⟩
    · rw [if_neg (by omega)]; omega
    · rw [if_pos (by omega)]
      have e3 : ρ - 1 - 1 = ρ - 2 := by omega
      rw [e3]; omega
  · have hh : lam b ρ % 24 = 23 := by omega
    simp only [dsb, hh, DFb]
    simp only [show (23 : Int) > 12 by omega, if_true]
    have e3 : ρ + (24 - 23) = ρ + 1 := by omega
    have e4 : ρ + 1 - 1 = ρ := by omega
    rw [e3, e4]; omega

/-- Where `time.Date` lands when aimed at hour 0 (or, from a source next to a missing midnight,
hour 1 / hour 23) of local day `X`, up to a month away from the source block `k1`: always a block
from which `dayStart` reaches the first block of `X`. -/
theorem target_near (k1 T X : Int)
    (hT : T = 24 * X ∨
      (T = 24 * X + 1 ∧ lam b (k1 - 1) + 2 = lam b k1 ∧ lam b k1 + 20 ≤ T ∧ T ≤ lam b k1 + 760) ∨
      (T = 24 * X - 1 ∧ lam b (k1 + 1) = lam b k1 + 2 ∧ lam b k1 + 20 ≤ T ∧ T ≤ lam b k1 + 760)) :
    NearStart b (land b T) X := by
  rcases hT with hT | ⟨hT, hg, hd1, hd2⟩ | ⟨hT, hg, hd1, hd2⟩
  · by_cases hex : ∃ k, lam b k = T
    · obtain ⟨k, hk⟩ := hex
      left; rw [land_exists H hk, hT]
    · have hno : ∀ k, lam b k ≠ T := fun k hk => hex ⟨k, hk⟩
      rcases land_gap H hno with ⟨h1, h2⟩ | ⟨h1, h2⟩
      · right; left; exact ⟨by omega, Or.inl (by omega)⟩
      · right; right; exact ⟨by omega, by omega⟩
  · right; left
    simp only [lam, land] at *
    obtain ⟨τ, ba, bb, h1, h2⟩ := win H k1
    have b0 := H.bound T
    have b1 := H.bound (T - b T)
    have b2 := H.bound k1
    have w0 := h2 (k1 - 1) (by omega) (by omega)
    have w1 := h2 k1 (by omega) (by omega)
    have w2 := h2 T (by omega) (by omega)
    have w3 := h2 (T - b T) (by omega) (by omega)
    have w4 := h2 (T - b (T - b T)) (by omega) (by omega)
    have w5 := h2 (T - b (T - b T) - 1) (by omega) (by omega)
    have w6 := h2 (T - b (T - b T) - 2) (by omega) (by omega)
    omega
  · right; right
    simp only [lam, land] at *
    obtain ⟨τ, ba, bb, h1, h2⟩ := win H k1
    have b0 := H.bound T
    have b1 := H.bound (T - b T)
    have b2 := H.bound k1
    have w0 := h2 (k1 + 1) (by omega) (by omega)
    have w1 := h2 k1 (by omega) (by omega)
    have w2 := h2 T (by omega) (by omega)
    have w3 := h2 (T - b T) (by omega) (by omega)
    have w4 := h2 (T - b (T - b T)) (by omega) (by omega)
    have w5 := h2 (T - b (T - b T) + 1) (by omega) (by omega)
    omega

/-! ### the model's calls in block form -/

theorem goDate_today_hz (t dd h : Int) :
    goDate z (year z t) (month z t) (day z t + dd) h 0 0
      = 3600 * land b (24 * (dayNum z t + dd) + h) := by
  have hm := month_range z t
  rw [goDate_land H]
  have h1 : (month z t - 1) / 12 = 0 := by omega
  have h2 : (month z t - 1) % 12 + 1 = month z t := by omega
  rw [h1, h2, Int.add_zero]
  have := daysFromCivil_civil (dayNum z t)
  rw [daysFromCivil_day] at this
  rw [daysFromCivil_day]
  simp only [year, month, day] at this ⊢
  have e : 24 * (daysFromCivil (civilFromDays (dayNum z t)).1 (civilFromDays (dayNum z t)).2.1 1 +
      ((civilFromDays (dayNum z t)).2.2 + dd - 1)) + h = 24 * (dayNum z t + dd) + h := by omega
  rw [e]

theorem goDate_month_hz (t dm h : Int) (_hdm : dm = 0 ∨ dm = 1) :
    goDate z (year z t) (month z t + dm) 1 h 0 0
      = 3600 * land b (24 * monthStart (mIdx z t + dm) + h) := by
  rw [goDate_land H, year_eq, month_eq]
  have e1 : mIdx z t / 12 + (mIdx z t % 12 + 1 + dm - 1) / 12 = (mIdx z t + dm) / 12 := by omega
  have e2 : (mIdx z t % 12 + 1 + dm - 1) % 12 + 1 = (mIdx z t + dm) % 12 + 1 := by omega
  rw [e1, e2]
  rfl

/-- The three ways `time.Date` answers when aimed at the midnight of local day `X`: exactly; the
block after a missing midnight; the block before it. -/
def Land0 (b : Int → Int) (ρ X : Int) : Prop :=
  lam b ρ = 24 * X ∨ (lam b ρ = 24 * X + 1 ∧ lam b (ρ - 1) = 24 * X - 1) ∨
  (lam b ρ = 24 * X - 1 ∧ lam b (ρ + 1) = 24 * X + 1)

theorem land0 (X : Int) : Land0 b (land b (24 * X)) X := by
  by_cases hex : ∃ k, lam b k = 24 * X
  · obtain ⟨k, hk⟩ := hex
    left; exact land_exists H hk
  · have hno : ∀ k, lam b k ≠ 24 * X := fun k hk => hex ⟨k, hk⟩
    rcases land_gap H hno with ⟨h1, h2⟩ | ⟨h1, h2⟩
    · right; left; exact ⟨h1, h2⟩
    · right; right; exact ⟨h1, h2⟩

omit H in
theorem Land0.near {ρ X : Int} (h : Land0 b ρ X) : NearStart b ρ X := by
  rcases h with h | ⟨h, h'⟩ | ⟨h, h'⟩
  · exact Or.inl h
  · exact Or.inr (Or.inl ⟨h, Or.inl h'⟩)
  · exact Or.inr (Or.inr ⟨h, by omega⟩)

theorem DFb.land0 {k X : Int} (h : DFb b k X) : Land0 b k X := by
  have s := lam_step H (k - 1)
  have e : k - 1 + 1 = k := by omega
  rw [e] at s
  simp only [DFb] at h
  by_cases h0 : lam b k = 24 * X
  · exact Or.inl h0
  · right; left; omega

/-- Block form of the day loop's advance. -/
def dib (b : Int → Int) (k : Int) : Int :=
  if k < dsb b (land b (lam b k + 24)) then dsb b (land b (lam b k + 24))
  else dsb b (land b (lam b k + 48))

theorem addDate_day_hz (k dd : Int) :
    addDate z (3600 * k) 0 0 dd = 3600 * land b (lam b k + 24 * dd) := by
  have e0 : 3600 * k / 3600 = k := by omega
  have hmi : minute z (3600 * k) = 0 := by rw [minute_hz H]; omega
  have hs : second z (3600 * k) = 0 := by rw [second_hz H]; omega
  simp only [addDate, hmi, hs, Int.add_zero]
  rw [goDate_today_hz H, dayNum_hz H, hour_hz H, e0]
  have : 24 * (lam b k / 24 + dd) + lam b k % 24 = lam b k + 24 * dd := by omega
  rw [this]

theorem dayInc_hz (k : Int) : dayInc z (3600 * k) = 3600 * dib b k := by
  simp only [dayInc, dib]
  rw [addDate_day_hz H, addDate_day_hz H, dayStart_hz H, dayStart_hz H]
  have e1 : lam b k + 24 * 1 = lam b k + 24 := by omega
  have e2 : lam b k + 24 * 2 = lam b k + 48 := by omega
  rw [e1, e2]
  by_cases hc : k < dsb b (land b (lam b k + 24))
  · rw [if_pos hc, if_pos (by omega)]
  · rw [if_neg hc, if_neg (by omega)]

/-- The day loop's advance from a block next to the midnight of `X` reaches the first block of
`X + 1`. -/
theorem dib_DF {k X : Int} (h : Land0 b k X) : DFb b (dib b k) (X + 1) ∧ k < dib b k := by
  have hn : NearStart b (land b (lam b k + 24)) (X + 1) := by
    apply target_near H k
    rcases h with h | ⟨h, h'⟩ | ⟨h, h'⟩
    · left; omega
    · right; left; exact ⟨by omega, by omega, by omega, by omega⟩
    · right; right; exact ⟨by omega, by omega, by omega, by omega⟩
  have hd := dsb_DF H hn
  have hlt : k < dsb b (land b (lam b k + 24)) := by
    by_cases hc : k < dsb b (land b (lam b k + 24))
    · exact hc
    · exfalso
      have := lam_mono H (j := dsb b (land b (lam b k + 24))) (k := k) (by omega)
      simp only [DFb] at hd
      rcases h with h | ⟨h, h'⟩ | ⟨h, h'⟩ <;> omega
  have e : dib b k = dsb b (land b (lam b k + 24)) := by simp only [dib, hlt, if_true]
  rw [e]
  exact ⟨hd, hlt⟩

/-! ### month loop -/

/-- Block form of the month loop's advance from the first block `k` of month `M`. -/
def mib (b : Int → Int) (k M : Int) : Int := dsb b (land b (24 * monthStart (M + 1) + lam b k % 24))

theorem month_reset_hz (t : Int) :
    dayStart z (goDate z (year z t) (month z t) 1 0 0 0)
      = 3600 * dsb b (land b (24 * monthStart (mIdx z t))) := by
  have h := goDate_month_hz H t 0 0 (Or.inl rfl)
  simp only [Int.add_zero] at h
  rw [h, dayStart_hz H]

theorem month_reset_DF (M : Int) : DFb b (dsb b (land b (24 * monthStart M))) (monthStart M) :=
  dsb_DF H (target_near H 0 _ _ (Or.inl rfl))

theorem month_inc_hz {k M : Int} (hdf : DFb b k (monthStart M)) :
    dayStart z (addDate z (3600 * k) 0 1 0) = 3600 * mib b k M := by
  have e0 : 3600 * k / 3600 = k := by omega
  have hmi : minute z (3600 * k) = 0 := by rw [minute_hz H]; omega
  have hs : second z (3600 * k) = 0 := by rw [second_hz H]; omega
  have hD : dayNum z (3600 * k) = monthStart M := by rw [dayNum_hz H, e0]; exact hdf.1
  have hM : mIdx z (3600 * k) = M := by simp only [mIdx]; rw [hD]; exact monthIndex_monthStart M
  have hd : day z (3600 * k) = 1 := by rw [day_eq, hM, hD]; omega
  simp only [addDate, hmi, hs, hd, Int.add_zero]
  have h := goDate_month_hz H (3600 * k) 1 (hour z (3600 * k)) (Or.inr rfl)
  rw [h, dayStart_hz H, hM, hour_hz H, e0]
  rfl

theorem mib_DF {k M : Int} (hdf : DFb b k (monthStart M)) :
    DFb b (mib b k M) (monthStart (M + 1)) ∧ k < mib b k M := by
  have st := monthStart_step M
  have hl := DFb.land0 H hdf
  have hn : NearStart b (land b (24 * monthStart (M + 1) + lam b k % 24)) (monthStart (M + 1)) := by
    apply target_near H k
    rcases hl with h | ⟨h, h'⟩ | ⟨h, h'⟩
    · left; omega
    · right; left; exact ⟨by omega, by omega, by omega, by omega⟩
    · exfalso; simp only [DFb] at hdf; omega
  have hd := dsb_DF H hn
  refine ⟨hd, ?_⟩
  by_cases hc : k < mib b k M
  · exact hc
  · exfalso
    have := lam_mono H (j := mib b k M) (k := k) (by omega)
    simp only [DFb, mib] at hd hdf this
    omega

/-- Hour loop's reset: `time.Date(y, m, d, t.Hour(), 0, 0)` answers a block with the same local
hour as `t` (possibly the other occurrence of a repeated hour). -/
theorem hour_reset_hz (t : Int) :
    ∃ ρ, goDate z (year z t) (month z t) (day z t) (hour z t) 0 0 = 3600 * ρ ∧
      lam b ρ = lam b (t / 3600) := by
  have h := goDate_today_hz H t 0 (hour z t)
  simp only [Int.add_zero] at h
  refine ⟨_, h, ?_⟩
  rw [dayNum_hz H, hour_hz H]
  have : 24 * (lam b (t / 3600) / 24) + lam b (t / 3600) % 24 = lam b (t / 3600) := by omega
  rw [this]
  exact land_exists H rfl

/-- Day loop's reset: `time.Date(y, m, d, 0, 0, 0)`. -/
theorem day_reset_hz (t : Int) :
    goDate z (year z t) (month z t) (day z t) 0 0 0 = 3600 * land b (24 * dayNum z t) ∧
      Land0 b (land b (24 * dayNum z t)) (dayNum z t) := by
  have h := goDate_today_hz H t 0 0
  simp only [Int.add_zero] at h
  exact ⟨h, land0 H _⟩

end
end Kit.CronSpec
