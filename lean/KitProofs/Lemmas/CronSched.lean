import KitModel.CronSched
/-!
Helper lemmas for property C05 (cron scheduler run loop): basic facts about `step`, the frame
conditions of every label, and the inductive invariants used by `KitProofs.Props.C05`.
-/
namespace Kit.CronSched

/-- Schedules are well behaved: `Next(t)` is zero ("never") or strictly later than `t`
(cron.go:61 "Next returns the next activation time, later than the given time"). -/
def WB (S : Scheds) : Prop := ∀ sid t, S sid t = 0 ∨ t < S sid t

/-- The most recent record of entry `id` (the log is newest first). -/
def lastRec (id : Nat) (log : List Rec) : Option Rec := log.find? (fun r => r.id == id)

/-- The activation launched by the most recent `run` record of `id`, 0 if none. -/
def lastRunAct (id : Nat) (log : List Rec) : Nat :=
  match log.find? (fun r => r.isRun && r.id == id) with
  | some r => r.act
  | none => 0

/-- The scheduler goroutine exists and has computed every entry's `Next`. -/
def live : Pc → Bool
  | .arm => true
  | .parked _ => true
  | .refresh _ => true
  | _ => false

theorem runFrom_append (S : Scheds) (s : State) (h1 h2 : List Label) :
    runFrom S s (h1 ++ h2) = (runFrom S s h1).bind (fun s' => runFrom S s' h2) := by
  induction h1 generalizing s with
  | nil => simp [runFrom]
  | cons l ls ih =>
    simp only [List.cons_append, runFrom]
    cases step S s l with
    | none => simp
    | some s' => simpa using ih s'

theorem reach_runFrom {S : Scheds} {s s' : State} (hr : Reach S s) (h : List Label)
    (hs : runFrom S s h = some s') : Reach S s' := by
  induction h generalizing s with
  | nil => simp [runFrom] at hs; subst hs; exact hr
  | cons l ls ih =>
    simp only [runFrom] at hs
    cases hl : step S s l with
    | none => simp [hl] at hs
    | some s1 => rw [hl] at hs; exact ih (Reach.step l hr hl) hs

/-- Every reachable state is the result of running some history from an initial state. -/
theorem reach_iff_history {S : Scheds} {s : State} :
    Reach S s ↔ ∃ t0 h, runFrom S (init t0) h = some s := by
  constructor
  · intro hr
    induction hr with
    | init t0 => exact ⟨t0, [], rfl⟩
    | step l _ hl ih =>
      obtain ⟨t0, h, hh⟩ := ih
      exact ⟨t0, h ++ [l], by simp [runFrom_append, hh, runFrom, hl]⟩
  · rintro ⟨t0, h, hh⟩
    exact reach_runFrom (Reach.init t0) h hh

/-- Invariants are proved by induction over reachability. -/
theorem inv_of_inductive {S : Scheds} (Inv : State → Prop) (h0 : ∀ t0, Inv (init t0))
    (hs : ∀ s l s', Reach S s → Inv s → step S s l = some s' → Inv s') :
    ∀ s, Reach S s → Inv s := by
  intro s hr
  induction hr with
  | init t0 => exact h0 t0
  | step l hr hl ih => exact hs _ l _ hr ih hl

end Kit.CronSched

namespace Kit.CronSched

/-! ### inversion of `step`, label by label -/

theorem isParked_iff {pc : Pc} : isParked pc = true ↔ ∃ tm, pc = .parked tm := by
  cases pc <;> simp [isParked]

theorem step_add_inv {S : Scheds} {s s' : State} {sid : Nat} (h : step S s (.add sid) = some s') :
    (s.running = true ∧ isParked s.pc = true ∧
      s' = { s with nextID := s.nextID + 1, pc := .refresh (some (s.nextID + 1, sid)) }) ∨
    (s.running = false ∧
      s' = { s with nextID := s.nextID + 1,
                    entries := s.entries ++ [{ id := s.nextID + 1, sid := sid, next := 0, prev := 0 }] }) := by
  simp only [step] at h
  split at h
  · split at h
    · cases h; left; simp_all
    · cases h
  · cases h; right; simp_all

theorem step_remove_inv {S : Scheds} {s s' : State} {id : Nat} (h : step S s (.remove id) = some s') :
    (s.running = true ∧ isParked s.pc = true ∧
      s' = { s with entries := s.entries.filter (fun e => e.id ≠ id), pc := .refresh none }) ∨
    (s.running = false ∧ s' = { s with entries := s.entries.filter (fun e => e.id ≠ id) }) := by
  simp only [step] at h
  split at h
  · split at h
    · cases h; left; simp_all
    · cases h
  · cases h; right; simp_all

theorem step_snapshot_inv {S : Scheds} {s s' : State} (h : step S s .snapshot = some s') :
    s' = s ∧ (s.running = true → isParked s.pc = true) := by
  simp only [step] at h
  split at h
  · split at h
    · cases h; simp_all
    · cases h
  · cases h; simp_all

theorem step_start_inv {S : Scheds} {s s' : State} (h : step S s .start = some s') :
    (s.running = true ∧ s' = s) ∨ (s.running = false ∧ s' = { s with running := true, pc := .boot }) := by
  simp only [step] at h
  split at h
  · cases h; left; simp_all
  · cases h; right; simp_all

theorem step_stop_inv {S : Scheds} {s s' : State} (h : step S s .stop = some s') :
    (s.running = true ∧ isParked s.pc = true ∧
      s' = { s with running := false, pc := .off, ctxs := s.ctxs ++ [.created] }) ∨
    (s.running = false ∧ s' = { s with ctxs := s.ctxs ++ [.created] }) := by
  simp only [step] at h
  split at h
  · split at h
    · cases h; left; simp_all
    · cases h
  · cases h; right; simp_all

theorem step_advance_inv {S : Scheds} {s s' : State} {t : Nat} (h : step S s (.advance t) = some s') :
    s.clock ≤ t ∧
    ((∃ tm, s.pc = .parked (some tm) ∧ s' = { s with clock := t, pc := .parked (some (tm.tick t)) }) ∨
     ((∀ tm, s.pc ≠ .parked (some tm)) ∧ s' = { s with clock := t })) := by
  simp only [step] at h
  split at h
  · cases h
  · rename_i hlt
    refine ⟨Nat.le_of_not_lt hlt, ?_⟩
    split at h
    · cases h; left; exact ⟨_, by assumption, rfl⟩
    · cases h; right
      refine ⟨?_, rfl⟩
      intro tm htm
      rename_i hne
      exact hne tm htm

theorem step_boot_inv {S : Scheds} {s s' : State} (h : step S s .boot = some s') :
    s.pc = .boot ∧
    s' = { s with now := s.clock,
                  entries := s.entries.map (fun e => { e with next := S e.sid s.clock }),
                  pc := .arm,
                  log := (s.entries.map (fun e => { e with next := S e.sid s.clock })).map (schedRec s.clock) ++ s.log } := by
  simp only [step] at h
  split at h
  · cases h; exact ⟨by assumption, rfl⟩
  · cases h

theorem step_refresh_inv {S : Scheds} {s s' : State} (h : step S s .refresh = some s') :
    (s.pc = .refresh none ∧ s' = { s with now := s.clock, pc := .arm }) ∨
    (∃ id sid, s.pc = .refresh (some (id, sid)) ∧
      s' = { s with now := s.clock,
                    entries := s.entries ++ [{ id := id, sid := sid, next := S sid s.clock, prev := 0 }],
                    pc := .arm,
                    log := schedRec s.clock { id := id, sid := sid, next := S sid s.clock, prev := 0 } :: s.log }) := by
  simp only [step] at h
  split at h
  · cases h; left; exact ⟨by assumption, rfl⟩
  · cases h; right; exact ⟨_, _, by assumption, rfl⟩
  · cases h

theorem step_arm_inv {S : Scheds} {s s' : State} (h : step S s .arm = some s') :
    s.pc = .arm ∧
    s' = { s with entries := sortBT s.entries,
                  pc := .parked (armTimer s.clock s.now (sortBT s.entries)) } := by
  simp only [step] at h
  split at h
  · cases h; exact ⟨by assumption, rfl⟩
  · cases h

theorem step_wake_inv {S : Scheds} {s s' : State} (h : step S s .wake = some s') :
    ∃ tm v, s.pc = .parked (some tm) ∧ tm.fired = some v ∧
      s' = { s with now := v, entries := (wakeLoop S v s.entries).1, pc := .arm,
                    jobs := s.jobs ++ (wakeLoop S v s.entries).2.map (launchJob v),
                    log := (wakeLoop S v s.entries).2.map (runRec v s.clock) ++ s.log } := by
  simp only [step] at h
  split at h
  · split at h
    · cases h; exact ⟨_, _, by assumption, by assumption, rfl⟩
    · cases h
  · cases h

theorem step_jobBegin_inv {S : Scheds} {s s' : State} {i : Nat} (h : step S s (.jobBegin i) = some s') :
    ∃ j, s.jobs[i]? = some j ∧ j.st = .launched ∧
      s' = { s with jobs := s.jobs.set i { j with st := .begun s.clock } } := by
  simp only [step] at h
  split at h
  · split at h
    · cases h; exact ⟨_, by assumption, by assumption, rfl⟩
    · cases h
  · cases h

theorem step_jobDone_inv {S : Scheds} {s s' : State} {i : Nat} (h : step S s (.jobDone i) = some s') :
    ∃ j c, s.jobs[i]? = some j ∧ j.st = .begun c ∧
      s' = { s with jobs := s.jobs.eraseIdx i,
                    ctxs := if (s.jobs.eraseIdx i).isEmpty then releaseWaiting s.ctxs else s.ctxs } := by
  simp only [step] at h
  split at h
  · split at h
    · cases h; exact ⟨_, _, by assumption, by assumption, rfl⟩
    · cases h
  · cases h

theorem step_ctxWait_inv {S : Scheds} {s s' : State} {k : Nat} (h : step S s (.ctxWait k) = some s') :
    s.ctxs[k]? = some .created ∧
      s' = { s with ctxs := s.ctxs.set k (if s.jobs.isEmpty then .done else .waiting) } := by
  simp only [step] at h
  split at h
  · cases h; exact ⟨by assumption, rfl⟩
  · cases h

end Kit.CronSched

namespace Kit.CronSched

/-- Basic bookkeeping invariant. -/
structure InvA (s : State) : Prop where
  now_le : s.now ≤ s.clock
  run_pc : s.running = true ↔ s.pc ≠ .off
  fired_le : ∀ tm v, s.pc = .parked (some tm) → tm.fired = some v → v ≤ s.clock
  ids_le : ∀ e ∈ s.entries, e.id ≤ s.nextID
  nodup : (s.entries.map (·.id)).Nodup
  log_ids : ∀ r ∈ s.log, r.id ≤ s.nextID
  pend : ∀ id sid, s.pc = .refresh (some (id, sid)) →
    id = s.nextID ∧ (∀ e ∈ s.entries, e.id < id) ∧ (∀ r ∈ s.log, r.id < id)

theorem wakeLoop_ids (S : Scheds) (v : Nat) (l : List Entry) :
    (wakeLoop S v l).1.map (·.id) = l.map (·.id) := by
  induction l with
  | nil => rfl
  | cons e rest ih =>
    simp only [wakeLoop]
    split
    · rfl
    · simp [ih]

theorem wakeLoop_ran_sublist (S : Scheds) (v : Nat) (l : List Entry) :
    (wakeLoop S v l).2.Sublist l := by
  induction l with
  | nil => simp [wakeLoop]
  | cons e rest ih =>
    simp only [wakeLoop]
    split
    · simp
    · exact ih.cons_cons e

theorem insertBT_perm (e : Entry) (l : List Entry) : (insertBT e l).Perm (e :: l) := by
  induction l with
  | nil => simp [insertBT]
  | cons x xs ih =>
    simp only [insertBT]
    split
    · exact List.Perm.refl _
    · exact (List.Perm.cons x ih).trans (List.Perm.swap e x xs)

theorem sortBT_perm (l : List Entry) : (sortBT l).Perm l := by
  induction l with
  | nil => simp [sortBT]
  | cons e es ih =>
    simp only [sortBT]
    exact (insertBT_perm e _).trans (List.Perm.cons e ih)

theorem mem_wakeLoop_id {S : Scheds} {v : Nat} {l : List Entry} {e' : Entry}
    (h : e' ∈ (wakeLoop S v l).1) : ∃ e ∈ l, e.id = e'.id := by
  have : e'.id ∈ (wakeLoop S v l).1.map (·.id) := List.mem_map_of_mem h
  rw [wakeLoop_ids] at this
  obtain ⟨e, he, hid⟩ := List.mem_map.1 this
  exact ⟨e, he, hid⟩

theorem tick_fired_le {tm : Timer} {t v : Nat} (h : (tm.tick t).fired = some v)
    (hold : ∀ v, tm.fired = some v → v ≤ t) : v ≤ t := by
  unfold Timer.tick at h
  split at h
  · exact hold v h
  · split at h
    · have : t = v := by simpa using h
      omega
    · rename_i hn _; rw [hn] at h; cases h

theorem invA_init (t0 : Nat) : InvA (init t0) := by
  constructor <;> simp [init]

theorem invA_step {S : Scheds} {s s' : State} {l : Label} (hA : InvA s)
    (h : step S s l = some s') : InvA s' := by
  obtain ⟨h1, h2, h3, h4, h5, h6, h7⟩ := hA
  cases l with
  | add sid =>
    rcases step_add_inv h with ⟨hr, hp, rfl⟩ | ⟨hr, rfl⟩
    · obtain ⟨tm, hpc⟩ := isParked_iff.1 hp
      constructor <;> simp_all
      · intro e he; have := h4 e he; omega
      · intro r hr; have := h6 r hr; omega
      · refine ⟨?_, ?_⟩
        · intro e he; have := h4 e he; omega
        · intro r hr; have := h6 r hr; omega
    · constructor <;> simp_all
      · intro e he
        rcases he with he | rfl
        · have := h4 e he; omega
        · simp
      · rw [List.nodup_append]
        refine ⟨h5, by simp, ?_⟩
        intro a ha b hb
        simp at hb; subst hb
        obtain ⟨e, he, rfl⟩ := List.mem_map.1 ha
        have := h4 e he; omega
      · intro r hr; have := h6 r hr; omega
  | remove id =>
    rcases step_remove_inv h with ⟨hr, hp, rfl⟩ | ⟨hr, rfl⟩
    · obtain ⟨tm, hpc⟩ := isParked_iff.1 hp
      constructor <;> simp_all
      case nodup => exact h5.sublist ((List.filter_sublist).map _)
    · constructor <;> simp_all
      case nodup => exact h5.sublist ((List.filter_sublist).map _)
  | snapshot =>
    obtain ⟨rfl, _⟩ := step_snapshot_inv h
    exact ⟨h1, h2, h3, h4, h5, h6, h7⟩
  | start =>
    rcases step_start_inv h with ⟨hr, rfl⟩ | ⟨hr, rfl⟩
    · exact ⟨h1, h2, h3, h4, h5, h6, h7⟩
    · constructor <;> simp_all
  | stop =>
    rcases step_stop_inv h with ⟨hr, hp, rfl⟩ | ⟨hr, rfl⟩
    · constructor <;> simp_all
    · constructor <;> simp_all
  | advance t =>
    obtain ⟨hle, ⟨tm, hpc, rfl⟩ | ⟨hpc, rfl⟩⟩ := step_advance_inv h
    · constructor <;> simp_all
      case now_le => omega
      case fired_le =>
        intro tm1 v htm hv
        subst htm
        exact tick_fired_le hv (fun v' hv' => Nat.le_trans (h3 tm v' rfl hv') hle)
    · constructor <;> simp_all
      case now_le => omega
  | boot =>
    obtain ⟨hpc, rfl⟩ := step_boot_inv h
    constructor <;> simp_all
    case nodup => simpa [Function.comp_def] using h5
    case log_ids =>
      intro r hr
      rcases hr with ⟨e, he, rfl⟩ | hr
      · exact h4 e he
      · exact h6 r hr
  | refresh =>
    rcases step_refresh_inv h with ⟨hpc, rfl⟩ | ⟨id, sid, hpc, rfl⟩
    · constructor <;> simp_all
    · obtain ⟨a, b, c⟩ := h7 id sid hpc
      constructor <;> simp_all
      case ids_le =>
        intro e he
        rcases he with he | rfl
        · exact h4 e he
        · simp
      case nodup =>
        rw [List.nodup_append]
        refine ⟨h5, by simp, ?_⟩
        intro x hx y hy
        simp at hy; subst hy
        obtain ⟨e, he, rfl⟩ := List.mem_map.1 hx
        have := h7.1 e he; omega
      case log_ids => simp [schedRec, Rec.id]
  | arm =>
    obtain ⟨hpc, rfl⟩ := step_arm_inv h
    constructor <;> simp_all
    case fired_le =>
      intro tm v harm hf
      unfold armTimer at harm
      split at harm
      · cases harm
      · split at harm
        · cases harm
        · simp only [Option.some.injEq] at harm
          subst harm
          simp only at hf
          split at hf
          · simp only [Option.some.injEq] at hf; omega
          · cases hf
    case ids_le => intro e he; exact h4 e ((sortBT_perm _).mem_iff.1 he)
    case nodup => exact ((sortBT_perm s.entries).map _).nodup_iff.2 h5
  | wake =>
    obtain ⟨tm, v, hpc, hf, rfl⟩ := step_wake_inv h
    constructor <;> simp_all
    case ids_le =>
      intro e he
      obtain ⟨e0, he0, hid⟩ := mem_wakeLoop_id he
      rw [← hid]; exact h4 e0 he0
    case nodup =>
      have := wakeLoop_ids S v s.entries
      rw [this]; exact h5
    case log_ids =>
      intro r hr
      rcases hr with ⟨e, he, rfl⟩ | hr
      · exact h4 e ((wakeLoop_ran_sublist S v s.entries).subset he)
      · exact h6 r hr
  | jobBegin i =>
    obtain ⟨j, _, _, rfl⟩ := step_jobBegin_inv h
    exact ⟨h1, h2, h3, h4, h5, h6, h7⟩
  | jobDone i =>
    obtain ⟨j, c, _, _, rfl⟩ := step_jobDone_inv h
    exact ⟨h1, h2, h3, h4, h5, h6, h7⟩
  | ctxWait k =>
    obtain ⟨_, rfl⟩ := step_ctxWait_inv h
    exact ⟨h1, h2, h3, h4, h5, h6, h7⟩
end Kit.CronSched
