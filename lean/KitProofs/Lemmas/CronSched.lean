import KitModel.CronSched
/-!
Helper lemmas for property C05 (cron scheduler run loop): basic facts about `step`, the frame
conditions of every label, and the inductive invariants used by `KitProofs.Props.C05`.
-/
namespace Kit.CronSched

/-- Schedules are well behaved: `Next(t)` is zero ("never") or strictly later than `t`
(cron.go:61 "Next returns the next activation time, later than the given time"). -/
def WB (S : Scheds) : Prop := ∀ sid t, S sid t = 0 ∨ t < S sid t

/-- The most recent record of entry `id` (the log is newest first). -/
def lastRec (id : Nat) (log : List Rec) : Option Rec := log.find? (fun r => r.id == id)

/-- The activation launched by the most recent `run` record of `id`, 0 if none. -/
def lastRunAct (id : Nat) (log : List Rec) : Nat :=
  match log.find? (fun r => r.isRun && r.id == id) with
  | some r => r.act
  | none => 0

/-- The scheduler goroutine exists and has computed every entry's `Next`. -/
def live : Pc → Bool
  | .arm => true
  | .parked _ => true
  | .refresh _ => true
  | _ => false

theorem runFrom_append (S : Scheds) (s : State) (h1 h2 : List Label) :
    runFrom S s (h1 ++ h2) = (runFrom S s h1).bind (fun s' => runFrom S s' h2) := by
  induction h1 generalizing s with
  | nil => simp [runFrom]
  | cons l ls ih =>
    simp only [List.cons_append, runFrom]
    cases step S s l with
    | none => simp
    | some s' => simpa using ih s'

theorem reach_runFrom {S : Scheds} {s s' : State} (hr : Reach S s) (h : List Label)
    (hs : runFrom S s h = some s') : Reach S s' := by
  induction h generalizing s with
  | nil => simp [runFrom] at hs; subst hs; exact hr
  | cons l ls ih =>
    simp only [runFrom] at hs
    cases hl : step S s l with
    | none => simp [hl] at hs
    | some s1 => rw [hl] at hs; exact ih (Reach.step l hr hl) hs

/-- Every reachable state is the result of running some history from an initial state. -/
theorem reach_iff_history {S : Scheds} {s : State} :
    Reach S s ↔ ∃ t0 h, runFrom S (init t0) h = some s := by
  constructor
  · intro hr
    induction hr with
    | init t0 => exact ⟨t0, [], rfl⟩
    | step l _ hl ih =>
      obtain ⟨t0, h, hh⟩ := ih
      exact ⟨t0, h ++ [l], by simp [runFrom_append, hh, runFrom, hl]⟩
  · rintro ⟨t0, h, hh⟩
    exact reach_runFrom (Reach.init t0) h hh

/-- Invariants are proved by induction over reachability. -/
theorem inv_of_inductive {S : Scheds} (Inv : State → Prop) (h0 : ∀ t0, Inv (init t0))
    (hs : ∀ s l s', Reach S s → Inv s → step S s l = some s' → Inv s') :
    ∀ s, Reach S s → Inv s := by
  intro s hr
  induction hr with
  | init t0 => exact h0 t0
  | step l hr hl ih => exact hs _ l _ hr ih hl

end Kit.CronSched

namespace Kit.CronSched

/-! ### inversion of `step`, label by label -/

theorem isParked_iff {pc : Pc} : isParked pc = true ↔ ∃ tm, pc = .parked tm := by
  cases pc <;> simp [isParked]

theorem step_add_inv {S : Scheds} {s s' : State} {sid : Nat} (h : step S s (.add sid) = some s') :
    (s.running = true ∧ isParked s.pc = true ∧
      s' = { s with nextID := s.nextID + 1, pc := .refresh (some (s.nextID + 1, sid)) }) ∨
    (s.running = false ∧
      s' = { s with nextID := s.nextID + 1,
                    entries := s.entries ++ [{ id := s.nextID + 1, sid := sid, next := 0, prev := 0 }] }) := by
  simp only [step] at h
  split at h
  · split at h
    · cases h; left; simp_all
    · cases h
  · cases h; right; simp_all

theorem step_remove_inv {S : Scheds} {s s' : State} {id : Nat} (h : step S s (.remove id) = some s') :
    (s.running = true ∧ isParked s.pc = true ∧
      s' = { s with entries := s.entries.filter (fun e => e.id ≠ id), pc := .refresh none }) ∨
    (s.running = false ∧ s' = { s with entries := s.entries.filter (fun e => e.id ≠ id) }) := by
  simp only [step] at h
  split at h
  · split at h
    · cases h; left; simp_all
    · cases h
  · cases h; right; simp_all

theorem step_snapshot_inv {S : Scheds} {s s' : State} (h : step S s .snapshot = some s') :
    s' = s ∧ (s.running = true → isParked s.pc = true) := by
  simp only [step] at h
  split at h
  · split at h
    · cases h; simp_all
    · cases h
  · cases h; simp_all

theorem step_start_inv {S : Scheds} {s s' : State} (h : step S s .start = some s') :
    (s.running = true ∧ s' = s) ∨ (s.running = false ∧ s' = { s with running := true, pc := .boot }) := by
  simp only [step] at h
  split at h
  · cases h; left; simp_all
  · cases h; right; simp_all

theorem step_stop_inv {S : Scheds} {s s' : State} (h : step S s .stop = some s') :
    (s.running = true ∧ isParked s.pc = true ∧
      s' = { s with running := false, pc := .off, ctxs := s.ctxs ++ [.created] }) ∨
    (s.running = false ∧ s' = { s with ctxs := s.ctxs ++ [.created] }) := by
  simp only [step] at h
  split at h
  · split at h
    · cases h; left; simp_all
    · cases h
  · cases h; right; simp_all

theorem step_advance_inv {S : Scheds} {s s' : State} {t : Nat} (h : step S s (.advance t) = some s') :
    s.clock ≤ t ∧
    ((∃ tm, s.pc = .parked (some tm) ∧ s' = { s with clock := t, pc := .parked (some (tm.tick t)) }) ∨
     ((∀ tm, s.pc ≠ .parked (some tm)) ∧ s' = { s with clock := t })) := by
  simp only [step] at h
  split at h
  · cases h
  · rename_i hlt
    refine ⟨Nat.le_of_not_lt hlt, ?_⟩
    split at h
    · cases h; left; exact ⟨_, by assumption, rfl⟩
    · cases h; right
      refine ⟨?_, rfl⟩
      intro tm htm
      rename_i hne
      exact hne tm htm

theorem step_boot_inv {S : Scheds} {s s' : State} (h : step S s .boot = some s') :
    s.pc = .boot ∧
    s' = { s with now := s.clock,
                  entries := s.entries.map (fun e => { e with next := S e.sid s.clock }),
                  pc := .arm,
                  log := (s.entries.map (fun e => { e with next := S e.sid s.clock })).map (schedRec s.clock) ++ s.log } := by
  simp only [step] at h
  split at h
  · cases h; exact ⟨by assumption, rfl⟩
  · cases h

theorem step_refresh_inv {S : Scheds} {s s' : State} (h : step S s .refresh = some s') :
    (s.pc = .refresh none ∧ s' = { s with now := s.clock, pc := .arm }) ∨
    (∃ id sid, s.pc = .refresh (some (id, sid)) ∧
      s' = { s with now := s.clock,
                    entries := s.entries ++ [{ id := id, sid := sid, next := S sid s.clock, prev := 0 }],
                    pc := .arm,
                    log := schedRec s.clock { id := id, sid := sid, next := S sid s.clock, prev := 0 } :: s.log }) := by
  simp only [step] at h
  split at h
  · cases h; left; exact ⟨by assumption, rfl⟩
  · cases h; right; exact ⟨_, _, by assumption, rfl⟩
  · cases h

theorem step_arm_inv {S : Scheds} {s s' : State} (h : step S s .arm = some s') :
    s.pc = .arm ∧
    s' = { s with entries := sortBT s.entries,
                  pc := .parked (armTimer s.clock s.now (sortBT s.entries)) } := by
  simp only [step] at h
  split at h
  · cases h; exact ⟨by assumption, rfl⟩
  · cases h

theorem step_wake_inv {S : Scheds} {s s' : State} (h : step S s .wake = some s') :
    ∃ tm v, s.pc = .parked (some tm) ∧ tm.fired = some v ∧
      s' = { s with now := v, entries := (wakeLoop S v s.entries).1, pc := .arm,
                    jobs := s.jobs ++ (wakeLoop S v s.entries).2.map (launchJob v),
                    log := (wakeLoop S v s.entries).2.map (runRec v s.clock) ++ s.log } := by
  simp only [step] at h
  split at h
  · split at h
    · cases h; exact ⟨_, _, by assumption, by assumption, rfl⟩
    · cases h
  · cases h

theorem step_jobBegin_inv {S : Scheds} {s s' : State} {i : Nat} (h : step S s (.jobBegin i) = some s') :
    ∃ j, s.jobs[i]? = some j ∧ j.st = .launched ∧
      s' = { s with jobs := s.jobs.set i { j with st := .begun s.clock } } := by
  simp only [step] at h
  split at h
  · split at h
    · cases h; exact ⟨_, by assumption, by assumption, rfl⟩
    · cases h
  · cases h

theorem step_jobDone_inv {S : Scheds} {s s' : State} {i : Nat} (h : step S s (.jobDone i) = some s') :
    ∃ j c, s.jobs[i]? = some j ∧ j.st = .begun c ∧
      s' = { s with jobs := s.jobs.eraseIdx i,
                    ctxs := if (s.jobs.eraseIdx i).isEmpty then releaseWaiting s.ctxs else s.ctxs } := by
  simp only [step] at h
  split at h
  · split at h
    · cases h; exact ⟨_, _, by assumption, by assumption, rfl⟩
    · cases h
  · cases h

theorem step_ctxWait_inv {S : Scheds} {s s' : State} {k : Nat} (h : step S s (.ctxWait k) = some s') :
    s.ctxs[k]? = some .created ∧
      s' = { s with ctxs := s.ctxs.set k (if s.jobs.isEmpty then .done else .waiting) } := by
  simp only [step] at h
  split at h
  · cases h; exact ⟨by assumption, rfl⟩
  · cases h

end Kit.CronSched

namespace Kit.CronSched

/-- Basic bookkeeping invariant. -/
structure InvA (s : State) : Prop where
  now_le : s.now ≤ s.clock
  run_pc : s.running = true ↔ s.pc ≠ .off
  fired_le : ∀ tm v, s.pc = .parked (some tm) → tm.fired = some v → v ≤ s.clock
  ids_le : ∀ e ∈ s.entries, e.id ≤ s.nextID
  nodup : (s.entries.map (·.id)).Nodup
  log_ids : ∀ r ∈ s.log, r.id ≤ s.nextID
  pend : ∀ id sid, s.pc = .refresh (some (id, sid)) →
    id = s.nextID ∧ (∀ e ∈ s.entries, e.id < id) ∧ (∀ r ∈ s.log, r.id < id)

theorem wakeLoop_ids (S : Scheds) (v : Nat) (l : List Entry) :
    (wakeLoop S v l).1.map (·.id) = l.map (·.id) := by
  induction l with
  | nil => rfl
  | cons e rest ih =>
    simp only [wakeLoop]
    split
    · rfl
    · simp [ih]

theorem wakeLoop_ran_sublist (S : Scheds) (v : Nat) (l : List Entry) :
    (wakeLoop S v l).2.Sublist l := by
  induction l with
  | nil => simp [wakeLoop]
  | cons e rest ih =>
    simp only [wakeLoop]
    split
    · simp
    · exact ih.cons_cons e

theorem insertBT_perm (e : Entry) (l : List Entry) : (insertBT e l).Perm (e :: l) := by
  induction l with
  | nil => simp [insertBT]
  | cons x xs ih =>
    simp only [insertBT]
    split
    · exact List.Perm.refl _
    · exact (List.Perm.cons x ih).trans (List.Perm.swap e x xs)

theorem sortBT_perm (l : List Entry) : (sortBT l).Perm l := by
  induction l with
  | nil => simp [sortBT]
  | cons e es ih =>
    simp only [sortBT]
    exact (insertBT_perm e _).trans (List.Perm.cons e ih)

theorem mem_wakeLoop_id {S : Scheds} {v : Nat} {l : List Entry} {e' : Entry}
    (h : e' ∈ (wakeLoop S v l).1) : ∃ e ∈ l, e.id = e'.id := by
  have : e'.id ∈ (wakeLoop S v l).1.map (·.id) := List.mem_map_of_mem h
  rw [wakeLoop_ids] at this
  obtain ⟨e, he, hid⟩ := List.mem_map.1 this
  exact ⟨e, he, hid⟩

theorem tick_fired_le {tm : Timer} {t v : Nat} (h : (tm.tick t).fired = some v)
    (hold : ∀ v, tm.fired = some v → v ≤ t) : v ≤ t := by
  unfold Timer.tick at h
  split at h
  · exact hold v h
  · split at h
    · have : t = v := by simpa using h
      omega
    · rename_i hn _; rw [hn] at h; cases h

theorem invA_init (t0 : Nat) : InvA (init t0) := by
  constructor <;> simp [init]

theorem invA_step {S : Scheds} {s s' : State} {l : Label} (hA : InvA s)
    (h : step S s l = some s') : InvA s' := by
  obtain ⟨h1, h2, h3, h4, h5, h6, h7⟩ := hA
  cases l with
  | add sid =>
    rcases step_add_inv h with ⟨hr, hp, rfl⟩ | ⟨hr, rfl⟩
    · obtain ⟨tm, hpc⟩ := isParked_iff.1 hp
      constructor <;> simp_all
      · intro e he; have := h4 e he; omega
      · intro r hr; have := h6 r hr; omega
      · refine ⟨?_, ?_⟩
        · intro e he; have := h4 e he; omega
        · intro r hr; have := h6 r hr; omega
    · constructor <;> simp_all
      · intro e he
        rcases he with he | rfl
        · have := h4 e he; omega
        · simp
      · rw [List.nodup_append]
        refine ⟨h5, by simp, ?_⟩
        intro a ha b hb
        simp at hb; subst hb
        obtain ⟨e, he, rfl⟩ := List.mem_map.1 ha
        have := h4 e he; omega
      · intro r hr; have := h6 r hr; omega
  | remove id =>
    rcases step_remove_inv h with ⟨hr, hp, rfl⟩ | ⟨hr, rfl⟩
    · obtain ⟨tm, hpc⟩ := isParked_iff.1 hp
      constructor <;> simp_all
      case nodup => exact h5.sublist ((List.filter_sublist).map _)
    · constructor <;> simp_all
      case nodup => exact h5.sublist ((List.filter_sublist).map _)
  | snapshot =>
    obtain ⟨rfl, _⟩ := step_snapshot_inv h
    exact ⟨h1, h2, h3, h4, h5, h6, h7⟩
  | start =>
    rcases step_start_inv h with ⟨hr, rfl⟩ | ⟨hr, rfl⟩
    · exact ⟨h1, h2, h3, h4, h5, h6, h7⟩
    · constructor <;> simp_all
  | stop =>
    rcases step_stop_inv h with ⟨hr, hp, rfl⟩ | ⟨hr, rfl⟩
    · constructor <;> simp_all
    · constructor <;> simp_all
  | advance t =>
    obtain ⟨hle, ⟨tm, hpc, rfl⟩ | ⟨hpc, rfl⟩⟩ := step_advance_inv h
    · constructor <;> simp_all
      case now_le => omega
      case fired_le =>
        intro tm1 v htm hv
        subst htm
        exact tick_fired_le hv (fun v' hv' => Nat.le_trans (h3 tm v' rfl hv') hle)
    · constructor <;> simp_all
      case now_le => omega
  | boot =>
    obtain ⟨hpc, rfl⟩ := step_boot_inv h
    constructor <;> simp_all
    case nodup => simpa [Function.comp_def] using h5
    case log_ids =>
      intro r hr
      rcases hr with ⟨e, he, rfl⟩ | hr
      · exact h4 e he
      · exact h6 r hr
  | refresh =>
    rcases step_refresh_inv h with ⟨hpc, rfl⟩ | ⟨id, sid, hpc, rfl⟩
    · constructor <;> simp_all
    · obtain ⟨a, b, c⟩ := h7 id sid hpc
      constructor <;> simp_all
      case ids_le =>
        intro e he
        rcases he with he | rfl
        · exact h4 e he
        · simp
      case nodup =>
        rw [List.nodup_append]
        refine ⟨h5, by simp, ?_⟩
        intro x hx y hy
        simp at hy; subst hy
        obtain ⟨e, he, rfl⟩ := List.mem_map.1 hx
        have := h7.1 e he; omega
      case log_ids => simp [schedRec, Rec.id]
  | arm =>
    obtain ⟨hpc, rfl⟩ := step_arm_inv h
    constructor <;> simp_all
    case fired_le =>
      intro tm v harm hf
      unfold armTimer at harm
      split at harm
      · cases harm
      · split at harm
        · cases harm
        · simp only [Option.some.injEq] at harm
          subst harm
          simp only at hf
          split at hf
          · simp only [Option.some.injEq] at hf; omega
          · cases hf
    case ids_le => intro e he; exact h4 e ((sortBT_perm _).mem_iff.1 he)
    case nodup => exact ((sortBT_perm s.entries).map _).nodup_iff.2 h5
  | wake =>
    obtain ⟨tm, v, hpc, hf, rfl⟩ := step_wake_inv h
    constructor <;> simp_all
    case ids_le =>
      intro e he
      obtain ⟨e0, he0, hid⟩ := mem_wakeLoop_id he
      rw [← hid]; exact h4 e0 he0
    case nodup =>
      have := wakeLoop_ids S v s.entries
      rw [this]; exact h5
    case log_ids =>
      intro r hr
      rcases hr with ⟨e, he, rfl⟩ | hr
      · exact h4 e ((wakeLoop_ran_sublist S v s.entries).subset he)
      · exact h6 r hr
  | jobBegin i =>
    obtain ⟨j, _, _, rfl⟩ := step_jobBegin_inv h
    exact ⟨h1, h2, h3, h4, h5, h6, h7⟩
  | jobDone i =>
    obtain ⟨j, c, _, _, rfl⟩ := step_jobDone_inv h
    exact ⟨h1, h2, h3, h4, h5, h6, h7⟩
  | ctxWait k =>
    obtain ⟨_, rfl⟩ := step_ctxWait_inv h
    exact ⟨h1, h2, h3, h4, h5, h6, h7⟩
end Kit.CronSched

namespace Kit.CronSched

/-- What a record must satisfy given the previous record of the same entry. -/
def RecOK (S : Scheds) (r : Rec) (prev : Option Rec) : Prop :=
  match r with
  | .sched _ sid t a => a = S sid t ∧ ∀ p, prev = some p → p.sid = sid ∧ p.basis ≤ t
  | .run _ sid a w c => ∃ p, prev = some p ∧ p.sid = sid ∧ a = S sid p.basis ∧ a ≠ 0 ∧ a ≤ w ∧ w ≤ c

/-- The activation chain: every record is justified by the previous record of the same entry. -/
def ChainOK (S : Scheds) : List Rec → Prop
  | [] => True
  | r :: older => RecOK S r (lastRec r.id older) ∧ ChainOK S older

theorem lastRec_none_of_lt {id : Nat} {log : List Rec} (h : ∀ r ∈ log, r.id < id) :
    lastRec id log = none := by
  unfold lastRec
  rw [List.find?_eq_none]
  intro r hr
  have := h r hr
  simp; omega

theorem lastRunAct_zero_of_lt {id : Nat} {log : List Rec} (h : ∀ r ∈ log, r.id < id) :
    lastRunAct id log = 0 := by
  unfold lastRunAct
  have : log.find? (fun r => r.isRun && r.id == id) = none := by
    rw [List.find?_eq_none]
    intro r hr
    have := h r hr
    simp; intro _; omega
  rw [this]

theorem find_id_of_nodup {es : List Entry} {e : Entry} (hn : (es.map (·.id)).Nodup) (he : e ∈ es) :
    es.find? (fun x => x.id == e.id) = some e := by
  induction es with
  | nil => cases he
  | cons x xs ih =>
    simp only [List.map_cons, List.nodup_cons] at hn
    simp only [List.find?_cons]
    rcases List.mem_cons.1 he with rfl | he'
    · simp
    · have hne : x.id ≠ e.id := by
        intro heq
        exact hn.1 (heq ▸ List.mem_map_of_mem he')
      have hb : (x.id == e.id) = false := by simp [hne]
      simp [hb, ih hn.2 he']

theorem find_id_none {es : List Entry} {id : Nat} (h : ∀ e ∈ es, e.id ≠ id) :
    es.find? (fun x => x.id == id) = none := by
  rw [List.find?_eq_none]
  intro e he
  simpa using h e he

theorem lastRec_map_append (f : Entry → Rec) (hf : ∀ e, (f e).id = e.id) (es : List Entry)
    (log : List Rec) (id : Nat) :
    lastRec id (es.map f ++ log) =
      match es.find? (fun e => e.id == id) with
      | some e => some (f e)
      | none => lastRec id log := by
  induction es with
  | nil => simp [lastRec]
  | cons x xs ih =>
    simp only [List.map_cons, List.cons_append, lastRec, List.find?_cons, hf]
    by_cases hx : x.id = id
    · simp [hx]
    · have hb : (x.id == id) = false := by simp [hx]
      simp only [lastRec] at ih
      simp [hb, ih]

theorem chainOK_map_append (S : Scheds) (f : Entry → Rec) (hf : ∀ e, (f e).id = e.id)
    (es : List Entry) (log : List Rec) (hn : (es.map (·.id)).Nodup) (hc : ChainOK S log)
    (hok : ∀ e ∈ es, RecOK S (f e) (lastRec e.id log)) : ChainOK S (es.map f ++ log) := by
  induction es with
  | nil => simpa using hc
  | cons x xs ih =>
    simp only [List.map_cons, List.nodup_cons] at hn
    simp only [List.map_cons, List.cons_append, ChainOK, hf]
    refine ⟨?_, ih hn.2 (fun e he => hok e (List.mem_cons_of_mem _ he))⟩
    rw [lastRec_map_append f hf xs log x.id, find_id_none]
    · exact hok x (List.mem_cons_self)
    · intro e he heq
      exact hn.1 (heq ▸ List.mem_map_of_mem he)

@[simp] theorem runRec_isRun (v c : Nat) (e : Entry) : (runRec v c e).isRun = true := rfl
@[simp] theorem runRec_id (v c : Nat) (e : Entry) : (runRec v c e).id = e.id := rfl
@[simp] theorem runRec_sid (v c : Nat) (e : Entry) : (runRec v c e).sid = e.sid := rfl
@[simp] theorem runRec_act (v c : Nat) (e : Entry) : (runRec v c e).act = e.next := rfl
@[simp] theorem runRec_basis (v c : Nat) (e : Entry) : (runRec v c e).basis = v := rfl
@[simp] theorem schedRec_isRun (t : Nat) (e : Entry) : (schedRec t e).isRun = false := rfl
@[simp] theorem schedRec_id (t : Nat) (e : Entry) : (schedRec t e).id = e.id := rfl
@[simp] theorem schedRec_sid (t : Nat) (e : Entry) : (schedRec t e).sid = e.sid := rfl
@[simp] theorem schedRec_basis (t : Nat) (e : Entry) : (schedRec t e).basis = t := rfl

theorem lastRunAct_cons (r : Rec) (log : List Rec) (id : Nat) :
    lastRunAct id (r :: log) = if r.isRun && r.id == id then r.act else lastRunAct id log := by
  unfold lastRunAct
  simp only [List.find?_cons]
  cases h : (r.isRun && r.id == id) <;> simp

theorem lastRunAct_runs (v c : Nat) (es : List Entry) (log : List Rec) (id : Nat) :
    lastRunAct id (es.map (runRec v c) ++ log) =
      match es.find? (fun e => e.id == id) with
      | some e => e.next
      | none => lastRunAct id log := by
  induction es with
  | nil => simp
  | cons x xs ih =>
    simp only [List.map_cons, List.cons_append, lastRunAct_cons, List.find?_cons, runRec_isRun,
      runRec_id, runRec_act, Bool.true_and]
    cases hb : (x.id == id)
    · simpa using ih
    · simp

theorem lastRunAct_scheds (t : Nat) (es : List Entry) (log : List Rec) (id : Nat) :
    lastRunAct id (es.map (schedRec t) ++ log) = lastRunAct id log := by
  induction es with
  | nil => simp
  | cons x xs ih =>
    simp only [List.map_cons, List.cons_append, lastRunAct_cons, schedRec_isRun, Bool.false_and]
    simpa using ih

/-- Chain invariant. -/
structure InvB (S : Scheds) (s : State) : Prop where
  chain : ChainOK S s.log
  basis_le : ∀ r ∈ s.log, r.basis ≤ s.clock
  sid_ok : ∀ e ∈ s.entries, ∀ r, lastRec e.id s.log = some r → r.sid = e.sid
  next_ok : live s.pc = true → ∀ e ∈ s.entries, ∃ r, lastRec e.id s.log = some r ∧ e.next = S e.sid r.basis
  prev_ok : ∀ e ∈ s.entries, e.prev = lastRunAct e.id s.log

theorem invB_init (S : Scheds) (t0 : Nat) : InvB S (init t0) := by
  constructor <;> simp [init, ChainOK, live]

theorem invB_frame {S : Scheds} {s s' : State} (hB : InvB S s) (hlog : s'.log = s.log)
    (hent : ∀ e ∈ s'.entries, e ∈ s.entries) (hclk : s.clock ≤ s'.clock)
    (hlive : live s'.pc = true → live s.pc = true) : InvB S s' := by
  obtain ⟨b1, b2, b3, b4, b5⟩ := hB
  refine ⟨hlog ▸ b1, ?_, ?_, ?_, ?_⟩
  · intro r hr; rw [hlog] at hr; exact Nat.le_trans (b2 r hr) hclk
  · intro e he r hr; rw [hlog] at hr; exact b3 e (hent e he) r hr
  · intro hl e he; rw [hlog]; exact b4 (hlive hl) e (hent e he)
  · intro e he; rw [hlog]; exact b5 e (hent e he)
end Kit.CronSched

namespace Kit.CronSched

theorem lastRec_cons (r : Rec) (log : List Rec) (id : Nat) :
    lastRec id (r :: log) = if r.id == id then some r else lastRec id log := by
  unfold lastRec
  simp only [List.find?_cons]
  cases h : (r.id == id) <;> simp

theorem lastRec_mem {id : Nat} {log : List Rec} {r : Rec} (h : lastRec id log = some r) :
    r ∈ log ∧ r.id = id := by
  unfold lastRec at h
  exact ⟨List.mem_of_find?_eq_some h, by simpa using List.find?_some h⟩

theorem wakeLoop_ran {S : Scheds} {v : Nat} {l : List Entry} :
    ∀ e ∈ (wakeLoop S v l).2, e ∈ l ∧ e.next ≠ 0 ∧ e.next ≤ v := by
  induction l with
  | nil => simp [wakeLoop]
  | cons x xs ih =>
    simp only [wakeLoop]
    split
    · simp
    · rename_i hc
      intro e he
      rcases List.mem_cons.1 he with rfl | he'
      · refine ⟨List.mem_cons_self, ?_, ?_⟩ <;> omega
      · obtain ⟨a, b, c⟩ := ih e he'
        exact ⟨List.mem_cons_of_mem _ a, b, c⟩

theorem wakeLoop_spec {S : Scheds} {v : Nat} {l : List Entry} (hn : (l.map (·.id)).Nodup) :
    ∀ e' ∈ (wakeLoop S v l).1,
      (e' ∈ l ∧ ∀ r ∈ (wakeLoop S v l).2, r.id ≠ e'.id) ∨
      (∃ e ∈ (wakeLoop S v l).2, e' = { e with prev := e.next, next := S e.sid v }) := by
  induction l with
  | nil => simp [wakeLoop]
  | cons x xs ih =>
    simp only [List.map_cons, List.nodup_cons] at hn
    simp only [wakeLoop]
    split
    · intro e' he'; left; exact ⟨he', by simp⟩
    · intro e' he'
      rcases List.mem_cons.1 he' with rfl | he''
      · right; exact ⟨x, List.mem_cons_self, rfl⟩
      · rcases ih hn.2 e' he'' with ⟨hm, hne⟩ | ⟨e, he, rfl⟩
        · left
          refine ⟨List.mem_cons_of_mem _ hm, ?_⟩
          intro r hr
          rcases List.mem_cons.1 hr with rfl | hr'
          · intro heq
            exact hn.1 (heq ▸ List.mem_map_of_mem hm)
          · exact hne r hr'
        · right; exact ⟨e, List.mem_cons_of_mem _ he, rfl⟩

theorem invB_step {S : Scheds} {s s' : State} {l : Label} (hA : InvA s) (hB : InvB S s)
    (h : step S s l = some s') : InvB S s' := by
  cases l with
  | add sid =>
    rcases step_add_inv h with ⟨hr, hp, rfl⟩ | ⟨hr, rfl⟩
    · obtain ⟨tm, hpc⟩ := isParked_iff.1 hp
      exact invB_frame hB rfl (fun e he => he) (Nat.le_refl _) (by simp [hpc, live])
    · obtain ⟨b1, b2, b3, b4, b5⟩ := hB
      have hoff : s.pc = .off := by
        have := hA.run_pc; simp [hr] at this; exact this
      have hlt : ∀ r ∈ s.log, r.id < s.nextID + 1 := fun r hr => Nat.lt_succ_of_le (hA.log_ids r hr)
      refine ⟨b1, b2, ?_, ?_, ?_⟩
      · intro e he r hr'
        simp only [List.mem_append, List.mem_singleton] at he
        rcases he with he | rfl
        · exact b3 e he r hr'
        · simp only [lastRec_none_of_lt hlt] at hr'; cases hr'
      · intro hl; simp [hoff, live] at hl
      · intro e he
        simp only [List.mem_append, List.mem_singleton] at he
        rcases he with he | rfl
        · exact b5 e he
        · simp only [lastRunAct_zero_of_lt hlt]
  | remove id =>
    rcases step_remove_inv h with ⟨hr, hp, rfl⟩ | ⟨hr, rfl⟩
    · obtain ⟨tm, hpc⟩ := isParked_iff.1 hp
      exact invB_frame hB rfl (fun e he => (List.mem_filter.1 he).1) (Nat.le_refl _) (by simp [hpc, live])
    · exact invB_frame hB rfl (fun e he => (List.mem_filter.1 he).1) (Nat.le_refl _) (fun x => x)
  | snapshot =>
    obtain ⟨rfl, _⟩ := step_snapshot_inv h
    exact hB
  | start =>
    rcases step_start_inv h with ⟨hr, rfl⟩ | ⟨hr, rfl⟩
    · exact hB
    · exact invB_frame hB rfl (fun e he => he) (Nat.le_refl _) (by simp [live])
  | stop =>
    rcases step_stop_inv h with ⟨hr, hp, rfl⟩ | ⟨hr, rfl⟩
    · exact invB_frame hB rfl (fun e he => he) (Nat.le_refl _) (by simp [live])
    · exact invB_frame hB rfl (fun e he => he) (Nat.le_refl _) (fun x => x)
  | advance t =>
    obtain ⟨hle, ⟨tm, hpc, rfl⟩ | ⟨hpc, rfl⟩⟩ := step_advance_inv h
    · exact invB_frame hB rfl (fun e he => he) hle (by simp [hpc, live])
    · exact invB_frame hB rfl (fun e he => he) hle (fun x => x)
  | boot =>
    obtain ⟨hpc, rfl⟩ := step_boot_inv h
    obtain ⟨b1, b2, b3, b4, b5⟩ := hB
    have hids : (s.entries.map (fun e => ({ e with next := S e.sid s.clock } : Entry))).map (·.id)
        = s.entries.map (·.id) := by simp [Function.comp_def]
    have hnd : ((s.entries.map (fun e => ({ e with next := S e.sid s.clock } : Entry))).map (·.id)).Nodup := by
      rw [hids]; exact hA.nodup
    refine ⟨?_, ?_, ?_, ?_, ?_⟩
    · refine chainOK_map_append S (schedRec s.clock) (fun e => rfl) _ _ hnd b1 ?_
      intro e' he'
      obtain ⟨e, he, rfl⟩ := List.mem_map.1 he'
      refine ⟨rfl, ?_⟩
      intro p hp
      exact ⟨b3 e he p hp, b2 p (lastRec_mem hp).1⟩
    · intro r hr
      rcases List.mem_append.1 hr with hr | hr
      · obtain ⟨e, _, rfl⟩ := List.mem_map.1 hr
        simp
      · exact b2 r hr
    · intro e' he' r hr
      dsimp only at he' hr
      rw [lastRec_map_append (schedRec s.clock) (fun e => rfl), find_id_of_nodup hnd he'] at hr
      cases hr; rfl
    · intro _ e' he'
      dsimp only at he' ⊢
      rw [lastRec_map_append (schedRec s.clock) (fun e => rfl), find_id_of_nodup hnd he']
      refine ⟨_, rfl, ?_⟩
      obtain ⟨e, he, rfl⟩ := List.mem_map.1 he'
      rfl
    · intro e' he'
      dsimp only at he' ⊢
      rw [lastRunAct_scheds]
      obtain ⟨e, he, rfl⟩ := List.mem_map.1 he'
      exact b5 e he
  | refresh =>
    rcases step_refresh_inv h with ⟨hpc, rfl⟩ | ⟨id, sid, hpc, rfl⟩
    · exact invB_frame hB rfl (fun e he => he) (Nat.le_refl _) (by simp [hpc, live])
    · obtain ⟨b1, b2, b3, b4, b5⟩ := hB
      obtain ⟨hid, hlt, hlog⟩ := hA.pend id sid hpc
      have hlive : live s.pc = true := by simp [hpc, live]
      refine ⟨?_, ?_, ?_, ?_, ?_⟩
      · refine ⟨?_, b1⟩
        simp only [schedRec_id, lastRec_none_of_lt hlog]
        exact ⟨rfl, fun p hp => by cases hp⟩
      · intro r hr
        rcases List.mem_cons.1 hr with rfl | hr
        · simp
        · exact b2 r hr
      · intro e he r hr
        dsimp only at he hr
        rw [lastRec_cons] at hr
        simp only [List.mem_append, List.mem_singleton] at he
        rcases he with he | rfl
        · have hne : (id == e.id) = false := by have := hlt e he; simp; omega
          simp only [schedRec_id, hne] at hr
          exact b3 e he r hr
        · simp only [schedRec_id, beq_self_eq_true, if_true] at hr
          cases hr; rfl
      · intro _ e he
        dsimp only at he ⊢
        rw [lastRec_cons]
        simp only [List.mem_append, List.mem_singleton] at he
        rcases he with he | rfl
        · have hne : (id == e.id) = false := by have := hlt e he; simp; omega
          simp only [schedRec_id, hne]
          exact b4 hlive e he
        · simp only [schedRec_id, beq_self_eq_true, if_true]
          exact ⟨_, rfl, rfl⟩
      · intro e he
        dsimp only at he ⊢
        rw [lastRunAct_cons]
        simp only [schedRec_isRun, Bool.false_and]
        simp only [List.mem_append, List.mem_singleton] at he
        rcases he with he | rfl
        · exact b5 e he
        · simp [lastRunAct_zero_of_lt hlog]
  | arm =>
    obtain ⟨hpc, rfl⟩ := step_arm_inv h
    exact invB_frame hB rfl (fun e he => (sortBT_perm _).mem_iff.1 he) (Nat.le_refl _) (by simp [hpc, live])
  | wake =>
    obtain ⟨tm, v, hpc, hf, rfl⟩ := step_wake_inv h
    obtain ⟨b1, b2, b3, b4, b5⟩ := hB
    have hlive : live s.pc = true := by simp [hpc, live]
    have hv : v ≤ s.clock := hA.fired_le tm v hpc hf
    have hsub := wakeLoop_ran_sublist S v s.entries
    have hnd : ((wakeLoop S v s.entries).2.map (·.id)).Nodup := hA.nodup.sublist (hsub.map _)
    have hspec := wakeLoop_spec (S := S) (v := v) hA.nodup
    refine ⟨?_, ?_, ?_, ?_, ?_⟩
    · refine chainOK_map_append S (runRec v s.clock) (fun e => rfl) _ _ hnd b1 ?_
      intro e he
      obtain ⟨hm, hnz, hle⟩ := wakeLoop_ran e he
      obtain ⟨p, hp, hnext⟩ := b4 hlive e hm
      exact ⟨p, hp, b3 e hm p hp, hnext, hnz, hle, hv⟩
    · intro r hr
      rcases List.mem_append.1 hr with hr | hr
      · obtain ⟨e, _, rfl⟩ := List.mem_map.1 hr
        simpa using hv
      · exact b2 r hr
    · intro e' he' r hr
      dsimp only at he' hr
      rw [lastRec_map_append (runRec v s.clock) (fun e => rfl)] at hr
      rcases hspec e' he' with ⟨hm, hne⟩ | ⟨e, he, rfl⟩
      · rw [find_id_none hne] at hr
        exact b3 e' hm r hr
      · rw [show ({ e with prev := e.next, next := S e.sid v } : Entry).id = e.id from rfl,
          find_id_of_nodup hnd he] at hr
        cases hr; rfl
    · intro _ e' he'
      dsimp only at he' ⊢
      rw [lastRec_map_append (runRec v s.clock) (fun e => rfl)]
      rcases hspec e' he' with ⟨hm, hne⟩ | ⟨e, he, rfl⟩
      · rw [find_id_none hne]
        exact b4 hlive e' hm
      · rw [show ({ e with prev := e.next, next := S e.sid v } : Entry).id = e.id from rfl,
          find_id_of_nodup hnd he]
        exact ⟨_, rfl, rfl⟩
    · intro e' he'
      dsimp only at he' ⊢
      rw [lastRunAct_runs]
      rcases hspec e' he' with ⟨hm, hne⟩ | ⟨e, he, rfl⟩
      · rw [find_id_none hne]
        exact b5 e' hm
      · rw [show ({ e with prev := e.next, next := S e.sid v } : Entry).id = e.id from rfl,
          find_id_of_nodup hnd he]
  | jobBegin i =>
    obtain ⟨j, _, _, rfl⟩ := step_jobBegin_inv h
    exact invB_frame hB rfl (fun e he => he) (Nat.le_refl _) (fun x => x)
  | jobDone i =>
    obtain ⟨j, c, _, _, rfl⟩ := step_jobDone_inv h
    exact invB_frame hB rfl (fun e he => he) (Nat.le_refl _) (fun x => x)
  | ctxWait k =>
    obtain ⟨_, rfl⟩ := step_ctxWait_inv h
    exact invB_frame hB rfl (fun e he => he) (Nat.le_refl _) (fun x => x)
end Kit.CronSched

namespace Kit.CronSched

theorem reach_invA {S : Scheds} {s : State} (hr : Reach S s) : InvA s :=
  inv_of_inductive (S := S) InvA invA_init (fun _ _ _ _ hA h => invA_step hA h) s hr

theorem reach_invB {S : Scheds} {s : State} (hr : Reach S s) : InvB S s :=
  inv_of_inductive (S := S) (fun s => InvB S s) (invB_init S)
    (fun _ _ _ hr hB h => invB_step (reach_invA hr) hB h) s hr

theorem lastRec_none_iff {id : Nat} {log : List Rec} :
    lastRec id log = none ↔ ∀ r ∈ log, r.id ≠ id := by
  unfold lastRec
  rw [List.find?_eq_none]
  simp

/-- Along the chain of one entry the bases never decrease, and every launched activation is
at most the basis of its own record. -/
theorem chain_bounds {S : Scheds} (hS : WB S) {id : Nat} :
    ∀ {log : List Rec}, ChainOK S log → ∀ p, lastRec id log = some p →
      ∀ q ∈ log, q.id = id → q.basis ≤ p.basis ∧ (q.isRun = true → q.act ≤ p.basis) := by
  intro log
  induction log with
  | nil => intro _ p hp; simp [lastRec] at hp
  | cons r older ih =>
    intro hc p hp q hq hqid
    obtain ⟨hrok, hcold⟩ := hc
    rw [lastRec_cons] at hp
    by_cases hrid : r.id = id
    · simp only [hrid, beq_self_eq_true, if_true, Option.some.injEq] at hp
      subst hp
      -- facts about r itself
      have hself : r.isRun = true → r.act ≤ r.basis := by
        intro hrun
        cases r with
        | sched => simp [Rec.isRun] at hrun
        | run i sd a w c =>
          obtain ⟨_, _, _, _, _, haw, _⟩ := hrok
          simpa [Rec.act, Rec.basis] using haw
      rcases List.mem_cons.1 hq with rfl | hq'
      · exact ⟨Nat.le_refl _, hself⟩
      · -- q is older: the previous record p' of this id exists
        cases hp' : lastRec id older with
        | none => exact absurd hqid (lastRec_none_iff.1 hp' q hq')
        | some p' =>
          obtain ⟨h1, h2⟩ := ih hcold p' hp' q hq' hqid
          have hstep : p'.basis ≤ r.basis := by
            rw [hrid, hp'] at hrok
            cases r with
            | sched i sd t a => exact (hrok.2 p' rfl).2
            | run i sd a w c =>
              obtain ⟨p2, hp2, _, ha, hnz, haw, _⟩ := hrok
              cases hp2
              show p'.basis ≤ w
              rcases hS sd p'.basis with h0 | hlt
              · exact absurd (ha.trans h0) hnz
              · omega
          exact ⟨Nat.le_trans h1 hstep, fun hr => Nat.le_trans (h2 hr) hstep⟩
    · have hb : (r.id == id) = false := by simp [hrid]
      simp only [hb] at hp
      rcases List.mem_cons.1 hq with rfl | hq'
      · exact absurd hqid hrid
      · exact ih hcold p hp q hq' hqid

/-- The activations launched for entry `id`, newest first. -/
def acts (id : Nat) (log : List Rec) : List Nat :=
  (log.filter (fun r => r.isRun && r.id == id)).map Rec.act

theorem acts_decreasing {S : Scheds} (hS : WB S) (id : Nat) :
    ∀ {log : List Rec}, ChainOK S log → (acts id log).Pairwise (· > ·) := by
  intro log
  induction log with
  | nil => intro _; simp [acts]
  | cons r older ih =>
    intro hc
    obtain ⟨hrok, hcold⟩ := hc
    unfold acts
    simp only [List.filter_cons]
    cases hsel : (r.isRun && r.id == id)
    · simpa [acts] using ih hcold
    · simp only [if_true, List.map_cons, List.pairwise_cons]
      refine ⟨?_, by simpa [acts] using ih hcold⟩
      intro a' ha'
      simp only [Bool.and_eq_true, beq_iff_eq] at hsel
      obtain ⟨hrun, hrid⟩ := hsel
      obtain ⟨q, hq, rfl⟩ := List.mem_map.1 ha'
      obtain ⟨hqm, hqsel⟩ := List.mem_filter.1 hq
      simp only [Bool.and_eq_true, beq_iff_eq] at hqsel
      cases r with
      | sched => simp [Rec.isRun] at hrun
      | run i sd a w c =>
        simp only [Rec.id] at hrid
        subst hrid
        obtain ⟨p, hp, _, ha, hnz, _, _⟩ := hrok
        have := (chain_bounds hS hcold p hp q hqm hqsel.2).2 hqsel.1
        show q.act < a
        rcases hS sd p.basis with h0 | hlt
        · exact absurd (ha.trans h0) hnz
        · omega

theorem chain_run_facts {S : Scheds} {id sid a w c : Nat} :
    ∀ {log : List Rec}, ChainOK S log → Rec.run id sid a w c ∈ log →
      a ≠ 0 ∧ a ≤ w ∧ w ≤ c ∧ ∃ older p, older.length < log.length ∧ lastRec id older = some p ∧
        p.sid = sid ∧ a = S sid p.basis := by
  intro log
  induction log with
  | nil => intro _ h; cases h
  | cons r older ih =>
    intro hc hm
    obtain ⟨hrok, hcold⟩ := hc
    rcases List.mem_cons.1 hm with rfl | hm'
    · obtain ⟨p, hp, hs, ha, hnz, haw, hwc⟩ := hrok
      exact ⟨hnz, haw, hwc, older, p, by simp, hp, hs, ha⟩
    · obtain ⟨x, y, z, o, p, hl, rest⟩ := ih hcold hm'
      exact ⟨x, y, z, o, p, by simp; omega, rest⟩
end Kit.CronSched

namespace Kit.CronSched

/-- While no scheduler goroutine exists, only `start` can create one; nothing is launched. -/
theorem off_step {S : Scheds} {s s' : State} {l : Label} (hoff : s.pc = .off)
    (hrun : s.running = false) (hl : l ≠ .start) (h : step S s l = some s') :
    s'.pc = .off ∧ s'.running = false ∧ s'.log = s.log ∧ s'.jobs.length ≤ s.jobs.length := by
  cases l with
  | add sid =>
    rcases step_add_inv h with ⟨hr, _, _⟩ | ⟨_, rfl⟩
    · simp [hrun] at hr
    · exact ⟨hoff, hrun, rfl, Nat.le_refl _⟩
  | remove id =>
    rcases step_remove_inv h with ⟨hr, _, _⟩ | ⟨_, rfl⟩
    · simp [hrun] at hr
    · exact ⟨hoff, hrun, rfl, Nat.le_refl _⟩
  | snapshot => obtain ⟨rfl, _⟩ := step_snapshot_inv h; exact ⟨hoff, hrun, rfl, Nat.le_refl _⟩
  | start => exact absurd rfl hl
  | stop =>
    rcases step_stop_inv h with ⟨hr, _, _⟩ | ⟨_, rfl⟩
    · simp [hrun] at hr
    · exact ⟨hoff, hrun, rfl, Nat.le_refl _⟩
  | advance t =>
    obtain ⟨_, ⟨tm, hpc, _⟩ | ⟨_, rfl⟩⟩ := step_advance_inv h
    · rw [hoff] at hpc; cases hpc
    · exact ⟨hoff, hrun, rfl, Nat.le_refl _⟩
  | boot => obtain ⟨hpc, _⟩ := step_boot_inv h; rw [hoff] at hpc; cases hpc
  | refresh =>
    rcases step_refresh_inv h with ⟨hpc, _⟩ | ⟨_, _, hpc, _⟩ <;> (rw [hoff] at hpc; cases hpc)
  | arm => obtain ⟨hpc, _⟩ := step_arm_inv h; rw [hoff] at hpc; cases hpc
  | wake => obtain ⟨_, _, hpc, _⟩ := step_wake_inv h; rw [hoff] at hpc; cases hpc
  | jobBegin i =>
    obtain ⟨j, _, _, rfl⟩ := step_jobBegin_inv h
    exact ⟨hoff, hrun, rfl, by simp⟩
  | jobDone i =>
    obtain ⟨j, c, _, _, rfl⟩ := step_jobDone_inv h
    exact ⟨hoff, hrun, rfl, by simp [List.length_eraseIdx]; split <;> omega⟩
  | ctxWait k =>
    obtain ⟨_, rfl⟩ := step_ctxWait_inv h
    exact ⟨hoff, hrun, rfl, Nat.le_refl _⟩

/-- Entry `id` has been issued and is neither in the entry list nor on its way into it. -/
def NoEntry (id : Nat) (s : State) : Prop :=
  id ≤ s.nextID ∧ (∀ e ∈ s.entries, e.id ≠ id) ∧
    (∀ i sid, s.pc = .refresh (some (i, sid)) → i ≠ id)

theorem noEntry_step {S : Scheds} {s s' : State} {l : Label} {id : Nat} (hA : InvA s)
    (hN : NoEntry id s) (h : step S s l = some s') :
    NoEntry id s' ∧ ∃ new, s'.log = new ++ s.log ∧ ∀ r ∈ new, r.id ≠ id := by
  obtain ⟨n1, n2, n3⟩ := hN
  cases l with
  | add sid =>
    rcases step_add_inv h with ⟨_, _, rfl⟩ | ⟨_, rfl⟩
    · refine ⟨⟨Nat.le_succ_of_le n1, n2, ?_⟩, [], rfl, by simp⟩
      intro i sd hpc; simp at hpc; omega
    · refine ⟨⟨Nat.le_succ_of_le n1, ?_, n3⟩, [], rfl, by simp⟩
      intro e he
      simp only [List.mem_append, List.mem_singleton] at he
      rcases he with he | rfl
      · exact n2 e he
      · simp; omega
  | remove id' =>
    rcases step_remove_inv h with ⟨_, _, rfl⟩ | ⟨_, rfl⟩
    · exact ⟨⟨n1, fun e he => n2 e (List.mem_filter.1 he).1, by simp⟩, [], rfl, by simp⟩
    · exact ⟨⟨n1, fun e he => n2 e (List.mem_filter.1 he).1, n3⟩, [], rfl, by simp⟩
  | snapshot => obtain ⟨rfl, _⟩ := step_snapshot_inv h; exact ⟨⟨n1, n2, n3⟩, [], rfl, by simp⟩
  | start =>
    rcases step_start_inv h with ⟨_, rfl⟩ | ⟨_, rfl⟩
    · exact ⟨⟨n1, n2, n3⟩, [], rfl, by simp⟩
    · exact ⟨⟨n1, n2, by simp⟩, [], rfl, by simp⟩
  | stop =>
    rcases step_stop_inv h with ⟨_, _, rfl⟩ | ⟨_, rfl⟩
    · exact ⟨⟨n1, n2, by simp⟩, [], rfl, by simp⟩
    · exact ⟨⟨n1, n2, n3⟩, [], rfl, by simp⟩
  | advance t =>
    obtain ⟨_, ⟨tm, hpc, rfl⟩ | ⟨_, rfl⟩⟩ := step_advance_inv h
    · exact ⟨⟨n1, n2, by simp⟩, [], rfl, by simp⟩
    · exact ⟨⟨n1, n2, n3⟩, [], rfl, by simp⟩
  | boot =>
    obtain ⟨_, rfl⟩ := step_boot_inv h
    refine ⟨⟨n1, ?_, by simp⟩, _, rfl, ?_⟩
    · intro e' he'
      obtain ⟨e, he, rfl⟩ := List.mem_map.1 he'
      exact n2 e he
    · intro r hr
      obtain ⟨e', he', rfl⟩ := List.mem_map.1 hr
      obtain ⟨e, he, rfl⟩ := List.mem_map.1 he'
      exact n2 e he
  | refresh =>
    rcases step_refresh_inv h with ⟨_, rfl⟩ | ⟨i, sd, hpc, rfl⟩
    · exact ⟨⟨n1, n2, by simp⟩, [], rfl, by simp⟩
    · have hne := n3 i sd hpc
      refine ⟨⟨n1, ?_, by simp⟩, [_], rfl, ?_⟩
      · intro e he
        simp only [List.mem_append, List.mem_singleton] at he
        rcases he with he | rfl
        · exact n2 e he
        · exact hne
      · intro r hr
        simp only [List.mem_singleton] at hr
        subst hr; exact hne
  | arm =>
    obtain ⟨_, rfl⟩ := step_arm_inv h
    exact ⟨⟨n1, fun e he => n2 e ((sortBT_perm _).mem_iff.1 he), by simp⟩, [], rfl, by simp⟩
  | wake =>
    obtain ⟨tm, v, _, _, rfl⟩ := step_wake_inv h
    refine ⟨⟨n1, ?_, by simp⟩, _, rfl, ?_⟩
    · intro e' he'
      obtain ⟨e, he, hid⟩ := mem_wakeLoop_id he'
      rw [← hid]; exact n2 e he
    · intro r hr
      obtain ⟨e, he, rfl⟩ := List.mem_map.1 hr
      exact n2 e ((wakeLoop_ran_sublist S v s.entries).subset he)
  | jobBegin i =>
    obtain ⟨j, _, _, rfl⟩ := step_jobBegin_inv h
    exact ⟨⟨n1, n2, n3⟩, [], rfl, by simp⟩
  | jobDone i =>
    obtain ⟨j, c, _, _, rfl⟩ := step_jobDone_inv h
    exact ⟨⟨n1, n2, n3⟩, [], rfl, by simp⟩
  | ctxWait k =>
    obtain ⟨_, rfl⟩ := step_ctxWait_inv h
    exact ⟨⟨n1, n2, n3⟩, [], rfl, by simp⟩
end Kit.CronSched

namespace Kit.CronSched

/-- Job invariant: a launched activation is a real instant that the loop's `now` had reached,
the clock had reached `now`, and a begun job read a clock value at or after it. -/
abbrev InvJ (s : State) : Prop :=
  ∀ j ∈ s.jobs, j.act ≠ 0 ∧ j.act ≤ j.wake ∧ j.wake ≤ s.clock ∧ ∀ c, j.st = .begun c → j.wake ≤ c

theorem invJ_step {S : Scheds} {s s' : State} {l : Label} (hA : InvA s) (hJ : InvJ s)
    (h : step S s l = some s') : InvJ s' := by
  have frame : ∀ {s' : State}, s'.jobs = s.jobs → s.clock ≤ s'.clock → InvJ s' := by
    intro s' hj hc j hjm
    rw [hj] at hjm
    obtain ⟨a, b, c, d⟩ := hJ j hjm
    exact ⟨a, b, Nat.le_trans c hc, d⟩
  cases l with
  | add sid =>
    rcases step_add_inv h with ⟨_, _, rfl⟩ | ⟨_, rfl⟩ <;> exact frame rfl (Nat.le_refl _)
  | remove id =>
    rcases step_remove_inv h with ⟨_, _, rfl⟩ | ⟨_, rfl⟩ <;> exact frame rfl (Nat.le_refl _)
  | snapshot => obtain ⟨rfl, _⟩ := step_snapshot_inv h; exact hJ
  | start =>
    rcases step_start_inv h with ⟨_, rfl⟩ | ⟨_, rfl⟩ <;> exact frame rfl (Nat.le_refl _)
  | stop =>
    rcases step_stop_inv h with ⟨_, _, rfl⟩ | ⟨_, rfl⟩ <;> exact frame rfl (Nat.le_refl _)
  | advance t =>
    obtain ⟨hle, ⟨tm, hpc, rfl⟩ | ⟨_, rfl⟩⟩ := step_advance_inv h <;> exact frame rfl hle
  | boot => obtain ⟨_, rfl⟩ := step_boot_inv h; exact frame rfl (Nat.le_refl _)
  | refresh =>
    rcases step_refresh_inv h with ⟨_, rfl⟩ | ⟨_, _, _, rfl⟩ <;> exact frame rfl (Nat.le_refl _)
  | arm => obtain ⟨_, rfl⟩ := step_arm_inv h; exact frame rfl (Nat.le_refl _)
  | wake =>
    obtain ⟨tm, v, hpc, hf, rfl⟩ := step_wake_inv h
    intro j hj
    rcases List.mem_append.1 hj with hj | hj
    · exact hJ j hj
    · obtain ⟨e, he, rfl⟩ := List.mem_map.1 hj
      obtain ⟨_, hnz, hle⟩ := wakeLoop_ran e he
      exact ⟨hnz, hle, hA.fired_le tm v hpc hf, by intro c hc; cases hc⟩
  | jobBegin i =>
    obtain ⟨j0, hj0, _, rfl⟩ := step_jobBegin_inv h
    intro j hj
    rcases List.mem_or_eq_of_mem_set hj with hj | rfl
    · exact hJ j hj
    · obtain ⟨a, b, c, _⟩ := hJ j0 (List.mem_of_getElem? hj0)
      exact ⟨a, b, c, by intro c' hc'; cases hc'; exact c⟩
  | jobDone i =>
    obtain ⟨j0, c, _, _, rfl⟩ := step_jobDone_inv h
    intro j hj
    exact hJ j (List.mem_of_mem_eraseIdx hj)
  | ctxWait k => obtain ⟨_, rfl⟩ := step_ctxWait_inv h; exact frame rfl (Nat.le_refl _)

theorem reach_invJ {S : Scheds} {s : State} (hr : Reach S s) : InvJ s :=
  inv_of_inductive (S := S) InvJ (fun t0 => by intro j hj; simp [init] at hj)
    (fun _ _ _ hr hJ h => invJ_step (reach_invA hr) hJ h) s hr

/-- Context invariant: a goroutine blocked in `jobWaiter.Wait()` implies an outstanding job. -/
abbrev InvC (s : State) : Prop := ∀ k : Nat, s.ctxs[k]? = some CtxSt.waiting → s.jobs ≠ []

theorem releaseWaiting_no_waiting (cs : List CtxSt) (k : Nat) :
    (releaseWaiting cs)[k]? ≠ some CtxSt.waiting := by
  unfold releaseWaiting
  simp only [List.getElem?_map]
  cases cs[k]? with
  | none => simp
  | some c => cases c <;> simp

theorem invC_step {S : Scheds} {s s' : State} {l : Label} (hC : InvC s)
    (h : step S s l = some s') : InvC s' := by
  have frame : ∀ {s' : State}, s'.ctxs = s.ctxs → (s.jobs ≠ [] → s'.jobs ≠ []) → InvC s' := by
    intro s' hc hj k hk
    rw [hc] at hk
    exact hj (hC k hk)
  cases l with
  | add sid =>
    rcases step_add_inv h with ⟨_, _, rfl⟩ | ⟨_, rfl⟩ <;> exact frame rfl id
  | remove id' =>
    rcases step_remove_inv h with ⟨_, _, rfl⟩ | ⟨_, rfl⟩ <;> exact frame rfl id
  | snapshot => obtain ⟨rfl, _⟩ := step_snapshot_inv h; exact hC
  | start =>
    rcases step_start_inv h with ⟨_, rfl⟩ | ⟨_, rfl⟩ <;> exact frame rfl id
  | stop =>
    have app : ∀ k : Nat, (s.ctxs ++ [CtxSt.created])[k]? = some CtxSt.waiting → s.ctxs[k]? = some CtxSt.waiting := by
      intro k hk
      rw [List.getElem?_append] at hk
      split at hk
      · exact hk
      · cases hk' : ([CtxSt.created])[k - s.ctxs.length]? with
        | none => rw [hk'] at hk; cases hk
        | some c =>
          rw [hk'] at hk
          have : c = .created := by
            have := List.mem_of_getElem? hk'
            simpa using this
          subst this; cases hk
    rcases step_stop_inv h with ⟨_, _, rfl⟩ | ⟨_, rfl⟩ <;> exact fun k hk => hC k (app k hk)
  | advance t =>
    obtain ⟨_, ⟨tm, hpc, rfl⟩ | ⟨_, rfl⟩⟩ := step_advance_inv h <;> exact frame rfl id
  | boot => obtain ⟨_, rfl⟩ := step_boot_inv h; exact frame rfl id
  | refresh =>
    rcases step_refresh_inv h with ⟨_, rfl⟩ | ⟨_, _, _, rfl⟩ <;> exact frame rfl id
  | arm => obtain ⟨_, rfl⟩ := step_arm_inv h; exact frame rfl id
  | wake =>
    obtain ⟨tm, v, _, _, rfl⟩ := step_wake_inv h
    exact frame rfl (by intro hne; simp [hne])
  | jobBegin i =>
    obtain ⟨j0, hj0, _, rfl⟩ := step_jobBegin_inv h
    exact frame rfl (by intro hne; simpa using hne)
  | jobDone i =>
    obtain ⟨j0, c, _, _, rfl⟩ := step_jobDone_inv h
    intro k hk
    dsimp only at hk ⊢
    split at hk
    · exact absurd hk (releaseWaiting_no_waiting _ _)
    · rename_i hne
      intro he; rw [he] at hne; simp at hne
  | ctxWait k0 =>
    obtain ⟨_, rfl⟩ := step_ctxWait_inv h
    intro k hk
    dsimp only at hk ⊢
    rw [List.getElem?_set] at hk
    split at hk
    · split at hk
      · split at hk
        · cases hk
        · rename_i hne
          intro he; rw [he] at hne; simp at hne
      · cases hk
    · exact hC k hk

theorem reach_invC {S : Scheds} {s : State} (hr : Reach S s) : InvC s :=
  inv_of_inductive (S := S) InvC (fun t0 => by intro k hk; simp [init] at hk)
    (fun _ _ _ _ hC h => invC_step hC h) s hr
end Kit.CronSched

namespace Kit.CronSched

/-- `byTime` order as a relation: `b` may stand after `a`. -/
def le' (a b : Entry) : Prop := b.next = 0 ∨ (a.next ≠ 0 ∧ a.next ≤ b.next)

def SortedBT (l : List Entry) : Prop := l.Pairwise le'

theorem less_le' {e x : Entry} (h : less e x = true) : le' e x := by
  unfold less at h
  unfold le'
  split at h
  · cases h
  · split at h
    · left; assumption
    · right; simp at h; omega

theorem not_less_le' {e x : Entry} (h : less e x = false) : le' x e := by
  unfold less at h
  unfold le'
  split at h
  · left; assumption
  · split at h
    · cases h
    · right; simp at h; omega

theorem le'_trans {a b c : Entry} (h1 : le' a b) (h2 : le' b c) : le' a c := by
  unfold le' at *
  omega

theorem insertBT_sorted (e : Entry) : ∀ {l : List Entry}, SortedBT l → SortedBT (insertBT e l) := by
  intro l
  induction l with
  | nil => intro _; simp [insertBT, SortedBT]
  | cons x xs ih =>
    intro hs
    unfold SortedBT at hs ⊢
    rw [List.pairwise_cons] at hs
    simp only [insertBT]
    cases hl : less e x
    · simp only [Bool.false_eq_true, if_false, List.pairwise_cons]
      refine ⟨?_, ih hs.2⟩
      intro y hy
      rcases List.mem_cons.1 ((insertBT_perm e xs).mem_iff.1 hy) with rfl | hy'
      · exact not_less_le' hl
      · exact hs.1 y hy'
    · simp only [if_true, List.pairwise_cons]
      refine ⟨?_, hs.1, hs.2⟩
      intro y hy
      rcases List.mem_cons.1 hy with rfl | hy'
      · exact less_le' hl
      · exact le'_trans (less_le' hl) (hs.1 y hy')

theorem sortBT_sorted (l : List Entry) : SortedBT (sortBT l) := by
  induction l with
  | nil => simp [sortBT, SortedBT]
  | cons e es ih => exact insertBT_sorted e ih

/-- On a list ordered by `byTime` the wake-up loop (which stops at the first entry that is not
due) starts every due entry. -/
theorem wakeLoop_all_due {S : Scheds} {v : Nat} :
    ∀ {l : List Entry}, SortedBT l → ∀ e ∈ l, e.next ≠ 0 → e.next ≤ v → e ∈ (wakeLoop S v l).2 := by
  intro l
  induction l with
  | nil => intro _ e he; cases he
  | cons x xs ih =>
    intro hs e he hnz hle
    unfold SortedBT at hs
    rw [List.pairwise_cons] at hs
    simp only [wakeLoop]
    split
    · rename_i hbreak
      rcases List.mem_cons.1 he with rfl | he'
      · omega
      · have := hs.1 e he'
        unfold le' at this
        omega
    · rcases List.mem_cons.1 he with rfl | he'
      · exact List.mem_cons_self
      · exact List.mem_cons_of_mem _ (ih hs.2 e he' hnz hle)

/-- Timer invariant while the loop is blocked in its `select`. -/
def TimerOK (s : State) : Prop :=
  ∀ tmo, s.pc = .parked tmo → SortedBT s.entries ∧
    match tmo with
    | none => ∀ e ∈ s.entries, e.next = 0
    | some tm => tm.armedAt ≤ s.clock ∧ s.now ≤ tm.armedAt ∧ ∃ e ∈ s.entries, e.next ≠ 0 ∧
        (∀ x ∈ s.entries, x.next = 0 ∨ e.next ≤ x.next) ∧
        tm.deadline + s.now = tm.armedAt + e.next ∧
        (tm.fired = none → s.clock < tm.deadline) ∧ (∀ v, tm.fired = some v → tm.deadline ≤ v)

theorem timerOK_frame {s s' : State} (hT : TimerOK s) (h1 : s'.pc = s.pc)
    (h2 : s'.entries = s.entries) (h3 : s'.now = s.now) (h4 : s'.clock = s.clock) : TimerOK s' := by
  intro tmo hpc
  rw [h1] at hpc
  have := hT tmo hpc
  rw [h2, h3, h4]
  exact this

theorem timerOK_step {S : Scheds} {s s' : State} {l : Label} (hA : InvA s) (hT : TimerOK s)
    (h : step S s l = some s') : TimerOK s' := by
  have hoff : s.running = false → s.pc = .off := by
    intro hr; have := hA.run_pc; simp [hr] at this; exact this
  cases l with
  | add sid =>
    rcases step_add_inv h with ⟨_, _, rfl⟩ | ⟨hr, rfl⟩
    · intro tmo hpc; cases hpc
    · intro tmo hpc; rw [show _ = s.pc from rfl, hoff hr] at hpc; cases hpc
  | remove id =>
    rcases step_remove_inv h with ⟨_, _, rfl⟩ | ⟨hr, rfl⟩
    · intro tmo hpc; cases hpc
    · intro tmo hpc; rw [show _ = s.pc from rfl, hoff hr] at hpc; cases hpc
  | snapshot => obtain ⟨rfl, _⟩ := step_snapshot_inv h; exact hT
  | start =>
    rcases step_start_inv h with ⟨_, rfl⟩ | ⟨_, rfl⟩
    · exact hT
    · intro tmo hpc; cases hpc
  | stop =>
    rcases step_stop_inv h with ⟨_, _, rfl⟩ | ⟨_, rfl⟩
    · intro tmo hpc; cases hpc
    · exact timerOK_frame hT rfl rfl rfl rfl
  | advance t =>
    obtain ⟨hle, ⟨tm, hpc, rfl⟩ | ⟨hne, rfl⟩⟩ := step_advance_inv h
    · intro tmo hpc'
      simp only [Pc.parked.injEq] at hpc'
      subst hpc'
      obtain ⟨hs, ha, hn, e, he, hnz, hmin, hd, hf1, hf2⟩ := hT _ hpc
      refine ⟨hs, ?_⟩
      show (tm.tick t).armedAt ≤ t ∧ s.now ≤ (tm.tick t).armedAt ∧ _
      unfold Timer.tick
      cases hfired : tm.fired with
      | some v0 =>
        simp only
        exact ⟨Nat.le_trans ha hle, hn, e, he, hnz, hmin, hd, by simp [hfired], by simpa [hfired] using hf2⟩
      | none =>
        simp only
        split
        · rename_i hdl
          exact ⟨Nat.le_trans ha hle, hn, e, he, hnz, hmin, hd, by simp, by intro v hv; simp at hv; subst hv; exact hdl⟩
        · rename_i hdl
          exact ⟨Nat.le_trans ha hle, hn, e, he, hnz, hmin, hd, by intro _; omega, by simp [hfired]⟩
    · intro tmo hpc
      cases tmo with
      | some tm => exact absurd hpc (hne tm)
      | none => exact hT none hpc
  | boot => obtain ⟨_, rfl⟩ := step_boot_inv h; intro tmo hpc; cases hpc
  | refresh =>
    rcases step_refresh_inv h with ⟨_, rfl⟩ | ⟨_, _, _, rfl⟩ <;> (intro tmo hpc; cases hpc)
  | arm =>
    obtain ⟨_, rfl⟩ := step_arm_inv h
    intro tmo hpc
    simp only [Pc.parked.injEq] at hpc
    have hsorted := sortBT_sorted s.entries
    refine ⟨hsorted, ?_⟩
    subst hpc
    dsimp only
    generalize sortBT s.entries = es at hsorted
    cases es with
    | nil => simp [armTimer]
    | cons e rest =>
      unfold SortedBT at hsorted
      rw [List.pairwise_cons] at hsorted
      by_cases hz : e.next = 0
      · simp only [armTimer, hz, if_true]
        intro x hx
        rcases List.mem_cons.1 hx with rfl | hx'
        · exact hz
        · have := hsorted.1 x hx'; unfold le' at this; omega
      · simp only [armTimer, hz, if_false]
        have hnow := hA.now_le
        refine ⟨Nat.le_refl _, hnow, e, List.mem_cons_self, hz, ?_, by omega, ?_, ?_⟩
        · intro x hx
          rcases List.mem_cons.1 hx with rfl | hx'
          · right; exact Nat.le_refl _
          · have := hsorted.1 x hx'; unfold le' at this; omega
        · intro hf; split at hf
          · cases hf
          · omega
        · intro v hv; split at hv
          · simp at hv; omega
          · cases hv
  | wake => obtain ⟨_, _, _, _, rfl⟩ := step_wake_inv h; intro tmo hpc; cases hpc
  | jobBegin i =>
    obtain ⟨j, _, _, rfl⟩ := step_jobBegin_inv h
    exact timerOK_frame hT rfl rfl rfl rfl
  | jobDone i =>
    obtain ⟨j, c, _, _, rfl⟩ := step_jobDone_inv h
    exact timerOK_frame hT rfl rfl rfl rfl
  | ctxWait k =>
    obtain ⟨_, rfl⟩ := step_ctxWait_inv h
    exact timerOK_frame hT rfl rfl rfl rfl

theorem reach_timerOK {S : Scheds} {s : State} (hr : Reach S s) : TimerOK s :=
  inv_of_inductive (S := S) TimerOK (fun t0 => by intro tmo hpc; simp [init] at hpc)
    (fun _ _ _ hr hT h => timerOK_step (reach_invA hr) hT h) s hr
end Kit.CronSched

namespace Kit.CronSched

theorem wakeLoop_updates {S : Scheds} {v : Nat} {e : Entry} :
    ∀ {l : List Entry}, e ∈ (wakeLoop S v l).2 →
      ({ e with prev := e.next, next := S e.sid v } : Entry) ∈ (wakeLoop S v l).1 := by
  intro l
  induction l with
  | nil => intro h; simp [wakeLoop] at h
  | cons x xs ih =>
    simp only [wakeLoop]
    split
    · intro h; cases h
    · intro h
      rcases List.mem_cons.1 h with rfl | h'
      · exact List.mem_cons_self
      · exact List.mem_cons_of_mem _ (ih h')

end Kit.CronSched

namespace Kit.CronSched

theorem step_log_grows {S : Scheds} {s s' : State} {l : Label} (h : step S s l = some s') :
    ∃ new, s'.log = new ++ s.log := by
  cases l with
  | add sid => rcases step_add_inv h with ⟨_, _, rfl⟩ | ⟨_, rfl⟩ <;> exact ⟨[], rfl⟩
  | remove id => rcases step_remove_inv h with ⟨_, _, rfl⟩ | ⟨_, rfl⟩ <;> exact ⟨[], rfl⟩
  | snapshot => obtain ⟨rfl, _⟩ := step_snapshot_inv h; exact ⟨[], rfl⟩
  | start => rcases step_start_inv h with ⟨_, rfl⟩ | ⟨_, rfl⟩ <;> exact ⟨[], rfl⟩
  | stop => rcases step_stop_inv h with ⟨_, _, rfl⟩ | ⟨_, rfl⟩ <;> exact ⟨[], rfl⟩
  | advance t => obtain ⟨_, ⟨tm, _, rfl⟩ | ⟨_, rfl⟩⟩ := step_advance_inv h <;> exact ⟨[], rfl⟩
  | boot => obtain ⟨_, rfl⟩ := step_boot_inv h; exact ⟨_, rfl⟩
  | refresh =>
    rcases step_refresh_inv h with ⟨_, rfl⟩ | ⟨_, _, _, rfl⟩
    · exact ⟨[], rfl⟩
    · exact ⟨[_], rfl⟩
  | arm => obtain ⟨_, rfl⟩ := step_arm_inv h; exact ⟨[], rfl⟩
  | wake => obtain ⟨_, _, _, _, rfl⟩ := step_wake_inv h; exact ⟨_, rfl⟩
  | jobBegin i => obtain ⟨_, _, _, rfl⟩ := step_jobBegin_inv h; exact ⟨[], rfl⟩
  | jobDone i => obtain ⟨_, _, _, _, rfl⟩ := step_jobDone_inv h; exact ⟨[], rfl⟩
  | ctxWait k => obtain ⟨_, rfl⟩ := step_ctxWait_inv h; exact ⟨[], rfl⟩

theorem runFrom_log_grows {S : Scheds} (h : List Label) :
    ∀ {s s' : State}, runFrom S s h = some s' → ∃ new, s'.log = new ++ s.log := by
  induction h with
  | nil => intro s s' hr; simp [runFrom] at hr; subst hr; exact ⟨[], rfl⟩
  | cons l ls ih =>
    intro s s' hr
    simp only [runFrom] at hr
    cases hl : step S s l with
    | none => simp [hl] at hr
    | some s1 =>
      rw [hl] at hr
      obtain ⟨n1, h1⟩ := step_log_grows hl
      obtain ⟨n2, h2⟩ := ih hr
      exact ⟨n2 ++ n1, by rw [h2, h1, List.append_assoc]⟩

theorem lastRec_append (id : Nat) (a b : List Rec) :
    lastRec id (a ++ b) = (lastRec id a).or (lastRec id b) := by
  unfold lastRec
  exact List.find?_append

/-- Everything recorded for an entry after a record `p` of it has a basis at least `p`'s, and
every later launch is for an activation strictly after `p`'s basis. -/
theorem chain_after {S : Scheds} (hS : WB S) {id : Nat} {older : List Rec} {p : Rec}
    (hp : lastRec id older = some p) :
    ∀ {newer : List Rec}, ChainOK S (newer ++ older) →
      ∀ r ∈ newer, r.id = id → p.basis ≤ r.basis ∧ (r.isRun = true → p.basis < r.act) := by
  intro newer
  induction newer with
  | nil => intro _ r hr; cases hr
  | cons r0 rest ih =>
    intro hc r hr hrid
    have hc' : RecOK S r0 (lastRec r0.id (rest ++ older)) ∧ ChainOK S (rest ++ older) := hc
    obtain ⟨hrok, hcold⟩ := hc'
    rcases List.mem_cons.1 hr with rfl | hr'
    · -- the previous record of this id has basis ≥ p.basis
      have hprev : ∃ q, lastRec id (rest ++ older) = some q ∧ p.basis ≤ q.basis := by
        rw [lastRec_append]
        cases hq : lastRec id rest with
        | none => exact ⟨p, by simp [hp], Nat.le_refl _⟩
        | some q =>
          obtain ⟨hqm, hqid⟩ := lastRec_mem hq
          exact ⟨q, by simp, (ih hcold q hqm hqid).1⟩
      obtain ⟨q, hq, hpq⟩ := hprev
      rw [hrid, hq] at hrok
      cases r with
      | sched i sd t a =>
        have := (hrok.2 q rfl).2
        exact ⟨Nat.le_trans hpq this, by intro h; simp [Rec.isRun] at h⟩
      | run i sd a w c =>
        obtain ⟨q2, hq2, _, ha, hnz, haw, _⟩ := hrok
        cases hq2
        have hlt : q.basis < a := by
          rcases hS sd q.basis with h0 | hlt
          · exact absurd (ha.trans h0) hnz
          · omega
        refine ⟨?_, fun _ => ?_⟩
        · show p.basis ≤ w; omega
        · show p.basis < a; omega
    · exact ih hcold r hr' hrid

theorem filter_map_id_of_nodup (f : Entry → Rec) (hf : ∀ e, (f e).id = e.id) {e : Entry} :
    ∀ {l : List Entry}, (l.map (·.id)).Nodup → e ∈ l →
      (l.map f).filter (fun r => r.id == e.id) = [f e] := by
  intro l
  induction l with
  | nil => intro _ h; cases h
  | cons x xs ih =>
    intro hn he
    simp only [List.map_cons, List.nodup_cons] at hn
    simp only [List.map_cons, List.filter_cons, hf]
    rcases List.mem_cons.1 he with rfl | he'
    · simp only [beq_self_eq_true, if_true]
      congr 1
      rw [List.filter_eq_nil_iff]
      intro r hr
      obtain ⟨y, hy, rfl⟩ := List.mem_map.1 hr
      simp only [hf, beq_iff_eq]
      intro heq
      exact hn.1 (heq ▸ List.mem_map_of_mem hy)
    · have hne : (x.id == e.id) = false := by
        simp only [beq_eq_false_iff_ne]
        intro heq
        exact hn.1 (heq ▸ List.mem_map_of_mem he')
      simp only [hne, Bool.false_eq_true, if_false]
      exact ih hn.2 he'
end Kit.CronSched

namespace Kit.CronSched

/-- The loop variable `now` is in step with the clock: when about to arm, `now` is the clock;
while parked, the timer was armed with `now` = clock-at-arming and a fired timer carries the
current clock value. -/
def Sync (s : State) : Prop :=
  match s.pc with
  | .arm => s.now = s.clock
  | .parked (some tm) => s.now = tm.armedAt ∧ ∀ v, tm.fired = some v → v = s.clock
  | _ => True

/-- The clock may be advanced "politely": the loop is not between reading/receiving a time and
arming with it (`arm`), and no fired timer value is waiting to be picked up. -/
def mayAdvance (s : State) : Bool :=
  match s.pc with
  | .arm => false
  | .parked (some tm) => tm.fired.isNone
  | _ => true

/-- Histories in which the clock only moves while `mayAdvance` holds (what a caller sees when
time passes while the scheduler is idle; what the harness does outside its forced races). -/
def polite (S : Scheds) : State → List Label → Bool
  | _, [] => true
  | s, l :: ls =>
    (match l with
     | .advance _ => mayAdvance s
     | _ => true) &&
    (match step S s l with
     | some s' => polite S s' ls
     | none => true)

theorem sync_step {S : Scheds} {s s' : State} {l : Label} (hS : Sync s)
    (hl : ∀ t, l = .advance t → mayAdvance s = true) (h : step S s l = some s') : Sync s' := by
  cases l with
  | add sid =>
    rcases step_add_inv h with ⟨_, _, rfl⟩ | ⟨_, rfl⟩
    · simp [Sync]
    · exact hS
  | remove id =>
    rcases step_remove_inv h with ⟨_, _, rfl⟩ | ⟨_, rfl⟩
    · simp [Sync]
    · exact hS
  | snapshot => obtain ⟨rfl, _⟩ := step_snapshot_inv h; exact hS
  | start =>
    rcases step_start_inv h with ⟨_, rfl⟩ | ⟨_, rfl⟩
    · exact hS
    · simp [Sync]
  | stop =>
    rcases step_stop_inv h with ⟨_, _, rfl⟩ | ⟨_, rfl⟩
    · simp [Sync]
    · exact hS
  | advance t =>
    have hm := hl t rfl
    obtain ⟨hle, ⟨tm, hpc, rfl⟩ | ⟨hne, rfl⟩⟩ := step_advance_inv h
    · simp only [mayAdvance, hpc] at hm
      simp only [Sync, hpc] at hS
      have hnone : tm.fired = none := by simpa using hm
      show Sync _
      simp only [Sync]
      refine ⟨?_, ?_⟩
      · unfold Timer.tick; simp only [hnone]; split <;> exact hS.1
      · intro v hv
        unfold Timer.tick at hv
        simp only [hnone] at hv
        split at hv
        · simpa using hv.symm
        · rw [hnone] at hv; cases hv
    · unfold Sync at hS ⊢
      cases hpc : s.pc with
      | arm => simp [mayAdvance, hpc] at hm
      | parked tmo =>
        cases tmo with
        | none => simp
        | some tm => exact absurd hpc (hne tm)
      | _ => simp
  | boot => obtain ⟨_, rfl⟩ := step_boot_inv h; simp [Sync]
  | refresh =>
    rcases step_refresh_inv h with ⟨_, rfl⟩ | ⟨_, _, _, rfl⟩ <;> simp [Sync]
  | arm =>
    obtain ⟨hpc, rfl⟩ := step_arm_inv h
    simp only [Sync, hpc] at hS
    show Sync _
    unfold Sync
    simp only
    cases hat : armTimer s.clock s.now (sortBT s.entries) with
    | none => trivial
    | some tm =>
      simp only
      unfold armTimer at hat
      split at hat
      · cases hat
      · split at hat
        · cases hat
        · simp only [Option.some.injEq] at hat
          subst hat
          refine ⟨hS, ?_⟩
          intro v hv
          simp only at hv
          split at hv
          · simpa using hv.symm
          · cases hv
  | wake =>
    obtain ⟨tm, v, hpc, hf, rfl⟩ := step_wake_inv h
    simp only [Sync, hpc] at hS
    show Sync _
    simp only [Sync]
    exact hS.2 v hf
  | jobBegin i =>
    obtain ⟨j, _, _, rfl⟩ := step_jobBegin_inv h
    exact hS
  | jobDone i =>
    obtain ⟨j, c, _, _, rfl⟩ := step_jobDone_inv h
    exact hS
  | ctxWait k =>
    obtain ⟨_, rfl⟩ := step_ctxWait_inv h
    exact hS

theorem sync_runFrom {S : Scheds} (h : List Label) :
    ∀ {s s' : State}, Sync s → polite S s h = true → runFrom S s h = some s' → Sync s' := by
  induction h with
  | nil => intro s s' hS _ hr; simp [runFrom] at hr; subst hr; exact hS
  | cons l ls ih =>
    intro s s' hS hp hr
    simp only [runFrom] at hr
    cases hl : step S s l with
    | none => simp [hl] at hr
    | some s1 =>
      rw [hl] at hr
      simp only [polite, hl, Bool.and_eq_true] at hp
      refine ih (sync_step hS ?_ hl) hp.2 hr
      intro t ht
      subst ht
      exact hp.1
end Kit.CronSched

namespace Kit.CronSched

/-- every recorded start happened at a wake whose `now` was the clock value of that moment -/
def ExactLog (log : List Rec) : Prop :=
  ∀ id sid a w c, Rec.run id sid a w c ∈ log → w = c

theorem exactLog_step {S : Scheds} {s s' : State} {l : Label} (hS : Sync s) (hE : ExactLog s.log)
    (h : step S s l = some s') : ExactLog s'.log := by
  cases l with
  | add sid => rcases step_add_inv h with ⟨_, _, rfl⟩ | ⟨_, rfl⟩ <;> exact hE
  | remove id => rcases step_remove_inv h with ⟨_, _, rfl⟩ | ⟨_, rfl⟩ <;> exact hE
  | snapshot => obtain ⟨rfl, _⟩ := step_snapshot_inv h; exact hE
  | start => rcases step_start_inv h with ⟨_, rfl⟩ | ⟨_, rfl⟩ <;> exact hE
  | stop => rcases step_stop_inv h with ⟨_, _, rfl⟩ | ⟨_, rfl⟩ <;> exact hE
  | advance t => obtain ⟨_, ⟨tm, _, rfl⟩ | ⟨_, rfl⟩⟩ := step_advance_inv h <;> exact hE
  | boot =>
    obtain ⟨_, rfl⟩ := step_boot_inv h
    intro id sid a w c hm
    rcases List.mem_append.1 hm with hm | hm
    · obtain ⟨e, _, he⟩ := List.mem_map.1 hm
      simp [schedRec] at he
    · exact hE id sid a w c hm
  | refresh =>
    rcases step_refresh_inv h with ⟨_, rfl⟩ | ⟨_, _, _, rfl⟩
    · exact hE
    · intro id sid a w c hm
      rcases List.mem_cons.1 hm with hm | hm
      · simp [schedRec] at hm
      · exact hE id sid a w c hm
  | arm => obtain ⟨_, rfl⟩ := step_arm_inv h; exact hE
  | wake =>
    obtain ⟨tm, v, hpc, hf, rfl⟩ := step_wake_inv h
    simp only [Sync, hpc] at hS
    have hv := hS.2 v hf
    intro id sid a w c hm
    rcases List.mem_append.1 hm with hm | hm
    · obtain ⟨e, _, he⟩ := List.mem_map.1 hm
      simp only [runRec, Rec.run.injEq] at he
      omega
    · exact hE id sid a w c hm
  | jobBegin i => obtain ⟨_, _, _, rfl⟩ := step_jobBegin_inv h; exact hE
  | jobDone i => obtain ⟨_, _, _, _, rfl⟩ := step_jobDone_inv h; exact hE
  | ctxWait k => obtain ⟨_, rfl⟩ := step_ctxWait_inv h; exact hE

theorem exactLog_runFrom {S : Scheds} (h : List Label) :
    ∀ {s s' : State}, Sync s → ExactLog s.log → polite S s h = true → runFrom S s h = some s' →
      ExactLog s'.log := by
  induction h with
  | nil => intro s s' _ hE _ hr; simp [runFrom] at hr; subst hr; exact hE
  | cons l ls ih =>
    intro s s' hS hE hp hr
    simp only [runFrom] at hr
    cases hl : step S s l with
    | none => simp [hl] at hr
    | some s1 =>
      rw [hl] at hr
      simp only [polite, hl, Bool.and_eq_true] at hp
      have hS1 : Sync s1 := sync_step hS (by intro t ht; subst ht; exact hp.1) hl
      exact ih hS1 (exactLog_step hS hE hl) hp.2 hr
end Kit.CronSched

namespace Kit.CronSched

theorem wakeLoop_keeps {S : Scheds} {v : Nat} {e : Entry} :
    ∀ {l : List Entry}, e ∈ l → ¬(e.next ≠ 0 ∧ e.next ≤ v) → e ∈ (wakeLoop S v l).1 := by
  intro l
  induction l with
  | nil => intro h; cases h
  | cons x xs ih =>
    intro he hnd
    simp only [wakeLoop]
    split
    · exact he
    · rename_i hx
      rcases List.mem_cons.1 he with rfl | he'
      · exact absurd ⟨by omega, by omega⟩ hnd
      · exact List.mem_cons_of_mem _ (ih he' hnd)

theorem filter_launch_of_nodup (v : Nat) {e : Entry} :
    ∀ {l : List Entry}, (l.map (·.id)).Nodup → e ∈ l →
      (l.map (launchJob v)).filter (fun j => j.eid == e.id) = [launchJob v e] := by
  intro l
  induction l with
  | nil => intro _ h; cases h
  | cons x xs ih =>
    intro hn hx
    simp only [List.map_cons, List.nodup_cons] at hn
    simp only [List.map_cons, List.filter_cons, launchJob]
    rcases List.mem_cons.1 hx with rfl | hx'
    · simp only [beq_self_eq_true, if_true]
      congr 1
      rw [List.filter_eq_nil_iff]
      intro j hj
      obtain ⟨y, hy, rfl⟩ := List.mem_map.1 hj
      simp only [beq_iff_eq]
      intro heq
      exact hn.1 (heq ▸ List.mem_map_of_mem hy)
    · have hne : (x.id == e.id) = false := by
        simp only [beq_eq_false_iff_ne]
        intro heq
        exact hn.1 (heq ▸ List.mem_map_of_mem hx')
      simp only [hne, Bool.false_eq_true, if_false]
      exact ih hn.2 hx'

theorem filter_map_id_none (f : Entry → Rec) (hf : ∀ e, (f e).id = e.id) {id : Nat} {l : List Entry}
    (h : ∀ x ∈ l, x.id ≠ id) : (l.map f).filter (fun r => r.id == id) = [] := by
  rw [List.filter_eq_nil_iff]
  intro r hr
  obtain ⟨y, hy, rfl⟩ := List.mem_map.1 hr
  simpa [hf] using h y hy

/-- ids of the entry list plus the entry on its way into it -/
def liveIds (s : State) : List Nat :=
  s.entries.map (·.id) ++ (match s.pc with
    | .refresh (some (id, _)) => [id]
    | _ => [])

/-- the effect of one API call on (last issued id, live ids), as documented: `Schedule` issues the
next id and makes it live, `Remove(id)` makes `id` not live, nothing else changes them -/
def specStep (p : Nat × List Nat) : Label → Nat × List Nat
  | .add _ => (p.1 + 1, p.2 ++ [p.1 + 1])
  | .remove id => (p.1, p.2.filter (· ≠ id))
  | _ => p

/-- (last issued id, issued − removed) after a history -/
def specLive (h : List Label) : Nat × List Nat := h.foldl specStep (0, [])

theorem specStep_perm {n : Nat} {a b : List Nat} (hp : a.Perm b) (l : Label) :
    (specStep (n, a) l).1 = (specStep (n, b) l).1 ∧ (specStep (n, a) l).2.Perm (specStep (n, b) l).2 := by
  cases l <;> simp only [specStep] <;> first
    | exact ⟨trivial, hp⟩
    | exact ⟨trivial, hp.append_right _⟩
    | exact ⟨trivial, hp.filter _⟩
    | exact ⟨rfl, hp⟩
    | exact ⟨rfl, hp.append_right _⟩
    | exact ⟨rfl, hp.filter _⟩

theorem live_step {S : Scheds} {s s' : State} {l : Label} (hA : InvA s) (h : step S s l = some s') :
    s'.nextID = (specStep (s.nextID, liveIds s) l).1 ∧
    (liveIds s').Perm (specStep (s.nextID, liveIds s) l).2 := by
  have hoff : s.running = false → s.pc = .off := by
    intro hr; have := hA.run_pc; simp [hr] at this; exact this
  cases l with
  | add sid =>
    rcases step_add_inv h with ⟨_, hp, rfl⟩ | ⟨hr, rfl⟩
    · obtain ⟨tm, hpc⟩ := isParked_iff.1 hp
      simp [specStep, liveIds, hpc]
    · simp [specStep, liveIds, hoff hr]
  | remove id =>
    rcases step_remove_inv h with ⟨_, hp, rfl⟩ | ⟨hr, rfl⟩
    · obtain ⟨tm, hpc⟩ := isParked_iff.1 hp
      simp only [specStep, liveIds, hpc, List.append_nil]
      refine ⟨trivial, ?_⟩
      rw [List.filter_map]
      exact List.Perm.refl _ |>.trans (by simp [Function.comp_def])
    · simp only [specStep, liveIds, hoff hr, List.append_nil]
      refine ⟨trivial, ?_⟩
      rw [List.filter_map]
      exact List.Perm.refl _ |>.trans (by simp [Function.comp_def])
  | snapshot => obtain ⟨rfl, _⟩ := step_snapshot_inv h; exact ⟨rfl, List.Perm.refl _⟩
  | start =>
    rcases step_start_inv h with ⟨_, rfl⟩ | ⟨hr, rfl⟩
    · exact ⟨rfl, List.Perm.refl _⟩
    · simp [specStep, liveIds, hoff hr]
  | stop =>
    rcases step_stop_inv h with ⟨_, hp, rfl⟩ | ⟨_, rfl⟩
    · obtain ⟨tm, hpc⟩ := isParked_iff.1 hp
      simp [specStep, liveIds, hpc]
    · exact ⟨rfl, List.Perm.refl _⟩
  | advance t =>
    obtain ⟨_, ⟨tm, hpc, rfl⟩ | ⟨_, rfl⟩⟩ := step_advance_inv h
    · simp [specStep, liveIds, hpc]
    · exact ⟨rfl, List.Perm.refl _⟩
  | boot =>
    obtain ⟨hpc, rfl⟩ := step_boot_inv h
    simp [specStep, liveIds, hpc, Function.comp_def]
  | refresh =>
    rcases step_refresh_inv h with ⟨hpc, rfl⟩ | ⟨id, sid, hpc, rfl⟩
    · simp [specStep, liveIds, hpc]
    · simp [specStep, liveIds, hpc]
  | arm =>
    obtain ⟨hpc, rfl⟩ := step_arm_inv h
    simp only [specStep, liveIds, hpc, List.append_nil]
    exact ⟨trivial, (sortBT_perm s.entries).map _⟩
  | wake =>
    obtain ⟨tm, v, hpc, _, rfl⟩ := step_wake_inv h
    simp only [specStep, liveIds, hpc, List.append_nil]
    refine ⟨trivial, ?_⟩
    rw [wakeLoop_ids]
  | jobBegin i => obtain ⟨_, _, _, rfl⟩ := step_jobBegin_inv h; exact ⟨rfl, List.Perm.refl _⟩
  | jobDone i => obtain ⟨_, _, _, _, rfl⟩ := step_jobDone_inv h; exact ⟨rfl, List.Perm.refl _⟩
  | ctxWait k => obtain ⟨_, rfl⟩ := step_ctxWait_inv h; exact ⟨rfl, List.Perm.refl _⟩

theorem live_runFrom {S : Scheds} (h : List Label) :
    ∀ {s s' : State} {ids : List Nat}, Reach S s → (liveIds s).Perm ids → runFrom S s h = some s' →
      s'.nextID = (h.foldl specStep (s.nextID, ids)).1 ∧
      (liveIds s').Perm (h.foldl specStep (s.nextID, ids)).2 := by
  induction h with
  | nil => intro s s' ids _ hp hr; simp [runFrom] at hr; subst hr; exact ⟨rfl, hp⟩
  | cons l ls ih =>
    intro s s' ids hreach hp hr
    simp only [runFrom] at hr
    cases hl : step S s l with
    | none => simp [hl] at hr
    | some s1 =>
      rw [hl] at hr
      obtain ⟨h1, h2⟩ := live_step (reach_invA hreach) hl
      obtain ⟨h3, h4⟩ := specStep_perm hp l
      have := ih (Reach.step l hreach hl) (h2.trans h4) hr
      simp only [List.foldl_cons]
      have heq : specStep (s.nextID, ids) l = (s1.nextID, (specStep (s.nextID, ids) l).2) := by
        rw [h1, h3]
      rw [heq]
      exact this

end Kit.CronSched
