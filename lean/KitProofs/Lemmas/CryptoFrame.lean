import KitProofs.Lemmas.SliceHeap
import KitModel.CryptoFrame
/-!
`Sat` lemmas for every function of `KitModel/CryptoFrame.lean` (the `.fixed` version): which
slices a helper writes, proved statement by statement with the rules of
`KitProofs/Lemmas/SliceHeap.lean`.
-/
namespace Kit.CryptoFrame
open Kit Kit.SH
variable {n : Nat} {W : Nat → Nat → Prop}

theorem sat_failIf (c : Bool) (e : String) : Sat n W (failIf c e) (fun _ => c = false) := by
  unfold failIf
  split
  · exact sat_fail _
  · rename_i hc; exact sat_pure (by simpa using hc)

theorem sat_panicIf (c : Bool) (w : String) : Sat n W (panicIf c w) (fun _ => c = false) := by
  unfold panicIf
  split
  · exact sat_goPanic _
  · rename_i hc; exact sat_pure (by simpa using hc)

theorem sat_orPanic {m : M α} {Q : α → Prop} (hm : Sat n W m Q) : Sat n W (orPanic m) Q := by
  intro h hn
  have := hm h hn
  unfold orPanic
  rcases hmh : m h with ⟨o, h'⟩
  rw [hmh] at this
  cases o with
  | ok a => exact this
  | err e => exact ⟨this.1, fun a ha => by cases ha⟩
  | panic w => exact this

theorem sat_mapErr {m : M α} {Q : α → Prop} (e : String) (hm : Sat n W m Q) :
    Sat n W (mapErr e m) Q := by
  intro h hn
  have := hm h hn
  unfold mapErr
  rcases hmh : m h with ⟨o, h'⟩
  rw [hmh] at this
  cases o with
  | ok a => exact this
  | err e => exact ⟨this.1, fun a ha => by cases ha⟩
  | panic w => exact this

theorem sat_pure_eq (a : α) : Sat n W (pure a : M α) (fun x => x = a) := sat_pure rfl

macro_rules | `(tactic| sat_rule) => `(tactic| with_reducible exact sat_pure_eq _)
macro_rules | `(tactic| sat_rule) => `(tactic| with_reducible exact sat_failIf _ _)
macro_rules | `(tactic| sat_rule) => `(tactic| with_reducible exact sat_panicIf _ _)
macro_rules | `(tactic| sat_rule) => `(tactic| (with_reducible (show Sat _ _ (orPanic _) _); exact sat_orPanic (by sat_rule)))
macro_rules | `(tactic| sat_rule) => `(tactic| (with_reducible (show Sat _ _ (mapErr _ _) _); exact sat_mapErr _ (by sat_rule)))

/-- side conditions `Wr n W s` / the store condition of `append` for slices created in the call -/
macro "sat_side" : tactic =>
  `(tactic| first | exact Or.inl (by omega) | (unfold Wr; exact Or.inl (by omega)) | exact wr_nil | assumption)

/-- peel binds, discharge each head by a registered rule, split on `if`/`match` -/
macro "sat_auto" : tactic => `(tactic| (
  repeat' (first
    | (with_reducible refine sat_bind (by (sat_rule <;> sat_side)) ?_; intro _ _; try simp only [])
    | (with_reducible refine sat_pure ?_)
    | (with_reducible exact sat_fail _)
    | (with_reducible exact sat_goPanic _)
    | (with_reducible refine sat_mono (by (sat_rule <;> sat_side)) ?_; intro _ _)
    | (with_reducible refine sat_ite (fun _ => ?_) (fun _ => ?_))
    | (show Sat _ _ _ _; split))
  all_goals (try trivial)
  all_goals (try omega)))

/-! ## crypto/padding -/

theorem sat_padPKCS7 (buf : Slice) (size : Int) :
    Sat n W (padPKCS7 .fixed buf size)
      (fun r => n ≤ r.arr ∧ r.len = buf.len + (size.toNat - buf.len % size.toNat)) := by
  unfold padPKCS7
  sat_auto

macro_rules | `(tactic| sat_rule) => `(tactic| with_reducible exact sat_padPKCS7 _ _)

theorem sat_unpadPKCS7 (buf : Slice) (size : Int) :
    Sat n W (unpadPKCS7 buf size) (fun _ => True) := by
  unfold unpadPKCS7
  sat_auto

macro_rules | `(tactic| sat_rule) => `(tactic| with_reducible exact sat_unpadPKCS7 _ _)

/-! ## crypto/aeskw -/

theorem sat_appendAll (out : Slice) (rest : List Slice) (ho : n ≤ out.arr) :
    Sat n W (appendAll out rest) (fun r => n ≤ r.arr) := by
  induction rest generalizing out with
  | nil => exact sat_pure ho
  | cons a rest ih =>
    unfold appendAll
    refine sat_bind (sat_readS a) fun vals _ => ?_
    refine sat_bind (sat_append out vals (Or.inl ho)) fun out' ho' => ?_
    exact ih out' (ho'.2.1 ho)

theorem sat_arrConcat (arrays : List Slice) :
    Sat n W (arrConcat arrays) (fun r => n ≤ r.arr) := by
  unfold arrConcat
  split
  · exact sat_goPanic _
  · refine sat_bind (sat_make _) fun out ho => ?_
    refine sat_bind (sat_copyS out _ (Or.inl ho.1)) fun _ _ => ?_
    exact sat_appendAll out _ ho.1

macro_rules | `(tactic| sat_rule) => `(tactic| with_reducible exact sat_arrConcat _)

theorem sat_arrXor (l r : Slice) : Sat n W (arrXor l r) (fun x => n ≤ x.arr) := by
  unfold arrXor
  sat_auto

macro_rules | `(tactic| sat_rule) => `(tactic| with_reducible exact sat_arrXor _ _)

/-- an element of a list of fresh slices, or the nil slice, may be written -/
theorem wr_getD (r : List Slice) (i : Nat) (hr : ∀ s, s ∈ r → n ≤ s.arr) :
    Wr n W (r.getD i Slice.nil) := by
  rw [List.getD_eq_getElem?_getD]
  cases hi : r[i]? with
  | none => exact wr_nil
  | some s => exact Or.inl (hr s (List.mem_of_getElem? hi))

theorem sat_wrap (env : Env) (cek : Slice) : Sat n W (wrap env cek) (fun r => n ≤ r.arr) := by
  unfold wrap
  refine sat_bind (sat_failIf _ _) fun _ _ => ?_
  refine sat_bind (sat_failIf _ _) fun _ _ => ?_
  refine sat_bind (sat_make 8) fun a ha => ?_
  refine sat_bind (sat_writeAt a 0 _ (Or.inl ha.1)) fun _ _ => ?_
  refine sat_bind (sat_collect _ _ (fun s => n ≤ s.arr) fun i _ => by sat_auto) fun r hr => ?_
  refine sat_bind (sat_loop _ _ fun j _ => sat_loop _ _ fun i0 _ => ?_) fun _ _ => ?_
  · have hri : Wr n W (r.getD i0 Slice.nil) := wr_getD r i0 hr
    sat_auto
  · refine sat_bind (sat_make _) fun c hc => ?_
    refine sat_bind (sat_copyS c a (Or.inl hc.1)) fun _ _ => ?_
    refine sat_bind (sat_loop _ _ fun i0 _ => ?_) fun _ _ => sat_pure hc.1
    sat_auto

macro_rules | `(tactic| sat_rule) => `(tactic| with_reducible exact sat_wrap _ _)

theorem sat_unwrap (env : Env) (ct : Slice) : Sat n W (unwrap env ct) (fun r => n ≤ r.arr) := by
  unfold unwrap
  refine sat_bind (sat_failIf _ _) fun _ _ => ?_
  refine sat_bind (sat_make 8) fun a ha => ?_
  refine sat_bind (sat_collect _ _ (fun s => n ≤ s.arr) fun i _ => by sat_auto) fun r hr => ?_
  refine sat_bind (sat_reslice _ _ _) fun hd _ => ?_
  refine sat_bind (sat_copyS a hd (Or.inl ha.1)) fun _ _ => ?_
  refine sat_bind (sat_loop _ _ fun j _ => sat_loop _ _ fun i0 _ => ?_) fun _ _ => ?_
  · have hri : Wr n W (r.getD i0 Slice.nil) := wr_getD r i0 hr
    sat_auto
  · sat_auto

macro_rules | `(tactic| sat_rule) => `(tactic| with_reducible exact sat_unwrap _ _)

/-! ## crypto/aescbcaead -/

theorem sat_newAESCBCAEAD (p : AEADParams) (key : Slice) :
    Sat n W (newAESCBCAEAD p key) (fun a => a.p = p) := by
  unfold newAESCBCAEAD
  sat_auto

macro_rules | `(tactic| sat_rule) => `(tactic| with_reducible exact sat_newAESCBCAEAD _ _)

theorem sat_touch (xs : List Slice) : Sat n W (touch xs) (fun _ => True) := by
  unfold touch
  refine sat_loop _ _ fun x _ => ?_
  sat_auto

macro_rules | `(tactic| sat_rule) => `(tactic| with_reducible exact sat_touch _)

theorem sat_discard {m : M α} {Q : α → Prop} (hm : Sat n W m Q) : Sat n W (discard m) (fun _ => True) := by
  unfold discard
  exact sat_bind hm fun _ _ => sat_pure trivial

macro_rules | `(tactic| sat_rule) => `(tactic| (with_reducible (show Sat _ _ (discard _) _); exact sat_discard (by sat_rule)))

theorem sat_hmacTag (env : Env) (a : CbcAead) (ad nonce ct : Slice) :
    Sat n W (hmacTag env a ad nonce ct) (fun r => n ≤ r.arr) := by
  unfold hmacTag
  sat_auto

macro_rules | `(tactic| sat_rule) => `(tactic| with_reducible exact sat_hmacTag _ _ _ _ _)

theorem sat_growDst (dst : Slice) (size : Nat) :
    Sat n W (growDst dst size)
      (fun r => r.len = dst.len + size ∧ r.len ≤ r.cap ∧
        (n ≤ r.arr ∨ (dst.cap ≥ dst.len + size ∧ r.arr = dst.arr ∧ r.off = dst.off))) := by
  unfold growDst
  sat_auto

macro_rules | `(tactic| sat_rule) => `(tactic| with_reducible exact sat_growDst _ _)

/-- the output area `dst[len(dst) : len(dst)+size]` may be written: it is fresh, or the caller
allowed exactly those cells -/
theorem wr_out {dst d out : Slice} {size : Nat}
    (hW : dst.cap ≥ dst.len + size → ∀ i, dst.off + dst.len ≤ i → i < dst.off + dst.len + size → W dst.arr i)
    (hd : n ≤ d.arr ∨ (dst.cap ≥ dst.len + size ∧ d.arr = dst.arr ∧ d.off = dst.off))
    (ha : out.arr = d.arr) (hlo : d.off + dst.len ≤ out.off) (hhi : out.off + out.len ≤ d.off + dst.len + size) :
    Wr n W out := by
  rcases hd with hd | ⟨hc, h1, h2⟩
  · exact Or.inl (by omega)
  · right
    intro i hi1 hi2
    rw [ha, h1]
    exact hW hc i (by omega) (by omega)

theorem sat_cbcSeal (env : Env) (a : CbcAead) (dst nonce plaintext ad : Slice)
    (hW : dst.cap ≥ dst.len + (paddedLen plaintext.len + a.p.tagSize) →
      ∀ i, dst.off + dst.len ≤ i → i < dst.off + dst.len + (paddedLen plaintext.len + a.p.tagSize) →
        W dst.arr i) :
    Sat n W (cbcSeal .fixed env a dst nonce plaintext ad) (fun _ => True) := by
  unfold cbcSeal
  refine sat_bind (sat_panicIf _ _) fun _ _ => ?_
  refine sat_bind (sat_orPanic (sat_aesNewCipher _ _)) fun _ _ => ?_
  refine sat_bind (sat_orPanic (sat_padPKCS7 plaintext 16)) fun padded hp => ?_
  have hlen : padded.len = paddedLen plaintext.len := by
    have := hp.2
    simp at this
    simp only [paddedLen]
    omega
  simp only []
  rw [hlen]
  refine sat_bind (sat_growDst dst _) fun d hd => ?_
  refine sat_bind (sat_resliceFrom d dst.len) fun out ho => ?_
  refine sat_bind (sat_reslice out 0 _) fun body hb => ?_
  refine sat_bind (sat_cryptBlocks env body padded
    (wr_out hW hd.2.2 (by omega) (by omega) (by omega))) fun _ _ => ?_
  refine sat_bind (sat_hmacTag env a ad _ _) fun tag _ => ?_
  refine sat_bind (sat_resliceFrom out _) fun tl ht => ?_
  refine sat_bind (sat_copyS tl tag
    (wr_out hW hd.2.2 (by omega) (by omega) (by omega))) fun _ _ => ?_
  exact sat_pure trivial

theorem sat_cbcOpen (env : Env) (a : CbcAead) (dst nonce ciphertext ad : Slice)
    (hW : dst.cap ≥ dst.len + (ciphertext.len - a.p.tagSize) →
      ∀ i, dst.off + dst.len ≤ i → i < dst.off + dst.len + (ciphertext.len - a.p.tagSize) →
        W dst.arr i) :
    Sat n W (cbcOpen env a dst nonce ciphertext ad) (fun _ => True) := by
  unfold cbcOpen
  refine sat_bind (sat_failIf _ _) fun _ _ => ?_
  refine sat_bind (sat_failIf _ _) fun _ _ => ?_
  refine sat_bind (sat_resliceFrom _ _) fun _ _ => ?_
  refine sat_bind (sat_reslice ciphertext 0 _) fun body hb => ?_
  refine sat_bind (sat_hmacTag env a ad _ _) fun _ _ => ?_
  refine sat_bind (sat_failIf _ _) fun _ _ => ?_
  refine sat_bind (sat_failIf _ _) fun _ _ => ?_
  have hlen : body.len = ciphertext.len - a.p.tagSize := by omega
  simp only []
  rw [hlen]
  refine sat_bind (sat_growDst dst _) fun d hd => ?_
  refine sat_bind (sat_resliceFrom d dst.len) fun out ho => ?_
  refine sat_bind (sat_aesNewCipher _ _) fun _ _ => ?_
  refine sat_bind (sat_panicIf _ _) fun _ _ => ?_
  refine sat_bind (sat_cryptBlocks env out body
    (wr_out hW hd.2.2 (by omega) (by omega) (by omega))) fun _ _ => ?_
  refine sat_bind (sat_unpadPKCS7 out 16) fun _ _ => ?_
  exact sat_mono (sat_reslice _ _ _) fun _ _ => trivial

/-- with `dst = nil` nothing of the caller's can be written -/
theorem sat_cbcSeal_nil (env : Env) (a : CbcAead) (nonce plaintext ad : Slice) :
    Sat n W (cbcSeal .fixed env a Slice.nil nonce plaintext ad) (fun _ => True) :=
  sat_cbcSeal env a _ _ _ _ (by simp [Slice.nil, paddedLen]; omega)

theorem sat_cbcOpen_nil (env : Env) (a : CbcAead) (nonce ciphertext ad : Slice) :
    Sat n W (cbcOpen env a Slice.nil nonce ciphertext ad) (fun _ => True) :=
  sat_cbcOpen env a _ _ _ _ (by simp [Slice.nil]; omega)

macro_rules | `(tactic| sat_rule) => `(tactic| with_reducible exact sat_cbcSeal_nil _ _ _ _ _)
macro_rules | `(tactic| sat_rule) => `(tactic| with_reducible exact sat_cbcOpen_nil _ _ _ _ _)

/-! ## crypto (symmetric.go) -/

/-- the standard library's `Seal(dst, …)` contract: an append to `dst` -/
theorem sat_stdSeal (env : Env) (dst pt : Slice) (ov : Nat)
    (hW : dst.cap ≥ dst.len + (pt.len + ov) →
      ∀ i, dst.off + dst.len ≤ i → i < dst.off + dst.len + (pt.len + ov) → W dst.arr i) :
    Sat n W (stdSeal env dst pt ov) (fun _ => True) := by
  unfold stdSeal
  refine sat_mono (sat_append _ _ (Or.inr ?_)) fun _ _ => trivial
  intro hc i h1 h2
  simp only [Env.length_bytes] at hc h1 h2
  exact hW (by omega) i h1 h2

theorem sat_stdOpen (env : Env) (dst ct : Slice) (ov : Nat) (e : String)
    (hW : dst.cap ≥ dst.len + (ct.len - ov) →
      ∀ i, dst.off + dst.len ≤ i → i < dst.off + dst.len + (ct.len - ov) → W dst.arr i) :
    Sat n W (stdOpen env dst ct ov e) (fun _ => True) := by
  unfold stdOpen
  split
  · exact sat_fail _
  · refine sat_bind (sat_append _ _ (Or.inr ?_)) fun _ _ => ?_
    · intro hc i h1 h2
      simp only [Env.length_bytes] at hc h1 h2
      exact hW (by omega) i h1 h2
    · split
      · exact sat_pure trivial
      · exact sat_fail _

theorem sat_stdSeal_nil (env : Env) (pt : Slice) (ov : Nat) :
    Sat n W (stdSeal env Slice.nil pt ov) (fun _ => True) := by
  unfold stdSeal
  refine sat_mono (sat_append _ _ (Or.inr ?_)) fun _ _ => trivial
  intro hc i h1 h2
  simp [Slice.nil, Env.length_bytes] at hc h1 h2
  omega

theorem sat_stdOpen_nil (env : Env) (ct : Slice) (ov : Nat) (e : String) :
    Sat n W (stdOpen env Slice.nil ct ov e) (fun _ => True) := by
  unfold stdOpen
  split
  · exact sat_fail _
  · refine sat_bind (sat_append _ _ (Or.inr ?_)) fun _ _ => ?_
    · intro hc i h1 h2
      simp [Slice.nil, Env.length_bytes] at hc h1 h2
      omega
    · split
      · exact sat_pure trivial
      · exact sat_fail _

macro_rules | `(tactic| sat_rule) => `(tactic| with_reducible exact sat_stdSeal_nil _ _ _)
macro_rules | `(tactic| sat_rule) => `(tactic| with_reducible exact sat_stdOpen_nil _ _ _ _)

theorem sat_aeadSeal_nil (env : Env) (ae : Aead) (nonce pt ad : Slice) :
    Sat n W (ae.seal .fixed env Slice.nil nonce pt ad) (fun _ => True) := by
  unfold Aead.seal
  sat_auto

theorem sat_aeadOpen_nil (env : Env) (ae : Aead) (nonce ct ad : Slice) :
    Sat n W (ae.open env Slice.nil nonce ct ad) (fun _ => True) := by
  unfold Aead.open
  sat_auto

macro_rules | `(tactic| sat_rule) => `(tactic| with_reducible exact sat_aeadSeal_nil _ _ _ _ _)
macro_rules | `(tactic| sat_rule) => `(tactic| with_reducible exact sat_aeadOpen_nil _ _ _ _ _)

theorem sat_encryptSymmetricAESCBC (env : Env) (pt : Slice) (alg : String) (key iv : Slice) :
    Sat n W (encryptSymmetricAESCBC .fixed env pt alg key iv) (fun _ => True) := by
  unfold encryptSymmetricAESCBC
  sat_auto

theorem sat_decryptSymmetricAESCBC (env : Env) (ct : Slice) (alg : String) (key iv : Slice) :
    Sat n W (decryptSymmetricAESCBC env ct alg key iv) (fun _ => True) := by
  unfold decryptSymmetricAESCBC
  sat_auto

macro_rules | `(tactic| sat_rule) => `(tactic| with_reducible exact sat_encryptSymmetricAESCBC _ _ _ _ _)
macro_rules | `(tactic| sat_rule) => `(tactic| with_reducible exact sat_decryptSymmetricAESCBC _ _ _ _ _)

theorem sat_encryptSymmetricAEAD (env : Env) (ae : Aead) (pt nonce ad : Slice) :
    Sat n W (encryptSymmetricAEAD .fixed env ae pt nonce ad) (fun _ => True) := by
  unfold encryptSymmetricAEAD
  sat_auto

theorem sat_joinTag (ct tag : Slice) : Sat n W (joinTag .fixed ct tag) (fun r => n ≤ r.arr) := by
  unfold joinTag
  sat_auto

macro_rules | `(tactic| sat_rule) => `(tactic| with_reducible exact sat_encryptSymmetricAEAD _ _ _ _ _)
macro_rules | `(tactic| sat_rule) => `(tactic| with_reducible exact sat_joinTag _ _)

theorem sat_decryptSymmetricAEAD (env : Env) (ae : Aead) (ct nonce tag ad : Slice) :
    Sat n W (decryptSymmetricAEAD .fixed env ae ct nonce tag ad) (fun _ => True) := by
  unfold decryptSymmetricAEAD
  sat_auto

theorem sat_getAESCBCHMACCipher (alg : String) (key : Slice) :
    Sat n W (getAESCBCHMACCipher alg key) (fun _ => True) := by
  unfold getAESCBCHMACCipher
  sat_auto

theorem sat_getChaCha20Poly1305Cipher (alg : String) (key nonce : Slice) :
    Sat n W (getChaCha20Poly1305Cipher alg key nonce) (fun _ => True) := by
  unfold getChaCha20Poly1305Cipher
  sat_auto

macro_rules | `(tactic| sat_rule) => `(tactic| with_reducible exact sat_decryptSymmetricAEAD _ _ _ _ _ _)
macro_rules | `(tactic| sat_rule) => `(tactic| with_reducible exact sat_getAESCBCHMACCipher _ _)
macro_rules | `(tactic| sat_rule) => `(tactic| with_reducible exact sat_getChaCha20Poly1305Cipher _ _ _)

theorem sat_encryptSymmetricAESGCM (env : Env) (pt : Slice) (alg : String) (key nonce ad : Slice) :
    Sat n W (encryptSymmetricAESGCM .fixed env pt alg key nonce ad) (fun _ => True) := by
  unfold encryptSymmetricAESGCM
  sat_auto

theorem sat_decryptSymmetricAESGCM (env : Env) (ct : Slice) (alg : String) (key nonce tag ad : Slice) :
    Sat n W (decryptSymmetricAESGCM .fixed env ct alg key nonce tag ad) (fun _ => True) := by
  unfold decryptSymmetricAESGCM
  sat_auto

theorem sat_encryptSymmetricAESCBCHMAC (env : Env) (pt : Slice) (alg : String) (key nonce ad : Slice) :
    Sat n W (encryptSymmetricAESCBCHMAC .fixed env pt alg key nonce ad) (fun _ => True) := by
  unfold encryptSymmetricAESCBCHMAC
  sat_auto

theorem sat_decryptSymmetricAESCBCHMAC (env : Env) (ct : Slice) (alg : String) (key nonce tag ad : Slice) :
    Sat n W (decryptSymmetricAESCBCHMAC .fixed env ct alg key nonce tag ad) (fun _ => True) := by
  unfold decryptSymmetricAESCBCHMAC
  sat_auto

theorem sat_encryptSymmetricAESKW (env : Env) (pt : Slice) (alg : String) (key : Slice) :
    Sat n W (encryptSymmetricAESKW env pt alg key) (fun _ => True) := by
  unfold encryptSymmetricAESKW
  sat_auto

theorem sat_decryptSymmetricAESKW (env : Env) (ct : Slice) (alg : String) (key : Slice) :
    Sat n W (decryptSymmetricAESKW env ct alg key) (fun _ => True) := by
  unfold decryptSymmetricAESKW
  sat_auto

theorem sat_encryptSymmetricChaCha20Poly1305 (env : Env) (pt : Slice) (alg : String)
    (key nonce ad : Slice) :
    Sat n W (encryptSymmetricChaCha20Poly1305 .fixed env pt alg key nonce ad) (fun _ => True) := by
  unfold encryptSymmetricChaCha20Poly1305
  sat_auto

theorem sat_decryptSymmetricChaCha20Poly1305 (env : Env) (ct : Slice) (alg : String)
    (key nonce tag ad : Slice) :
    Sat n W (decryptSymmetricChaCha20Poly1305 .fixed env ct alg key nonce tag ad) (fun _ => True) := by
  unfold decryptSymmetricChaCha20Poly1305
  sat_auto

macro_rules | `(tactic| sat_rule) => `(tactic| with_reducible exact sat_encryptSymmetricAESGCM _ _ _ _ _ _)
macro_rules | `(tactic| sat_rule) => `(tactic| with_reducible exact sat_decryptSymmetricAESGCM _ _ _ _ _ _ _)
macro_rules | `(tactic| sat_rule) => `(tactic| with_reducible exact sat_encryptSymmetricAESCBCHMAC _ _ _ _ _ _)
macro_rules | `(tactic| sat_rule) => `(tactic| with_reducible exact sat_decryptSymmetricAESCBCHMAC _ _ _ _ _ _ _)
macro_rules | `(tactic| sat_rule) => `(tactic| with_reducible exact sat_encryptSymmetricAESKW _ _ _ _)
macro_rules | `(tactic| sat_rule) => `(tactic| with_reducible exact sat_decryptSymmetricAESKW _ _ _ _)
macro_rules | `(tactic| sat_rule) => `(tactic| with_reducible exact sat_encryptSymmetricChaCha20Poly1305 _ _ _ _ _ _)
macro_rules | `(tactic| sat_rule) => `(tactic| with_reducible exact sat_decryptSymmetricChaCha20Poly1305 _ _ _ _ _ _ _)

theorem sat_encryptSymmetric (env : Env) (pt : Slice) (alg : String) (key : Key) (nonce ad : Slice) :
    Sat n W (encryptSymmetric .fixed env pt alg key nonce ad) (fun _ => True) := by
  unfold encryptSymmetric
  sat_auto

theorem sat_decryptSymmetric (env : Env) (ct : Slice) (alg : String) (key : Key)
    (nonce tag ad : Slice) :
    Sat n W (decryptSymmetric .fixed env ct alg key nonce tag ad) (fun _ => True) := by
  unfold decryptSymmetric
  sat_auto

macro_rules | `(tactic| sat_rule) => `(tactic| with_reducible exact sat_encryptSymmetric _ _ _ _ _ _)
macro_rules | `(tactic| sat_rule) => `(tactic| with_reducible exact sat_decryptSymmetric _ _ _ _ _ _ _)

/-! ## crypto (asymmetric_*.go, crypto.go, keys.go) -/

theorem sat_asymPrim (env : Env) (k : Nat) : Sat n W (asymPrim env k) (fun _ => True) := by
  unfold asymPrim
  sat_auto

macro_rules | `(tactic| sat_rule) => `(tactic| with_reducible exact sat_asymPrim _ _)

theorem sat_encryptPublicKeyRSAPKCS1v15 (env : Env) (k : Nat) (pt : Slice) (key : Key) :
    Sat n W (encryptPublicKeyRSAPKCS1v15 env k pt key) (fun _ => True) := by
  unfold encryptPublicKeyRSAPKCS1v15
  sat_auto

macro_rules | `(tactic| sat_rule) => `(tactic| with_reducible exact sat_encryptPublicKeyRSAPKCS1v15 _ _ _ _)

theorem sat_encryptPublicKeyRSAOAEP (env : Env) (k : Nat) (pt : Slice) (key : Key) (label : Slice) :
    Sat n W (encryptPublicKeyRSAOAEP env k pt key label) (fun _ => True) := by
  unfold encryptPublicKeyRSAOAEP
  sat_auto

macro_rules | `(tactic| sat_rule) => `(tactic| with_reducible exact sat_encryptPublicKeyRSAOAEP _ _ _ _ _)

theorem sat_decryptPrivateKeyRSAPKCS1v15 (env : Env) (k : Nat) (ct : Slice) (key : Key) :
    Sat n W (decryptPrivateKeyRSAPKCS1v15 env k ct key) (fun _ => True) := by
  unfold decryptPrivateKeyRSAPKCS1v15
  sat_auto

macro_rules | `(tactic| sat_rule) => `(tactic| with_reducible exact sat_decryptPrivateKeyRSAPKCS1v15 _ _ _ _)

theorem sat_decryptPrivateKeyRSAOAEP (env : Env) (k : Nat) (ct : Slice) (key : Key) (label : Slice) :
    Sat n W (decryptPrivateKeyRSAOAEP env k ct key label) (fun _ => True) := by
  unfold decryptPrivateKeyRSAOAEP
  sat_auto

macro_rules | `(tactic| sat_rule) => `(tactic| with_reducible exact sat_decryptPrivateKeyRSAOAEP _ _ _ _ _)

theorem sat_signPrivateKeyRSAPKCS1v15 (env : Env) (k : Nat) (d : Slice) (key : Key) :
    Sat n W (signPrivateKeyRSAPKCS1v15 env k d key) (fun _ => True) := by
  unfold signPrivateKeyRSAPKCS1v15
  sat_auto

macro_rules | `(tactic| sat_rule) => `(tactic| with_reducible exact sat_signPrivateKeyRSAPKCS1v15 _ _ _ _)

theorem sat_signPrivateKeyRSAPSS (env : Env) (k : Nat) (d : Slice) (key : Key) :
    Sat n W (signPrivateKeyRSAPSS env k d key) (fun _ => True) := by
  unfold signPrivateKeyRSAPSS
  sat_auto

macro_rules | `(tactic| sat_rule) => `(tactic| with_reducible exact sat_signPrivateKeyRSAPSS _ _ _ _)

theorem sat_signPrivateKeyECDSA (env : Env) (k : Nat) (d : Slice) (key : Key) :
    Sat n W (signPrivateKeyECDSA env k d key) (fun _ => True) := by
  unfold signPrivateKeyECDSA
  sat_auto

macro_rules | `(tactic| sat_rule) => `(tactic| with_reducible exact sat_signPrivateKeyECDSA _ _ _ _)

theorem sat_signPrivateKeyEdDSA (env : Env) (k : Nat) (d : Slice) (key : Key) :
    Sat n W (signPrivateKeyEdDSA env k d key) (fun _ => True) := by
  unfold signPrivateKeyEdDSA
  sat_auto

macro_rules | `(tactic| sat_rule) => `(tactic| with_reducible exact sat_signPrivateKeyEdDSA _ _ _ _)

theorem sat_verifyPublicKeyRSAPKCS1v15 (env : Env) (d sg : Slice) (key : Key) :
    Sat n W (verifyPublicKeyRSAPKCS1v15 env d sg key) (fun _ => True) := by
  unfold verifyPublicKeyRSAPKCS1v15
  sat_auto

macro_rules | `(tactic| sat_rule) => `(tactic| with_reducible exact sat_verifyPublicKeyRSAPKCS1v15 _ _ _ _)

theorem sat_verifyPublicKeyRSAPSS (env : Env) (d sg : Slice) (key : Key) :
    Sat n W (verifyPublicKeyRSAPSS env d sg key) (fun _ => True) := by
  unfold verifyPublicKeyRSAPSS
  sat_auto

macro_rules | `(tactic| sat_rule) => `(tactic| with_reducible exact sat_verifyPublicKeyRSAPSS _ _ _ _)

theorem sat_verifyPublicKeyECDSA (env : Env) (d sg : Slice) (key : Key) :
    Sat n W (verifyPublicKeyECDSA env d sg key) (fun _ => True) := by
  unfold verifyPublicKeyECDSA
  sat_auto

macro_rules | `(tactic| sat_rule) => `(tactic| with_reducible exact sat_verifyPublicKeyECDSA _ _ _ _)

theorem sat_verifyPublicKeyEdDSA (env : Env) (d sg : Slice) (key : Key) :
    Sat n W (verifyPublicKeyEdDSA env d sg key) (fun _ => True) := by
  unfold verifyPublicKeyEdDSA
  sat_auto

macro_rules | `(tactic| sat_rule) => `(tactic| with_reducible exact sat_verifyPublicKeyEdDSA _ _ _ _)

theorem sat_encryptPublicKey (env : Env) (k : Nat) (pt : Slice) (alg : String) (key : Key) (ad : Slice) :
    Sat n W (encryptPublicKey env k pt alg key ad) (fun _ => True) := by
  unfold encryptPublicKey
  sat_auto

theorem sat_decryptPrivateKey (env : Env) (k : Nat) (ct : Slice) (alg : String) (key : Key) (ad : Slice) :
    Sat n W (decryptPrivateKey env k ct alg key ad) (fun _ => True) := by
  unfold decryptPrivateKey
  sat_auto

theorem sat_signPrivateKey (env : Env) (k : Nat) (digest : Slice) (alg : String) (key : Key) :
    Sat n W (signPrivateKey env k digest alg key) (fun _ => True) := by
  unfold signPrivateKey
  sat_auto

theorem sat_verifyPublicKey (env : Env) (digest sig : Slice) (alg : String) (key : Key) :
    Sat n W (verifyPublicKey env digest sig alg key) (fun _ => True) := by
  unfold verifyPublicKey
  sat_auto

macro_rules | `(tactic| sat_rule) => `(tactic| with_reducible exact sat_encryptPublicKey _ _ _ _ _ _)
macro_rules | `(tactic| sat_rule) => `(tactic| with_reducible exact sat_decryptPrivateKey _ _ _ _ _ _)
macro_rules | `(tactic| sat_rule) => `(tactic| with_reducible exact sat_signPrivateKey _ _ _ _ _)
macro_rules | `(tactic| sat_rule) => `(tactic| with_reducible exact sat_verifyPublicKey _ _ _ _ _)

theorem sat_encrypt (env : Env) (k : Nat) (pt : Slice) (alg : String) (key : Key) (nonce ad : Slice) :
    Sat n W (encrypt .fixed env k pt alg key nonce ad) (fun _ => True) := by
  unfold encrypt
  sat_auto

theorem sat_decrypt (env : Env) (k : Nat) (ct : Slice) (alg : String) (key : Key)
    (nonce tag ad : Slice) :
    Sat n W (decrypt .fixed env k ct alg key nonce tag ad) (fun _ => True) := by
  unfold decrypt
  sat_auto

theorem sat_parseSymmetricKey (env : Env) (raw : Slice) :
    Sat n W (parseSymmetricKey env raw) (fun _ => True) := by
  unfold parseSymmetricKey
  sat_auto

macro_rules | `(tactic| sat_rule) => `(tactic| with_reducible exact sat_parseSymmetricKey _ _)

theorem sat_parseKey (env : Env) (raw : Slice) (ctype : String) :
    Sat n W (parseKey env raw ctype) (fun _ => True) := by
  unfold parseKey
  sat_auto

macro_rules | `(tactic| sat_rule) => `(tactic| with_reducible exact sat_encrypt _ _ _ _ _ _ _)
macro_rules | `(tactic| sat_rule) => `(tactic| with_reducible exact sat_decrypt _ _ _ _ _ _ _ _)
macro_rules | `(tactic| sat_rule) => `(tactic| with_reducible exact sat_parseKey _ _ _)

/-! ## from `Sat` to the frame statement -/

theorem frames_of_sat {m : M α} {rs : List (Nat × Nat × Nat)}
    (hs : ∀ k, Sat k (InRanges rs) m (fun _ => True)) : Frames rs m :=
  fun h => (hs h.size h (Nat.le_refl _)).1

theorem readOnly_of_frames {m : M α} (hf : Frames [] m) : ReadOnly m := by
  intro h a ha
  exact (hf h).getElem?_eq (Nat.le_refl _) a ha (fun i hi => by simp [InRanges] at hi)

theorem Frames.mono {m : M α} {rs rs' : List (Nat × Nat × Nat)} (hm : Frames rs m)
    (h : ∀ a i, InRanges rs a i → InRanges rs' a i) : Frames rs' m := by
  intro hp
  have e := hm hp
  exact ⟨e.1, fun a ha => ⟨(e.2 a ha).1, fun i hi => (e.2 a ha).2 i (fun hw => hi (h a i hw))⟩⟩

theorem discard_heap (m : M α) (h : Heap) : (discard m h).2 = (m h).2 := by
  show (M.bind m (fun _ => pure ()) h).2 = _
  unfold M.bind
  rcases hm : m h with ⟨o, h'⟩
  cases o <;> rfl

theorem Frames.discard {m : M α} {rs : List (Nat × Nat × Nat)} (hm : Frames rs m) :
    Frames rs (discard m) := fun h => by
  rw [discard_heap]
  exact hm h

theorem sat_true {m : M α} {Q : α → Prop} (hm : Sat n W m Q) : Sat n W m (fun _ => True) :=
  sat_mono hm fun _ _ => trivial

end Kit.CryptoFrame
