import KitModel.BatcherAccept
import KitProofs.Lemmas.Batcher
import KitProofs.Lemmas.BatcherWedge
/-!
Soundness of the C10 trace acceptor (`KitModel/BatcherAccept.lean`): the normal form `strip` is a
simulation, the closure only adds states reachable by silent steps, and every state kept after a
trace is the normal form of the end state of a run of `Batcher.step` from `init` whose observable
projection is that trace.
-/
namespace Kit.Batcher
open Kit.Queue Kit.Processor

/-! ### `strip` commutes with every step (up to `strip`) -/

@[simp] theorem pstrip_process (p : PState) (b : Bool) : pstrip (process p b) = process (pstrip p) b := by
  unfold process pstrip
  split <;> (try split) <;> simp_all

theorem pstrip_comm (p : PState) (l : PLabel) :
    (Processor.step pcfg (pstrip p) l).map pstrip = (Processor.step pcfg p l).map pstrip := by
  have hq : (pstrip p).q = p.q := rfl
  cases l
  case enqueue k t v f =>
    simp only [Processor.step, hq]
    split
    · simp only [Option.map_some, pstrip_process]; rfl
    · rfl
  case dequeue k f =>
    simp only [Processor.step, hq]
    split
    · split
      · simp only [Option.map_some, pstrip_process]; rfl
      · rfl
    · rfl
  case peek hd =>
    simp only [Processor.step]
    cases hpc : p.pc <;> simp [pstrip, hpc]
    split
    · cases hd <;> simp <;> (try (split)) <;> rfl
    · rfl
  case execCheck hd =>
    simp only [Processor.step]
    cases hpc : p.pc <;> simp [pstrip, hpc]
    split
    · split <;> simp <;> rfl
    · rfl
  all_goals
    (simp only [Processor.step]
     first
     | (cases hpc : p.pc <;> simp [pstrip, hpc] <;> (try (split <;> simp)) <;> (try rfl) <;> done)
     | (simp [pstrip] <;> (try (split <;> simp)) <;> (try rfl) <;> done))

/-! ### facts about the normal form -/

@[simp] theorem stripSub_pc (u : Sub) : (stripSub u).pc = u.pc := by
  unfold stripSub; cases h : u.pc <;> simp [h]

@[simp] theorem stripSub_inList (u : Sub) : (stripSub u).inList = u.inList := by
  simp [Sub.inList]

@[simp] theorem stripSub_idem (u : Sub) : stripSub (stripSub u) = stripSub u := by
  unfold stripSub; cases h : u.pc <;> simp [h]

theorem stripSub_len {u : Sub} (h : u.pc ≠ .done) : (stripSub u).buf.length = u.buf.length := by
  unfold stripSub; cases hp : u.pc <;> simp_all

theorem stripSub_ctx {u : Sub} (h : u.pc ≠ .done) : (stripSub u).ctxDone = u.ctxDone := by
  unfold stripSub; cases hp : u.pc <;> simp_all

theorem stripSub_exit {u : Sub} (h : u.pc ≠ .done) : (stripSub u).exitClosed = u.exitClosed := by
  unfold stripSub; cases hp : u.pc <;> simp_all

@[simp] theorem strip_p (s : State) : (strip s).p = pstrip s.p := rfl
@[simp] theorem strip_epc (s : State) : (strip s).epc = s.epc := rfl
@[simp] theorem strip_closed (s : State) : (strip s).closed = s.closed := rfl
@[simp] theorem strip_subs (s : State) : (strip s).subs = s.subs.map stripSub := rfl
@[simp] theorem strip_cq (s : State) : (strip s).cq = s.cq := rfl
@[simp] theorem strip_cl (s : State) : (strip s).cl = s.cl := rfl
@[simp] theorem strip_cw (s : State) : (strip s).cw = s.cw := rfl
@[simp] theorem strip_cr (s : State) : (strip s).cr = s.cr := rfl
@[simp] theorem strip_waitS (s : State) : (strip s).waitS = s.waitS := rfl
@[simp] theorem strip_waitSD (s : State) : (strip s).waitSD = s.waitSD := rfl
@[simp] theorem strip_retS (s : State) : (strip s).retS = s.retS := rfl
@[simp] theorem strip_out (s : State) : (strip s).out = [] := rfl

@[simp] theorem pstrip_idem (p : PState) : pstrip (pstrip p) = pstrip p := rfl

@[simp] theorem strip_idem (s : State) : strip (strip s) = strip s := by
  simp [strip, Function.comp_def]

@[simp] theorem lockFree_strip (s : State) : lockFree (strip s) = lockFree s := rfl

@[simp] theorem allDone_strip (s : State) : allDone (strip s) = allDone s := by
  simp [allDone, List.all_map, Function.comp_def]

theorem strip_get (s : State) (i : Nat) : (strip s).subs[i]? = (s.subs[i]?).map stripSub := by
  simp

/-- Two states with the same normal form after the same update of subscriber `i`. -/
theorem strip_set (s : State) (i : Nat) (a b : Sub) (h : stripSub a = stripSub b) :
    (s.subs.map stripSub |>.set i a).map stripSub = (s.subs.set i b).map stripSub := by
  rw [List.map_set, List.map_set, h]
  simp [Function.comp_def]

theorem strip_setSub_eq (s : State) (i : Nat) {a b : Sub} (h : stripSub a = stripSub b) :
    strip (setSub (strip s) i a) = strip (setSub s i b) := by
  simp only [strip, setSub, pstrip_idem]
  congr 1
  exact strip_set s i a b h

theorem strip_exec_eq (s : State) (i : Nat) (e : EPc) {a b : Sub} (h : stripSub a = stripSub b) :
    strip { strip s with subs := (strip s).subs.set i a, epc := e } = strip { s with subs := s.subs.set i b, epc := e } := by
  simp only [strip, pstrip_idem]
  congr 1
  exact strip_set s i a b h

/-! ### every step commutes with `strip` -/

theorem comm_fwdTake (s : State) (i : Nat) : (fwdTake (strip s) i).map strip = (fwdTake s i).map strip := by
  simp only [fwdTake, strip_get]
  cases h : s.subs[i]? with
  | none => simp
  | some u =>
    simp only [Option.map_some, stripSub_pc]
    cases hpc : u.pc
    case idle =>
      have hb : (stripSub u).buf = u.buf := by simp [stripSub, hpc]
      simp only [hb]
      cases hbuf : u.buf with
      | nil => rfl
      | cons x rest =>
        simp only [Option.map_some, Option.some.injEq]
        exact strip_setSub_eq s i (by simp [stripSub, hpc])
    all_goals rfl

theorem comm_fwdDeliver (s : State) (i : Nat) : (fwdDeliver (strip s) i).map strip = (fwdDeliver s i).map strip := by
  simp only [fwdDeliver, strip_get]
  cases h : s.subs[i]? with
  | none => rfl
  | some u =>
    simp only [Option.map_some, stripSub_pc]
    cases hpc : u.pc
    case holding x =>
      simp only [Option.map_some, Option.some.injEq]
      exact strip_setSub_eq s i (by simp [stripSub, hpc])
    all_goals rfl

theorem comm_fwdDropCtx (s : State) (i : Nat) : (fwdDropCtx (strip s) i).map strip = (fwdDropCtx s i).map strip := by
  simp only [fwdDropCtx, strip_get]
  cases h : s.subs[i]? with
  | none => rfl
  | some u =>
    simp only [Option.map_some, stripSub_pc]
    cases hpc : u.pc
    case holding x =>
      simp only [stripSub_ctx (u := u) (by simp [hpc])]
      split
      · simp only [Option.map_some, Option.some.injEq]
        exact strip_setSub_eq s i (by simp [stripSub, hpc])
      · rfl
    all_goals rfl

theorem comm_fwdDropClose (s : State) (i : Nat) : (fwdDropClose (strip s) i).map strip = (fwdDropClose s i).map strip := by
  simp only [fwdDropClose, strip_get]
  cases h : s.subs[i]? with
  | none => rfl
  | some u =>
    simp only [Option.map_some, stripSub_pc]
    cases hpc : u.pc
    case holding x =>
      by_cases hc : s.closed = true
      · have hc' : (strip s).closed = true := hc
        simp only [hc, hc', if_true, Option.map_some, Option.some.injEq]
        exact strip_setSub_eq s i (by simp [stripSub, hpc])
      · have hc' : ¬ (strip s).closed = true := hc
        simp [hc, hc']
    all_goals rfl

theorem comm_fwdExitCtx (s : State) (i : Nat) : (fwdExitCtx (strip s) i).map strip = (fwdExitCtx s i).map strip := by
  simp only [fwdExitCtx, strip_get]
  cases h : s.subs[i]? with
  | none => rfl
  | some u =>
    simp only [Option.map_some, stripSub_pc]
    cases hpc : u.pc
    case idle =>
      simp only [stripSub_ctx (u := u) (by simp [hpc])]
      split
      · simp only [Option.map_some, Option.some.injEq]
        exact strip_setSub_eq s i (by simp [stripSub, hpc])
      · rfl
    all_goals rfl

theorem comm_fwdExitClose (s : State) (i : Nat) : (fwdExitClose (strip s) i).map strip = (fwdExitClose s i).map strip := by
  simp only [fwdExitClose, strip_get]
  cases h : s.subs[i]? with
  | none => rfl
  | some u =>
    simp only [Option.map_some, stripSub_pc]
    cases hpc : u.pc
    case idle =>
      by_cases hc : s.closed = true
      · have hc' : (strip s).closed = true := hc
        simp only [hc, hc', if_true, Option.map_some, Option.some.injEq]
        exact strip_setSub_eq s i (by simp [stripSub, hpc])
      · have hc' : ¬ (strip s).closed = true := hc
        simp [hc, hc']
    all_goals rfl

theorem comm_fwdCloseExit (cfg : Cfg) (s : State) (i : Nat) :
    (fwdCloseExit cfg (strip s) i).map strip = (fwdCloseExit cfg s i).map strip := by
  simp only [fwdCloseExit, strip_get]
  cases h : s.subs[i]? with
  | none => rfl
  | some u =>
    simp only [Option.map_some, stripSub_pc]
    cases hpc : u.pc
    case exiting =>
      simp only [Option.map_some, Option.some.injEq]
      exact strip_setSub_eq s i (by simp [stripSub, hpc, Function.comp_def])
    all_goals rfl

theorem comm_fwdRemove (s : State) (i : Nat) : (fwdRemove (strip s) i).map strip = (fwdRemove s i).map strip := by
  simp only [fwdRemove, strip_get]
  cases h : s.subs[i]? with
  | none => rfl
  | some u =>
    simp only [Option.map_some, stripSub_pc]
    cases hpc : u.pc
    case wantLock =>
      by_cases hc : lockFree s = true
      · have hc' : lockFree (strip s) = true := hc
        simp only [hc, hc', if_true, Option.map_some, Option.some.injEq]
        exact strip_setSub_eq s i (by simp [stripSub])
      · have hc' : ¬ lockFree (strip s) = true := hc
        simp [hc, hc']
    all_goals rfl

theorem comm_cancel (s : State) (i : Nat) : (cancel (strip s) i).map strip = (cancel s i).map strip := by
  simp only [cancel, strip_get]
  cases h : s.subs[i]? with
  | none => rfl
  | some u =>
    simp only [Option.map_some, Option.some.injEq]
    exact strip_setSub_eq s i (by unfold stripSub; cases hpc : u.pc <;> simp [hpc])

theorem strip_eq {a b : State} (hp : pstrip a.p = pstrip b.p) (hs : a.subs.map stripSub = b.subs.map stripSub)
    (h1 : a.epc = b.epc) (h2 : a.closed = b.closed) (h3 : a.cq = b.cq) (h4 : a.cl = b.cl) (h5 : a.cw = b.cw)
    (h6 : a.cr = b.cr) (h7 : a.waitS = b.waitS) (h8 : a.waitSD = b.waitSD) (h9 : a.retS = b.retS) :
    strip a = strip b := by
  cases a; cases b; simp_all [strip]

theorem map_strip_idem (l : List Sub) : (l.map stripSub).map stripSub = l.map stripSub := by
  simp [Function.comp_def]

theorem comm_send (cfg : Cfg) (s : State) : (send cfg (strip s)).map strip = (send cfg s).map strip := by
  simp only [send, strip_epc]
  cases he : s.epc <;> try rfl
  rename_i r i
  simp only [strip_get]
  cases h : s.subs[i]? with
  | none => rfl
  | some u =>
    simp only [Option.map_some, stripSub_inList]
    by_cases hd : u.pc = .done
    · have : u.inList = false := by simp [Sub.inList, hd]
      simp [this]
    · rw [stripSub_len hd]
      split
      · simp only [Option.map_some, Option.some.injEq]
        refine strip_exec_eq s i _ ?_
        unfold stripSub; cases hpc : u.pc <;> simp_all [Function.comp_def]
      · rfl

theorem comm_skipExit (s : State) : (skipExit (strip s)).map strip = (skipExit s).map strip := by
  simp only [skipExit, strip_epc]
  cases he : s.epc <;> try rfl
  rename_i r i
  simp only [strip_get]
  cases h : s.subs[i]? with
  | none => rfl
  | some u =>
    simp only [Option.map_some, stripSub_inList]
    by_cases hd : u.pc = .done
    · have : u.inList = false := by simp [Sub.inList, hd]
      simp [this]
    · rw [stripSub_exit hd]
      split
      · simp only [Option.map_some, Option.some.injEq]
        refine strip_exec_eq s i _ ?_
        unfold stripSub; cases hpc : u.pc <;> simp_all
      · rfl

/-- Finish: both sides are `some` of states with the same normal form. -/
macro "fin_strip" : tactic =>
  `(tactic| (simp only [Option.map_some]; congr 1; apply strip_eq <;> simp [map_strip_idem]))

theorem comm_skipClose (s : State) : (skipClose (strip s)).map strip = (skipClose s).map strip := by
  simp only [skipClose, strip_epc]
  cases he : s.epc <;> try rfl
  rename_i r i
  simp only [strip_get]
  cases h : s.subs[i]? with
  | none => rfl
  | some u =>
    simp only [Option.map_some]
    by_cases hc : u.inList = true ∧ s.closed = true
    · have hc' : (stripSub u).inList = true ∧ (strip s).closed = true := by simpa using hc
      rw [if_pos hc', if_pos hc]
      simp only [Option.map_some, Option.some.injEq]
      refine strip_exec_eq s i _ ?_
      unfold stripSub; cases hpc : u.pc <;> simp_all
    · have hc' : ¬ ((stripSub u).inList = true ∧ (strip s).closed = true) := by simpa using hc
      rw [if_neg hc', if_neg hc]

theorem comm_skipGone (s : State) : (skipGone (strip s)).map strip = (skipGone s).map strip := by
  simp only [skipGone, strip_epc]
  cases he : s.epc <;> try rfl
  rename_i r i
  simp only [strip_get]
  cases h : s.subs[i]? with
  | none => rfl
  | some u =>
    simp only [Option.map_some]
    by_cases hc : u.inList = false
    · have hc' : (stripSub u).inList = false := by simpa using hc
      rw [if_pos hc', if_pos hc]
      simp only [Option.map_some, Option.some.injEq]
      refine strip_exec_eq s i _ ?_
      unfold stripSub; cases hpc : u.pc <;> simp_all
    · have hc' : ¬ (stripSub u).inList = false := by simpa using hc
      rw [if_neg hc', if_neg hc]

theorem comm_execLock (s : State) : (execLock (strip s)).map strip = (execLock s).map strip := by
  simp only [execLock, strip_epc]
  cases he : s.epc <;> try rfl
  rename_i r
  simp only []
  by_cases hc : s.closed = true
  · have hc' : (strip s).closed = true := hc
    rw [if_pos hc', if_pos hc]
    fin_strip
  · have hc' : ¬ (strip s).closed = true := hc
    rw [if_neg hc', if_neg hc]
    fin_strip

theorem comm_subCall (s : State) : (subCall (strip s)).map strip = (subCall s).map strip := by
  simp only [subCall]
  fin_strip

theorem comm_subCallDone (s : State) : (subCallDone (strip s)).map strip = (subCallDone s).map strip := by
  simp only [subCallDone]
  fin_strip

theorem comm_subReturn (s : State) : (subReturn (strip s)).map strip = (subReturn s).map strip := by
  simp only [subReturn]
  by_cases hg : 0 < s.retS
  · have hg' : 0 < (strip s).retS := hg
    rw [if_pos hg', if_pos hg]
    fin_strip
  · have hg' : ¬ 0 < (strip s).retS := hg
    rw [if_neg hg', if_neg hg]

@[simp] theorem stripSub_new (n : Nat) : stripSub (Sub.new n) = Sub.new 0 := rfl
@[simp] theorem stripSub_newDone (n : Nat) :
    stripSub { Sub.new n with ctxDone := true } = { Sub.new 0 with ctxDone := true } := rfl

theorem comm_subAcquire (s : State) : (subAcquire (strip s)).map strip = (subAcquire s).map strip := by
  simp only [subAcquire]
  by_cases hg : 0 < s.waitS ∧ lockFree s = true
  · have hg' : 0 < (strip s).waitS ∧ lockFree (strip s) = true := hg
    rw [if_pos hg', if_pos hg]
    by_cases hc : s.closed = true
    · have hc' : (strip s).closed = true := hc
      rw [if_pos hc', if_pos hc]
      fin_strip
    · have hc' : ¬ (strip s).closed = true := hc
      rw [if_neg hc', if_neg hc]
      simp only [Option.map_some]; congr 1; apply strip_eq <;> simp [map_strip_idem]
  · have hg' : ¬ (0 < (strip s).waitS ∧ lockFree (strip s) = true) := hg
    rw [if_neg hg', if_neg hg]

theorem comm_subAcquireDone (s : State) : (subAcquireDone (strip s)).map strip = (subAcquireDone s).map strip := by
  simp only [subAcquireDone]
  by_cases hg : 0 < s.waitSD ∧ lockFree s = true
  · have hg' : 0 < (strip s).waitSD ∧ lockFree (strip s) = true := hg
    rw [if_pos hg', if_pos hg]
    by_cases hc : s.closed = true
    · have hc' : (strip s).closed = true := hc
      rw [if_pos hc', if_pos hc]
      fin_strip
    · have hc' : ¬ (strip s).closed = true := hc
      rw [if_neg hc', if_neg hc]
      simp only [Option.map_some]; congr 1; apply strip_eq <;> simp [map_strip_idem]
  · have hg' : ¬ (0 < (strip s).waitSD ∧ lockFree (strip s) = true) := hg
    rw [if_neg hg', if_neg hg]

theorem comm_closeLock (s : State) : (closeLock (strip s)).map strip = (closeLock s).map strip := by
  simp only [closeLock]
  by_cases hg : 0 < s.cl ∧ lockFree s = true
  · have hg' : 0 < (strip s).cl ∧ lockFree (strip s) = true := hg
    rw [if_pos hg', if_pos hg]
    fin_strip
  · have hg' : ¬ (0 < (strip s).cl ∧ lockFree (strip s) = true) := hg
    rw [if_neg hg', if_neg hg]

theorem comm_closeReturn (s : State) : (closeReturn (strip s)).map strip = (closeReturn s).map strip := by
  simp only [closeReturn]
  by_cases hg : 0 < s.cw ∧ allDone s = true
  · have hg' : 0 < (strip s).cw ∧ allDone (strip s) = true := by simpa using hg
    rw [if_pos hg', if_pos hg]
    fin_strip
  · have hg' : ¬ (0 < (strip s).cw ∧ allDone (strip s) = true) := by simpa using hg
    rw [if_neg hg', if_neg hg]

theorem comm_procmap (s : State) (l : PLabel) (f g H : PState → State)
    (hf : ∀ p', strip (f p') = strip (H (pstrip p'))) (hg : ∀ p', strip (g p') = strip (H (pstrip p'))) :
    ((Processor.step pcfg (pstrip s.p) l).map f).map strip = ((Processor.step pcfg s.p l).map g).map strip := by
  rw [Option.map_map, Option.map_map]
  have e1 : strip ∘ f = (strip ∘ H) ∘ pstrip := funext hf
  have e2 : strip ∘ g = (strip ∘ H) ∘ pstrip := funext hg
  rw [e1, e2]
  have key : ∀ x : Option PState, x.map ((strip ∘ H) ∘ pstrip) = (x.map pstrip).map (strip ∘ H) := by
    intro x; cases x <;> rfl
  rw [key, key, pstrip_comm]

/-- Finish for `comm_procmap`'s side conditions. -/
macro "fin_proc" : tactic =>
  `(tactic| (intro p'; apply strip_eq <;> simp [map_strip_idem]))

theorem comm_procStep (cfg : Cfg) (s : State) (l : PLabel) :
    (procStep cfg (strip s) l).map strip = (procStep cfg s l).map strip := by
  cases l
  case dequeue k f => rfl
  case closeBegin => rfl
  case enqueue k t v f =>
    simp only [procStep]
    by_cases ht : t = s.p.now + cfg.interval
    · have ht' : t = (strip s).p.now + cfg.interval := ht
      rw [if_pos ht', if_pos ht]
      exact comm_procmap s _ _ _ (fun q => { s with p := q }) (by fin_proc) (by fin_proc)
    · have ht' : ¬ t = (strip s).p.now + cfg.interval := ht
      rw [if_neg ht', if_neg ht]
  case cbStart =>
    simp only [procStep]
    have hpc : (strip s).p.pc = s.p.pc := rfl
    rw [hpc]
    cases hp : s.p.pc <;> try rfl
    rename_i r
    exact comm_procmap s _ _ _ (fun q => { s with p := q, epc := .waiting r }) (by fin_proc) (by fin_proc)
  case cbReturn =>
    simp only [procStep, strip_epc]
    cases he : s.epc <;> try rfl
    rename_i r i
    simp only []
    by_cases hl : s.subs.length ≤ i
    · have hl' : (strip s).subs.length ≤ i := by simpa using hl
      rw [if_pos hl', if_pos hl]
      exact comm_procmap s _ _ _ (fun q => { s with p := q, epc := .idle }) (by fin_proc) (by fin_proc)
    · have hl' : ¬ (strip s).subs.length ≤ i := by simpa using hl
      rw [if_neg hl', if_neg hl]
  case closeReturn =>
    simp only [procStep]
    exact comm_procmap s _ _ _ (fun q => { s with p := q, cl := s.cl + 1 }) (by fin_proc) (by fin_proc)
  case closeAgain =>
    simp only [procStep]
    by_cases hq : 0 < s.cq
    · have hq' : 0 < (strip s).cq := hq
      rw [if_pos hq', if_pos hq]
      exact comm_procmap s _ _ _ (fun q => { s with p := q, cq := s.cq - 1, cl := s.cl + 1 }) (by fin_proc) (by fin_proc)
    · have hq' : ¬ 0 < (strip s).cq := hq
      rw [if_neg hq', if_neg hq]
  all_goals
    (simp only [procStep]
     exact comm_procmap s _ _ _ (fun q => { s with p := q }) (by fin_proc) (by fin_proc))

theorem comm_closeCall (s : State) : (closeCall (strip s)).map strip = (closeCall s).map strip := by
  simp only [closeCall]
  by_cases hs : s.p.stopped = false
  · have hs' : (strip s).p.stopped = false := hs
    rw [if_pos hs', if_pos hs]
    exact comm_procmap s _ _ _ (fun q => { s with p := q }) (by fin_proc) (by fin_proc)
  · have hs' : ¬ (strip s).p.stopped = false := hs
    rw [if_neg hs', if_neg hs]
    fin_strip

/-- **`strip` commutes with every step**: stepping the normal form and normalising is the same as
stepping the state and normalising. -/
theorem strip_comm (cfg : Cfg) (s : State) (l : Label) :
    (step cfg (strip s) l).map strip = (step cfg s l).map strip := by
  cases l <;> simp only [step]
  case proc l => exact comm_procStep cfg s l
  case execLock => exact comm_execLock s
  case send => exact comm_send cfg s
  case skipExit => exact comm_skipExit s
  case skipClose => exact comm_skipClose s
  case skipGone => exact comm_skipGone s
  case subCall => exact comm_subCall s
  case subAcquire => exact comm_subAcquire s
  case subReturn => exact comm_subReturn s
  case subCallDone => exact comm_subCallDone s
  case subAcquireDone => exact comm_subAcquireDone s
  case cancel i => exact comm_cancel s i
  case fwdTake i => exact comm_fwdTake s i
  case fwdDeliver i => exact comm_fwdDeliver s i
  case fwdDropCtx i => exact comm_fwdDropCtx s i
  case fwdDropClose i => exact comm_fwdDropClose s i
  case fwdExitCtx i => exact comm_fwdExitCtx s i
  case fwdExitClose i => exact comm_fwdExitClose s i
  case fwdCloseExit i => exact comm_fwdCloseExit cfg s i
  case fwdRemove i => exact comm_fwdRemove s i
  case closeCall => exact comm_closeCall s
  case closeLock => exact comm_closeLock s
  case closeReturn => exact comm_closeReturn s

/-- The reduction is a simulation: a step from a state with the same normal form is matched by the
same label from the state itself, into states with the same normal form. -/
theorem strip_sim {cfg : Cfg} {s t t' : State} {l : Label} (hst : strip s = strip t)
    (h : step cfg t l = some t') : ∃ s', step cfg s l = some s' ∧ strip s' = strip t' := by
  have h1 : (step cfg (strip t) l).map strip = some (strip t') := by rw [strip_comm, h]; rfl
  rw [← hst, strip_comm] at h1
  cases hs : step cfg s l with
  | none => rw [hs] at h1; cases h1
  | some s' => rw [hs] at h1; exact ⟨s', rfl, by simpa using h1⟩

/-! ### executions and what the acceptor keeps -/

/-- Observations that stand for no step: a goroutine seen at a hook point, a channel seen closed,
quiescence — and `Batch`, which is a no-op once the processor has been stopped. -/
def isCheck : Obs → Bool
  | .adv _ | .scall | .scalld | .sret | .cancel _ | .recv _ _ | .ccall | .cret => false
  | _ => true

/-- `Exec tr ls`: the labels `ls` are an execution that the trace `tr` describes — each label is
silent or is a label the next observation stands for; check observations consume no label. -/
inductive Exec : List Obs → List Label → Prop
  | nil : Exec [] []
  | silent {tr : List Obs} {ls : List Label} {l : Label} : Exec tr ls → silentL l = true → Exec tr (ls ++ [l])
  | obs {tr : List Obs} {ls : List Label} {o : Obs} {l : Label} : Exec tr ls → Stands o l → Exec (tr ++ [o]) (ls ++ [l])
  | check {tr : List Obs} {ls : List Label} {o : Obs} : Exec tr ls → isCheck o = true → Exec (tr ++ [o]) ls

theorem runFrom_append {cfg : Cfg} : ∀ (ls : List Label) (s : State) (l : Label),
    runFrom cfg s (ls ++ [l]) = (runFrom cfg s ls).bind (fun s' => step cfg s' l) := by
  intro ls
  induction ls with
  | nil => intro s l; simp [runFrom]
  | cons a ls ih =>
    intro s l
    simp only [List.cons_append, runFrom]
    cases step cfg s a with
    | none => rfl
    | some s1 => simp [ih]

/-- `t` is (up to normal form) the end state of an execution described by `tr`. -/
def Kept (cfg : Cfg) (tr : List Obs) (t : State) : Prop :=
  ∃ ls s, Exec tr ls ∧ runFrom cfg init ls = some s ∧ strip s = strip t

theorem kept_strip {cfg : Cfg} {tr : List Obs} {t : State} (h : Kept cfg tr t) : Kept cfg tr (strip t) := by
  obtain ⟨ls, s, he, hr, hs⟩ := h
  exact ⟨ls, s, he, hr, by simp [hs]⟩

theorem kept_silent {cfg : Cfg} {tr : List Obs} {t t' : State} {l : Label} (h : Kept cfg tr t)
    (hl : silentL l = true) (hst : step cfg t l = some t') : Kept cfg tr t' := by
  obtain ⟨ls, s, he, hr, hs⟩ := h
  obtain ⟨s', h1, h2⟩ := strip_sim hs hst
  exact ⟨ls ++ [l], s', Exec.silent he hl, by rw [runFrom_append, hr]; exact h1, h2⟩

theorem kept_obs {cfg : Cfg} {tr : List Obs} {t t' : State} {o : Obs} {l : Label} (h : Kept cfg tr t)
    (hl : Stands o l) (hst : step cfg t l = some t') : Kept cfg (tr ++ [o]) t' := by
  obtain ⟨ls, s, he, hr, hs⟩ := h
  obtain ⟨s', h1, h2⟩ := strip_sim hs hst
  exact ⟨ls ++ [l], s', Exec.obs he hl, by rw [runFrom_append, hr]; exact h1, h2⟩

theorem kept_check {cfg : Cfg} {tr : List Obs} {t : State} {o : Obs} (h : Kept cfg tr t)
    (hc : isCheck o = true) : Kept cfg (tr ++ [o]) t := by
  obtain ⟨ls, s, he, hr, hs⟩ := h
  exact ⟨ls, s, Exec.check he hc, hr, hs⟩

/-- What `onObs` returns: the state itself for a check, or the result of a label the observation
stands for. -/
theorem onObs_cases {cfg : Cfg} {fz : Freeze} {t t' : State} {o : Obs} (h : t' ∈ onObs cfg fz t o) :
    (t' = t ∧ isCheck o = true) ∨ ∃ l, Stands o l ∧ step cfg t l = some t' := by
  cases o <;> simp only [onObs] at h
  case batch k v =>
    have henq : t' ∈ [true, false].filterMap (fun first => step cfg t (.proc (.enqueue k (t.p.now + cfg.interval) v first))) →
        ∃ l, Stands (.batch k v) l ∧ step cfg t l = some t' := by
      intro hm
      obtain ⟨f, _, hf⟩ := List.mem_filterMap.mp hm
      exact ⟨_, ⟨_, f, rfl⟩, hf⟩
    split at h
    · rcases List.mem_cons.mp h with rfl | h
      · exact Or.inl ⟨rfl, rfl⟩
      · exact Or.inr (henq h)
    · exact Or.inr (henq h)
  case recv i v =>
    split at h
    · split at h
      · split at h
        · exact Or.inr ⟨_, rfl, by simpa using h⟩
        · simp at h
      · simp at h
    · simp at h
  case adv t0 => exact Or.inr ⟨_, rfl, by simpa using h⟩
  case scall => exact Or.inr ⟨_, rfl, by simpa using h⟩
  case scalld => exact Or.inr ⟨_, rfl, by simpa using h⟩
  case sret => exact Or.inr ⟨_, rfl, by simpa using h⟩
  case cancel i => exact Or.inr ⟨_, rfl, by simpa using h⟩
  case ccall => exact Or.inr ⟨_, rfl, by simpa using h⟩
  case cret => exact Or.inr ⟨_, rfl, by simpa using h⟩
  all_goals
    (refine Or.inl ⟨?_, rfl⟩
     repeat' (split at h)
     all_goals (first | (simpa using h) | (simp at h)))

/-! ### the closure only adds states reached by silent steps -/

theorem mem_pushNew {xs todo : List State} {seen : SSet} {x : State} (h : x ∈ (pushNew xs todo seen).1) :
    x ∈ xs ∨ x ∈ todo := by
  unfold pushNew at h
  induction xs generalizing todo seen with
  | nil => exact Or.inr h
  | cons a xs ih =>
    simp only [List.foldl_cons] at h
    split at h
    · rcases ih h with h | h
      · exact Or.inl (List.mem_cons_of_mem _ h)
      · exact Or.inr h
    · rcases ih h with h | h
      · exact Or.inl (List.mem_cons_of_mem _ h)
      · rcases List.mem_cons.mp h with rfl | h
        · exact Or.inl List.mem_cons_self
        · exact Or.inr h

theorem closure_inv {cfg : Cfg} {fz : Freeze} (P : State → Prop)
    (hP : ∀ t l t', P t → l ∈ hidden cfg fz t → step cfg t l = some t' → P (strip t')) :
    ∀ (fuel : Nat) (todo : List State) (seen : SSet) (acc : List State),
      (∀ x ∈ todo, P x) → (∀ x ∈ acc, P x) → ∀ x ∈ (closureFuel cfg fz fuel todo seen acc).1, P x := by
  intro fuel
  induction fuel with
  | zero =>
    intro todo seen acc _ hacc x hx
    cases todo <;> simp only [closureFuel] at hx <;> exact hacc x hx
  | succ n ih =>
    intro todo seen acc htodo hacc x hx
    cases todo with
    | nil => simp only [closureFuel] at hx; exact hacc x hx
    | cons s rest =>
      simp only [closureFuel] at hx
      refine ih _ _ _ ?_ ?_ x hx
      · intro y hy
        rcases mem_pushNew hy with hy | hy
        · obtain ⟨y0, hy0, rfl⟩ := List.mem_map.mp hy
          obtain ⟨l, hl, hst⟩ := List.mem_filterMap.mp hy0
          exact hP s l y0 (htodo s List.mem_cons_self) hl hst
        · exact htodo y (List.mem_cons_of_mem _ hy)
      · intro y hy
        rcases List.mem_cons.mp hy with rfl | hy
        · exact htodo _ List.mem_cons_self
        · exact hacc y hy

theorem closeSet_kept {cfg : Cfg} {fz : Freeze} {tr : List Obs} {xs : List State} (h : ∀ x ∈ xs, Kept cfg tr x) :
    ∀ x ∈ (closeSet cfg fz xs).1, Kept cfg tr x := by
  unfold closeSet
  refine closure_inv (Kept cfg tr) ?_ _ _ _ _ ?_ (by simp)
  · intro t l t' ht hl hst
    have hs : silentL l = true := by
      have := (List.mem_filter.mp hl).2
      simp only [Bool.and_eq_true] at this
      exact this.2
    exact kept_strip (kept_silent ht hs hst)
  · intro x hx
    rcases mem_pushNew hx with hx | hx
    · obtain ⟨y, hy, rfl⟩ := List.mem_map.mp hx
      exact kept_strip (h y hy)
    · simp at hx

theorem start_kept (cfg : Cfg) : ∀ x ∈ (start cfg).cur, Kept cfg [] x := by
  unfold start
  refine closeSet_kept ?_
  intro x hx
  simp only [List.mem_singleton] at hx
  subst hx
  exact ⟨[], init, Exec.nil, rfl, rfl⟩

theorem stepA_kept {cfg : Cfg} {tr : List Obs} {a : AState} (h : ∀ x ∈ a.cur, Kept cfg tr x) (o : Obs) :
    ∀ x ∈ (stepA cfg a o).cur, Kept cfg (tr ++ [o]) x := by
  unfold stepA
  refine closeSet_kept ?_
  intro x hx
  obtain ⟨t, ht, hxt⟩ := List.mem_flatMap.mp hx
  rcases onObs_cases hxt with ⟨rfl, hc⟩ | ⟨l, hl, hst⟩
  · exact kept_check (h _ ht) hc
  · exact kept_obs (h t ht) hl hst

theorem foldl_kept {cfg : Cfg} : ∀ (tr tr0 : List Obs) (a : AState), (∀ x ∈ a.cur, Kept cfg tr0 x) →
    ∀ x ∈ (tr.foldl (stepA cfg) a).cur, Kept cfg (tr0 ++ tr) x := by
  intro tr
  induction tr with
  | nil => intro tr0 a h; simpa using h
  | cons o tr ih =>
    intro tr0 a h
    simp only [List.foldl_cons]
    have := ih (tr0 ++ [o]) (stepA cfg a o) (stepA_kept h o)
    simpa using this

/-- Every state the acceptor keeps after a trace is the normal form of the end state of an
execution of the LTS from `init` that the trace describes. -/
theorem runA_kept (cfg : Cfg) (tr : List Obs) : ∀ x ∈ (runA cfg tr).cur, Kept cfg tr x := by
  have := foldl_kept (cfg := cfg) tr [] (start cfg) (start_kept cfg)
  simpa [runA] using this

end Kit.Batcher
