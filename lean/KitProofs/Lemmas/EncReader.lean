/-
Reader-script lemmas for the enc/v1 model: what one `Read` does, and the exact result of the
inner `fill` loop of `processSegments`, for every script.
-/
import KitModel.Enc

namespace Kit.Enc
open Kit

/-- The terminal condition arrives together with the last data byte. -/
def Reader.D (r : Reader) : Bool := r.endWithData && !r.data.isEmpty

theorem Term.res_ne_none (t : Term) : t.res ≠ .none := by cases t <;> simp [Term.res]

/-- Shape of a read that returns no terminal condition. -/
structure ReadNone (r : Reader) (m : Nat) (x : Bytes × ReadRes × Reader) : Prop where
  res : x.2.1 = .none
  stream : x.1 ++ x.2.2.stream = r.stream
  len : x.1.length ≤ m
  meas : x.2.2.measure < r.measure
  term : x.2.2.term = r.term
  d : x.2.2.D = r.D
  short : r.D = true → x.1.length < r.stream.length

/-- Shape of a read that delivers the terminal condition. -/
structure ReadEnd (r : Reader) (m : Nat) (x : Bytes × ReadRes × Reader) : Prop where
  res : x.2.1 = r.term.res
  chunk : x.1 = r.stream
  len : x.1.length ≤ m
  stream : x.2.2.stream = []
  term : x.2.2.term = r.term.after
  d : x.2.2.D = false
  withData : r.stream ≠ [] → r.D = true
  noData : r.stream = [] → r.D = false

theorem Reader.read_cases (r : Reader) (m : Nat) (hm : 0 < m) :
    ReadNone r m (r.read m) ∨ ReadEnd r m (r.read m) := by
  unfold Reader.read
  have hm0 : m ≠ 0 := by omega
  simp only [hm0, if_false]
  by_cases hp : r.pushback.isEmpty
  · -- no pushback
    have hpe : r.pushback = [] := by simpa using hp
    simp only [hp, Bool.not_true, Bool.false_eq_true, if_false]
    -- generic statement about readData
    have key : ∀ (k : Nat) (caps' : List Nat), 0 < k → k ≤ m → caps'.length ≤ r.caps.length →
        ReadNone r m (r.readData k caps') ∨ ReadEnd r m (r.readData k caps') := by
      intro k caps' hk hkm hc
      unfold Reader.readData
      by_cases hd : r.data.isEmpty
      · have hde : r.data = [] := by simpa using hd
        right
        simp only [hd, if_true]
        constructor <;> simp [Reader.stream, Reader.D, hpe, hde]
      · have hdne : r.data ≠ [] := by simpa using hd
        simp only [hd, Bool.false_eq_true, if_false]
        by_cases he : ((r.data.drop k).isEmpty && r.endWithData) = true
        · right
          simp only [he, if_true]
          have h1 : (r.data.drop k).isEmpty = true := by
            simp only [Bool.and_eq_true] at he; exact he.1
          have h2 : r.endWithData = true := by
            simp only [Bool.and_eq_true] at he; exact he.2
          have hlen : r.data.length ≤ k := by
            simpa [List.isEmpty_iff, List.drop_eq_nil_iff] using h1
          constructor <;> simp [Reader.stream, Reader.D, hpe, h2, hdne] <;> omega
        · left
          simp only [he, Bool.false_eq_true, if_false]
          have hdl : 0 < r.data.length := List.length_pos_iff.mpr hdne
          constructor
          · rfl
          · simp [Reader.stream, hpe]
          · simp; omega
          · simp [Reader.measure, hpe]; omega
          · rfl
          · -- D preserved
            simp only [Reader.D]
            by_cases hew : r.endWithData = true
            · have : (r.data.drop k).isEmpty = false := by
                cases h : (r.data.drop k).isEmpty <;> simp_all
              simp [hew, this, hdne]
            · simp [hew]
          · intro hD
            simp only [Reader.D, Bool.and_eq_true] at hD
            have hew := hD.1
            have : (r.data.drop k).isEmpty = false := by
              cases h : (r.data.drop k).isEmpty <;> simp_all
            have hlt : k < r.data.length := by
              have : r.data.drop k ≠ [] := by simpa [List.isEmpty_iff] using this
              simpa [List.drop_eq_nil_iff] using this
            simp [Reader.stream, hpe]; omega
    cases hcaps : r.caps with
    | nil =>
      simp only []
      exact key m [] hm (Nat.le_refl _) (by simp)
    | cons c cs =>
      simp only []
      by_cases hc : c = 0
      · left
        simp only [hc, if_true]
        constructor
        · rfl
        · simp [Reader.stream]
        · simp
        · simp [Reader.measure, hcaps]
        · rfl
        · simp [Reader.D]
        · intro hD
          simp only [Reader.D, Bool.and_eq_true] at hD
          have : r.data ≠ [] := by simpa using hD.2
          have := List.length_pos_iff.mpr this
          simp [Reader.stream]; omega
      · simp only [hc, if_false]
        have := key (min c m) cs (by omega) (Nat.min_le_right _ _) (by simp [hcaps])
        exact this
  · -- pushback present
    have hpne : r.pushback ≠ [] := by simpa using hp
    have hpl : 0 < r.pushback.length := List.length_pos_iff.mpr hpne
    left
    simp only [hp, Bool.not_false, if_true]
    constructor
    · rfl
    · simp [Reader.stream, ← List.append_assoc]
    · simp; omega
    · simp [Reader.measure]; omega
    · rfl
    · simp [Reader.D]
    · intro hD
      simp only [Reader.D, Bool.and_eq_true] at hD
      have : r.data ≠ [] := by simpa using hD.2
      have := List.length_pos_iff.mpr this
      simp [Reader.stream]; omega

end Kit.Enc

namespace Kit.Enc
open Kit

/-- `fill` hit the limit without seeing the terminal condition. -/
structure FillFull (r : Reader) (limit : Nat) (buf : Bytes) (x : Bytes × ReadRes × Reader) : Prop where
  eres : x.2.1 = .none
  ebuf : x.1 = buf ++ r.stream.take (limit - buf.length)
  estream : x.2.2.stream = r.stream.drop (limit - buf.length)
  eterm : x.2.2.term = r.term
  ed : x.2.2.D = r.D
  emeas : x.2.2.measure ≤ r.measure

/-- `fill` saw the terminal condition. -/
structure FillEnd (r : Reader) (buf : Bytes) (x : Bytes × ReadRes × Reader) : Prop where
  eres : x.2.1 = r.term.res
  ebuf : x.1 = buf ++ r.stream
  estream : x.2.2.stream = []
  eterm : x.2.2.term = r.term.after
  ed : x.2.2.D = false

theorem fill_spec : ∀ (fuel : Nat) (r : Reader) (limit : Nat) (buf : Bytes),
    r.measure < fuel → buf.length ≤ limit →
    ((limit - buf.length < r.stream.length ∨ (limit - buf.length = r.stream.length ∧ r.D = false)) →
        FillFull r limit buf (fill fuel r limit buf)) ∧
    ((r.stream.length < limit - buf.length ∨ (r.stream.length = limit - buf.length ∧ r.D = true ∧ 0 < limit - buf.length)) →
        FillEnd r buf (fill fuel r limit buf)) := by
  intro fuel
  induction fuel with
  | zero => intro r limit buf h; omega
  | succ fuel ih =>
    intro r limit buf hf hb
    by_cases hlt : buf.length < limit
    · -- one read
      have hm : 0 < limit - buf.length := by omega
      unfold fill
      simp only [hlt, if_true]
      rcases r.read_cases (limit - buf.length) hm with hn | he
      · -- read without terminal: recurse
        obtain ⟨hres, hstream, hlen, hmeas, hterm, hd, hshort⟩ := hn
        generalize hx : r.read (limit - buf.length) = x at *
        obtain ⟨chunk, res, r'⟩ := x
        simp only at hres hstream hlen hmeas hterm hd hshort
        subst hres
        simp only []
        have hb' : (buf ++ chunk).length ≤ limit := by simp; omega
        have hIH := ih r' limit (buf ++ chunk) (by omega) hb'
        have hsl : r.stream.length = chunk.length + r'.stream.length := by
          rw [← hstream]; simp
        have hneed : limit - (buf ++ chunk).length = limit - buf.length - chunk.length := by
          simp; omega
        have htake : r.stream.take (limit - buf.length)
            = chunk ++ r'.stream.take (limit - buf.length - chunk.length) := by
          rw [← hstream, List.take_append, List.take_of_length_le hlen]
        have hdrop : r.stream.drop (limit - buf.length)
            = r'.stream.drop (limit - buf.length - chunk.length) := by
          rw [← hstream, List.drop_append, List.drop_of_length_le hlen]; simp
        constructor
        · intro hA
          have hA' : limit - (buf ++ chunk).length < r'.stream.length ∨
              (limit - (buf ++ chunk).length = r'.stream.length ∧ r'.D = false) := by
            rw [hneed, hd]
            rcases hA with h | ⟨h, h2⟩
            · left; omega
            · right; exact ⟨by omega, h2⟩
          obtain ⟨f1, f2, f3, f4, f5, f6⟩ := hIH.1 hA'
          have g6 : (fill fuel r' limit (buf ++ chunk)).2.2.measure ≤ r.measure := by omega
          refine ⟨f1, ?_, ?_, by rw [f4, hterm], by rw [f5, hd], g6⟩
          · rw [f2, hneed, htake, List.append_assoc]
          · rw [f3, hneed, hdrop]
        · intro hB
          have hB' : r'.stream.length < limit - (buf ++ chunk).length ∨
              (r'.stream.length = limit - (buf ++ chunk).length ∧ r'.D = true ∧ 0 < limit - (buf ++ chunk).length) := by
            rw [hneed, hd]
            rcases hB with h | ⟨h, h2, h3⟩
            · left; omega
            · right
              have := hshort h2
              exact ⟨by omega, h2, by omega⟩
          obtain ⟨f1, f2, f3, f4, f5⟩ := hIH.2 hB'
          refine ⟨by rw [f1, hterm], ?_, f3, by rw [f4, hterm], f5⟩
          rw [f2, ← hstream, List.append_assoc]
      · -- read delivering the terminal
        obtain ⟨hres, hchunk, hlen, hstream, hterm, hd, hwith, hno⟩ := he
        generalize hx : r.read (limit - buf.length) = x at *
        obtain ⟨chunk, res, r'⟩ := x
        simp only at hres hchunk hlen hstream hterm hd hwith hno
        have hne : res ≠ .none := by rw [hres]; exact Term.res_ne_none _
        have hgoal : ∀ y : Bytes × ReadRes × Reader, y = (buf ++ chunk, res, r') →
            ((limit - buf.length < r.stream.length ∨ (limit - buf.length = r.stream.length ∧ r.D = false)) →
              FillFull r limit buf y) ∧
            ((r.stream.length < limit - buf.length ∨ (r.stream.length = limit - buf.length ∧ r.D = true ∧ 0 < limit - buf.length)) →
              FillEnd r buf y) := by
          intro y hy
          subst hy
          constructor
          · intro hA
            exfalso
            rw [hchunk] at hlen
            rcases hA with h | ⟨h, h2⟩
            · omega
            · by_cases hs : r.stream = []
              · simp [hs] at h; omega
              · have := hwith hs; simp [this] at h2
          · intro _
            exact ⟨hres, by rw [hchunk], hstream, hterm, hd⟩
        cases res with
        | none => exact absurd rfl hne
        | eof => exact hgoal _ rfl
        | fail => exact hgoal _ rfl
    · -- limit reached
      have hfill : fill (fuel + 1) r limit buf = (buf, .none, r) := by
        unfold fill; simp [hlt]
      rw [hfill]
      have h0 : limit - buf.length = 0 := by omega
      constructor
      · intro _
        exact ⟨rfl, by simp [h0], by simp [h0], rfl, rfl, Nat.le_refl _⟩
      · intro hB
        exfalso
        rcases hB with h | ⟨_, _, h⟩ <;> omega

end Kit.Enc
