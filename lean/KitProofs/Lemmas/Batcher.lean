import KitModel.Batcher
import KitProofs.Lemmas.Processor
import KitProofs.Lemmas.ProcessorProgress
/-!
Helper lemmas for property C10 (batcher): projection onto the C06 processor LTS, control
invariants, the log-suffix invariant, progress paths.
-/
namespace Kit.Batcher
open Kit.Queue Kit.Processor

/-- Case analysis of one non-processor step: after this tactic every goal has the successor state
substituted. -/
syntax "bstep " ident : tactic
macro_rules
  | `(tactic| bstep $h) => `(tactic|
      (simp only [step, execLock, send, skipExit, skipClose, skipGone, subCall, subAcquire, subReturn, subCallDone, subAcquireDone,
         cancel, fwdTake, fwdDeliver, fwdDropCtx, fwdDropClose, fwdExitCtx, fwdExitClose, fwdCloseExit,
         fwdRemove, closeCall, closeLock, closeReturn, setSub] at $h:ident <;>
       (repeat' (split at $h:ident)) <;>
       (try (simp only [Option.some.injEq, reduceCtorEq, Option.map_eq_some_iff] at $h:ident)) <;>
       (try contradiction) <;> (try subst $h:ident)))

/-- A processor step inside the batcher changes `p` by the processor's own `step`. -/
theorem procStep_p {cfg : Cfg} {s s' : State} {l : PLabel} (h : procStep cfg s l = some s') :
    Processor.step pcfg s.p l = some s'.p ∧ s'.subs = s.subs ∧ s'.closed = s.closed ∧ s'.cw = s.cw ∧ s'.cr = s.cr ∧
    s'.out = s.out ∧ s'.waitS = s.waitS ∧ s'.retS = s.retS := by
  cases l <;> simp only [procStep] at h <;> (try split at h) <;> (try split at h) <;>
    (try (simp only [reduceCtorEq] at h)) <;>
    (try (obtain ⟨p', hp, rfl⟩ := Option.map_eq_some_iff.mp h; simp_all))

/-- A `Close` call either wins the processor's CAS or joins the calls waiting inside `queue.Close()`. -/
theorem closeCall_cases {s s' : State} (h : closeCall s = some s') :
    (∃ p', Processor.step pcfg s.p .closeBegin = some p' ∧ s.p.stopped = false ∧ s' = { s with p := p' }) ∨
    (s.p.stopped = true ∧ s' = { s with cq := s.cq + 1 }) := by
  simp only [closeCall] at h
  split at h
  · obtain ⟨p', hp, rfl⟩ := Option.map_eq_some_iff.mp h
    exact Or.inl ⟨p', hp, by assumption, rfl⟩
  · simp only [Option.some.injEq] at h
    subst h
    exact Or.inr ⟨by simp_all, rfl⟩

/-- Every step either leaves the processor component alone or is a step of the processor LTS. -/
theorem step_proj {cfg : Cfg} {s s' : State} {a : Label} (h : step cfg s a = some s') :
    s'.p = s.p ∨ ∃ l, Processor.step pcfg s.p l = some s'.p := by
  cases a
  case proc l => exact Or.inr ⟨l, (procStep_p (by simpa [step] using h)).1⟩
  case closeCall =>
    rcases closeCall_cases (by simpa [step] using h) with ⟨p', hp, _, rfl⟩ | ⟨_, rfl⟩
    · exact Or.inr ⟨_, hp⟩
    · exact Or.inl rfl
  all_goals (bstep h <;> exact Or.inl rfl)

/-- **Projection**: the processor component of a reachable batcher state is a reachable state of
the C06 processor LTS (repaired loop), so every C06 theorem applies to `s.p`. -/
theorem reach_proj {cfg : Cfg} {s : State} (hr : Reach (lts cfg) s) : Reach (Processor.lts pcfg) s.p := by
  induction hr with
  | init => exact Reach.init
  | step a _ hst ih =>
    rcases step_proj hst with h | ⟨l, h⟩
    · rw [h]; exact ih
    · exact Reach.step l ih h

/-- The processor labels of a batcher run, in order. -/
def projProc : List Label → List PLabel
  | [] => []
  | .proc l :: ls => l :: projProc ls
  | _ :: ls => projProc ls

/-- A batcher run without a `Close` call projects to the run of the processor LTS over its
processor labels (every other step leaves the processor component alone). -/
theorem run_proj {cfg : Cfg} : ∀ {ls : List Label} {s s' : State}, runFrom cfg s ls = some s' →
    (∀ a ∈ ls, a ≠ .closeCall) → Processor.runFrom pcfg s.p (projProc ls) = some s'.p := by
  intro ls
  induction ls with
  | nil => intro s s' h _; simp [runFrom] at h; subst h; rfl
  | cons a ls ih =>
    intro s s' h hno
    simp only [runFrom] at h
    cases hst : step cfg s a with
    | none => simp [hst] at h
    | some s1 =>
      simp only [hst, Option.bind_some] at h
      have ih' := ih h (fun b hb => hno b (List.mem_cons_of_mem _ hb))
      cases a
      case proc l =>
        have hp := (procStep_p (by simpa [step] using hst)).1
        simp only [projProc, Processor.runFrom, hp, Option.bind_some]
        exact ih'
      case closeCall => exact absurd rfl (hno _ (List.mem_cons_self))
      all_goals
        (simp only [projProc]
         have hp : s1.p = s.p := by bstep hst <;> rfl
         rw [← hp]; exact ih')

/-! ### control invariants -/

/-- Normal form of a processor step inside the batcher: the processor's step plus what the batcher
changes. -/
theorem procStep_cases6 {cfg : Cfg} {s s' : State} {l : PLabel} (h : procStep cfg s l = some s') :
    ∃ p', Processor.step pcfg s.p l = some p' ∧
      ((s' = { s with p := p' } ∧ (∀ r, s.p.pc ≠ .popped r ∨ l ≠ .cbStart) ∧ l ≠ .cbReturn ∧ (∀ k t v f, l ≠ .enqueue k t v f) ∧
          l ≠ .closeBegin ∧ l ≠ .closeReturn ∧ l ≠ .closeAgain) ∨
       (∃ k t v f, l = .enqueue k t v f ∧ s' = { s with p := p', calls := (s.p.nextId, s.p.now) :: s.calls }) ∨
       (∃ r, l = .cbStart ∧ s.p.pc = .popped r ∧ s' = { s with p := p', epc := .waiting r }) ∨
       (∃ r i, l = .cbReturn ∧ s.epc = .sending r i ∧ s.subs.length ≤ i ∧ s' = { s with p := p', epc := .idle }) ∨
       (l = .closeReturn ∧ s' = { s with p := p', cl := s.cl + 1 }) ∨
       (l = .closeAgain ∧ 0 < s.cq ∧ s' = { s with p := p', cq := s.cq - 1, cl := s.cl + 1 })) := by
  cases l <;> simp only [procStep] at h <;> (try split at h) <;> (try split at h) <;>
    (try (simp only [reduceCtorEq] at h)) <;>
    (try (obtain ⟨p', hp, rfl⟩ := Option.map_eq_some_iff.mp h; refine ⟨p', hp, ?_⟩; simp_all)) <;>
    (try exact ⟨_, _, ⟨rfl, rfl⟩, by assumption⟩)

/-- The same with the two returns of `queue.Close()` folded into the generic case (they only move
the `Close` counters). -/
theorem procStep_cases {cfg : Cfg} {s s' : State} {l : PLabel} (h : procStep cfg s l = some s') :
    ∃ p', Processor.step pcfg s.p l = some p' ∧
      ((∃ cq cl, s' = { s with p := p', cq := cq, cl := cl } ∧ (∀ r, s.p.pc ≠ .popped r ∨ l ≠ .cbStart) ∧ l ≠ .cbReturn ∧
          (∀ k t v f, l ≠ .enqueue k t v f) ∧ l ≠ .closeBegin) ∨
       (∃ k t v f, l = .enqueue k t v f ∧ s' = { s with p := p', calls := (s.p.nextId, s.p.now) :: s.calls }) ∨
       (∃ r, l = .cbStart ∧ s.p.pc = .popped r ∧ s' = { s with p := p', epc := .waiting r }) ∨
       (∃ r i, l = .cbReturn ∧ s.epc = .sending r i ∧ s.subs.length ≤ i ∧ s' = { s with p := p', epc := .idle })) := by
  obtain ⟨p', hp, hc⟩ := procStep_cases6 h
  refine ⟨p', hp, ?_⟩
  rcases hc with ⟨rfl, h1, h2, h3, h4, _, _⟩ | hc | hc | hc | ⟨rfl, rfl⟩ | ⟨rfl, _, rfl⟩
  · exact Or.inl ⟨s.cq, s.cl, rfl, h1, h2, h3, h4⟩
  · exact Or.inr (Or.inl hc)
  · exact Or.inr (Or.inr (Or.inl hc))
  · exact Or.inr (Or.inr (Or.inr hc))
  · exact Or.inl ⟨s.cq, s.cl + 1, rfl, by simp, by simp, by simp, by simp⟩
  · exact Or.inl ⟨s.cq - 1, s.cl + 1, rfl, by simp, by simp, by simp, by simp⟩

def InvCtl (s : State) : Prop :=
  (s.epc = .idle → ∀ r, s.p.pc ≠ .running r) ∧
  (∀ r, s.epc = .waiting r → s.p.pc = .running r) ∧
  (∀ r i, s.epc = .sending r i → s.p.pc = .running r) ∧
  ((s.closed = true ∨ 0 < s.cl ∨ 0 < s.cw ∨ 0 < s.cr) → (s.p.cpc = .tokenTaken ∨ s.p.cpc = .returned)) ∧
  ((0 < s.cw ∨ 0 < s.cr) → s.closed = true) ∧
  (0 < s.cr → ∀ u ∈ s.subs, u.pc = .done) ∧
  (0 < s.cq → s.p.stopped = true)

theorem invCtl_step {cfg : Cfg} {s s' : State} {a : Label} (hA : Processor.InvA s.p) (h : InvCtl s)
    (hst : step cfg s a = some s') : InvCtl s' := by
  unfold InvCtl at *
  unfold Processor.InvA at hA
  have ht := Processor.tok3 s.p.token
  cases a
  case proc l =>
    obtain ⟨p', hp, hc⟩ := procStep_cases6 (by simpa [step] using hst)
    rcases hc with ⟨rfl, h1, h2, h3, h4, h5, h6⟩ | ⟨k, t, v, f, rfl, rfl⟩ | ⟨r, rfl, hpc, rfl⟩ | ⟨r, i, rfl, he, hi, rfl⟩ |
      ⟨rfl, rfl⟩ | ⟨rfl, hq, rfl⟩
    · cases l <;> step_cases hp <;> (try (simp only [process]; split)) <;> (try split) <;> simp_all <;> grind
    · step_cases hp <;> (try (simp only [process]; split)) <;> (try split) <;> simp_all <;> grind
    · step_cases hp <;> simp_all
    · step_cases hp <;> simp_all
    · step_cases hp <;> simp_all <;> grind
    · step_cases hp <;> simp_all <;> grind
  case closeCall =>
    rcases closeCall_cases (by simpa [step] using hst) with ⟨p', hp, _, rfl⟩ | ⟨hs, rfl⟩
    · step_cases hp <;> simp_all <;> grind
    · obtain ⟨a, b, c, d, e, f, _⟩ := h
      exact ⟨a, b, c, d, e, f, fun _ => hs⟩
  case closeReturn =>
    bstep hst
    simp_all [allDone]
    grind
  case subAcquire =>
    bstep hst
    · obtain ⟨a, b, c, d, e, f, g⟩ := h
      exact ⟨a, b, c, d, e, f, g⟩
    · obtain ⟨a, b, c, d, e, f, g⟩ := h
      refine ⟨a, b, c, d, e, ?_, g⟩
      intro hcr
      have := e (Or.inr hcr)
      simp_all
  case subAcquireDone =>
    bstep hst
    · obtain ⟨a, b, c, d, e, f, g⟩ := h
      exact ⟨a, b, c, d, e, f, g⟩
    · obtain ⟨a, b, c, d, e, f, g⟩ := h
      refine ⟨a, b, c, d, e, ?_, g⟩
      intro hcr
      have := e (Or.inr hcr)
      simp_all
  all_goals (bstep hst <;> simp_all <;> (try grind))

theorem invCtl {cfg : Cfg} {s : State} (hr : Reach (lts cfg) s) : InvCtl s := by
  induction hr with
  | init => simp [InvCtl, lts, init, Processor.init]
  | step a hr hst ih => exact invCtl_step (Processor.invA (reach_proj hr)) ih hst

/-- Once `queue.Close()` has returned to the call that won the CAS, that call is counted: at the
lock, in `wg.Wait()`, or returned. -/
def InvCnt (s : State) : Prop := s.p.cpc = .returned → 0 < s.cl + s.cw + s.cr

theorem invCnt_step {cfg : Cfg} {s s' : State} {a : Label} (h : InvCnt s)
    (hst : step cfg s a = some s') : InvCnt s' := by
  unfold InvCnt at *
  cases a
  case proc l =>
    obtain ⟨p', hp, hc⟩ := procStep_cases6 (by simpa [step] using hst)
    rcases hc with ⟨rfl, h1, h2, h3, h4, h5, h6⟩ | ⟨k, t, v, f, rfl, rfl⟩ | ⟨r, rfl, hpc, rfl⟩ | ⟨r, i, rfl, he, hi, rfl⟩ |
      ⟨rfl, rfl⟩ | ⟨rfl, hq, rfl⟩
    · cases l <;> step_cases hp <;> (try (simp only [process]; split)) <;> (try split) <;> simp_all
    · step_cases hp <;> (try (simp only [process]; split)) <;> (try split) <;> simp_all
    · step_cases hp <;> simp_all
    · step_cases hp <;> simp_all
    · intro _; simp; omega
    · intro _; simp; omega
  case closeCall =>
    rcases closeCall_cases (by simpa [step] using hst) with ⟨p', hp, _, rfl⟩ | ⟨hs, rfl⟩
    · step_cases hp <;> simp_all
    · exact h
  case closeLock =>
    bstep hst
    intro hc; have := h hc; simp; omega
  case closeReturn =>
    bstep hst
    intro hc; have := h hc; simp; omega
  all_goals (bstep hst <;> exact h)

theorem invCnt {cfg : Cfg} {s : State} (hr : Reach (lts cfg) s) : InvCnt s := by
  induction hr with
  | init => simp [InvCnt, lts, init, Processor.init]
  | step a _ hst ih => exact invCnt_step ih hst

theorem close_count_pos {cfg : Cfg} {s : State} (hr : Reach (lts cfg) s) (h : s.p.cpc = .returned) :
    0 < s.cl + s.cw + s.cr := invCnt hr h

/-! ### per-subscriber invariants -/

theorem inv_set {P : Sub → Prop} {l : List Sub} {i : Nat} {u u' : Sub} (hget : l[i]? = some u)
    (h : ∀ x ∈ l, P x) (hu' : P u → P u') : ∀ x ∈ l.set i u', P x := by
  intro x hx
  rcases List.mem_or_eq_of_mem_set hx with hx | rfl
  · exact h x hx
  · exact hu' (h u (List.mem_of_getElem? hget))

def SubOK (cfg : Cfg) (closed : Bool) (u : Sub) : Prop :=
  ((u.pc = .exiting ∨ u.pc = .wantLock ∨ u.pc = .done) → (u.ctxDone = true ∨ closed = true)) ∧
  (u.missed = true → (u.ctxDone = true ∨ closed = true)) ∧
  (u.exitClosed = true → (u.pc = .wantLock ∨ u.pc = .done)) ∧
  (cfg.fixed = true → u.pc = .wantLock → u.exitClosed = true)

def InvSub (cfg : Cfg) (s : State) : Prop := ∀ u ∈ s.subs, SubOK cfg s.closed u

theorem invSub_step {cfg : Cfg} {s s' : State} {a : Label} (h : InvSub cfg s)
    (hst : step cfg s a = some s') : InvSub cfg s' := by
  unfold InvSub at *
  cases a
  case proc l =>
    obtain ⟨_, hs, hc, _⟩ := procStep_p (by simpa [step] using hst)
    rw [hs, hc]; exact h
  case closeCall =>
    rcases closeCall_cases (by simpa [step] using hst) with ⟨p', hp, _, rfl⟩ | ⟨_, rfl⟩ <;> exact h
  case subAcquire =>
    bstep hst
    · exact h
    · intro u hu
      rcases List.mem_append.mp hu with hu | hu
      · exact h u hu
      · simp only [List.mem_singleton] at hu; subst hu; simp [SubOK, Sub.new]
  case subAcquireDone =>
    bstep hst
    · exact h
    · intro u hu
      rcases List.mem_append.mp hu with hu | hu
      · exact h u hu
      · simp only [List.mem_singleton] at hu; subst hu; simp [SubOK, Sub.new]
  case closeLock =>
    bstep hst
    intro u hu
    have := h u hu
    simp only [SubOK] at *
    grind
  all_goals (bstep hst <;> (first | exact h | (refine inv_set ‹_› h ?_; simp_all [SubOK, Sub.inList]; try grind)))

theorem invSub {cfg : Cfg} {s : State} (hr : Reach (lts cfg) s) : InvSub cfg s := by
  induction hr with
  | init => simp [InvSub, lts, init]
  | step a _ hst ih => exact invSub_step ih hst

/-! ### the log-suffix invariant -/

theorem getElem?_set_cases {l : List Sub} {i j : Nat} {a x : Sub} (h : (l.set i a)[j]? = some x) :
    (j = i ∧ x = a ∧ i < l.length) ∨ (j ≠ i ∧ l[j]? = some x) := by
  rw [List.getElem?_set] at h
  by_cases hij : i = j
  · subst hij
    simp only [↓reduceIte] at h
    split at h
    · left; simp_all
    · simp at h
  · right; simp_all; omega

/-- What subscriber `i` has been given (delivered, in the forwarder's hand, buffered, or still to
come in the running fan-out) is exactly what was fanned out since it joined — unless it `missed`. -/
def SufOK (s : State) (i : Nat) (u : Sub) : Prop :=
  u.joinedAt ≤ s.out.length ∧ (u.missed = false → u.seq ++ pend s i = s.out.drop u.joinedAt)

def InvSuf (s : State) : Prop := ∀ i u, s.subs[i]? = some u → SufOK s i u

theorem lt_of_getElem? {l : List Sub} {i : Nat} {u : Sub} (h : l[i]? = some u) : i < l.length := by
  obtain ⟨h', _⟩ := List.getElem?_eq_some_iff.mp h
  exact h'

theorem invSuf_step {cfg : Cfg} {s s' : State} {a : Label} (hC : InvCtl s) (h : InvSuf s)
    (hst : step cfg s a = some s') : InvSuf s' := by
  unfold InvSuf at *
  cases a
  case proc l =>
    obtain ⟨p', hp, hc⟩ := procStep_cases (by simpa [step] using hst)
    rcases hc with ⟨cq', cl', rfl, -⟩ | ⟨k, t, v, f, rfl, rfl⟩ | ⟨r, rfl, hpc, rfl⟩ | ⟨r, i, rfl, he, hi, rfl⟩
    · exact h
    · exact h
    · intro j u hj
      have := h j u hj
      have hne : ∀ r i, s.epc ≠ .sending r i := by
        intro r' i' he; have := hC.2.2.1 r' i' he; simp_all
      simp only [SufOK, pend] at *
      cases he : s.epc <;> simp_all
    · intro j u hj
      have := h j u hj
      have hlt := lt_of_getElem? hj
      simp only [SufOK, pend, he] at *
      have : ¬ i ≤ j := by omega
      simp_all
  case closeCall =>
    rcases closeCall_cases (by simpa [step] using hst) with ⟨p', hp, _, rfl⟩ | ⟨_, rfl⟩ <;> exact h
  case execLock =>
    bstep hst
    · intro j u hj
      have := h j u hj
      have hlt := lt_of_getElem? hj
      simp only [SufOK, pend] at *
      have : ¬ s.subs.length ≤ j := by omega
      simp_all
    · intro j u hj
      have := h j u hj
      simp only [SufOK, pend] at *
      simp_all
      constructor
      · omega
      · intro hm; rw [List.drop_append_of_le_length this.1]; try simp [← this.2 hm]
  case subAcquire =>
    bstep hst
    · exact h
    · intro j u hj
      rw [List.getElem?_append] at hj
      split at hj
      · have := h j u hj
        simp only [SufOK, pend] at *
        exact this
      · have hlt := lt_of_getElem? hj
        simp only [List.length_singleton] at hlt
        have hj' : j = s.subs.length := by omega
        subst hj'
        simp at hj; subst hj
        simp only [SufOK, pend, Sub.new, Sub.seq, Sub.hand]
        cases he : s.epc <;> simp_all [lockFree]
  case subAcquireDone =>
    bstep hst
    · exact h
    · intro j u hj
      rw [List.getElem?_append] at hj
      split at hj
      · have := h j u hj
        simp only [SufOK, pend] at *
        exact this
      · have hlt := lt_of_getElem? hj
        simp only [List.length_singleton] at hlt
        have hj' : j = s.subs.length := by omega
        subst hj'
        simp at hj; subst hj
        simp only [SufOK, pend, Sub.new, Sub.seq, Sub.hand]
        cases he : s.epc <;> simp_all [lockFree]
  all_goals
    (bstep hst <;>
     (first
      | exact h
      | (intro j x hx
         rcases getElem?_set_cases hx with ⟨rfl, rfl, hlt⟩ | ⟨hne, hj⟩
         · have := h _ _ ‹_›
           simp only [SufOK, pend, Sub.seq, Sub.hand] at *
           simp_all
           try grind
         · have := h _ _ hj
           simp only [SufOK, pend, Sub.seq, Sub.hand] at *
           simp_all
           try grind)))

theorem invSuf {cfg : Cfg} {s : State} (hr : Reach (lts cfg) s) : InvSuf s := by
  induction hr with
  | init => simp [InvSuf, lts, init]
  | step a hr hst ih => exact invSuf_step (invCtl hr) ih hst

/-! ### what is fanned out was executed by the processor -/

@[simp] theorem process_log (p : PState) (b : Bool) : (process p b).log = p.log := by
  unfold process; split <;> (try split) <;> rfl

/-- The processor's history only grows. -/
theorem plog_mono {p p' : PState} {l : PLabel} (h : Processor.step pcfg p l = some p') :
    ∃ es, p'.log = es ++ p.log := by
  cases l <;> step_cases h <;> (try split) <;> simp only [process_log] <;>
    first
    | exact ⟨[], rfl⟩
    | exact ⟨[_], rfl⟩

/-- Only `Enqueue` adds an `enq` event, for the item it builds. -/
theorem plog_enq {p p' : PState} {l : PLabel} (h : Processor.step pcfg p l = some p') (r : It)
    (hr : Event.enq r ∈ p'.log) :
    Event.enq r ∈ p.log ∨ ∃ k t v f, l = .enqueue k t v f ∧ r = ⟨k, t, v, p.nextId⟩ := by
  cases l <;> step_cases h <;> (try split at hr) <;> simp_all <;>
    (rcases hr with rfl | hr <;> simp_all)

def InvOut (cfg : Cfg) (s : State) : Prop :=
  (∀ r ∈ s.out, ∃ n, Event.exec r n ∈ s.p.log) ∧
  (∀ r, s.epc = .waiting r → r ∉ s.out ∧ ∃ n, Event.exec r n ∈ s.p.log) ∧
  s.out.Nodup ∧
  (∀ u ∈ s.subs, ∀ x ∈ u.seq, x ∈ s.out) ∧
  (∀ r i, s.epc = .sending r i → i < s.subs.length → r ∈ s.out) ∧
  (∀ r, Event.enq r ∈ s.p.log → (r.id, r.time - cfg.interval) ∈ s.calls)

theorem invOut_step {cfg : Cfg} {s s' : State} {a : Label} (hF : Processor.InvF s.p) (hC : InvCtl s)
    (h : InvOut cfg s) (hst : step cfg s a = some s') : InvOut cfg s' := by
  unfold InvOut at *
  obtain ⟨h1, h2, h3, h4, h5, h6⟩ := h
  cases a
  case proc l =>
    have hst' : procStep cfg s l = some s' := by simpa [step] using hst
    obtain ⟨p', hp, hc⟩ := procStep_cases hst'
    obtain ⟨es, hes⟩ := plog_mono hp
    have hmono : ∀ e, e ∈ s.p.log → e ∈ p'.log := by intro e he; rw [hes]; simp [he]
    rcases hc with ⟨cq', cl', rfl, hn1, hn2, hn3, hn4⟩ | ⟨k, t, v, f, rfl, rfl⟩ | ⟨r, rfl, hpc, rfl⟩ | ⟨r, i, rfl, he, hi, rfl⟩
    · refine ⟨fun r hr => (h1 r hr).imp fun n hn => hmono _ hn, fun r hr => ⟨(h2 r hr).1, (h2 r hr).2.imp fun n hn => hmono _ hn⟩,
        h3, h4, h5, ?_⟩
      intro r hr
      apply h6
      rcases plog_enq hp r hr with h | ⟨k, t, v, f, rfl, _⟩
      · exact h
      · exact absurd rfl (hn3 k t v f)
    · refine ⟨fun r hr => (h1 r hr).imp fun n hn => hmono _ hn, fun r hr => ⟨(h2 r hr).1, (h2 r hr).2.imp fun n hn => hmono _ hn⟩,
        h3, h4, h5, ?_⟩
      intro r hr
      simp only [procStep] at hst'
      split at hst' <;> try contradiction
      rename_i ht
      rcases plog_enq hp r hr with h | ⟨k', t', v', f', heq, rfl⟩
      · exact List.mem_cons_of_mem _ (h6 r h)
      · simp only [Processor.Label.enqueue.injEq] at heq
        obtain ⟨rfl, rfl, rfl, rfl⟩ := heq
        simp [ht]
    · unfold Processor.InvF at hF
      have hnone := (hF.1 r hpc).2
      have h' : Processor.step pcfg s.p .cbStart = some { s.p with pc := .running r, log := .exec r s.p.now :: s.p.log } := by
        simp [Processor.step, hpc]
      rw [h'] at hp
      cases hp
      refine ⟨fun r' hr' => ?_, ?_, h3, h4, ?_, ?_⟩
      · obtain ⟨n, hn⟩ := h1 r' hr'; exact ⟨n, by simp [hn]⟩
      · intro r' hr'
        simp only [EPc.waiting.injEq] at hr'; subst hr'
        refine ⟨fun hin => ?_, s.p.now, by simp⟩
        obtain ⟨n, hn⟩ := h1 _ hin
        exact hnone n hn
      · intro r' i' hh; simp at hh
      · intro r' hr'; apply h6; simpa using hr'
    · step_cases hp
      refine ⟨h1, ?_, h3, h4, ?_, h6⟩
      · intro r' hr'; simp at hr'
      · intro r' i' hh; simp at hh
  case closeCall =>
    rcases closeCall_cases (by simpa [step] using hst) with ⟨p', hp, _, rfl⟩ | ⟨_, rfl⟩
    · step_cases hp
      exact ⟨h1, h2, h3, h4, h5, h6⟩
    · exact ⟨h1, h2, h3, h4, h5, h6⟩
  case execLock =>
    bstep hst
    · rename_i r he hcl
      refine ⟨h1, ?_, h3, h4, ?_, h6⟩
      · intro r' hr'; simp at hr'
      · intro r' i' hh hlt; simp at hh hlt; omega
    · rename_i r he hcl
      have hw := h2 r he
      refine ⟨?_, ?_, ?_, ?_, ?_, h6⟩
      · intro r' hr'
        rcases List.mem_append.mp hr' with hr' | hr'
        · exact h1 r' hr'
        · simp at hr'; subst hr'; exact hw.2
      · intro r' hr'; simp at hr'
      · exact List.nodup_append.mpr ⟨h3, by simp, by intro a ha b hb; simp at hb; subst hb; intro hab; subst hab; exact hw.1 ha⟩
      · intro u hu x hx; exact List.mem_append_left _ (h4 u hu x hx)
      · intro r' i' hh _; simp at hh; simp [hh.1]
  case subAcquire =>
    bstep hst
    · exact ⟨h1, h2, h3, h4, h5, h6⟩
    · refine ⟨h1, h2, h3, ?_, ?_, h6⟩
      · intro u hu
        rcases List.mem_append.mp hu with hu | hu
        · exact h4 u hu
        · simp at hu; subst hu; simp [Sub.new, Sub.seq, Sub.hand]
      · intro r i he hlt
        rename_i hlf _
        simp only at he
        simp [lockFree, he] at hlf
  case subAcquireDone =>
    bstep hst
    · exact ⟨h1, h2, h3, h4, h5, h6⟩
    · refine ⟨h1, h2, h3, ?_, ?_, h6⟩
      · intro u hu
        rcases List.mem_append.mp hu with hu | hu
        · exact h4 u hu
        · simp at hu; subst hu; simp [Sub.new, Sub.seq, Sub.hand]
      · intro r i he hlt
        rename_i hlf _
        simp only at he
        simp [lockFree, he] at hlf
  case send =>
    bstep hst
    rename_i _ r i he _ u hu hcond
    have hlt := lt_of_getElem? hu
    have hr := h5 r i he hlt
    refine ⟨h1, ?_, h3, ?_, ?_, h6⟩
    · intro r' hr'; simp at hr'
    · refine inv_set hu h4 ?_
      intro hx x
      simp only [Sub.seq, Sub.hand, List.mem_append] at hx ⊢
      grind
    · intro r' i' hh _; simp at hh; rw [← hh.1]; exact hr
  all_goals
    (bstep hst <;>
     (first
      | exact ⟨h1, h2, h3, h4, h5, h6⟩
      | (refine ⟨h1, ?_, h3, ?_, ?_, h6⟩
         · intro r' hr'; simp_all
         · first
           | exact h4
           | (refine inv_set ‹_› h4 ?_
              intro hx x
              simp only [Sub.seq, Sub.hand, List.mem_append] at hx ⊢
              grind)
         · intro r' i' hh hlt
           simp_all
           try grind)))

theorem invOut {cfg : Cfg} {s : State} (hr : Reach (lts cfg) s) : InvOut cfg s := by
  induction hr with
  | init => simp [InvOut, lts, init, Processor.init]
  | step a hr hst ih => exact invOut_step (Processor.invF (reach_proj hr)) (invCtl hr) ih hst

/-! ### every subscriber, also one that has left, holds a subsequence of the common sequence -/

def SublOK (s : State) (i : Nat) (u : Sub) : Prop :=
  u.joinedAt ≤ s.out.length ∧ (u.seq ++ pend s i).Sublist (s.out.drop u.joinedAt)

def InvSubl (s : State) : Prop := ∀ i u, s.subs[i]? = some u → SublOK s i u

theorem sublist_mid {α : Type} (a b : List α) (x : α) : (a ++ b).Sublist (a ++ x :: b) :=
  List.Sublist.append (List.Sublist.refl a) (List.sublist_cons_self x b)

theorem pend_step_ne {s : State} {r : It} {i j : Nat} (he : s.epc = .sending r i) (hne : j ≠ i) (subs' : List Sub) :
    pend { s with subs := subs', epc := .sending r (i + 1) } j = pend s j := by
  simp only [pend, he]
  by_cases h : i ≤ j
  · have : i + 1 ≤ j := by omega
    simp [h, this]
  · have : ¬ i + 1 ≤ j := by omega
    simp [h, this]

theorem pend_step_eq {s : State} {r : It} {i : Nat} (he : s.epc = .sending r i) (subs' : List Sub) :
    pend { s with subs := subs', epc := .sending r (i + 1) } i = [] ∧ pend s i = [r] := by
  simp [pend, he]

/-- One step of the fan-out on subscriber `i`: `u` becomes `u'`, whose sequence (without the pending
item) is a subsequence of `u`'s sequence followed by the item. -/
theorem subl_exec {s : State} {r : It} {i : Nat} {u u' : Sub} (h : InvSubl s) (he : s.epc = .sending r i)
    (hu : s.subs[i]? = some u) (hj : u'.joinedAt = u.joinedAt) (hseq : u'.seq.Sublist (u.seq ++ [r])) :
    InvSubl { s with subs := s.subs.set i u', epc := .sending r (i + 1) } := by
  intro j x hx
  rcases getElem?_set_cases hx with ⟨rfl, rfl, hlt⟩ | ⟨hne, hjx⟩
  · have := h _ _ hu
    obtain ⟨h1, h2⟩ := pend_step_eq he (s.subs.set j x)
    simp only [SublOK, h1, h2, hj, List.append_nil] at *
    exact ⟨this.1, hseq.trans this.2⟩
  · have := h _ _ hjx
    simp only [SublOK, pend_step_ne he hne] at *
    exact this

/-- A step of forwarder `i` that does not touch `out` or `epc`. -/
theorem subl_fwd {s : State} {i : Nat} {u u' : Sub} (h : InvSubl s) (hu : s.subs[i]? = some u)
    (hj : u'.joinedAt = u.joinedAt) (hseq : u'.seq.Sublist u.seq) : InvSubl (setSub s i u') := by
  intro j x hx
  rcases getElem?_set_cases (by simpa [setSub] using hx) with ⟨rfl, rfl, hlt⟩ | ⟨hne, hjx⟩
  · have := h _ _ hu
    simp only [SublOK, hj] at *
    exact ⟨this.1, (List.Sublist.append hseq (List.Sublist.refl _)).trans this.2⟩
  · exact h _ _ hjx

theorem invSubl_step {cfg : Cfg} {s s' : State} {a : Label} (hC : InvCtl s) (h : InvSubl s)
    (hst : step cfg s a = some s') : InvSubl s' := by
  cases a
  case proc l =>
    unfold InvSubl at *
    obtain ⟨p', hp, hc⟩ := procStep_cases (by simpa [step] using hst)
    rcases hc with ⟨cq', cl', rfl, -⟩ | ⟨k, t, v, f, rfl, rfl⟩ | ⟨r, rfl, hpc, rfl⟩ | ⟨r, i, rfl, he, hi, rfl⟩
    · exact h
    · exact h
    · intro j u hj
      have := h j u hj
      have hne : ∀ r i, s.epc ≠ .sending r i := by
        intro r' i' he; have := hC.2.2.1 r' i' he; simp_all
      simp only [SublOK, pend] at *
      cases he : s.epc <;> simp_all
    · intro j u hj
      have := h j u hj
      have hlt := lt_of_getElem? hj
      simp only at hlt
      have hn : ¬ i ≤ j := by omega
      simp only [SublOK, pend, he, hn, ↓reduceIte] at *
      exact this
  case closeCall =>
    rcases closeCall_cases (by simpa [step] using hst) with ⟨p', hp, _, rfl⟩ | ⟨_, rfl⟩ <;> exact h
  case execLock =>
    unfold InvSubl at *
    bstep hst
    · rename_i r he hcl
      intro j u hj
      have := h j u hj
      have hlt := lt_of_getElem? hj
      simp only at hlt
      have hn : ¬ s.subs.length ≤ j := by omega
      simp only [SublOK, pend, he, hn, ↓reduceIte] at *
      exact this
    · rename_i r he hcl
      intro j u hj
      have := h j u hj
      simp only [SublOK, pend, he, Nat.zero_le, ↓reduceIte, List.append_nil, List.length_append, List.length_singleton] at *
      refine ⟨by omega, ?_⟩
      rw [List.drop_append_of_le_length this.1]
      exact List.Sublist.append this.2 (List.Sublist.refl _)
  case subAcquire =>
    unfold InvSubl at *
    bstep hst
    · exact h
    · intro j u hj
      rw [List.getElem?_append] at hj
      split at hj
      · have := h j u hj
        simp only [SublOK, pend] at *
        exact this
      · have hlt := lt_of_getElem? hj
        simp only [List.length_singleton] at hlt
        have hj' : j = s.subs.length := by omega
        subst hj'
        simp at hj; subst hj
        simp only [SublOK, pend, Sub.new, Sub.seq, Sub.hand]
        cases he : s.epc <;> simp_all [lockFree]
  case subAcquireDone =>
    unfold InvSubl at *
    bstep hst
    · exact h
    · intro j u hj
      rw [List.getElem?_append] at hj
      split at hj
      · have := h j u hj
        simp only [SublOK, pend] at *
        exact this
      · have hlt := lt_of_getElem? hj
        simp only [List.length_singleton] at hlt
        have hj' : j = s.subs.length := by omega
        subst hj'
        simp at hj; subst hj
        simp only [SublOK, pend, Sub.new, Sub.seq, Sub.hand]
        cases he : s.epc <;> simp_all [lockFree]
  case send =>
    bstep hst
    rename_i _ r i he _ u hu hcond
    exact subl_exec h he hu rfl (by simp [Sub.seq, Sub.hand])
  case skipExit =>
    bstep hst
    rename_i _ r i he _ u hu hcond
    exact subl_exec h he hu rfl (by simp [Sub.seq, Sub.hand])
  case skipClose =>
    bstep hst
    rename_i _ r i he _ u hu hcond
    exact subl_exec h he hu rfl (by simp [Sub.seq, Sub.hand])
  case skipGone =>
    bstep hst
    rename_i _ r i he _ u hu hcond
    exact subl_exec h he hu rfl (by simp [Sub.seq, Sub.hand])
  case subCall => bstep hst; exact h
  case subCallDone => bstep hst; exact h
  case subReturn => bstep hst; exact h
  case closeLock => bstep hst; exact h
  case closeReturn => bstep hst; exact h
  case cancel i =>
    bstep hst
    rename_i u hu
    exact subl_fwd h hu rfl (by simp [Sub.seq, Sub.hand])
  case fwdTake i =>
    bstep hst
    rename_i _ u hu _ _ x rest hpc hb
    exact subl_fwd h hu rfl (by simp [Sub.seq, Sub.hand, hpc, hb])
  case fwdDeliver i =>
    bstep hst
    rename_i u hu _ x hpc
    exact subl_fwd h hu rfl (by simp [Sub.seq, Sub.hand, hpc])
  case fwdDropCtx i =>
    bstep hst
    rename_i _ u hu _ x hpc _
    exact subl_fwd h hu rfl (by simpa [Sub.seq, Sub.hand, hpc] using sublist_mid u.delivered u.buf x)
  case fwdDropClose i =>
    bstep hst
    rename_i _ u hu _ x hpc _
    exact subl_fwd h hu rfl (by simpa [Sub.seq, Sub.hand, hpc] using sublist_mid u.delivered u.buf x)
  case fwdExitCtx i =>
    bstep hst
    rename_i _ u hu _ hpc _
    exact subl_fwd h hu rfl (by simp [Sub.seq, Sub.hand, hpc])
  case fwdExitClose i =>
    bstep hst
    rename_i _ u hu _ hpc _
    exact subl_fwd h hu rfl (by simp [Sub.seq, Sub.hand, hpc])
  case fwdCloseExit i =>
    bstep hst
    rename_i u hu _ hpc
    exact subl_fwd h hu rfl (by simp [Sub.seq, Sub.hand, hpc])
  case fwdRemove i =>
    bstep hst
    rename_i _ u hu _ hpc _
    exact subl_fwd h hu rfl (by simp [Sub.seq, Sub.hand, hpc])

theorem invSubl {cfg : Cfg} {s : State} (hr : Reach (lts cfg) s) : InvSubl s := by
  induction hr with
  | init => simp [InvSubl, lts, init]
  | step a hr hst ih => exact invSubl_step (invCtl hr) ih hst

end Kit.Batcher
