/-
The consumer of the pipe receives the concatenation of the writes and then the close status, whatever
its read sizes: `consume_spec`; and the producer views `decryptPipe` / `encryptPipe` agree with
`decryptImpl` / `encryptImpl`.
-/
import KitModel.Enc
import KitModel.EncPipe
import KitProofs.Lemmas.EncLoop

namespace Kit.Enc.Pipe
open Kit Kit.Enc

theorem pipeRead_flatten (ws : List Bytes) (sz : Nat) :
    (pipeRead ws sz).1 ++ (pipeRead ws sz).2.flatten = ws.flatten := by
  cases ws with
  | nil => rfl
  | cons w rest =>
    simp only [pipeRead]
    by_cases he : (w.drop sz).isEmpty = true
    · have : w.drop sz = [] := by simpa using he
      have hw : w.take sz = w := by
        have := List.take_append_drop sz w; rw [‹w.drop sz = []›, List.append_nil] at this; exact this
      simp [he, hw]
    · simp only [he, Bool.false_eq_true, if_false, List.flatten_cons, ← List.append_assoc, List.take_append_drop]

/-- Every read makes progress in `pending ws + |bufs|` (zero-length buffers only come from the script). -/
theorem pipeRead_measure (ws : List Bytes) (bufs : List Nat) (dflt : Nat) (hd : 0 < dflt) (hne : ws ≠ []) :
    pending (pipeRead ws (bufs.head?.getD dflt)).2 + bufs.tail.length < pending ws + bufs.length := by
  cases ws with
  | nil => exact absurd rfl hne
  | cons w rest =>
    simp only [pipeRead, pending]
    by_cases he : (w.drop (bufs.head?.getD dflt)).isEmpty = true
    · simp only [he, if_true, List.flatten_cons, List.length_append, List.length_cons]
      have : bufs.tail.length ≤ bufs.length := by simp
      omega
    · simp only [he, Bool.false_eq_true, if_false, List.flatten_cons, List.length_append, List.length_cons,
        List.length_drop]
      have hdne : w.drop (bufs.head?.getD dflt) ≠ [] := by simpa using he
      have hlt : bufs.head?.getD dflt < w.length := by
        simpa [List.drop_eq_nil_iff] using hdne
      cases bufs with
      | nil =>
        simp only [List.head?_nil, Option.getD_none, List.tail_nil, List.length_nil] at hlt ⊢
        omega
      | cons b bs =>
        simp only [List.head?_cons, Option.getD_some, List.tail_cons, List.length_cons] at hlt ⊢
        omega

/-- **The consumer's chunking is irrelevant**: for every script of read sizes (zero-length reads
    included) and every positive default size, the reads concatenate to the concatenation of the writes
    and the status received is the close status. -/
theorem consume_spec (dflt : Nat) (hd : 0 < dflt) : ∀ (fuel : Nat) (ws : List Bytes) (term : Terminal) (bufs : List Nat)
    (acc : List Bytes), pending ws + bufs.length < fuel →
    (consume fuel ws term bufs dflt acc).1.flatten = acc.reverse.flatten ++ ws.flatten ∧
    (consume fuel ws term bufs dflt acc).2 = term := by
  intro fuel
  induction fuel with
  | zero => intro ws term bufs acc h; omega
  | succ fuel ih =>
    intro ws term bufs acc hf
    unfold consume
    by_cases he : ws.isEmpty = true
    · have : ws = [] := by simpa using he
      subst this
      simp
    · have hne : ws ≠ [] := by simpa using he
      simp only [he, Bool.false_eq_true, if_false]
      have hm := pipeRead_measure ws bufs dflt hd hne
      obtain ⟨h1, h2⟩ := ih (pipeRead ws (bufs.head?.getD dflt)).2 term bufs.tail
        ((pipeRead ws (bufs.head?.getD dflt)).1 :: acc) (by omega)
      refine ⟨?_, h2⟩
      rw [h1, List.reverse_cons, List.flatten_append, List.append_assoc]
      simp only [List.flatten_cons, List.flatten_nil, List.append_nil]
      rw [pipeRead_flatten]

theorem consumeAll_spec (ws : List Bytes) (term : Terminal) (bufs : List Nat) (dflt : Nat) (hd : 0 < dflt) :
    (consumeAll ws term bufs dflt).1.flatten = ws.flatten ∧ (consumeAll ws term bufs dflt).2 = term := by
  have := consume_spec dflt hd (pending ws + bufs.length + 1) ws term bufs [] (by omega)
  simpa [consumeAll] using this

/-- The writes of the segment loop concatenate to its output. -/
theorem psWrites_flatten (segSize maxSeg : Nat) (hs : 0 < segSize) (fn : ProcFn) (r : Reader) :
    (psWrites fn (processSegments segSize maxSeg fn r)).flatten = (processSegments segSize maxSeg fn r).out := by
  rw [processSegments_spec segSize maxSeg fn hs r]
  have key : ∀ (segs : List (Bytes × Bool)) (i : Nat) (fin : Terminal),
      (psWrites fn (runSegs maxSeg fn segs i fin)).flatten = (runSegs maxSeg fn segs i fin).out := by
    intro segs
    induction segs with
    | nil => intro i fin; rfl
    | cons a t ih =>
      intro i fin
      obtain ⟨d, l⟩ := a
      cases l with
      | true =>
        rw [show runSegs maxSeg fn ((d, true) :: t) i fin =
          (match fn d i true with
            | .error e => ⟨[(d, i, true)], [], .err e⟩
            | .ok o => ⟨[(d, i, true)], o, .ok⟩) by simp only [runSegs]; cases fn d i true <;> simp]
        cases hfn : fn d i true with
        | error e => simp [psWrites, hfn]
        | ok o => simp [psWrites, hfn]
      | false =>
        rw [runSegs_cons_nonlast]
        cases hfn : fn d i false with
        | error e => simp [psWrites, hfn]
        | ok o =>
          simp only []
          by_cases hm : i = maxSeg
          · rw [if_pos hm]; simp [psWrites, hfn]
          · rw [if_neg hm]
            have := ih (i + 1) fin
            simp only [psWrites] at this ⊢
            simp only [PSResult.cons, List.filterMap_cons, hfn, List.flatten_cons, this]
  exact key _ 0 _


/-- The producer view of `Decrypt` agrees with `decryptImpl`: the writes concatenate to the released
    bytes, the close status is the terminal. -/
theorem decryptPipe_eq (c : Crypto) (cd : Codec) (P : EncParams) (hs : 0 < P.segSize) (o : DecryptOpts) (r : Reader) :
    ((decryptPipe c cd P o r).1.flatten, (decryptPipe c cd P o r).2) = decryptImpl c cd P o r := by
  unfold decryptPipe decryptImpl decryptWith readHeader
  cases readHeaderWith true P r with
  | error e => rfl
  | ok x =>
    obtain ⟨ml, cl, r'⟩ := x
    simp only []
    cases cd.parse ml with
    | none => rfl
    | some m =>
      simp only []
      by_cases hv : (!m.valid P) = true
      · simp only [hv, if_true]; rfl
      · simp only [hv, Bool.false_eq_true, if_false]
        by_cases hk : (if o.keyName.isEmpty then m.keyName else o.keyName).isEmpty = true
        · simp only [hk, if_true]; rfl
        · simp only [hk, Bool.false_eq_true, if_false]
          cases verifyHeader c cd P _ ml cl with
          | some e => rfl
          | none =>
            simp only [Bool.true_and]
            by_cases hu : unwrapFailed true P o m (if o.keyName.isEmpty then m.keyName else o.keyName) = true
            · simp only [hu, if_true]; rfl
            · simp only [hu, Bool.false_eq_true, if_false]
              rw [psWrites_flatten _ _ (by omega)]

theorem encryptPipe_eq (c : Crypto) (cd : Codec) (P : EncParams) (hs : 0 < P.segSize) (o : EncryptOpts)
    (fk np wfk : Bytes) (r : Reader) :
    ((encryptPipe c cd P o fk np wfk r).1.flatten, (encryptPipe c cd P o fk np wfk r).2) =
      encryptImpl c cd P o fk np wfk r := by
  unfold encryptPipe encryptImpl
  by_cases hw : wfk.isEmpty = true
  · simp [hw]
  simp only [hw, Bool.false_eq_true, if_false]
  by_cases hh : (signHeader c cd P fk (cd.render (mkManifest o wfk np))).length > P.segSize
  · simp [hh]
  · simp only [hh, if_false, List.flatten_cons]
    rw [psWrites_flatten _ _ hs]

end Kit.Enc.Pipe
