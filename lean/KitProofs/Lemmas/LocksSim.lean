import KitModel.Locks.Kernel
/-!
Soundness of the state-set simulation (`Sim.start / observe / after / accepts`) that `kitdrv C13`
runs: every state in the set computed for a trace is reached by a run of the LTS whose observable
labels are exactly that trace.  (Completeness is not claimed: the closure has a fuel bound.)
-/
namespace Kit.Locks

variable {σ α : Type}

/-- the observable projection of a run -/
def Sim.obsOf (S : Sim σ α) (run : List α) : List α := run.filter fun a => !S.internal a

/-- `x` is reached by a run from `s0` whose observable labels are `tr` -/
def Sim.Witness (S : Sim σ α) (s0 : σ) (tr : List α) (x : σ) : Prop :=
  ∃ run : List α, S.M.run s0 run = some x ∧ S.obsOf run = tr

theorem addNew_fst_mem [BEq σ] (acc xs : List σ) :
    ∀ y ∈ (addNew acc xs).1, y ∈ acc ∨ y ∈ xs := by
  induction xs generalizing acc with
  | nil => intro y hy; simp [addNew] at hy; exact Or.inl hy
  | cons x xs ih =>
    intro y hy
    simp only [addNew] at hy
    split at hy
    · rcases ih acc y hy with h | h
      · exact Or.inl h
      · exact Or.inr (List.mem_cons_of_mem _ h)
    · rcases ih (acc ++ [x]) y hy with h | h
      · rcases List.mem_append.mp h with h | h
        · exact Or.inl h
        · simp at h; exact Or.inr (h ▸ List.mem_cons_self)
      · exact Or.inr (List.mem_cons_of_mem _ h)

theorem addNew_snd_mem [BEq σ] (acc xs : List σ) :
    ∀ y ∈ (addNew acc xs).2, y ∈ xs := by
  induction xs generalizing acc with
  | nil => intro y hy; simp [addNew] at hy
  | cons x xs ih =>
    intro y hy
    simp only [addNew] at hy
    split at hy
    · exact List.mem_cons_of_mem _ (ih acc y hy)
    · simp only [List.mem_cons] at hy
      rcases hy with h | h
      · exact h ▸ List.mem_cons_self
      · exact List.mem_cons_of_mem _ (ih (acc ++ [x]) y h)

theorem Sim.tauSucc_sound (S : Sim σ α) (s : σ) :
    ∀ p ∈ S.tauSucc s, S.internal p.1 = true ∧ S.M.step s p.1 = some p.2 := by
  intro p hp
  simp only [Sim.tauSucc, List.mem_filterMap] at hp
  obtain ⟨a, _, ha⟩ := hp
  split at ha
  · rename_i hint
    cases hst : S.M.step s a with
    | none => simp [hst] at ha
    | some s' => simp [hst] at ha; subst ha; exact ⟨hint, hst⟩
  · simp at ha

theorem Sim.Witness.tau (S : Sim σ α) {s0 : σ} {tr : List α} {x y : σ} {a : α}
    (hx : S.Witness s0 tr x) (hint : S.internal a = true) (hst : S.M.step x a = some y) :
    S.Witness s0 tr y := by
  obtain ⟨run, hr, ho⟩ := hx
  refine ⟨run ++ [a], ?_, ?_⟩
  · rw [LTS.run_append, hr]; simp [LTS.run, hst]
  · simp [Sim.obsOf, List.filter_append, hint] at *; exact ho

theorem Sim.Witness.obs (S : Sim σ α) {s0 : σ} {tr : List α} {x y : σ} {a : α}
    (hx : S.Witness s0 tr x) (hint : S.internal a = false) (hst : S.M.step x a = some y) :
    S.Witness s0 (tr ++ [a]) y := by
  obtain ⟨run, hr, ho⟩ := hx
  refine ⟨run ++ [a], ?_, ?_⟩
  · rw [LTS.run_append, hr]; simp [LTS.run, hst]
  · simp [Sim.obsOf, List.filter_append, hint] at *; exact ho

theorem Sim.close_sound [BEq σ] (S : Sim σ α) (s0 : σ) (tr : List α) :
    ∀ (n : Nat) (fr acc : List σ), (∀ x ∈ fr, S.Witness s0 tr x) → (∀ x ∈ acc, S.Witness s0 tr x) →
      ∀ x ∈ S.close n fr acc, S.Witness s0 tr x := by
  intro n
  induction n with
  | zero => intro fr acc _ hacc x hx; simp [Sim.close] at hx; exact hacc x hx
  | succ n ih =>
    intro fr acc hfr hacc x hx
    cases fr with
    | nil => simp [Sim.close] at hx; exact hacc x hx
    | cons s fr =>
      simp only [Sim.close] at hx
      have hs : S.Witness s0 tr s := hfr s List.mem_cons_self
      have hsucc : ∀ y ∈ (S.tauSucc s).map (·.2), S.Witness s0 tr y := by
        intro y hy
        obtain ⟨p, hp, rfl⟩ := List.mem_map.mp hy
        obtain ⟨hint, hst⟩ := S.tauSucc_sound s p hp
        exact hs.tau S hint hst
      refine ih _ _ ?_ ?_ x hx
      · intro y hy
        rcases List.mem_append.mp hy with h | h
        · exact hfr y (List.mem_cons_of_mem _ h)
        · exact hsucc y (addNew_snd_mem _ _ y h)
      · intro y hy
        rcases addNew_fst_mem _ _ y hy with h | h
        · exact hacc y h
        · exact hsucc y h

theorem Sim.closure_sound [BEq σ] (S : Sim σ α) (s0 : σ) (tr : List α) (fuel : Nat) (xs : List σ)
    (hxs : ∀ x ∈ xs, S.Witness s0 tr x) : ∀ x ∈ S.closure fuel xs, S.Witness s0 tr x := by
  have hd : ∀ x ∈ dedup xs, S.Witness s0 tr x := by
    intro x hx
    rcases addNew_fst_mem [] xs x hx with h | h
    · simp at h
    · exact hxs x h
  exact S.close_sound s0 tr fuel _ _ hd hd

theorem Sim.observe_sound [BEq σ] (S : Sim σ α) (s0 : σ) (tr : List α) (fuel : Nat) (set : List σ) (a : α)
    (hset : ∀ x ∈ set, S.Witness s0 tr x) : ∀ x ∈ S.observe fuel set a, S.Witness s0 (tr ++ [a]) x := by
  intro x hx
  simp only [Sim.observe] at hx
  split at hx
  · simp at hx
  · rename_i hint
    refine S.closure_sound s0 (tr ++ [a]) fuel _ ?_ x hx
    intro y hy
    obtain ⟨z, hz, hst⟩ := List.mem_filterMap.mp hy
    exact (hset z hz).obs S (by simpa using hint) hst

theorem Sim.start_sound [BEq σ] (S : Sim σ α) (s0 : σ) (fuel : Nat) :
    ∀ x ∈ S.start fuel s0, S.Witness s0 [] x := by
  refine S.closure_sound s0 [] fuel [s0] ?_
  intro x hx
  simp at hx; subst hx
  exact ⟨[], rfl, rfl⟩

theorem Sim.foldl_sound [BEq σ] (S : Sim σ α) (s0 : σ) (fuel : Nat) :
    ∀ (rest pre : List α) (set : List σ), (∀ x ∈ set, S.Witness s0 pre x) →
      ∀ x ∈ rest.foldl (S.observe fuel) set, S.Witness s0 (pre ++ rest) x := by
  intro rest
  induction rest with
  | nil => intro pre set h x hx; simpa using h x hx
  | cons a rest ih =>
    intro pre set h x hx
    simp only [List.foldl_cons] at hx
    have := ih (pre ++ [a]) (S.observe fuel set a) (S.observe_sound s0 pre fuel set a h) x hx
    simpa [List.append_assoc] using this

/-- Every state the simulation keeps after a trace is reached by a run with exactly that trace as
its observable labels. -/
theorem Sim.after_sound [BEq σ] (S : Sim σ α) (s0 : σ) (fuel : Nat) (tr : List α) :
    ∀ x ∈ S.after fuel s0 tr, S.Witness s0 tr x := by
  intro x hx
  have := S.foldl_sound s0 fuel tr [] (S.start fuel s0) (S.start_sound s0 fuel) x hx
  simpa using this

/-- An accepted trace is a trace of the model: there is a run of the LTS from the initial state
whose observable labels are the accepted trace. -/
theorem Sim.accepts_sound [BEq σ] (S : Sim σ α) (s0 : σ) (fuel : Nat) (tr : List α)
    (h : S.accepts fuel s0 tr = true) :
    ∃ (run : List α) (s : σ), S.M.run s0 run = some s ∧ S.obsOf run = tr := by
  simp only [Sim.accepts, Bool.not_eq_true', List.isEmpty_eq_false_iff] at h
  obtain ⟨x, hx⟩ := List.exists_mem_of_ne_nil _ h
  obtain ⟨run, hr, ho⟩ := S.after_sound s0 fuel tr x hx
  exact ⟨run, x, hr, ho⟩

end Kit.Locks
