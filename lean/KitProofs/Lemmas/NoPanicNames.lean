import Lean
/-!
`thm_names% [a, b, …]` elaborates to the list of the given names as strings, after checking that
each resolves to a *theorem* in the environment — so a table that cites theorems by name can be
checked against what is actually proved.
-/
open Lean Elab Term Meta

syntax (name := thmNames) "thm_names% " "[" ident,* "]" : term

@[term_elab thmNames] def elabThmNames : TermElab := fun stx _ => do
  match stx with
  | `(thm_names% [ $ids,* ]) =>
    let mut strs : Array Expr := #[]
    for id in ids.getElems do
      let n ← realizeGlobalConstNoOverloadWithInfo id
      let ci ← getConstInfo n
      unless ci matches .thmInfo _ do
        throwErrorAt id "{n} is not a theorem"
      strs := strs.push (mkStrLit (id.getId.toString))
    mkListLit (mkConst ``String) strs.toList
  | _ => throwUnsupportedSyntax
