/-
Facts about the time model of `KitModel/CronSpec.lean` on zones with one constant offset:
accessors become arithmetic on local seconds; `goDate`/`addDate`/`dayStart`/`truncate` at the
aligned points the search visits.
-/
import KitModel.CronSpec
import KitProofs.Lemmas.CronSpecCal

namespace Kit.CronSpec
open Kit.CronCal

/-! ### accessors on a fixed zone -/

@[simp] theorem lookup_fixed (off u : Int) : lookup (fixedZone off) u = (off, alpha, omegaT) := rfl
@[simp] theorem offsetAt_fixed (off u : Int) : offsetAt (fixedZone off) u = off := rfl
@[simp] theorem localSec_fixed (off u : Int) : localSec (fixedZone off) u = u + off := rfl
theorem dayNum_fixed (off u : Int) : dayNum (fixedZone off) u = (u + off) / 86400 := rfl
theorem hour_fixed (off u : Int) : hour (fixedZone off) u = (u + off) % 86400 / 3600 := rfl
theorem minute_fixed (off u : Int) : minute (fixedZone off) u = (u + off) % 3600 / 60 := rfl
theorem second_fixed (off u : Int) : second (fixedZone off) u = (u + off) % 60 := rfl

/-- Month index (months since year 0) of the wall-clock date. -/
def mIdx (z : Zone) (u : Int) : Int := monthIndex (dayNum z u)

theorem month_eq (z : Zone) (u : Int) : month z u = mIdx z u % 12 + 1 :=
  (civil_year_month (dayNum z u)).2
theorem year_eq (z : Zone) (u : Int) : year z u = mIdx z u / 12 :=
  (civil_year_month (dayNum z u)).1
theorem day_eq (z : Zone) (u : Int) : day z u = dayNum z u - monthStart (mIdx z u) + 1 :=
  civil_day_eq (dayNum z u)
theorem month_range (z : Zone) (u : Int) : 1 ≤ month z u ∧ month z u ≤ 12 :=
  civil_month_range (dayNum z u)
theorem day_range (z : Zone) (u : Int) : 1 ≤ day z u ∧ day z u ≤ 31 :=
  civil_day_range (dayNum z u)
theorem mIdx_lo (z : Zone) (u : Int) : monthStart (mIdx z u) ≤ dayNum z u := monthStart_le _
theorem mIdx_hi (z : Zone) (u : Int) : dayNum z u < monthStart (mIdx z u + 1) := lt_monthStart_succ _

theorem goDate_fixed (off y m d h mi s : Int) :
    goDate (fixedZone off) y m d h mi s =
      daysFromCivil (y + (m - 1) / 12) ((m - 1) % 12 + 1) d * 86400 + h * 3600 + mi * 60 + s - off := by
  simp only [goDate, lookup_fixed, offsetAt_fixed]
  by_cases h : off = 0
  · simp [h]
  · simp [h]

/-- `time.Date(t.Year(), t.Month(), t.Day()+dd, h, mi, s)` in terms of the day number. -/
theorem goDate_today (off t dd h mi s : Int) :
    goDate (fixedZone off) (year (fixedZone off) t) (month (fixedZone off) t)
        (day (fixedZone off) t + dd) h mi s
      = (dayNum (fixedZone off) t + dd) * 86400 + h * 3600 + mi * 60 + s - off := by
  have hm := month_range (fixedZone off) t
  rw [goDate_fixed]
  have h1 : (month (fixedZone off) t - 1) / 12 = 0 := by omega
  have h2 : (month (fixedZone off) t - 1) % 12 + 1 = month (fixedZone off) t := by omega
  rw [h1, h2, Int.add_zero]
  have := daysFromCivil_civil (dayNum (fixedZone off) t)
  rw [daysFromCivil_day] at this
  rw [daysFromCivil_day]
  simp only [year, month, day] at this ⊢
  omega

/-- `time.Date(t.Year(), t.Month()+dm, 1+dd, 0, 0, 0)` for `dm ∈ {0,1}`: first of that month. -/
theorem goDate_month (off t dm dd : Int) (_hdm : dm = 0 ∨ dm = 1) :
    goDate (fixedZone off) (year (fixedZone off) t) (month (fixedZone off) t + dm) (1 + dd) 0 0 0
      = (monthStart (mIdx (fixedZone off) t + dm) + dd) * 86400 - off := by
  rw [goDate_fixed, year_eq, month_eq]
  have e1 : mIdx (fixedZone off) t / 12 + (mIdx (fixedZone off) t % 12 + 1 + dm - 1) / 12
      = (mIdx (fixedZone off) t + dm) / 12 := by omega
  have e2 : (mIdx (fixedZone off) t % 12 + 1 + dm - 1) % 12 + 1
      = (mIdx (fixedZone off) t + dm) % 12 + 1 := by omega
  rw [e1, e2, daysFromCivil_day]
  simp only [monthStart]
  omega

end Kit.CronSpec

namespace Kit.CronSpec
open Kit.CronCal

/-! ### fields that depend on the day number only -/

theorem month_congr {z : Zone} {u t : Int} (h : dayNum z u = dayNum z t) : month z u = month z t := by
  simp only [month, h]
theorem day_congr {z : Zone} {u t : Int} (h : dayNum z u = dayNum z t) : day z u = day z t := by
  simp only [day, h]
theorem mIdx_congr {z : Zone} {u t : Int} (h : dayNum z u = dayNum z t) : mIdx z u = mIdx z t := by
  simp only [mIdx, h]
theorem dayRule_congr {s : Sched} {z : Zone} {u t : Int} (h : dayNum z u = dayNum z t) :
    dayRule s z u ↔ dayRule s z t := by
  simp only [dayRule, day, wday, h]
theorem month_of_mIdx {z : Zone} {u t : Int} (h : mIdx z u = mIdx z t) : month z u = month z t := by
  rw [month_eq, month_eq, h]

theorem mIdx_between {z : Zone} {u M : Int} (h1 : monthStart M ≤ dayNum z u)
    (h2 : dayNum z u < monthStart (M + 1)) : mIdx z u = M := monthIndex_unique h1 h2

/-- Going to the next day without landing on day 1 stays in the month. -/
theorem mIdx_next_day {z : Zone} {u t : Int} (h : dayNum z u = dayNum z t + 1) (hd : day z u ≠ 1) :
    mIdx z u = mIdx z t := by
  have lo := mIdx_lo z t
  have hi := mIdx_hi z t
  by_cases he : dayNum z u = monthStart (mIdx z t + 1)
  · exfalso
    apply hd
    have hm : mIdx z u = mIdx z t + 1 := by
      simp only [mIdx]; rw [he]; exact monthIndex_monthStart _
    rw [day_eq, hm, he]; omega
  · exact mIdx_between (by omega) (by omega)

/-- Within a month the day of month counts days. -/
theorem day_next {z : Zone} {u t : Int} (h : dayNum z u = dayNum z t + 1) (hm : mIdx z u = mIdx z t) :
    day z u = day z t + 1 := by
  rw [day_eq, day_eq, hm, h]; omega

theorem dayMatches_iff (s : Sched) (z : Zone) (t : Int) : dayMatches s z t = true ↔ dayRule s z t := by
  simp only [dayMatches, dayRule]
  cases star s.dom <;> cases star s.dow <;> cases has s.dom (day z t) <;> cases has s.dow (wday z t) <;> simp

/-! ### the generic loop -/

/-- Invariant rule for one `for` loop of `Next`, with a measure showing the fuel suffices. -/
theorem loop_rule {ok : Int → Bool} {reset inc : Int → Int} {wrapped : Int → Int → Bool}
    (Pin Qnext : Int → Bool → Prop) (Qwrap : Int → Prop) (μ : Int → Int)
    (hexit : ∀ t a, Pin t a → ok t = true → Qnext t a)
    (hstep : ∀ t a, Pin t a → ok t = false →
      (wrapped (if a then t else reset t) (inc (if a then t else reset t)) = true →
        Qwrap (inc (if a then t else reset t))) ∧
      (wrapped (if a then t else reset t) (inc (if a then t else reset t)) = false →
        Pin (inc (if a then t else reset t)) true ∧
        0 ≤ μ (inc (if a then t else reset t)) ∧ μ (inc (if a then t else reset t)) < μ t)) :
    ∀ (f : Nat) (t : Int) (a : Bool), Pin t a → 0 ≤ μ t → μ t < f →
      match loop ok reset inc wrapped f t a with
      | .next t' a' => Qnext t' a'
      | .wrap t' a' => a' = true ∧ Qwrap t'
      | .fuel => False := by
  intro f
  induction f with
  | zero =>
    intro t a _ h0 hμ
    omega
  | succ f ih =>
    intro t a hp h0 hμ
    simp only [loop]
    cases hok : ok t
    · simp only [Bool.false_eq_true, if_false]
      have hs := hstep t a hp hok
      by_cases hw : wrapped (if a then t else reset t) (inc (if a then t else reset t)) = true
      · simp only [hw, if_true]
        exact ⟨trivial, hs.1 hw⟩
      · simp only [hw]
        have := hs.2 (by simpa using hw)
        exact ih _ true this.1 this.2.1 (by omega)
    · simp only [if_true]
      exact hexit t a hp hok

end Kit.CronSpec
