/-
Specification side of C03's dispatch/guard theorems: what each supported algorithm name
*denotes* (written from consts.go's comments, RFC 7518 and the JOSE registry — NOT from the
package's tables), and the decidable check that the generated tables agree with it.
-/
import KitProofs.Lemmas.CryptoGlueGuards
namespace Kit.CryptoGlue
open Kit Kit.CryptoGlue.Facts

inductive Family where
  | cbc | gcm | cbchmac | kw | chacha
  deriving Repr, DecidableEq

structure Denotes where
  family : Family
  /-- key length in bytes -/
  keyLen : Nat
  /-- nonce / IV length in bytes (0 = the algorithm takes none) -/
  nonceLen : Nat
  /-- tag length in bytes (0 = no tag) -/
  tagLen : Nat
  nopad : Bool := false
  /-- SHA-2 variant of the MAC (CBC-HMAC only) -/
  hashBits : Nat := 0
  deriving Repr, DecidableEq

def denotesTable : List (String × Denotes) := [
  ("A128CBC", { family := .cbc, keyLen := 16, nonceLen := 16, tagLen := 0 }),
  ("A192CBC", { family := .cbc, keyLen := 24, nonceLen := 16, tagLen := 0 }),
  ("A256CBC", { family := .cbc, keyLen := 32, nonceLen := 16, tagLen := 0 }),
  ("A128CBC-NOPAD", { family := .cbc, keyLen := 16, nonceLen := 16, tagLen := 0, nopad := true }),
  ("A192CBC-NOPAD", { family := .cbc, keyLen := 24, nonceLen := 16, tagLen := 0, nopad := true }),
  ("A256CBC-NOPAD", { family := .cbc, keyLen := 32, nonceLen := 16, tagLen := 0, nopad := true }),
  ("A128GCM", { family := .gcm, keyLen := 16, nonceLen := 12, tagLen := 16 }),
  ("A192GCM", { family := .gcm, keyLen := 24, nonceLen := 12, tagLen := 16 }),
  ("A256GCM", { family := .gcm, keyLen := 32, nonceLen := 12, tagLen := 16 }),
  ("A128CBC-HS256", { family := .cbchmac, keyLen := 32, nonceLen := 16, tagLen := 16, hashBits := 256 }),
  ("A192CBC-HS384", { family := .cbchmac, keyLen := 48, nonceLen := 16, tagLen := 24, hashBits := 384 }),
  ("A256CBC-HS512", { family := .cbchmac, keyLen := 64, nonceLen := 16, tagLen := 32, hashBits := 512 }),
  ("A128KW", { family := .kw, keyLen := 16, nonceLen := 0, tagLen := 0 }),
  ("A192KW", { family := .kw, keyLen := 24, nonceLen := 0, tagLen := 0 }),
  ("A256KW", { family := .kw, keyLen := 32, nonceLen := 0, tagLen := 0 }),
  ("C20P", { family := .chacha, keyLen := 32, nonceLen := 12, tagLen := 16 }),
  ("C20PKW", { family := .chacha, keyLen := 32, nonceLen := 12, tagLen := 16 }),
  ("XC20P", { family := .chacha, keyLen := 32, nonceLen := 24, tagLen := 16 }),
  ("XC20PKW", { family := .chacha, keyLen := 32, nonceLen := 24, tagLen := 16 })]

def denotes (alg : String) : Option Denotes := (denotesTable.find? (·.1 == alg)).map (·.2)

def encHelperName : Family → String
  | .cbc => "encryptSymmetricAESCBC"
  | .gcm => "encryptSymmetricAESGCM"
  | .cbchmac => "encryptSymmetricAESCBCHMAC"
  | .kw => "encryptSymmetricAESKW"
  | .chacha => "encryptSymmetricChaCha20Poly1305"

def decHelperName : Family → String
  | .cbc => "decryptSymmetricAESCBC"
  | .gcm => "decryptSymmetricAESGCM"
  | .cbchmac => "decryptSymmetricAESCBCHMAC"
  | .kw => "decryptSymmetricAESKW"
  | .chacha => "decryptSymmetricChaCha20Poly1305"

def aesKeyLen (k : Nat) : Bool := k == 16 || k == 24 || k == 32

/-- Decidable agreement of the generated tables with what the name denotes. -/
def symFactsB (alg : String) (d : Denotes) : Bool :=
  decide (lookupSwitch Generated.C03.sw_EncryptSymmetric alg = some (encHelperName d.family, "")) &&
  decide (lookupSwitch Generated.C03.sw_DecryptSymmetric alg = some (decHelperName d.family, "")) &&
  decide (encryptRoute alg = some "EncryptSymmetric") && decide (decryptRoute alg = some "DecryptSymmetric") &&
  match d.family with
  | .cbc =>
    decide (expectedKeySize alg = .ok d.keyLen) && aesKeyLen d.keyLen &&
    decide (["A128CBC-NOPAD", "A192CBC-NOPAD", "A256CBC-NOPAD"].contains alg = d.nopad) &&
    decide (Generated.C03.nopad_encryptSymmetricAESCBC.contains alg = d.nopad) &&
    decide (Generated.C03.nopad_decryptSymmetricAESCBC.contains alg = d.nopad) &&
    decide (d.nonceLen = 16) && decide (d.tagLen = 0)
  | .gcm =>
    decide (expectedKeySize alg = .ok d.keyLen) && aesKeyLen d.keyLen &&
    decide (d.nonceLen = 12) && decide (d.tagLen = 16)
  | .kw => decide (expectedKeySize alg = .ok d.keyLen) && aesKeyLen d.keyLen &&
    decide (d.nonceLen = 0) && decide (d.tagLen = 0)
  | .cbchmac =>
    match Generated.C03.cbcHmacCiphers.find? (·.name == alg) with
    | none => false
    | some c =>
      match Generated.C03.aescbcaeadParams.find? (·.ctor == c.ctor) with
      | none => false
      | some p =>
        decide (c.keyLen = d.keyLen) && decide (c.keyLen = p.encKeySize + p.macKeySize) &&
        decide (p.tagSize = d.tagLen) && decide (p.hashBits = d.hashBits) && aesKeyLen p.encKeySize &&
        decide (p.macKeySize = p.tagSize) && decide (2 * p.tagSize * 8 = p.hashBits) &&
        decide (d.nonceLen = 16)
  | .chacha =>
    match Generated.C03.chachaCiphers.find? (·.names.contains alg) with
    | none => false
    | some c =>
      decide (d.keyLen = 32) && decide (c.nonceLen = d.nonceLen) && decide (d.tagLen = 16) &&
      decide (Generated.C03.chachaEncryptTagSplit = 16) &&
      decide ((c.ctor = "chacha20poly1305.NewX" ∧ d.nonceLen = 24) ∨ (c.ctor = "chacha20poly1305.New" ∧ d.nonceLen = 12))

def symDispatchOK (alg : String) : Bool :=
  match denotes alg with
  | some d => symFactsB alg d
  | none => false

theorem symDispatchOK_all : ∀ alg ∈ Generated.C03.supportedSymmetric, symDispatchOK alg = true := by
  decide

theorem symFacts_of_mem {alg : String} {d : Denotes} (h : alg ∈ Generated.C03.supportedSymmetric)
    (hd : denotes alg = some d) : symFactsB alg d = true := by
  have := symDispatchOK_all alg h
  simpa [symDispatchOK, hd] using this

/-! ### asymmetric names -/

structure DenotesAsym where
  /-- stdlib function the operation must end in -/
  stdCall : String
  /-- hash in bits (1 = SHA-1, 0 = none) -/
  hash : Nat
  /-- curve in bits (0 = none) -/
  curve : Nat := 0
  rawType : String
  deriving Repr, DecidableEq

def denotesEncrypt : List (String × DenotesAsym) := [
  ("RSA1_5", { stdCall := "rsa.EncryptPKCS1v15", hash := 0, rawType := "rsa.PublicKey" }),
  ("RSA-OAEP", { stdCall := "rsa.EncryptOAEP", hash := 1, rawType := "rsa.PublicKey" }),
  ("RSA-OAEP-256", { stdCall := "rsa.EncryptOAEP", hash := 256, rawType := "rsa.PublicKey" }),
  ("RSA-OAEP-384", { stdCall := "rsa.EncryptOAEP", hash := 384, rawType := "rsa.PublicKey" }),
  ("RSA-OAEP-512", { stdCall := "rsa.EncryptOAEP", hash := 512, rawType := "rsa.PublicKey" })]

def denotesDecrypt : List (String × DenotesAsym) := [
  ("RSA1_5", { stdCall := "rsa.DecryptPKCS1v15", hash := 0, rawType := "rsa.PrivateKey" }),
  ("RSA-OAEP", { stdCall := "rsa.DecryptOAEP", hash := 1, rawType := "rsa.PrivateKey" }),
  ("RSA-OAEP-256", { stdCall := "rsa.DecryptOAEP", hash := 256, rawType := "rsa.PrivateKey" }),
  ("RSA-OAEP-384", { stdCall := "rsa.DecryptOAEP", hash := 384, rawType := "rsa.PrivateKey" }),
  ("RSA-OAEP-512", { stdCall := "rsa.DecryptOAEP", hash := 512, rawType := "rsa.PrivateKey" })]

def denotesSign : List (String × DenotesAsym) := [
  ("RS256", { stdCall := "rsa.SignPKCS1v15", hash := 256, rawType := "rsa.PrivateKey" }),
  ("RS384", { stdCall := "rsa.SignPKCS1v15", hash := 384, rawType := "rsa.PrivateKey" }),
  ("RS512", { stdCall := "rsa.SignPKCS1v15", hash := 512, rawType := "rsa.PrivateKey" }),
  ("PS256", { stdCall := "rsa.SignPSS", hash := 256, rawType := "rsa.PrivateKey" }),
  ("PS384", { stdCall := "rsa.SignPSS", hash := 384, rawType := "rsa.PrivateKey" }),
  ("PS512", { stdCall := "rsa.SignPSS", hash := 512, rawType := "rsa.PrivateKey" }),
  ("ES256", { stdCall := "ecdsa.SignASN1", hash := 0, curve := 256, rawType := "ecdsa.PrivateKey" }),
  ("ES384", { stdCall := "ecdsa.SignASN1", hash := 0, curve := 384, rawType := "ecdsa.PrivateKey" }),
  ("ES512", { stdCall := "ecdsa.SignASN1", hash := 0, curve := 521, rawType := "ecdsa.PrivateKey" }),
  ("EdDSA", { stdCall := "ed25519.Sign", hash := 0, rawType := "ed25519.PrivateKey" })]

def denotesVerify : List (String × DenotesAsym) := [
  ("RS256", { stdCall := "rsa.VerifyPKCS1v15", hash := 256, rawType := "rsa.PublicKey" }),
  ("RS384", { stdCall := "rsa.VerifyPKCS1v15", hash := 384, rawType := "rsa.PublicKey" }),
  ("RS512", { stdCall := "rsa.VerifyPKCS1v15", hash := 512, rawType := "rsa.PublicKey" }),
  ("PS256", { stdCall := "rsa.VerifyPSS", hash := 256, rawType := "rsa.PublicKey" }),
  ("PS384", { stdCall := "rsa.VerifyPSS", hash := 384, rawType := "rsa.PublicKey" }),
  ("PS512", { stdCall := "rsa.VerifyPSS", hash := 512, rawType := "rsa.PublicKey" }),
  ("ES256", { stdCall := "ecdsa.VerifyASN1", hash := 0, curve := 256, rawType := "ecdsa.PublicKey" }),
  ("ES384", { stdCall := "ecdsa.VerifyASN1", hash := 0, curve := 384, rawType := "ecdsa.PublicKey" }),
  ("ES512", { stdCall := "ecdsa.VerifyASN1", hash := 0, curve := 521, rawType := "ecdsa.PublicKey" }),
  ("EdDSA", { stdCall := "ed25519.Verify", hash := 0, rawType := "ed25519.PublicKey" })]

/-- The plan the dispatch computes for `alg` agrees with what the name denotes. -/
def asymPlanOK (sw : Switch) (spec : List (String × DenotesAsym)) (alg : String) : Bool :=
  match (spec.find? (·.1 == alg)).map (·.2), asymPlan sw alg with
  | some d, .ok pl =>
    decide (pl.helper.stdCall = d.stdCall) && decide (pl.hash = d.hash) && decide (pl.curve = d.curve) &&
    decide (pl.helper.rawType = d.rawType) && decide (pl.helper.guardErr = eKeyTypeMismatch) &&
    decide (pl.helper.checksCurve = (d.curve != 0))
  | _, _ => false

end Kit.CryptoGlue
