import KitProofs.Lemmas.PoolOwnership
/-!
The programs that transcribe `readHeader` / `Decrypt` / `processSegments` / `Encrypt` keep the
ownership discipline (`wf`) for every document, chunking and body — when `readHeader` returns
copies.  Small Hoare-style reasoning over the ghost state.
-/
namespace Kit.PoolOwn

/-- handle `h` is held and at least its first `w` cells were written -/
def Holds (g : Ghost) (h w : Nat) : Prop := h ∈ g.live ∧ w ≤ g.wr h

theorem Holds.mono {g : Ghost} {h w w' : Nat} (H : Holds g h w) (hw : w' ≤ w) : Holds g h w' :=
  ⟨H.1, Nat.le_trans hw H.2⟩

/-- `g'` is `g` with (possibly) longer written prefixes -/
structure Ext (g g' : Ghost) : Prop where
  nh : g'.nh = g.nh
  live : g'.live = g.live
  wr : ∀ h, g.wr h ≤ g'.wr h

theorem Ext.refl (g : Ghost) : Ext g g := ⟨rfl, rfl, fun _ => Nat.le_refl _⟩
theorem Ext.trans {a b c : Ghost} (x : Ext a b) (y : Ext b c) : Ext a c :=
  ⟨y.nh.trans x.nh, y.live.trans x.live, fun h => Nat.le_trans (x.wr h) (y.wr h)⟩
theorem Ext.holds {g g' : Ghost} (e : Ext g g') {h w : Nat} (H : Holds g h w) : Holds g' h w :=
  ⟨by rw [e.live]; exact H.1, Nat.le_trans H.2 (e.wr h)⟩

/-- everything held stays held with at least the same written prefix -/
def Pres (g g' : Ghost) : Prop := ∀ h w, Holds g h w → Holds g' h w

theorem Pres.trans {a b c : Ghost} (x : Pres a b) (y : Pres b c) : Pres a c := fun h w H => y h w (x h w H)
theorem Ext.pres {g g' : Ghost} (e : Ext g g') : Pres g g' := fun _ _ H => e.holds H

theorem gRun_cons {g : Ghost} {i : Instr} {p : List Instr} {g1 : Ghost} (h : gstep g i = some g1) :
    gRun g (i :: p) = gRun g1 p := by simp [gRun, h]

theorem gRun_ok {g g' : Ghost} {p : List Instr} (ok : GhostOk g) (h : gRun g p = some g') : GhostOk g' := by
  induction p generalizing g with
  | nil => simp [gRun] at h; subst h; exact ok
  | cons i p ih =>
    simp only [gRun] at h
    cases hg : gstep g i with
    | none => rw [hg] at h; cases h
    | some g1 => rw [hg] at h; exact ih (gshape_ok (gstep_shape hg) ok) h

theorem gRun_append_some {g g1 g2 : Ghost} {p q : List Instr} (h1 : gRun g p = some g1) (h2 : gRun g1 q = some g2) :
    gRun g (p ++ q) = some g2 := by
  rw [gRun_append, h1]; exact h2

theorem gstep_use {g : Ghost} {s : Sl} (H : Holds g s.h (s.off + s.len)) : gstep g (.use s) = some g := by
  simp [gstep, H.1, H.2]

theorem gstep_write {g : Ghost} {h off : Nat} (vals : List Byte) (H : Holds g h off) :
    ∃ g', gstep g (.write h off vals) = some g' ∧ Ext g g' ∧ Holds g' h (off + vals.length) := by
  refine ⟨{ g with wr := upd g.wr h (max (g.wr h) (off + vals.length)) }, by simp [gstep, H.1, H.2], ⟨rfl, rfl, ?_⟩, H.1, ?_⟩
  · intro x
    by_cases e : x = h
    · subst e; simp only [upd_same]; omega
    · simp only [upd_ne _ _ e]; omega
  · simp only [upd_same]; omega

theorem gstep_copy {g : Ghost} {d s : Sl} (Hs : Holds g s.h (s.off + min d.len s.len)) (Hd : Holds g d.h d.off) :
    ∃ g', gstep g (.copy d s) = some g' ∧ Ext g g' ∧ Holds g' d.h (d.off + min d.len s.len) := by
  refine ⟨{ g with wr := upd g.wr d.h (max (g.wr d.h) (d.off + min d.len s.len)) },
    by simp [gstep, Hs.1, Hs.2, Hd.1, Hd.2], ⟨rfl, rfl, ?_⟩, Hd.1, ?_⟩
  · intro x
    by_cases e : x = d.h
    · subst e; simp only [upd_same]; omega
    · simp only [upd_ne _ _ e]; omega
  · simp only [upd_same]; omega

/-- `get` / `alloc`: a new handle `g.nh`, nothing written yet -/
theorem acquire_pres {g : Ghost} (ok : GhostOk g) :
    Pres g ⟨g.nh + 1, g.nh :: g.live, upd g.wr g.nh 0⟩ ∧ Holds ⟨g.nh + 1, g.nh :: g.live, upd g.wr g.nh 0⟩ g.nh 0 := by
  refine ⟨?_, by simp [Holds]⟩
  intro h w H
  have hne : h ≠ g.nh := Nat.ne_of_lt (ok.lt h H.1)
  exact ⟨List.mem_cons_of_mem _ H.1, by simp only [upd_ne _ _ hne]; exact H.2⟩

/-- `x := make(k); copy(x, src[:k])` — the shape of the surplus copy and of `bytes.Clone` -/
theorem allocCopy_ok {g : Ghost} (ok : GhostOk g) (h off k : Nat) (H : Holds g h (off + k)) :
    ∃ g', gRun g [.alloc k, .copy ⟨g.nh, 0, k⟩ ⟨h, off, k⟩] = some g' ∧ g'.nh = g.nh + 1 ∧
      Holds g' g.nh k ∧ Pres g g' := by
  obtain ⟨hp, hn⟩ := acquire_pres ok
  have Hs := hp h (off + k) H
  obtain ⟨g2, hg2, e2, H2⟩ := gstep_copy (d := ⟨g.nh, 0, k⟩) (s := ⟨h, off, k⟩) (by simpa using Hs) (by simpa using hn)
  refine ⟨g2, ?_, by rw [e2.nh], by simpa using H2, hp.trans e2.pres⟩
  rw [gRun_cons (g1 := ⟨g.nh + 1, g.nh :: g.live, upd g.wr g.nh 0⟩) (by simp [gstep]), gRun_cons hg2]
  rfl

/-! ### `readHeader` -/

structure ScanOk (hb : Nat) (sc : Scan) (m : Nat) : Prop where
  nl : sc.lastNl ≤ m
  man : ∀ sl, sc.man = some sl → sl.h = hb ∧ sl.off + sl.len ≤ m
  mac : ∀ sl, sc.mac = some sl → sl.h = hb ∧ sl.off + sl.len ≤ m

theorem ScanOk.mono {hb : Nat} {sc : Scan} {m m' : Nat} (S : ScanOk hb sc m) (h : m ≤ m') : ScanOk hb sc m' :=
  ⟨Nat.le_trans S.nl h, fun sl e => ⟨(S.man sl e).1, Nat.le_trans (S.man sl e).2 h⟩,
   fun sl e => ⟨(S.mac sl e).1, Nat.le_trans (S.mac sl e).2 h⟩⟩

theorem scanBytes_ok (hb : Nat) (g : Ghost) : ∀ (bs : List Byte) (i : Nat) (sc : Scan),
    Holds g hb (i + bs.length) → ScanOk hb sc i →
    gRun g (scanBytes hb i bs sc).1 = some g ∧
    ∀ sc', (scanBytes hb i bs sc).2 = some sc' → ScanOk hb sc' (i + bs.length) := by
  intro bs
  induction bs with
  | nil =>
    intro i sc _ S
    refine ⟨by simp [scanBytes, gRun], fun sc' e => ?_⟩
    simp only [scanBytes, Option.some.injEq] at e
    subst e
    simpa using S
  | cons b bs ih =>
    intro i sc H S
    have hlen : i + (b :: bs).length = (i + 1) + bs.length := by simp only [List.length_cons]; omega
    have Hi : Holds g hb (i + 1) := H.mono (by simp only [List.length_cons]; omega)
    have H' : Holds g hb ((i + 1) + bs.length) := by rw [← hlen]; exact H
    have use1 : gstep g (.use ⟨hb, i, 1⟩) = some g := gstep_use (by simpa using Hi)
    unfold scanBytes
    split
    · exact ⟨rfl, fun sc' e => by cases e; exact S.mono (by omega)⟩
    · split
      · -- an ordinary byte
        have S1 : ScanOk hb { sc with cur := sc.cur ++ [b] } (i + 1) := ⟨Nat.le_trans S.nl (by omega), fun sl e => ⟨(S.man sl e).1, by have := (S.man sl e).2; omega⟩, fun sl e => ⟨(S.mac sl e).1, by have := (S.mac sl e).2; omega⟩⟩
        obtain ⟨h1, h2⟩ := ih (i + 1) _ H' S1
        exact ⟨by simp only [gRun_cons use1]; exact h1, fun sc' e => by rw [hlen]; exact h2 sc' e⟩
      · split
        · exact ⟨by simp only [gRun_cons use1]; rfl, fun sc' e => by cases e⟩
        · rename_i hnl
          have hlt : sc.lastNl < i := by omega
          have useL : gstep g (.use ⟨hb, sc.lastNl, i - sc.lastNl⟩) = some g :=
            gstep_use (Hi.mono (by simp only; omega))
          have lineOk : ∀ sl : Sl, sl = ⟨hb, sc.lastNl, i - sc.lastNl⟩ → sl.h = hb ∧ sl.off + sl.len ≤ i + 1 := by
            intro sl e; subst e; exact ⟨rfl, by simp only; omega⟩
          split
          · split
            · exact ⟨by simp only [gRun_cons use1, gRun_cons useL]; rfl, fun sc' e => by cases e⟩
            · have S1 : ScanOk hb { sc with newlines := 1, lastNl := i + 1, cur := [] } (i + 1) :=
                ⟨Nat.le_refl _, fun sl e => ⟨(S.man sl e).1, by have := (S.man sl e).2; omega⟩, fun sl e => ⟨(S.mac sl e).1, by have := (S.mac sl e).2; omega⟩⟩
              obtain ⟨h1, h2⟩ := ih (i + 1) _ H' S1
              exact ⟨by simp only [gRun_cons use1, gRun_cons useL]; exact h1, fun sc' e => by rw [hlen]; exact h2 sc' e⟩
          · split
            · have S1 : ScanOk hb { sc with newlines := 2, lastNl := i + 1, cur := [], man := some ⟨hb, sc.lastNl, i - sc.lastNl⟩ } (i + 1) :=
                ⟨Nat.le_refl _, fun sl e => lineOk sl (by simpa using e.symm), fun sl e => ⟨(S.mac sl e).1, by have := (S.mac sl e).2; omega⟩⟩
              obtain ⟨h1, h2⟩ := ih (i + 1) _ H' S1
              exact ⟨by simp only [gRun_cons use1]; exact h1, fun sc' e => by rw [hlen]; exact h2 sc' e⟩
            · have S1 : ScanOk hb { sc with newlines := 3, lastNl := i + 1, cur := [], mac := some ⟨hb, sc.lastNl, i - sc.lastNl⟩ } (i + 1) :=
                ⟨Nat.le_refl _, fun sl e => ⟨(S.man sl e).1, by have := (S.man sl e).2; omega⟩, fun sl e => lineOk sl (by simpa using e.symm)⟩
              obtain ⟨h1, h2⟩ := ih (i + 1) _ H' S1
              exact ⟨by simp only [gRun_cons use1]; exact h1, fun sc' e => by rw [hlen]; exact h2 sc' e⟩

theorem rhLoop_ok (B hb : Nat) : ∀ (reads : List (List Byte)) (n : Nat) (sc : Scan) (g : Ghost),
    Holds g hb n → ScanOk hb sc n →
    ∃ g', gRun g (rhLoop B hb n reads sc).1 = some g' ∧ Ext g g' ∧
      ∀ sc' n', (rhLoop B hb n reads sc).2 = some (sc', n') → Holds g' hb n' ∧ ScanOk hb sc' n' := by
  intro reads
  induction reads with
  | nil =>
    intro n sc g H S
    exact ⟨g, rfl, Ext.refl g, fun sc' n' e => by simp only [rhLoop, Option.some.injEq, Prod.mk.injEq] at e; obtain ⟨rfl, rfl⟩ := e; exact ⟨H, S⟩⟩
  | cons c cs ih =>
    intro n sc g H S
    unfold rhLoop
    split
    · exact ⟨g, rfl, Ext.refl g, fun sc' n' e => by simp only [Option.some.injEq, Prod.mk.injEq] at e; obtain ⟨rfl, rfl⟩ := e; exact ⟨H, S⟩⟩
    · split
      · exact ⟨g, rfl, Ext.refl g, fun sc' n' e => by simp only [Option.some.injEq, Prod.mk.injEq] at e; obtain ⟨rfl, rfl⟩ := e; exact ⟨H, S⟩⟩
      · split
        · exact ih n sc g H S
        · obtain ⟨g1, hg1, e1, H1⟩ := gstep_write (c.take (B - n)) H
          obtain ⟨hs1, hs2⟩ := scanBytes_ok hb g1 (c.take (B - n)) n sc H1 S
          dsimp only
          split
          · rename_i hnone
            exact ⟨g1, by simp only [gRun_cons hg1]; exact hs1, e1, fun sc' n' e => by cases e⟩
          · rename_i sc1 hsome
            obtain ⟨g2, hg2, e2, H2⟩ := ih (n + (c.take (B - n)).length) sc1 g1 H1 (hs2 sc1 hsome)
            exact ⟨g2, by simp only [gRun_cons hg1]; exact gRun_append_some hs1 hg2, e1.trans e2, H2⟩

/-- `get :: (mid ++ [put hb])` where `mid` runs from the ghost state after the `get` -/
theorem bracket_ok {g g2 : Ghost} {mid : List Instr}
    (hmid : gRun ⟨g.nh + 1, g.nh :: g.live, upd g.wr g.nh 0⟩ mid = some g2) (hb : g.nh ∈ g2.live) :
    gRun g (.get :: (mid ++ [.put g.nh])) = some { g2 with live := g2.live.erase g.nh } := by
  rw [gRun_cons (g1 := ⟨g.nh + 1, g.nh :: g.live, upd g.wr g.nh 0⟩) (by simp [gstep])]
  refine gRun_append_some hmid ?_
  simp [gRun, gstep, hb]

theorem pres_erase {g : Ghost} {x : Nat} : ∀ h w, h ≠ x → Holds g h w → Holds { g with live := g.live.erase x } h w :=
  fun _ _ hne H => ⟨(List.mem_erase_of_ne hne).mpr H.1, H.2⟩

/-- what later code needs from a finished `readHeader` -/
structure HdrOk (g g' : Ghost) (out : Option HdrOut) : Prop where
  ok : GhostOk g'
  pres : Pres g g'
  nh : g.nh ≤ g'.nh
  res : ∀ o, out = some o → g'.nh = o.nh ∧ Holds g' o.man.h (o.man.off + o.man.len) ∧ Holds g' o.mac.h (o.mac.off + o.mac.len)
  /-- the surplus bytes sit in an array of their own (the handle after the buffer's), still held -/
  sur : ∀ o, out = some o → o.extra ≠ 0 → Holds g' (g.nh + 1) o.extra

theorem readHeader_fixed_ok (B : Nat) (reads : List (List Byte)) (g : Ghost) (ok : GhostOk g) :
    ∃ g', gRun g (readHeaderProg retFixed B g.nh reads).1 = some g' ∧
      HdrOk g g' (readHeaderProg retFixed B g.nh reads).2 := by
  obtain ⟨hp0, hn0⟩ := acquire_pres ok
  have ok1 : GhostOk ⟨g.nh + 1, g.nh :: g.live, upd g.wr g.nh 0⟩ := gshape_ok (GShape.get) ok
  obtain ⟨g2, hg2, e2, H2⟩ := rhLoop_ok B g.nh reads 0 Scan.start _ hn0
    ⟨Nat.le_refl _, fun sl e => by simp [Scan.start] at e, fun sl e => by simp [Scan.start] at e⟩
  have ok2 : GhostOk g2 := gRun_ok ok1 hg2
  have hbl : g.nh ∈ g2.live := by rw [e2.live]; exact List.mem_cons_self
  have oldne : ∀ h w, Holds g h w → h ≠ g.nh := fun h w H => Nat.ne_of_lt (ok.lt h H.1)
  -- the error exits: get, loop, put
  have errExit : ∃ g', gRun g (.get :: ((rhLoop B g.nh 0 reads Scan.start).1 ++ [.put g.nh])) = some g' ∧ HdrOk g g' none := by
    refine ⟨_, bracket_ok hg2 hbl, ?_, ?_, ?_, (fun o e => by cases e), (fun o e _ => by cases e)⟩
    · exact gshape_ok (GShape.put g.nh hbl) ok2
    · exact fun h w H => pres_erase h w (oldne h w H) (e2.holds (hp0 h w H))
    · simp only [e2.nh]; omega
  unfold readHeaderProg
  dsimp only
  split
  · exact errExit
  · rename_i sc n hres
    obtain ⟨Hb, S⟩ := H2 sc n hres
    split
    · rename_i man mac hman hmac
      split
      · exact errExit
      · obtain ⟨hmh, hmb⟩ := S.man man hman
        obtain ⟨hch, hcb⟩ := S.mac mac hmac
        -- surplus
        have exOk : ∃ g3, gRun g2 (if sc.lastNl < n then
              ([.alloc (n - sc.lastNl), .copy ⟨g.nh + 1, 0, n - sc.lastNl⟩ ⟨g.nh, sc.lastNl, n - sc.lastNl⟩], g.nh + 2)
            else (([] : List Instr), g.nh + 1)).1 = some g3 ∧
            g3.nh = (if sc.lastNl < n then
              ([.alloc (n - sc.lastNl), .copy ⟨g.nh + 1, 0, n - sc.lastNl⟩ ⟨g.nh, sc.lastNl, n - sc.lastNl⟩], g.nh + 2)
            else (([] : List Instr), g.nh + 1)).2 ∧ Pres g2 g3 ∧ (n - sc.lastNl ≠ 0 → Holds g3 (g.nh + 1) (n - sc.lastNl)) := by
          have hnh2 : g2.nh = g.nh + 1 := e2.nh
          split
          · obtain ⟨g3, h3, n3, H3, p3⟩ := allocCopy_ok ok2 g.nh sc.lastNl (n - sc.lastNl) (Hb.mono (by omega))
            rw [hnh2] at h3 n3 H3
            exact ⟨g3, h3, n3, p3, fun _ => H3⟩
          · exact ⟨g2, rfl, hnh2, fun _ _ H => H, fun h => absurd (by omega) h⟩
        obtain ⟨g3, hg3, hn3, p3, Hsur3⟩ := exOk
        have hex2 : g.nh + 1 ≤ (if sc.lastNl < n then
              ([.alloc (n - sc.lastNl), .copy ⟨g.nh + 1, 0, n - sc.lastNl⟩ ⟨g.nh, sc.lastNl, n - sc.lastNl⟩], g.nh + 2)
            else (([] : List Instr), g.nh + 1)).2 := by split <;> simp
        generalize (if sc.lastNl < n then
              ([.alloc (n - sc.lastNl), .copy ⟨g.nh + 1, 0, n - sc.lastNl⟩ ⟨g.nh, sc.lastNl, n - sc.lastNl⟩], g.nh + 2)
            else (([] : List Instr), g.nh + 1)) = ex at hg3 hn3 hex2 ⊢
        obtain ⟨mh, mo, ml⟩ := man
        obtain ⟨ch, co, cl⟩ := mac
        simp only at hmh hmb hch hcb
        have ok3 : GhostOk g3 := gRun_ok ok2 hg3
        -- manifest copy
        have Hman3 : Holds g3 mh (mo + ml) := p3 _ _ (by rw [hmh]; exact Hb.mono hmb)
        obtain ⟨g4, hg4, hn4, Hm4, p4⟩ := allocCopy_ok ok3 mh mo ml Hman3
        have ok4 : GhostOk g4 := gRun_ok ok3 hg4
        have Hmac4 : Holds g4 ch (co + cl) := p4 _ _ (p3 _ _ (by rw [hch]; exact Hb.mono hcb))
        obtain ⟨g5, hg5, hn5, Hc5, p5⟩ := allocCopy_ok ok4 ch co cl Hmac4
        have ok5 : GhostOk g5 := gRun_ok ok4 hg5
        have hbl5 : g.nh ∈ g5.live := (p5 _ _ (p4 _ _ (p3 _ _ Hb))).1
        rw [hn3] at hg4 hn4 Hm4
        rw [hn4] at hg5 hn5 Hc5
        have hmid := gRun_append_some (gRun_append_some (gRun_append_some hg2 hg3) hg4) hg5
        refine ⟨{ g5 with live := g5.live.erase g.nh }, ?_, ?_⟩
        · simp only [retSlice, retFixed]
          exact bracket_ok hmid hbl5
        · refine ⟨gshape_ok (GShape.put g.nh hbl5) ok5, ?_, ?_, ?_, ?_⟩
          · exact fun h w H => pres_erase h w (oldne h w H) (p5 _ _ (p4 _ _ (p3 _ _ (e2.holds (hp0 h w H)))))
          · simp only [hn5]; omega
          · intro o ho
            simp only [retSlice, retFixed, Option.some.injEq] at ho
            subst ho
            simp only
            refine ⟨hn5, ?_, ?_⟩
            · exact pres_erase _ _ (by omega) (by simpa using p5 _ _ Hm4)
            · exact pres_erase _ _ (by omega) (by simpa using Hc5)
          · intro o ho hex
            simp only [retSlice, retFixed, Option.some.injEq] at ho
            subst ho
            simp only at hex ⊢
            exact pres_erase _ _ (by omega) (p5 _ _ (p4 _ _ (Hsur3 hex)))
    · exact errExit

/-! ### `processSegments` -/

/-- `processFn(out, buf[:k], …)`: read the segment, overwrite it in place, write it out -/
theorem seg_ok {g : Ghost} {hb n k : Nat} (out : List Byte) (H : Holds g hb n) (hk : k ≤ n) :
    ∃ g', gRun g [.use ⟨hb, 0, k⟩, .write hb 0 out, .use ⟨hb, 0, out.length⟩] = some g' ∧ Ext g g' := by
  have u1 : gstep g (.use ⟨hb, 0, k⟩) = some g := gstep_use (H.mono (by simp only; omega))
  obtain ⟨g1, hg1, e1, H1⟩ := gstep_write out (H.mono (Nat.zero_le _))
  have u2 : gstep g1 (.use ⟨hb, 0, out.length⟩) = some g1 := gstep_use (H1.mono (by simp only; omega))
  exact ⟨g1, by rw [gRun_cons u1, gRun_cons hg1, gRun_cons u2]; rfl, e1⟩

theorem psLoop_ok (enc : Bool) (hb S : Nat) : ∀ (fuel : Nat) (carry : Option Byte) (data : List Byte) (g : Ghost),
    hb ∈ g.live → ∃ g', gRun g (psLoop enc hb S fuel carry data) = some g' ∧ Ext g g' := by
  intro fuel
  induction fuel with
  | zero => intro carry data g _; exact ⟨g, rfl, Ext.refl g⟩
  | succ fuel ih =>
    intro carry data g hl
    have H0 : Holds g hb 0 := ⟨hl, Nat.zero_le _⟩
    -- the carry-over byte and the reads of this iteration
    have fill : ∀ (have0 : Nat) (pre : List Instr) (now : List Byte) (g1 : Ghost),
        gRun g pre = some g1 → Ext g g1 → Holds g1 hb have0 →
        ∃ g2, gRun g (pre ++ (if now = [] then [] else [Instr.write hb have0 now])) = some g2 ∧ Ext g g2 ∧
          Holds g2 hb (have0 + now.length) := by
      intro have0 pre now g1 hpre e1 H1
      by_cases hn : now = []
      · subst hn
        exact ⟨g1, by simpa using hpre, e1, by simpa using H1⟩
      · obtain ⟨g2, hg2, e2, H2⟩ := gstep_write now H1
        refine ⟨g2, ?_, e1.trans e2, H2⟩
        simp only [hn, if_false]
        exact gRun_append_some hpre (by rw [gRun_cons hg2]; rfl)
    -- what follows the reads
    have tail : ∀ (n : Nat) (seg rest : List Byte) (g2 : Ghost), Holds g2 hb n →
        ∃ g3, gRun g2 (if S < n then
            [Instr.use ⟨hb, n - 1, 1⟩, .use ⟨hb, 0, S⟩, .write hb 0 (segOut enc (seg.take S)), .use ⟨hb, 0, (segOut enc (seg.take S)).length⟩]
              ++ psLoop enc hb S fuel (seg.getLast?) rest
          else if n = 0 then []
          else [.use ⟨hb, 0, n⟩, .write hb 0 (segOut enc seg), .use ⟨hb, 0, (segOut enc seg).length⟩]) = some g3 ∧ Ext g2 g3 := by
      intro n seg rest g2 H2
      split
      · rename_i hS
        have u0 : gstep g2 (.use ⟨hb, n - 1, 1⟩) = some g2 := gstep_use (H2.mono (by simp only; omega))
        obtain ⟨g3, hg3, e3⟩ := seg_ok (k := S) (segOut enc (seg.take S)) H2 (by omega)
        obtain ⟨g4, hg4, e4⟩ := ih (seg.getLast?) rest g3 (by rw [e3.live]; exact H2.1)
        refine ⟨g4, ?_, e3.trans e4⟩
        rw [List.cons_append, gRun_cons u0]
        exact gRun_append_some hg3 hg4
      · split
        · exact ⟨g2, rfl, Ext.refl g2⟩
        · exact seg_ok (segOut enc seg) H2 (Nat.le_refl _)
    unfold psLoop
    cases carry with
    | none =>
      dsimp only
      obtain ⟨g2, hg2, e2, H2⟩ := fill 0 [] (data.take (S + 1 - 0)) g rfl (Ext.refl g) H0
      obtain ⟨g3, hg3, e3⟩ := tail (0 + (data.take (S + 1 - 0)).length) ([] ++ data.take (S + 1 - 0)) (data.drop (S + 1 - 0)) g2 H2
      exact ⟨g3, gRun_append_some hg2 hg3, e2.trans e3⟩
    | some c =>
      dsimp only
      obtain ⟨g1, hg1, e1, H1⟩ := gstep_write [c] H0
      obtain ⟨g2, hg2, e2, H2⟩ := fill 1 [.write hb 0 [c]] (data.take (S + 1 - 1)) g1 (by rw [gRun_cons hg1]; rfl) e1 (by simpa using H1)
      obtain ⟨g3, hg3, e3⟩ := tail (1 + (data.take (S + 1 - 1)).length) ([c] ++ data.take (S + 1 - 1)) (data.drop (S + 1 - 1)) g2 H2
      exact ⟨g3, gRun_append_some hg2 hg3, e2.trans e3⟩

theorem processSegments_ok (enc : Bool) (S : Nat) (data : List Byte) (g : Ghost) (ok : GhostOk g) :
    ∃ g', gRun g (processSegmentsProg enc g.nh S data) = some g' ∧ GhostOk g' ∧ Pres g g' ∧ g'.nh = g.nh + 1 := by
  obtain ⟨hp0, hn0⟩ := acquire_pres ok
  have ok1 : GhostOk ⟨g.nh + 1, g.nh :: g.live, upd g.wr g.nh 0⟩ := gshape_ok (GShape.get) ok
  obtain ⟨g2, hg2, e2⟩ := psLoop_ok enc g.nh S (data.length + 1) none data _ hn0.1
  have hbl : g.nh ∈ g2.live := by rw [e2.live]; exact List.mem_cons_self
  refine ⟨_, bracket_ok hg2 hbl, gshape_ok (GShape.put g.nh hbl) (gRun_ok ok1 hg2), ?_, by simp only [e2.nh]⟩
  exact fun h w H => pres_erase h w (Nat.ne_of_lt (ok.lt h H.1)) (e2.holds (hp0 h w H))

/-! ### `Decrypt`, `Encrypt`, the whole pipeline -/

theorem decrypt_fixed_ok (B : Nat) (reads : List (List Byte)) (body : List Byte) (g : Ghost) (ok : GhostOk g) :
    ∃ g', gRun g (decryptProg retFixed B g.nh reads body) = some g' := by
  obtain ⟨g1, hg1, H⟩ := readHeader_fixed_ok B reads g ok
  unfold decryptProg
  dsimp only
  split
  · exact ⟨g1, hg1⟩
  · rename_i o ho
    obtain ⟨hnh, Hm, Hc⟩ := H.res o ho
    have um : gstep g1 (.use o.man) = some g1 := gstep_use Hm
    have uc : gstep g1 (.use o.mac) = some g1 := gstep_use Hc
    have hy : gstep g1 .yield = some g1 := rfl
    obtain ⟨g2, hg2, _⟩ := processSegments_ok false (segmentSize + segmentOverhead) body g1 H.ok
    rw [hnh] at hg2
    refine ⟨g2, gRun_append_some (gRun_append_some hg1 ?_) hg2⟩
    rw [gRun_cons hy, gRun_cons um, gRun_cons hy, gRun_cons um, gRun_cons uc]
    rfl

theorem decrypt_fixed_wf (B : Nat) (reads : List (List Byte)) (body : List Byte) :
    wf (decryptProg retFixed B 0 reads body) = true := by
  obtain ⟨g', h⟩ := decrypt_fixed_ok B reads body Ghost.init ghostOk_init
  exact wfFrom_of_gRun h

theorem encrypt_wf (plain : List Byte) : wf (encryptProg 0 plain) = true := by
  obtain ⟨g', h, _⟩ := processSegments_ok true segmentSize plain Ghost.init ghostOk_init
  exact wfFrom_of_gRun h

theorem pipeline_fixed_wf (B : Nat) (reads : List (List Byte)) (body plain : List Byte) :
    wf (encryptProg 0 plain ++ decryptProg retFixed B 1 reads body) = true := by
  obtain ⟨g1, h1, ok1, _, hnh⟩ := processSegments_ok true segmentSize plain Ghost.init ghostOk_init
  obtain ⟨g2, h2⟩ := decrypt_fixed_ok B reads body g1 ok1
  have : g1.nh = 1 := by rw [hnh]; rfl
  rw [this] at h2
  exact wfFrom_of_gRun (gRun_append_some h1 h2)

/-! ### the reader pushed back by `readHeader`, read by the goroutine after `Decrypt` returned -/

/-- `processSegmentsProgS`: `pre` (reads through slices the thread holds) runs right after the Get -/
theorem processSegmentsS_ok (enc : Bool) (S : Nat) (data : List Byte) (pre : List Instr) (g : Ghost) (ok : GhostOk g)
    (hpre : ∀ g1, Pres g g1 → gRun g1 pre = some g1) :
    ∃ g', gRun g (processSegmentsProgS enc g.nh S pre data) = some g' ∧ GhostOk g' ∧ Pres g g' ∧ g'.nh = g.nh + 1 := by
  obtain ⟨hp0, hn0⟩ := acquire_pres ok
  have ok1 : GhostOk ⟨g.nh + 1, g.nh :: g.live, upd g.wr g.nh 0⟩ := gshape_ok (GShape.get) ok
  have h1 := hpre _ hp0
  obtain ⟨g2, hg2, e2⟩ := psLoop_ok enc g.nh S (data.length + 1) none data _ hn0.1
  have hbl : g.nh ∈ g2.live := by rw [e2.live]; exact List.mem_cons_self
  have hmid := gRun_append_some h1 hg2
  refine ⟨_, bracket_ok hmid hbl, gshape_ok (GShape.put g.nh hbl) (gRun_ok ok1 hmid), ?_, by simp only [e2.nh]⟩
  exact fun h w H => pres_erase h w (Nat.ne_of_lt (ok.lt h H.1)) (e2.holds (hp0 h w H))

theorem decryptS_fixed_ok (B : Nat) (reads : List (List Byte)) (body : List Byte) (g : Ghost) (ok : GhostOk g) :
    ∃ g', gRun g (decryptProgS .copy retFixed B g.nh reads body) = some g' := by
  obtain ⟨g1, hg1, H⟩ := readHeader_fixed_ok B reads g ok
  unfold decryptProgS
  dsimp only
  split
  · exact ⟨g1, hg1⟩
  · rename_i o ho
    obtain ⟨hnh, Hm, Hc⟩ := H.res o ho
    have um : gstep g1 (.use o.man) = some g1 := gstep_use Hm
    have uc : gstep g1 (.use o.mac) = some g1 := gstep_use Hc
    have hy : gstep g1 .yield = some g1 := rfl
    have hpre : ∀ g2, Pres g1 g2 →
        gRun g2 (if o.extra = 0 then [] else [Instr.use (surplusSl .copy g.nh o)]) = some g2 := by
      intro g2 P
      split
      · rfl
      · rename_i hex
        have Hs : Holds g2 (g.nh + 1) o.extra := P _ _ (H.sur o ho hex)
        have us : gstep g2 (.use (surplusSl .copy g.nh o)) = some g2 := gstep_use (by simpa [surplusSl] using Hs)
        rw [gRun_cons us]; rfl
    obtain ⟨g2, hg2, _⟩ := processSegmentsS_ok false (segmentSize + segmentOverhead) body _ g1 H.ok hpre
    rw [hnh] at hg2
    refine ⟨g2, gRun_append_some (gRun_append_some hg1 ?_) hg2⟩
    rw [gRun_cons hy, gRun_cons um, gRun_cons hy, gRun_cons um, gRun_cons uc, gRun_cons hy]
    rfl

theorem decryptS_fixed_wf (B : Nat) (reads : List (List Byte)) (body : List Byte) :
    wf (decryptProgS .copy retFixed B 0 reads body) = true := by
  obtain ⟨g', h⟩ := decryptS_fixed_ok B reads body Ghost.init ghostOk_init
  exact wfFrom_of_gRun h

theorem pipelineS_fixed_wf (B : Nat) (reads : List (List Byte)) (body plain : List Byte) :
    wf (encryptProg 0 plain ++ decryptProgS .copy retFixed B 1 reads body) = true := by
  obtain ⟨g1, h1, ok1, _, hnh⟩ := processSegments_ok true segmentSize plain Ghost.init ghostOk_init
  obtain ⟨g2, h2⟩ := decryptS_fixed_ok B reads body g1 ok1
  have : g1.nh = 1 := by rw [hnh]; rfl
  rw [this] at h2
  exact wfFrom_of_gRun (gRun_append_some h1 h2)

/-- in a program that keeps the discipline, whatever follows a `put h` — anywhere in it — does not
mention `h` -/
theorem nothing_after_put {p pre rest : List Instr} {h : Nat} (hw : wf p = true) (hp : p = pre ++ .put h :: rest) :
    ∀ i ∈ rest, h ∉ i.handles := by
  subst hp
  unfold wf at hw
  rw [wfFrom_append] at hw
  cases hg : gRun Ghost.init pre with
  | none => rw [hg] at hw; cases hw
  | some g =>
    rw [hg] at hw
    have ok : GhostOk g := gRun_ok ghostOk_init hg
    obtain ⟨g', hg', hw'⟩ := wfFrom_cons hw
    have hs := gstep_shape hg'
    cases hs with
    | put _ hm =>
      exact no_mention_once_dropped (gshape_ok (GShape.put h hm) ok) (ok.lt h hm)
        (fun hm' => (ok.nodup.mem_erase_iff.mp hm').1 rfl) rest hw'

/-! ### `ByteSlicePool` callers -/

/-- `Resize` that does not pool its argument: everything held before stays held with the same
written prefix — in particular the argument; when it grows, the new handle holds the copy -/
theorem bspResize_ok {g : Ghost} (ok : GhostOk g) (h len : Nat) (grow : Bool) (H : Holds g h len) :
    ∃ g', gRun g (bspResizeProg false h g.nh len grow) = some g' ∧ GhostOk g' ∧ Pres g g' ∧
      (grow = true → g'.nh = g.nh + 1 ∧ Holds g' g.nh len) ∧ (grow = false → g' = g) := by
  cases grow with
  | false =>
    refine ⟨g, rfl, ok, ?_, ?_, ?_⟩
    · exact fun _ _ H => H
    · intro e; exact absurd e (by decide)
    · intro _; rfl
  | true =>
    obtain ⟨g', hg', hn, Hn, p⟩ := allocCopy_ok ok h 0 len (by simpa using H)
    refine ⟨g', by simpa [bspResizeProg] using hg', gRun_ok ok hg', p, ?_, ?_⟩
    · intro _; exact ⟨hn, Hn⟩
    · intro e; exact absurd e (by decide)

theorem gstep_put {g : Ghost} {h : Nat} (hl : h ∈ g.live) :
    gstep g (.put h) = some { g with live := g.live.erase h } := by simp [gstep, hl]

theorem bspCaller_wf (vals more : List Byte) (grow : Bool) : wf (bspCallerProg false vals grow more) = true := by
  have ok0 := ghostOk_init
  obtain ⟨hp0, hn0⟩ := acquire_pres ok0
  have hget : gstep Ghost.init .get = some ⟨Ghost.init.nh + 1, Ghost.init.nh :: Ghost.init.live, upd Ghost.init.wr Ghost.init.nh 0⟩ := rfl
  have ok1 : GhostOk ⟨Ghost.init.nh + 1, Ghost.init.nh :: Ghost.init.live, upd Ghost.init.wr Ghost.init.nh 0⟩ := gshape_ok (GShape.get) ok0
  have h0 : Ghost.init.nh = 0 := rfl
  rw [h0] at hn0 hget ok1
  obtain ⟨g2, hg2, e2, H2⟩ := gstep_write vals hn0
  have ok2 : GhostOk g2 := gshape_ok (gstep_shape hg2) ok1
  have nh2 : g2.nh = 1 := e2.nh
  cases grow with
  | false =>
    obtain ⟨g3, hg3, ok3, p3, hgrow, hsame⟩ := bspResize_ok ok2 0 vals.length false (by simpa using H2)
    have e3 : g3 = g2 := hsame rfl
    subst e3
    have H03 : Holds g3 0 vals.length := by simpa using H2
    obtain ⟨g4, hg4, e4, H4⟩ := gstep_write more H03
    have u1 : gstep g4 (.use ⟨0, 0, vals.length + more.length⟩) = some g4 := gstep_use (by simpa using H4)
    have u2 : gstep g4 (.use ⟨0, 0, vals.length⟩) = some g4 := gstep_use (H4.mono (by simp only; omega))
    have hp : gstep g4 (.put 0) = some _ := gstep_put H4.1
    refine wfFrom_of_gRun (g := Ghost.init) (g' := { g4 with live := g4.live.erase 0 }) ?_
    unfold bspCallerProg
    simp only [bspResizeProg, Bool.false_eq_true, if_false, List.append_nil, List.cons_append, List.nil_append]
    rw [gRun_cons hget, gRun_cons hg2, gRun_cons hg4, gRun_cons u1, gRun_cons u2, gRun_cons hp]
    rfl
  | true =>
    obtain ⟨g3, hg3, ok3, p3, hgrow, hsame⟩ := bspResize_ok ok2 0 vals.length true (by simpa using H2)
    rw [nh2] at hg3 hgrow
    have H03 : Holds g3 0 vals.length := p3 _ _ (by simpa using H2)
    obtain ⟨hn3, H13⟩ := hgrow rfl
    obtain ⟨g4, hg4, e4, H4⟩ := gstep_write more H13
    have u1 : gstep g4 (.use ⟨1, 0, vals.length + more.length⟩) = some g4 := gstep_use (by simpa using H4)
    have u2 : gstep g4 (.use ⟨0, 0, vals.length⟩) = some g4 := gstep_use ((e4.holds H03).mono (by simp only; omega))
    have hp0' : gstep g4 (.put 0) = some _ := gstep_put (e4.holds H03).1
    have hp1 : gstep { g4 with live := g4.live.erase 0 } (.put 1) = some _ :=
      gstep_put (show 1 ∈ g4.live.erase 0 from (List.mem_erase_of_ne (by decide)).mpr H4.1)
    have hmid : gRun g2 ([Instr.alloc vals.length, .copy ⟨1, 0, vals.length⟩ ⟨0, 0, vals.length⟩]) = some g3 := by
      simpa [bspResizeProg] using hg3
    have htail : gRun g3 [Instr.write 1 vals.length more, .use ⟨1, 0, vals.length + more.length⟩, .use ⟨0, 0, vals.length⟩, .put 0, .put 1]
        = some { g4 with live := (g4.live.erase 0).erase 1 } := by
      rw [gRun_cons hg4, gRun_cons u1, gRun_cons u2, gRun_cons hp0', gRun_cons hp1]
      rfl
    refine wfFrom_of_gRun (g := Ghost.init) (g' := { g4 with live := (g4.live.erase 0).erase 1 }) ?_
    unfold bspCallerProg
    simp only [bspResizeProg, if_true, Bool.false_eq_true, if_false, List.append_nil, List.cons_append, List.nil_append]
    rw [gRun_cons hget, gRun_cons hg2]
    exact gRun_append_some hmid htail

theorem bspUser_wf (vals : List Byte) : wf (bspUserProg vals) = true := by
  have hget : gstep Ghost.init .get = some ⟨1, [0], upd Ghost.init.wr 0 0⟩ := rfl
  have hn0 : Holds ⟨1, [0], upd Ghost.init.wr 0 0⟩ 0 0 := by simp [Holds]
  obtain ⟨g2, hg2, e2, H2⟩ := gstep_write vals hn0
  have u : gstep g2 (.use ⟨0, 0, vals.length⟩) = some g2 := gstep_use (by simpa using H2)
  apply wfFrom_of_gRun (g := Ghost.init)
  unfold bspUserProg
  rw [gRun_cons hget, gRun_cons hg2, gRun_cons (show gstep g2 .yield = some g2 from rfl), gRun_cons u, gRun_cons (gstep_put H2.1)]
  rfl

end Kit.PoolOwn
