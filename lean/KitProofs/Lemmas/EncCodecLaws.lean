/-
The concrete codec of the enc/v1 header (`KitModel/EncCodec.lean`, modelled on Go's base64 / strconv /
encoding/json) satisfies the codec laws: base64 decode ∘ encode = id, and
`json.Unmarshal ∘ json.Marshal = id` on valid manifests whose key name is in the modelled subset.
-/
import KitModel.Enc
import KitModel.EncCodec

namespace Kit.Enc.Codec
open Kit Kit.Enc

/-! ### base64 -/

theorem b64Val_b64Char (n : Nat) (h : n < 64) : b64Val (b64Char n) = some n := by
  unfold b64Char
  by_cases h1 : n < 26
  · simp only [h1, if_true, b64Val, UInt8.toNat_ofNat']
    have : (65 + n) % 256 = 65 + n := by omega
    rw [this]
    have c1 : 65 ≤ 65 + n ∧ 65 + n ≤ 90 := by omega
    simp only [c1, and_self, if_true]
    congr 1; omega
  · simp only [h1, if_false]
    by_cases h2 : n < 52
    · simp only [h2, if_true, b64Val, UInt8.toNat_ofNat']
      have : (97 + (n - 26)) % 256 = 97 + (n - 26) := by omega
      rw [this]
      have c1 : ¬ (65 ≤ 97 + (n - 26) ∧ 97 + (n - 26) ≤ 90) := by omega
      have c2 : 97 ≤ 97 + (n - 26) ∧ 97 + (n - 26) ≤ 122 := by omega
      simp only [c1, if_false, c2, and_self, if_true]
      congr 1; omega
    · simp only [h2, if_false]
      by_cases h3 : n < 62
      · simp only [h3, if_true, b64Val, UInt8.toNat_ofNat']
        have : (48 + (n - 52)) % 256 = 48 + (n - 52) := by omega
        rw [this]
        have c1 : ¬ (65 ≤ 48 + (n - 52) ∧ 48 + (n - 52) ≤ 90) := by omega
        have c2 : ¬ (97 ≤ 48 + (n - 52) ∧ 48 + (n - 52) ≤ 122) := by omega
        have c3 : 48 ≤ 48 + (n - 52) ∧ 48 + (n - 52) ≤ 57 := by omega
        simp only [c1, c2, if_false, c3, and_self, if_true]
        congr 1; omega
      · simp only [h3, if_false]
        by_cases h4 : n = 62
        · subst h4; decide
        · have : n = 63 := by omega
          subst this; decide

/-- The alphabet characters are letters, digits, `+` or `/`. -/
theorem b64Char_class (n : Nat) (h : n < 64) :
    (b64Char n).toNat = 43 ∨ (47 ≤ (b64Char n).toNat ∧ (b64Char n).toNat ≤ 57) ∨
    (65 ≤ (b64Char n).toNat ∧ (b64Char n).toNat ≤ 90) ∨ (97 ≤ (b64Char n).toNat ∧ (b64Char n).toNat ≤ 122) := by
  unfold b64Char
  by_cases h1 : n < 26
  · simp only [h1, if_true, UInt8.toNat_ofNat']; omega
  · simp only [h1, if_false]
    by_cases h2 : n < 52
    · simp only [h2, if_true, UInt8.toNat_ofNat']; omega
    · simp only [h2, if_false]
      by_cases h3 : n < 62
      · simp only [h3, if_true, UInt8.toNat_ofNat']; omega
      · simp only [h3, if_false]
        by_cases h4 : n = 62
        · simp [h4]
        · simp [h4]

theorem b64Char_ne_pad (n : Nat) (h : n < 64) : b64Char n ≠ 61 := by
  intro he
  have := b64Char_class n h
  rw [he] at this
  simp at this

/-- Every byte of an encoding is an alphabet character or `=`. -/
def B64Byte (c : UInt8) : Prop :=
  c.toNat = 43 ∨ (47 ≤ c.toNat ∧ c.toNat ≤ 57) ∨ c.toNat = 61 ∨ (65 ≤ c.toNat ∧ c.toNat ≤ 90) ∨ (97 ≤ c.toNat ∧ c.toNat ≤ 122)

theorem B64Byte_char (n : Nat) (h : n < 64) : B64Byte (b64Char n) := by
  have := b64Char_class n h
  unfold B64Byte; omega

theorem B64Byte_pad : B64Byte 61 := by unfold B64Byte; simp

theorem ofNat_toNat_eq (a : UInt8) (n : Nat) (h : n = a.toNat) : UInt8.ofNat n = a := by
  subst h; exact UInt8.ofNat_toNat


theorem b64DecGroups_cons4 (a b c d : UInt8) (rest : Bytes) :
    b64DecGroups (a :: b :: c :: d :: rest) =
      if c = 61 ∧ d = 61 ∧ rest = [] then
        match b64Val a, b64Val b with
        | some x, some y => some [UInt8.ofNat (x * 4 + y / 16)]
        | _, _ => none
      else if d = 61 ∧ rest = [] then
        match b64Val a, b64Val b, b64Val c with
        | some x, some y, some z => some [UInt8.ofNat (x * 4 + y / 16), UInt8.ofNat (y % 16 * 16 + z / 4)]
        | _, _, _ => none
      else
        match b64Val a, b64Val b, b64Val c, b64Val d, b64DecGroups rest with
        | some x, some y, some z, some w, some more =>
          some (UInt8.ofNat (x * 4 + y / 16) :: UInt8.ofNat (y % 16 * 16 + z / 4) :: UInt8.ofNat (z % 4 * 64 + w) :: more)
        | _, _, _, _, _ => none := by
  rw [b64DecGroups]; rfl

/-- `base64.StdEncoding`: decoding an encoding gives back the bytes (groups level). -/
theorem b64DecGroups_b64Enc : ∀ (x : Bytes), b64DecGroups (b64Enc x) = some x
  | [] => rfl
  | [a] => by
    have ha := a.toNat_lt
    simp only [b64Enc]
    rw [b64DecGroups_cons4]
    simp only [true_and, and_self, if_true, b64Val_b64Char _ (show a.toNat / 4 < 64 by omega),
      b64Val_b64Char _ (show a.toNat % 4 * 16 < 64 by omega)]
    congr 2
    exact ofNat_toNat_eq a _ (by omega)
  | [a, b] => by
    have ha := a.toNat_lt
    have hb := b.toNat_lt
    simp only [b64Enc]
    rw [b64DecGroups_cons4]
    have h3 : b64Char (b.toNat % 16 * 4) ≠ 61 := b64Char_ne_pad _ (by omega)
    simp only [h3, false_and, if_false, true_and, if_true,
      b64Val_b64Char _ (show a.toNat / 4 < 64 by omega),
      b64Val_b64Char _ (show a.toNat % 4 * 16 + b.toNat / 16 < 64 by omega),
      b64Val_b64Char _ (show b.toNat % 16 * 4 < 64 by omega)]
    congr 2
    · exact ofNat_toNat_eq a _ (by omega)
    · congr 1
      exact ofNat_toNat_eq b _ (by omega)
  | a :: b :: c :: rest => by
    have ha := a.toNat_lt
    have hb := b.toNat_lt
    have hc := c.toNat_lt
    simp only [b64Enc]
    rw [b64DecGroups_cons4]
    have h3 : b64Char (b.toNat % 16 * 4 + c.toNat / 64) ≠ 61 := b64Char_ne_pad _ (by omega)
    have h4 : b64Char (c.toNat % 64) ≠ 61 := b64Char_ne_pad _ (by omega)
    simp only [h3, h4, false_and, if_false,
      b64Val_b64Char _ (show a.toNat / 4 < 64 by omega),
      b64Val_b64Char _ (show a.toNat % 4 * 16 + b.toNat / 16 < 64 by omega),
      b64Val_b64Char _ (show b.toNat % 16 * 4 + c.toNat / 64 < 64 by omega),
      b64Val_b64Char _ (show c.toNat % 64 < 64 by omega), b64DecGroups_b64Enc rest]
    congr 2
    · exact ofNat_toNat_eq a _ (by omega)
    · congr 1
      · exact ofNat_toNat_eq b _ (by omega)
      · congr 1
        exact ofNat_toNat_eq c _ (by omega)

theorem b64Enc_bytes : ∀ (x : Bytes) (ch : UInt8), ch ∈ b64Enc x → B64Byte ch
  | [], ch, h => by simp [b64Enc] at h
  | [a], ch, h => by
    have ha := a.toNat_lt
    simp only [b64Enc, List.mem_cons, List.not_mem_nil, or_false] at h
    rcases h with h | h | h | h <;> subst h
    · exact B64Byte_char _ (by omega)
    · exact B64Byte_char _ (by omega)
    · exact B64Byte_pad
    · exact B64Byte_pad
  | [a, b], ch, h => by
    have ha := a.toNat_lt
    have hb := b.toNat_lt
    simp only [b64Enc, List.mem_cons, List.not_mem_nil, or_false] at h
    rcases h with h | h | h | h <;> subst h
    · exact B64Byte_char _ (by omega)
    · exact B64Byte_char _ (by omega)
    · exact B64Byte_char _ (by omega)
    · exact B64Byte_pad
  | a :: b :: c :: rest, ch, h => by
    have ha := a.toNat_lt
    have hb := b.toNat_lt
    have hc := c.toNat_lt
    simp only [b64Enc, List.mem_cons] at h
    rcases h with h | h | h | h | h
    · subst h; exact B64Byte_char _ (by omega)
    · subst h; exact B64Byte_char _ (by omega)
    · subst h; exact B64Byte_char _ (by omega)
    · subst h; exact B64Byte_char _ (by omega)
    · exact b64Enc_bytes rest ch h

theorem b64Enc_ne_nil (x : Bytes) (h : x ≠ []) : b64Enc x ≠ [] := by
  match x, h with
  | [a], _ => simp [b64Enc]
  | [a, b], _ => simp [b64Enc]
  | a :: b :: c :: rest, _ => simp [b64Enc]

/-- `base64.StdEncoding.Decode(Encode(x)) = x`. -/
theorem b64Dec_b64Enc (x : Bytes) : b64Dec (b64Enc x) = some x := by
  unfold b64Dec
  have hf : (b64Enc x).filter (fun c => c != 13 && c != 10) = b64Enc x := by
    apply List.filter_eq_self.mpr
    intro ch hch
    have := b64Enc_bytes x ch hch
    unfold B64Byte at this
    have h13 : ch ≠ 13 := by intro h; subst h; simp at this
    have h10 : ch ≠ 10 := by intro h; subst h; simp at this
    simp [h13, h10]
  rw [hf, b64DecGroups_b64Enc]

theorem b64Enc_no_newline (x : Bytes) : (10 : UInt8) ∉ b64Enc x := by
  intro h
  have := b64Enc_bytes x 10 h
  unfold B64Byte at this
  simp at this


/-! ### JSON strings -/

theorem hexv_hexLower (n : Nat) (h : n < 16) : hexv (hexLower n) = some n := by
  unfold hexLower
  by_cases h1 : n < 10
  · simp only [h1, if_true, hexv, UInt8.toNat_ofNat']
    have : (48 + n) % 256 = 48 + n := by omega
    rw [this]
    have c1 : 48 ≤ 48 + n ∧ 48 + n ≤ 57 := by omega
    simp only [c1, and_self, if_true]
    congr 1; omega
  · simp only [h1, if_false, hexv, UInt8.toNat_ofNat']
    have : (87 + n) % 256 = 87 + n := by omega
    rw [this]
    have c1 : ¬ (48 ≤ 87 + n ∧ 87 + n ≤ 57) := by omega
    have c2 : 97 ≤ 87 + n ∧ 87 + n ≤ 102 := by omega
    simp only [c1, if_false, c2, and_self, if_true]
    congr 1; omega

theorem parseStr_quote (fuel : Nat) (rest acc : Bytes) :
    parseStr (fuel + 1) (34 :: rest) acc = .ok (acc.reverse, rest) := by
  simp [parseStr]

/-- A byte that needs no escape and is passed through by the parser. -/
def PlainByte (c : UInt8) : Prop := 32 ≤ c.toNat ∧ c.toNat < 128 ∧ c ≠ 34 ∧ c ≠ 92

theorem parseStr_plain (fuel : Nat) (c : UInt8) (rest acc : Bytes) (h : PlainByte c) :
    parseStr (fuel + 1) (c :: rest) acc = parseStr fuel rest (c :: acc) := by
  obtain ⟨h1, h2, h3, h4⟩ := h
  have c2 : ¬ c.toNat ≥ 128 := by omega
  have c3 : ¬ c.toNat < 32 := by omega
  simp [parseStr, h3, h4, c2, c3]

theorem u8_eq_of_toNat {a b : UInt8} (h : a.toNat = b.toNat) : a = b := UInt8.toNat_inj.mp h

/-- One (possibly escaped) byte of a `json.Marshal`-ed string is read back as that byte. -/
theorem parseStr_escByte (fuel : Nat) (b : UInt8) (rest acc : Bytes) (hb : b.toNat < 128) :
    parseStr (fuel + 1) (escByte b ++ rest) acc = parseStr fuel rest (b :: acc) := by
  unfold escByte
  by_cases h34 : b = 34
  · subst h34; simp [parseStr]
  · simp only [h34, if_false]
    by_cases h92 : b = 92
    · subst h92; simp [parseStr]
    · simp only [h92, if_false]
      by_cases h8 : b = 8
      · subst h8; simp [parseStr]
      · simp only [h8, if_false]
        by_cases h12 : b = 12
        · subst h12; simp [parseStr]
        · simp only [h12, if_false]
          by_cases h10 : b = 10
          · subst h10; simp [parseStr]
          · simp only [h10, if_false]
            by_cases h13 : b = 13
            · subst h13; simp [parseStr]
            · simp only [h13, if_false]
              by_cases h9 : b = 9
              · subst h9; simp [parseStr]
              · simp only [h9, if_false]
                by_cases hu : b.toNat < 32 ∨ b = 60 ∨ b = 62 ∨ b = 38
                · simp only [hu, if_true, List.cons_append, List.nil_append]
                  have hx1 := hexv_hexLower (b.toNat / 16) (by omega)
                  have hx2 := hexv_hexLower (b.toNat % 16) (by omega)
                  have hx0 : hexv 48 = some 0 := by decide
                  have hcp : b.toNat / 16 * 16 + b.toNat % 16 = b.toNat := by omega
                  have hns : ¬ (55296 ≤ b.toNat ∧ b.toNat ≤ 57343) := by omega
                  have hutf : utf8Enc b.toNat = [b] := by
                    simp [utf8Enc, hb]
                  simp [parseStr, hx0, hx1, hx2, hcp, hns, hutf]
                · simp only [hu, if_false, List.cons_append, List.nil_append]
                  have hp : PlainByte b := by
                    refine ⟨?_, hb, h34, h92⟩
                    have : ¬ b.toNat < 32 := fun h => hu (Or.inl h)
                    omega
                  exact parseStr_plain fuel b rest acc hp


theorem escByte_ne_nil (b : UInt8) : escByte b ≠ [] := by
  unfold escByte
  repeat' split
  all_goals simp

theorem flatMap_escByte_length (s : Bytes) : s.length ≤ (s.flatMap escByte).length := by
  induction s with
  | nil => simp
  | cons b t ih =>
    have := List.length_pos_iff.mpr (escByte_ne_nil b)
    simp only [List.flatMap_cons, List.length_append, List.length_cons]
    omega

/-- A whole `json.Marshal`-ed string body is read back, for key names of bytes `< 0x80`. -/
theorem parseStr_string : ∀ (s : Bytes) (fuel : Nat) (rest acc : Bytes), (∀ b ∈ s, b.toNat < 128) → s.length < fuel →
    parseStr fuel (s.flatMap escByte ++ 34 :: rest) acc = .ok (acc.reverse ++ s, rest) := by
  intro s
  induction s with
  | nil =>
    intro fuel rest acc _ hf
    obtain ⟨f, rfl⟩ : ∃ f, fuel = f + 1 := ⟨fuel - 1, by simp at hf; omega⟩
    simp [parseStr_quote]
  | cons b t ih =>
    intro fuel rest acc hs hf
    obtain ⟨f, rfl⟩ : ∃ f, fuel = f + 1 := ⟨fuel - 1, by simp at hf; omega⟩
    simp only [List.flatMap_cons, List.append_assoc]
    rw [parseStr_escByte f b _ acc (hs b (by simp))]
    rw [ih f rest (b :: acc) (fun x hx => hs x (by simp [hx])) (by simp at hf; omega)]
    simp

theorem parseValue_string (s rest : Bytes) (hs : ∀ b ∈ s, b.toNat < 128) :
    parseValue (jsonString s ++ rest) = .ok (.str s, rest) := by
  have hlen := flatMap_escByte_length s
  simp only [jsonString, List.cons_append, List.append_assoc, List.nil_append, parseValue]
  rw [parseStr_string s _ rest [] hs (by simp only [List.length_append, List.length_cons]; omega)]
  simp

theorem itoa_digit (n : Nat) (h : n < 10) : itoa n = [UInt8.ofNat (48 + n)] := by
  simp [itoa, natDigits, h]

theorem parseValue_digit (n : Nat) (h1 : 1 ≤ n) (h9 : n ≤ 9) (c0 : UInt8) (hc : c0 = 44 ∨ c0 = 125) (rest : Bytes) :
    parseValue (itoa n ++ c0 :: rest) = .ok (.num n, c0 :: rest) := by
  rw [itoa_digit n (by omega)]
  have hd : (UInt8.ofNat (48 + n)).toNat = 48 + n := by rw [UInt8.toNat_ofNat']; omega
  generalize UInt8.ofNat (48 + n) = d at hd
  have hne34 : d ≠ 34 := by intro h; subst h; simp at hd; omega
  have hne110 : d ≠ 110 := by intro h; subst h; simp at hd; omega
  have hne48 : d ≠ 48 := by intro h; subst h; simp at hd; omega
  have hr : 49 ≤ d.toNat ∧ d.toNat ≤ 57 := by omega
  have hr2 : 48 ≤ d.toNat ∧ d.toNat ≤ 57 := by omega
  have hn : n = d.toNat - 48 := by omega
  have hbig : d.toNat - 48 < 1000000000 := by omega
  have e1 : ∀ c0 : UInt8, (c0 = 44 ∨ c0 = 125) →
      parseDigits (c0 :: rest) (d.toNat - 48) = (d.toNat - 48, c0 :: rest) := by
    intro c0 h; rcases h with h | h <;> subst h <;> simp [parseDigits]
  have e1' := e1 c0 hc
  have key : ∀ c0 : UInt8, (c0 = 44 ∨ c0 = 125) → parseValue (d :: c0 :: rest) =
      if 49 ≤ d.toNat ∧ d.toNat ≤ 57 then
        match (parseDigits (d :: c0 :: rest) 0).2 with
        | 46 :: _ => .error false
        | 101 :: _ => .error false
        | 69 :: _ => .error false
        | _ => if (parseDigits (d :: c0 :: rest) 0).1 < 1000000000 then
                 .ok (.num (parseDigits (d :: c0 :: rest) 0).1, (parseDigits (d :: c0 :: rest) 0).2)
               else .error false
      else .error false := by
    intro c0 h
    rcases h with h | h <;> subst h <;> simp [parseValue, hne34, hne110, hne48, hr] <;> rfl
  have pd : parseDigits (d :: c0 :: rest) 0 = (d.toNat - 48, c0 :: rest) := by
    have : parseDigits (d :: c0 :: rest) 0 = parseDigits (c0 :: rest) (d.toNat - 48) := by
      simp only [parseDigits, if_pos hr2, Nat.zero_mul, Nat.zero_add]
    rw [this, e1']
  rw [List.singleton_append, key c0 hc, if_pos hr, pd]
  rcases hc with hc | hc <;> subst hc <;> simp [hbig, hn]


/-! ### JSON object of the manifest -/

theorem member_append (key val next : Bytes) :
    member key val ++ next = 34 :: (key ++ 34 :: 58 :: (val ++ next)) := by
  simp [member, List.append_assoc]

theorem skipWs_cons (c : UInt8) (r : Bytes) (h : isWs c = false) : skipWs (c :: r) = c :: r := by
  simp [skipWs, h]

theorem skipWs_nil : skipWs [] = [] := rfl

/-- One `"key":value` member followed by `,` and more members. -/
theorem parseMembers_member (fuel : Nat) (key val r4 : Bytes) (tok : Tok) (f f' : Fields)
    (hk : key.flatMap escByte = key) (hka : ∀ b ∈ key, b.toNat < 128)
    (hval : skipWs (val ++ 44 :: r4) = val ++ 44 :: r4)
    (hv : parseValue (val ++ 44 :: r4) = .ok (tok, 44 :: r4)) (hset : setField f key tok = .ok f') :
    parseMembers (fuel + 1) (member key val ++ 44 :: r4) f = parseMembers fuel r4 f' := by
  rw [member_append, parseMembers, skipWs_cons 34 _ (by decide)]
  have hs := parseStr_string key ((key ++ 34 :: 58 :: (val ++ 44 :: r4)).length + 1) (58 :: (val ++ 44 :: r4)) [] hka
    (by simp only [List.length_append, List.length_cons]; omega)
  rw [hk] at hs
  simp only [hs, List.reverse_nil, List.nil_append]
  rw [skipWs_cons 58 _ (by decide)]
  simp only [hval]
  rw [hv]
  simp only [hset]
  rw [skipWs_cons 44 _ (by decide)]
  simp

/-- The last member, followed by the closing brace. -/
theorem parseMembers_last (fuel : Nat) (key val : Bytes) (tok : Tok) (f f' : Fields)
    (hk : key.flatMap escByte = key) (hka : ∀ b ∈ key, b.toNat < 128)
    (hval : skipWs (val ++ [125]) = val ++ [125])
    (hv : parseValue (val ++ [125]) = .ok (tok, [125])) (hset : setField f key tok = .ok f') :
    parseMembers (fuel + 1) (member key val ++ [125]) f = .ok f' := by
  rw [member_append, parseMembers, skipWs_cons 34 _ (by decide)]
  have hs := parseStr_string key ((key ++ 34 :: 58 :: (val ++ [125])).length + 1) (58 :: (val ++ [125])) [] hka
    (by simp only [List.length_append, List.length_cons]; omega)
  rw [hk] at hs
  simp only [hs, List.reverse_nil, List.nil_append]
  rw [skipWs_cons 58 _ (by decide)]
  simp only [hval]
  rw [hv]
  simp only [hset]
  rw [skipWs_cons 125 _ (by decide)]
  simp [skipWs_nil]

theorem skipWs_jsonString (s rest : Bytes) : skipWs (jsonString s ++ rest) = jsonString s ++ rest := by
  simp only [jsonString, List.cons_append]
  exact skipWs_cons 34 _ (by decide)

theorem skipWs_digit (n : Nat) (h1 : 1 ≤ n) (h9 : n ≤ 9) (rest : Bytes) : skipWs (itoa n ++ rest) = itoa n ++ rest := by
  rw [itoa_digit n (by omega), List.singleton_append]
  apply skipWs_cons
  have hd : (UInt8.ofNat (48 + n)).toNat = 48 + n := by rw [UInt8.toNat_ofNat']; omega
  generalize UInt8.ofNat (48 + n) = d at hd
  have a1 : d ≠ 32 := by intro h; subst h; simp at hd; omega
  have a2 : d ≠ 9 := by intro h; subst h; simp at hd; omega
  have a3 : d ≠ 13 := by intro h; subst h; simp at hd; omega
  simp [isWs, a1, a2, a3]

theorem b64Enc_ascii (x : Bytes) : ∀ b ∈ b64Enc x, b.toNat < 128 := by
  intro b hb
  have := b64Enc_bytes x b hb
  unfold B64Byte at this
  omega

theorem keys_plain :
    (kK.flatMap escByte = kK ∧ ∀ b ∈ kK, b.toNat < 128) ∧ (kKW.flatMap escByte = kKW ∧ ∀ b ∈ kKW, b.toNat < 128) ∧
    (kWFK.flatMap escByte = kWFK ∧ ∀ b ∈ kWFK, b.toNat < 128) ∧ (kCPH.flatMap escByte = kCPH ∧ ∀ b ∈ kCPH, b.toNat < 128) ∧
    (kNP.flatMap escByte = kNP ∧ ∀ b ∈ kNP, b.toNat < 128) := by decide

/-- The four members every manifest has, from `"kw"` on. -/
theorem parseMembers_tail (fuel : Nat) (kw cph : Nat) (wfk np : Bytes) (f : Fields)
    (hkw : 1 ≤ kw ∧ kw ≤ 9) (hcph : 1 ≤ cph ∧ cph ≤ 9)
    (hf : f.kw = none ∧ f.wfk = none ∧ f.cph = none ∧ f.np = none) :
    parseMembers (fuel + 4)
      (member kKW (itoa kw) ++ 44 :: (member kWFK (jsonString (b64Enc wfk)) ++ 44 ::
        (member kCPH (itoa cph) ++ 44 :: (member kNP (jsonString (b64Enc np)) ++ [125])))) f =
      .ok { f with kw := some (.num kw), wfk := some (.str (b64Enc wfk)), cph := some (.num cph), np := some (.str (b64Enc np)) } := by
  obtain ⟨_, ⟨h2a, h2b⟩, ⟨h3a, h3b⟩, ⟨h4a, h4b⟩, ⟨h5a, h5b⟩⟩ := keys_plain
  obtain ⟨f1, f2, f3, f4⟩ := hf
  have s1 : setField f kKW (.num kw) = .ok { f with kw := some (.num kw) } := by
    simp [setField, f1, kK, kKW]
  have s2 : setField { f with kw := some (.num kw) } kWFK (.str (b64Enc wfk)) =
      .ok { f with kw := some (.num kw), wfk := some (.str (b64Enc wfk)) } := by
    simp [setField, f2, kK, kKW, kWFK]
  have s3 : setField { f with kw := some (.num kw), wfk := some (.str (b64Enc wfk)) } kCPH (.num cph) =
      .ok { f with kw := some (.num kw), wfk := some (.str (b64Enc wfk)), cph := some (.num cph) } := by
    simp [setField, f3, kK, kKW, kWFK, kCPH]
  have s4 : setField { f with kw := some (.num kw), wfk := some (.str (b64Enc wfk)), cph := some (.num cph) } kNP
      (.str (b64Enc np)) =
      .ok { f with kw := some (.num kw), wfk := some (.str (b64Enc wfk)), cph := some (.num cph), np := some (.str (b64Enc np)) } := by
    simp [setField, f4, kK, kKW, kWFK, kCPH, kNP]
  rw [parseMembers_member (fuel + 3) kKW _ _ (.num kw) f _ h2a h2b (skipWs_digit kw hkw.1 hkw.2 _) (parseValue_digit kw hkw.1 hkw.2 44 (Or.inl rfl) _) s1]
  rw [parseMembers_member (fuel + 2) kWFK _ _ (.str (b64Enc wfk)) _ _ h3a h3b (skipWs_jsonString _ _) (parseValue_string _ _ (b64Enc_ascii wfk)) s2]
  rw [parseMembers_member (fuel + 1) kCPH _ _ (.num cph) _ _ h4a h4b (skipWs_digit cph hcph.1 hcph.2 _) (parseValue_digit cph hcph.1 hcph.2 44 (Or.inl rfl) _) s3]
  rw [parseMembers_last fuel kNP _ (.str (b64Enc np)) _ _ h5a h5b (skipWs_jsonString _ _) (parseValue_string _ _ (b64Enc_ascii np)) s4]


theorem valid_parts (P : EncParams) (m : Manifest) (hm : m.valid P = true) :
    P.kwIds.contains m.kw = true ∧ m.wfk ≠ [] ∧ P.cphIds.contains m.cph = true ∧ m.np.length = P.npLen := by
  simp only [Manifest.valid, Bool.and_eq_true, Bool.not_eq_true', beq_iff_eq] at hm
  obtain ⟨⟨⟨h1, h2⟩, h3⟩, h4⟩ := hm
  exact ⟨h1, by simpa using h2, h3, h4⟩

/-- **`json.Unmarshal ∘ json.Marshal = id`** on valid manifests whose key name consists of bytes
    `< 0x80` (any of them: quotes, backslashes, control characters and `< > &` are escaped and read
    back), for parameters whose ids are single digits (the generated ones: `generated_ids_digits`). -/
theorem parseManifest_render (P : EncParams) (hids : ∀ n, n ∈ P.kwIds ∨ n ∈ P.cphIds → 1 ≤ n ∧ n ≤ 9)
    (m : Manifest) (hm : m.valid P = true) (hk : ∀ b ∈ m.keyName, b.toNat < 128) :
    parseManifest P (renderManifest m) = .ok m := by
  obtain ⟨hkw, hwfk, hcph, hnp⟩ := valid_parts P m hm
  have dkw := hids m.kw (Or.inl (by simpa using hkw))
  have dcph := hids m.cph (Or.inr (by simpa using hcph))
  obtain ⟨⟨h1a, h1b⟩, _⟩ := keys_plain
  -- the members
  have hmem : ∀ fuel, parseMembers (fuel + 5)
      ((if m.keyName.isEmpty then [] else member kK (jsonString m.keyName) ++ [44]) ++
        (member kKW (itoa m.kw) ++ 44 :: (member kWFK (jsonString (b64Enc m.wfk)) ++ 44 ::
          (member kCPH (itoa m.cph) ++ 44 :: (member kNP (jsonString (b64Enc m.np)) ++ [125]))))) {} =
      .ok { k := if m.keyName.isEmpty then none else some (.str m.keyName), kw := some (.num m.kw),
            wfk := some (.str (b64Enc m.wfk)), cph := some (.num m.cph), np := some (.str (b64Enc m.np)) } := by
    intro fuel
    by_cases he : m.keyName.isEmpty = true
    · simp only [he, if_true, List.nil_append]
      rw [parseMembers_tail (fuel + 1) m.kw m.cph m.wfk m.np {} dkw dcph ⟨rfl, rfl, rfl, rfl⟩]
    · simp only [he, Bool.false_eq_true, if_false, List.append_assoc, List.singleton_append]
      have s0 : setField {} kK (.str m.keyName) = .ok { k := some (.str m.keyName) } := by
        simp [setField, kK]
      rw [parseMembers_member (fuel + 4) kK _ _ (.str m.keyName) {} _ h1a h1b (skipWs_jsonString _ _) (parseValue_string _ _ hk) s0]
      rw [parseMembers_tail fuel m.kw m.cph m.wfk m.np _ dkw dcph ⟨rfl, rfl, rfl, rfl⟩]
  -- the object
  unfold renderManifest parseManifest
  generalize hrest : ((if m.keyName.isEmpty then [] else member kK (jsonString m.keyName) ++ [44]) ++
        (member kKW (itoa m.kw) ++ 44 :: (member kWFK (jsonString (b64Enc m.wfk)) ++ 44 ::
          (member kCPH (itoa m.cph) ++ 44 :: (member kNP (jsonString (b64Enc m.np)) ++ [125]))))) = rest at hmem
  have hlen : 5 ≤ rest.length := by
    rw [← hrest]
    simp only [List.length_append, List.length_cons, member]
    omega
  have hhead : ∃ t, rest = 34 :: t := by
    rw [← hrest]
    by_cases he : m.keyName.isEmpty = true
    · simp only [he, if_true, List.nil_append, member, List.cons_append]; exact ⟨_, rfl⟩
    · simp only [he, Bool.false_eq_true, if_false, member, List.cons_append]; exact ⟨_, rfl⟩
  obtain ⟨fuel, hfuel⟩ : ∃ fuel, rest.length + 1 = fuel + 5 := ⟨rest.length + 1 - 5, by omega⟩
  rw [skipWs_cons 123 _ (by decide)]
  obtain ⟨t, ht⟩ := hhead
  rw [ht] at hfuel hmem ⊢
  simp only []
  rw [skipWs_cons 34 _ (by decide)]
  simp only [hfuel, hmem fuel]
  have hb1 : b64Dec (b64Enc m.wfk) = some m.wfk := b64Dec_b64Enc _
  have hb2 : b64Dec (b64Enc m.np) = some m.np := b64Dec_b64Enc _
  by_cases he : m.keyName.isEmpty = true
  · have hke : m.keyName = [] := by simpa using he
    simp only [he, if_true, idField, hkw, hcph, bytesField, hb1, hb2]
    cases m; simp_all
  · simp only [he, Bool.false_eq_true, if_false, idField, hkw, hcph, bytesField, hb1, hb2, if_true]
    rfl


/-! ### no line feed inside the rendered lines -/

theorem hexLower_ne_nl (n : Nat) (h : n < 16) : hexLower n ≠ 10 := by
  intro he
  have := congrArg UInt8.toNat he
  unfold hexLower at this
  split at this <;> (rw [UInt8.toNat_ofNat'] at this; simp at this; omega)

theorem escByte_no_nl (b : UInt8) : (10 : UInt8) ∉ escByte b := by
  have hb := b.toNat_lt
  unfold escByte
  repeat' split
  all_goals first
    | decide
    | (simp only [List.mem_cons, List.not_mem_nil, or_false, not_or]
       refine ⟨by decide, by decide, by decide, by decide, ?_, ?_⟩
       · exact fun h => hexLower_ne_nl _ (by omega) h.symm
       · exact fun h => hexLower_ne_nl _ (by omega) h.symm)
    | (simp only [List.mem_singleton]; intro h; simp_all)

theorem jsonString_no_nl (s : Bytes) : (10 : UInt8) ∉ jsonString s := by
  simp only [jsonString, List.mem_cons, List.mem_append, List.mem_flatMap, List.not_mem_nil, or_false, not_or,
    not_exists, not_and]
  exact ⟨by decide, fun b _ => escByte_no_nl b, by decide⟩

theorem itoa_digit_no_nl (n : Nat) (h : n ≤ 9) : (10 : UInt8) ∉ itoa n := by
  rw [itoa_digit n (by omega)]
  simp only [List.mem_singleton]
  intro he
  have := congrArg UInt8.toNat he
  rw [UInt8.toNat_ofNat'] at this
  simp at this; omega

theorem renderManifest_line (P : EncParams) (hids : ∀ n, n ∈ P.kwIds ∨ n ∈ P.cphIds → 1 ≤ n ∧ n ≤ 9)
    (m : Manifest) (hm : m.valid P = true) :
    renderManifest m ≠ [] ∧ (10 : UInt8) ∉ renderManifest m := by
  obtain ⟨hkw, _, hcph, _⟩ := valid_parts P m hm
  have dkw := hids m.kw (Or.inl (by simpa using hkw))
  have dcph := hids m.cph (Or.inr (by simpa using hcph))
  refine ⟨by simp [renderManifest], ?_⟩
  have hmem : ∀ key val : Bytes, (10 : UInt8) ∉ key → (10 : UInt8) ∉ val → (10 : UInt8) ∉ member key val := by
    intro key val h1 h2
    simp only [member, List.mem_cons, List.mem_append, not_or]
    exact ⟨by decide, h1, by decide, by decide, h2⟩
  have k1 : (10 : UInt8) ∉ kK := by decide
  have k2 : (10 : UInt8) ∉ kKW := by decide
  have k3 : (10 : UInt8) ∉ kWFK := by decide
  have k4 : (10 : UInt8) ∉ kCPH := by decide
  have k5 : (10 : UInt8) ∉ kNP := by decide
  have m1 := hmem kK _ k1 (jsonString_no_nl m.keyName)
  have m2 := hmem kKW _ k2 (itoa_digit_no_nl m.kw dkw.2)
  have m3 := hmem kWFK _ k3 (jsonString_no_nl (b64Enc m.wfk))
  have m4 := hmem kCPH _ k4 (itoa_digit_no_nl m.cph dcph.2)
  have m5 := hmem kNP _ k5 (jsonString_no_nl (b64Enc m.np))
  simp only [renderManifest, List.mem_cons, List.mem_append, not_or]
  refine ⟨by decide, ?_, m2, by decide, m3, by decide, m4, by decide, m5, by decide⟩
  by_cases he : m.keyName.isEmpty = true
  · simp [he]
  · simp only [he, Bool.false_eq_true, if_false, List.mem_append, List.mem_singleton, not_or]
    exact ⟨m1, by decide⟩

/-- The ids of the generated parameters are single digits. -/
theorem generated_ids_digits :
    ∀ n, n ∈ EncParams.generated.kwIds ∨ n ∈ EncParams.generated.cphIds → 1 ≤ n ∧ n ≤ 9 := by
  intro n h
  have h1 : EncParams.generated.kwIds = [1, 2, 3, 4, 5] := by decide
  have h2 : EncParams.generated.cphIds = [1, 2] := by decide
  rw [h1, h2] at h
  simp only [List.mem_cons, List.not_mem_nil, or_false] at h
  omega

/-- **The concrete codec the driver runs is lawful** for every valid manifest whose key name consists
    of bytes `< 0x80` (the modelled subset): Go's `base64.StdEncoding` decode ∘ encode = id,
    `json.Unmarshal ∘ json.Marshal = id`, and neither line contains a line feed. -/
theorem realCodec_lawful (m : Manifest) (hm : m.valid EncParams.generated = true)
    (hk : ∀ b ∈ m.keyName, b.toNat < 128) : (real EncParams.generated).LawfulFor m where
  parse_render := by
    simp only [real, parseManifest_render _ generated_ids_digits m hm hk]
  render_line := renderManifest_line _ generated_ids_digits m hm
  unb64_b64 := b64Dec_b64Enc
  b64_line := fun x hx => ⟨b64Enc_ne_nil x hx, b64Enc_no_newline x⟩

end Kit.Enc.Codec
