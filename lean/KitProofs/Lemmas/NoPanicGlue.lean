import KitModel.NoPanicKeys
import KitModel.NoPanicEnc
import KitModel.NoPanicDecode
/-! Helper lemmas for C07: keys / pem / enc / streams / metadata / config models. -/
namespace Kit.NoPanic
open Kit

theorem bind_noPanic {α β} (x : Outcome α) (f : α → Outcome β)
    (hx : x.isPanic = false) (hf : ∀ a, x = .ok a → (f a).isPanic = false) : (x.bind f).isPanic = false := by
  cases x with
  | ok a => exact hf a rfl
  | err e => rfl
  | panic w => simp at hx

theorem ite_noPanic {α} (c : Prop) [Decidable c] (a b : Outcome α)
    (ha : a.isPanic = false) (hb : b.isPanic = false) : (if c then a else b).isPanic = false := by
  by_cases h : c
  · rw [if_pos h]; exact ha
  · rw [if_neg h]; exact hb

namespace Keys

theorem dropWhile_length_le {α} (p : α → Bool) : ∀ l : List α, (l.dropWhile p).length ≤ l.length
  | [] => by simp
  | a :: l => by
    rw [List.dropWhile_cons]
    split
    · have := dropWhile_length_le p l
      simp only [List.length_cons]
      omega
    · exact Nat.le_refl _

theorem trimRight_length_le (raw : Bytes) : (trimRight raw).length ≤ raw.length := by
  unfold trimRight
  rw [List.length_reverse]
  have := dropWhile_length_le (fun c => c == 10 || c == 61) raw.reverse
  simpa using this

theorem rawDecodedLen_mono {a b : Nat} (h : a ≤ b) : rawDecodedLen a ≤ rawDecodedLen b := by
  unfold rawDecodedLen
  exact Nat.div_le_div_right (Nat.mul_le_mul_right 6 h)

theorem decodeInto_ok (dec : Bytes → Option Nat) (raw : Bytes) :
    decodeInto dec (rawDecodedLen raw.length) (trimRight raw) = .ok (dec (trimRight raw)) := by
  unfold decodeInto
  have := rawDecodedLen_mono (trimRight_length_le raw)
  have h : ¬ rawDecodedLen raw.length < rawDecodedLen (trimRight raw).length := by omega
  simp [h]

theorem sliceChk_ok {n m : Nat} (h : m ≤ n) : sliceChk n 0 (m : Int) = .ok () := by
  unfold sliceChk
  have : (0 : Int) ≤ 0 ∧ (0 : Int) ≤ (m : Int) ∧ (m : Int) ≤ (n : Int) := ⟨by omega, by omega, by omega⟩
  simp [this]

theorem decodeCerts_noPanic (step : Bytes → CertStep)
    (hstep : ∀ b rest, step b = .cert rest → rest.length < b.length) :
    ∀ (fuel : Nat) (crtb : Bytes) (found : Nat), crtb.length ≤ fuel → (decodeCerts step fuel crtb found).isPanic = false := by
  intro fuel
  induction fuel with
  | zero =>
    intro crtb found h
    unfold decodeCerts
    have : ¬ crtb.length > 0 := by omega
    simp only [this, if_false]
    exact ite_noPanic _ _ _ rfl rfl
  | succ n ih =>
    intro crtb found h
    unfold decodeCerts
    by_cases hl : crtb.length > 0
    · simp only [hl, if_true]
      cases hs : step crtb with
      | stop => exact ite_noPanic _ _ _ rfl rfl
      | parseError => rfl
      | cert rest =>
        have := hstep crtb rest hs
        exact ih rest (found + 1) (by omega)
    · simp only [hl, if_false]
      exact ite_noPanic _ _ _ rfl rfl

theorem chainLoop_noPanic (n : Nat) : ∀ (fuel : Nat) (i : Int), 0 ≤ i → (n : Int) - 1 - i ≤ fuel →
    (chainLoop n fuel i).isPanic = false := by
  intro fuel
  induction fuel with
  | zero =>
    intro i h0 h
    unfold chainLoop
    have : ¬ i < (n : Int) - 1 := by omega
    simp [this]
  | succ k ih =>
    intro i h0 h
    unfold chainLoop
    by_cases hl : i < (n : Int) - 1
    · simp only [hl, if_true]
      have h1 : idxI n i = .ok () := by
        unfold idxI
        have : 0 ≤ i ∧ i < (n : Int) := ⟨h0, by omega⟩
        simp [this]
      have h2 : idxI n (i + 1) = .ok () := by
        unfold idxI
        have : 0 ≤ i + 1 ∧ i + 1 < (n : Int) := ⟨by omega, by omega⟩
        simp [this]
      rw [h1, bind_ok, h2, bind_ok]
      exact ih (i + 1) (by omega) (by omega)
    · simp [hl]

end Keys

namespace Enc

theorem upperLoop_noPanic (runeLen : Bytes → Nat) : ∀ (fuel : Nat) (rest : Bytes) (n : Nat),
    rest.length ≤ fuel → (upperLoop runeLen fuel rest n).isPanic = false := by
  intro fuel
  induction fuel with
  | zero =>
    intro rest n h
    unfold upperLoop
    have : ¬ rest.length > 0 := by omega
    simp [this]
  | succ k ih =>
    intro rest n h
    unfold upperLoop
    by_cases hl : rest.length > 0
    · simp only [hl, if_true]
      apply ih
      rw [List.length_drop]
      have : 1 ≤ max 1 (runeLen rest) := Nat.le_max_left _ _
      omega
    · simp [hl]

end Enc

namespace Decode

theorem lastIdxE_lt : ∀ (cs : Bytes) (i : Nat) (acc : Option Nat) (j : Nat),
    lastIdxE cs i acc = some j → acc = some j ∨ (i ≤ j ∧ j < i + cs.length)
  | [], _, acc, j, h => by simp [lastIdxE] at h; exact Or.inl h
  | c :: cs, i, acc, j, h => by
    rw [lastIdxE] at h
    rcases lastIdxE_lt cs (i + 1) _ j h with h1 | ⟨h1, h2⟩
    · by_cases hc : (c == 101 || c == 69) = true
      · rw [if_pos hc] at h1
        right
        have : i = j := by simpa using h1
        subst this
        exact ⟨Nat.le_refl _, by simp⟩
      · rw [if_neg hc] at h1; exact Or.inl h1
    · right; exact ⟨by omega, by simp only [List.length_cons]; omega⟩

theorem exponentTooLarge_noPanic (str : Bytes) : (exponentTooLarge str).isPanic = false := by
  unfold exponentTooLarge
  cases hl : lastIdxE str 0 none with
  | none => rfl
  | some i =>
    simp only
    have hi : i < str.length := by
      rcases lastIdxE_lt str 0 none i hl with h | ⟨_, h⟩
      · cases h
      · omega
    by_cases he : i + 1 = str.length
    · rw [if_pos he]; rfl
    · rw [if_neg he, slice_ok (by omega) (Nat.le_refl _), bind_ok]
      have hlen : ((str.drop (i + 1)).take (str.length - (i + 1))).length = str.length - (i + 1) := by
        rw [List.length_take, List.length_drop]; omega
      have hpos : 0 < ((str.drop (i + 1)).take (str.length - (i + 1))).length := by omega
      simp only [idx_ok hpos, bind_ok]
      have hsigned : ∀ (x : Outcome Bool) (k : Bool → Outcome Bool), (∃ b, x = .ok b) → (∀ b, (k b).isPanic = false) →
          (x.bind k).isPanic = false := by
        intro x k ⟨b, hb⟩ hk
        rw [hb, bind_ok]; exact hk b
      apply hsigned
      · by_cases h43 : (((str.drop (i + 1)).take (str.length - (i + 1)))[0] == 43) = true
        · rw [if_pos h43]; exact ⟨_, rfl⟩
        · rw [if_neg h43]; exact ⟨_, rfl⟩
      intro signed
      have hd : ∀ (d : Outcome Bytes) (k : Bytes → Outcome Bool), d.isPanic = false → (∀ x, (k x).isPanic = false) → (d.bind k).isPanic = false := by
        intro d k h1 h2
        cases d with
        | ok x => exact h2 x
        | err e => rfl
        | panic w => simp at h1
      apply hd
      · cases signed
        · rfl
        · simp only [if_true]
          rw [slice_ok (by omega) (Nat.le_refl _)]; rfl
      · intro d
        refine ite_noPanic _ _ _ rfl (ite_noPanic _ _ _ rfl ?_)
        cases atoi d <;> rfl

theorem assertTy_self (f : Ty) : assertTy f f = .ok () := by simp [assertTy]

mutual
theorem normalize_noPanic : ∀ v : Val, (normalize v).isPanic = false
  | .scalar => by simp [normalize]
  | .mapAny kvs => by rw [normalize]; exact normalizeKVs_noPanic kvs
  | .mapStr vs => by rw [normalize]; exact normalizeAll_noPanic vs
  | .list vs => by rw [normalize]; exact normalizeAll_noPanic vs
theorem normalizeAll_noPanic : ∀ vs : List Val, (normalizeAll vs).isPanic = false
  | [] => by simp [normalizeAll]
  | v :: vs => by
    rw [normalizeAll]
    exact bind_noPanic _ _ (normalize_noPanic v) (fun _ _ => normalizeAll_noPanic vs)
theorem normalizeKVs_noPanic : ∀ kvs : List (Bool × Val), (normalizeKVs kvs).isPanic = false
  | [] => by simp [normalizeKVs]
  | (isStr, v) :: rest => by
    rw [normalizeKVs]
    cases isStr with
    | true =>
      simp only [if_true]
      exact bind_noPanic _ _ (normalize_noPanic v) (fun _ _ => normalizeKVs_noPanic rest)
    | false => simp
end

end Decode
end Kit.NoPanic
