import KitProofs.Lemmas.Ring
import Mathlib.Tactic.SplitIfs
/-! C14: the Go layer of the ring model (raw nil-able fields, lazy `init()`, nil dereference =
panic) never panics on heaps reachable by ring operations and equals the logical layer. -/
namespace Kit.Ring

variable {α : Type}

/-- `next` and `prev` are mutually inverse permutations (`WF`), and a node has either both links
nil (uninitialised zero value) or both set. -/
def Lazy (h : Heap α) : Prop :=
  WF h ∧ ∀ x, (rawNext h x).isSome = (rawPrev h x).isSome

theorem raw_lt_of_some {h : Heap α} {x y : Nat} (hx : rawNext h x = some y) : x < h.size := by
  unfold rawNext at hx
  cases hg : h[x]? with
  | none => rw [hg] at hx; cases hx
  | some n => exact (Array.getElem?_eq_some_iff.mp hg).1

theorem modify_congr_at {β : Type} (h : Array β) (r : Nat) (f g : β → β)
    (hfg : ∀ x, h[r]? = some x → f x = g x) : h.modify r f = h.modify r g := by
  apply Array.ext_getElem?
  intro i
  rw [Array.getElem?_modify, Array.getElem?_modify]
  by_cases hi : r = i
  · subst hi
    cases hx : h[r]? with
    | none => simp
    | some x => simp [hfg x hx]
  · simp [hi]

theorem modify_id_at {β : Type} (h : Array β) (r : Nat) (f : β → β)
    (hf : ∀ x, h[r]? = some x → f x = x) : h.modify r f = h := by
  apply Array.ext_getElem?
  intro i
  rw [Array.getElem?_modify]
  by_cases hi : r = i
  · subst hi
    cases hx : h[r]? with
    | none => simp
    | some x => simp [hf x hx]
  · simp [hi]

/-- on an initialised node the lazy initialisation does nothing -/
theorem initNode_of_inited {h : Heap α} {r a b : Nat} (hn : rawNext h r = some a) (hp : rawPrev h r = some b) :
    initNode h r = h := by
  unfold initNode
  apply modify_id_at
  intro x hx
  simp only [rawNext, rawPrev, hx] at hn hp
  cases x
  simp_all

/-- on an uninitialised node it is `init()` -/
theorem init_eq_initNode {h : Heap α} {r : Nat} (hn : rawNext h r = none) (hp : rawPrev h r = none) :
    Go.init h r = initNode h r := by
  unfold Go.init initNode
  apply modify_congr_at
  intro x hx
  simp only [rawNext, rawPrev, hx] at hn hp
  simp [hn, hp]

theorem Lazy.prev_none {h : Heap α} (hl : Lazy h) {r : Nat} (hn : rawNext h r = none) : rawPrev h r = none := by
  have := hl.2 r; rw [hn] at this
  cases hp : rawPrev h r with
  | none => rfl
  | some b => rw [hp] at this; simp at this

theorem Lazy.prev_some {h : Heap α} (hl : Lazy h) {r a : Nat} (hn : rawNext h r = some a) : ∃ b, rawPrev h r = some b := by
  have := hl.2 r; rw [hn] at this
  cases hp : rawPrev h r with
  | none => rw [hp] at this; simp at this
  | some b => exact ⟨b, rfl⟩

theorem Lazy.next_some_of_prev {h : Heap α} (hl : Lazy h) {r b : Nat} (hp : rawPrev h r = some b) : ∃ a, rawNext h r = some a := by
  have := hl.2 r; rw [hp] at this
  cases hn : rawNext h r with
  | none => rw [hn] at this; simp at this
  | some a => exact ⟨a, rfl⟩

theorem nx_of_raw {h : Heap α} {x y : Nat} (hx : rawNext h x = some y) : nx h x = y := by simp [nx, hx]
theorem pv_of_raw {h : Heap α} {x y : Nat} (hx : rawPrev h x = some y) : pv h x = y := by simp [pv, hx]
theorem nx_of_none {h : Heap α} {x : Nat} (hx : rawNext h x = none) : nx h x = x := by simp [nx, hx]
theorem pv_of_none {h : Heap α} {x : Nat} (hx : rawPrev h x = none) : pv h x = x := by simp [pv, hx]

/-- the successor of an initialised node is initialised (nobody points at a zero value) -/
theorem Lazy.next_target {h : Heap α} (hl : Lazy h) {x y : Nat} (hx : rawNext h x = some y) :
    ∃ z, rawNext h y = some z := by
  have hxl := raw_lt_of_some hx
  obtain ⟨_, _, hpn, _⟩ := hl.1 x hxl
  rw [nx_of_raw hx] at hpn
  cases hy : rawNext h y with
  | some z => exact ⟨z, rfl⟩
  | none =>
    have hpy := hl.prev_none hy
    rw [pv_of_none hpy] at hpn
    subst hpn
    rw [hy] at hx; cases hx

theorem Lazy.prev_target {h : Heap α} (hl : Lazy h) {x y : Nat} (hx : rawPrev h x = some y) :
    ∃ z, rawNext h y = some z := by
  obtain ⟨a, ha⟩ := hl.next_some_of_prev hx
  have hxl := raw_lt_of_some ha
  obtain ⟨_, _, _, hnp⟩ := hl.1 x hxl
  rw [pv_of_raw hx] at hnp
  cases hy : rawNext h y with
  | some z => exact ⟨z, rfl⟩
  | none =>
    rw [nx_of_none hy] at hnp
    subst hnp
    rw [hy] at ha; cases ha

/-! ### `Lazy` is preserved -/

theorem lazy_empty : Lazy (#[] : Heap α) := ⟨wf_empty, by intro x; simp [rawNext, rawPrev]⟩

theorem lazy_setVal {h : Heap α} (hl : Lazy h) (i : Nat) (v : α) : Lazy (setVal h i v) :=
  ⟨wf_setVal hl.1 i v, by intro x; simpa using hl.2 x⟩

theorem lazy_initNode {h : Heap α} (hl : Lazy h) (r : Nat) : Lazy (initNode h r) := by
  refine ⟨wf_initNode hl.1 r, ?_⟩
  intro x
  rw [rawNext_initNode, rawPrev_initNode]
  split
  · rfl
  · exact hl.2 x

theorem lazy_alloc {h : Heap α} (hl : Lazy h) (v : α) : Lazy (alloc h v).1 := by
  refine ⟨wf_alloc hl.1 v, ?_⟩
  intro x
  simp only [alloc, rawNext_push, rawPrev_push]
  split
  · rfl
  · exact hl.2 x

theorem lazy_link {h : Heap α} (hl : Lazy h) {r : Nat} (hr : r < h.size) (s : Option Nat)
    (hs : ∀ s', s = some s' → s' < h.size) : Lazy (link h r s).1 := by
  refine ⟨wf_link hl.1 hr s hs, ?_⟩
  cases s with
  | none => simpa using (lazy_initNode hl r).2
  | some s =>
    have hs := hs s rfl
    -- after initialising r and s, all four written nodes have both links set
    have l2 : Lazy (initNode (initNode h r) s) := lazy_initNode (lazy_initNode hl r) s
    have hrn : ∃ a, rawNext (initNode (initNode h r) s) r = some a := by
      rw [rawNext_initNode, rawNext_initNode]; simp only [size_initNode]
      by_cases h1 : r = s
      · simp [h1, hs]
      · simp [h1, hr]
    have hsn : ∃ a, rawNext (initNode (initNode h r) s) s = some a := by
      rw [rawNext_initNode]; simp [hs]
    obtain ⟨a1, ha1⟩ := hrn
    obtain ⟨a2, ha2⟩ := hsn
    have hn : nx h r = a1 := by have := nx_of_raw ha1; simpa using this
    obtain ⟨b2, hb2⟩ := l2.prev_some ha2
    have hp : pv h s = b2 := by have := pv_of_raw hb2; simpa using this
    obtain ⟨z1, hz1⟩ := l2.next_target ha1
    obtain ⟨z2, hz2⟩ := l2.prev_target hb2
    obtain ⟨y1, hy1⟩ := l2.prev_some hz1
    obtain ⟨y2, hy2⟩ := l2.prev_some hz2
    obtain ⟨b1, hb1⟩ := l2.prev_some ha1
    intro x
    rw [link_fst, hn, hp]
    simp only [rawNext_setNext, rawPrev_setNext, rawNext_setPrev, rawPrev_setPrev, size_setNext, size_setPrev]
    have hx := l2.2 x
    have f1 : (rawNext (initNode (initNode h r) s) r).isSome = true := by rw [ha1]; rfl
    have f2 : (rawPrev (initNode (initNode h r) s) r).isSome = true := by rw [hb1]; rfl
    have f3 : (rawNext (initNode (initNode h r) s) s).isSome = true := by rw [ha2]; rfl
    have f4 : (rawPrev (initNode (initNode h r) s) s).isSome = true := by rw [hb2]; rfl
    have f5 : (rawNext (initNode (initNode h r) s) a1).isSome = true := by rw [hz1]; rfl
    have f6 : (rawPrev (initNode (initNode h r) s) a1).isSome = true := by rw [hy1]; rfl
    have f7 : (rawNext (initNode (initNode h r) s) b2).isSome = true := by rw [hz2]; rfl
    have f8 : (rawPrev (initNode (initNode h r) s) b2).isSome = true := by rw [hy2]; rfl
    split_ifs <;> simp_all

theorem lazy_unlink {h : Heap α} (hl : Lazy h) {r : Nat} (hr : r < h.size) (n : Int) : Lazy (unlink h r n).1 := by
  by_cases hn : n ≤ 0
  · simp only [unlink, hn, if_true]; exact hl
  · rw [unlink_fst h r n hn]
    have h1 : r < (initNode h r).size := by simpa using hr
    have h2 : ∀ s', some (move h r (n + 1)) = some s' → s' < (initNode h r).size := by
      intro s' hs'; cases hs'; simpa using wf_move_lt hl.1 hr _
    exact lazy_link (lazy_initNode hl r) h1 (some (move h r (n + 1))) h2

theorem rawNext_oob {h : Heap α} {x : Nat} (hx : h.size ≤ x) : rawNext h x = none := by
  unfold rawNext; rw [Array.getElem?_eq_none hx]
theorem rawPrev_oob {h : Heap α} {x : Nat} (hx : h.size ≤ x) : rawPrev h x = none := by
  unfold rawPrev; rw [Array.getElem?_eq_none hx]

/-- raw view of the loop of `New`: old nodes other than `p` untouched; every new node has `prev`
set, and `next` set unless it is the last one (the result) -/
theorem newLoop_raw (v : α) (k : Nat) (h : Heap α) (p : Nat) (hp : p < h.size) :
    let res := newLoop v k h p
    res.1.size = h.size + k ∧
    res.2 < res.1.size ∧
    (k = 0 → res = (h, p)) ∧
    (0 < k → (rawNext res.1 p).isSome = true ∧ h.size ≤ res.2 ∧ rawNext res.1 res.2 = none) ∧
    (∀ x, x < h.size → x ≠ p → rawNext res.1 x = rawNext h x) ∧
    (∀ x, x < h.size → rawPrev res.1 x = rawPrev h x) ∧
    (∀ x, h.size ≤ x → x < h.size + k → (rawPrev res.1 x).isSome = true ∧ (x ≠ res.2 → (rawNext res.1 x).isSome = true)) := by
  induction k generalizing h p with
  | zero => simp [newLoop]; exact ⟨hp, fun x h1 h2 => by omega⟩
  | succ k ih =>
    simp only [newLoop]
    set q := h.size with hq
    set h1 := h.push { next := none, prev := some p, val := v } with hh1
    set h2 := setNext h1 p q with hh2
    have s1 : h1.size = h.size + 1 := by simp [hh1]
    have s2 : h2.size = h.size + 1 := by simp [hh2, s1]
    have hqlt : q < h2.size := by omega
    obtain ⟨i1, ib, i2, i3, i4, i5, i6⟩ := ih h2 q hqlt
    rw [s2] at i1 i3 i6
    have hpq : p ≠ q := by omega
    have rn2 : ∀ x, rawNext h2 x = if x = p then some q else if x = q then none else rawNext h x := by
      intro x
      rw [hh2, rawNext_setNext, hh1, rawNext_push]
      simp only [Array.size_push, show p < h.size + 1 by omega, and_true]
      rfl
    have rp2 : ∀ x, rawPrev h2 x = if x = q then some p else rawPrev h x := by
      intro x; rw [hh2, rawPrev_setNext, hh1, rawPrev_push]
    refine ⟨by omega, ib, by omega, fun _ => ?_, ?_, ?_, ?_⟩
    · by_cases hk : k = 0
      · have := i2 hk
        rw [this]
        refine ⟨by rw [rn2]; simp, Nat.le_refl _, by rw [rn2]; simp [hpq.symm]⟩
      · obtain ⟨j1, j2, j3⟩ := i3 (by omega)
        refine ⟨?_, by omega, j3⟩
        rw [i4 p (by omega) hpq, rn2]; simp
    · intro x hx hxp
      rw [i4 x (by omega) (by omega), rn2, if_neg hxp, if_neg (by omega)]
    · intro x hx
      rw [i5 x (by omega), rp2, if_neg (by omega)]
    · intro x hx1 hx2
      by_cases hxq : x = q
      · subst hxq
        refine ⟨by rw [i5 _ hqlt, rp2]; simp, ?_⟩
        intro hne
        by_cases hk : k = 0
        · have := i2 hk; rw [this] at hne; exact absurd rfl hne
        · exact (i3 (by omega)).1
      · exact i6 x (by omega) (by omega)

theorem lazy_new [Inhabited α] {h : Heap α} (hl : Lazy h) (n : Int) (v : α) : Lazy (Ring.new h n v).1 := by
  refine ⟨wf_new hl.1 n v, ?_⟩
  by_cases hn : n ≤ 0
  · simp only [Ring.new, hn, if_true]; exact hl.2
  · obtain ⟨k, hk⟩ : ∃ k : Nat, n = ((k + 1 : Nat) : Int) := ⟨(n - 1).toNat, by omega⟩
    subst hk
    have hk' : (((k + 1 : Nat) : Int)).toNat - 1 = k := by omega
    simp only [Ring.new, hn, if_false, hk']
    set r := h.size with hr
    set h0 := h.push { next := none, prev := none, val := v } with hh0
    have s0 : h0.size = h.size + 1 := by simp [hh0]
    obtain ⟨i1, ib, i2, i3, i4, i5, i6⟩ := newLoop_raw v k h0 r (by omega)
    rw [s0] at i1 i3 i6
    generalize hres : newLoop v k h0 r = res at i1 ib i2 i3 i4 i5 i6
    obtain ⟨h1, p⟩ := res
    simp only at i1 ib i2 i3 i4 i5 i6 ⊢
    have hpr : r ≤ p := by
      by_cases hk0 : k = 0
      · have := i2 hk0; cases this; exact Nat.le_refl _
      · have := (i3 (by omega)).2.1; omega
    have rn0 : ∀ x, rawNext h0 x = if x = r then none else rawNext h x := by
      intro x; rw [hh0, rawNext_push]
    have rp0 : ∀ x, rawPrev h0 x = if x = r then none else rawPrev h x := by
      intro x; rw [hh0, rawPrev_push]
    intro x
    rw [rawNext_setPrev, rawNext_setNext, rawPrev_setPrev, rawPrev_setNext]
    simp only [size_setNext, ib, and_true, show r < h1.size by omega]
    by_cases hx0 : x < r
    · rw [if_neg (by omega), if_neg (by omega), i4 x (by omega) (by omega), i5 x (by omega), rn0, rp0,
        if_neg (by omega), if_neg (by omega)]
      exact hl.2 x
    · by_cases hxr : x = r
      · subst hxr
        rw [if_pos rfl]
        by_cases hpx : r = p
        · rw [if_pos hpx]; rfl
        · rw [if_neg hpx]
          have hk0 : 0 < k := by
            rcases Nat.eq_zero_or_pos k with hk0 | hk0
            · have := i2 hk0; cases this; exact absurd rfl hpx
            · exact hk0
          rw [(i3 hk0).1]; rfl
      · rw [if_neg hxr]
        by_cases hxs : x < h1.size
        · obtain ⟨j1, j2⟩ := i6 x (by omega) (by omega)
          rw [j1]
          by_cases hxp : x = p
          · rw [if_pos hxp]; rfl
          · rw [if_neg hxp, j2 hxp]
        · have hpx : x ≠ p := by omega
          rw [if_neg hpx, rawNext_oob (by omega), rawPrev_oob (by omega)]

/-! ### the Go layer equals the logical layer (and hence never panics) -/

@[simp] theorem outcome_bind_ok {β γ : Type} (a : β) (f : β → Outcome γ) : (Outcome.ok a >>= f) = f a := rfl
@[simp] theorem outcome_pure {β : Type} (a : β) : (pure a : Outcome β) = Outcome.ok a := rfl

theorem go_next_eq {h : Heap α} (hl : Lazy h) (r : Nat) : Go.next h r = .ok (initNode h r, nx h r) := by
  unfold Go.next
  cases hn : rawNext h r with
  | none => simp only; rw [init_eq_initNode hn (hl.prev_none hn), nx_of_none hn]
  | some a =>
    obtain ⟨b, hb⟩ := hl.prev_some hn
    simp only; rw [initNode_of_inited hn hb, nx_of_raw hn]

theorem go_prev_eq {h : Heap α} (hl : Lazy h) (r : Nat) : Go.prev h r = .ok (initNode h r, pv h r) := by
  unfold Go.prev
  cases hn : rawNext h r with
  | none =>
    have hp := hl.prev_none hn
    simp only; rw [init_eq_initNode hn hp, pv_of_none hp]
  | some a =>
    obtain ⟨b, hb⟩ := hl.prev_some hn
    simp only [hb, Go.deref, outcome_bind_ok, outcome_pure]
    rw [initNode_of_inited hn hb, pv_of_raw hb]

theorem go_walk_next {h : Heap α} (hl : Lazy h) (what : String) (k r : Nat) (a : Nat) (hr : rawNext h r = some a) :
    Go.walk h rawNext what k r = .ok (iter (nx h) k r) := by
  induction k generalizing r a with
  | zero => rfl
  | succ k ih =>
    obtain ⟨z, hz⟩ := hl.next_target hr
    simp only [Go.walk, hr, Go.deref, outcome_bind_ok, iter_succ, nx_of_raw hr]
    exact ih a z hz

theorem go_walk_prev {h : Heap α} (hl : Lazy h) (what : String) (k r : Nat) (a : Nat) (hr : rawNext h r = some a) :
    Go.walk h rawPrev what k r = .ok (iter (pv h) k r) := by
  induction k generalizing r a with
  | zero => rfl
  | succ k ih =>
    obtain ⟨b, hb⟩ := hl.prev_some hr
    obtain ⟨z, hz⟩ := hl.prev_target hb
    simp only [Go.walk, hb, Go.deref, outcome_bind_ok, iter_succ, pv_of_raw hb]
    exact ih b z hz

theorem iter_fixed {f : Nat → Nat} {r : Nat} (hf : f r = r) (k : Nat) : iter f k r = r := by
  induction k with
  | zero => rfl
  | succ k ih => rw [iter_succ, hf, ih]

theorem go_move_eq {h : Heap α} (hl : Lazy h) (r : Nat) (n : Int) : Go.move h r n = .ok (initNode h r, move h r n) := by
  unfold Go.move
  cases hn : rawNext h r with
  | none =>
    have hp := hl.prev_none hn
    simp only; rw [init_eq_initNode hn hp]
    unfold move
    split
    · rw [iter_fixed (pv_of_none hp)]
    · rw [iter_fixed (nx_of_none hn)]
  | some a =>
    obtain ⟨b, hb⟩ := hl.prev_some hn
    simp only
    unfold move
    split
    · rw [go_walk_prev hl _ _ r a hn]; simp [initNode_of_inited hn hb]
    · rw [go_walk_next hl _ _ r a hn]; simp [initNode_of_inited hn hb]

theorem go_link_eq {h : Heap α} (hl : Lazy h) (r : Nat) (s : Option Nat) : Go.link h r s = .ok (link h r s) := by
  unfold Go.link link
  rw [go_next_eq hl r]
  cases s with
  | none => simp
  | some s =>
    simp only [outcome_bind_ok]
    rw [go_prev_eq (lazy_initNode hl r) s]
    simp

theorem go_unlink_eq {h : Heap α} (hl : Lazy h) (r : Nat) (n : Int) : Go.unlink h r n = .ok (unlink h r n) := by
  unfold Go.unlink unlink
  split
  · rfl
  · rw [go_move_eq hl r]
    simp only [outcome_bind_ok]
    rw [go_link_eq (lazy_initNode hl r)]
    simp

theorem lenLoop_congr {h h' : Heap α} (hn : ∀ x, nx h' x = nx h x) (r fuel p acc : Nat) :
    lenLoop h' r fuel p acc = lenLoop h r fuel p acc := by
  induction fuel generalizing p acc with
  | zero => rfl
  | succ f ih => simp only [lenLoop, hn, ih]

theorem doLoop_congr [Inhabited α] {h h' : Heap α} (hn : ∀ x, nx h' x = nx h x) (hv : ∀ x, vl h' x = vl h x)
    (r fuel p : Nat) (acc : List α) : doLoop h' r fuel p acc = doLoop h r fuel p acc := by
  induction fuel generalizing p acc with
  | zero => rfl
  | succ f ih => simp only [doLoop, hn, hv, ih]

theorem go_lenLoop_eq {h : Heap α} (hl : Lazy h) (r fuel p acc : Nat) (a : Nat) (hp : rawNext h p = some a) :
    Go.lenLoop h r fuel p acc = .ok (lenLoop h r fuel p acc) := by
  induction fuel generalizing p acc a with
  | zero => rfl
  | succ f ih =>
    obtain ⟨z, hz⟩ := hl.next_target hp
    simp only [Go.lenLoop, lenLoop]
    split
    · rfl
    · simp only [hp, Go.deref, outcome_bind_ok, nx_of_raw hp]
      exact ih a (acc + 1) z hz

theorem go_doLoop_eq [Inhabited α] {h : Heap α} (hl : Lazy h) (r fuel p : Nat) (acc : List α) (a : Nat)
    (hp : rawNext h p = some a) : Go.doLoop h r fuel p acc = .ok (doLoop h r fuel p acc) := by
  induction fuel generalizing p acc a with
  | zero => rfl
  | succ f ih =>
    obtain ⟨z, hz⟩ := hl.next_target hp
    simp only [Go.doLoop, doLoop]
    split
    · rfl
    · simp only [hp, Go.deref, outcome_bind_ok, nx_of_raw hp]
      exact ih a (vl h p :: acc) z hz

theorem inited_after_init {h : Heap α} (hl : Lazy h) {r : Nat} (hr : r < h.size) :
    ∃ z, rawNext (initNode h r) (nx h r) = some z := by
  have h1 : rawNext (initNode h r) r = some (nx h r) := by rw [rawNext_initNode]; simp [hr]
  exact (lazy_initNode hl r).next_target h1

theorem go_len_eq {h : Heap α} (hl : Lazy h) {r : Nat} (hr : r < h.size) :
    Go.len h (some r) = .ok (initNode h r, len h r) := by
  obtain ⟨z, hz⟩ := inited_after_init hl hr
  simp only [Go.len, go_next_eq hl r, outcome_bind_ok]
  rw [go_lenLoop_eq (lazy_initNode hl r) r _ _ 1 z hz]
  simp only [outcome_bind_ok, outcome_pure, size_initNode]
  rw [lenLoop_congr (h := h) (by simp)]
  rfl

theorem go_do_eq [Inhabited α] {h : Heap α} (hl : Lazy h) {r : Nat} (hr : r < h.size) :
    Go.doAll h (some r) = .ok (initNode h r, doAll h (some r)) := by
  obtain ⟨z, hz⟩ := inited_after_init hl hr
  simp only [Go.doAll, go_next_eq hl r, outcome_bind_ok]
  rw [go_doLoop_eq (lazy_initNode hl r) r _ _ _ z hz]
  simp only [outcome_bind_ok, outcome_pure, size_initNode]
  rw [doLoop_congr (h := h) (by simp) (by simp)]
  rfl

/-- `Do` calls `f` exactly `Len` times (any heap, initialised or not: the two loops run in lockstep) -/
theorem doLoop_length [Inhabited α] (h : Heap α) (r fuel p : Nat) (acc : List α) :
    (doLoop h r fuel p acc).length = lenLoop h r fuel p acc.length := by
  induction fuel generalizing p acc with
  | zero => simp [doLoop, lenLoop]
  | succ f ih =>
    simp only [doLoop, lenLoop]
    split
    · simp
    · rw [ih]; simp

theorem doAll_length [Inhabited α] (h : Heap α) (r : Nat) : (doAll h (some r)).length = len h r := by
  unfold doAll len
  rw [doLoop_length]; rfl

/-- an uninitialised (zero-value) node *is* a one-element ring -/
theorem isRing_of_uninit {h : Heap α} (hl : Lazy h) {r : Nat} (hr : r < h.size) (hn : rawNext h r = none) :
    IsRing h [r] := by
  refine ⟨trivial, ?_, ?_, by simp, by simpa using hr⟩
  · simpa using nx_of_none hn
  · simpa using pv_of_none (hl.prev_none hn)

end Kit.Ring
