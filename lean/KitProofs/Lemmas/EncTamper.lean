/-
What `Decrypt`'s loop can release from an arbitrary (adversarial) payload, under an explicit
no-forgery hypothesis about this run.
-/
import KitModel.Enc
import KitProofs.Lemmas.EncLoop
import KitProofs.Lemmas.EncSegs
import KitProofs.Lemmas.EncHeader
import KitProofs.Lemmas.EncDecrypt

namespace Kit.Enc
open Kit

/-- Segment-level no-forgery **about this run**: of the pieces `segs'` the loop is going to present
    (numbered from `i`, with the flags the loop derives), one can only open under the honest payload
    key and nonce prefix if it is the honest segment of that position, and then the presented flag is
    the honest flag.  (A statement about all byte strings would contradict `Lawful`: whoever holds
    the key can seal anything.) -/
def PresentedNoForgery (c : Crypto) (P : EncParams) (cph : Nat) (pk np : Bytes) (segs : List (Bytes × Bool)) :
    List (Bytes × Bool) → Nat → Prop
  | [], _ => True
  | (x, last) :: t, i =>
    (∀ q, c.aopen cph pk (nonceFor P np i last) x = some q →
      ∃ h : i < segs.length, x = c.aseal cph pk (nonceFor P np i (segs[i]).2) (segs[i]).1 ∧ last = (segs[i]).2) ∧
    PresentedNoForgery c P cph pk np segs t (i + 1)

/-- Plaintext from segment `i` on. -/
def tailFrom (segs : List (Bytes × Bool)) (i : Nat) : Bytes := ((segs.drop i).map (·.1)).flatten

theorem tailFrom_step (segs : List (Bytes × Bool)) (i : Nat) (h : i < segs.length) :
    tailFrom segs i = (segs[i]).1 ++ tailFrom segs (i + 1) := by
  unfold tailFrom
  rw [List.drop_eq_getElem_cons h, List.map_cons, List.flatten_cons]

theorem tailFrom_end (segs : List (Bytes × Bool)) (i : Nat) (h : segs.length ≤ i) : tailFrom segs i = [] := by
  unfold tailFrom
  rw [List.drop_of_length_le h]; rfl

theorem shape_last_index (S : Nat) : ∀ (segs : List (Bytes × Bool)) (i : Nat) (h : i < segs.length),
    Shape S segs → (segs[i]).2 = true → i + 1 = segs.length := by
  intro segs
  induction segs with
  | nil => intro i h; simp at h
  | cons a t ih =>
    intro i h hsh hl
    obtain ⟨d, l⟩ := a
    cases t with
    | nil => simp at h; simp [h]
    | cons x xs =>
      obtain ⟨hl0, _, hrest⟩ := hsh
      cases i with
      | zero => simp at hl; rw [hl0] at hl; cases hl
      | succ j =>
        have := ih j (by simpa using h) hrest (by simpa using hl)
        simp only [List.length_cons] at this ⊢
        omega

theorem runSegs_cons_last (m : Nat) (fn : ProcFn) (d : Bytes) (rest) (i : Nat) (fin) :
    runSegs m fn ((d, true) :: rest) i fin =
      match fn d i true with
      | .error e => ⟨[(d, i, true)], [], .err e⟩
      | .ok o => ⟨[(d, i, true)], o, .ok⟩ := by
  simp only [runSegs]
  cases fn d i true <;> simp

theorem shape_tail (S : Nat) (d : Bytes) (rest : List (Bytes × Bool)) (h : Shape S ((d, false) :: rest)) :
    rest ≠ [] ∧ Shape S rest := by
  cases rest with
  | nil => obtain ⟨h1, _⟩ := h; cases h1
  | cons x xs => exact ⟨by simp, h.2.2⟩

/-- Everything the decrypting loop releases is a prefix of the honest plaintext (from the current
    position); if it ends cleanly after a well-shaped non-empty list it released all of it; and it
    can end cleanly under a failing source only through a segment flagged last. -/
theorem runSegs_tamper (c : Crypto) (P : EncParams) (cph : Nat) (pk np : Bytes) (S S' : Nat)
    (lc : c.LawfulFor P pk np) (segs : List (Bytes × Bool)) (hsh : Shape S segs)
    (fin : Terminal) :
    ∀ (segs' : List (Bytes × Bool)) (i : Nat), PresentedNoForgery c P cph pk np segs segs' i →
      (∃ rest, (runSegs P.maxSeg (decryptSeg c P cph pk np) segs' i fin).out ++ rest = tailFrom segs i) ∧
      ((runSegs P.maxSeg (decryptSeg c P cph pk np) segs' i fin).term = .ok → Shape S' segs' → segs' ≠ [] →
        (runSegs P.maxSeg (decryptSeg c P cph pk np) segs' i fin).out = tailFrom segs i) ∧
      ((runSegs P.maxSeg (decryptSeg c P cph pk np) segs' i fin).term = .ok → fin ≠ .ok →
        ∃ x ∈ segs', x.2 = true) := by
  intro segs'
  induction segs' with
  | nil =>
    intro i _
    refine ⟨⟨tailFrom segs i, rfl⟩, fun _ _ h => absurd rfl h, fun h hf => ?_⟩
    rw [runSegs_nil] at h; exact absurd h hf
  | cons a t ih =>
    intro i nf
    obtain ⟨x, last⟩ := a
    -- what the process function does with this element
    cases hfn : decryptSeg c P cph pk np x i last with
    | error e =>
      have hR : runSegs P.maxSeg (decryptSeg c P cph pk np) ((x, last) :: t) i fin = ⟨[(x, i, last)], [], .err e⟩ := by
        simp [runSegs, hfn]
      rw [hR]
      refine ⟨⟨tailFrom segs i, rfl⟩, ?_, ?_⟩ <;> intro h <;> simp at h
    | ok q =>
      -- it opened: it is the honest segment i
      have hopen : c.aopen cph pk (nonceFor P np i last) x = some q := by
        unfold decryptSeg at hfn
        by_cases he : x.isEmpty = true
        · simp [he] at hfn
        · simp only [he, Bool.false_eq_true, if_false] at hfn
          cases ho : c.aopen cph pk (nonceFor P np i last) x with
          | none => rw [ho] at hfn; cases hfn
          | some q' => rw [ho] at hfn; cases hfn; rfl
      obtain ⟨hi, hx, hlast⟩ := nf.1 q hopen
      have hq : q = (segs[i]).1 := by
        have h2 := hopen
        rw [hx, hlast, lc.open_seal] at h2; cases h2; rfl
      have hstep := tailFrom_step segs i hi
      cases hl : last with
      | true =>
        have hR : runSegs P.maxSeg (decryptSeg c P cph pk np) ((x, last) :: t) i fin = ⟨[(x, i, true)], q, .ok⟩ := by
          subst hl; rw [runSegs_cons_last, hfn]
        have hend : tailFrom segs (i + 1) = [] :=
          tailFrom_end segs (i + 1) (by
            have := shape_last_index S segs i hi hsh (by rw [← hlast, hl]); omega)
        rw [← hl, hR]
        refine ⟨⟨[], by rw [hstep, hend, hq]⟩, fun _ _ _ => by rw [hstep, hend, hq, List.append_nil], fun _ _ => ?_⟩
        exact ⟨(x, last), by simp, by simp [hl]⟩
      | false =>
        by_cases hmax : i = P.maxSeg
        · have hR : runSegs P.maxSeg (decryptSeg c P cph pk np) ((x, last) :: t) i fin = ⟨[(x, i, false)], q, .err .tooLarge⟩ := by
            subst hl; rw [runSegs_cons_nonlast, hfn]; simp [hmax]
          rw [← hl, hR]
          refine ⟨⟨tailFrom segs (i + 1), by rw [hstep, hq]⟩, ?_, ?_⟩ <;> intro h <;> simp at h
        · have hR : runSegs P.maxSeg (decryptSeg c P cph pk np) ((x, last) :: t) i fin =
              (runSegs P.maxSeg (decryptSeg c P cph pk np) t (i + 1) fin).cons (x, i, false) q := by
            subst hl; rw [runSegs_cons_nonlast, hfn]; simp [hmax]
          obtain ⟨⟨rest, hrest⟩, hok, hfail⟩ := ih (i + 1) nf.2
          rw [← hl, hR]
          simp only [PSResult.cons]
          refine ⟨⟨rest, by rw [List.append_assoc, hrest, hstep, hq]⟩, fun hterm hshape _ => ?_, fun hterm hf => ?_⟩
          · have hsh' : Shape S' ((x, false) :: t) := by rw [← hl]; exact hshape
            obtain ⟨hne, hst⟩ := shape_tail S' x t hsh'
            rw [hok hterm hst hne, hstep, hq]
          · obtain ⟨y, hy, hy2⟩ := hfail hterm hf
            exact ⟨y, by simp [hy], hy2⟩

/-- All flags are false after dropping the final element of a well-shaped list. -/
theorem shape_dropLast_flags (S : Nat) : ∀ (segs : List (Bytes × Bool)), Shape S segs →
    ∀ x ∈ segs.dropLast, x.2 = false := by
  intro segs
  induction segs with
  | nil => intro _ x hx; simp at hx
  | cons a t ih =>
    intro hsh x hx
    obtain ⟨d, l⟩ := a
    cases t with
    | nil => simp at hx
    | cons y ys =>
      obtain ⟨hl, _, hrest⟩ := hsh
      rw [dropLast_cons_of_ne_nil _ _ (by simp)] at hx
      rcases List.mem_cons.mp hx with h | h
      · rw [h]; exact hl
      · exact ih hrest x h


/-- For any process function: a clean end with a non-clean `fin` needs a segment flagged last. -/
theorem runSegs_ok_needs_last (m : Nat) (fn : ProcFn) (fin : Terminal) (hfin : fin ≠ .ok) :
    ∀ (segs : List (Bytes × Bool)) (i : Nat), (runSegs m fn segs i fin).term = .ok → ∃ x ∈ segs, x.2 = true := by
  intro segs
  induction segs with
  | nil => intro i h; rw [runSegs_nil] at h; exact absurd h hfin
  | cons a t ih =>
    intro i h
    obtain ⟨d, l⟩ := a
    cases l with
    | true => exact ⟨(d, true), by simp, rfl⟩
    | false =>
      rw [runSegs_cons_nonlast] at h
      cases hfn : fn d i false with
      | error e => rw [hfn] at h; simp at h
      | ok o =>
        rw [hfn] at h
        simp only [] at h
        by_cases hm : i = m
        · simp [hm] at h
        · simp only [hm, if_false, PSResult.cons] at h
          obtain ⟨x, hx, hx2⟩ := ih (i + 1) h
          exact ⟨x, by simp [hx], hx2⟩

/-- The honest sealed segments themselves satisfy the no-forgery hypothesis (non-vacuity), from
    any position on. -/
theorem presented_honest (c : Crypto) (P : EncParams) (cph : Nat) (pk np : Bytes) :
    ∀ (tail pre : List (Bytes × Bool)),
      PresentedNoForgery c P cph pk np (pre ++ tail) (sealedSegs c P cph pk np pre.length tail) pre.length := by
  intro tail
  induction tail with
  | nil => intro pre; trivial
  | cons a t ih =>
    intro pre
    obtain ⟨d, l⟩ := a
    rw [sealedSegs_cons]
    refine ⟨fun q _ => ⟨by simp, ?_, ?_⟩, ?_⟩
    · simp
    · simp
    · have := ih (pre ++ [(d, l)])
      simpa [List.append_assoc] using this


/-- The cryptographic assumption, as a hypothesis **about one run** of `Decrypt` (source `r`,
    options `o`) against the honest document of `(fk, m, p)`:
    * `header` — if `UnwrapKeyFn` **succeeded** in this run (no error, a key of `fkLen` bytes) and the
      header this run reads verifies under the key it returned, then that key is the honest file key and
      the manifest carries the honest nonce prefix and cipher. Nothing is assumed about the all-zero key
      `Decrypt` substitutes when the unwrap fails: that key is public, anyone can MAC a header under it
      (`zero_key_forgery_witness`); the code has to refuse such runs by itself (`bad_unwrap_never_ok`);
    * `seg` — of the pieces this run presents to the AEAD, only honest segments at their own position
      and with their own finality flag open.
    Nothing is assumed about byte strings that do not occur in the run. -/
structure NoForgery (c : Crypto) (cd : Codec) (P : EncParams) (fk : Bytes) (m : Manifest) (p : Bytes)
    (o : DecryptOpts) (r : Reader) : Prop where
  header : ∀ ml cl r' m' kn, readHeader P r = .ok (ml, cl, r') → cd.parse ml = some m' →
    unwrapFailed true P o m' kn = false →
    verifyHeader c cd P (o.unwrap m' kn) ml cl = none →
    o.unwrap m' kn = fk ∧ m'.np = m.np ∧ m'.cph = m.cph
  seg : ∀ ml cl r', readHeader P r = .ok (ml, cl, r') →
    PresentedNoForgery c P m.cph (payloadKey c P fk m.np) m.np (segments P.segSize p)
      (confirmed (P.segSize + P.overhead) r' none) 0

/-- Unfolding of `Decrypt` after a successful `readHeader`. -/
theorem decryptWith_ok (b rf : Bool) (c : Crypto) (cd : Codec) (P : EncParams) (o : DecryptOpts) (r : Reader)
    (ml cl : Bytes) (r' : Reader) (h : readHeaderWith b P r = .ok (ml, cl, r')) :
    decryptWith b rf c cd P o r =
      match cd.parse ml with
      | none => ([], .err .invalidManifest)
      | some m =>
        if !m.valid P then ([], .err .invalidManifest)
        else if (if o.keyName.isEmpty then m.keyName else o.keyName).isEmpty then ([], .err .keyMissing)
        else
          match verifyHeader c cd P (effKey rf P o m (if o.keyName.isEmpty then m.keyName else o.keyName)) ml cl with
          | some e => ([], .err e)
          | none =>
            if rf && unwrapFailed rf P o m (if o.keyName.isEmpty then m.keyName else o.keyName) then ([], .err .signature)
            else
            ((processSegments (P.segSize + P.overhead) P.maxSeg
                (decryptSeg c P m.cph (payloadKey c P (effKey rf P o m (if o.keyName.isEmpty then m.keyName else o.keyName)) m.np) m.np) r').out,
             (processSegments (P.segSize + P.overhead) P.maxSeg
                (decryptSeg c P m.cph (payloadKey c P (effKey rf P o m (if o.keyName.isEmpty then m.keyName else o.keyName)) m.np) m.np) r').term) := by
  unfold decryptWith
  rw [h]
  rfl

theorem decryptWith_err (b rf : Bool) (c : Crypto) (cd : Codec) (P : EncParams) (o : DecryptOpts) (r : Reader)
    (e : Err) (h : readHeaderWith b P r = .error e) : decryptWith b rf c cd P o r = ([], .err e) := by
  unfold decryptWith
  rw [h]

end Kit.Enc
