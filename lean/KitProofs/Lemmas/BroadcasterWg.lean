import KitModel.BroadcasterWg
/-! Invariants and the progress measure of the fine-grained lock / WaitGroup model (C11). -/
namespace Kit.Broadcaster.Wg

/-- Invariant of the code as it is (`Acct.perChannel`). -/
structure Inv (s : State) : Prop where
  wgCount : s.wg = s.inLoop + s.wantLock
  casClosed : 0 < s.closePre + s.closePost + s.closeReturned → s.closed = true
  chClosed : s.closeCh = true → s.closed = true
  atLock : s.closedAtLock = true → s.closed = true
  call : ∀ r, s.lock = some (.sub r) →
    s.reg + s.skipped + r = s.callN ∧ (0 < s.skipped → s.closed = true) ∧
    (s.closedAtLock = true → s.reg = 0)
  after : s.lock = none ∨ (∃ b, s.lock = some (.bc b)) →
    s.reg + s.skipped = s.callN ∧ (0 < s.skipped → s.closed = true) ∧
    (s.closedAtLock = true → s.reg = 0)

theorem inv_init : Inv init := by
  constructor <;> simp [init]

theorem inv_step {s s' : State} {l : Label} (hi : Inv s) (hs : step .perChannel s l = some s') :
    Inv s' := by
  obtain ⟨h1, h2, h3, h4, h5, h6⟩ := hi
  cases l with
  | subCall n =>
    simp [step] at hs; subst hs
    exact ⟨h1, h2, h3, h4, h5, h6⟩
  | subLock k =>
    simp only [step, subLock] at hs
    split at hs
    · next n hl hk =>
      simp at hs; subst hs
      refine ⟨h1, h2, h3, by simp, ?_, ?_⟩
      · intro r hr; simp at hr; subst hr; simp
      · simp
    · simp at hs
  | subChan =>
    simp only [step, subChan] at hs
    split at hs
    · next r hl =>
      have ⟨c1, c2, c3⟩ := h5 (r + 1) hl
      split at hs
      · next hc =>
        simp at hs; subst hs
        refine ⟨h1, h2, h3, h4, ?_, ?_⟩
        · intro r' hr'; simp at hr'; subst hr'
          exact ⟨by simp; omega, fun _ => hc, c3⟩
        · simp
      · next hc =>
        simp at hs; subst hs
        have hcal : s.closedAtLock = false := by
          cases h : s.closedAtLock with
          | false => rfl
          | true => exact absurd (h4 h) hc
        refine ⟨by simp; omega, h2, h3, h4, ?_, ?_⟩
        · intro r' hr'; simp at hr'; subst hr'
          refine ⟨by simp; omega, ?_, by simp [hcal]⟩
          intro hsk; exact c2 hsk
        · simp
    · simp at hs
  | subUnlock =>
    simp only [step, subUnlock] at hs
    split at hs
    · next hl =>
      have ⟨c1, c2, c3⟩ := h5 0 hl
      simp at hs; subst hs
      exact ⟨h1, h2, h3, h4, by simp, fun _ => ⟨by simpa using c1, c2, c3⟩⟩
    · simp at hs
  | bcLock b =>
    simp only [step, bcLock] at hs
    split at hs
    · next hl =>
      simp at hs; subst hs
      exact ⟨h1, h2, h3, h4, by simp, fun _ => h6 (Or.inl hl)⟩
    · simp at hs
  | bcUnlock =>
    simp only [step, bcUnlock] at hs
    split at hs
    · next b hl =>
      split at hs
      · simp at hs; subst hs
        exact ⟨h1, h2, h3, h4, by simp, fun _ => h6 (Or.inr ⟨b, hl⟩)⟩
      · simp at hs
    · simp at hs
  | fwdExitCtx =>
    simp only [step, fwdExitCtx] at hs
    split at hs
    · simp at hs; subst hs
      exact ⟨by simp; omega, h2, h3, h4, h5, h6⟩
    · simp at hs
  | fwdExitClose =>
    simp only [step, fwdExitClose] at hs
    split at hs
    · simp at hs; subst hs
      exact ⟨by simp; omega, h2, h3, h4, h5, h6⟩
    · simp at hs
  | fwdRemove =>
    simp only [step, fwdRemove] at hs
    split at hs
    · next hl =>
      split at hs
      · simp at hs; subst hs
        exact ⟨by simp; omega, h2, h3, h4, by simp [hl], fun _ => h6 (Or.inl hl)⟩
      · simp at hs
    · simp at hs
  | closeCall =>
    simp [step, closeCall] at hs; subst hs
    exact ⟨h1, h2, h3, h4, h5, h6⟩
  | closeCas =>
    simp only [step, closeCas] at hs
    split at hs
    · simp at hs; subst hs
      refine ⟨h1, by simp, by simp, by simp, ?_, ?_⟩
      · intro r hr
        have ⟨c1, c2, c3⟩ := h5 r hr
        exact ⟨c1, by simp, c3⟩
      · intro hl
        have ⟨c1, c2, c3⟩ := h6 hl
        exact ⟨c1, by simp, c3⟩
    · simp at hs
  | closeChClose =>
    simp only [step, closeChClose] at hs
    split at hs
    · next hc =>
      simp at hs; subst hs
      exact ⟨h1, h2, fun _ => hc.1, h4, h5, h6⟩
    · simp at hs
  | closePass =>
    simp only [step, closePass] at hs
    split at hs
    · split at hs
      · next hc =>
        simp at hs; subst hs
        refine ⟨h1, ?_, h3, h4, h5, h6⟩
        intro _; exact h2 (by omega)
      · simp at hs
    · simp at hs
  | closeReturn =>
    simp only [step, closeReturn] at hs
    split at hs
    · next hc =>
      simp at hs; subst hs
      refine ⟨h1, ?_, h3, h4, h5, h6⟩
      intro _; exact h2 (by omega)
    · simp at hs

theorem inv_reach {s : State} (hr : Reach .perChannel s) : Inv s := by
  induction hr with
  | init => exact inv_init
  | step l _ hs ih => exact inv_step ih hs

/-! ### progress -/

def muLock : Option Holder → Nat
  | none => 0
  | some (.sub r) => 4 * r + 1
  | some (.bc _) => 1

def mu (s : State) : Nat :=
  muLock s.lock + 2 * s.closeNew + s.closePre + (if s.closeCh then 0 else 1) + 2 * s.inLoop + s.wantLock

/-- While a `Close` is pending and cannot return yet, some internal step makes `mu` smaller. -/
theorem progress_step {s : State} (hi : Inv s) (hp : closePending s)
    (hn : step .perChannel s .closeReturn = none) :
    ∃ l s', l.internal = true ∧ step .perChannel s l = some s' ∧ mu s' < mu s := by
  obtain ⟨h1, h2, h3, h4, h5, h6⟩ := hi
  simp only [closePending] at hp
  cases hl : s.lock with
  | some h =>
    cases h with
    | sub r =>
      cases r with
      | succ r =>
        by_cases hc : s.closed = true
        · exact ⟨.subChan, _, rfl, by simp [step, subChan, hl, hc]; rfl, by simp [mu, muLock, hl]⟩
        · exact ⟨.subChan, _, rfl, by simp [step, subChan, hl, hc]; rfl, by simp [mu, muLock, hl]; omega⟩
      | zero =>
        exact ⟨.subUnlock, _, rfl, by simp [step, subUnlock, hl]; rfl, by simp [mu, muLock, hl]⟩
    | bc b =>
      by_cases hb : b = false ∨ s.closeCh = true
      · exact ⟨.bcUnlock, _, rfl, by simp [step, bcUnlock, hl, hb]; rfl, by simp [mu, muLock, hl]⟩
      · have hch : s.closeCh = false := by
          cases h : s.closeCh with
          | false => rfl
          | true => exact absurd (Or.inr h) hb
        by_cases hnew : 0 < s.closeNew
        · exact ⟨.closeCas, _, rfl, by simp [step, closeCas, hnew]; rfl, by simp [mu, hl]; omega⟩
        · have hcl : s.closed = true := h2 (by omega)
          exact ⟨.closeChClose, _, rfl, by simp [step, closeChClose, hcl, hch]; rfl,
            by simp [mu, hl, hch]⟩
  | none =>
    by_cases hnew : 0 < s.closeNew
    · exact ⟨.closeCas, _, rfl, by simp [step, closeCas, hnew]; rfl, by simp [mu, hl]; omega⟩
    · have hcl : s.closed = true := h2 (by omega)
      cases hch : s.closeCh with
      | false =>
        exact ⟨.closeChClose, _, rfl, by simp [step, closeChClose, hcl, hch]; rfl,
          by simp [mu, hl, hch]⟩
      | true =>
        by_cases hin : 0 < s.inLoop
        · exact ⟨.fwdExitClose, _, rfl, by simp [step, fwdExitClose, hin, hch]; rfl,
            by simp [mu, hl, hch]; omega⟩
        · by_cases hw : 0 < s.wantLock
          · exact ⟨.fwdRemove, _, rfl, by simp [step, fwdRemove, hl, hw]; rfl,
              by simp [mu, hl, hch]; omega⟩
          · by_cases hpre : 0 < s.closePre
            · exact ⟨.closePass, _, rfl, by simp [step, closePass, hl, hpre, hch]; rfl,
                by simp [mu, hl, hch]; omega⟩
            · exfalso
              have hwg : s.wg = 0 := by omega
              have hpost : 0 < s.closePost := by omega
              simp [step, closeReturn, hwg, hpost] at hn

theorem pending_internal {a : Acct} {s s' : State} {l : Label} (hl : l.internal = true)
    (hs : step a s l = some s') :
    s'.closeNew + s'.closePre + s'.closePost = s.closeNew + s.closePre + s.closePost := by
  cases l <;> simp [Label.internal] at hl <;>
    simp only [step, subLock, subChan, subUnlock, bcUnlock, fwdExitClose, fwdRemove, closeCas,
      closeChClose, closePass] at hs <;>
    (repeat' split at hs) <;> (try simp at hs) <;> (try subst hs) <;> (try simp) <;> (try omega)

theorem Path.trans {a : Acct} {ok : Label → Prop} {s s' s'' : State}
    (p : Path a ok s s') (q : Path a ok s' s'') : Path a ok s s'' := by
  induction p with
  | refl _ => exact q
  | cons l hl hs _ ih => exact Path.cons l hl hs (ih q)

theorem reach_of_run (a : Acct) : ∀ (ls : List Label) (s s' : State), Reach a s →
    runLabels a s ls = some s' → Reach a s'
  | [], s, s', hr, h => by simp [runLabels] at h; subst h; exact hr
  | l :: ls, s, s', hr, h => by
    simp only [runLabels] at h
    split at h
    · next s1 h1 => exact reach_of_run a ls s1 s' (Reach.step l hr h1) h
    · simp at h

/-! ### the hoisted `wg.Add(len(ch))` -/

/-- Units of the WaitGroup that no forwarder (started or still to be started by the running call)
will ever give back. -/
def leak (s : State) : Nat := s.wg - (s.inLoop + s.wantLock + rem s)

def HInv (s : State) : Prop := s.inLoop + s.wantLock + rem s ≤ s.wg

theorem hinv_init : HInv init := by simp [HInv, init, rem]

/-- With the hoisted `Add`, the counter always covers the forwarders, and the leaked units never
come back. -/
theorem hoisted_step {s s' : State} {l : Label} (hi : HInv s) (hs : step .hoisted s l = some s') :
    HInv s' ∧ leak s ≤ leak s' := by
  simp only [HInv, leak] at *
  cases l <;>
    simp only [step, subLock, subChan, subUnlock, bcLock, bcUnlock, fwdExitCtx, fwdExitClose,
      fwdRemove, closeCall, closeCas, closeChClose, closePass, closeReturn] at hs <;>
    (repeat' split at hs) <;> (try simp at hs) <;> (try subst hs) <;>
    simp_all [rem] <;> omega

end Kit.Broadcaster.Wg
