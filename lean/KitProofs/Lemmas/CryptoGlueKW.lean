/-
Helper lemmas for property C03: bytes, xor, RFC 3394 registers and rounds.
-/
import KitModel.CryptoGlue
namespace Kit.CryptoGlue
open Kit

theorem xor_length (a b : Bytes) : (xor a b).length = min a.length b.length := by
  simp [xor]

theorem xor_xor_cancel : ∀ (a t : Bytes), a.length = t.length → xor (xor a t) t = a
  | [], [], _ => rfl
  | x :: a, y :: t, h => by
    have h' : a.length = t.length := by simpa using h
    have ih := xor_xor_cancel a t h'
    simp only [xor, List.zipWith_cons_cons] at ih ⊢
    rw [ih]
    congr 1
    rw [UInt8.xor_assoc, UInt8.xor_self, UInt8.xor_zero]
  | [], _ :: _, h => by simp at h
  | _ :: _, [], h => by simp at h

theorem be64_length (t : Nat) : (be64 t).length = 8 := rfl

theorem iv3394_length : iv3394.length = 8 := by decide

/-- All registers are 64-bit blocks. -/
def Regs (rs : List Bytes) : Prop := ∀ r ∈ rs, r.length = 8

theorem Regs.nil : Regs [] := by intro r h; cases h

theorem Regs.cons {r : Bytes} {rs : List Bytes} (h : r.length = 8) (hs : Regs rs) : Regs (r :: rs) := by
  intro x hx
  rcases List.mem_cons.mp hx with rfl | hx
  · exact h
  · exact hs x hx

theorem Regs.head {r : Bytes} {rs : List Bytes} (h : Regs (r :: rs)) : r.length = 8 :=
  h r (List.mem_cons_self)

theorem Regs.tail {r : Bytes} {rs : List Bytes} (h : Regs (r :: rs)) : Regs rs :=
  fun x hx => h x (List.mem_cons_of_mem _ hx)

theorem flatten_length_regs : ∀ {rs : List Bytes}, Regs rs → rs.flatten.length = 8 * rs.length
  | [], _ => rfl
  | r :: rs, h => by
    have := flatten_length_regs h.tail
    simp [List.flatten_cons, h.head, this]; omega

theorem blocks8_length : ∀ n bs, (blocks8 n bs).length = n
  | 0, _ => rfl
  | n + 1, bs => by simp [blocks8, blocks8_length n]

theorem blocks8_regs : ∀ n (bs : Bytes), 8 * n ≤ bs.length → Regs (blocks8 n bs)
  | 0, _, _ => Regs.nil
  | n + 1, bs, h => by
    refine Regs.cons ?_ (blocks8_regs n _ ?_)
    · simp; omega
    · simp; omega

theorem flatten_blocks8 : ∀ n (bs : Bytes), bs.length = 8 * n → (blocks8 n bs).flatten = bs
  | 0, bs, h => by
    have : bs = [] := List.eq_nil_of_length_eq_zero (by omega)
    simp [blocks8, this]
  | n + 1, bs, h => by
    have ih := flatten_blocks8 n (bs.drop 8) (by simp; omega)
    simp [blocks8, ih]

theorem blocks8_flatten : ∀ (rs : List Bytes), Regs rs → blocks8 rs.length rs.flatten = rs
  | [], _ => rfl
  | r :: rs, h => by
    have hr := h.head
    have ih := blocks8_flatten rs h.tail
    simp only [List.length_cons, blocks8, List.flatten_cons]
    rw [List.take_left' hr, List.drop_left' hr, ih]

/-! ### one inner loop -/

theorem wrapInner_spec (bc : BlockCipher) (hL : bc.Lawful) (n j : Nat) :
    ∀ (rs : List Bytes) (i : Nat) (a : Bytes), a.length = 8 → Regs rs →
      (wrapInner bc.E n j i a rs).1.length = 8 ∧ Regs (wrapInner bc.E n j i a rs).2 ∧
      (wrapInner bc.E n j i a rs).2.length = rs.length ∧
      unwrapInner bc.D n j i (wrapInner bc.E n j i a rs).2 (wrapInner bc.E n j i a rs).1 = (a, rs)
  | [], i, a, ha, _ => by simp [wrapInner, unwrapInner, ha, Regs.nil]
  | r :: rs, i, a, ha, hrs => by
    have hr := hrs.head
    have hab : (a ++ r).length = 16 := by simp [ha, hr]
    have hb := hL.lenE _ hab
    have ha' : (xor ((bc.E (a ++ r)).take 8) (be64 (n * j + i))).length = 8 := by
      simp [xor_length, hb, be64_length]
    obtain ⟨h1, h2, h3, h4⟩ := wrapInner_spec bc hL n j rs (i + 1) _ ha' hrs.tail
    have hdrop : ((bc.E (a ++ r)).drop 8).length = 8 := by simp [hb]
    refine ⟨by simpa [wrapInner] using h1, ?_, by simp [wrapInner, h3], ?_⟩
    · simpa [wrapInner] using Regs.cons hdrop h2
    · simp only [wrapInner, unwrapInner]
      rw [h4]
      simp only
      rw [xor_xor_cancel _ _ (by simp [hb, be64_length]), List.take_append_drop, hL.DE _ hab]
      simp [List.take_left' ha, List.drop_left' ha]

theorem unwrapInner_spec (bc : BlockCipher) (hP : bc.Perm) (n j : Nat) :
    ∀ (rs : List Bytes) (i : Nat) (a : Bytes), a.length = 8 → Regs rs →
      (unwrapInner bc.D n j i rs a).1.length = 8 ∧ Regs (unwrapInner bc.D n j i rs a).2 ∧
      (unwrapInner bc.D n j i rs a).2.length = rs.length ∧
      wrapInner bc.E n j i (unwrapInner bc.D n j i rs a).1 (unwrapInner bc.D n j i rs a).2 = (a, rs)
  | [], i, a, ha, _ => by simp [wrapInner, unwrapInner, ha, Regs.nil]
  | r :: rs, i, a, ha, hrs => by
    have hr := hrs.head
    obtain ⟨h1, h2, h3, h4⟩ := unwrapInner_spec bc hP n j rs (i + 1) a ha hrs.tail
    have hx : (xor (unwrapInner bc.D n j (i + 1) rs a).1 (be64 (n * j + i))).length = 8 := by
      simp [xor_length, h1, be64_length]
    have hin : (xor (unwrapInner bc.D n j (i + 1) rs a).1 (be64 (n * j + i)) ++ r).length = 16 := by
      simp [hx, hr]
    have hb := hP.lenD _ hin
    refine ⟨by simp [unwrapInner, hb], ?_, by simp [unwrapInner, h3], ?_⟩
    · simp only [unwrapInner]
      exact Regs.cons (by simp [hb]) h2
    · simp only [unwrapInner, wrapInner]
      rw [List.take_append_drop, hP.ED _ hin, List.take_left' hx,
        xor_xor_cancel _ _ (by simp [h1, be64_length]), List.drop_left' hx, h4]

/-! ### all rounds -/

def GoodSt (st : Bytes × List Bytes) : Prop := st.1.length = 8 ∧ Regs st.2

theorem wrapRounds_spec (bc : BlockCipher) (hL : bc.Lawful) (n : Nat) :
    ∀ (js : List Nat) (st : Bytes × List Bytes), GoodSt st →
      GoodSt (wrapRounds bc.E n js st) ∧ (wrapRounds bc.E n js st).2.length = st.2.length ∧
      unwrapRounds bc.D n js (wrapRounds bc.E n js st) = st
  | [], st, h => ⟨h, rfl, rfl⟩
  | j :: js, st, h => by
    obtain ⟨h1, h2, h3, h4⟩ := wrapInner_spec bc hL n j st.2 1 st.1 h.1 h.2
    obtain ⟨g1, g2, g3⟩ := wrapRounds_spec bc hL n js (wrapInner bc.E n j 1 st.1 st.2) ⟨h1, h2⟩
    refine ⟨by simpa [wrapRounds] using g1, by simpa [wrapRounds, h3] using g2, ?_⟩
    simp only [wrapRounds, unwrapRounds, List.foldl_cons, List.foldr_cons] at g3 ⊢
    rw [g3, h4]

theorem wrapRounds_cons (E : Bytes → Bytes) (n j : Nat) (js : List Nat) (st : Bytes × List Bytes) :
    wrapRounds E n (j :: js) st = wrapRounds E n js (wrapInner E n j 1 st.1 st.2) := rfl

theorem unwrapRounds_cons (D : Bytes → Bytes) (n j : Nat) (js : List Nat) (st : Bytes × List Bytes) :
    unwrapRounds D n (j :: js) st =
      unwrapInner D n j 1 (unwrapRounds D n js st).2 (unwrapRounds D n js st).1 := rfl

theorem unwrapRounds_spec (bc : BlockCipher) (hP : bc.Perm) (n : Nat) :
    ∀ (js : List Nat) (st : Bytes × List Bytes), GoodSt st →
      GoodSt (unwrapRounds bc.D n js st) ∧ (unwrapRounds bc.D n js st).2.length = st.2.length ∧
      wrapRounds bc.E n js (unwrapRounds bc.D n js st) = st
  | [], st, h => ⟨h, rfl, rfl⟩
  | j :: js, st, h => by
    obtain ⟨g1, g2, g3⟩ := unwrapRounds_spec bc hP n js st h
    obtain ⟨h1, h2, h3, h4⟩ :=
      unwrapInner_spec bc hP n j (unwrapRounds bc.D n js st).2 1 (unwrapRounds bc.D n js st).1 g1.1 g1.2
    rw [unwrapRounds_cons, wrapRounds_cons, h4]
    exact ⟨⟨h1, h2⟩, h3.trans g2, g3⟩

end Kit.CryptoGlue
