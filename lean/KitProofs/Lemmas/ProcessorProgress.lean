import KitProofs.Lemmas.Processor
/-!
Progress of the repaired processor (property C06, `none_stranded`): from every reachable state in
which an item is live and due and Close has not been called, the loop goroutine alone (no
environment action, no clock advance) reaches the start of that item's callback.
-/
namespace Kit.Processor
open Kit.Queue

set_option linter.unusedSectionVars false

variable {κ ν : Type} [DecidableEq κ] [DecidableEq ν]

/-- Labels allowed on a progress path: steps of the loop goroutine only. -/
def LoopLabel (a : Label κ ν) : Prop := a.isLoop = true

abbrev M : LTS (State κ ν) (Label κ ν) := lts fixedCfg

/-! ### every non-empty queue has a minimal item -/

theorem exists_min (q : List (Item κ ν)) (hq : q ≠ []) : ∃ m, IsMin q m := by
  induction q with
  | nil => exact absurd rfl hq
  | cons a q ih =>
    by_cases hq' : q = []
    · subst hq'; exact ⟨a, by simp [IsMin]⟩
    · obtain ⟨m, hm, hle⟩ := ih hq'
      by_cases h : a.time ≤ m.time
      · refine ⟨a, by simp, ?_⟩
        intro x hx
        rcases List.mem_cons.mp hx with rfl | hx
        · exact Int.le_refl _
        · exact Int.le_trans h (hle x hx)
      · refine ⟨m, by simp [hm], ?_⟩
        intro x hx
        rcases List.mem_cons.mp hx with rfl | hx
        · omega
        · exact hle x hx

/-! ### single steps -/

section steps
variable {s : State κ ν} {r m : Item κ ν}

theorem step_peek_some (hpc : s.pc = .top) (hm : IsMin s.q m) (hroot : s.root = none ∨ s.root = some m) :
    M.step s (.peek (some m)) = some { s with pc := .peeked m, root := some m } := by
  simp [lts, step, hpc, IsHead, hm, hroot]

theorem step_pollReset (hpc : s.pc = .peeked r) (h : s.reset = true) :
    M.step s .pollReset = some { s with reset := false, pc := .top } := by
  simp [lts, step, hpc, h]

theorem step_pollNone (hpc : s.pc = .peeked r) (h1 : s.stopClosed = false) (h2 : s.reset = false) :
    M.step s .pollNone = some { s with pc := .polled r } := by
  simp [lts, step, hpc, h1, h2]

theorem satDur_lt_halfMs (d : Int) : satDur d < halfMs ↔ d < halfMs := by
  rcases satDur_cases d with ⟨_, _, h⟩ | ⟨h1, h⟩ | ⟨h1, h⟩ <;> rw [h] <;>
    simp only [halfMs, Kit.Generated.C06.runNowMarginNs, maxDur, minDur] at * <;> omega

theorem step_decide_fire (hpc : s.pc = .polled r) (h : r.time - s.now < halfMs) :
    M.step s .decide = some { s with pc := .firing r, readAt := s.now } := by
  simp [lts, step, hpc, (satDur_lt_halfMs _).mpr h]

theorem step_decide_arm (hpc : s.pc = .polled r) (h : ¬ r.time - s.now < halfMs) :
    M.step s .decide = some { s with pc := .arming r, timer := satDur (r.time - s.now), readAt := s.now } := by
  have : ¬ satDur (r.time - s.now) < halfMs := fun h' => h ((satDur_lt_halfMs _).mp h')
  simp [lts, step, hpc, this]

theorem step_arm (hpc : s.pc = .arming r) :
    M.step s .arm = some { s with pc := .armed r, timer := s.now + s.timer, armAt := s.now } := by
  simp [lts, step, hpc]

theorem step_timerFire (hpc : s.pc = .armed r) (h : s.timer ≤ s.now) :
    M.step s .timerFire = some { s with pc := .firing r, timer := 0 } := by
  simp [lts, step, hpc, h]

theorem step_recvReset (hpc : s.pc = .armed r) (h : s.reset = true) :
    M.step s .recvReset = some { s with reset := false, pc := .top, timer := 0 } := by
  simp [lts, step, hpc, h]

theorem step_exec_pop (hpc : s.pc = .firing r) (h : IsMin s.q r) (hroot : s.root = none ∨ s.root = some r) :
    M.step s (.execCheck (some r)) =
      some { s with q := pop s.q r, pc := .popped r, log := .pop r :: s.log, root := none } := by
  simp [lts, step, hpc, IsHead, h, hroot]

theorem step_exec_stale (hpc : s.pc = .firing r) (h : IsMin s.q m) (hne : m ≠ r)
    (hroot : s.root = none ∨ s.root = some m) :
    M.step s (.execCheck (some m)) = some { s with pc := .top, root := some m } := by
  simp [lts, step, hpc, IsHead, h, hne, hroot]

/-- The root as far as it is determined, else any minimal item (`x` itself if it is one). -/
theorem choose_head {s : State κ ν} {x : Item κ ν} (hr : Reach (M (κ := κ) (ν := ν)) s) (hx : x ∈ s.q) :
    ∃ m, IsMin s.q m ∧ (s.root = none ∨ s.root = some m) ∧ m.time ≤ x.time := by
  cases hroot : s.root with
  | some h =>
    have hm := (invR hr).1 h hroot
    exact ⟨h, hm, Or.inr rfl, hm.2 x hx⟩
  | none =>
    by_cases hxm : IsMin s.q x
    · exact ⟨x, hxm, Or.inl rfl, Int.le_refl _⟩
    · obtain ⟨m, hm⟩ := exists_min s.q (List.ne_nil_of_mem hx)
      exact ⟨m, hm, Or.inl rfl, hm.2 x hx⟩

theorem step_cbStart (hpc : s.pc = .popped r) :
    M.step s .cbStart = some { s with pc := .running r, log := .exec r s.now :: s.log } := by
  simp [lts, step, hpc]

theorem step_cbReturn (hpc : s.pc = .running r) :
    M.step s .cbReturn = some { s with pc := .top } := by
  simp [lts, step, hpc]

end steps

/-! ### paths -/

theorem Steps.cons1 {s s' s'' : State κ ν} {a : Label κ ν} (h : M.step s a = some s')
    (rest : Steps M LoopLabel s' s'') (hl : a.isLoop = true := by rfl) : Steps M LoopLabel s s'' :=
  Steps.cons a hl h rest

theorem Steps.single1 {s s' : State κ ν} {a : Label κ ν} (h : M.step s a = some s')
    (hl : a.isLoop = true := by rfl) : Steps M LoopLabel s s' :=
  Steps.single a hl h

/-- A timer that the loop has armed (or is about to arm) is due, unless a reset is buffered.  False
only if the clock advanced between the loop's `Now()` and its `NewTimer()` and has not yet caught up
with the late timer (`late_bound`). -/
def Timely (s : State κ ν) : Prop :=
  (∀ r, s.pc = .armed r → s.reset = true ∨ s.timer ≤ s.now) ∧
  (∀ r, s.pc = .arming r → s.reset = true ∨ s.timer ≤ 0)

theorem timely_of_pc {s : State κ ν} (h1 : ∀ r, s.pc ≠ .armed r) (h2 : ∀ r, s.pc ≠ .arming r) : Timely s :=
  ⟨fun r h => absurd h (h1 r), fun r h => absurd h (h2 r)⟩

/-- `x` is live and due, Close has not begun, the state is reachable, a pending timer is due. -/
structure Ready (s : State κ ν) (x : Item κ ν) : Prop where
  reach : Reach (M (κ := κ) (ν := ν)) s
  open_ : s.stopped = false
  mem : x ∈ s.q
  due : x.time ≤ s.now
  timely : Timely s

/-- Outcome of a path fragment: the callback of `x` started, or the loop is back at the top of its
body with `x` still live and due, the clock unchanged and the queue not longer than `n`. -/
def Done (x : Item κ ν) (now : Int) (n : Nat) (s' : State κ ν) : Prop :=
  Event.exec x now ∈ s'.log ∨ (Ready s' x ∧ s'.pc = .top ∧ s'.now = now ∧ s'.q.length ≤ n)

theorem stopClosed_false {s : State κ ν} {x : Item κ ν} (h : Ready s x) : s.stopClosed = false := by
  have hA := invA h.reach
  have ho := h.open_
  unfold InvA at hA
  cases hsc : s.stopClosed <;> grind

/-- A successor on the path inherits readiness when its program counter is not a timer state. -/
theorem Ready.next {s s' : State κ ν} {x : Item κ ν} {a : Label κ ν} (h : Ready s x)
    (hst : M.step s a = some s') (ho : s'.stopped = false) (hm : x ∈ s'.q) (hd : x.time ≤ s'.now)
    (ht : Timely s') : Ready s' x :=
  ⟨Reach.step a h.reach hst, ho, hm, hd, ht⟩

/-- From `running r`. -/
theorem from_running {s : State κ ν} {x r : Item κ ν} (h : Ready s x) (hpc : s.pc = .running r) :
    ∃ s', Steps M LoopLabel s s' ∧ Done x s.now s.q.length s' := by
  refine ⟨_, Steps.single1 (step_cbReturn hpc), Or.inr ⟨?_, rfl, rfl, Nat.le_refl _⟩⟩
  exact h.next (step_cbReturn hpc) h.open_ h.mem h.due (timely_of_pc (by simp) (by simp))

/-- From `popped r`. -/
theorem from_popped {s : State κ ν} {x r : Item κ ν} (h : Ready s x) (hpc : s.pc = .popped r) :
    ∃ s', Steps M LoopLabel s s' ∧ Done x s.now s.q.length s' := by
  have h1 := step_cbStart hpc
  have hr1 : Ready { s with pc := Pc.running r, log := Event.exec r s.now :: s.log } x :=
    h.next h1 h.open_ h.mem h.due (timely_of_pc (by simp) (by simp))
  obtain ⟨s', hs', hd⟩ := from_running (r := r) hr1 rfl
  exact ⟨s', Steps.cons1 h1 hs', hd⟩

/-- From `firing r`: pop and run `r` if it is (or may be) the root, otherwise restart. -/
theorem from_firing {s : State κ ν} {x r : Item κ ν} (h : Ready s x) (hpc : s.pc = .firing r) :
    ∃ s', Steps M LoopLabel s s' ∧ Done x s.now s.q.length s' := by
  have hR := invR h.reach
  -- can `r` be popped?
  have hcase : (IsMin s.q r ∧ (s.root = none ∨ s.root = some r)) ∨ (¬ IsMin s.q r ∧ s.root = none) := by
    cases hroot : s.root with
    | some h' =>
      have := hR.2 r h' (by simp [hpc]) hroot
      subst this
      exact Or.inl ⟨hR.1 _ hroot, Or.inr rfl⟩
    | none =>
      by_cases hmin : IsMin s.q r
      · exact Or.inl ⟨hmin, Or.inl rfl⟩
      · exact Or.inr ⟨hmin, rfl⟩
  rcases hcase with ⟨hmin, hroot⟩ | ⟨hmin, hroot⟩
  · have h1 := step_exec_pop hpc hmin hroot
    by_cases hrx : r = x
    · subst hrx
      have h2 : M.step { s with q := pop s.q r, pc := Pc.popped r, log := Event.pop r :: s.log, root := none } .cbStart = _ :=
        step_cbStart rfl
      exact ⟨_, Steps.cons1 h1 (Steps.single1 h2), Or.inl (by simp)⟩
    · have hr1 : Ready { s with q := pop s.q r, pc := Pc.popped r, log := Event.pop r :: s.log, root := none } x :=
        h.next h1 h.open_ (by simp [h.mem, Ne.symm hrx]) h.due (timely_of_pc (by simp) (by simp))
      obtain ⟨s', hs', hd⟩ := from_popped (r := r) hr1 rfl
      refine ⟨s', Steps.cons1 h1 hs', ?_⟩
      rcases hd with hd | ⟨a, b, c, d⟩
      · exact Or.inl hd
      · refine Or.inr ⟨a, b, c, Nat.le_trans d ?_⟩
        simp only [pop]
        exact List.length_filter_le _ _
  · obtain ⟨m, hm⟩ := exists_min s.q (List.ne_nil_of_mem h.mem)
    have hne : m ≠ r := by
      intro e; subst e; exact hmin hm
    have h1 := step_exec_stale hpc hm hne (Or.inl hroot)
    refine ⟨_, Steps.single1 h1, Or.inr ⟨?_, rfl, rfl, Nat.le_refl _⟩⟩
    exact h.next h1 h.open_ h.mem h.due (timely_of_pc (by simp) (by simp))

/-- From `armed r`: a buffered reset restarts the loop; otherwise the timer is due (`Timely`). -/
theorem from_armed {s : State κ ν} {x r : Item κ ν} (h : Ready s x) (hpc : s.pc = .armed r) :
    ∃ s', Steps M LoopLabel s s' ∧ Done x s.now s.q.length s' := by
  cases hreset : s.reset
  · have ht : s.timer ≤ s.now := by
      rcases h.timely.1 r hpc with hc | hc
      · simp [hreset] at hc
      · exact hc
    have h1 := step_timerFire hpc ht
    have hr1 : Ready { s with pc := Pc.firing r, timer := 0 } x :=
      h.next h1 h.open_ h.mem h.due (timely_of_pc (by simp) (by simp))
    obtain ⟨s', hs', hd⟩ := from_firing (r := r) hr1 rfl
    exact ⟨s', Steps.cons1 h1 hs', hd⟩
  · have h1 := step_recvReset hpc hreset
    refine ⟨_, Steps.single1 h1, Or.inr ⟨?_, rfl, rfl, Nat.le_refl _⟩⟩
    exact h.next h1 h.open_ h.mem h.due (timely_of_pc (by simp) (by simp))

/-- From `arming r`: create the timer. -/
theorem from_arming {s : State κ ν} {x r : Item κ ν} (h : Ready s x) (hpc : s.pc = .arming r) :
    ∃ s', Steps M LoopLabel s s' ∧ Done x s.now s.q.length s' := by
  have h1 := step_arm hpc
  have ht : Timely { s with pc := Pc.armed r, timer := s.now + s.timer, armAt := s.now } := by
    refine ⟨?_, fun r' hp => by simp at hp⟩
    intro r' _
    rcases h.timely.2 r hpc with hc | hc
    · exact Or.inl hc
    · refine Or.inr ?_
      show s.now + s.timer ≤ s.now
      omega
  have hr1 := h.next h1 h.open_ h.mem h.due ht
  obtain ⟨s', hs', hd⟩ := from_armed (r := r) hr1 rfl
  exact ⟨s', Steps.cons1 h1 hs', hd⟩

/-- From `polled r`: read the clock. -/
theorem from_polled {s : State κ ν} {x r : Item κ ν} (h : Ready s x) (hpc : s.pc = .polled r) :
    ∃ s', Steps M LoopLabel s s' ∧ Done x s.now s.q.length s' := by
  by_cases hd : r.time - s.now < halfMs
  · have h1 := step_decide_fire hpc hd
    have hr1 : Ready { s with pc := Pc.firing r, readAt := s.now } x :=
      h.next h1 h.open_ h.mem h.due (timely_of_pc (by simp) (by simp))
    obtain ⟨s', hs', hd⟩ := from_firing (r := r) hr1 rfl
    exact ⟨s', Steps.cons1 h1 hs', hd⟩
  · have h1 := step_decide_arm hpc hd
    have ht : Timely { s with pc := Pc.arming r, timer := satDur (r.time - s.now), readAt := s.now } := by
      refine ⟨fun r' hp => by simp at hp, ?_⟩
      intro r' _
      cases hreset : s.reset
      · refine Or.inr ?_
        have hcov := (invB h.reach).2 r (Or.inr (Or.inl hpc))
        rcases hcov with hc | hc
        · simp [hreset] at hc
        · have := hc x h.mem
          have := h.due
          show satDur (r.time - s.now) ≤ 0
          rcases satDur_cases (r.time - s.now) with ⟨_, _, h'⟩ | ⟨h1, h'⟩ | ⟨h1, h'⟩ <;> rw [h'] <;>
            simp only [maxDur, minDur] at * <;> omega
      · exact Or.inl rfl
    have hr1 := h.next h1 h.open_ h.mem h.due ht
    obtain ⟨s', hs', hd⟩ := from_arming (r := r) hr1 rfl
    exact ⟨s', Steps.cons1 h1 hs', hd⟩

/-- From `peeked r`. -/
theorem from_peeked {s : State κ ν} {x r : Item κ ν} (h : Ready s x) (hpc : s.pc = .peeked r) :
    ∃ s', Steps M LoopLabel s s' ∧ Done x s.now s.q.length s' := by
  cases hreset : s.reset
  · have h1 := step_pollNone hpc (stopClosed_false h) hreset
    have hr1 : Ready { s with pc := Pc.polled r } x :=
      h.next h1 h.open_ h.mem h.due (timely_of_pc (by simp) (by simp))
    obtain ⟨s', hs', hd⟩ := from_polled (r := r) hr1 rfl
    exact ⟨s', Steps.cons1 h1 hs', hd⟩
  · have h1 := step_pollReset hpc hreset
    refine ⟨_, Steps.single1 h1, Or.inr ⟨?_, rfl, rfl, Nat.le_refl _⟩⟩
    exact h.next h1 h.open_ h.mem h.due (timely_of_pc (by simp) (by simp))

/-- From any program counter the loop gets back to the top of its body (or runs `x` on the way). -/
theorem to_top {s : State κ ν} {x : Item κ ν} (h : Ready s x) :
    ∃ s', Steps M LoopLabel s s' ∧ Done x s.now s.q.length s' := by
  cases hpc : s.pc with
  | absent => exact absurd hpc ((invB h.reach).1 h.open_ x h.mem)
  | top => exact ⟨s, Steps.refl _, Or.inr ⟨h, hpc, rfl, Nat.le_refl _⟩⟩
  | peeked r => exact from_peeked h hpc
  | polled r => exact from_polled h hpc
  | arming r => exact from_arming h hpc
  | armed r => exact from_armed h hpc
  | firing r => exact from_firing h hpc
  | popped r => exact from_popped h hpc
  | running r => exact from_running h hpc
  | exiting =>
    have hA := invA h.reach
    have hsc := stopClosed_false h
    unfold InvA at hA
    have := hA.2.2.2.2 hpc
    simp [hsc] at this

/-- One iteration from the top: peek a head (`x` itself if it is one), consume a stale reset if
there is one, run the head.  Either `x` ran, or the loop is at the top again with a shorter queue. -/
theorem iteration {s : State κ ν} {x : Item κ ν} (h : Ready s x) (hpc : s.pc = .top) (hreset : s.reset = false) :
    ∃ s', Steps M LoopLabel s s' ∧
      (Event.exec x s.now ∈ s'.log ∨ (Ready s' x ∧ s'.pc = .top ∧ s'.now = s.now ∧ s'.q.length < s.q.length)) := by
  -- the head to peek: the remembered root, else a minimal item
  obtain ⟨m, hm, hroot, hmx⟩ := choose_head h.reach h.mem
  have h1 := step_peek_some hpc hm hroot
  have h2 : M.step { s with pc := Pc.peeked m, root := some m } .pollNone = _ :=
    step_pollNone (r := m) rfl (show s.stopClosed = false from stopClosed_false h) hreset
  have hdue : m.time - s.now < halfMs := by
    have := h.due
    simp only [halfMs, Kit.Generated.C06.runNowMarginNs]; omega
  have h3 : M.step { s with pc := Pc.polled m, root := some m } .decide = _ := step_decide_fire (r := m) rfl hdue
  have h4 : M.step { s with pc := Pc.firing m, root := some m, readAt := s.now } (.execCheck (some m)) = _ :=
    step_exec_pop (r := m) rfl hm (Or.inr rfl)
  have h5 : M.step { s with q := pop s.q m, pc := Pc.popped m, log := Event.pop m :: s.log, root := none, readAt := s.now } .cbStart = _ :=
    step_cbStart (r := m) rfl
  have hpath := Steps.cons1 h1 (Steps.cons1 h2 (Steps.cons1 h3
    (Steps.cons1 h4 (Steps.single1 h5))))
  by_cases hmx' : m = x
  · subst hmx'
    exact ⟨_, hpath, Or.inl (by simp)⟩
  · have h6 : M.step { s with q := pop s.q m, pc := Pc.running m, log := Event.exec m s.now :: Event.pop m :: s.log, root := none, readAt := s.now } .cbReturn = _ :=
      step_cbReturn (r := m) rfl
    refine ⟨_, Steps.trans hpath (Steps.single1 h6), Or.inr ⟨?_, rfl, rfl, ?_⟩⟩
    · refine ⟨Steps.reach (Steps.trans hpath (Steps.single1 h6)) h.reach, h.open_, ?_, h.due,
        timely_of_pc (by simp) (by simp)⟩
      simp [h.mem, Ne.symm hmx']
    · simp only [pop]
      have : (s.q.filter (fun y => decide (y ≠ m))).length < s.q.length := by
        apply List.length_filter_lt_length_iff_exists.mpr
        exact ⟨m, hm.1, by simp⟩
      exact this

/-- From the top of the loop body, by induction on the length of the queue. -/
theorem from_top : ∀ (n : Nat) {s : State κ ν} {x : Item κ ν}, Ready s x → s.pc = .top → s.q.length ≤ n →
    ∃ s', Steps M LoopLabel s s' ∧ Event.exec x s.now ∈ s'.log := by
  intro n
  induction n with
  | zero =>
    intro s x h _ hlen
    have : s.q = [] := List.eq_nil_of_length_eq_zero (Nat.le_zero.mp hlen)
    have hm := h.mem
    simp [this] at hm
  | succ n ih =>
    intro s x h hpc hlen
    have key : ∀ {s : State κ ν}, Ready s x → s.pc = .top → s.reset = false → s.q.length ≤ n + 1 →
        ∃ s', Steps M LoopLabel s s' ∧ Event.exec x s.now ∈ s'.log := by
      intro s h hpc hreset hlen
      obtain ⟨s1, hs1, hd⟩ := iteration h hpc hreset
      rcases hd with hd | ⟨hr1, hpc1, hnow1, hlt⟩
      · exact ⟨s1, hs1, hd⟩
      · obtain ⟨s2, hs2, he⟩ := ih hr1 hpc1 (by omega)
        exact ⟨s2, Steps.trans hs1 hs2, by rw [← hnow1]; exact he⟩
    cases hreset : s.reset
    · exact key h hpc hreset hlen
    · obtain ⟨m, hm, hroot, _⟩ := choose_head h.reach h.mem
      have h1 := step_peek_some hpc hm hroot
      have h2 : M.step { s with pc := Pc.peeked m, root := some m } .pollReset = _ := step_pollReset (r := m) rfl hreset
      have hpath := Steps.cons1 h1 (Steps.single1 h2)
      have hr2 : Ready { s with reset := false, pc := Pc.top, root := some m } x :=
        ⟨Steps.reach hpath h.reach, h.open_, h.mem, h.due, timely_of_pc (by simp) (by simp)⟩
      obtain ⟨s', hs', he⟩ := key hr2 rfl rfl hlen
      exact ⟨s', Steps.trans hpath hs', he⟩

/-- Internal progress: a live, due item of an open processor whose pending timer (if any) is due gets
executed by the loop alone. -/
theorem progress {s : State κ ν} {x : Item κ ν} (h : Ready s x) :
    ∃ s', Steps M LoopLabel s s' ∧ Event.exec x s.now ∈ s'.log := by
  obtain ⟨s1, hs1, hd⟩ := to_top h
  rcases hd with hd | ⟨hr1, hpc1, hnow1, _⟩
  · exact ⟨s1, hs1, hd⟩
  · obtain ⟨s2, hs2, he⟩ := from_top s1.q.length hr1 hpc1 (Nat.le_refl _)
    exact ⟨s2, Steps.trans hs1 hs2, by rw [← hnow1]; exact he⟩

/-! ### with the clock: an item runs as soon as the clock reaches its time and the pending timer -/

/-- The instant from which the loop's pending timer no longer delays anything. -/
def wakeBound (s : State κ ν) : Int :=
  match s.pc with
  | .armed _ => s.timer
  | .arming _ => s.now + s.timer
  | _ => s.now

theorem Steps.mono {σ α : Type} {L : LTS σ α} {p q : α → Prop} (hpq : ∀ a, p a → q a) {a b : σ}
    (h : Steps L p a b) : Steps L q a b := by
  induction h with
  | refl => exact Steps.refl _
  | cons l hp hst _ ih => exact Steps.cons l (hpq l hp) hst ih

/-- Loop steps plus one given clock advance. -/
def LoopOrAdvance (T : Int) (a : Label κ ν) : Prop := LoopLabel a ∨ a = .advance T

theorem runs_when_clock_reaches {s : State κ ν} {x : Item κ ν} (hr : Reach (M (κ := κ) (ν := ν)) s)
    (hopen : s.stopped = false) (hx : x ∈ s.q) {T : Int} (hT : s.now ≤ T) (hxT : x.time ≤ T)
    (hw : wakeBound s ≤ T) :
    ∃ s', Steps M (LoopOrAdvance T) s s' ∧ Event.exec x T ∈ s'.log := by
  -- first create the timer if the loop is between `Now()` and `NewTimer()`
  have hpre : ∃ s1, Steps M (LoopOrAdvance (κ := κ) (ν := ν) T) s s1 ∧ Reach M s1 ∧ s1.stopped = false ∧
      x ∈ s1.q ∧ s1.now = s.now ∧ (∀ r, s1.pc ≠ .arming r) ∧ (∀ r, s1.pc = .armed r → s1.timer ≤ T) := by
    cases hpc : s.pc with
    | arming r =>
      have h1 := step_arm hpc
      refine ⟨_, Steps.cons Label.arm (Or.inl (show Label.isLoop (Label.arm : Label κ ν) = true from rfl)) h1 (Steps.refl _), Reach.step _ hr h1, hopen, hx, rfl,
        by intro r'; simp, ?_⟩
      intro r' _
      show s.now + s.timer ≤ T
      simpa [wakeBound, hpc] using hw
    | armed r =>
      refine ⟨s, Steps.refl _, hr, hopen, hx, rfl, by intro r'; simp [hpc], ?_⟩
      intro r' _
      simpa [wakeBound, hpc] using hw
    | _ => exact ⟨s, Steps.refl _, hr, hopen, hx, rfl, by intro r'; simp [hpc], by intro r' h; simp [hpc] at h⟩
  obtain ⟨s1, hs1, hr1, ho1, hx1, hnow1, hna, hta⟩ := hpre
  have hadv : M.step s1 (.advance T) = some { s1 with now := T } := by
    simp [lts, step, hnow1, hT]
  have hready : Ready { s1 with now := T } x :=
    ⟨Reach.step _ hr1 hadv, ho1, hx1, hxT, ⟨fun r hp => Or.inr (hta r hp), fun r hp => absurd hp (hna r)⟩⟩
  obtain ⟨s2, hs2, he⟩ := progress hready
  exact ⟨s2, Steps.trans hs1 (Steps.cons _ (Or.inr rfl) hadv (Steps.mono (fun a h => Or.inl h) hs2)), he⟩

end Kit.Processor
