import KitProofs.Lemmas.RunnerCloser
/-! C12 helper lemmas: closers-phase invariant `InvB` of the `RCM` transition system. -/
namespace Kit.Runner

structure RCM.InvB (cfg : Cfg) (s : RCM) : Prop where
  low : s.opc.rank < 5 → s.ccollected = 0 ∧ s.cerrs = [] ∧ s.cspawned = 0 ∧ s.cfs = false ∧ s.fpc = .idle
  low_idle : s.opc.rank < 5 → ∀ (j : Nat) p, s.cpcs[j]? = some p → p = .idle
  nclosers_closing : s.opc = .closing → s.nclosers = s.cpcs.length + cfg.off
  nclosers_fixed : cfg.recheck = true → 5 ≤ s.opc.rank → s.nclosers = s.cpcs.length + cfg.off
  cspawned_le : s.cspawned ≤ s.nclosers
  unspawned : ∀ (j : Nat) p, s.cpcs[j]? = some p → s.cspawned ≤ j + cfg.off → p = .idle
  ccollected_eq : s.ccollected = s.cpcs.countP CPc.isCollected + (if s.fpc = .collected then 1 else 0)
  cerrs_count : ∀ e, s.cerrs.count e = s.cpcs.countP (fun p => p.collectedErr == some e)
  fin : 6 ≤ s.opc.rank → s.ccollected = s.nclosers ∧ s.retErr = s.rErr ++ s.cerrs ∧ s.cspawned = s.nclosers
  no_grace : cfg.grace = none → s.fpc = .idle
  fatal_spawned : s.fpc ≠ .idle → 0 < s.cspawned
  cfs_src : s.cfs = true → s.cspawned = s.nclosers ∧ s.nclosers ≤ s.ccollected + 1 ∧ 5 ≤ s.opc.rank

theorem RCM.invB_init (cfg : Cfg) : RCM.InvB cfg {} := by
  constructor <;> simp [OPc.rank]

set_option maxHeartbeats 8000000 in
theorem RCM.invB_step (cfg : Cfg) {s s' : RCM} (a : Label) (hA : RCM.InvA s) (h : RCM.InvB cfg s)
    (hs : s.step cfg a = some s') : RCM.InvB cfg s' := by
  obtain ⟨a0, a1, a2, a3, a4, a5, a6, a7, a8, a9, a10⟩ := hA
  obtain ⟨h1, h2, h3, h4, h5, h6, h7, h8, h9, h10, h11, h12⟩ := h
  have c1 := fun j old new => countP_set_add CPc.isCollected s.cpcs j old new
  have c2 := fun e j old new => countP_set_add (fun p => p.collectedErr == some e) s.cpcs j old new
  have hle : s.cpcs.countP CPc.isCollected ≤ s.cpcs.length := List.countP_le_length
  have hg : cfg.grace.isSome = false → cfg.grace = none := by cases cfg.grace <;> simp
  cases a with
  | inner b =>
    simp only [RCM.step] at hs
    split at hs
    · cases hb : s.inner.step b with
      | none => simp [hb] at hs
      | some r =>
        simp [hb] at hs; subst hs
        exact ⟨h1, h2, h3, h4, h5, h6, h7, h8, h9, h10, h11, h12⟩
    · simp at hs
  | _ =>
    simp only [RCM.step] at hs
    repeat' (split at hs)
    all_goals (simp at hs)
    all_goals (try subst hs)
    all_goals (constructor <;> grind [OPc.rank, Cfg.off, CPc.isCollected, CPc.collectedErr])

end Kit.Runner
