/-
Helper lemmas for property C03: PKCS#7 and CBC.
-/
import KitProofs.Lemmas.CryptoGlueKW
namespace Kit.CryptoGlue
open Kit

theorem ofNat_toNat_small {k : Nat} (h : k < 256) : (UInt8.ofNat k).toNat = k := by
  simp [UInt8.toNat_ofNat']; omega

theorem padLen_mod (L s : Nat) (hs : 0 < s) : (L + (s - L % s)) % s = 0 := by
  have hm : L % s < s := Nat.mod_lt _ hs
  have e : L + (s - L % s) = s * (L / s + 1) := by
    rw [Nat.mul_succ]; have := Nat.div_add_mod L s; omega
  rw [e]; exact Nat.mul_mod_right _ _

theorem all_eq_replicate {x : UInt8} (l : List UInt8) (h : l.all (· == x) = true) :
    l = List.replicate l.length x := by
  rw [List.eq_replicate_iff]
  refine ⟨rfl, fun b hb => ?_⟩
  have := List.all_eq_true.mp h b hb
  simpa using this

theorem replicate_all (k : Nat) (x : UInt8) : (List.replicate k x).all (· == x) = true := by
  simp

/-- What `unpad` does on a buffer of the shape `out ‖ k×k`. -/
theorem unpad_of_shape (out : Bytes) (k size : Nat) (hs1 : 1 < size) (hs2 : size < 256)
    (hk1 : 1 ≤ k) (hk2 : k ≤ size) (hm : (out.length + k) % size = 0) :
    unpad (out ++ List.replicate k (UInt8.ofNat k)) size = .ok out := by
  have hk : k < 256 := by omega
  have hlast : (out ++ List.replicate k (UInt8.ofNat k)).getLast? = some (UInt8.ofNat k) := by
    rw [List.getLast?_append]
    have : (List.replicate k (UInt8.ofNat k)).getLast? = some (UInt8.ofNat k) := by
      rw [List.getLast?_replicate]; simp; omega
    simp [this]
  unfold unpad
  simp only [List.length_append, List.length_replicate, hlast, Option.getD_some,
    ofNat_toNat_small hk]
  have e : out.length + k - k = out.length := by omega
  rw [if_neg (by omega), if_neg (by omega), if_neg (by omega), if_neg (by omega), e,
    List.drop_left' rfl, List.take_left' rfl, if_pos (replicate_all _ _)]

/-- Conversely, whatever `unpad` accepts (other than the empty buffer) has that shape. -/
theorem shape_of_unpad (buf out : Bytes) (size : Nat) (hne : buf ≠ [])
    (h : unpad buf size = .ok out) :
    ∃ k, 1 ≤ k ∧ k ≤ size ∧ buf.length % size = 0 ∧ buf = out ++ List.replicate k (UInt8.ofNat k) := by
  have hlen : buf.length ≠ 0 := by
    intro h0; exact hne (List.eq_nil_of_length_eq_zero h0)
  unfold unpad at h
  by_cases hsz : size ≤ 1 ∨ size ≥ 256
  · rw [if_pos hsz] at h; cases h
  · rw [if_neg hsz, if_neg hlen] at h
    by_cases hmod : buf.length % size ≠ 0
    · rw [if_pos hmod] at h; cases h
    · rw [if_neg hmod] at h
      simp only at h
      by_cases hk : (buf.getLast?.getD 0).toNat = 0 ∨ (buf.getLast?.getD 0).toNat > size
      · rw [if_pos hk] at h; cases h
      · rw [if_neg hk] at h
        by_cases hall : ((buf.drop (buf.length - (buf.getLast?.getD 0).toNat)).all
            (· == UInt8.ofNat (buf.getLast?.getD 0).toNat)) = true
        · rw [if_pos hall] at h
          injection h with h
          refine ⟨(buf.getLast?.getD 0).toNat, by omega, by omega, by omega, ?_⟩
          have hk' : (buf.getLast?.getD 0).toNat ≤ buf.length := by
            have : size ≤ buf.length := by
              have hpos : 0 < buf.length := by omega
              have hsz' : 0 < size := by omega
              have := Nat.div_add_mod buf.length size
              have hq : 0 < buf.length / size := by
                rcases Nat.eq_zero_or_pos (buf.length / size) with h0 | h0
                · rw [h0] at this; omega
                · exact h0
              calc size = size * 1 := by omega
                _ ≤ size * (buf.length / size) := Nat.mul_le_mul_left _ hq
                _ ≤ buf.length := by omega
            omega
          have hrep := all_eq_replicate _ hall
          simp only [List.length_drop, UInt8.ofNat_toNat] at hrep
          have e : buf.length - (buf.length - (buf.getLast?.getD 0).toNat) = (buf.getLast?.getD 0).toNat := by
            omega
          rw [e] at hrep
          rw [← h, UInt8.ofNat_toNat, ← hrep, List.take_append_drop]
        · rw [if_neg hall] at h; cases h

/-! ### CBC -/

theorem cbcEncBlocks_length (E : Bytes → Bytes) (hE : ∀ b, b.length = 16 → (E b).length = 16) :
    ∀ n (prev data : Bytes), prev.length = 16 → data.length = 16 * n →
      (cbcEncBlocks E n prev data).length = 16 * n
  | 0, _, _, _, _ => rfl
  | n + 1, prev, data, hp, hd => by
    have hx : (xor (data.take 16) prev).length = 16 := by simp [xor_length, hp]; omega
    have hc := hE _ hx
    have ih := cbcEncBlocks_length E hE n (E (xor (data.take 16) prev)) (data.drop 16) hc (by simp; omega)
    simp [cbcEncBlocks, hc, ih]; omega

theorem cbc_roundtrip (bc : BlockCipher) (hL : bc.Lawful) :
    ∀ n (prev data : Bytes), prev.length = 16 → data.length = 16 * n →
      cbcDecBlocks bc.D n prev (cbcEncBlocks bc.E n prev data) = data
  | 0, _, data, _, hd => by
    have : data = [] := List.eq_nil_of_length_eq_zero (by omega)
    simp [cbcDecBlocks, this]
  | n + 1, prev, data, hp, hd => by
    have hx : (xor (data.take 16) prev).length = 16 := by simp [xor_length, hp]; omega
    have hc := hL.lenE _ hx
    have ih := cbc_roundtrip bc hL n (bc.E (xor (data.take 16) prev)) (data.drop 16) hc (by simp; omega)
    simp only [cbcEncBlocks, cbcDecBlocks]
    rw [List.take_left' hc, List.drop_left' hc, ih, hL.DE _ hx,
      xor_xor_cancel _ _ (by simp [hp]; omega), List.take_append_drop]

end Kit.CryptoGlue
