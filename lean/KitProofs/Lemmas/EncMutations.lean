/-
What the decrypting loop does with a payload that agrees with the honest one on its first `j`
segments and then deviates: it releases exactly those `j` segments and ends with
`ErrDecryptionFailed`.  From this, one corollary per mutation class (Props/C02.lean).
-/
import KitModel.Enc
import KitProofs.Lemmas.EncLoop
import KitProofs.Lemmas.EncSegs
import KitProofs.Lemmas.EncDecrypt
import KitProofs.Lemmas.EncTamper

namespace Kit.Enc
open Kit

/-- Plaintext of the first `j` segments. -/
def headTo (segs : List (Bytes × Bool)) (j : Nat) : Bytes := ((segs.take j).map (·.1)).flatten

theorem presented_drop (c : Crypto) (P : EncParams) (cph : Nat) (pk np : Bytes) (segs : List (Bytes × Bool)) :
    ∀ (A B : List (Bytes × Bool)) (i : Nat), PresentedNoForgery c P cph pk np segs (A ++ B) i →
      PresentedNoForgery c P cph pk np segs B (i + A.length) := by
  intro A
  induction A with
  | nil => intro B i h; simpa using h
  | cons a t ih =>
    intro B i h
    obtain ⟨x, l⟩ := a
    have := ih B (i + 1) h.2
    simpa [Nat.add_assoc, Nat.add_comm 1] using this

/-- The loop passes over honestly sealed non-final segments, releasing their plaintext. -/
theorem runSegs_sealed_prefix (c : Crypto) (P : EncParams) (cph : Nat) (pk np : Bytes) (lc : c.LawfulFor P pk np)
    (fin : Terminal) : ∀ (pre : List (Bytes × Bool)) (rest : List (Bytes × Bool)) (i : Nat),
    (∀ x ∈ pre, x.2 = false ∧ x.1 ≠ []) → i + pre.length ≤ P.maxSeg →
    (runSegs P.maxSeg (decryptSeg c P cph pk np) (sealedSegs c P cph pk np i pre ++ rest) i fin).out =
      (pre.map (·.1)).flatten ++ (runSegs P.maxSeg (decryptSeg c P cph pk np) rest (i + pre.length) fin).out ∧
    (runSegs P.maxSeg (decryptSeg c P cph pk np) (sealedSegs c P cph pk np i pre ++ rest) i fin).term =
      (runSegs P.maxSeg (decryptSeg c P cph pk np) rest (i + pre.length) fin).term := by
  intro pre
  induction pre with
  | nil => intro rest i _ _; exact ⟨by simp [sealedSegs], by simp [sealedSegs]⟩
  | cons a t ih =>
    intro rest i hpre hmax
    obtain ⟨d, l⟩ := a
    obtain ⟨hl, hd⟩ := hpre (d, l) (by simp)
    simp only at hl hd
    subst hl
    have hne : (c.aseal cph pk (nonceFor P np i false) d).isEmpty = false := by
      cases hx : c.aseal cph pk (nonceFor P np i false) d with
      | nil =>
        have := lc.seal_length cph i false d
        rw [hx] at this
        have : 0 < d.length := List.length_pos_iff.mpr hd
        simp at *; omega
      | cons _ _ => rfl
    have hfn : decryptSeg c P cph pk np (c.aseal cph pk (nonceFor P np i false) d) i false = .ok d := by
      simp [decryptSeg, hne, lc.open_seal]
    rw [sealedSegs_cons, List.cons_append, runSegs_cons_nonlast, hfn]
    have hi : ¬ i = P.maxSeg := by simp only [List.length_cons] at hmax; omega
    simp only [hi, if_false, PSResult.cons]
    obtain ⟨h1, h2⟩ := ih rest (i + 1) (fun x hx => hpre x (by simp [hx])) (by simp only [List.length_cons] at hmax; omega)
    constructor
    · rw [h1]; simp [Nat.add_assoc, Nat.add_comm 1]
    · rw [h2]; simp [Nat.add_assoc, Nat.add_comm 1]

theorem runSegs_head_error (m : Nat) (fn : ProcFn) (x : Bytes) (l : Bool) (rest) (i : Nat) (fin) (e : Err)
    (h : fn x i l = .error e) :
    (runSegs m fn ((x, l) :: rest) i fin).out = [] ∧ (runSegs m fn ((x, l) :: rest) i fin).term = .err e := by
  simp [runSegs, h]

/-- All segments before the last one are flagged `false` and non-empty. -/
theorem shape_take (S : Nat) (hS : 0 < S) : ∀ (segs : List (Bytes × Bool)) (j : Nat), Shape S segs → j < segs.length →
    ∀ x ∈ segs.take j, x.2 = false ∧ x.1 ≠ [] := by
  intro segs
  induction segs with
  | nil => intro j _ h; simp at h
  | cons a t ih =>
    intro j hsh hj x hx
    cases j with
    | zero => simp at hx
    | succ j =>
      obtain ⟨d, l⟩ := a
      cases t with
      | nil => simp at hj
      | cons y ys =>
        obtain ⟨hl, hlen, hrest⟩ := hsh
        simp only [List.take_succ_cons, List.mem_cons] at hx
        rcases hx with hx | hx
        · subst hx
          refine ⟨hl, ?_⟩
          intro h0; simp only at h0; rw [h0] at hlen; simp at hlen; omega
        · exact ih j hrest (by simpa using hj) x hx

/-- **First displaced index.** If the presented pieces agree with the honest sealed segments on the
    first `j` entries and entry `j` is not the honest entry `j` (other ciphertext bytes, or the other
    finality flag), then — under the no-forgery hypothesis about the presented pieces — the loop
    releases exactly the plaintext of the first `j` segments and ends with `ErrDecryptionFailed`. -/
theorem first_displaced_detected (c : Crypto) (P : EncParams) (cph : Nat) (pk np : Bytes) (S : Nat) (hS : 0 < S)
    (lc : c.LawfulFor P pk np) (segs : List (Bytes × Bool)) (hsh : Shape S segs)
    (j : Nat) (hj : j < segs.length) (hmax : j ≤ P.maxSeg) (x : Bytes) (l : Bool) (rest : List (Bytes × Bool))
    (hx : x ≠ []) (fin : Terminal)
    (nf : PresentedNoForgery c P cph pk np segs (sealedSegs c P cph pk np 0 (segs.take j) ++ (x, l) :: rest) 0)
    (hbad : x ≠ c.aseal cph pk (nonceFor P np j (segs[j]).2) (segs[j]).1 ∨ l ≠ (segs[j]).2) :
    (runSegs P.maxSeg (decryptSeg c P cph pk np) (sealedSegs c P cph pk np 0 (segs.take j) ++ (x, l) :: rest) 0 fin).out
      = headTo segs j ∧
    (runSegs P.maxSeg (decryptSeg c P cph pk np) (sealedSegs c P cph pk np 0 (segs.take j) ++ (x, l) :: rest) 0 fin).term
      = .err .decryptFailed := by
  have hlen : (segs.take j).length = j := by simp; omega
  obtain ⟨h1, h2⟩ := runSegs_sealed_prefix c P cph pk np lc fin (segs.take j) ((x, l) :: rest) 0
    (shape_take S hS segs j hsh hj) (by rw [hlen]; omega)
  rw [hlen, Nat.zero_add] at h1 h2
  -- entry j does not open
  have hslen : (sealedSegs c P cph pk np 0 (segs.take j)).length = j := by
    have : ∀ (l : List (Bytes × Bool)) (i : Nat), (sealedSegs c P cph pk np i l).length = l.length := by
      intro l; induction l with
      | nil => intro i; rfl
      | cons a t ih => intro i; obtain ⟨d, f⟩ := a; rw [sealedSegs_cons]; simp [ih]
    rw [this, hlen]
  have nfj := presented_drop c P cph pk np segs _ _ 0 nf
  rw [hslen, Nat.zero_add] at nfj
  have hfail : decryptSeg c P cph pk np x j l = .error .decryptFailed := by
    have hxe : x.isEmpty = false := by simpa using hx
    unfold decryptSeg
    simp only [hxe, Bool.false_eq_true, if_false]
    cases hop : c.aopen cph pk (nonceFor P np j l) x with
    | none => rfl
    | some q =>
      exfalso
      obtain ⟨_, hxe', hl'⟩ := nfj.1 q hop
      rcases hbad with hb | hb
      · exact hb hxe'
      · exact hb hl'
  obtain ⟨e1, e2⟩ := runSegs_head_error P.maxSeg _ x l rest j fin _ hfail
  rw [h1, h2, e1, e2, List.append_nil]
  exact ⟨rfl, rfl⟩

/-! ### from bytes to presented pieces -/

/-- A payload that starts with full pieces followed by at least one more byte is split into those
    pieces (flagged non-final) and the split of the remainder. -/
theorem segments_full_prefix (T : Nat) (hT : 0 < T) : ∀ (pieces : List Bytes) (tail : Bytes),
    (∀ x ∈ pieces, x.length = T) → tail ≠ [] →
    segments T (pieces.flatten ++ tail) = pieces.map (·, false) ++ segments T tail := by
  intro pieces
  induction pieces with
  | nil => intro tail _ _; simp
  | cons a t ih =>
    intro tail hfull hne
    have ha : a.length = T := hfull a (by simp)
    have htpos : 0 < tail.length := List.length_pos_iff.mpr hne
    simp only [List.flatten_cons, List.append_assoc, List.map_cons, List.cons_append]
    rw [segments_gt T hT _ (by simp only [List.length_append]; omega)]
    rw [List.take_left' ha, List.drop_left' ha, ih tail (fun x hx => hfull x (by simp [hx])) hne]

/-- The honest sealed non-final segments are full pieces flagged `false`. -/
theorem sealed_take_full (c : Crypto) (P : EncParams) (cph : Nat) (pk np : Bytes) (lc : c.LawfulFor P pk np) :
    ∀ (pre : List (Bytes × Bool)) (i : Nat), (∀ x ∈ pre, x.2 = false ∧ x.1.length = P.segSize) →
    sealedSegs c P cph pk np i pre = ((sealedSegs c P cph pk np i pre).map (·.1)).map (·, false) ∧
    ∀ y ∈ (sealedSegs c P cph pk np i pre).map (·.1), y.length = P.segSize + P.overhead := by
  intro pre
  induction pre with
  | nil => intro i _; exact ⟨rfl, fun y hy => by simp [sealedSegs] at hy⟩
  | cons a t ih =>
    intro i h
    obtain ⟨d, l⟩ := a
    obtain ⟨hl, hd⟩ := h (d, l) (by simp)
    simp only at hl hd
    obtain ⟨i1, i2⟩ := ih (i + 1) (fun x hx => h x (by simp [hx]))
    rw [sealedSegs_cons]
    constructor
    · simp only [List.map_cons, hl]; rw [← i1]
    · intro y hy
      simp only [List.map_cons, List.mem_cons] at hy
      rcases hy with hy | hy
      · rw [hy, lc.seal_length, hd]
      · exact i2 y hy

theorem shape_take_full (S : Nat) : ∀ (segs : List (Bytes × Bool)) (j : Nat), Shape S segs → j < segs.length →
    ∀ x ∈ segs.take j, x.2 = false ∧ x.1.length = S := by
  intro segs
  induction segs with
  | nil => intro j _ h; simp at h
  | cons a t ih =>
    intro j hsh hj x hx
    cases j with
    | zero => simp at hx
    | succ j =>
      obtain ⟨d, l⟩ := a
      cases t with
      | nil => simp at hj
      | cons y ys =>
        obtain ⟨hl, hlen, hrest⟩ := hsh
        simp only [List.take_succ_cons, List.mem_cons] at hx
        rcases hx with hx | hx
        · subst hx; exact ⟨hl, hlen⟩
        · exact ih j hrest (by simpa using hj) x hx


/-- Ciphertext of honest segment `j`. -/
def ctOf (c : Crypto) (P : EncParams) (cph : Nat) (pk np : Bytes) (segs : List (Bytes × Bool)) (j : Nat) : Bytes :=
  match segs[j]? with
  | some (d, l) => c.aseal cph pk (nonceFor P np j l) d
  | none => []

/-- The bytes of the first `j` honest sealed segments. -/
def prefixBytes (c : Crypto) (P : EncParams) (cph : Nat) (pk np : Bytes) (segs : List (Bytes × Bool)) (j : Nat) : Bytes :=
  ((sealedSegs c P cph pk np 0 (segs.take j)).map (·.1)).flatten

theorem ctOf_eq (c : Crypto) (P : EncParams) (cph : Nat) (pk np : Bytes) (segs : List (Bytes × Bool)) (j : Nat)
    (hj : j < segs.length) : ctOf c P cph pk np segs j = c.aseal cph pk (nonceFor P np j (segs[j]).2) (segs[j]).1 := by
  simp [ctOf, List.getElem?_eq_getElem hj]

theorem segments_head (T : Nat) (hT : 0 < T) (tail : Bytes) (hne : tail ≠ []) :
    ∃ rest, segments T tail = (tail.take T, decide (tail.length ≤ T)) :: rest := by
  by_cases h : tail.length ≤ T
  · refine ⟨[], ?_⟩
    rw [segments_le T tail hne h, List.take_of_length_le h]
    simp [h]
  · refine ⟨segments T (tail.drop T), ?_⟩
    rw [segments_gt T hT tail (by omega)]
    simp [h]

/-- **Byte-level master statement.** A payload that starts with the first `j` honest sealed segments
    and whose next piece (the next `min(T, rest)` bytes, final iff nothing follows) is not the honest
    sealed segment `j` with its flag: the loop — under any chunking of the source — releases exactly
    the first `j` plaintext segments and ends with `ErrDecryptionFailed`. -/
theorem payload_deviation_detected (c : Crypto) (P : EncParams) (pwf : P.WF) (cph : Nat) (pk np : Bytes)
    (lc : c.LawfulFor P pk np) (p : Bytes) (j : Nat) (hj : j < (segments P.segSize p).length) (hmax : j ≤ P.maxSeg)
    (tail : Bytes) (hne : tail ≠ [])
    (hbad : tail.take (P.segSize + P.overhead) ≠ ctOf c P cph pk np (segments P.segSize p) j ∨
      decide (tail.length ≤ P.segSize + P.overhead) ≠ ((segments P.segSize p)[j]).2)
    (r : Reader) (heof : r.term = .eof)
    (hstream : r.stream = prefixBytes c P cph pk np (segments P.segSize p) j ++ tail)
    (nf : PresentedNoForgery c P cph pk np (segments P.segSize p)
      (segments (P.segSize + P.overhead) r.stream) 0) :
    (processSegments (P.segSize + P.overhead) P.maxSeg (decryptSeg c P cph pk np) r).out
      = headTo (segments P.segSize p) j ∧
    (processSegments (P.segSize + P.overhead) P.maxSeg (decryptSeg c P cph pk np) r).term = .err .decryptFailed := by
  have hT : 0 < P.segSize + P.overhead := by have := pwf.seg_pos; omega
  have hsh := segments_shape P.segSize pwf.seg_pos p
  have hfails : r.term.fails = false := by rw [heof]; rfl
  have hconf : confirmed (P.segSize + P.overhead) r none = segments (P.segSize + P.overhead) r.stream := by
    simp [confirmed, visible, hfails]
  -- the presented pieces
  obtain ⟨s1, s2⟩ := sealed_take_full c P cph pk np lc ((segments P.segSize p).take j) 0
    (shape_take_full P.segSize _ j hsh hj)
  obtain ⟨rest, hhead⟩ := segments_head (P.segSize + P.overhead) hT tail hne
  have hsplit : segments (P.segSize + P.overhead) r.stream =
      sealedSegs c P cph pk np 0 ((segments P.segSize p).take j) ++
        (tail.take (P.segSize + P.overhead), decide (tail.length ≤ P.segSize + P.overhead)) :: rest := by
    rw [hstream, prefixBytes, segments_full_prefix _ hT _ tail s2 hne, ← s1, hhead]
  have hx : tail.take (P.segSize + P.overhead) ≠ [] := by
    intro h
    have := congrArg List.length h
    have htl : 0 < tail.length := List.length_pos_iff.mpr hne
    simp only [List.length_take, List.length_nil] at this
    omega
  rw [processSegments_spec _ _ _ hT r, hconf, hsplit]
  rw [hsplit] at nf
  rw [ctOf_eq c P cph pk np _ j hj] at hbad
  exact first_displaced_detected c P cph pk np P.segSize pwf.seg_pos lc _ hsh j hj hmax _ _ rest hx _ nf hbad


theorem sealedSegs_append (c : Crypto) (P : EncParams) (cph : Nat) (pk np : Bytes) :
    ∀ (a b : List (Bytes × Bool)) (i : Nat),
      sealedSegs c P cph pk np i (a ++ b) = sealedSegs c P cph pk np i a ++ sealedSegs c P cph pk np (i + a.length) b := by
  intro a
  induction a with
  | nil => intro b i; simp [sealedSegs]
  | cons x t ih =>
    intro b i
    obtain ⟨d, l⟩ := x
    rw [List.cons_append, sealedSegs_cons, sealedSegs_cons, ih, List.cons_append]
    simp [Nat.add_assoc, Nat.add_comm 1]

theorem sealedSegs_take_succ (c : Crypto) (P : EncParams) (cph : Nat) (pk np : Bytes) (segs : List (Bytes × Bool))
    (j : Nat) (hj : j < segs.length) :
    sealedSegs c P cph pk np 0 (segs.take (j + 1)) =
      sealedSegs c P cph pk np 0 (segs.take j) ++ [(ctOf c P cph pk np segs j, (segs[j]).2)] := by
  have hlen : (segs.take j).length = j := by simp; omega
  rw [List.take_succ_eq_append_getElem hj, sealedSegs_append, hlen, Nat.zero_add, ctOf_eq _ _ _ _ _ _ _ hj]
  rfl

theorem prefixBytes_succ (c : Crypto) (P : EncParams) (cph : Nat) (pk np : Bytes) (segs : List (Bytes × Bool))
    (j : Nat) (hj : j < segs.length) :
    prefixBytes c P cph pk np segs (j + 1) = prefixBytes c P cph pk np segs j ++ ctOf c P cph pk np segs j := by
  simp [prefixBytes, sealedSegs_take_succ c P cph pk np segs j hj]

/-- Facts about honest segment `j` read off the shape of the split. -/
theorem shape_getElem (S : Nat) : ∀ (segs : List (Bytes × Bool)) (j : Nat) (hj : j < segs.length), Shape S segs →
    0 < (segs[j]).1.length ∧ (segs[j]).1.length ≤ S ∧
    (j + 1 < segs.length → (segs[j]).1.length = S ∧ (segs[j]).2 = false) ∧
    (j + 1 = segs.length → (segs[j]).2 = true) := by
  intro segs
  induction segs with
  | nil => intro j hj; simp at hj
  | cons a t ih =>
    intro j hj hsh
    obtain ⟨d, l⟩ := a
    cases t with
    | nil =>
      obtain ⟨hl, hpos, hle⟩ := hsh
      have : j = 0 := by simp at hj; omega
      subst this
      exact ⟨hpos, hle, fun h => by simp at h, fun _ => hl⟩
    | cons y ys =>
      obtain ⟨hl, hlen, hrest⟩ := hsh
      cases j with
      | zero =>
        have hpos : 0 < S := by
          have := ih 0 (by simp) hrest
          omega
        exact ⟨by simp only [List.getElem_cons_zero]; omega, by simp only [List.getElem_cons_zero]; omega,
          fun _ => ⟨hlen, hl⟩, fun h => by simp at h⟩
      | succ j =>
        have := ih j (by simpa using hj) hrest
        simp only [List.getElem_cons_succ, List.length_cons] at this ⊢
        exact ⟨this.1, this.2.1, fun h => this.2.2.1 (by omega), fun h => this.2.2.2 (by omega)⟩

theorem ctOf_length (c : Crypto) (P : EncParams) (cph : Nat) (pk np : Bytes) (lc : c.LawfulFor P pk np)
    (segs : List (Bytes × Bool)) (j : Nat) (hj : j < segs.length) :
    (ctOf c P cph pk np segs j).length = (segs[j]).1.length + P.overhead := by
  rw [ctOf_eq _ _ _ _ _ _ _ hj, lc.seal_length]

end Kit.Enc
