import KitModel.NoPanicKW
/-! Helper lemmas for C07: the length-level model of aeskw never leaves its bounds. -/
namespace Kit.NoPanic.KW
open Kit Kit.NoPanic

theorem forRange_ok (body : Nat → Outcome Unit) : ∀ (fuel lo : Nat),
    (∀ i, lo ≤ i → i < lo + fuel → body i = .ok ()) → forRange body fuel lo = .ok () := by
  intro fuel
  induction fuel with
  | zero => intro lo _; rfl
  | succ n ih =>
    intro lo h
    unfold forRange
    rw [h lo (Nat.le_refl _) (by omega), bind_ok]
    exact ih (lo + 1) (fun i h1 h2 => h i (by omega) (by omega))

theorem idxI_ok {n : Nat} {i : Int} (h0 : 0 ≤ i) (h1 : i < n) : idxI n i = .ok () := by
  unfold idxI
  rw [if_pos ⟨h0, h1⟩]

theorem sliceChk_ok {n : Nat} {lo hi : Int} (h0 : 0 ≤ lo) (h1 : lo ≤ hi) (h2 : hi ≤ n) : sliceChk n lo hi = .ok () := by
  unfold sliceChk
  rw [if_pos ⟨h0, h1, h2⟩]

theorem makeChk_nat (n : Nat) : makeChk (n : Int) = .ok n := by
  unfold makeChk
  rw [if_pos (by omega)]
  simp

theorem bind_eq {α β} {x : Outcome α} {a : α} {f : α → Outcome β} {r : Outcome β}
    (h1 : x = .ok a) (h2 : f a = r) : x.bind f = r := by
  rw [h1]; exact h2

theorem makeChk8 : makeChk 8 = .ok 8 := by decide

theorem arrXor_ok (l r : Nat) (h : l ≤ r) : arrXor l r = .ok l := by
  unfold arrXor
  refine bind_eq (makeChk_nat l) (bind_eq (forRange_ok _ _ _ ?_) rfl)
  intro x _ hx
  exact bind_eq (idxI_ok (by omega) (by omega)) (bind_eq (idxI_ok (by omega) (by omega)) (idxI_ok (by omega) (by omega)))

theorem arrConcat_ok (arrays : List Nat) (h : 1 ≤ arrays.length) : arrConcat arrays = .ok arrays.sum := by
  unfold arrConcat
  exact bind_eq (idxI_ok (by omega) (by omega)) (bind_eq (makeChk_nat _) (bind_eq (idxI_ok (by omega) (by omega))
    (bind_eq (sliceChk_ok (by omega) (by omega) (by omega)) rfl)))

theorem arrConcat_empty_panics : (arrConcat []).isPanic = true := by decide

theorem blockCrypt16 : blockCrypt 16 = .ok () := by decide
theorem putUint64_8 : putUint64 8 = .ok () := by decide

theorem wrapBody_ok (n i : Nat) (h1 : 1 ≤ i) (h2 : i ≤ n) : wrapBody n i = .ok () := by
  unfold wrapBody
  have hc : arrConcat [8, 8] = .ok 16 := arrConcat_ok [8, 8] (by decide)
  have hx : arrXor (16 / 2) 8 = .ok (16 / 2) := arrXor_ok _ _ (by decide)
  refine bind_eq (idxI_ok (by omega) (by omega)) (bind_eq hc (bind_eq blockCrypt16 (bind_eq makeChk8
    (bind_eq putUint64_8 (bind_eq (sliceChk_ok (by omega) (by omega) (by omega)) (bind_eq hx
      (bind_eq (idxI_ok (by omega) (by omega)) (sliceChk_ok (by omega) (by omega) (by omega)))))))))

theorem unwrapBody_ok (n i : Nat) (h1 : 1 ≤ i) (h2 : i ≤ n) : unwrapBody n i = .ok () := by
  unfold unwrapBody
  have hc : arrConcat [8, 8] = .ok 16 := arrConcat_ok [8, 8] (by decide)
  have hx : arrXor 8 8 = .ok 8 := arrXor_ok _ _ (by decide)
  refine bind_eq makeChk8 (bind_eq putUint64_8 (bind_eq hx (bind_eq (idxI_ok (by omega) (by omega))
    (bind_eq hc (bind_eq blockCrypt16 (bind_eq (sliceChk_ok (by omega) (by omega) (by omega))
      (bind_eq (idxI_ok (by omega) (by omega)) (sliceChk_ok (by omega) (by omega) (by omega)))))))))

theorem rounds_ok (body : Nat → Outcome Unit) (n : Nat) (h : ∀ i, 1 ≤ i → i ≤ n → body i = .ok ()) :
    forRange (fun _ => forRange body n 1) 6 0 = .ok () := by
  apply forRange_ok
  intro _ _ _
  apply forRange_ok
  intro i h1 h2
  exact h i h1 (by omega)

theorem wrap_ok (cekLen : Nat) (h8 : cekLen % 8 = 0) (h16 : 16 ≤ cekLen) :
    wrap cekLen = .ok ((cekLen / 8 + 1) * 8) := by
  unfold wrap
  rw [if_neg (by omega), if_neg (by omega)]
  refine bind_eq makeChk8 (bind_eq (makeChk_nat _) (bind_eq (forRange_ok _ _ _ ?_)
    (bind_eq (rounds_ok _ _ (wrapBody_ok (cekLen / 8))) (bind_eq (makeChk_nat _) (bind_eq (forRange_ok _ _ _ ?_) rfl)))))
  · intro i _ h2
    exact bind_eq (idxI_ok (by omega) (by omega)) (bind_eq makeChk8 (bind_eq (idxI_ok (by omega) (by omega))
      (sliceChk_ok (by omega) (by omega) (by omega))))
  · intro i h1 h2
    refine bind_eq (idxI_ok (by omega) (by omega)) (forRange_ok _ _ _ ?_)
    intro j _ hj
    exact bind_eq (idxI_ok (by omega) (by omega)) (bind_eq (idxI_ok (by omega) (by omega)) (idxI_ok (by omega) (by omega)))

theorem unwrap_noPanic (len : Nat) (intact : Bool) : (unwrap len intact).isPanic = false := by
  unfold unwrap
  by_cases hg : len < 24 ∨ len % 8 ≠ 0
  · rw [if_pos hg]; rfl
  · rw [if_neg hg]
    have h24 : 24 ≤ len := by omega
    have h8 : len % 8 = 0 := by omega
    have hn : ((len / 8 : Nat) : Int) - 1 = ((len / 8 - 1 : Nat) : Int) := by omega
    rw [hn]
    have hpre : ∀ k : Nat → Outcome Nat, (k (len / 8 - 1)).isPanic = false →
        ((makeChk 8).bind fun _ => (makeChk ((len / 8 - 1 : Nat) : Int)).bind k).isPanic = false := by
      intro k hk
      rw [makeChk8, bind_ok, makeChk_nat, bind_ok]; exact hk
    apply hpre
    have h1 : forRange (fun i => (idxI (len / 8 - 1) i).bind fun _ => (makeChk 8).bind fun _ =>
        (idxI (len / 8 - 1) i).bind fun _ => sliceChk len ((i + 1) * 8 : Nat) len) (len / 8 - 1) 0 = .ok () := by
      apply forRange_ok
      intro i _ h2
      exact bind_eq (idxI_ok (by omega) (by omega)) (bind_eq makeChk8 (bind_eq (idxI_ok (by omega) (by omega))
        (sliceChk_ok (by omega) (by omega) (by omega))))
    rw [h1, bind_ok, sliceChk_ok (by omega) (by omega) (by omega), bind_ok,
      rounds_ok _ _ (unwrapBody_ok (len / 8 - 1)), bind_ok]
    cases intact
    · rfl
    · simp only [Bool.not_true, Bool.false_eq_true, if_false]
      rw [arrConcat_ok _ (by simp; omega)]
      rfl

end Kit.NoPanic.KW
