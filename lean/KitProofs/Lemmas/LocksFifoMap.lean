import KitModel.Locks.FifoMap
namespace Kit.Locks.FifoMap
open Kit.Locks

/-- pointer held while counted in `ilen` -/
def PC.ptr : PC → Option (Key × Nat)
  | .lkLooked k m | .lkQueued k m | .lkGranted k m | .holding k m | .ulCalled k m => some (k, m)
  | _ => none

/-- the item mutex whose slot holds this goroutine's token -/
def PC.ownsMx : PC → Option Nat
  | .lkGranted _ m | .holding _ m | .ulCalled _ m | .ulMapped _ m => some m
  | _ => none

def PC.queuedOn : PC → Option Nat
  | .lkQueued _ m => some m
  | _ => none

def PC.anyMx : PC → Option Nat
  | .lkLooked _ m | .lkQueued _ m | .lkGranted _ m | .holding _ m | .ulCalled _ m | .ulMapped _ m => some m
  | _ => none

theorem anyMx_of_ownsMx {pc : PC} {m : Nat} (h : pc.ownsMx = some m) : pc.anyMx = some m := by
  cases pc <;> simp_all [PC.ownsMx, PC.anyMx]
theorem anyMx_of_queuedOn {pc : PC} {m : Nat} (h : pc.queuedOn = some m) : pc.anyMx = some m := by
  cases pc <;> simp_all [PC.queuedOn, PC.anyMx]
theorem anyMx_of_ptr {pc : PC} {k m : Nat} (h : pc.ptr = some (k, m)) : pc.anyMx = some m := by
  cases pc <;> simp_all [PC.ptr, PC.anyMx]

theorem countedOn_of_ptr {pc : PC} {k m : Nat} (h : pc.ptr = some (k, m)) : pc.countedOn k = true := by
  cases pc <;> simp_all [PC.ptr, PC.countedOn]

theorem mem_of_length_le_one {l : List Nat} {a b : Nat} (h : l.length ≤ 1) (ha : a ∈ l) (hb : b ∈ l) :
    a = b := by
  match l, h with
  | [x], _ => simp_all

def mxOf : Option Item → Option Nat
  | some it => some it.mx
  | none => none

structure Inv (s : State) : Prop where
  bnd : ∀ (k : Key) (it : Item), s.items k = some it → it.mx < s.next
  pbnd : ∀ (t : Tid) (m : Nat), (s.pcs t).anyMx = some m → m < s.next
  ptr : ∀ (t : Tid) (k : Key) (m : Nat), (s.pcs t).ptr = some (k, m) → mxOf (s.items k) = some m
  mem : ∀ (k : Key) (it : Item) (t : Tid), s.items k = some it →
          (t ∈ it.members ↔ (s.pcs t).countedOn k = true)
  cnt0 : ∀ (k : Key) (t : Tid), s.items k = none → (s.pcs t).countedOn k = false
  len : ∀ (k : Key) (it : Item), s.items k = some it →
          it.members.Nodup ∧ it.ilen = it.members.length ∧ 0 < it.ilen
  own : ∀ (m : Nat) (t : Tid), (s.mxs m).slot = some t ↔ (s.pcs t).ownsMx = some m
  que : ∀ (m : Nat) (t : Tid), t ∈ (s.mxs m).sendq ↔ (s.pcs t).queuedOn = some m
  nodup : ∀ (m : Nat), (s.mxs m).sendq.Nodup
  hist : ∀ (m : Nat), (s.mxs m).arrivals = (s.mxs m).grants ++ (s.mxs m).sendq
  empty : ∀ (m : Nat), (s.mxs m).slot = none → (s.mxs m).sendq = []

theorem inv_init (n nk : Nat) : Inv (init n nk) := by
  constructor <;> simp [init, mxOf, PC.countedOn, PC.anyMx, PC.ptr, PC.ownsMx, PC.queuedOn, newMx]

macro "fm_close" : tactic =>
  `(tactic| (constructor <;> dsimp only <;>
      grind [→ countedOn_of_ptr, → anyMx_of_ownsMx, → anyMx_of_queuedOn, → anyMx_of_ptr, mxOf, newMx, PC.anyMx, PC.ptr, PC.ownsMx, PC.queuedOn, PC.countedOn, mem_of_length_le_one,
             List.Nodup.mem_erase_iff, List.Nodup.erase, List.length_erase_of_mem]))

theorem inv_call (s : State) (t : Tid) (op : Op) (s' : State) (h : Inv s)
    (hs : step s (.call t op) = some s') : Inv s' := by
  obtain ⟨bnd, pbnd, ptr, mem, cnt0, len, own, que, nodup, hist, empty⟩ := h
  cases op <;> simp only [step] at hs <;> split at hs <;> (try split at hs) <;> simp at hs <;> subst hs
  · fm_close
  · fm_close

theorem inv_ret (s : State) (t : Tid) (r : Unit) (s' : State) (h : Inv s)
    (hs : step s (.ret t r) = some s') : Inv s' := by
  obtain ⟨bnd, pbnd, ptr, mem, cnt0, len, own, que, nodup, hist, empty⟩ := h
  simp only [step] at hs; split at hs <;> simp at hs <;> subst hs
  · fm_close
  · fm_close

theorem inv_probe (s : State) (t : Tid) (p : Probe) (s' : State) (h : Inv s)
    (hs : step s (.probe t p) = some s') : Inv s' := by
  cases p <;> simp only [step] at hs <;> split at hs <;> simp at hs <;> subst hs <;> exact h

theorem inv_tau (s : State) (t : Tid) (alt : Nat) (s' : State) (h : Inv s)
    (hs : step s (.tau t alt) = some s') : Inv s' := by
  obtain ⟨bnd, pbnd, ptr, mem, cnt0, len, own, que, nodup, hist, empty⟩ := h
  simp only [step] at hs
  split at hs
  · -- lkCalled
    split at hs <;> simp at hs <;> subst hs
    · fm_close
    · fm_close
  · -- lkLooked
    split at hs <;> simp at hs <;> subst hs
    · fm_close
    · fm_close
  · -- ulCalled
    split at hs <;> simp at hs <;> subst hs
    rename_i k m heq _ it hit
    have huniq : it.ilen - 1 = 0 → ∀ t', (s.pcs t').countedOn k = true → t' = t := by
      intro h0 t' ht'
      have h1 := (mem k it t' hit).mpr ht'
      have h2 := (mem k it t hit).mpr (by simp [heq, PC.countedOn])
      have h3 := len k it hit
      exact mem_of_length_le_one (by omega) h1 h2
    fm_close
  · -- ulMapped
    rename_i k m heq
    have hslot : (s.mxs m).slot = some t := (own m t).mpr (by simp [heq, PC.ownsMx])
    split at hs
    · simp at hs
    · split at hs
      · simp at hs; subst hs; fm_close
      · rename_i h rest hq
        have hqh : (s.pcs h).queuedOn = some m := (que m h).mp (by simp [hq])
        have hnd := nodup m
        rw [hq] at hnd
        split at hs <;> simp at hs; subst hs
        constructor <;> dsimp only
        case own =>
          intro m' t'
          have a1 := own m' t'
          have a2 := own m t'
          have a3 := own m' h
          have a4 := own m' t
          clear bnd pbnd ptr mem cnt0 len que nodup hist empty own
          grind [PC.ownsMx, PC.queuedOn]
        all_goals grind [→ countedOn_of_ptr, → anyMx_of_ownsMx, → anyMx_of_queuedOn, → anyMx_of_ptr, mxOf, newMx, PC.anyMx, PC.ptr, PC.ownsMx, PC.queuedOn, PC.countedOn]
  · simp at hs

theorem inv_step (s : State) (a : L) (s' : State) (h : Inv s) (hs : lts.step s a = some s') : Inv s' := by
  cases a with
  | call t op => exact inv_call s t op s' h hs
  | tau t alt => exact inv_tau s t alt s' h hs
  | ret t r => exact inv_ret s t r s' h hs
  | probe t p => exact inv_probe s t p s' h hs
  | sys i alt => simp [lts, step] at hs
  | env e => simp [lts, step] at hs

theorem inv_reach (n nk : Nat) (s : State) (h : Reach lts (init n nk) s) : Inv s :=
  Reach.inv Inv (inv_init n nk) inv_step s h

end Kit.Locks.FifoMap
