import KitProofs.Lemmas.RunnerCloserC
/-! C12 helper lemmas: the grace period as Go passes it (`*time.Duration`, a signed 64-bit count,
possibly zero or negative) and the invariant "a timer created with a period ≤ 0 has expired the
instant it exists". -/
namespace Kit.Runner

/-- The configuration of a manager built by `NewRunnerCloserManager(log, gracePeriod, …)`:
`none` = nil pointer (no watchdog closer), `some g` = any `time.Duration`, **including g ≤ 0**.
`clock.NewTimer(d)` with `d ≤ 0` delivers at once (as `time.NewTimer`), i.e. its deadline is the
instant of its creation: the model's `now + g.toNat` (`Int.toNat` of a non-positive value is 0). -/
def Cfg.ofGoGrace (g : Option Int) : Cfg := { grace := g.map Int.toNat }

@[simp] theorem Cfg.ofGoGrace_none : (Cfg.ofGoGrace none).grace = none := rfl

theorem Cfg.ofGoGrace_nonpos {g : Int} (hg : g ≤ 0) : (Cfg.ofGoGrace (some g)).grace = some 0 := by
  simp [Cfg.ofGoGrace, Int.toNat_eq_zero.mpr hg]

theorem Cfg.ofGoGrace_pos {g : Int} (hg : 0 < g) :
    ∃ n : Nat, (Cfg.ofGoGrace (some g)).grace = some n ∧ (n : Int) = g ∧ 0 < n := by
  refine ⟨g.toNat, rfl, ?_, ?_⟩ <;> omega

/-- With a grace period of 0 units every deadline that exists has been reached. -/
def RCM.InvZ (s : RCM) : Prop := ∀ dl, s.deadline = some dl → dl ≤ s.now

theorem RCM.invZ_init : RCM.InvZ {} := by
  intro dl h; simp at h

set_option maxHeartbeats 4000000 in
theorem RCM.invZ_step (cfg : Cfg) (hz : cfg.grace = some 0) {s s' : RCM} (a : Label) (h : RCM.InvZ s)
    (hs : s.step cfg a = some s') : RCM.InvZ s' := by
  unfold RCM.InvZ at *
  cases a with
  | inner b =>
    simp only [RCM.step] at hs
    split at hs
    · cases hb : s.inner.step b with
      | none => simp [hb] at hs
      | some r =>
        simp [hb] at hs; subst hs
        exact h
    · simp at hs
  | _ => grind [RCM.step, timerExpired]

theorem RCM.invZ_of_reach {cfg : Cfg} (hz : cfg.grace = some 0) {s : RCM} (hr : RCM.Reach cfg s) :
    RCM.InvZ s := by
  induction hr with
  | init => exact RCM.invZ_init
  | step a _ hs ih => exact RCM.invZ_step cfg hz a ih hs

/-- With a grace period of 0 units the recorded decision of the watchdog's `select` always saw an
expired timer. -/
def RCM.InvZD (s : RCM) : Prop :=
  (∀ dl, s.deadline = some dl → dl ≤ s.now) ∧ (∀ dl, s.fpc = .armed dl → s.deadline = some dl) ∧
  (∀ d, s.decision = some d → d.expired = true) ∧ (∀ dl, s.fpc ≠ .parked dl)

set_option maxHeartbeats 4000000 in
theorem RCM.invZD_step (cfg : Cfg) (hz : cfg.grace = some 0) {s s' : RCM} (a : Label) (h : RCM.InvZD s)
    (hs : s.step cfg a = some s') : RCM.InvZD s' := by
  unfold RCM.InvZD at *
  obtain ⟨h1, h2, h3, h4⟩ := h
  cases a with
  | inner b =>
    simp only [RCM.step] at hs
    split at hs
    · cases hb : s.inner.step b with
      | none => simp [hb] at hs
      | some r =>
        simp [hb] at hs; subst hs
        exact ⟨h1, h2, h3, h4⟩
    · simp at hs
  | _ => refine ⟨?_, ?_, ?_, ?_⟩ <;> grind [RCM.step, timerExpired]

theorem RCM.dec_expired_of_invZ {cfg : Cfg} (hz : cfg.grace = some 0) {s : RCM} (hr : RCM.Reach cfg s) :
    ∀ d, s.decision = some d → d.expired = true := by
  have : RCM.InvZD s := by
    induction hr with
    | init => exact ⟨by simp, by simp, by simp, by simp⟩
    | step a _ hs ih => exact RCM.invZD_step cfg hz a ih hs
  exact this.2.2.1

end Kit.Runner
