import KitModel.Spiffe
/-! Helper lemmas for property C19: the renewal automaton (`RN`, `fetch`, `wake`, `settle`). -/
namespace Kit.Spiffe

theorem minute_pos : 0 < minute := by decide
theorem tenSec_pos : 0 < tenSec := by decide

/-- File set written for a successful request. -/
def fileSetOf (r : Req) : FileSet := ⟨r.tok, r.tok, r.anchors⟩

/-- Renewal time of the certificate a fetch returned (0 for a failed fetch). -/
def halfOf : Option Cert → Int
  | some c => renewalTime c.nb c.na
  | none => 0

/-- What one `fetchIdentityCertificate` call does. -/
structure FetchSpec (s s1 : RN) (r : Option Cert) : Prop where
  now : s1.now = s.now
  mode : s1.mode = s.mode
  svid : s1.svid = s.svid
  renewAt : s1.renewAt = s.renewAt
  wakeAt : s1.wakeAt = s.wakeAt
  armedAt : s1.armedAt = s.armedAt
  dirOn : s1.dirOn = s.dirOn
  anchors : s1.anchors = s.anchors
  timers : s1.timers = s.timers
  nextTok : s1.nextTok = s.nextTok + 1
  script : s1.script = s.script.tail
  log : s1.log = ⟨s.now, s.nextTok, r.isSome, s.anchors, halfOf r⟩ :: s.log
  tok : ∀ c, r = some c → c.tok = s.nextTok
  pub : s1.pub = if s.dirOn && r.isSome then ⟨s.nextTok, s.nextTok, s.anchors⟩ :: s.pub else s.pub
  emptyFail : s.script = [] → r = none

theorem fetch_spec (s : RN) : FetchSpec s (fetch s).1 (fetch s).2 := by
  unfold fetch
  cases hs : s.script with
  | nil => constructor <;> simp [hs, halfOf]
  | cons r rest =>
    cases r with
    | fail => constructor <;> simp [hs, halfOf]
    | ok nb na => constructor <;> simp [hs, halfOf]
    | okAnchorsFail nb na =>
      cases hd : s.dirOn <;> constructor <;> simp [hd, hs, halfOf]

/-- Data invariant: what is served, which keys were used, what was published. -/
structure DInv (s : RN) : Prop where
  served : s.svid.map (·.tok) = lastGood s.log
  toks : s.log.map (·.tok) = (List.range s.nextTok).reverse
  pubs : s.pub = if s.dirOn then (s.log.filter (·.good)).map fileSetOf else []

/-- Loop invariant of the rotation loop (holds between any two wakes). -/
structure LInv (s : RN) : Prop where
  waiting : s.mode = .waiting → s.wakeAt ≤ s.renewAt ∧ s.wakeAt ≤ s.armedAt + minute ∧ s.armedAt ≤ s.now
  retrying : s.mode = .retrying → s.wakeAt = s.armedAt + tenSec ∧ s.armedAt ≤ s.now ∧ s.renewAt ≤ s.armedAt ∧
    ∃ r rest, s.log = r :: rest ∧ r.good = false ∧ r.stamp = s.armedAt
  data : DInv s

theorem arm_fields (s : RN) :
    (arm s).mode = .waiting ∧ (arm s).wakeAt = s.now + min minute (s.renewAt - s.now) ∧
    (arm s).armedAt = s.now ∧ (arm s).now = s.now ∧ (arm s).renewAt = s.renewAt ∧
    (arm s).svid = s.svid ∧ (arm s).log = s.log ∧ (arm s).nextTok = s.nextTok ∧ (arm s).pub = s.pub ∧
    (arm s).dirOn = s.dirOn ∧ (arm s).script = s.script ∧ (arm s).anchors = s.anchors := by
  simp [arm]

theorem linv_arm {s : RN} (h : DInv s) : LInv (arm s) := by
  obtain ⟨hm, hw, ha, hn, hr, hs, hl, ht, hp, hd, _, _⟩ := arm_fields s
  have := minute_pos
  refine ⟨?_, ?_, ?_, ?_, ?_⟩
  · intro _; rw [hw, ha, hn, hr]; omega
  · intro h'; rw [hm] at h'; cases h'
  · rw [hs, hl]; exact h.served
  · rw [hl, ht]; exact h.toks
  · rw [hp, hd, hl]; exact h.pubs

theorem wake_cases (s : RN) :
    (s.mode = .dead ∧ wake s = s) ∨
    (s.mode = .retrying ∧ wake s = arm s) ∨
    (s.mode = .waiting ∧ s.now < s.renewAt ∧ wake s = arm s) ∨
    (s.mode = .waiting ∧ s.renewAt ≤ s.now ∧ (fetch s).2 = none ∧
      wake s = { (fetch s).1 with mode := .retrying, wakeAt := s.now + tenSec, armedAt := s.now,
                                  timers := (s.now, tenSec) :: (fetch s).1.timers }) ∨
    (s.mode = .waiting ∧ s.renewAt ≤ s.now ∧ ∃ c, (fetch s).2 = some c ∧
      wake s = arm { (fetch s).1 with svid := some c, renewAt := renewalTime c.nb c.na }) := by
  unfold wake
  cases hm : s.mode with
  | dead => simp
  | retrying => simp
  | waiting =>
    by_cases hlt : s.now < s.renewAt
    · simp [hlt]
    · have hle : s.renewAt ≤ s.now := by omega
      simp only [hlt, if_false]
      rcases hf : fetch s with ⟨s1, r⟩
      cases r with
      | none => simp [hle]
      | some c => simp [hle]

theorem range_succ_reverse (n : Nat) : (List.range (n + 1)).reverse = n :: (List.range n).reverse := by
  simp [List.range_succ]

theorem dinv_congr {s s' : RN} (h1 : s'.svid = s.svid) (h2 : s'.log = s.log) (h3 : s'.nextTok = s.nextTok)
    (h4 : s'.pub = s.pub) (h5 : s'.dirOn = s.dirOn) (h : DInv s) : DInv s' :=
  ⟨by rw [h1, h2]; exact h.served, by rw [h2, h3]; exact h.toks, by rw [h4, h5, h2]; exact h.pubs⟩

/-- After a fetch, with `currentSVID` swapped if it succeeded. -/
theorem dinv_fetch {s : RN} (h : DInv s) (x : Int) :
    DInv (match (fetch s).2 with
          | none => (fetch s).1
          | some c => { (fetch s).1 with svid := some c, renewAt := x }) := by
  have fs := fetch_spec s
  cases hr : (fetch s).2 with
  | none =>
    rw [hr] at fs
    refine ⟨?_, ?_, ?_⟩
    · rw [fs.svid, fs.log]; simpa [lastGood] using h.served
    · rw [fs.log, fs.nextTok, range_succ_reverse]; simp [h.toks]
    · rw [fs.pub, fs.dirOn, fs.log]
      have hp := h.pubs
      cases hd : s.dirOn <;> simp [hd] at hp ⊢ <;> exact hp
  | some c =>
    rw [hr] at fs
    refine ⟨?_, ?_, ?_⟩
    · show some c.tok = lastGood (fetch s).1.log
      rw [fs.log]; simp [lastGood, fs.tok c rfl]
    · show (fetch s).1.log.map (·.tok) = (List.range (fetch s).1.nextTok).reverse
      rw [fs.log, fs.nextTok, range_succ_reverse]; simp [h.toks]
    · show (fetch s).1.pub = if (fetch s).1.dirOn then ((fetch s).1.log.filter (·.good)).map fileSetOf else []
      rw [fs.pub, fs.dirOn, fs.log]
      have hp := h.pubs
      cases hd : s.dirOn <;> simp [hd, fileSetOf] at hp ⊢ <;> exact hp

theorem linv_wake {s : RN} (h : LInv s) : LInv (wake s) := by
  rcases wake_cases s with ⟨_, hw⟩ | ⟨_, hw⟩ | ⟨_, _, hw⟩ | ⟨hm, hle, hnone, hw⟩ | ⟨hm, hle, c, hsome, hw⟩
  · rw [hw]; exact h
  · rw [hw]; exact linv_arm h.data
  · rw [hw]; exact linv_arm h.data
  · rw [hw]
    have fs := fetch_spec s
    have hd := dinv_fetch h.data 0
    rw [hnone] at fs hd
    refine ⟨?_, ?_, ?_⟩
    · intro h'; cases h'
    · intro _
      refine ⟨rfl, ?_, ?_, _, _, fs.log, rfl, rfl⟩
      · show s.now ≤ (fetch s).1.now
        rw [fs.now]; exact Int.le_refl _
      · show (fetch s).1.renewAt ≤ s.now
        rw [fs.renewAt]; exact hle
    · exact dinv_congr (s := (fetch s).1) rfl rfl rfl rfl rfl hd
  · rw [hw]
    apply linv_arm
    have hd := dinv_fetch h.data (renewalTime c.nb c.na)
    rw [hsome] at hd
    exact hd

/-! ### timers fire as soon as `now ≥ deadline`: `settle` terminates in a state with no due timer -/

def mu (s : RN) : Nat := 2 * s.script.length + (if s.mode = .retrying then 1 else 0)

theorem due_iff (s : RN) : s.due = true ↔ s.mode ≠ .dead ∧ s.wakeAt ≤ s.now := by
  simp [RN.due]

theorem wake_measure {s : RN} (hd : s.due = true) : (wake s).due = false ∨ mu (wake s) < mu s := by
  have hdue := (due_iff s).mp hd
  have hm := minute_pos
  have ht := tenSec_pos
  rcases wake_cases s with ⟨hmode, _⟩ | ⟨hmode, hw⟩ | ⟨hmode, hlt, hw⟩ | ⟨hmode, hle, hnone, hw⟩ | ⟨hmode, hle, c, hsome, hw⟩
  · exact absurd hmode hdue.1
  · right
    obtain ⟨h1, _, _, _, _, _, _, _, _, _, h11, _⟩ := arm_fields s
    rw [hw]; simp [mu, h1, h11, hmode]
  · left
    obtain ⟨h1, h2, _, h4, _⟩ := arm_fields s
    rw [hw]
    cases hdd : (arm s).due
    · rfl
    · have := (due_iff _).mp hdd
      rw [h2, h4] at this; omega
  · have fs := fetch_spec s
    cases hsc : s.script with
    | nil =>
      left
      rw [hw]
      cases hdd : RN.due _
      · rfl
      · have := (due_iff _).mp hdd
        simp [fs.now] at this; omega
    | cons r rest =>
      right
      rw [hw]
      simp [mu, fs.script, hsc, hmode]
      omega
  · have fs := fetch_spec s
    cases hsc : s.script with
    | nil => have := fs.emptyFail hsc; rw [hsome] at this; cases this
    | cons r rest =>
      right
      rw [hw]
      obtain ⟨h1, _, _, _, _, _, _, _, _, _, h11, _⟩ := arm_fields { (fetch s).1 with svid := some c, renewAt := renewalTime c.nb c.na }
      have h12 : (arm { (fetch s).1 with svid := some c, renewAt := renewalTime c.nb c.na }).script = rest := by
        rw [h11]; show (fetch s).1.script = rest; rw [fs.script, hsc]; rfl
      simp only [mu, h1, h12, hsc, hmode]
      simp

theorem settle_spec : ∀ (n : Nat) (s : RN), LInv s → mu s < n →
    (settle n s).due = false ∧ LInv (settle n s) := by
  intro n
  induction n with
  | zero => intro s _ h; omega
  | succ n ih =>
    intro s hi hlt
    simp only [settle]
    cases hd : s.due
    · simp [hd, hi]
    · simp only [if_true]
      rcases wake_measure hd with hnd | hmu
      · -- the next wake is in the future: settle stops at `wake s`
        cases n with
        | zero => simp [settle, hnd, linv_wake hi]
        | succ m => simp [settle, hnd, linv_wake hi]
      · exact ih (wake s) (linv_wake hi) (by omega)

theorem mu_lt_fuel (s : RN) : mu s < fuelOf s := by
  simp only [mu, fuelOf]; split <;> omega

theorem settled_spec {s : RN} (h : LInv s) : (settled s).due = false ∧ LInv (settled s) :=
  settle_spec _ s h (mu_lt_fuel s)

/-! ### what a wake adds to the request log -/

theorem wake_now (s : RN) : (wake s).now = s.now := by
  have fs := fetch_spec s
  rcases wake_cases s with ⟨_, hw⟩ | ⟨_, hw⟩ | ⟨_, _, hw⟩ | ⟨_, _, _, hw⟩ | ⟨_, _, c, _, hw⟩ <;> rw [hw]
  · exact (arm_fields s).2.2.2.1
  · exact (arm_fields s).2.2.2.1
  · exact fs.now
  · rw [(arm_fields _).2.2.2.1]; exact fs.now

/-- A wake at/after the renewal time (or after a retry wait has been re-armed) issues one request,
stamped with the current clock and carrying the next fresh key. -/
theorem wake_fetches {s : RN} (hm : s.mode = .waiting) (hle : s.renewAt ≤ s.now) :
    ∃ r, (wake s).log = r :: s.log ∧ r.stamp = s.now ∧ r.tok = s.nextTok ∧ r.good = (fetch s).2.isSome := by
  have fs := fetch_spec s
  rcases wake_cases s with ⟨h, _⟩ | ⟨h, _⟩ | ⟨_, hlt, _⟩ | ⟨_, _, _, hw⟩ | ⟨_, _, c, _, hw⟩
  · rw [hm] at h; cases h
  · rw [hm] at h; cases h
  · omega
  · rw [hw]; exact ⟨_, fs.log, rfl, rfl, rfl⟩
  · rw [hw, (arm_fields _).2.2.2.2.2.2.1]; exact ⟨_, fs.log, rfl, rfl, rfl⟩

theorem wake_log (s : RN) :
    (wake s).log = s.log ∨ ∃ r, (wake s).log = r :: s.log ∧ r.stamp = s.now := by
  have fs := fetch_spec s
  rcases wake_cases s with ⟨_, hw⟩ | ⟨_, hw⟩ | ⟨_, _, hw⟩ | ⟨_, _, _, hw⟩ | ⟨_, _, c, _, hw⟩ <;> rw [hw]
  · exact Or.inl rfl
  · exact Or.inl (arm_fields s).2.2.2.2.2.2.1
  · exact Or.inl (arm_fields s).2.2.2.2.2.2.1
  · exact Or.inr ⟨_, fs.log, rfl⟩
  · rw [(arm_fields _).2.2.2.2.2.2.1]; exact Or.inr ⟨_, fs.log, rfl⟩

theorem settle_log : ∀ (n : Nat) (s : RN),
    (settle n s).now = s.now ∧ ∃ pre, (settle n s).log = pre ++ s.log ∧ ∀ q ∈ pre, q.stamp = s.now := by
  intro n
  induction n with
  | zero => intro s; exact ⟨rfl, [], rfl, by simp⟩
  | succ n ih =>
    intro s
    simp only [settle]
    cases hd : s.due
    · exact ⟨rfl, [], rfl, by simp⟩
    · simp only [if_true]
      obtain ⟨hn, pre, hl, hp⟩ := ih (wake s)
      rw [wake_now] at hn hp
      refine ⟨hn, ?_⟩
      rcases wake_log s with h | ⟨r, h, hr⟩
      · exact ⟨pre, by rw [hl, h], hp⟩
      · refine ⟨pre ++ [r], by rw [hl, h]; simp, ?_⟩
        intro q hq
        simp only [List.mem_append, List.mem_singleton] at hq
        rcases hq with hq | hq
        · exact hp q hq
        · rw [hq]; exact hr

theorem lastGood_append_bad (pre log : List Req) (h : ∀ q ∈ pre, q.good = false) :
    lastGood (pre ++ log) = lastGood log := by
  induction pre with
  | nil => rfl
  | cons a l ih =>
    have ha : a.good = false := h a (by simp)
    simp only [List.cons_append, lastGood, ha]
    exact ih (fun q hq => h q (by simp [hq]))

/-! ### reachable states of the renewal automaton -/

inductive RReach (dirOn : Bool) (a0 : Nat) (script : List Reply) (t0 : Int) : RN → Prop where
  | start : RReach dirOn a0 script t0 (start dirOn a0 script t0)
  | adv {s : RN} (d : Int) : 0 < d → RReach dirOn a0 script t0 s → RReach dirOn a0 script t0 (advance s d)
  | anch {s : RN} (a : Nat) : RReach dirOn a0 script t0 s → RReach dirOn a0 script t0 (setAnchors s a)

theorem linv_advance_pre {s : RN} (h : LInv s) {d : Int} (hd : 0 ≤ d) : LInv { s with now := s.now + d } := by
  refine ⟨?_, ?_, ?_⟩
  · intro hm
    obtain ⟨h1, h2, h3⟩ := h.waiting hm
    exact ⟨h1, h2, by show s.armedAt ≤ s.now + d; omega⟩
  · intro hm
    obtain ⟨h1, h2, h3, h4⟩ := h.retrying hm
    exact ⟨h1, by show s.armedAt ≤ s.now + d; omega, h3, h4⟩
  · exact dinv_congr (s := s) rfl rfl rfl rfl rfl h.data

theorem wake_dirOn (s : RN) : (wake s).dirOn = s.dirOn := by
  have fs := fetch_spec s
  rcases wake_cases s with ⟨_, hw⟩ | ⟨_, hw⟩ | ⟨_, _, hw⟩ | ⟨_, _, _, hw⟩ | ⟨_, _, c, _, hw⟩ <;> rw [hw]
  · exact (arm_fields s).2.2.2.2.2.2.2.2.2.1
  · exact (arm_fields s).2.2.2.2.2.2.2.2.2.1
  · exact fs.dirOn
  · rw [(arm_fields _).2.2.2.2.2.2.2.2.2.1]; exact fs.dirOn

theorem settle_dirOn : ∀ (n : Nat) (s : RN), (settle n s).dirOn = s.dirOn := by
  intro n
  induction n with
  | zero => intro s; rfl
  | succ n ih =>
    intro s
    simp only [settle]
    split
    · rw [ih, wake_dirOn]
    · rfl

def start0 (dirOn : Bool) (a0 : Nat) (script : List Reply) (t0 : Int) : RN :=
  { now := t0, script := script, dirOn := dirOn, anchors := a0 }

theorem start_cases (dirOn : Bool) (a0 : Nat) (script : List Reply) (t0 : Int) :
    ((fetch (start0 dirOn a0 script t0)).2 = none ∧
      start dirOn a0 script t0 = (fetch (start0 dirOn a0 script t0)).1) ∨
    (∃ c, (fetch (start0 dirOn a0 script t0)).2 = some c ∧
      start dirOn a0 script t0 =
        settled (arm { (fetch (start0 dirOn a0 script t0)).1 with svid := some c, renewAt := renewalTime c.nb c.na })) := by
  simp only [start, start0]
  rcases fetch ({ now := t0, script := script, dirOn := dirOn, anchors := a0 } : RN) with ⟨s1, r⟩
  cases r <;> simp

theorem rinv {dirOn : Bool} {a0 : Nat} {script : List Reply} {t0 : Int} {s : RN}
    (h : RReach dirOn a0 script t0 s) : LInv s ∧ s.due = false := by
  induction h with
  | start =>
    have d0 : DInv (start0 dirOn a0 script t0) := by
      refine ⟨rfl, rfl, ?_⟩
      cases dirOn <;> rfl
    have fs := fetch_spec (start0 dirOn a0 script t0)
    rcases start_cases dirOn a0 script t0 with ⟨hn, hs⟩ | ⟨c, hc, hs⟩
    · have hd := dinv_fetch d0 0
      rw [hn] at hd
      rw [hs]
      have hmode : (fetch (start0 dirOn a0 script t0)).1.mode = .dead := fs.mode
      refine ⟨⟨?_, ?_, hd⟩, ?_⟩
      · intro h; rw [hmode] at h; cases h
      · intro h; rw [hmode] at h; cases h
      · simp [RN.due, hmode]
    · have hd := dinv_fetch d0 (renewalTime c.nb c.na)
      rw [hc] at hd
      rw [hs]
      have := settled_spec (linv_arm hd)
      exact ⟨this.2, this.1⟩
  | adv d hd _ ih =>
    have := settled_spec (linv_advance_pre ih.1 (Int.le_of_lt hd))
    exact ⟨this.2, this.1⟩
  | @anch s a _ ih =>
    obtain ⟨hl, hdue⟩ := ih
    refine ⟨⟨hl.waiting, hl.retrying, dinv_congr (s := s) rfl rfl rfl rfl rfl hl.data⟩, ?_⟩
    exact hdue

theorem runActs_reach {dirOn : Bool} {a0 : Nat} {script : List Reply} {t0 : Int} :
    ∀ (acts : List Act) (s : RN), RReach dirOn a0 script t0 s → acts.all Act.ok = true →
      ∀ t ∈ runActs s acts, RReach dirOn a0 script t0 t := by
  intro acts
  induction acts with
  | nil => intro s _ _ t ht; simp [runActs] at ht
  | cons a rest ih =>
    intro s hs hok t ht
    simp only [List.all_cons, Bool.and_eq_true] at hok
    have hstep : RReach dirOn a0 script t0 (act s a) := by
      cases a with
      | adv d => exact .adv d (by simpa [Act.ok] using hok.1) hs
      | anchors a => exact .anch a hs
      | toWake =>
        simp only [act]
        split
        · exact hs
        · rename_i hn
          exact .adv _ (by omega) hs
    simp only [runActs, List.mem_cons] at ht
    rcases ht with ht | ht
    · rw [ht]; exact hstep
    · exact ih _ hstep hok.2 t ht

theorem rreach_dirOn {dirOn : Bool} {a0 : Nat} {script : List Reply} {t0 : Int} {s : RN}
    (h : RReach dirOn a0 script t0 s) : s.dirOn = dirOn := by
  induction h with
  | start =>
    have fs := fetch_spec (start0 dirOn a0 script t0)
    rcases start_cases dirOn a0 script t0 with ⟨_, hs⟩ | ⟨c, _, hs⟩
    · rw [hs]; exact fs.dirOn
    · rw [hs]; simp only [settled]; rw [settle_dirOn, (arm_fields _).2.2.2.2.2.2.2.2.2.1]; exact fs.dirOn
  | @adv s d _ _ ih =>
    show (settle _ { s with now := s.now + d }).dirOn = dirOn
    rw [settle_dirOn]; exact ih
  | anch a _ ih => exact ih

end Kit.Spiffe
