import KitModel.Spiffe
/-! Helper lemmas for property C19: the renewal automaton with in-flight fetches
(`RN`, `issue`, `complete`, `answerCore`, `wake`, `settle`). -/
namespace Kit.Spiffe

theorem minute_pos : 0 < minute := by decide
theorem tenSec_pos : 0 < tenSec := by decide

/-- File set written for a successful request. -/
def fileSetOf (r : Req) : FileSet := ⟨r.tok, r.tok, r.anchors⟩

/-- Number of answered requests as a function of the key counter. -/
def logN (s : RN) : Nat := if s.mode = .inflight then s.reqTok else s.nextTok

theorem logN_of_not_inflight {s : RN} (h : s.mode ≠ .inflight) : logN s = s.nextTok := by
  simp [logN, h]

/-- Data invariant with `n` answered requests: what is served, which keys were used, what was published. -/
structure DInvN (n : Nat) (s : RN) : Prop where
  served : s.svid.map (·.tok) = lastGood s.log
  toks : s.log.map (·.tok) = (List.range n).reverse
  pubs : s.pub = if s.dirOn then (s.log.filter (·.good)).map fileSetOf else []

theorem dinv_congr {n : Nat} {s s' : RN} (h1 : s'.svid = s.svid) (h2 : s'.log = s.log)
    (h4 : s'.pub = s.pub) (h5 : s'.dirOn = s.dirOn) (h : DInvN n s) : DInvN n s' :=
  ⟨by rw [h1, h2]; exact h.served, by rw [h2]; exact h.toks, by rw [h4, h5, h2]; exact h.pubs⟩

/-- Invariant of the rotation loop (holds between any two wakes / answers). -/
structure LInv (s : RN) : Prop where
  waiting : s.mode = .waiting → s.wakeAt ≤ s.renewAt ∧ s.wakeAt ≤ s.armedAt + minute ∧ s.armedAt ≤ s.now
  retrying : s.mode = .retrying → s.wakeAt = s.armedAt + tenSec ∧ s.armedAt ≤ s.now ∧ s.renewAt ≤ s.armedAt ∧
    ∃ r rest, s.log = r :: rest ∧ r.good = false ∧ r.answered = s.armedAt
  flight : s.mode = .inflight → s.reqTok + 1 = s.nextTok ∧ s.reqAt ≤ s.now ∧
    (s.reqInit = true → s.log = [] ∧ s.svid = none) ∧ (s.reqInit = false → s.renewAt ≤ s.reqAt)
  data : DInvN (logN s) s

theorem arm_fields (s : RN) :
    (arm s).mode = .waiting ∧ (arm s).wakeAt = s.now + min minute (s.renewAt - s.now) ∧
    (arm s).armedAt = s.now ∧ (arm s).now = s.now ∧ (arm s).renewAt = s.renewAt ∧
    (arm s).svid = s.svid ∧ (arm s).log = s.log ∧ (arm s).nextTok = s.nextTok ∧ (arm s).pub = s.pub ∧
    (arm s).dirOn = s.dirOn ∧ (arm s).script = s.script ∧ (arm s).anchors = s.anchors := by
  simp [arm]

theorem linv_arm {s : RN} (h : DInvN s.nextTok s) : LInv (arm s) := by
  obtain ⟨hm, hw, ha, hn, hr, hs, hl, ht, hp, hd, _, _⟩ := arm_fields s
  have := minute_pos
  refine ⟨?_, ?_, ?_, ?_⟩
  · intro _; rw [hw, ha, hn, hr]; omega
  · intro h'; rw [hm] at h'; cases h'
  · intro h'; rw [hm] at h'; cases h'
  · have : logN (arm s) = s.nextTok := by simp [logN, hm, ht]
    rw [this]
    exact dinv_congr hs hl hp hd h

theorem issue_fields (s : RN) (b : Bool) :
    (issue s b).mode = .inflight ∧ (issue s b).reqTok = s.nextTok ∧ (issue s b).reqAt = s.now ∧
    (issue s b).reqInit = b ∧ (issue s b).nextTok = s.nextTok + 1 ∧ (issue s b).now = s.now ∧
    (issue s b).svid = s.svid ∧ (issue s b).log = s.log ∧ (issue s b).pub = s.pub ∧
    (issue s b).dirOn = s.dirOn ∧ (issue s b).renewAt = s.renewAt ∧ (issue s b).script = s.script ∧
    (issue s b).timers = s.timers ∧ (issue s b).anchors = s.anchors := by
  simp [issue]

theorem linv_issue {s : RN} (h : LInv s) (hm : s.mode = .waiting) (hle : s.renewAt ≤ s.now) :
    LInv (issue s false) := by
  obtain ⟨h1, h2, h3, h4, h5, h6, h7, h8, h9, h10, h11, _⟩ := issue_fields s false
  refine ⟨?_, ?_, ?_, ?_⟩
  · intro h'; rw [h1] at h'; cases h'
  · intro h'; rw [h1] at h'; cases h'
  · intro _
    refine ⟨by rw [h2, h5], by rw [h3, h6]; exact Int.le_refl _, ⟨?_, ?_⟩⟩
    · intro hh; rw [h4] at hh; cases hh
    · intro _; rw [h11, h3]; exact hle
  · have e1 : logN (issue s false) = s.nextTok := by simp [logN, h1, h2]
    have e2 : logN s = s.nextTok := by simp [logN, hm]
    rw [e1, ← e2]
    exact dinv_congr h7 h8 h9 h10 h.data

/-- What `complete` does. -/
structure CompleteSpec (s s1 : RN) (r : Option Cert) : Prop where
  now : s1.now = s.now
  mode : s1.mode = s.mode
  svid : s1.svid = s.svid
  renewAt : s1.renewAt = s.renewAt
  dirOn : s1.dirOn = s.dirOn
  nextTok : s1.nextTok = s.nextTok
  timers : s1.timers = s.timers
  anchors : s1.anchors = s.anchors
  log : s1.log = ⟨s.reqAt, s.reqTok, r.isSome, s.anchors, halfOf r, s.now⟩ :: s.log
  tok : ∀ c, r = some c → c.tok = s.reqTok
  pub : s1.pub = if s.dirOn && r.isSome then ⟨s.reqTok, s.reqTok, s.anchors⟩ :: s.pub else s.pub

theorem outcome_tok (s : RN) : ∀ c, (outcome s).1 = some c → c.tok = s.reqTok := by
  intro c h
  unfold outcome at h
  cases hs : s.script with
  | nil => rw [hs] at h; simp at h
  | cons r rest =>
    rw [hs] at h
    cases r with
    | fail k => simp at h
    | ok nb na => simp at h; rw [← h]
    | okAnchorsFail nb na =>
      cases hd : s.dirOn <;> simp [hd] at h
      rw [← h]

theorem complete_spec (s : RN) : CompleteSpec s (complete s).1 (complete s).2 := by
  constructor <;> first | rfl | exact outcome_tok s

theorem range_succ_reverse (n : Nat) : (List.range (n + 1)).reverse = n :: (List.range n).reverse := by
  simp [List.range_succ]

/-- After the answer, with `currentSVID` swapped if the fetch succeeded. -/
theorem dinv_complete {s : RN} (h : DInvN s.reqTok s) (x : Int) :
    DInvN (s.reqTok + 1) (match (complete s).2 with
          | none => (complete s).1
          | some c => { (complete s).1 with svid := some c, renewAt := x }) := by
  have cs := complete_spec s
  cases hr : (complete s).2 with
  | none =>
    rw [hr] at cs
    refine ⟨?_, ?_, ?_⟩
    · rw [cs.svid, cs.log]; simpa [lastGood] using h.served
    · rw [cs.log, range_succ_reverse]; simp [h.toks]
    · rw [cs.pub, cs.dirOn, cs.log]
      have hp := h.pubs
      cases hd : s.dirOn <;> simp [hd] at hp ⊢ <;> exact hp
  | some c =>
    rw [hr] at cs
    refine ⟨?_, ?_, ?_⟩
    · show some c.tok = lastGood (complete s).1.log
      rw [cs.log]; simp [lastGood, cs.tok c rfl]
    · show (complete s).1.log.map (·.tok) = (List.range (s.reqTok + 1)).reverse
      rw [cs.log, range_succ_reverse]; simp [h.toks]
    · show (complete s).1.pub = if (complete s).1.dirOn then ((complete s).1.log.filter (·.good)).map fileSetOf else []
      rw [cs.pub, cs.dirOn, cs.log]
      have hp := h.pubs
      cases hd : s.dirOn <;> simp [hd, fileSetOf] at hp ⊢ <;> exact hp

theorem answerCore_cases (s : RN) :
    ((complete s).2 = none ∧ s.reqInit = true ∧ answerCore s = { (complete s).1 with mode := .dead }) ∨
    ((complete s).2 = none ∧ s.reqInit = false ∧
      answerCore s = { (complete s).1 with mode := .retrying, wakeAt := s.now + tenSec, armedAt := s.now,
                                           timers := (s.now, tenSec) :: (complete s).1.timers }) ∨
    (∃ c, (complete s).2 = some c ∧
      answerCore s = arm { (complete s).1 with svid := some c, renewAt := renewalTime c.nb c.na }) := by
  unfold answerCore
  rcases hc : complete s with ⟨s1, r⟩
  cases r with
  | none => cases hi : s.reqInit <;> simp
  | some c => simp

theorem linv_mk_dead {t : RN} (hm : t.mode = .dead) (hd : DInvN t.nextTok t) : LInv t := by
  refine ⟨(by intro h; rw [hm] at h; cases h), (by intro h; rw [hm] at h; cases h), (by intro h; rw [hm] at h; cases h), ?_⟩
  rw [logN_of_not_inflight (by rw [hm]; simp)]; exact hd

theorem linv_mk_retry {t : RN} (hm : t.mode = .retrying) (h1 : t.wakeAt = t.armedAt + tenSec)
    (h2 : t.armedAt ≤ t.now) (h3 : t.renewAt ≤ t.armedAt)
    (h4 : ∃ r rest, t.log = r :: rest ∧ r.good = false ∧ r.answered = t.armedAt)
    (hd : DInvN t.nextTok t) : LInv t := by
  refine ⟨(by intro h; rw [hm] at h; cases h), fun _ => ⟨h1, h2, h3, h4⟩, (by intro h; rw [hm] at h; cases h), ?_⟩
  rw [logN_of_not_inflight (by rw [hm]; simp)]; exact hd

theorem linv_answerCore {s : RN} (h : LInv s) (hm : s.mode = .inflight) : LInv (answerCore s) := by
  have cs := complete_spec s
  obtain ⟨hf1, hf2, hf3, hf4⟩ := h.flight hm
  have hd0 : DInvN s.reqTok s := by have := h.data; simpa [logN, hm] using this
  rcases answerCore_cases s with ⟨hn, hi, hw⟩ | ⟨hn, hi, hw⟩ | ⟨c, hc, hw⟩
  · rw [hw]
    have hd := dinv_complete hd0 0
    rw [hn] at hd cs
    apply linv_mk_dead rfl
    show DInvN (complete s).1.nextTok _
    rw [cs.nextTok, ← hf1]
    exact dinv_congr (s := (complete s).1) rfl rfl rfl rfl hd
  · rw [hw]
    have hd := dinv_complete hd0 0
    rw [hn] at hd cs
    apply linv_mk_retry rfl rfl
    · show s.now ≤ (complete s).1.now
      rw [cs.now]; exact Int.le_refl _
    · show (complete s).1.renewAt ≤ s.now
      rw [cs.renewAt]; have := hf4 hi; omega
    · exact ⟨_, _, cs.log, rfl, rfl⟩
    · show DInvN (complete s).1.nextTok _
      rw [cs.nextTok, ← hf1]
      exact dinv_congr (s := (complete s).1) rfl rfl rfl rfl hd
  · rw [hw]
    apply linv_arm
    have hd := dinv_complete hd0 (renewalTime c.nb c.na)
    rw [hc] at hd
    show DInvN (complete s).1.nextTok _
    rw [cs.nextTok, ← hf1]
    exact hd

theorem wake_cases (s : RN) :
    ((s.mode = .dead ∨ s.mode = .inflight) ∧ wake s = s) ∨
    (s.mode = .retrying ∧ wake s = arm s) ∨
    (s.mode = .waiting ∧ s.now < s.renewAt ∧ wake s = arm s) ∨
    (s.mode = .waiting ∧ s.renewAt ≤ s.now ∧ wake s = issue s false) := by
  unfold wake
  cases hm : s.mode with
  | dead => simp
  | inflight => simp
  | retrying => simp
  | waiting =>
    by_cases hlt : s.now < s.renewAt
    · simp [hlt]
    · have hle : s.renewAt ≤ s.now := by omega
      simp [hlt, hle]

theorem linv_wake {s : RN} (h : LInv s) : LInv (wake s) := by
  rcases wake_cases s with ⟨_, hw⟩ | ⟨hm, hw⟩ | ⟨hm, _, hw⟩ | ⟨hm, hle, hw⟩
  · rw [hw]; exact h
  · rw [hw]; apply linv_arm; have := h.data; rwa [logN_of_not_inflight (by rw [hm]; simp)] at this
  · rw [hw]; apply linv_arm; have := h.data; rwa [logN_of_not_inflight (by rw [hm]; simp)] at this
  · rw [hw]; exact linv_issue h hm hle

/-! ### timers fire as soon as `now ≥ deadline`: `settle` ends in a state with no due timer -/

def mu (s : RN) : Nat := if s.mode = .retrying then 2 else if s.mode = .waiting then 1 else 0

theorem due_iff (s : RN) : s.due = true ↔ (s.mode = .waiting ∨ s.mode = .retrying) ∧ s.wakeAt ≤ s.now := by
  simp [RN.due]

theorem not_due_of_mode {s : RN} (h : s.mode = .inflight ∨ s.mode = .dead) : s.due = false := by
  cases hd : s.due
  · rfl
  · have := ((due_iff s).mp hd).1
    rcases h with h | h <;> rw [h] at this <;> simp at this

theorem wake_measure {s : RN} (hd : s.due = true) : (wake s).due = false ∨ mu (wake s) < mu s := by
  have hdue := (due_iff s).mp hd
  have hm := minute_pos
  rcases wake_cases s with ⟨hmode, _⟩ | ⟨hmode, hw⟩ | ⟨hmode, hlt, hw⟩ | ⟨hmode, hle, hw⟩
  · rcases hmode with h | h <;> rw [h] at hdue <;> simp at hdue
  · right
    rw [hw]; simp [mu, (arm_fields s).1, hmode]
  · left
    obtain ⟨h1, h2, _, h4, _⟩ := arm_fields s
    rw [hw]
    cases hdd : (arm s).due
    · rfl
    · have := ((due_iff _).mp hdd).2
      rw [h2, h4] at this; omega
  · left
    rw [hw]; exact not_due_of_mode (Or.inl (issue_fields s false).1)

theorem settle_spec : ∀ (n : Nat) (s : RN), LInv s → mu s < n →
    (settle n s).due = false ∧ LInv (settle n s) := by
  intro n
  induction n with
  | zero => intro s _ h; omega
  | succ n ih =>
    intro s hi hlt
    simp only [settle]
    cases hd : s.due
    · simp [hd, hi]
    · simp only [if_true]
      rcases wake_measure hd with hnd | hmu
      · cases n with
        | zero => simp [settle, hnd, linv_wake hi]
        | succ m => simp [settle, hnd, linv_wake hi]
      · exact ih (wake s) (linv_wake hi) (by omega)

theorem mu_lt_three (s : RN) : mu s < 3 := by
  simp only [mu]; split <;> (try split) <;> omega

theorem settled_spec {s : RN} (h : LInv s) : (settled s).due = false ∧ LInv (settled s) :=
  settle_spec _ s h (mu_lt_three s)

/-! ### wakes touch neither the log nor the served SVID -/

theorem wake_frame (s : RN) :
    (wake s).now = s.now ∧ (wake s).log = s.log ∧ (wake s).svid = s.svid ∧ (wake s).dirOn = s.dirOn ∧
    (wake s).pub = s.pub ∧ (wake s).script = s.script ∧ (wake s).anchors = s.anchors := by
  rcases wake_cases s with ⟨_, hw⟩ | ⟨_, hw⟩ | ⟨_, _, hw⟩ | ⟨_, _, hw⟩ <;> rw [hw]
  · exact ⟨rfl, rfl, rfl, rfl, rfl, rfl, rfl⟩
  · simp [arm]
  · simp [arm]
  · simp [issue]

theorem settle_frame : ∀ (n : Nat) (s : RN),
    (settle n s).now = s.now ∧ (settle n s).log = s.log ∧ (settle n s).svid = s.svid ∧
    (settle n s).dirOn = s.dirOn ∧ (settle n s).pub = s.pub ∧ (settle n s).script = s.script ∧
    (settle n s).anchors = s.anchors := by
  intro n
  induction n with
  | zero => intro s; exact ⟨rfl, rfl, rfl, rfl, rfl, rfl, rfl⟩
  | succ n ih =>
    intro s
    simp only [settle]
    split
    · obtain ⟨a1, a2, a3, a4, a5, a6, a7⟩ := ih (wake s)
      obtain ⟨b1, b2, b3, b4, b5, b6, b7⟩ := wake_frame s
      exact ⟨a1.trans b1, a2.trans b2, a3.trans b3, a4.trans b4, a5.trans b5, a6.trans b6, a7.trans b7⟩
    · exact ⟨rfl, rfl, rfl, rfl, rfl, rfl, rfl⟩

theorem lastGood_append_bad (pre log : List Req) (h : ∀ q ∈ pre, q.good = false) :
    lastGood (pre ++ log) = lastGood log := by
  induction pre with
  | nil => rfl
  | cons a l ih =>
    have ha : a.good = false := h a (by simp)
    simp only [List.cons_append, lastGood, ha]
    exact ih (fun q hq => h q (by simp [hq]))

/-! ### reachable states of the renewal automaton -/

inductive RReach (dirOn : Bool) (a0 : Nat) (script : List Reply) (t0 : Int) : RN → Prop where
  | start : RReach dirOn a0 script t0 (start dirOn a0 script t0)
  | adv {s : RN} (d : Int) : 0 < d → RReach dirOn a0 script t0 s → RReach dirOn a0 script t0 (advance s d)
  | anch {s : RN} (a : Nat) : RReach dirOn a0 script t0 s → RReach dirOn a0 script t0 (setAnchors s a)
  | ans {s : RN} : RReach dirOn a0 script t0 s → RReach dirOn a0 script t0 (answer s)

theorem linv_advance_pre {s : RN} (h : LInv s) {d : Int} (hd : 0 ≤ d) : LInv { s with now := s.now + d } := by
  refine ⟨?_, ?_, ?_, ?_⟩
  · intro hm
    obtain ⟨h1, h2, h3⟩ := h.waiting hm
    exact ⟨h1, h2, by show s.armedAt ≤ s.now + d; omega⟩
  · intro hm
    obtain ⟨h1, h2, h3, h4⟩ := h.retrying hm
    exact ⟨h1, by show s.armedAt ≤ s.now + d; omega, h3, h4⟩
  · intro hm
    obtain ⟨h1, h2, h3, h4⟩ := h.flight hm
    exact ⟨h1, by show s.reqAt ≤ s.now + d; omega, h3, h4⟩
  · exact dinv_congr (s := s) rfl rfl rfl rfl h.data

/-- The state before the initial request. -/
def start0 (dirOn : Bool) (a0 : Nat) (script : List Reply) (t0 : Int) : RN :=
  { now := t0, script := script, dirOn := dirOn, anchors := a0 }

theorem linv_start (dirOn : Bool) (a0 : Nat) (script : List Reply) (t0 : Int) :
    LInv (start dirOn a0 script t0) := by
  refine ⟨(by intro h; simp [start, issue] at h), (by intro h; simp [start, issue] at h), ?_, ?_⟩
  · intro _; exact ⟨rfl, Int.le_refl _, fun _ => ⟨rfl, rfl⟩, (by intro h; simp [start, issue] at h)⟩
  · refine ⟨rfl, rfl, ?_⟩
    cases dirOn <;> rfl

theorem rinv {dirOn : Bool} {a0 : Nat} {script : List Reply} {t0 : Int} {s : RN}
    (h : RReach dirOn a0 script t0 s) : LInv s ∧ s.due = false := by
  induction h with
  | start => exact ⟨linv_start dirOn a0 script t0, rfl⟩
  | adv d hd _ ih =>
    have := settled_spec (linv_advance_pre ih.1 (Int.le_of_lt hd))
    exact ⟨this.2, this.1⟩
  | @anch s a _ ih =>
    obtain ⟨hl, hdue⟩ := ih
    exact ⟨⟨hl.waiting, hl.retrying, hl.flight, dinv_congr (s := s) rfl rfl rfl rfl hl.data⟩, hdue⟩
  | @ans s _ ih =>
    simp only [answer]
    split
    · rename_i hm
      have := settled_spec (linv_answerCore ih.1 hm)
      exact ⟨this.2, this.1⟩
    · exact ih

theorem not_due_lt {s : RN} (h : s.due = false) (hm : s.mode = .waiting ∨ s.mode = .retrying) :
    s.now < s.wakeAt := by
  cases hlt : decide (s.now < s.wakeAt)
  · have : s.due = true := (due_iff s).mpr ⟨hm, by simpa using hlt⟩
    rw [this] at h; cases h
  · simpa using hlt

theorem runActs_reach {dirOn : Bool} {a0 : Nat} {script : List Reply} {t0 : Int} :
    ∀ (acts : List Act) (s : RN), RReach dirOn a0 script t0 s → acts.all Act.ok = true →
      ∀ t ∈ runActs s acts, RReach dirOn a0 script t0 t := by
  intro acts
  induction acts with
  | nil => intro s _ _ t ht; simp [runActs] at ht
  | cons a rest ih =>
    intro s hs hok t ht
    simp only [List.all_cons, Bool.and_eq_true] at hok
    have hstep : RReach dirOn a0 script t0 (act s a) := by
      cases a with
      | adv d => exact .adv d (by simpa [Act.ok] using hok.1) hs
      | anchors a => exact .anch a hs
      | answer => exact .ans hs
      | toWake =>
        simp only [act]
        split
        · rename_i hn
          exact .adv _ (by omega) hs
        · exact hs
    simp only [runActs, List.mem_cons] at ht
    rcases ht with ht | ht
    · rw [ht]; exact hstep
    · exact ih _ hstep hok.2 t ht

theorem answerCore_dirOn (s : RN) : (answerCore s).dirOn = s.dirOn := by
  have cs := complete_spec s
  rcases answerCore_cases s with ⟨_, _, hw⟩ | ⟨_, _, hw⟩ | ⟨c, _, hw⟩ <;> rw [hw]
  · exact cs.dirOn
  · exact cs.dirOn
  · rw [(arm_fields _).2.2.2.2.2.2.2.2.2.1]; exact cs.dirOn

theorem rreach_dirOn {dirOn : Bool} {a0 : Nat} {script : List Reply} {t0 : Int} {s : RN}
    (h : RReach dirOn a0 script t0 s) : s.dirOn = dirOn := by
  induction h with
  | start => rfl
  | @adv s d _ _ ih =>
    show (settle _ { s with now := s.now + d }).dirOn = dirOn
    rw [(settle_frame _ _).2.2.2.1]; exact ih
  | anch a _ ih => exact ih
  | @ans s _ ih =>
    simp only [answer]
    split
    · show (settle _ (answerCore s)).dirOn = dirOn
      rw [(settle_frame _ _).2.2.2.1, answerCore_dirOn]; exact ih
    · exact ih

end Kit.Spiffe
