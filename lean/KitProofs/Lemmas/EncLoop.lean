/-
The segment loop of `processSegments` equals a pure function of the delivered bytes, for every
reader script: `psLoop_spec` / `processSegments_spec`.
-/
import KitModel.Enc
import KitProofs.Lemmas.EncReader

namespace Kit.Enc
open Kit

/-! ### pure split -/

theorem segmentsAux_succ (s f : Nat) (p : Bytes) :
    segmentsAux s (f + 1) p =
      if p.isEmpty then [] else if p.length ≤ s then [(p, true)]
      else (p.take s, false) :: segmentsAux s f (p.drop s) := rfl

theorem segmentsAux_fuel2 (s : Nat) (hs : 0 < s) : ∀ (f g : Nat) (p : Bytes), p.length ≤ f → p.length ≤ g →
    segmentsAux s f p = segmentsAux s g p := by
  intro f
  induction f with
  | zero =>
    intro g p hp _
    have : p = [] := List.eq_nil_of_length_eq_zero (by omega)
    subst this
    cases g <;> rfl
  | succ f ih =>
    intro g p hp hg
    cases p with
    | nil => cases g <;> rfl
    | cons b bs =>
      have hl : (b :: bs).length = bs.length + 1 := rfl
      cases g with
      | zero => omega
      | succ g =>
        rw [segmentsAux_succ, segmentsAux_succ]
        by_cases hle : (b :: bs).length ≤ s
        · simp only [hle, if_true]
        · simp only [hle, if_false]
          have hdl : ((b :: bs).drop s).length ≤ bs.length := by
            simp only [List.length_drop, List.length_cons]; omega
          rw [ih g _ (by omega) (by omega)]

theorem segmentsAux_fuel (s : Nat) (hs : 0 < s) (f : Nat) (p : Bytes) (h : p.length ≤ f) :
    segmentsAux s f p = segmentsAux s p.length p :=
  segmentsAux_fuel2 s hs f p.length p h (Nat.le_refl _)

theorem segments_nil (s : Nat) : segments s [] = [] := rfl

theorem segments_le (s : Nat) (p : Bytes) (hne : p ≠ []) (hle : p.length ≤ s) :
    segments s p = [(p, true)] := by
  cases p with
  | nil => exact absurd rfl hne
  | cons b bs =>
    have hl : (b :: bs).length = bs.length + 1 := rfl
    unfold segments
    rw [hl, segmentsAux_succ]
    simp only [List.isEmpty_cons, Bool.false_eq_true, if_false, hle, if_true]

theorem segments_gt (s : Nat) (hs : 0 < s) (p : Bytes) (hgt : s < p.length) :
    segments s p = (p.take s, false) :: segments s (p.drop s) := by
  cases p with
  | nil => simp at hgt
  | cons b bs =>
    have hl : (b :: bs).length = bs.length + 1 := rfl
    have hnle : ¬ ((b :: bs).length ≤ s) := by omega
    unfold segments
    rw [hl, segmentsAux_succ]
    simp only [List.isEmpty_cons, Bool.false_eq_true, if_false, hnle]
    congr 1
    apply segmentsAux_fuel s hs
    simp only [List.length_drop, List.length_cons]; omega

theorem segments_ne_nil (s : Nat) (hs : 0 < s) (p : Bytes) (hne : p ≠ []) : segments s p ≠ [] := by
  by_cases h : p.length ≤ s
  · rw [segments_le s p hne h]; simp
  · rw [segments_gt s hs p (by omega)]; simp

/-! ### loop body with the recursive call abstracted -/

def psBody (segSize maxSeg : Nat) (fn : ProcFn) (buf : Bytes) (res : ReadRes) (seg : Nat)
    (k : Option UInt8 → PSResult) : PSResult :=
  if res = .fail then ⟨[], [], .err .source⟩
  else
    let over := decide (buf.length > segSize)
    let data := if over then buf.take (buf.length - 1) else buf
    let carry' := if over then buf[buf.length - 1]? else none
    let done := !over
    if data.length < segSize ∧ done = false then ⟨[], [], .err .unexpectedEOF⟩
    else if data.length = 0 then
      if seg ≠ 0 then ⟨[], [], .err .unexpectedEOF⟩ else ⟨[], [], .ok⟩
    else
      match fn data seg done with
      | .error e => ⟨[(data, seg, done)], [], .err e⟩
      | .ok o =>
        if done = false ∧ seg = maxSeg then ⟨[(data, seg, done)], o, .err .tooLarge⟩
        else if done then ⟨[(data, seg, done)], o, .ok⟩
        else (k carry').cons (data, seg, done) o

theorem psLoop_succ (segSize maxSeg : Nat) (fn : ProcFn) (fuel : Nat) (r : Reader) (carry : Option UInt8) (seg : Nat) :
    psLoop segSize maxSeg fn (fuel + 1) r carry seg =
      psBody segSize maxSeg fn (fill (r.measure + 1) r (segSize + 1) carry.toList).1
        (fill (r.measure + 1) r (segSize + 1) carry.toList).2.1 seg
        (fun c' => psLoop segSize maxSeg fn fuel (fill (r.measure + 1) r (segSize + 1) carry.toList).2.2 c' (seg + 1)) := rfl

theorem psBody_fail (segSize maxSeg fn buf seg k) : psBody segSize maxSeg fn buf .fail seg k = ⟨[], [], .err .source⟩ := by
  simp [psBody]

/-- A full buffer with the look-ahead byte: a non-final segment. -/
theorem psBody_over (segSize maxSeg : Nat) (fn : ProcFn) (buf : Bytes) (res : ReadRes) (seg : Nat) (k)
    (hs : 0 < segSize) (hres : res ≠ .fail) (hlen : buf.length = segSize + 1) :
    psBody segSize maxSeg fn buf res seg k =
      match fn (buf.take segSize) seg false with
      | .error e => ⟨[(buf.take segSize, seg, false)], [], .err e⟩
      | .ok o =>
        if seg = maxSeg then ⟨[(buf.take segSize, seg, false)], o, .err .tooLarge⟩
        else (k buf[segSize]?).cons (buf.take segSize, seg, false) o := by
  have hover : decide (buf.length > segSize) = true := by simp; omega
  have h1 : buf.length - 1 = segSize := by omega
  have hdl : (buf.take segSize).length = segSize := by simp; omega
  simp only [psBody, hres, if_false, hover, if_true, h1, Bool.not_true, hdl, Nat.lt_irrefl, false_and,
    true_and]
  have hne : ¬ segSize = 0 := by omega
  simp only [hne, if_false]
  cases fn (buf.take segSize) seg false <;> simp

/-- A non-empty buffer without look-ahead byte: the final segment. -/
theorem psBody_last (segSize maxSeg : Nat) (fn : ProcFn) (buf : Bytes) (res : ReadRes) (seg : Nat) (k)
    (hres : res ≠ .fail) (hne : buf ≠ []) (hlen : buf.length ≤ segSize) :
    psBody segSize maxSeg fn buf res seg k =
      match fn buf seg true with
      | .error e => ⟨[(buf, seg, true)], [], .err e⟩
      | .ok o => ⟨[(buf, seg, true)], o, .ok⟩ := by
  have hover : decide (buf.length > segSize) = false := by simp; omega
  have hpos : 0 < buf.length := List.length_pos_iff.mpr hne
  have hne0 : ¬ buf.length = 0 := by omega
  simp only [psBody, hres, if_false, hover, Bool.false_eq_true, Bool.not_false, hne0]
  cases fn buf seg true <;> simp

theorem psBody_empty (segSize maxSeg : Nat) (fn : ProcFn) (res : ReadRes) (k)
    (hres : res ≠ .fail) :
    psBody segSize maxSeg fn [] res 0 k = ⟨[], [], .ok⟩ := by
  simp [psBody, hres]

/-! ### what the loop sees -/

/-- Bytes the loop obtains before the failure (all of them for a non-failing source). -/
def visible (r : Reader) (carry : Option UInt8) : Bytes :=
  if r.term.fails && r.D then (carry.toList ++ r.stream).take ((carry.toList ++ r.stream).length - 1)
  else carry.toList ++ r.stream

/-- Segments the loop processes (for a failing source the last one is never confirmed). -/
def confirmed (segSize : Nat) (r : Reader) (carry : Option UInt8) : List (Bytes × Bool) :=
  if r.term.fails then (segments segSize (visible r carry)).dropLast else segments segSize (visible r carry)

def finOf (r : Reader) : Terminal := if r.term.fails then .err .source else .ok

theorem term_res_fail (t : Term) : t.res = .fail ↔ t.fails = true := by cases t <;> simp [Term.res, Term.fails]

theorem term_after_fails_of_eof (t : Term) (h : t.fails = false) : t.after.fails = false := by
  cases t <;> simp_all [Term.after, Term.fails]

theorem dropLast_cons_of_ne_nil {α} (a : α) (l : List α) (h : l ≠ []) : (a :: l).dropLast = a :: l.dropLast := by
  cases l with
  | nil => exact absurd rfl h
  | cons b bs => rfl


theorem runSegs_nil (m fn i fin) : runSegs m fn [] i fin = ⟨[], [], fin⟩ := rfl

theorem runSegs_cons_nonlast (m : Nat) (fn : ProcFn) (d : Bytes) (rest) (i : Nat) (fin) :
    runSegs m fn ((d, false) :: rest) i fin =
      match fn d i false with
      | .error e => ⟨[(d, i, false)], [], .err e⟩
      | .ok o =>
        if i = m then ⟨[(d, i, false)], o, .err .tooLarge⟩
        else (runSegs m fn rest (i + 1) fin).cons (d, i, false) o := by
  simp only [runSegs]
  cases fn d i false <;> simp

theorem runSegs_single_last (m : Nat) (fn : ProcFn) (d : Bytes) (i : Nat) (fin) :
    runSegs m fn [(d, true)] i fin =
      match fn d i true with
      | .error e => ⟨[(d, i, true)], [], .err e⟩
      | .ok o => ⟨[(d, i, true)], o, .ok⟩ := by
  simp only [runSegs]
  cases fn d i true <;> simp

theorem take_append_take {α} (a b : List α) (k n : Nat) (h : n ≤ a.length + k) :
    (a ++ b.take k).take n = (a ++ b).take n := by
  rw [List.take_append, List.take_append, List.take_take]
  congr 2
  omega

theorem getElem?_append_take {α} (a b : List α) (k n : Nat) (h : n < a.length + k) :
    (a ++ b.take k)[n]? = (a ++ b)[n]? := by
  by_cases hn : n < a.length
  · rw [List.getElem?_append_left hn, List.getElem?_append_left hn]
  · rw [List.getElem?_append_right (by omega), List.getElem?_append_right (by omega), List.getElem?_take]
    simp; omega


theorem visible_drop (r r' : Reader) (carry carry' : Option UInt8) (n : Nat)
    (hT : carry'.toList ++ r'.stream = (carry.toList ++ r.stream).drop n)
    (hc : (r'.term.fails && r'.D) = (r.term.fails && r.D)) :
    visible r' carry' = (visible r carry).drop n := by
  unfold visible
  rw [hc, hT]
  by_cases h : (r.term.fails && r.D) = true
  · simp only [h, if_true, List.drop_take, List.length_drop]
    congr 1
    omega
  · simp only [h, Bool.false_eq_true, if_false]

/-- The step shared by every iteration that found the look-ahead byte. -/
theorem psBody_over_step (segSize maxSeg : Nat) (fn : ProcFn) (hs : 0 < segSize)
    (fuel : Nat) (r : Reader) (carry : Option UInt8) (seg : Nat)
    (ih : ∀ (r' : Reader) (carry' : Option UInt8) (seg' : Nat),
      (carry'.toList ++ r'.stream).length < fuel → (carry'.isSome ∨ seg' = 0) →
      psLoop segSize maxSeg fn fuel r' carry' seg' = runSegs maxSeg fn (confirmed segSize r' carry') seg' (finOf r'))
    (hfuel : (carry.toList ++ r.stream).length < fuel + 1)
    (x : Bytes × ReadRes × Reader)
    (hbuf : x.1 = (carry.toList ++ r.stream).take (segSize + 1))
    (hres : x.2.1 ≠ .fail)
    (hlen : segSize + 1 ≤ (carry.toList ++ r.stream).length)
    (hT : ((carry.toList ++ r.stream)[segSize]?).toList ++ x.2.2.stream = (carry.toList ++ r.stream).drop segSize)
    (hterm : x.2.2.term.fails = r.term.fails)
    (hd : r.term.fails = true → x.2.2.D = r.D)
    (hvis : r.term.fails = true → r.D = true → segSize + 2 ≤ (carry.toList ++ r.stream).length) :
    psBody segSize maxSeg fn x.1 x.2.1 seg (fun c' => psLoop segSize maxSeg fn fuel x.2.2 c' (seg + 1))
      = runSegs maxSeg fn (confirmed segSize r carry) seg (finOf r) := by
  generalize hTdef : carry.toList ++ r.stream = T at *
  have hblen : x.1.length = segSize + 1 := by rw [hbuf]; simp; omega
  rw [psBody_over segSize maxSeg fn x.1 x.2.1 seg _ hs hres hblen]
  have htake : x.1.take segSize = T.take segSize := by
    rw [hbuf, List.take_take]; congr 1; omega
  have hget : x.1[segSize]? = T[segSize]? := by
    rw [hbuf, List.getElem?_take]; simp
  rw [htake, hget]
  -- the visible bytes are longer than one segment
  have hc : (x.2.2.term.fails && x.2.2.D) = (r.term.fails && r.D) := by
    rw [hterm]
    by_cases hf : r.term.fails = true
    · rw [hd hf]
    · simp [hf]
  have hvT : visible r carry = if r.term.fails && r.D then T.take (T.length - 1) else T := by
    unfold visible; rw [hTdef]
  have hvlen : segSize < (visible r carry).length := by
    rw [hvT]
    by_cases h : (r.term.fails && r.D) = true
    · have h' := h
      simp only [Bool.and_eq_true] at h'
      have := hvis h'.1 h'.2
      simp only [h, if_true, List.length_take]; omega
    · simp only [h, Bool.false_eq_true, if_false]; omega
  have hvtake : (visible r carry).take segSize = T.take segSize := by
    rw [hvT]
    by_cases h : (r.term.fails && r.D) = true
    · have h' := h
      simp only [Bool.and_eq_true] at h'
      have := hvis h'.1 h'.2
      simp only [h, if_true, List.take_take]; congr 1; omega
    · simp only [h, Bool.false_eq_true, if_false]
  have hvdrop : visible x.2.2 T[segSize]? = (visible r carry).drop segSize :=
    visible_drop r x.2.2 carry T[segSize]? segSize (by rw [hTdef]; exact hT) hc
  have hsome : (T[segSize]?).isSome = true := by
    rw [List.getElem?_eq_getElem (by omega)]; rfl
  have hIH := ih x.2.2 T[segSize]? (seg + 1) (by rw [hT]; simp; omega) (Or.inl hsome)
  have hconf : confirmed segSize r carry = (T.take segSize, false) :: confirmed segSize x.2.2 T[segSize]? := by
    unfold confirmed
    rw [hterm, hvdrop, segments_gt segSize hs _ hvlen, hvtake]
    by_cases hf : r.term.fails = true
    · simp only [hf, if_true]
      apply dropLast_cons_of_ne_nil
      apply segments_ne_nil segSize hs
      intro h
      have := congrArg List.length h
      simp at this; omega
    · simp only [hf, Bool.false_eq_true, if_false]
  have hfin : finOf x.2.2 = finOf r := by unfold finOf; rw [hterm]
  rw [hconf, runSegs_cons_nonlast, hIH, hfin]


theorem psLoop_spec (segSize maxSeg : Nat) (fn : ProcFn) (hs : 0 < segSize) :
    ∀ (fuel : Nat) (r : Reader) (carry : Option UInt8) (seg : Nat),
      (carry.toList ++ r.stream).length < fuel → (carry.isSome ∨ seg = 0) →
      psLoop segSize maxSeg fn fuel r carry seg = runSegs maxSeg fn (confirmed segSize r carry) seg (finOf r) := by
  intro fuel
  induction fuel with
  | zero => intro r carry seg h; omega
  | succ fuel ih =>
    intro r carry seg hfuel hcarry
    rw [psLoop_succ]
    have hL : carry.toList.length ≤ 1 := by cases carry <;> simp
    have hspec := fill_spec (r.measure + 1) r (segSize + 1) carry.toList (by omega) (by omega)
    generalize hx : fill (r.measure + 1) r (segSize + 1) carry.toList = x at hspec
    have hTlen : (carry.toList ++ r.stream).length = carry.toList.length + r.stream.length := by simp
    by_cases hA : segSize + 1 - carry.toList.length < r.stream.length ∨
        (segSize + 1 - carry.toList.length = r.stream.length ∧ r.D = false)
    · -- the buffer filled up: non-final segment
      obtain ⟨e1, e2, e3, e4, e5, _⟩ := hspec.1 hA
      have hneed : segSize + 1 - carry.toList.length ≤ r.stream.length := by
        rcases hA with h | ⟨h, _⟩ <;> omega
      apply psBody_over_step segSize maxSeg fn hs fuel r carry seg ih hfuel x
      · rw [e2, ← take_append_take _ _ (segSize + 1 - carry.toList.length) (segSize + 1) (by omega)]
        exact (List.take_of_length_le (by simp only [List.length_append, List.length_take]; omega)).symm
      · rw [e1]; simp
      · omega
      · have hlt : segSize < (carry.toList ++ r.stream).length := by omega
        rw [List.getElem?_eq_getElem hlt, e3]
        rw [List.drop_eq_getElem_cons hlt]
        simp only [Option.toList_some, List.singleton_append, List.cons.injEq, true_and]
        rw [List.drop_append]
        have h1 : carry.toList.drop (segSize + 1) = [] := by
          apply List.drop_of_length_le; omega
        rw [h1]; simp
      · rw [e4]
      · intro _; exact e5
      · intro _ hD
        rcases hA with h | ⟨_, h⟩
        · omega
        · rw [hD] at h; cases h
    · -- the source ended (or failed) first
      have hB : r.stream.length < segSize + 1 - carry.toList.length ∨
          (r.stream.length = segSize + 1 - carry.toList.length ∧ r.D = true ∧ 0 < segSize + 1 - carry.toList.length) := by
        by_cases hD : r.D = true
        · by_cases h : r.stream.length = segSize + 1 - carry.toList.length
          · right; exact ⟨h, hD, by omega⟩
          · left
            have : ¬ (segSize + 1 - carry.toList.length < r.stream.length) := fun h' => hA (Or.inl h')
            omega
        · have hD' : r.D = false := by simpa using hD
          left
          have h1 : ¬ (segSize + 1 - carry.toList.length < r.stream.length) := fun h' => hA (Or.inl h')
          have h2 : ¬ (segSize + 1 - carry.toList.length = r.stream.length) := fun h' => hA (Or.inr ⟨h', hD'⟩)
          omega
      obtain ⟨e1, e2, e3, e4, e5⟩ := hspec.2 hB
      by_cases hf : r.term.fails = true
      · -- failing source: nothing more is confirmed
        have hres : x.2.1 = .fail := by rw [e1]; exact (term_res_fail _).mpr hf
        rw [hres, psBody_fail]
        have hvlen : (visible r carry).length ≤ segSize := by
          unfold visible
          by_cases hD : r.D = true
          · simp only [hf, hD, Bool.and_self, if_true, List.length_take]; omega
          · have hD' : r.D = false := by simpa using hD
            simp only [hf, hD', Bool.and_false, Bool.false_eq_true, if_false]
            rcases hB with h | ⟨_, h, _⟩
            · omega
            · rw [hD'] at h; cases h
        have hconf : confirmed segSize r carry = [] := by
          unfold confirmed
          simp only [hf, if_true]
          by_cases hv : visible r carry = []
          · rw [hv]; rfl
          · rw [segments_le segSize _ hv hvlen]; rfl
        rw [hconf, runSegs_nil]
        simp [finOf, hf]
      · have hf' : r.term.fails = false := by simpa using hf
        have hres : x.2.1 ≠ .fail := by
          rw [e1]; intro h; rw [(term_res_fail _).mp h] at hf'; cases hf'
        have hvis : visible r carry = carry.toList ++ r.stream := by
          unfold visible; simp [hf']
        have hfin : finOf r = .ok := by simp [finOf, hf']
        by_cases hfull : (carry.toList ++ r.stream).length = segSize + 1
        · -- EOF arrived together with the look-ahead byte
          apply psBody_over_step segSize maxSeg fn hs fuel r carry seg ih hfuel x
          · rw [e2, List.take_of_length_le (by omega)]
          · exact hres
          · omega
          · have hlt : segSize < (carry.toList ++ r.stream).length := by omega
            rw [List.getElem?_eq_getElem hlt, e3, List.drop_eq_getElem_cons hlt]
            simp only [Option.toList_some, List.append_nil, List.cons.injEq, true_and]
            symm; apply List.drop_of_length_le; omega
          · rw [e4, hf']; exact term_after_fails_of_eof _ hf'
          · intro h; rw [hf'] at h; cases h
          · intro h; rw [hf'] at h; cases h
        · have hle : (carry.toList ++ r.stream).length ≤ segSize := by
            rcases hB with h | ⟨h, _, _⟩ <;> omega
          have hconf : confirmed segSize r carry = segments segSize (carry.toList ++ r.stream) := by
            unfold confirmed; simp [hf', hvis]
          rw [hconf, hfin, e2]
          by_cases hne : carry.toList ++ r.stream = []
          · have hc : carry = none := by
              cases carry with
              | none => rfl
              | some c => simp at hne
            have hseg : seg = 0 := by
              rcases hcarry with h | h
              · rw [hc] at h; cases h
              · exact h
            rw [hne, hseg, psBody_empty _ _ _ _ _ hres, segments_nil, runSegs_nil]
          · rw [psBody_last _ _ _ _ _ _ _ hres hne hle, segments_le _ _ hne hle, runSegs_single_last]

/-- `processSegments` is a pure function of the bytes the source delivers: for **every** reader
    script, segment size `> 0` and process function. -/
theorem processSegments_spec (segSize maxSeg : Nat) (fn : ProcFn) (hs : 0 < segSize) (r : Reader) :
    processSegments segSize maxSeg fn r = runSegs maxSeg fn (confirmed segSize r none) 0 (finOf r) := by
  unfold processSegments
  apply psLoop_spec segSize maxSeg fn hs
  · simp
  · right; rfl


/-- No call at all, and a clean end, for a non-failing source that delivers nothing. -/
theorem processSegments_nil (segSize maxSeg : Nat) (hs : 0 < segSize) (fn : ProcFn) (r : Reader)
    (heof : r.term = .eof) (hempty : r.stream = []) :
    processSegments segSize maxSeg fn r = ⟨[], [], .ok⟩ := by
  have hfails : r.term.fails = false := by rw [heof]; rfl
  have hconf : confirmed segSize r none = [] := by
    simp [confirmed, visible, hfails, hempty, segments_nil]
  rw [processSegments_spec segSize maxSeg fn hs r, hconf, runSegs_nil]
  simp [finOf, hfails]

end Kit.Enc
