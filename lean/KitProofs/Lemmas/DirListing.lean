import KitModel.Dir
import KitProofs.Lemmas.Dir
/-!
Bridge between the proof-side description of a directory (`DirIs`, stated through `look`) and the
executable listing the driver prints and the harness compares (`dirListing`, computed from the
entry list): they describe the same thing, for EVERY association list (no well-formedness
hypothesis: `entries` lists each key once, with the binding `get` sees).
-/
namespace Kit.Dir

theorem entries_cons (e : Path × Node) (rest : FS) :
    entries (e :: rest) = e :: (entries rest).filter (fun e' => decide (e'.1 ≠ e.1)) := rfl

theorem mem_entries (fs : FS) (p : Path) (n : Node) : (p, n) ∈ entries fs ↔ get fs p = some n := by
  induction fs with
  | nil => simp [entries, get]
  | cons e rest ih =>
    obtain ⟨k, v⟩ := e
    rw [entries_cons]
    simp only [List.mem_cons, List.mem_filter, get, ih]
    by_cases hk : k = p
    · subst hk
      simp only [if_true]
      constructor
      · rintro (h | ⟨_, h⟩)
        · injection h with _ h2; rw [h2]
        · simp at h
      · intro h; left; injection h with h; rw [h]
    · have : ¬ p = k := fun h => hk h.symm
      simp [hk, this]

theorem entries_nodup (fs : FS) : ((entries fs).map Prod.fst).Nodup := by
  induction fs with
  | nil => simp [entries]
  | cons e rest ih =>
    rw [entries_cons]
    simp only [List.map_cons, List.nodup_cons]
    constructor
    · intro h
      obtain ⟨e', he', hk⟩ := List.mem_map.1 h
      have := (List.mem_filter.1 he').2
      simp at this
      exact this hk
    · exact ih.sublist ((List.filter_sublist).map _)

theorem prefix_eq_append_drop {d p : Path} (h : d <+: p) : p = d ++ p.drop d.length :=
  (List.prefix_iff_eq_append.1 h).symm

/-- One step of `collectFiles`, as a case distinction. -/
theorem collectFiles_cons_some {d k : Path} {v : Node} {rest : FS} {l : List (Name × Bytes)} :
    collectFiles d ((k, v) :: rest) = some l ↔
      (¬ (d <+: k ∧ k ≠ d) ∧ collectFiles d rest = some l) ∨
      ((d <+: k ∧ k ≠ d) ∧ ∃ nm b l', v = .file b ∧ k = d ++ [nm] ∧
        collectFiles d rest = some l' ∧ l = (nm, b) :: l') := by
  by_cases hk : d <+: k ∧ k ≠ d
  · simp only [collectFiles]; rw [if_pos hk]
    constructor
    · intro h
      right
      refine ⟨hk, ?_⟩
      cases v with
      | dir => simp at h
      | link t => simp at h
      | file b =>
        cases hdrop : k.drop d.length with
        | nil => simp [hdrop] at h
        | cons nm tl =>
          cases tl with
          | cons x y => simp [hdrop] at h
          | nil =>
            cases hrest : collectFiles d rest with
            | none => simp [hdrop, hrest] at h
            | some l' =>
              simp [hdrop, hrest] at h
              have hkeq := prefix_eq_append_drop hk.1
              rw [hdrop] at hkeq
              exact ⟨nm, b, l', rfl, hkeq, rfl, h.symm⟩
    · rintro (⟨h, _⟩ | ⟨_, nm, b, l', rfl, rfl, hr, rfl⟩)
      · exact absurd hk h
      · simp [hr]
  · simp only [collectFiles]; rw [if_neg hk]
    constructor
    · intro h; exact Or.inl ⟨hk, h⟩
    · rintro (⟨_, h⟩ | ⟨h, _⟩)
      · exact h
      · exact absurd h hk

theorem collectFiles_mem {d : Path} : ∀ {es : FS} {l : List (Name × Bytes)},
    collectFiles d es = some l → ∀ p n, (p, n) ∈ es → d <+: p → p ≠ d →
      ∃ nm b, p = d ++ [nm] ∧ n = .file b ∧ (nm, b) ∈ l := by
  intro es
  induction es with
  | nil => intro l _ p n h; simp at h
  | cons e rest ih =>
    intro l hc p n hmem hpre hne
    obtain ⟨k, v⟩ := e
    rcases collectFiles_cons_some.1 hc with ⟨hk, hr⟩ | ⟨hk, nm, b, l', rfl, rfl, hr, rfl⟩
    · rcases List.mem_cons.1 hmem with h | h
      · injection h with h1 h2
        subst h1
        exact absurd ⟨hpre, hne⟩ hk
      · exact ih hr p n h hpre hne
    · rcases List.mem_cons.1 hmem with h | h
      · injection h with h1 h2
        subst h1; subst h2
        exact ⟨nm, b, rfl, rfl, by simp⟩
      · obtain ⟨nm', b', h1, h2, h3⟩ := ih hr p n h hpre hne
        exact ⟨nm', b', h1, h2, by simp [h3]⟩

theorem collectFiles_mem' {d : Path} : ∀ {es : FS} {l : List (Name × Bytes)},
    collectFiles d es = some l → ∀ nm b, (nm, b) ∈ l → (d ++ [nm], .file b) ∈ es := by
  intro es
  induction es with
  | nil => intro l hc nm b h; simp [collectFiles] at hc; subst hc; simp at h
  | cons e rest ih =>
    intro l hc nm b hmem
    obtain ⟨k, v⟩ := e
    rcases collectFiles_cons_some.1 hc with ⟨_, hr⟩ | ⟨_, nm0, b0, l', rfl, rfl, hr, rfl⟩
    · exact List.mem_cons_of_mem _ (ih hr nm b hmem)
    · rcases List.mem_cons.1 hmem with h | h
      · injection h with h1 h2
        subst h1; subst h2
        simp
      · exact List.mem_cons_of_mem _ (ih hr nm b h)

theorem collectFiles_exists {d : Path} : ∀ {es : FS},
    (∀ p n, (p, n) ∈ es → d <+: p → p ≠ d → ∃ nm b, p = d ++ [nm] ∧ n = .file b) →
    ∃ l, collectFiles d es = some l := by
  intro es
  induction es with
  | nil => intro _; exact ⟨[], rfl⟩
  | cons e rest ih =>
    intro h
    obtain ⟨k, v⟩ := e
    obtain ⟨l', hl'⟩ := ih (fun p n hm => h p n (List.mem_cons_of_mem _ hm))
    by_cases hk : d <+: k ∧ k ≠ d
    · obtain ⟨nm, b, h1, h2⟩ := h k v (by simp) hk.1 hk.2
      exact ⟨(nm, b) :: l', collectFiles_cons_some.2 (Or.inr ⟨hk, nm, b, l', h2, h1, hl', rfl⟩)⟩
    · exact ⟨l', collectFiles_cons_some.2 (Or.inl ⟨hk, hl'⟩)⟩

theorem collectFiles_nodup {d : Path} : ∀ {es : FS} {l : List (Name × Bytes)},
    collectFiles d es = some l → (es.map Prod.fst).Nodup → (l.map Prod.fst).Nodup := by
  intro es
  induction es with
  | nil => intro l hc _; simp [collectFiles] at hc; subst hc; simp
  | cons e rest ih =>
    intro l hc hnd
    obtain ⟨k, v⟩ := e
    simp only [List.map_cons, List.nodup_cons] at hnd
    rcases collectFiles_cons_some.1 hc with ⟨_, hr⟩ | ⟨_, nm0, b0, l', rfl, rfl, hr, rfl⟩
    · exact ih hr hnd.2
    · simp only [List.map_cons, List.nodup_cons]
      refine ⟨?_, ih hr hnd.2⟩
      intro hm
      obtain ⟨⟨nm', b'⟩, hm', hnm⟩ := List.mem_map.1 hm
      simp only at hnm; subst hnm
      have hin := collectFiles_mem' hr nm' b' hm'
      exact hnd.1 (List.mem_map.2 ⟨_, hin, rfl⟩)

theorem lookupL_of_mem : ∀ {l : List (Name × Bytes)} {nm : Name} {b : Bytes},
    (l.map Prod.fst).Nodup → (nm, b) ∈ l → lookupL l nm = some b := by
  intro l
  induction l with
  | nil => intro nm b _ h; simp at h
  | cons e rest ih =>
    intro nm b hnd hmem
    obtain ⟨k, v⟩ := e
    simp only [List.map_cons, List.nodup_cons] at hnd
    rcases List.mem_cons.1 hmem with h | h
    · injection h with h1 h2; subst h1; subst h2; simp [lookupL]
    · have : k ≠ nm := by
        intro e; subst e
        exact hnd.1 (List.mem_map.2 ⟨_, h, rfl⟩)
      simp [lookupL, this, ih hnd.2 h]

theorem mem_of_lookupL : ∀ {l : List (Name × Bytes)} {nm : Name} {b : Bytes},
    lookupL l nm = some b → (nm, b) ∈ l := by
  intro l
  induction l with
  | nil => intro nm b h; simp [lookupL] at h
  | cons e rest ih =>
    intro nm b h
    obtain ⟨k, v⟩ := e
    simp only [lookupL] at h
    by_cases hk : k = nm
    · simp [hk] at h; subst h; subst hk; simp
    · simp [hk] at h; exact List.mem_cons_of_mem _ (ih h)

/-- The listing computed from the entry list describes the directory as `DirIs` does. -/
theorem dirListing_sound (fs : FS) (d : Path) (l : List (Name × Bytes))
    (h : dirListing fs d = some l) : DirIs fs d (lookupL l) ∧ (l.map Prod.fst).Nodup := by
  unfold dirListing at h
  by_cases hd : look fs d = some .dir
  · simp only [hd, if_true] at h
    have hnd := collectFiles_nodup h (entries_nodup fs)
    refine ⟨⟨hd, ?_, ?_⟩, hnd⟩
    · intro nm
      have hne : d ++ [nm] ≠ [] := by simp
      simp only [look, hne, if_false]
      cases hg : get fs (d ++ [nm]) with
      | none =>
        cases hl : lookupL l nm with
        | none => rfl
        | some b =>
          have := (mem_entries fs _ _).1 (collectFiles_mem' h nm b (mem_of_lookupL hl))
          rw [hg] at this; simp at this
      | some n =>
        obtain ⟨nm', b, h1, h2, h3⟩ := collectFiles_mem h _ n ((mem_entries fs _ _).2 hg)
          (List.prefix_append _ _) (by simp)
        have : nm = nm' := by simpa using List.append_cancel_left h1
        subst this; subst h2
        simp [lookupL_of_mem hnd h3]
    · intro a b r
      have hne : d ++ a :: b :: r ≠ [] := by simp
      simp only [look, hne, if_false]
      cases hg : get fs (d ++ a :: b :: r) with
      | none => rfl
      | some n =>
        obtain ⟨nm', b', h1, _, _⟩ := collectFiles_mem h _ n ((mem_entries fs _ _).2 hg)
          (List.prefix_append _ _) (by simp)
        have := List.append_cancel_left h1
        simp at this
  · simp [hd] at h

/-- Conversely every `DirIs` directory has a listing, and the listing is its file map. -/
theorem dirListing_complete (fs : FS) (d : Path) (m : Name → Option Bytes) (h : DirIs fs d m) :
    ∃ l, dirListing fs d = some l ∧ ∀ nm, lookupL l nm = m nm := by
  obtain ⟨h1, h2, h3⟩ := h
  have hex : ∃ l, collectFiles d (entries fs) = some l := by
    apply collectFiles_exists
    intro p n hmem hpre hne
    have hg := (mem_entries fs p n).1 hmem
    have hp := prefix_eq_append_drop hpre
    cases hs : p.drop d.length with
    | nil => rw [hs] at hp; simp at hp; exact absurd hp hne
    | cons a tl =>
      rw [hs] at hp
      have hpne : p ≠ [] := by rw [hp]; simp
      have hl : look fs p = some n := by simp [look, hpne, hg]
      cases tl with
      | nil =>
        rw [hp, h2 a] at hl
        cases hm : m a with
        | none => simp [hm] at hl
        | some b => simp [hm] at hl; exact ⟨a, b, hp, hl.symm⟩
      | cons b r => rw [hp, h3 a b r] at hl; simp at hl
  obtain ⟨l, hl⟩ := hex
  have hdl : dirListing fs d = some l := by simp [dirListing, h1, hl]
  refine ⟨l, hdl, ?_⟩
  intro nm
  have hs := (dirListing_sound fs d l hdl).1.2.1 nm
  rw [h2 nm] at hs
  cases hm : m nm with
  | none => cases hl' : lookupL l nm with
    | none => rfl
    | some b => simp [hm, hl'] at hs
  | some b => cases hl' : lookupL l nm with
    | none => simp [hm, hl'] at hs
    | some b' => simp [hm, hl'] at hs; rw [hs]

end Kit.Dir
