/-
Helper lemmas for property C03: normal forms of the generated guard prefixes
(`runSteps env Generated.C03.steps_<helper>`) of every symmetric helper, for a symbolic algorithm
name constrained only by what the generated tables say about it.
-/
import KitProofs.Lemmas.CryptoGlueAead
namespace Kit.CryptoGlue
open Kit Kit.CryptoGlue.Facts

theorem aesNewCipherErr_ok (key : Bytes) (h : key.length = 16 ∨ key.length = 24 ∨ key.length = 32) :
    aesNewCipherErr key = none := by
  simp [aesNewCipherErr, h]

/-- encryptSymmetricAESCBC -/
theorem runSteps_encAESCBC (alg : String) (key iv pt : Bytes) (k : Nat) (np : Bool)
    (hk : expectedKeySize alg = .ok k) (hk' : k = 16 ∨ k = 24 ∨ k = 32)
    (hnp : ["A128CBC-NOPAD", "A192CBC-NOPAD", "A256CBC-NOPAD"].contains alg = np) :
    runSteps { alg := alg,
               len := lensOf [("key", key.length), ("iv", iv.length), ("plaintext", pt.length)],
               tryCall := fun c => if c = "aes.NewCipher" then aesNewCipherErr key else some "model: unknown callee" }
      Generated.C03.steps_encryptSymmetricAESCBC =
    if key.length ≠ k then .err eKeyTypeMismatch
    else if iv.length ≠ 16 then .err eInvalidNonce
    else if np = true ∧ pt.length % 16 ≠ 0 then .err eInvalidPlaintextLength
    else .ok () := by
  simp only [Generated.C03.steps_encryptSymmetricAESCBC, runSteps, evalCond, evalTerm, hk, hnp, lensOf]
  simp [bind, Outcome.bind, pure, aesNewCipherErr, eKeyTypeMismatch, eInvalidNonce, eInvalidPlaintextLength]
  by_cases h1 : key.length = k <;> by_cases h2 : iv.length = 16 <;> by_cases h3 : pt.length % 16 = 0 <;>
    cases np <;> simp [h1, h2, h3, hk']

/-- decryptSymmetricAESCBC -/
theorem runSteps_decAESCBC (alg : String) (key iv ct : Bytes) (k : Nat)
    (hk : expectedKeySize alg = .ok k) (hk' : k = 16 ∨ k = 24 ∨ k = 32) :
    runSteps { alg := alg,
               len := lensOf [("key", key.length), ("iv", iv.length), ("ciphertext", ct.length)],
               tryCall := fun c => if c = "aes.NewCipher" then aesNewCipherErr key else some "model: unknown callee" }
      Generated.C03.steps_decryptSymmetricAESCBC =
    if key.length ≠ k then .err eKeyTypeMismatch
    else if iv.length ≠ 16 then .err eInvalidNonce
    else if ct.length % 16 ≠ 0 then .err eInvalidCiphertextLength
    else .ok () := by
  simp only [Generated.C03.steps_decryptSymmetricAESCBC, runSteps, evalCond, evalTerm, hk, lensOf]
  simp [bind, Outcome.bind, pure, aesNewCipherErr, eKeyTypeMismatch, eInvalidNonce, eInvalidCiphertextLength]
  by_cases h1 : key.length = k <;> by_cases h2 : iv.length = 16 <;> by_cases h3 : ct.length % 16 = 0 <;>
    simp [h1, h2, h3, hk']

/-- encryptSymmetricAESGCM / decryptSymmetricAESGCM (same prefix) -/
theorem runSteps_encAESGCM (alg : String) (key : Bytes) (k : Nat)
    (hk : expectedKeySize alg = .ok k) (hk' : k = 16 ∨ k = 24 ∨ k = 32) :
    runSteps { alg := alg, len := lensOf [("key", key.length)], tryCall := gcmTry key }
      Generated.C03.steps_encryptSymmetricAESGCM =
    if key.length ≠ k then .err eKeyTypeMismatch else .ok () := by
  simp only [Generated.C03.steps_encryptSymmetricAESGCM, runSteps, evalCond, evalTerm, hk, lensOf, gcmTry]
  simp [bind, Outcome.bind, pure, aesNewCipherErr, eKeyTypeMismatch]
  by_cases h1 : key.length = k <;> simp [h1, hk']

theorem runSteps_decAESGCM (alg : String) (key : Bytes) (k : Nat)
    (hk : expectedKeySize alg = .ok k) (hk' : k = 16 ∨ k = 24 ∨ k = 32) :
    runSteps { alg := alg, len := lensOf [("key", key.length)], tryCall := gcmTry key }
      Generated.C03.steps_decryptSymmetricAESGCM =
    if key.length ≠ k then .err eKeyTypeMismatch else .ok () := by
  simp only [Generated.C03.steps_decryptSymmetricAESGCM, runSteps, evalCond, evalTerm, hk, lensOf, gcmTry]
  simp [bind, Outcome.bind, pure, aesNewCipherErr, eKeyTypeMismatch]
  by_cases h1 : key.length = k <;> simp [h1, hk']

/-- encryptSymmetricAESKW / decryptSymmetricAESKW -/
theorem runSteps_encAESKW (alg : String) (key : Bytes) (k : Nat)
    (hk : expectedKeySize alg = .ok k) (hk' : k = 16 ∨ k = 24 ∨ k = 32) :
    runSteps { alg := alg, len := lensOf [("key", key.length)], tryCall := kwTry key }
      Generated.C03.steps_encryptSymmetricAESKW =
    if key.length ≠ k then .err eKeyTypeMismatch else .ok () := by
  simp only [Generated.C03.steps_encryptSymmetricAESKW, runSteps, evalCond, evalTerm, hk, lensOf, kwTry]
  simp [bind, Outcome.bind, pure, aesNewCipherErr, eKeyTypeMismatch]
  by_cases h1 : key.length = k <;> simp [h1, hk']

theorem runSteps_decAESKW (alg : String) (key : Bytes) (k : Nat)
    (hk : expectedKeySize alg = .ok k) (hk' : k = 16 ∨ k = 24 ∨ k = 32) :
    runSteps { alg := alg, len := lensOf [("key", key.length)], tryCall := kwTry key }
      Generated.C03.steps_decryptSymmetricAESKW =
    if key.length ≠ k then .err eKeyTypeMismatch else .ok () := by
  simp only [Generated.C03.steps_decryptSymmetricAESKW, runSteps, evalCond, evalTerm, hk, lensOf, kwTry]
  simp [bind, Outcome.bind, pure, aesNewCipherErr, eKeyTypeMismatch]
  by_cases h1 : key.length = k <;> simp [h1, hk']

/-- `getAESCBCHMACCipher` for a name whose table entries are known. -/
theorem getAESCBCHMACCipher_eq (alg : String) (key : Bytes) (c : CbcHmacCase) (p : AeadParams)
    (hc : Generated.C03.cbcHmacCiphers.find? (·.name == alg) = some c)
    (hp : Generated.C03.aescbcaeadParams.find? (·.ctor == c.ctor) = some p)
    (hsum : c.keyLen = p.encKeySize + p.macKeySize) :
    getAESCBCHMACCipher alg key = if key.length ≠ c.keyLen then .error eKeyTypeMismatch else .ok p := by
  unfold getAESCBCHMACCipher
  simp only [hc, hp]
  by_cases h : key.length = c.keyLen
  · simp [h, hsum]
  · simp [h]

/-- encryptSymmetricAESCBCHMAC / decryptSymmetricAESCBCHMAC -/
theorem runSteps_encCBCHMAC (alg : String) (key : Bytes) :
    runSteps { alg := alg, len := lensOf [("key", key.length)], tryCall := cbcHmacTry alg key }
      Generated.C03.steps_encryptSymmetricAESCBCHMAC =
    match getAESCBCHMACCipher alg key with
    | .error e => .err e
    | .ok _ => .ok () := by
  simp only [Generated.C03.steps_encryptSymmetricAESCBCHMAC, runSteps, cbcHmacTry]
  cases getAESCBCHMACCipher alg key <;> simp [exceptErr]

theorem runSteps_decCBCHMAC (alg : String) (key : Bytes) :
    runSteps { alg := alg, len := lensOf [("key", key.length)], tryCall := cbcHmacTry alg key }
      Generated.C03.steps_decryptSymmetricAESCBCHMAC =
    match getAESCBCHMACCipher alg key with
    | .error e => .err e
    | .ok _ => .ok () := by
  simp only [Generated.C03.steps_decryptSymmetricAESCBCHMAC, runSteps, cbcHmacTry]
  cases getAESCBCHMACCipher alg key <;> simp [exceptErr]

/-- `getChaCha20Poly1305Cipher` for a name whose table entry is known. -/
theorem getChaChaCipher_eq (alg : String) (key nonce : Bytes) (c : ChaChaCase)
    (hc : Generated.C03.chachaCiphers.find? (·.names.contains alg) = some c) :
    getChaChaCipher alg key nonce =
      if key.length ≠ 32 then .error "chacha20poly1305: bad key length"
      else if nonce.length ≠ c.nonceLen then .error eInvalidNonce else .ok c := by
  unfold getChaChaCipher
  simp only [hc]
  rfl

/-- encryptSymmetricChaCha20Poly1305 -/
theorem runSteps_encChaCha (alg : String) (key nonce : Bytes) :
    runSteps { alg := alg, len := lensOf [("key", key.length)], tryCall := chachaTry alg key nonce }
      Generated.C03.steps_encryptSymmetricChaCha20Poly1305 =
    if key.length ≠ 32 then .err eKeyTypeMismatch
    else match getChaChaCipher alg key nonce with
      | .error e => .err e
      | .ok _ => .ok () := by
  simp only [Generated.C03.steps_encryptSymmetricChaCha20Poly1305, runSteps, evalCond, evalTerm, lensOf, chachaTry]
  simp [bind, Outcome.bind, pure, eKeyTypeMismatch]
  by_cases h1 : key.length = 32
  · simp [h1]; cases getChaChaCipher alg key nonce <;> simp [exceptErr]
  · simp [h1]

/-- decryptSymmetricChaCha20Poly1305 (the tag guard comes after the cipher getter) -/
theorem runSteps_decChaCha (alg : String) (key nonce tag : Bytes) (an ao : Nat) :
    runSteps { alg := alg, len := lensOf [("key", key.length), ("tag", tag.length)],
               aeadNonce := an, aeadOverhead := ao, tryCall := chachaTry alg key nonce }
      Generated.C03.steps_decryptSymmetricChaCha20Poly1305 =
    if key.length ≠ 32 then .err eKeyTypeMismatch
    else match getChaChaCipher alg key nonce with
      | .error e => .err e
      | .ok _ => if tag.length ≠ ao then .err eInvalidTag else .ok () := by
  simp only [Generated.C03.steps_decryptSymmetricChaCha20Poly1305, runSteps, evalCond, evalTerm, lensOf, chachaTry]
  simp [bind, Outcome.bind, pure, eKeyTypeMismatch, eInvalidTag]
  by_cases h1 : key.length = 32
  · simp [h1]
    cases getChaChaCipher alg key nonce <;> simp [exceptErr]
    by_cases h2 : tag.length = ao <;> simp [h2]
  · simp [h1]

end Kit.CryptoGlue
