/-
Helper lemmas for property C03: CBC-HMAC seal/open and the AEAD helpers' guard prefixes.
-/
import KitProofs.Lemmas.CryptoGluePad
namespace Kit.CryptoGlue
open Kit Kit.CryptoGlue.Facts

theorem pad_eq (buf : Bytes) (size : Nat) (h1 : 1 < size) (h2 : size < 256) :
    pad buf size = .ok (buf ++ List.replicate (size - buf.length % size)
      (UInt8.ofNat (size - buf.length % size))) := by
  unfold pad; rw [if_neg (by omega)]

/-- The MAC output is long enough to be truncated to the tag size. -/
def MacLongEnough (P : Prims) (p : AeadParams) : Prop :=
  ∀ k m, p.tagSize ≤ (P.hmac p.hashBits k m).length

theorem cbcHmacTag_length (P : Prims) (p : AeadParams) (hm : MacLongEnough P p) (key ad iv ct : Bytes) :
    (cbcHmacTag P p key ad iv ct).length = p.tagSize := by
  simp [cbcHmacTag, List.length_take]; exact Nat.min_eq_left (hm _ _)

/-- Shape of `Seal`'s output. -/
theorem cbcHmacSeal_eq (P : Prims) (p : AeadParams) (key iv pt ad : Bytes)
    (hL : (P.aes (encKeyOf p key)).Lawful) (hiv : iv.length = 16) :
    ∃ ct, ct.length = 16 * (pt.length / 16 + 1) ∧
      ct = cbcEncBlocks (P.aes (encKeyOf p key)).E (pt.length / 16 + 1) iv
            (pt ++ List.replicate (16 - pt.length % 16) (UInt8.ofNat (16 - pt.length % 16))) ∧
      cbcHmacSeal P p key iv pt ad = .ok (ct ++ cbcHmacTag P p key ad iv ct) := by
  have hlen : (pt ++ List.replicate (16 - pt.length % 16) (UInt8.ofNat (16 - pt.length % 16))).length
      = 16 * (pt.length / 16 + 1) := by
    simp; omega
  refine ⟨_, cbcEncBlocks_length _ hL.lenE _ _ _ hiv hlen, rfl, ?_⟩
  unfold cbcHmacSeal
  rw [if_neg (by omega), pad_eq pt 16 (by omega) (by omega)]
  simp only [cbcEncrypt]
  rw [if_neg (by omega), if_neg (by rw [hlen]; omega), hlen]
  have : 16 * (pt.length / 16 + 1) / 16 = pt.length / 16 + 1 := by omega
  rw [this]

theorem cbcHmacOpen_seal (P : Prims) (p : AeadParams) (key iv pt ad : Bytes)
    (hL : (P.aes (encKeyOf p key)).Lawful) (hm : MacLongEnough P p) (hiv : iv.length = 16) :
    ∃ out, cbcHmacSeal P p key iv pt ad = .ok out ∧
      out.length = 16 * (pt.length / 16 + 1) + p.tagSize ∧
      cbcHmacOpen P p key iv out ad = .ok pt := by
  obtain ⟨ct, hct, hcte, hs⟩ := cbcHmacSeal_eq P p key iv pt ad hL hiv
  have htl := cbcHmacTag_length P p hm key ad iv ct
  refine ⟨_, hs, by simp [hct, htl], ?_⟩
  unfold cbcHmacOpen
  have e : (ct ++ cbcHmacTag P p key ad iv ct).length - p.tagSize = ct.length := by
    simp [htl]
  rw [if_neg (by omega), if_neg (by simp [htl]), e, List.drop_left' rfl, List.take_left' rfl]
  simp only [ne_eq, not_true_eq_false, if_false]
  rw [if_neg (by rw [hct]; omega)]
  simp only [cbcDecrypt]
  rw [if_neg (by omega), if_neg (by rw [hct]; omega)]
  have hn : ct.length / 16 = pt.length / 16 + 1 := by rw [hct]; omega
  have hlen : (pt ++ List.replicate (16 - pt.length % 16) (UInt8.ofNat (16 - pt.length % 16))).length
      = 16 * (pt.length / 16 + 1) := by
    simp; omega
  rw [hn, hcte, cbc_roundtrip _ hL _ _ _ hiv hlen]
  exact unpad_of_shape pt _ 16 (by omega) (by omega) (by omega) (by omega) (by omega)

/-! ### guard prefixes of the two generic AEAD helpers -/

theorem runSteps_encAEAD (a : AEAD) (nonce : Bytes) :
    runSteps { alg := "", len := lensOf [("nonce", nonce.length)], aeadNonce := a.nonceSize,
               aeadOverhead := a.overhead }
      Generated.C03.steps_encryptSymmetricAEAD =
    if nonce.length ≠ a.nonceSize then .err eInvalidNonce else .ok () := by
  simp [Generated.C03.steps_encryptSymmetricAEAD, runSteps, evalCond, evalTerm, lensOf,
    eInvalidNonce, bind, Outcome.bind, pure]
  split <;> simp_all

theorem runSteps_decAEAD (a : AEAD) (nonce tag : Bytes) :
    runSteps { alg := "", len := lensOf [("nonce", nonce.length), ("tag", tag.length)],
               aeadNonce := a.nonceSize, aeadOverhead := a.overhead }
      Generated.C03.steps_decryptSymmetricAEAD =
    if nonce.length ≠ a.nonceSize then .err eInvalidNonce
    else if tag.length ≠ a.overhead then .err eInvalidTag else .ok () := by
  simp [Generated.C03.steps_decryptSymmetricAEAD, runSteps, evalCond, evalTerm, lensOf,
    eInvalidNonce, eInvalidTag, bind, Outcome.bind, pure]
  split <;> simp_all
  split <;> simp_all

/-- Guard normal form of `encryptSymmetricAEAD`. -/
theorem encryptAEAD_eq (a : AEAD) (pt nonce ad : Bytes) :
    encryptAEAD a pt nonce ad =
      if nonce.length ≠ a.nonceSize then .err eInvalidNonce
      else (a.doSeal nonce pt ad).bind fun out =>
          if out.length < a.overhead then .panic "slice bounds out of range"
          else .ok (out.take (out.length - a.overhead), out.drop (out.length - a.overhead)) := by
  unfold encryptAEAD
  simp only [runSteps_encAEAD]
  by_cases h : nonce.length = a.nonceSize
  · simp only [h, ne_eq, not_true_eq_false, if_false]
  · simp only [h, ne_eq, not_false_eq_true, if_true]

/-- Guard normal form of `decryptSymmetricAEAD`. -/
theorem decryptAEAD_eq (a : AEAD) (ct nonce tag ad : Bytes) :
    decryptAEAD a ct nonce tag ad =
      if nonce.length ≠ a.nonceSize then .err eInvalidNonce
      else if tag.length ≠ a.overhead then .err eInvalidTag
      else a.doOpen nonce (ct ++ tag) ad := by
  unfold decryptAEAD
  simp only [runSteps_decAEAD]
  by_cases h : nonce.length = a.nonceSize
  · by_cases h2 : tag.length = a.overhead
    · simp only [h, h2, ne_eq, not_true_eq_false, if_false]
    · simp only [h, h2, ne_eq, not_true_eq_false, not_false_eq_true, if_false, if_true]
  · simp only [h, ne_eq, not_false_eq_true, if_true]

/-! ### the identity "cipher": a lawful permutation used for non-vacuity examples and witnesses -/

def idCipher : BlockCipher := { E := id, D := id }

theorem idCipher_perm : idCipher.Perm :=
  { lenE := fun _ h => h, DE := fun _ _ => rfl, lenD := fun _ h => h, ED := fun _ _ => rfl }

/-- `Wrap` of sixteen 7s under the identity cipher (the IV xor-ed with the counters, then the data). -/
def witnessWrapped : Bytes :=
  match wrap idCipher (List.replicate 16 7) with
  | .ok w => w
  | _ => []

end Kit.CryptoGlue
