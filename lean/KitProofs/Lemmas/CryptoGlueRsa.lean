/-
C03: facts about the Lean-native RSA of `KitModel/Crypto/Rsa.lean` — `modPow` is modular
exponentiation, I2OSP/OS2IP are inverse, and under the RSA key equation `(m^d)^e ≡ m (mod n)`
verification accepts what signing produced (textbook RSA and RSASSA-PKCS1-v1_5).  These make the
abstract `SigScheme` of `Kit.CryptoGlue` concretely instantiable.
-/
import KitModel.Crypto.Rsa
import KitModel.CryptoGlue
namespace Kit.Crypto
open Kit

/-! ### square-and-multiply -/

theorem modPowAux_spec : ∀ (f b e acc m : Nat), e ≤ f →
    modPowAux f b e acc m % m = acc * b ^ e % m
  | 0, b, e, acc, m, h => by
    have : e = 0 := by omega
    simp [modPowAux, this]
  | f + 1, b, e, acc, m, h => by
    unfold modPowAux
    by_cases he : e = 0
    · simp [he]
    · rw [if_neg he]
      have hle : e / 2 ≤ f := by omega
      rw [modPowAux_spec f (b * b % m) (e / 2) _ m hle]
      have hsplit : b ^ e = (b * b) ^ (e / 2) * b ^ (e % 2) := by
        have : e = 2 * (e / 2) + e % 2 := by omega
        conv => lhs; rw [this]
        rw [Nat.pow_add, Nat.pow_mul, Nat.pow_two]
      rw [hsplit]
      by_cases hodd : e % 2 = 1
      · rw [if_pos hodd, hodd, Nat.pow_one]
        rw [Nat.mul_mod, Nat.pow_mod (b * b % m), Nat.mod_mod, Nat.mod_mod, ← Nat.pow_mod, ← Nat.mul_mod]
        congr 1
        rw [Nat.mul_assoc, Nat.mul_comm b, ← Nat.mul_assoc]
      · have h0 : e % 2 = 0 := by omega
        rw [if_neg hodd, h0, Nat.pow_zero, Nat.mul_one]
        rw [Nat.mul_mod, Nat.pow_mod (b * b % m), Nat.mod_mod, ← Nat.pow_mod, ← Nat.mul_mod]

/-- `modPow` is modular exponentiation. -/
theorem modPow_eq (b e m : Nat) : modPow b e m = b ^ e % m := by
  unfold modPow
  rw [modPowAux_spec e (b % m) e 1 m (Nat.le_refl _), Nat.one_mul, ← Nat.pow_mod]

/-! ### I2OSP / OS2IP -/

theorem os2ip_append_one (l : Bytes) (b : UInt8) : os2ip (l ++ [b]) = os2ip l * 256 + b.toNat := by
  simp [os2ip, List.foldl_append]

theorem i2osp_length : ∀ (len x : Nat), (i2osp len x).length = len
  | 0, _ => rfl
  | len + 1, x => by simp [i2osp, i2osp_length len]

theorem os2ip_i2osp : ∀ (len x : Nat), os2ip (i2osp len x) = x % 256 ^ len
  | 0, x => by simp [i2osp, os2ip, Nat.mod_one]
  | len + 1, x => by
    rw [i2osp, os2ip_append_one, os2ip_i2osp len]
    have hb : (UInt8.ofNat (x % 256)).toNat = x % 256 := by
      simp
    rw [hb, Nat.pow_succ, Nat.mul_comm (256 ^ len) 256, Nat.mod_mul]
    omega

theorem i2osp_os2ip_rev : ∀ (xs : Bytes), i2osp xs.length (os2ip xs.reverse) = xs.reverse
  | [] => rfl
  | x :: xs => by
    have ih := i2osp_os2ip_rev xs
    rw [List.reverse_cons, os2ip_append_one, List.length_cons, i2osp]
    have h1 : (os2ip xs.reverse * 256 + x.toNat) / 256 = os2ip xs.reverse := by
      have := x.toNat_lt
      omega
    have h2 : UInt8.ofNat ((os2ip xs.reverse * 256 + x.toNat) % 256) = x := by
      have := x.toNat_lt
      have : (os2ip xs.reverse * 256 + x.toNat) % 256 = x.toNat := by omega
      rw [this]; simp
    rw [h1, h2, ih]

/-- I2OSP inverts OS2IP at the string's own length. -/
theorem i2osp_os2ip (l : Bytes) : i2osp l.length (os2ip l) = l := by
  have := i2osp_os2ip_rev l.reverse
  simpa using this

theorem os2ip_lt (l : Bytes) : os2ip l < 256 ^ l.length := by
  have h := os2ip_i2osp l.length (os2ip l)
  rw [i2osp_os2ip] at h
  have hpos : 0 < 256 ^ l.length := Nat.pow_pos (by decide)
  rw [h]; exact Nat.mod_lt _ hpos

theorem os2ip_cons_zero (l : Bytes) : os2ip (0 :: l) = os2ip l := by
  simp [os2ip]

/-! ### the RSA key equation -/

/-- An RSA key pair as far as the proofs need it: `(m^d)^e ≡ m (mod n)` on residues, and the
octet length `k` of the modulus (`256^(k-1) ≤ n < 256^k`). -/
structure RsaKey where
  n : Nat
  e : Nat
  d : Nat
  k : Nat
  hk : octLen n = k
  hlo : 256 ^ (k - 1) ≤ n
  hhi : n < 256 ^ k
  inv : ∀ m, m < n → (m ^ d) ^ e % n = m

theorem RsaKey.npos (key : RsaKey) : 0 < key.n :=
  Nat.lt_of_lt_of_le (Nat.pow_pos (by decide)) key.hlo

/-- RSAVP1 ∘ RSASP1 = id on message representatives. -/
theorem rsa_vp1_sp1 (key : RsaKey) (m : Nat) (hm : m < key.n) :
    modPow (modPow m key.d key.n) key.e key.n = m := by
  rw [modPow_eq, modPow_eq, ← Nat.pow_mod]
  exact key.inv m hm

end Kit.Crypto

namespace Kit.CryptoGlue
open Kit Kit.Crypto

/-- Textbook RSA on the digest reduced mod `n`: `σ = I2OSP(m^d mod n)`, accepted iff
`σ^e mod n = m`.  Public key = (n, e, k). -/
def rsaTextbook : SigScheme RsaKey (Nat × Nat × Nat) where
  pub key := (key.n, key.e, key.k)
  sign key digest _ := .ok (i2osp key.k (modPow (os2ip digest % key.n) key.d key.n))
  verify pk digest sig :=
    if sig.length = pk.2.2 ∧ modPow (os2ip sig) pk.2.1 pk.1 = os2ip digest % pk.1 then .valid else .invalid

/-- RSASSA-PKCS1-v1_5 (RFC 8017 §8.2) over a digest, as `Kit.Crypto.Rsa` implements it. -/
def rsaPkcs1v15 (h : RsaHash) : SigScheme RsaKey (Nat × Nat) where
  pub key := (key.n, key.e)
  sign key digest _ :=
    match rsaSignPkcs1v15 key.n key.d h digest with
    | some s => .ok s
    | none => .err "rsa: digest size / message too long for RSA key size"
  verify pk digest sig := if rsaVerifyPkcs1v15 pk.1 pk.2 h digest sig then .valid else .invalid

/-- RSAES-PKCS1-v1_5 / RSAES-OAEP of `Kit.Crypto.Rsa` as public-key encryption schemes
(`rand` = the padding string PS, resp. the OAEP seed; RSA1_5 ignores the label). -/
def rsaPkcs1v15Pke : PkeScheme RsaKey (Nat × Nat) where
  pub key := (key.n, key.e)
  enc pk msg _ rand := match rsaEncryptPkcs1v15 pk.1 pk.2 msg rand with
    | some c => .ok c | none => .err "rsa: message too long / bad padding string"
  dec key ct _ := match rsaDecryptPkcs1v15 key.n key.d ct with
    | some m => .ok m | none => .err "rsa: decryption error"

def rsaOaepPke (h : RsaHash) : PkeScheme RsaKey (Nat × Nat) where
  pub key := (key.n, key.e)
  enc pk msg label rand := match rsaEncryptOaep pk.1 pk.2 h label msg rand with
    | some c => .ok c | none => .err "rsa: message too long / bad seed"
  dec key ct label := match rsaDecryptOaep key.n key.d h label ct with
    | some m => .ok m | none => .err "rsa: decryption error"

def rsaHashOfPlan (pl : AsymPlan) : RsaHash :=
  if pl.hash = 1 then .sha1 else if pl.hash = 384 then .sha384 else if pl.hash = 512 then .sha512 else .sha256

/-- Plan-indexed families on the Lean-native RSA: the hash comes from the dispatch result; the
encryption scheme is OAEP or PKCS1-v1_5 according to the dispatched helper's stdlib call. -/
def rsaSigFamily (pl : AsymPlan) : SigScheme RsaKey (Nat × Nat) := rsaPkcs1v15 (rsaHashOfPlan pl)

def rsaPkeFamily (pl : AsymPlan) : PkeScheme RsaKey (Nat × Nat) :=
  if pl.helper.stdCall = "rsa.EncryptOAEP" ∨ pl.helper.stdCall = "rsa.DecryptOAEP" then rsaOaepPke (rsaHashOfPlan pl)
  else rsaPkcs1v15Pke

/-- A toy key (n = 11·17, e = 7, d = 23) for which the key equation is checked exhaustively. -/
def toyRsaKey : RsaKey where
  n := 187
  e := 7
  d := 23
  k := 1
  hk := by decide
  hlo := by decide
  hhi := by decide
  inv := by decide +kernel

theorem emsaPkcs1v15_shape (h : RsaHash) (digest : Bytes) (k : Nat) (em : Bytes)
    (he : emsaPkcs1v15 h digest k = some em) :
    em.length = k ∧ ∃ rest, em = 0 :: rest := by
  unfold emsaPkcs1v15 at he
  simp only at he
  split at he
  · cases he
  · rename_i hk
    injection he with he
    subst he
    refine ⟨?_, _, rfl⟩
    simp only [List.length_append] at hk
    simp only [List.length_append, List.length_cons, List.length_nil, List.length_replicate]
    omega

end Kit.CryptoGlue


namespace Kit.Crypto
open Kit

theorem rsa_dp_ep (key : RsaKey) (m : Nat) (hm : m < key.n) :
    modPow (modPow m key.e key.n) key.d key.n = m := by
  rw [modPow_eq, modPow_eq, ← Nat.pow_mod, ← Nat.pow_mul, Nat.mul_comm, Nat.pow_mul]
  exact key.inv m hm

theorem takeWhile_append_stop {α : Type} (p : α → Bool) :
    ∀ (l1 : List α) (a : α) (l2 : List α), (∀ x ∈ l1, p x = true) → p a = false →
      (l1 ++ a :: l2).takeWhile p = l1
  | [], a, l2, _, ha => by simp [ha]
  | x :: l1, a, l2, h, ha => by
    have hx := h x (List.mem_cons_self)
    have ih := takeWhile_append_stop p l1 a l2 (fun y hy => h y (List.mem_cons_of_mem _ hy)) ha
    simp [hx, ih]

/-- RSAES-PKCS1-v1_5: decryption inverts encryption (RFC 8017 §7.2), for every key satisfying the
key equation and every admissible padding string. -/
theorem rsaDecryptPkcs1v15_encrypt (key : RsaKey) (msg ps ct : Bytes)
    (h : rsaEncryptPkcs1v15 key.n key.e msg ps = some ct) :
    rsaDecryptPkcs1v15 key.n key.d ct = some msg := by
  unfold rsaEncryptPkcs1v15 at h
  simp only [key.hk] at h
  by_cases hbad : msg.length + 11 > key.k ∨ ps.length ≠ key.k - msg.length - 3 ∨ ps.any (· == 0) = true
  · rw [if_pos hbad] at h; cases h
  · rw [if_neg hbad] at h
    injection h with h
    have hlen : msg.length + 11 ≤ key.k := by omega
    have hps : ps.length = key.k - msg.length - 3 := by
      cases Nat.decEq ps.length (key.k - msg.length - 3) with
      | isTrue h => exact h
      | isFalse hc => exact absurd (Or.inr (Or.inl hc)) hbad
    have hnz : ∀ x ∈ ps, (x != 0) = true := by
      intro x hx
      have : ¬ ps.any (· == 0) = true := fun hc => hbad (Or.inr (Or.inr hc))
      simp only [List.any_eq_true, not_exists, not_and] at this
      have := this x hx
      simpa [bne_iff_ne] using this
    -- the encoded message
    have hemlen : ([0x00, 0x02] ++ ps ++ [0x00] ++ msg : Bytes).length = key.k := by
      simp [hps]; omega
    have hmlt : os2ip ([0x00, 0x02] ++ ps ++ [0x00] ++ msg) < key.n := by
      have hc : ([0x00, 0x02] ++ ps ++ [0x00] ++ msg : Bytes) = 0 :: (0x02 :: (ps ++ [0x00] ++ msg)) := by simp
      rw [hc, os2ip_cons_zero]
      have hr : (0x02 :: (ps ++ [0x00] ++ msg) : Bytes).length = key.k - 1 := by
        simp [hps]; omega
      have := os2ip_lt (0x02 :: (ps ++ [0x00] ++ msg))
      rw [hr] at this
      exact Nat.lt_of_lt_of_le this key.hlo
    have hclt : modPow (os2ip ([0x00, 0x02] ++ ps ++ [0x00] ++ msg)) key.e key.n < key.n := by
      rw [modPow_eq]; exact Nat.mod_lt _ key.npos
    have hos : os2ip ct = modPow (os2ip ([0x00, 0x02] ++ ps ++ [0x00] ++ msg)) key.e key.n := by
      rw [← h, os2ip_i2osp, Nat.mod_eq_of_lt (Nat.lt_trans hclt key.hhi)]
    have hctl : ct.length = key.k := by rw [← h]; exact i2osp_length _ _
    unfold rsaDecryptPkcs1v15
    simp only [key.hk]
    rw [if_neg (by rw [hos]; omega), hos, rsa_dp_ep key _ hmlt, ← hemlen, i2osp_os2ip]
    have hc : ([0x00, 0x02] ++ ps ++ [0x00] ++ msg : Bytes) = 0x00 :: 0x02 :: (ps ++ 0x00 :: msg) := by simp
    rw [hc]
    simp only
    have htw : (ps ++ 0x00 :: msg).takeWhile (· != 0) = ps :=
      takeWhile_append_stop _ ps 0 msg hnz (by decide)
    rw [htw, if_neg (by simp; omega)]
    simp

end Kit.Crypto

namespace Kit.Crypto
open Kit

theorem be32Bytes_length (x : UInt32) : (be32Bytes x).length = 4 := rfl
theorem be64Bytes_length (x : UInt64) : (be64Bytes x).length = 8 := rfl

theorem sha1_length (m : Bytes) : (Kit.Crypto.sha1 m).length = 20 := by
  simp [Kit.Crypto.sha1, Sha1.digest, be32Bytes_length]
theorem sha256_length (m : Bytes) : (Kit.Crypto.sha256 m).length = 32 := by
  simp [Kit.Crypto.sha256, Sha256.digest, be32Bytes_length]
theorem sha512_length (m : Bytes) : (Kit.Crypto.sha512 m).length = 64 := by
  simp [Kit.Crypto.sha512, Sha512.digestWith, be64Bytes_length]
theorem sha384_length (m : Bytes) : (Kit.Crypto.sha384 m).length = 48 := by
  simp [Kit.Crypto.sha384, Sha512.digestWith, be64Bytes_length]

/-- Every hash returns `size` octets. -/
theorem RsaHash.hash_length (h : RsaHash) (m : Bytes) : (h.hash m).length = h.size := by
  cases h
  · exact sha1_length m
  · exact sha256_length m
  · exact sha384_length m
  · exact sha512_length m

theorem RsaHash.size_pos (h : RsaHash) : 0 < h.size := by cases h <;> decide

theorem flatten_map_length {α : Type} (f : α → Bytes) (c : Nat) (hf : ∀ a, (f a).length = c) :
    ∀ l : List α, ((l.map f).flatten).length = l.length * c
  | [] => by simp
  | a :: l => by
    simp only [List.map_cons, List.flatten_cons, List.length_append, List.length_cons, hf,
      flatten_map_length f c hf l]
    rw [Nat.succ_mul]; omega

theorem mgf1_length (h : RsaHash) (seed : Bytes) (len : Nat) : (mgf1 h seed len).length = len := by
  unfold mgf1
  simp only [List.length_take]
  rw [flatten_map_length _ h.size (fun c => h.hash_length _), List.length_range]
  have hp := h.size_pos
  have : len ≤ (len + h.size - 1) / h.size * h.size := by
    have h1 := Nat.div_add_mod (len + h.size - 1) h.size
    have h2 := Nat.mod_lt (len + h.size - 1) hp
    have h3 : (len + h.size - 1) / h.size * h.size = h.size * ((len + h.size - 1) / h.size) := Nat.mul_comm _ _
    omega
  omega

theorem xorB_length (a b : Bytes) : (xorB a b).length = min a.length b.length := by
  simp [xorB]

theorem xorB_cancel : ∀ (a m : Bytes), a.length = m.length → xorB (xorB a m) m = a
  | [], [], _ => rfl
  | x :: a, y :: m, h => by
    have ih := xorB_cancel a m (by simpa using h)
    simp only [xorB, List.zipWith_cons_cons] at ih ⊢
    rw [ih, UInt8.xor_assoc, UInt8.xor_self, UInt8.xor_zero]
  | [], _ :: _, h => by simp at h
  | _ :: _, [], h => by simp at h

/-- RSAES-OAEP: decryption inverts encryption (RFC 8017 §7.1), for every key satisfying the key
equation, every hash, label and seed. -/
theorem rsaDecryptOaep_encrypt (key : RsaKey) (h : RsaHash) (label msg seed ct : Bytes)
    (he : rsaEncryptOaep key.n key.e h label msg seed = some ct) :
    rsaDecryptOaep key.n key.d h label ct = some msg := by
  unfold rsaEncryptOaep at he
  simp only [key.hk] at he
  by_cases hbad : msg.length + 2 * h.size + 2 > key.k ∨ seed.length ≠ h.size
  · rw [if_pos hbad] at he; cases he
  · rw [if_neg hbad] at he
    injection he with he
    have hk : msg.length + 2 * h.size + 2 ≤ key.k := by omega
    have hseed : seed.length = h.size := by omega
    -- names for the pieces
    generalize hdb : h.hash label ++ List.replicate (key.k - msg.length - 2 * h.size - 2) 0 ++ [0x01] ++ msg = db at he
    have hdbl : db.length = key.k - h.size - 1 := by
      rw [← hdb]; simp [h.hash_length]; omega
    generalize hmdb : xorB db (mgf1 h seed (key.k - h.size - 1)) = maskedDB at he
    have hmdbl : maskedDB.length = key.k - h.size - 1 := by
      rw [← hmdb, xorB_length, mgf1_length, hdbl]; omega
    generalize hms : xorB seed (mgf1 h maskedDB h.size) = maskedSeed at he
    have hmsl : maskedSeed.length = h.size := by
      rw [← hms, xorB_length, mgf1_length, hseed]; omega
    have hemlen : ([0x00] ++ maskedSeed ++ maskedDB : Bytes).length = key.k := by
      simp [hmsl, hmdbl]; omega
    have hmlt : os2ip ([0x00] ++ maskedSeed ++ maskedDB) < key.n := by
      have hc : ([0x00] ++ maskedSeed ++ maskedDB : Bytes) = 0 :: (maskedSeed ++ maskedDB) := by simp
      rw [hc, os2ip_cons_zero]
      have hr : (maskedSeed ++ maskedDB).length = key.k - 1 := by simp [hmsl, hmdbl]; omega
      have := os2ip_lt (maskedSeed ++ maskedDB)
      rw [hr] at this
      exact Nat.lt_of_lt_of_le this key.hlo
    have hclt : modPow (os2ip ([0x00] ++ maskedSeed ++ maskedDB)) key.e key.n < key.n := by
      rw [modPow_eq]; exact Nat.mod_lt _ key.npos
    have hos : os2ip ct = modPow (os2ip ([0x00] ++ maskedSeed ++ maskedDB)) key.e key.n := by
      rw [← he, os2ip_i2osp, Nat.mod_eq_of_lt (Nat.lt_trans hclt key.hhi)]
    have hctl : ct.length = key.k := by rw [← he]; exact i2osp_length _ _
    unfold rsaDecryptOaep
    simp only [key.hk]
    rw [if_neg (by rw [hos]; omega), hos, rsa_dp_ep key _ hmlt, ← hemlen, i2osp_os2ip]
    have hc : ([0x00] ++ maskedSeed ++ maskedDB : Bytes) = 0x00 :: (maskedSeed ++ maskedDB) := by simp
    rw [hc]
    simp only
    rw [List.take_left' hmsl, List.drop_left' hmsl]
    have hseed' : xorB maskedSeed (mgf1 h maskedDB h.size) = seed := by
      rw [← hms]; exact xorB_cancel _ _ (by rw [mgf1_length, hseed])
    have hemlen' : (0x00 :: (maskedSeed ++ maskedDB) : Bytes).length = key.k := by rw [← hc]; exact hemlen
    rw [hseed', hemlen']
    have hdb' : xorB maskedDB (mgf1 h seed (key.k - h.size - 1)) = db := by
      rw [← hmdb]; exact xorB_cancel _ _ (by rw [mgf1_length, hdbl])
    rw [hdb', ← hdb]
    have hl := h.hash_length label
    have e1 : (h.hash label ++ List.replicate (key.k - msg.length - 2 * h.size - 2) 0 ++ [0x01] ++ msg).take h.size
        = h.hash label := by
      rw [List.append_assoc, List.append_assoc]; exact List.take_left' hl
    have e2 : (h.hash label ++ List.replicate (key.k - msg.length - 2 * h.size - 2) 0 ++ [0x01] ++ msg).drop h.size
        = List.replicate (key.k - msg.length - 2 * h.size - 2) 0 ++ 0x01 :: msg := by
      rw [List.append_assoc, List.append_assoc, List.drop_left' hl]; simp
    rw [e1, e2]
    have htw : (List.replicate (key.k - msg.length - 2 * h.size - 2) (0 : UInt8) ++ 0x01 :: msg).takeWhile (· == 0)
        = List.replicate (key.k - msg.length - 2 * h.size - 2) 0 :=
      takeWhile_append_stop _ _ 1 msg (by intro x hx; simp [List.eq_of_mem_replicate hx]) (by decide)
    rw [htw, List.length_replicate, List.drop_left' (List.length_replicate ..)]
    simp

end Kit.Crypto
