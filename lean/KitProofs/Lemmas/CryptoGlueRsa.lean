/-
C03: facts about the Lean-native RSA of `KitModel/Crypto/Rsa.lean` — `modPow` is modular
exponentiation, I2OSP/OS2IP are inverse, and under the RSA key equation `(m^d)^e ≡ m (mod n)`
verification accepts what signing produced (textbook RSA and RSASSA-PKCS1-v1_5).  These make the
abstract `SigScheme` of `Kit.CryptoGlue` concretely instantiable.
-/
import KitModel.Crypto.Rsa
import KitModel.CryptoGlue
namespace Kit.Crypto
open Kit

/-! ### square-and-multiply -/

theorem modPowAux_spec : ∀ (f b e acc m : Nat), e ≤ f →
    modPowAux f b e acc m % m = acc * b ^ e % m
  | 0, b, e, acc, m, h => by
    have : e = 0 := by omega
    simp [modPowAux, this]
  | f + 1, b, e, acc, m, h => by
    unfold modPowAux
    by_cases he : e = 0
    · simp [he]
    · rw [if_neg he]
      have hle : e / 2 ≤ f := by omega
      rw [modPowAux_spec f (b * b % m) (e / 2) _ m hle]
      have hsplit : b ^ e = (b * b) ^ (e / 2) * b ^ (e % 2) := by
        have : e = 2 * (e / 2) + e % 2 := by omega
        conv => lhs; rw [this]
        rw [Nat.pow_add, Nat.pow_mul, Nat.pow_two]
      rw [hsplit]
      by_cases hodd : e % 2 = 1
      · rw [if_pos hodd, hodd, Nat.pow_one]
        rw [Nat.mul_mod, Nat.pow_mod (b * b % m), Nat.mod_mod, Nat.mod_mod, ← Nat.pow_mod, ← Nat.mul_mod]
        congr 1
        rw [Nat.mul_assoc, Nat.mul_comm b, ← Nat.mul_assoc]
      · have h0 : e % 2 = 0 := by omega
        rw [if_neg hodd, h0, Nat.pow_zero, Nat.mul_one]
        rw [Nat.mul_mod, Nat.pow_mod (b * b % m), Nat.mod_mod, ← Nat.pow_mod, ← Nat.mul_mod]

/-- `modPow` is modular exponentiation. -/
theorem modPow_eq (b e m : Nat) : modPow b e m = b ^ e % m := by
  unfold modPow
  rw [modPowAux_spec e (b % m) e 1 m (Nat.le_refl _), Nat.one_mul, ← Nat.pow_mod]

/-! ### I2OSP / OS2IP -/

theorem os2ip_append_one (l : Bytes) (b : UInt8) : os2ip (l ++ [b]) = os2ip l * 256 + b.toNat := by
  simp [os2ip, List.foldl_append]

theorem i2osp_length : ∀ (len x : Nat), (i2osp len x).length = len
  | 0, _ => rfl
  | len + 1, x => by simp [i2osp, i2osp_length len]

theorem os2ip_i2osp : ∀ (len x : Nat), os2ip (i2osp len x) = x % 256 ^ len
  | 0, x => by simp [i2osp, os2ip, Nat.mod_one]
  | len + 1, x => by
    rw [i2osp, os2ip_append_one, os2ip_i2osp len]
    have hb : (UInt8.ofNat (x % 256)).toNat = x % 256 := by
      simp
    rw [hb, Nat.pow_succ, Nat.mul_comm (256 ^ len) 256, Nat.mod_mul]
    omega

theorem i2osp_os2ip_rev : ∀ (xs : Bytes), i2osp xs.length (os2ip xs.reverse) = xs.reverse
  | [] => rfl
  | x :: xs => by
    have ih := i2osp_os2ip_rev xs
    rw [List.reverse_cons, os2ip_append_one, List.length_cons, i2osp]
    have h1 : (os2ip xs.reverse * 256 + x.toNat) / 256 = os2ip xs.reverse := by
      have := x.toNat_lt
      omega
    have h2 : UInt8.ofNat ((os2ip xs.reverse * 256 + x.toNat) % 256) = x := by
      have := x.toNat_lt
      have : (os2ip xs.reverse * 256 + x.toNat) % 256 = x.toNat := by omega
      rw [this]; simp
    rw [h1, h2, ih]

/-- I2OSP inverts OS2IP at the string's own length. -/
theorem i2osp_os2ip (l : Bytes) : i2osp l.length (os2ip l) = l := by
  have := i2osp_os2ip_rev l.reverse
  simpa using this

theorem os2ip_lt (l : Bytes) : os2ip l < 256 ^ l.length := by
  have h := os2ip_i2osp l.length (os2ip l)
  rw [i2osp_os2ip] at h
  have hpos : 0 < 256 ^ l.length := Nat.pow_pos (by decide)
  rw [h]; exact Nat.mod_lt _ hpos

theorem os2ip_cons_zero (l : Bytes) : os2ip (0 :: l) = os2ip l := by
  simp [os2ip]

/-! ### the RSA key equation -/

/-- An RSA key pair as far as the proofs need it: `(m^d)^e ≡ m (mod n)` on residues, and the
octet length `k` of the modulus (`256^(k-1) ≤ n < 256^k`). -/
structure RsaKey where
  n : Nat
  e : Nat
  d : Nat
  k : Nat
  hk : octLen n = k
  hlo : 256 ^ (k - 1) ≤ n
  hhi : n < 256 ^ k
  inv : ∀ m, m < n → (m ^ d) ^ e % n = m

theorem RsaKey.npos (key : RsaKey) : 0 < key.n :=
  Nat.lt_of_lt_of_le (Nat.pow_pos (by decide)) key.hlo

/-- RSAVP1 ∘ RSASP1 = id on message representatives. -/
theorem rsa_vp1_sp1 (key : RsaKey) (m : Nat) (hm : m < key.n) :
    modPow (modPow m key.d key.n) key.e key.n = m := by
  rw [modPow_eq, modPow_eq, ← Nat.pow_mod]
  exact key.inv m hm

end Kit.Crypto

namespace Kit.CryptoGlue
open Kit Kit.Crypto

/-- Textbook RSA on the digest reduced mod `n`: `σ = I2OSP(m^d mod n)`, accepted iff
`σ^e mod n = m`.  Public key = (n, e, k). -/
def rsaTextbook : SigScheme RsaKey (Nat × Nat × Nat) where
  pub key := (key.n, key.e, key.k)
  sign key digest _ := .ok (i2osp key.k (modPow (os2ip digest % key.n) key.d key.n))
  verify pk digest sig :=
    if sig.length = pk.2.2 ∧ modPow (os2ip sig) pk.2.1 pk.1 = os2ip digest % pk.1 then .valid else .invalid

/-- RSASSA-PKCS1-v1_5 (RFC 8017 §8.2) over a digest, as `Kit.Crypto.Rsa` implements it. -/
def rsaPkcs1v15 (h : RsaHash) : SigScheme RsaKey (Nat × Nat) where
  pub key := (key.n, key.e)
  sign key digest _ :=
    match rsaSignPkcs1v15 key.n key.d h digest with
    | some s => .ok s
    | none => .err "rsa: digest size / message too long for RSA key size"
  verify pk digest sig := if rsaVerifyPkcs1v15 pk.1 pk.2 h digest sig then .valid else .invalid

/-- A toy key (n = 11·17, e = 7, d = 23) for which the key equation is checked exhaustively. -/
def toyRsaKey : RsaKey where
  n := 187
  e := 7
  d := 23
  k := 1
  hk := by decide
  hlo := by decide
  hhi := by decide
  inv := by decide +kernel

theorem emsaPkcs1v15_shape (h : RsaHash) (digest : Bytes) (k : Nat) (em : Bytes)
    (he : emsaPkcs1v15 h digest k = some em) :
    em.length = k ∧ ∃ rest, em = 0 :: rest := by
  unfold emsaPkcs1v15 at he
  simp only at he
  split at he
  · cases he
  · rename_i hk
    injection he with he
    subst he
    refine ⟨?_, _, rfl⟩
    simp only [List.length_append] at hk
    simp only [List.length_append, List.length_cons, List.length_nil, List.length_replicate]
    omega

end Kit.CryptoGlue

