/-
The concrete crypto the driver runs (`Kit.Enc.Real.realCrypto`: AES-GCM / ChaCha20-Poly1305 / HKDF /
HMAC written in Lean, `KitModel/Crypto`) satisfies the laws the enc/v1 theorems assume, for every file
key and nonce prefix: HKDF-SHA-256 always yields the 32-byte key both AEADs need and the nonce layout
`np ‖ be32(i) ‖ last` always yields 12 bytes (7 + 4 + 1).
-/
import KitModel.Enc
import KitModel.EncReal
import KitProofs.Lemmas.CryptoLaws

namespace Kit.Enc.Real
open Kit Kit.Enc Kit.Crypto

theorem sha256_length (msg : Bytes) : (Kit.Crypto.hash .sha256 msg).length = 32 := by
  simp [Kit.Crypto.hash, sha256, Sha256.digest, be32Bytes]

theorem hmac_sha256_length (k msg : Bytes) : (Kit.Crypto.hmac .sha256 k msg).length = 32 := by
  simp only [Kit.Crypto.hmac]
  exact sha256_length _

theorem hkdfExpandAux_length (prk info : Bytes) : ∀ (n i : Nat) (prev acc : Bytes),
    (hkdfExpandAux .sha256 prk info n i prev acc).length = acc.length + 32 * n := by
  intro n
  induction n with
  | zero => intro i prev acc; simp [hkdfExpandAux]
  | succ n ih =>
    intro i prev acc
    simp only [hkdfExpandAux]
    rw [ih, List.length_append, hmac_sha256_length]
    omega

/-- HKDF-SHA-256 returns exactly the requested number of bytes (up to the RFC's 255·32). -/
theorem hkdf_sha256_length (secret salt info : Bytes) (len : Nat) (h : len ≤ 255 * 32) :
    (Kit.Crypto.hkdf .sha256 secret salt info len).length = len := by
  have hs : HashAlg.size .sha256 = 32 := rfl
  simp only [Kit.Crypto.hkdf, hkdfExpand, hs]
  have : ¬ len > 255 * 32 := by omega
  simp only [this, if_false, List.length_take, hkdfExpandAux_length, List.length_nil]
  omega

/-- The nonce of the generated layout is always 12 bytes. -/
theorem nonceFor_generated_length (np : Bytes) (i : Nat) (last : Bool) :
    (nonceFor EncParams.generated np i last).length = 12 := by
  have hl : EncParams.generated.nonceLayout = [.noncePrefix 7, .counterBE32, .lastFlag 1 0] := rfl
  simp only [nonceFor, hl, List.flatMap_cons, List.flatMap_nil, noncePart, List.append_nil, List.length_append,
    fitTo, be32, List.length_take, List.length_replicate, List.length_cons, List.length_nil]
  omega

theorem gcmArgsOk_32_12 (k n : Bytes) (hk : k.length = 32) (hn : n.length = 12) : gcmArgsOk k n = true := by
  simp [gcmArgsOk, validAesKeyLen, hk, hn]

theorem payloadKey_length (fk np : Bytes) : (payloadKey realCrypto EncParams.generated fk np).length = 32 := by
  have h : EncParams.generated.payKeyLen = 32 := rfl
  simp only [payloadKey, realCrypto, h]
  exact hkdf_sha256_length _ _ _ 32 (by decide)

/-- **The concrete Lean AES-GCM and ChaCha20-Poly1305 are lawful on every run of the scheme**: for
    every file key and nonce prefix, under the derived payload key and every segment nonce,
    `open (seal p) = some p` and `|seal p| = |p| + 16` (both ciphers), and the MAC is non-empty. -/
theorem realCrypto_lawful (fk np : Bytes) :
    realCrypto.LawfulFor EncParams.generated (payloadKey realCrypto EncParams.generated fk np) np where
  open_seal := by
    intro cph i l p
    have hk := payloadKey_length fk np
    have hn := nonceFor_generated_length np i l
    by_cases h2 : (cph == 2) = true
    · simp only [realCrypto, h2, if_true]
      exact chacha20Poly1305Open_Seal _ _ p [] hk hn
    · simp only [realCrypto, h2, Bool.false_eq_true, if_false]
      exact gcmOpen_gcmSeal _ _ p [] (gcmArgsOk_32_12 _ _ hk hn)
  seal_length := by
    intro cph i l p
    have hk := payloadKey_length fk np
    have hn := nonceFor_generated_length np i l
    have ho : EncParams.generated.overhead = 16 := rfl
    rw [ho]
    by_cases h2 : (cph == 2) = true
    · simp only [realCrypto, h2, if_true]
      exact chacha20Poly1305Seal_length _ _ p [] hk hn
    · simp only [realCrypto, h2, Bool.false_eq_true, if_false]
      exact gcmSeal_length _ _ p [] (gcmArgsOk_32_12 _ _ hk hn)
  hmac_ne := by
    intro k msg h
    have := hmac_sha256_length k msg
    simp only [realCrypto] at h
    rw [h] at this
    cases this

end Kit.Enc.Real
