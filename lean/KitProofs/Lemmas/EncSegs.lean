/-
Shape of the pure split `segments`, and what `runSegs` does when the process function accepts
every segment.
-/
import KitModel.Enc
import KitProofs.Lemmas.EncLoop

namespace Kit.Enc
open Kit

/-- Every segment but the last is full and flagged `false`; the last is non-empty, at most full,
    and flagged `true`. -/
def Shape (S : Nat) : List (Bytes × Bool) → Prop
  | [] => True
  | [(d, l)] => l = true ∧ 0 < d.length ∧ d.length ≤ S
  | (d, l) :: x :: xs => l = false ∧ d.length = S ∧ Shape S (x :: xs)

theorem segmentsAux_shape (S : Nat) (hS : 0 < S) : ∀ (f : Nat) (p : Bytes), p.length ≤ f →
    Shape S (segmentsAux S f p) := by
  intro f
  induction f with
  | zero => intro p _; simp [segmentsAux, Shape]
  | succ f ih =>
    intro p hp
    rw [segmentsAux_succ]
    by_cases he : p.isEmpty = true
    · simp [he, Shape]
    · have hne : p ≠ [] := by simpa using he
      have hpos : 0 < p.length := List.length_pos_iff.mpr hne
      simp only [he, Bool.false_eq_true, if_false]
      by_cases hle : p.length ≤ S
      · simp only [hle, if_true]; exact ⟨rfl, hpos, hle⟩
      · simp only [hle, if_false]
        have hdl : (p.drop S).length ≤ f := by simp only [List.length_drop]; omega
        have hrec := ih (p.drop S) hdl
        -- the rest is non-empty
        have hdne : p.drop S ≠ [] := by
          intro h; have := congrArg List.length h; simp only [List.length_drop, List.length_nil] at this; omega
        have hfpos : 0 < f := by
          have : 0 < (p.drop S).length := List.length_pos_iff.mpr hdne
          omega
        obtain ⟨f', rfl⟩ : ∃ f', f = f' + 1 := ⟨f - 1, by omega⟩
        rw [segmentsAux_succ] at hrec ⊢
        have he' : (p.drop S).isEmpty = false := by simpa using hdne
        simp only [he', Bool.false_eq_true, if_false] at hrec ⊢
        by_cases hle2 : (p.drop S).length ≤ S
        · simp only [hle2, if_true] at hrec ⊢
          exact ⟨rfl, by simp only [List.length_take]; omega, hrec⟩
        · simp only [hle2, if_false] at hrec ⊢
          exact ⟨rfl, by simp only [List.length_take]; omega, hrec⟩

theorem segments_shape (S : Nat) (hS : 0 < S) (p : Bytes) : Shape S (segments S p) :=
  segmentsAux_shape S hS p.length p (Nat.le_refl _)

theorem segmentsAux_concat (S : Nat) (hS : 0 < S) : ∀ (f : Nat) (p : Bytes), p.length ≤ f →
    ((segmentsAux S f p).map (·.1)).flatten = p := by
  intro f
  induction f with
  | zero =>
    intro p hp
    have : p = [] := List.eq_nil_of_length_eq_zero (by omega)
    subst this; rfl
  | succ f ih =>
    intro p hp
    rw [segmentsAux_succ]
    by_cases he : p.isEmpty = true
    · have : p = [] := by simpa using he
      subst this; rfl
    · simp only [he, Bool.false_eq_true, if_false]
      by_cases hle : p.length ≤ S
      · simp [hle]
      · simp only [hle, if_false, List.map_cons, List.flatten_cons]
        rw [ih (p.drop S) (by simp only [List.length_drop]; omega), List.take_append_drop]

theorem segments_concat (S : Nat) (hS : 0 < S) (p : Bytes) : ((segments S p).map (·.1)).flatten = p :=
  segmentsAux_concat S hS p.length p (Nat.le_refl _)

theorem segmentsAux_length (S : Nat) (hS : 0 < S) : ∀ (f : Nat) (p : Bytes), p.length ≤ f →
    (segmentsAux S f p).length = (p.length + S - 1) / S := by
  intro f
  induction f with
  | zero =>
    intro p hp
    have : p = [] := List.eq_nil_of_length_eq_zero (by omega)
    subst this
    simp only [segmentsAux, List.length_nil, Nat.zero_add]
    exact (Nat.div_eq_of_lt (by omega)).symm
  | succ f ih =>
    intro p hp
    rw [segmentsAux_succ]
    by_cases he : p.isEmpty = true
    · have : p = [] := by simpa using he
      subst this
      simp only [List.isEmpty_nil, if_true, List.length_nil, Nat.zero_add]
      exact (Nat.div_eq_of_lt (by omega)).symm
    · have hne : p ≠ [] := by simpa using he
      have hpos : 0 < p.length := List.length_pos_iff.mpr hne
      simp only [he, Bool.false_eq_true, if_false]
      by_cases hle : p.length ≤ S
      · simp only [hle, if_true, List.length_singleton]
        have h1 : p.length + S - 1 = S + (p.length - 1) := by omega
        rw [h1, Nat.add_div_left _ hS, Nat.div_eq_of_lt (by omega)]
      · simp only [hle, if_false, List.length_cons]
        rw [ih (p.drop S) (by simp only [List.length_drop]; omega)]
        simp only [List.length_drop]
        have h1 : p.length + S - 1 = S + (p.length - S + S - 1) := by omega
        rw [h1, Nat.add_div_left _ hS]

/-- `⌈|p| / S⌉` segments. -/
theorem segments_length (S : Nat) (hS : 0 < S) (p : Bytes) : (segments S p).length = (p.length + S - 1) / S :=
  segmentsAux_length S hS p.length p (Nat.le_refl _)

theorem numbered_length (i : Nat) (l : List (Bytes × Bool)) : (numbered i l).length = l.length := by
  induction l generalizing i with
  | nil => rfl
  | cons a t ih => obtain ⟨d, b⟩ := a; simp [numbered, ih]

/-- When `fn` accepts every well-shaped segment and the counter guard is not hit, `runSegs` calls it
    on every segment in order and ends cleanly; `g` describes the outputs. -/
theorem runSegs_all_ok (S maxSeg : Nat) (hS : 0 < S) (fn : ProcFn) (g : Bytes → Nat → Bool → Bytes)
    (hfn : ∀ d i l, 0 < d.length → d.length ≤ S → fn d i l = .ok (g d i l)) :
    ∀ (segs : List (Bytes × Bool)) (i : Nat), Shape S segs → i + segs.length ≤ maxSeg + 1 →
      runSegs maxSeg fn segs i .ok =
        ⟨numbered i segs, ((numbered i segs).map fun x => g x.1 x.2.1 x.2.2).flatten, .ok⟩ := by
  intro segs
  induction segs with
  | nil => intro i _ _; rfl
  | cons a t ih =>
    intro i hsh hcount
    obtain ⟨d, l⟩ := a
    cases t with
    | nil =>
      obtain ⟨hl, hpos, hle⟩ := hsh
      subst hl
      rw [runSegs_single_last, hfn d i true hpos hle]
      simp [numbered]
    | cons x xs =>
      obtain ⟨hl, hlen, hrest⟩ := hsh
      subst hl
      rw [runSegs_cons_nonlast, hfn d i false (by omega) (by omega)]
      have hne : ¬ i = maxSeg := by simp only [List.length_cons] at hcount; omega
      simp only [hne, if_false]
      rw [ih (i + 1) hrest (by simp only [List.length_cons] at hcount ⊢; omega)]
      simp [numbered, PSResult.cons]

end Kit.Enc
