import KitModel.Pool
/-!
Helper lemmas for C20: the inductive invariant of the `Kit.Pool` transition system and the
internal-progress paths.
-/
namespace Kit.Pool

/-- Inductive invariant of the pool LTS. -/
structure Inv (cfg : Config) (s : State) : Prop where
  done_iff : s.done = true ↔ s.pc = .finished
  closed_pool : s.closed = true → s.pool = []
  pool_eq : s.closed = false → s.pool = initLive cfg ++ s.accepted
  init_mem : ∀ c ∈ cfg.ctxs, c ∈ s.members
  tracked : s.closed = false → ∀ m ∈ s.members, m ∉ s.ended → m ∈ s.pool
  head : s.closed = false → ∀ i, s.pc = .head i →
    i ≤ s.pool.length ∧ ∀ c ∈ s.pool.take i, c ∈ s.ended
  waiting : s.closed = false → ∀ i c, s.pc = .waiting i c →
    s.pool[i]? = some c ∧ ∀ c ∈ s.pool.take i, c ∈ s.ended
  woken : s.closed = false → ∀ i, s.pc = .woken i →
    i < s.pool.length ∧ ∀ c ∈ s.pool.take (i + 1), c ∈ s.ended
  exited : s.closed = false → (s.pc = .exiting ∨ s.pc = .released ∨ s.pc = .finished) →
    ∀ m ∈ s.members, m ∈ s.ended

theorem inv_init (cfg : Config) : Inv cfg (init cfg) := by
  refine ⟨?_, ?_, ?_, ?_, ?_, ?_, ?_, ?_, ?_⟩ <;> simp [init, initLive]
  · intro m hm hne
    exact ⟨hm, hne⟩

theorem hasLiveMember_false_of_all_ended {s : State} (h : ∀ m ∈ s.members, m ∈ s.ended) :
    s.hasLiveMember = false := by
  simp [State.hasLiveMember]
  exact h

theorem take_succ_of_getElem? {l : List Nat} {i c : Nat} (h : l[i]? = some c) :
    l.take (i + 1) = l.take i ++ [c] := by
  rw [List.take_add_one, h]; rfl

theorem lt_length_of_getElem? {l : List Nat} {i c : Nat} (h : l[i]? = some c) : i < l.length := by
  have := List.getElem?_eq_some_iff.mp h
  exact this.1

/-! ### preservation, label by label -/

theorem inv_lockReq {cfg s s'} (op : WOp) (hI : Inv cfg s) (h : step .fixed s (.lockReq op) = some s') :
    Inv cfg s' := by
  simp only [step] at h
  split at h
  · cases h
    exact ⟨hI.done_iff, hI.closed_pool, hI.pool_eq, hI.init_mem, hI.tracked, hI.head, hI.waiting,
      hI.woken, hI.exited⟩
  · cases h

theorem inv_size {cfg s s'} (n : Nat) (hI : Inv cfg s) (h : step .fixed s (.size n) = some s') :
    Inv cfg s' := by
  simp only [step] at h
  split at h
  · cases h; exact hI
  · cases h

theorem inv_poll {cfg s s'} (d : Bool) (hI : Inv cfg s) (h : step .fixed s (.poll d) = some s') :
    Inv cfg s' := by
  simp only [step] at h
  split at h
  · cases h; exact hI
  · cases h

theorem inv_endCtx {cfg s s'} (c : Nat) (hI : Inv cfg s) (h : step .fixed s (.endCtx c) = some s') :
    Inv cfg s' := by
  simp only [step] at h
  cases h
  refine ⟨hI.done_iff, hI.closed_pool, hI.pool_eq, hI.init_mem, ?_, ?_, ?_, ?_, ?_⟩
  · intro hc m hm hne
    exact hI.tracked hc m hm (fun hin => hne (List.mem_cons_of_mem _ hin))
  · intro hc i hpc
    obtain ⟨h1, h2⟩ := hI.head hc i hpc
    exact ⟨h1, fun x hx => List.mem_cons_of_mem _ (h2 x hx)⟩
  · intro hc i x hpc
    obtain ⟨h1, h2⟩ := hI.waiting hc i x hpc
    exact ⟨h1, fun x hx => List.mem_cons_of_mem _ (h2 x hx)⟩
  · intro hc i hpc
    obtain ⟨h1, h2⟩ := hI.woken hc i hpc
    exact ⟨h1, fun x hx => List.mem_cons_of_mem _ (h2 x hx)⟩
  · intro hc hpc m hm
    exact List.mem_cons_of_mem _ (hI.exited hc hpc m hm)

theorem inv_wHead {cfg s s'} (hI : Inv cfg s) (h : step .fixed s .wHead = some s') : Inv cfg s' := by
  simp only [step] at h
  split at h
  · rename_i i hpc
    split at h
    · rename_i c hget
      cases h
      refine ⟨?_, hI.closed_pool, hI.pool_eq, hI.init_mem, hI.tracked, ?_, ?_, ?_, ?_⟩
      · simp [hI.done_iff, hpc]
      · intro _ j hj; simp at hj
      · intro hc j x hj
        simp at hj
        obtain ⟨rfl, rfl⟩ := hj
        exact ⟨hget, (hI.head hc _ hpc).2⟩
      · intro _ j hj; simp at hj
      · intro _ hj; simp at hj
    · rename_i hget
      cases h
      refine ⟨?_, hI.closed_pool, hI.pool_eq, hI.init_mem, hI.tracked, ?_, ?_, ?_, ?_⟩
      · simp [hI.done_iff, hpc]
      · intro _ j hj; simp at hj
      · intro _ j x hj; simp at hj
      · intro _ j hj; simp at hj
      · intro hc _ m hm
        obtain ⟨_, h2⟩ := hI.head hc _ hpc
        have hlen : s.pool.length ≤ i := by
          simpa using hget
        by_cases hin : m ∈ s.ended
        · exact hin
        · have hp := hI.tracked hc m hm hin
          rw [List.take_of_length_le hlen] at h2
          exact h2 m hp
  · cases h

theorem inv_wWake {cfg s s'} (hI : Inv cfg s) (h : step .fixed s .wWake = some s') : Inv cfg s' := by
  simp only [step] at h
  split at h
  · rename_i i c hpc
    split at h
    · rename_i hcond
      cases h
      refine ⟨?_, hI.closed_pool, hI.pool_eq, hI.init_mem, hI.tracked, ?_, ?_, ?_, ?_⟩
      · simp [hI.done_iff, hpc]
      · intro _ j hj; simp at hj
      · intro _ j x hj; simp at hj
      · intro hc j hj
        simp at hj
        subst hj
        obtain ⟨h1, h2⟩ := hI.waiting hc _ _ hpc
        have hce : c ∈ s.ended := by
          simp at hcond
          rcases hcond with h | h
          · exact h
          · rw [hc] at h; cases h
        refine ⟨lt_length_of_getElem? h1, ?_⟩
        rw [take_succ_of_getElem? h1]
        intro x hx
        rcases List.mem_append.mp hx with hx | hx
        · exact h2 x hx
        · simp at hx; subst hx; exact hce
      · intro _ hj; simp at hj
    · cases h
  · cases h

theorem inv_wRelock {cfg s s'} (hI : Inv cfg s) (h : step .fixed s .wRelock = some s') : Inv cfg s' := by
  simp only [step] at h
  split at h
  · rename_i i hpc
    split at h
    · cases h
      refine ⟨?_, hI.closed_pool, hI.pool_eq, hI.init_mem, hI.tracked, ?_, ?_, ?_, ?_⟩
      · simp [hI.done_iff, hpc]
      · intro hc j hj
        simp at hj
        subst hj
        obtain ⟨h1, h2⟩ := hI.woken hc _ hpc
        exact ⟨h1, h2⟩
      · intro _ j x hj; simp at hj
      · intro _ j hj; simp at hj
      · intro _ hj; simp at hj
    · cases h
  · cases h

theorem inv_wUnlock {cfg s s'} (hI : Inv cfg s) (h : step .fixed s .wUnlock = some s') : Inv cfg s' := by
  simp only [step] at h
  split at h
  · rename_i hpc
    cases h
    refine ⟨?_, hI.closed_pool, hI.pool_eq, hI.init_mem, hI.tracked, ?_, ?_, ?_, ?_⟩
    · simp [hI.done_iff, hpc]
    · intro _ j hj; simp at hj
    · intro _ j x hj; simp at hj
    · intro _ j hj; simp at hj
    · intro hc _ m hm
      exact hI.exited hc (Or.inl hpc) m hm
  · cases h

theorem inv_wCancel {cfg s s'} (hI : Inv cfg s) (h : step .fixed s .wCancel = some s') : Inv cfg s' := by
  simp only [step] at h
  split at h
  · rename_i hpc
    cases h
    refine ⟨?_, hI.closed_pool, hI.pool_eq, hI.init_mem, hI.tracked, ?_, ?_, ?_, ?_⟩
    · simp
    · intro _ j hj; simp at hj
    · intro _ j x hj; simp at hj
    · intro _ j hj; simp at hj
    · intro hc _ m hm
      exact hI.exited hc (Or.inr (Or.inl hpc)) m hm
  · cases h

theorem inv_clear_writer {cfg s} (hI : Inv cfg s) : Inv cfg { s with writer := none } :=
  ⟨hI.done_iff, hI.closed_pool, hI.pool_eq, hI.init_mem, hI.tracked, hI.head, hI.waiting,
    hI.woken, hI.exited⟩

theorem inv_applyCancel {cfg s} (hI : Inv cfg s) : Inv cfg (applyOp .fixed s .cancel) := by
  simp only [applyOp]
  split
  · exact hI
  · refine ⟨hI.done_iff, ?_, ?_, hI.init_mem, ?_, ?_, ?_, ?_, ?_⟩ <;> simp

/-- A live member is a live tracked context. -/
theorem anyLive_of_hasLiveMember {cfg s} (hI : Inv cfg s) (hc : s.closed = false)
    (h : s.hasLiveMember = true) : s.anyLive = true := by
  simp only [State.hasLiveMember, List.any_eq_true, decide_eq_true_eq] at h
  obtain ⟨m, hm, hne⟩ := h
  simp only [State.anyLive, List.any_eq_true, decide_eq_true_eq]
  exact ⟨m, hI.tracked hc m hm hne, hne⟩

theorem inv_applyAdd {cfg s} (c : Nat) (hI : Inv cfg s) (hr : s.pc.holdsRead = false) :
    Inv cfg (applyOp .fixed s (.add c)) := by
  simp only [applyOp]
  split
  · -- ignored: pool context done, `closed` closed, or no tracked context is live
    rename_i hig
    -- on a pool that is not cancelled an ignored Add does not create a member
    have hmem : s.closed = false →
        (if (!s.done && s.hasLiveMember) = true then c :: s.members else s.members) = s.members := by
      intro hc
      split
      · rename_i hcond
        simp only [Bool.and_eq_true, Bool.not_eq_true'] at hcond
        have hal := anyLive_of_hasLiveMember hI hc hcond.2
        simp [State.addIgnored, hcond.1, hc, hal] at hig
      · rfl
    refine ⟨hI.done_iff, hI.closed_pool, hI.pool_eq, ?_, ?_, hI.head, hI.waiting, hI.woken, ?_⟩
    · intro x hx
      show x ∈ (if _ then _ else _)
      split
      · exact List.mem_cons_of_mem _ (hI.init_mem x hx)
      · exact hI.init_mem x hx
    · intro hc m hm hne
      have hc' : s.closed = false := hc
      have hm' : m ∈ (if (!s.done && s.hasLiveMember) = true then c :: s.members else s.members) := hm
      rw [hmem hc'] at hm'
      exact hI.tracked hc' m hm' hne
    · intro hc hpc m hm
      have hc' : s.closed = false := hc
      have hm' : m ∈ (if (!s.done && s.hasLiveMember) = true then c :: s.members else s.members) := hm
      rw [hmem hc'] at hm'
      exact hI.exited hc' hpc m hm'
  · -- appended
    rename_i hig
    have hnd : s.done = false := by
      cases hd : s.done with
      | false => rfl
      | true => simp [State.addIgnored, hd] at hig
    have hnc : s.closed = false := by
      cases hd : s.closed with
      | false => rfl
      | true => simp [State.addIgnored, hd] at hig
    refine ⟨hI.done_iff, ?_, ?_, ?_, ?_, ?_, ?_, ?_, ?_⟩
    · intro hc; simp [hnc] at hc
    · intro _
      show s.pool ++ [c] = initLive cfg ++ (s.accepted ++ [c])
      rw [hI.pool_eq hnc, List.append_assoc]
    · intro x hx
      show x ∈ (if _ then _ else _)
      split
      · exact List.mem_cons_of_mem _ (hI.init_mem x hx)
      · exact hI.init_mem x hx
    · intro _ m hm hne
      show m ∈ s.pool ++ [c]
      have hm' : m ∈ (if (!s.done && s.hasLiveMember) = true then c :: s.members else s.members) := hm
      split at hm'
      · rcases List.mem_cons.mp hm' with rfl | hm'
        · simp
        · exact List.mem_append_left _ (hI.tracked hnc m hm' hne)
      · exact List.mem_append_left _ (hI.tracked hnc m hm' hne)
    · intro _ i hpc
      have hpc' : s.pc = .head i := hpc
      simp [hpc', PC.holdsRead] at hr
    · intro _ i x hpc
      have hpc' : s.pc = .waiting i x := hpc
      obtain ⟨h1, h2⟩ := hI.waiting hnc i x hpc'
      have hlt := lt_length_of_getElem? h1
      show (s.pool ++ [c])[i]? = some x ∧ ∀ y ∈ (s.pool ++ [c]).take i, y ∈ s.ended
      refine ⟨?_, ?_⟩
      · rw [List.getElem?_append_left hlt]; exact h1
      · rw [List.take_append_of_le_length (Nat.le_of_lt hlt)]; exact h2
    · intro _ i hpc
      have hpc' : s.pc = .woken i := hpc
      obtain ⟨h1, h2⟩ := hI.woken hnc i hpc'
      show i < (s.pool ++ [c]).length ∧ ∀ y ∈ (s.pool ++ [c]).take (i + 1), y ∈ s.ended
      refine ⟨?_, ?_⟩
      · simp; omega
      · rw [List.take_append_of_le_length (by omega)]; exact h2
    · intro _ hpc m hm
      have hpc' : s.pc = .exiting ∨ s.pc = .released ∨ s.pc = .finished := hpc
      have hall := hI.exited hnc hpc'
      have hm' : m ∈ (if (!s.done && s.hasLiveMember) = true then c :: s.members else s.members) := hm
      have hlive : s.hasLiveMember = false := hasLiveMember_false_of_all_ended hall
      simp [hlive] at hm'
      exact hall m hm'

theorem inv_complete {cfg s s'} (hI : Inv cfg s) (h : step .fixed s .complete = some s') : Inv cfg s' := by
  simp only [step] at h
  split at h
  · cases h
  · rename_i op hw
    split at h
    · cases h
    · rename_i hr
      simp at hr
      cases h
      cases op with
      | add c => exact inv_applyAdd c (inv_clear_writer hI) hr
      | cancel => exact inv_applyCancel (inv_clear_writer hI)

theorem inv_step {cfg s s'} {a : Label} (hI : Inv cfg s) (h : step .fixed s a = some s') : Inv cfg s' := by
  cases a with
  | lockReq op => exact inv_lockReq op hI h
  | complete => exact inv_complete hI h
  | size n => exact inv_size n hI h
  | endCtx c => exact inv_endCtx c hI h
  | poll d => exact inv_poll d hI h
  | wHead => exact inv_wHead hI h
  | wWake => exact inv_wWake hI h
  | wRelock => exact inv_wRelock hI h
  | wUnlock => exact inv_wUnlock hI h
  | wCancel => exact inv_wCancel hI h

theorem inv_of_reach {cfg s} (h : Reach .fixed cfg s) : Inv cfg s := by
  induction h with
  | init => exact inv_init cfg
  | step _ hs ih => exact inv_step ih hs

/-! ### every tracked context is a member (repaired code) -/

/-- Steps other than `complete` leave `pool`, `members`, `closed`, `accepted` alone. -/
theorem step_frame {v : Version} {s s' : State} {a : Label} (h : step v s a = some s')
    (ha : a ≠ .complete) :
    s'.members = s.members ∧ s'.pool = s.pool ∧ s'.closed = s.closed ∧ s'.accepted = s.accepted := by
  cases a <;> simp only [step] at h
  case lockReq op => split at h <;> cases h; simp
  case complete => exact absurd rfl ha
  case size n => split at h <;> cases h; simp
  case endCtx c => cases h; simp
  case poll d => split at h <;> cases h; simp
  case wHead =>
    split at h
    · split at h <;> cases h <;> simp
    · cases h
  case wWake =>
    split at h
    · split at h <;> cases h; simp
    · cases h
  case wRelock =>
    split at h
    · split at h <;> cases h; simp
    · cases h
  case wUnlock => split at h <;> cases h; simp
  case wCancel => split at h <;> cases h; simp

/-- `p.pool ⊆ members`: the repaired `Add` appends only while a tracked context — a member — is live. -/
def PM (s : State) : Prop := ∀ c ∈ s.pool, c ∈ s.members

theorem pm_applyOp {s : State} (op : WOp) (h : PM s) : PM (applyOp .fixed s op) := by
  cases op with
  | cancel =>
    simp only [applyOp]
    split
    · exact h
    · intro c hc; simp at hc
  | add c =>
    simp only [applyOp]
    split
    · intro x hx
      show x ∈ (if _ then _ else _)
      split
      · exact List.mem_cons_of_mem _ (h x hx)
      · exact h x hx
    · rename_i hig
      have hnd : s.done = false := by
        cases hd : s.done with
        | false => rfl
        | true => simp [State.addIgnored, hd] at hig
      have hal : s.anyLive = true := by
        cases ha : s.anyLive with
        | true => rfl
        | false => simp [State.addIgnored, ha] at hig
      have hlm : s.hasLiveMember = true := by
        simp only [State.anyLive, List.any_eq_true, decide_eq_true_eq] at hal
        obtain ⟨e, he, hne⟩ := hal
        simp only [State.hasLiveMember, List.any_eq_true, decide_eq_true_eq]
        exact ⟨e, h e he, hne⟩
      intro x hx
      have hx' : x ∈ s.pool ++ [c] := hx
      show x ∈ (if (!s.done && s.hasLiveMember) = true then c :: s.members else s.members)
      simp only [hnd, hlm, Bool.not_false, Bool.and_self, if_true]
      rcases List.mem_append.mp hx' with hx' | hx'
      · exact List.mem_cons_of_mem _ (h x hx')
      · simp at hx'; subst hx'; exact List.mem_cons_self

theorem pm_step {s s' : State} {a : Label} (hP : PM s) (h : step .fixed s a = some s') : PM s' := by
  by_cases ha : a = .complete
  · subst ha
    simp only [step] at h
    split at h
    · cases h
    · rename_i op _
      split at h
      · cases h
      · cases h
        exact pm_applyOp op (s := { s with writer := none }) hP
  · obtain ⟨h1, h2, _, _⟩ := step_frame h ha
    intro c hc
    rw [h1]; rw [h2] at hc; exact hP c hc

theorem pm_of_reach {cfg s} (h : Reach .fixed cfg s) : PM s := by
  induction h with
  | init =>
    intro c hc
    simp [init, initLive] at hc
    exact hc.1
  | step _ hs ih => exact pm_step ih hs

/-! ### internal progress -/

theorem path_single {s s' : State} {a : Label} (hi : a.isInternal = true)
    (hs : step .fixed s a = some s') : InternalPath .fixed s s' :=
  .step hi hs (.refl s')

theorem path_trans {a b c : State} (h1 : InternalPath .fixed a b) (h2 : InternalPath .fixed b c) :
    InternalPath .fixed a c := by
  induction h1 with
  | refl => exact h2
  | step hi hs _ ih => exact .step hi hs (ih h2)

theorem reach_of_path {cfg s s'} (hr : Reach .fixed cfg s) (hp : InternalPath .fixed s s') : Reach .fixed cfg s' := by
  induction hp with
  | refl => exact hr
  | step _ hs _ ih => exact ih (.step hr hs)

/-- No writer is inside `Lock()`, and every tracked context has ended or `Cancel` has run. -/
def Ready (s : State) : Prop :=
  s.writer = none ∧ (s.closed = true ∨ ∀ c ∈ s.pool, c ∈ s.ended)

theorem path_from_released {s : State} (hpc : s.pc = .released) :
    ∃ s', InternalPath .fixed s s' ∧ s'.done = true :=
  ⟨{ s with pc := .finished, done := true },
    path_single (a := .wCancel) rfl (by simp [step, hpc]), rfl⟩

theorem path_from_exiting {s : State} (hpc : s.pc = .exiting) :
    ∃ s', InternalPath .fixed s s' ∧ s'.done = true := by
  obtain ⟨s', hp, hd⟩ := path_from_released (s := { s with pc := .released }) rfl
  exact ⟨s', .step (a := .wUnlock) rfl (by simp [step, hpc]) hp, hd⟩

theorem path_from_head_end {s : State} {i : Nat} (hpc : s.pc = .head i) (hget : s.pool[i]? = none) :
    ∃ s', InternalPath .fixed s s' ∧ s'.done = true := by
  obtain ⟨s', hp, hd⟩ := path_from_exiting (s := { s with pc := .exiting }) rfl
  exact ⟨s', .step (a := .wHead) rfl (by simp [step, hpc, hget]) hp, hd⟩

theorem path_from_head : ∀ (n : Nat) (s : State) (i : Nat), s.pc = .head i →
    s.pool.length - i = n → Ready s → ∃ s', InternalPath .fixed s s' ∧ s'.done = true := by
  intro n
  induction n with
  | zero =>
    intro s i hpc hn _
    apply path_from_head_end hpc
    simp; omega
  | succ n ih =>
    intro s i hpc hn hR
    cases hget : s.pool[i]? with
    | none => exact path_from_head_end hpc hget
    | some c =>
      have hwake : (decide (c ∈ s.ended) || s.closed) = true := by
        rcases hR.2 with hc | hall
        · simp [hc]
        · simp [hall c (List.mem_of_getElem? hget)]
      have h1 : step .fixed s .wHead = some { s with pc := .waiting i c } := by simp [step, hpc, hget]
      have h2 : step .fixed { s with pc := .waiting i c } .wWake = some { s with pc := .woken i } := by
        simp only [step]; rw [if_pos hwake]
      have h3 : step .fixed { s with pc := .woken i } .wRelock = some { s with pc := .head (i + 1) } := by
        simp [step, hR.1]
      obtain ⟨s', hp, hd⟩ := ih { s with pc := .head (i + 1) } (i + 1) rfl
        (by show s.pool.length - (i + 1) = n; omega) hR
      exact ⟨s', .step (a := .wHead) rfl h1 (.step (a := .wWake) rfl h2 (.step (a := .wRelock) rfl h3 hp)), hd⟩

theorem path_from_woken {s : State} {i : Nat} (hpc : s.pc = .woken i) (hR : Ready s) :
    ∃ s', InternalPath .fixed s s' ∧ s'.done = true := by
  have h3 : step .fixed s .wRelock = some { s with pc := .head (i + 1) } := by simp [step, hpc, hR.1]
  obtain ⟨s', hp, hd⟩ := path_from_head _ { s with pc := .head (i + 1) } (i + 1) rfl rfl hR
  exact ⟨s', .step (a := .wRelock) rfl h3 hp, hd⟩

theorem path_of_ready {cfg s} (hI : Inv cfg s) (hR : Ready s) :
    ∃ s', InternalPath .fixed s s' ∧ s'.done = true := by
  cases hpc : s.pc with
  | head i => exact path_from_head _ s i hpc rfl hR
  | waiting i c =>
    have hwake : (decide (c ∈ s.ended) || s.closed) = true := by
      rcases hR.2 with hc | hall
      · simp [hc]
      · cases hcl : s.closed with
        | true => simp
        | false =>
          have := (hI.waiting hcl i c hpc).1
          simp [hall c (List.mem_of_getElem? this)]
    have h2 : step .fixed s .wWake = some { s with pc := .woken i } := by
      simp only [step, hpc]; rw [if_pos hwake]
    obtain ⟨s', hp, hd⟩ := path_from_woken (s := { s with pc := .woken i }) rfl hR
    exact ⟨s', .step (a := .wWake) rfl h2 hp, hd⟩
  | woken i => exact path_from_woken hpc hR
  | exiting => exact path_from_exiting hpc
  | released => exact path_from_released hpc
  | finished => exact ⟨s, .refl s, hI.done_iff.mpr hpc⟩

/-- "`Cancel` was called, or every member has ended". -/
def Settled (s : State) : Prop :=
  s.closed = true ∨ ∀ m ∈ s.members, m ∈ s.ended

/-- In a settled state the writer inside `Lock()` — whatever it is — leaves a Ready state: a
pending `Add` finds no live context in the pool and is ignored. -/
theorem ready_of_complete {s : State} (op : WOp) (hP : PM s) (hS : Settled s) :
    Ready (applyOp .fixed { s with writer := none } op) := by
  have hpool : s.closed = true ∨ ∀ c ∈ s.pool, c ∈ s.ended := by
    rcases hS with hc | hall
    · exact Or.inl hc
    · exact Or.inr (fun c hc => hall c (hP c hc))
  cases op with
  | cancel =>
    simp only [applyOp]
    split
    · rename_i hc; exact ⟨rfl, Or.inl hc⟩
    · exact ⟨rfl, Or.inl rfl⟩
  | add c =>
    have hig : State.addIgnored .fixed { s with writer := none } = true := by
      rcases hpool with hc | hall
      · simp [State.addIgnored, hc]
      · have : State.anyLive { s with writer := none } = false := by
          simp only [State.anyLive, List.any_eq_false, decide_eq_true_eq]
          intro x hx hne
          exact hne (hall x hx)
        simp [State.addIgnored, this]
    simp only [applyOp, hig, if_true]
    exact ⟨rfl, hpool⟩

theorem path_of_settled {cfg s} (hr : Reach .fixed cfg s) (hS : Settled s) :
    ∃ s', InternalPath .fixed s s' ∧ s'.done = true := by
  have hI := inv_of_reach hr
  have hP := pm_of_reach hr
  cases hw : s.writer with
  | none =>
    refine path_of_ready hI ⟨hw, ?_⟩
    rcases hS with hc | hall
    · exact Or.inl hc
    · exact Or.inr (fun c hc => hall c (hP c hc))
  | some op =>
    -- once the watcher does not hold the read lock the writer completes, leaving a Ready state
    have key : ∀ t : State, Reach .fixed cfg t → Settled t → t.writer = some op → t.pc.holdsRead = false →
        ∃ s', InternalPath .fixed t s' ∧ s'.done = true := by
      intro t htr htS htw hth
      have hstep : step .fixed t .complete = some (applyOp .fixed { t with writer := none } op) := by
        simp [step, htw, hth]
      have hR := ready_of_complete op (pm_of_reach htr) htS
      obtain ⟨s', hp, hd⟩ := path_of_ready (inv_of_reach (.step htr hstep)) hR
      exact ⟨s', .step (a := .complete) rfl hstep hp, hd⟩
    cases hpc : s.pc with
    | head i =>
      cases hget : s.pool[i]? with
      | none => exact path_from_head_end hpc hget
      | some c =>
        have h1 : step .fixed s .wHead = some { s with pc := .waiting i c } := by simp [step, hpc, hget]
        obtain ⟨s', hp, hd⟩ := key { s with pc := .waiting i c } (.step hr h1) hS hw rfl
        exact ⟨s', .step (a := .wHead) rfl h1 hp, hd⟩
    | waiting i c => exact key s hr hS hw (by simp [hpc, PC.holdsRead])
    | woken i => exact key s hr hS hw (by simp [hpc, PC.holdsRead])
    | exiting => exact path_from_exiting hpc
    | released => exact path_from_released hpc
    | finished => exact ⟨s, .refl s, hI.done_iff.mpr hpc⟩

/-! ### finite runs (for the non-vacuity examples) -/

def run (v : Version) : State → List Label → Option State
  | s, [] => some s
  | s, a :: as => (step v s a).bind (fun s' => run v s' as)

theorem reach_of_run {v : Version} {cfg} : ∀ (ls : List Label) (s s' : State), Reach v cfg s → run v s ls = some s' →
    Reach v cfg s' := by
  intro ls
  induction ls with
  | nil => intro s s' hr h; simp [run] at h; subst h; exact hr
  | cons a as ih =>
    intro s s' hr h
    simp only [run] at h
    cases hs : step v s a with
    | none => simp [hs] at h
    | some t =>
      simp [hs] at h
      exact ih t s' (.step hr hs) h

/-! ### the driver's state-set simulation only ever holds reachable states -/

theorem watcherStep_is_step {s s' : State} (h : watcherStep s = some s') : ∃ a, step .fixed s a = some s' := by
  obtain ⟨a, _, ha⟩ := List.exists_of_findSome?_eq_some h
  exact ⟨a, ha⟩

theorem reach_of_chain {cfg} : ∀ (n : Nat) (s t : State), Reach .fixed cfg s → t ∈ chain n s → Reach .fixed cfg t := by
  intro n
  induction n with
  | zero => intro s t hr ht; simp [chain] at ht; subst ht; exact hr
  | succ n ih =>
    intro s t hr ht
    simp only [chain] at ht
    split at ht
    · simp at ht; subst ht; exact hr
    · rename_i s' hs
      rcases List.mem_cons.mp ht with rfl | ht
      · exact hr
      · obtain ⟨a, ha⟩ := watcherStep_is_step hs
        exact ih s' t (.step hr ha) ht

def AllReach (cfg : Config) (xs : List State) : Prop := ∀ s ∈ xs, Reach .fixed cfg s

theorem allReach_close {cfg} (frozen : Bool) {xs : List State} (h : AllReach cfg xs) :
    AllReach cfg (Sim.close frozen xs) := by
  intro t ht
  simp only [Sim.close] at ht
  split at ht
  · exact h t (List.mem_eraseDups.mp ht)
  · obtain ⟨s, hs, hts⟩ := List.mem_flatMap.mp (List.mem_eraseDups.mp ht)
    exact reach_of_chain _ s t (h s hs) hts

theorem allReach_filterMap_step {cfg} (a : Label) {xs : List State} (h : AllReach cfg xs) :
    AllReach cfg (xs.filterMap (fun s => step .fixed s a)) := by
  intro t ht
  obtain ⟨s, hs, hst⟩ := List.mem_filterMap.mp ht
  exact .step (h s hs) hst

theorem allReach_writerOp {cfg} (sim : Sim) (op : WOp) (h : AllReach cfg sim.states) :
    AllReach cfg (writerOp sim op).states := by
  simp only [writerOp]
  exact allReach_close _ (allReach_filterMap_step _ (allReach_close _ (allReach_filterMap_step _ h)))

theorem allReach_advance {cfg} (sim : Sim) (ev : Event) (h : AllReach cfg sim.states) :
    AllReach cfg (advance sim ev).states := by
  cases ev with
  | endCtx c => exact allReach_close _ (allReach_filterMap_step _ h)
  | add c => exact allReach_writerOp sim _ h
  | cancel => exact allReach_writerOp sim _ h
  | release => exact allReach_close false h
  | race e c =>
    intro t ht
    simp only [advance] at ht
    rcases List.mem_append.mp (List.mem_eraseDups.mp ht) with ht | ht
    · exact allReach_writerOp _ _ (allReach_close _ (allReach_filterMap_step _ h)) t ht
    · exact allReach_close _ (allReach_filterMap_step _ (allReach_writerOp _ _ h)) t ht
  | obs q p d n a =>
    intro t ht
    simp only [advance] at ht
    exact h t (List.mem_filter.mp ht).1

theorem allReach_start (cfg : Config) : AllReach cfg (Sim.start cfg).states := by
  show AllReach cfg (Sim.close false [init cfg])
  apply allReach_close
  intro s hs
  simp at hs
  subst hs
  exact .init

end Kit.Pool
