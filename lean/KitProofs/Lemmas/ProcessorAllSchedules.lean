import KitProofs.Lemmas.ProcessorProgress
/-!
Every schedule of the loop goroutine serves a due item (property C06, `none_stranded_all_schedules`):
a well-founded measure strictly decreases at every loop step until the item's callback starts, and
some loop step is always enabled until then.
-/
namespace Kit.Processor
open Kit.Queue

set_option linter.unusedSectionVars false

variable {κ ν : Type} [DecidableEq κ] [DecidableEq ν]

/-- Progress of the loop within one iteration (smaller = further). -/
def rank : Pc κ ν → Nat
  | .absent => 0
  | .exiting => 0
  | .popped _ => 11
  | .running _ => 10
  | .top => 9
  | .peeked _ => 8
  | .polled _ => 7
  | .arming _ => 6
  | .armed _ => 5
  | .firing _ => 4

/-- The measure: items still queued, a buffered reset, an undetermined root, position in the body. -/
def measure (s : State κ ν) : Nat :=
  40 * s.q.length + (if s.reset = true then 10 else 0) + (if s.root = none then 10 else 0) + rank s.pc

theorem measure_le (s : State κ ν) : measure s ≤ 40 * s.q.length + 31 := by
  unfold measure
  have : rank s.pc ≤ 11 := by cases s.pc <;> simp [rank]
  split <;> split <;> omega

/-- `x` has not been handed to its callback yet but must be: it is live (or just popped), due, the
processor is open and the pending timer, if any, is due. -/
structure Good (s : State κ ν) (x : Item κ ν) : Prop where
  reach : Reach (M (κ := κ) (ν := ν)) s
  open_ : s.stopped = false
  due : x.time ≤ s.now
  timely : Timely s
  pending : x ∈ s.q ∨ s.pc = .popped x

theorem pop_length_lt {q : List (Item κ ν)} {r : Item κ ν} (h : r ∈ q) : (pop q r).length + 1 ≤ q.length := by
  have : (q.filter (fun y => decide (y ≠ r))).length < q.length := by
    apply List.length_filter_lt_length_iff_exists.mpr
    exact ⟨r, h, by simp⟩
  simp only [pop]
  omega

/-- One loop step from a good state: the callback of `x` starts, or the state stays good, the clock
is unchanged and the measure strictly decreases. -/
theorem loop_step_decreases {s s' : State κ ν} {x : Item κ ν} {l : Label κ ν} (h : Good s x)
    (hl : l.isLoop = true) (hst : step fixedCfg s l = some s') :
    Event.exec x s.now ∈ s'.log ∨ (Good s' x ∧ measure s' < measure s ∧ s'.now = s.now) := by
  have hA := invA h.reach
  have hB := invB h.reach
  have hR := invR h.reach
  have hreach' : Reach (M (κ := κ) (ν := ν)) s' := Reach.step l h.reach hst
  have hopen := h.open_
  have hdue := h.due
  obtain ⟨ht1, ht2⟩ := h.timely
  have hpend := h.pending
  have hsc : s.stopClosed = false := by
    unfold InvA at hA
    cases hs : s.stopClosed <;> grind
  have hnex : s.pc ≠ .exiting := by
    intro e
    have := hA.2.2.2.2 e
    simp [hsc] at this
  suffices hcore : Event.exec x s.now ∈ s'.log ∨ (s'.stopped = false ∧ x.time ≤ s'.now ∧ Timely s' ∧
      (x ∈ s'.q ∨ s'.pc = .popped x) ∧ measure s' < measure s ∧ s'.now = s.now) by
    rcases hcore with hc | ⟨c1, c2, c3, c4, c5, c6⟩
    · exact Or.inl hc
    · exact Or.inr ⟨⟨hreach', c1, c2, c3, c4⟩, c5, c6⟩
  have hpl : ∀ r ∈ s.q, (pop s.q r).length + 1 ≤ s.q.length := fun r hr => pop_length_lt hr
  have hsat := fun d : Int => satDur_cases d
  have hmax : (maxDur : Int) = 9223372036854775807 := rfl
  have hmin : (minDur : Int) = -9223372036854775808 := rfl
  unfold InvB Covers at hB
  unfold InvR at hR
  unfold Timely
  cases l <;> simp [Label.isLoop] at hl <;> step_cases hst
  all_goals (first | (simp_all [measure, rank, IsHead, IsMin]; done) | (simp_all [measure, rank, IsHead, IsMin]; grind))

/-- The ghost history only grows. -/
theorem log_mono_step {cfg : Cfg} {s s' : State κ ν} {l : Label κ ν} (hst : step cfg s l = some s')
    {e : Event κ ν} (he : e ∈ s.log) : e ∈ s'.log := by
  cases l <;> step_cases hst <;> (try (simp only [process]; split)) <;> (try split) <;>
    (try (cases hf : cfg.fixed <;> simp [hf] at hst <;> subst hst)) <;> simp_all

theorem log_mono_run {cfg : Cfg} : ∀ (ls : List (Label κ ν)) {s s' : State κ ν},
    runFrom cfg s ls = some s' → ∀ {e : Event κ ν}, e ∈ s.log → e ∈ s'.log := by
  intro ls
  induction ls with
  | nil => intro s s' h e he; simp [runFrom] at h; exact h ▸ he
  | cons l ls ih =>
    intro s s' h e he
    simp only [runFrom] at h
    cases hst : step cfg s l with
    | none => simp [hst] at h
    | some s1 =>
      simp only [hst, Option.bind_some] at h
      exact ih h (log_mono_step hst he)

/-- `x`'s callback has started. -/
def Executed (s : State κ ν) (x : Item κ ν) : Prop := ∃ n, Event.exec x n ∈ s.log

/-- **Every** loop-only schedule: after `ls` loop steps from a good state either the callback of `x`
has started, or the state is still good and the measure has dropped by at least `ls.length`. -/
theorem all_loop_schedules : ∀ (ls : List (Label κ ν)) {s s' : State κ ν} {x : Item κ ν}, Good s x →
    runFrom fixedCfg s ls = some s' → (∀ l ∈ ls, l.isLoop = true) →
    Event.exec x s.now ∈ s'.log ∨ (Good s' x ∧ measure s' + ls.length ≤ measure s ∧ s'.now = s.now) := by
  intro ls
  induction ls with
  | nil =>
    intro s s' x h hrun _
    simp [runFrom] at hrun
    subst hrun
    exact Or.inr ⟨h, by simp, rfl⟩
  | cons l ls ih =>
    intro s s' x h hrun hloop
    simp only [runFrom] at hrun
    cases hst : step fixedCfg s l with
    | none => simp [hst] at hrun
    | some s1 =>
      simp only [hst, Option.bind_some] at hrun
      rcases loop_step_decreases h (hloop l (by simp)) hst with hex | ⟨hg, hm, hnow⟩
      · exact Or.inl (log_mono_run ls hrun hex)
      · rcases ih hg hrun (fun l' hl' => hloop l' (List.mem_cons_of_mem _ hl')) with hex | ⟨hg', hm', hnow'⟩
        · exact Or.inl (by rw [← hnow]; exact hex)
        · refine Or.inr ⟨hg', ?_, by rw [hnow', hnow]⟩
          simp only [List.length_cons]
          omega

/-- A loop-only schedule longer than the measure has executed `x`; `40·|queue| + 31` bounds it. -/
theorem all_loop_schedules_bound {ls : List (Label κ ν)} {s s' : State κ ν} {x : Item κ ν} (h : Good s x)
    (hrun : runFrom fixedCfg s ls = some s') (hloop : ∀ l ∈ ls, l.isLoop = true)
    (hlen : 40 * s.q.length + 32 ≤ ls.length) : Event.exec x s.now ∈ s'.log := by
  rcases all_loop_schedules ls h hrun hloop with hex | ⟨_, hm, _⟩
  · exact hex
  · have := measure_le s
    omega

/-- Until the callback of `x` has started some loop step is enabled: a loop-only execution that has
not executed `x` can always be extended (so every maximal one executes `x`). -/
theorem loop_step_enabled {s : State κ ν} {x : Item κ ν} (h : Good s x) :
    ∃ (l : Label κ ν) (s' : State κ ν), l.isLoop = true ∧ step fixedCfg s l = some s' := by
  rcases h.pending with hx | hp
  · have hnot : Event.exec x s.now ∉ s.log := by
      intro he
      have hF := invF h.reach
      exact hF.2.2 x (hF.2.1 x _ he) hx
    obtain ⟨s', hs', he⟩ := progress ⟨h.reach, h.open_, hx, h.due, h.timely⟩
    cases hs' with
    | refl => exact absurd he hnot
    | cons a ha hst _ => exact ⟨a, _, ha, hst⟩
  · exact ⟨.cbStart, _, rfl, step_cbStart hp⟩

/-! ### environment steps that do not touch `x` keep the state good -/

/-- Environment steps that leave `x` alone: Enqueue/Dequeue of another key, clock advances. -/
def Benign (x : Item κ ν) : Label κ ν → Prop
  | .enqueue k _ _ _ => k ≠ x.key
  | .dequeue k _ => k ≠ x.key
  | .advance _ => True
  | _ => False

theorem good_env_step {s s' : State κ ν} {x : Item κ ν} {l : Label κ ν} (h : Good s x)
    (hb : Benign x l) (hst : step fixedCfg s l = some s') : Good s' x := by
  have hA := invA h.reach
  have hB := invB h.reach
  have hreach' : Reach (M (κ := κ) (ν := ν)) s' := Reach.step l h.reach hst
  have hopen := h.open_
  have hdue := h.due
  obtain ⟨ht1, ht2⟩ := h.timely
  have hpend := h.pending
  have ht := tok3 s.token
  suffices hcore : s'.stopped = false ∧ x.time ≤ s'.now ∧ Timely s' ∧ (x ∈ s'.q ∨ s'.pc = .popped x) by
    exact ⟨hreach', hcore.1, hcore.2.1, hcore.2.2.1, hcore.2.2.2⟩
  unfold InvA at hA
  unfold InvB Covers at hB
  unfold Timely
  cases l <;> simp only [Benign] at hb <;> step_cases hst <;> (try (simp only [process]; split)) <;> (try split) <;>
    (first | (simp_all; done) | (simp_all; grind))

/-- **With interleaved environment steps**: after any prefix of loop steps and environment steps
that leave `x` alone, every run of `40·|queue| + 32` consecutive loop steps executes `x` (if it has
not been executed before). -/
theorem interleaved_schedules : ∀ (pre : List (Label κ ν)) {s s1 s2 : State κ ν} {x : Item κ ν}
    {seg : List (Label κ ν)}, Good s x → runFrom fixedCfg s pre = some s1 →
    (∀ l ∈ pre, l.isLoop = true ∨ Benign x l) → runFrom fixedCfg s1 seg = some s2 →
    (∀ l ∈ seg, l.isLoop = true) → 40 * s1.q.length + 32 ≤ seg.length → Executed s2 x := by
  intro pre
  induction pre with
  | nil =>
    intro s s1 s2 x seg h hpre _ hseg hloop hlen
    simp [runFrom] at hpre
    subst hpre
    exact ⟨_, all_loop_schedules_bound h hseg hloop hlen⟩
  | cons l pre ih =>
    intro s s1 s2 x seg h hpre hok hseg hloop hlen
    simp only [runFrom] at hpre
    cases hst : step fixedCfg s l with
    | none => simp [hst] at hpre
    | some s' =>
      simp only [hst, Option.bind_some] at hpre
      have hok' : ∀ l' ∈ pre, l'.isLoop = true ∨ Benign x l' := fun l' hl' => hok l' (List.mem_cons_of_mem _ hl')
      rcases hok l (by simp) with hl | hl
      · rcases loop_step_decreases h hl hst with hex | ⟨hg, _, _⟩
        · exact ⟨_, log_mono_run seg hseg (log_mono_run pre hpre hex)⟩
        · exact ih hg hpre hok' hseg hloop hlen
      · exact ih (good_env_step h hl hst) hpre hok' hseg hloop hlen

end Kit.Processor
