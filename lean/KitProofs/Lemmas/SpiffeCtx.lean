import KitModel.Spiffe
import KitProofs.Lemmas.Spiffe
/-!
Property C19, readiness LTS: the context given to `Run` as a state component (`St.runCtx`, environment
label `Lbl.cancelRun`, enabled in every state).

* `RunPath`: statements of the Run goroutine only.
* `close_by_run_alone`: from a state satisfying `BaseInv` in which the initial fetch has finished,
  at most two statements of Run — neither of which waits for anything — close `readyCh`.
* `stepSkip`: the LTS of the repaired code EXCEPT that the error branch of the initial fetch goes
  straight to `Unlock()` when Run's ctx is done (the class of change "do not signal readiness on the way
  out"); `skipStuck_step`: the state it reaches is stuck under every continuation.
-/
namespace Kit.Spiffe

/-- Statements of the Run goroutine only. -/
inductive RunPath (v : Variant) : St → St → Prop where
  | refl (s : St) : RunPath v s s
  | head {s t u : St} : step v s .run = some t → RunPath v t u → RunPath v s u

/-- The Run pcs between the end of the initial fetch and `close(readyCh)`. -/
def RunPc.beforeClose : RunPc → Bool
  | .setSvid _ | .closeOk | .closeErr => true
  | _ => false

theorem initVal_some_cases (r : RunPc) (b : Bool) (h : r.initVal = some b) :
    r.isReady = true ∨ r.beforeClose = true := by
  cases r <;> simp_all [RunPc.initVal, RunPc.isReady, RunPc.beforeClose]

/-- Once the initial fetch has finished, Run's own statements close `readyCh`: `setSvid → closeOk →`
closed, `closeErr →` closed.  None of them has a guard (Run holds the write lock). -/
theorem close_by_run_alone {v : Variant} {s : St} (hb : BaseInv s) {b : Bool} (hi : s.init = some b) :
    ∃ t, RunPath v s t ∧ t.ready = true ∧ t.init = some b ∧ t.cons = s.cons ∧ t.runCtx = s.runCtx := by
  have hiv : s.run.initVal = some b := hb.init ▸ hi
  rcases initVal_some_cases _ _ hiv with hr | hr
  · exact ⟨s, .refl s, hb.ready ▸ hr, hi, rfl, rfl⟩
  · cases hrun : s.run <;> simp [hrun, RunPc.beforeClose] at hr
    · -- setSvid w
      rename_i w
      refine ⟨{ { s with svid := some w, run := .closeOk } with ready := true, run := .unlockOk },
        .head (t := { s with svid := some w, run := .closeOk }) (by simp [step, runStep, hrun])
          (.head (by simp [step, runStep]) (.refl _)), rfl, hi, rfl, rfl⟩
    · exact ⟨{ s with ready := true, run := .unlockOk }, .head (by simp [step, runStep, hrun]) (.refl _),
        rfl, hi, rfl, rfl⟩
    · exact ⟨{ s with ready := true, run := .unlockErr }, .head (by simp [step, runStep, hrun]) (.refl _),
        rfl, hi, rfl, rfl⟩

/-- Where Run no longer holds the write lock after the initial fetch, `readyCh` is closed. -/
theorem ready_of_init_unlocked {s : St} (hb : BaseInv s) (hi : s.init.isSome = true)
    (hw : s.wHeld = false) : s.ready = true := by
  rw [hb.ready]
  rw [hb.init] at hi
  rw [hb.held] at hw
  cases hrun : s.run <;> simp_all [RunPc.initVal, RunPc.isReady, RunPc.held]

theorem init_of_ready {s : St} (hb : BaseInv s) (hr : s.ready = true) : s.init.isSome = true := by
  rw [hb.init]
  rw [hb.ready] at hr
  cases hrun : s.run <;> simp_all [RunPc.initVal, RunPc.isReady]

/-! ### the change "return without close(readyCh) when Run's ctx is done" -/

/-- The repaired code, except that a FAILED initial fetch found with Run's ctx done goes straight to
`Unlock()` and returns the error — `close(readyCh)` is skipped on that path only. -/
def stepSkip (s : St) : Lbl → Option St
  | .reply false =>
    if s.run = .fetch ∧ s.runCtx = true then
      some { s with nfetch := s.nfetch + 1, init := some false, run := .unlockErr }
    else step .fixed s (.reply false)
  | l => step .fixed s l

inductive ReachSkip : St → St → Prop where
  | refl (s : St) : ReachSkip s s
  | tail {s t u : St} (l : Lbl) : ReachSkip s t → stepSkip t l = some u → ReachSkip s u

/-- With Run's ctx alive the changed code IS the repaired code (why tests that fail the initial fetch
with a live context do not see the change). -/
theorem stepSkip_eq_of_ctx_alive (s : St) (l : Lbl) (h : s.runCtx = false) :
    stepSkip s l = step .fixed s l := by
  cases l with
  | reply ok => cases ok <;> simp [stepSkip, h]
  | _ => rfl

/-- `GetX509SVID` called, `Run` called with / overtaken by a done ctx, initial fetch failed, `Run`
returned its error: `readyCh` is still open. -/
def skipState : St :=
  { running := true, nfetch := 1, init := some false, run := .retErr, cons := [.gCall], runCtx := true }

structure SkipStuck (s : St) : Prop where
  run : s.run = .retErr
  get : s.cons[0]? = some .gCall
  notReady : s.ready = false

theorem skipStuck_step {s t : St} {l : Lbl} (h : SkipStuck s) (hs : stepSkip s l = some t) :
    SkipStuck t := by
  obtain ⟨hrun, hget, hnr⟩ := h
  have hne : s.cons ≠ [] := by intro h; rw [h] at hget; simp at hget
  cases l with
  | callRun => simp [stepSkip, step, hrun] at hs
  | callReady =>
    simp only [stepSkip, step, Option.some.injEq] at hs
    subst hs
    refine ⟨hrun, ?_, hnr⟩
    cases hc : s.cons with
    | nil => exact absurd hc hne
    | cons a l => rw [hc] at hget; simpa using hget
  | callGet =>
    simp only [stepSkip, step, Option.some.injEq] at hs
    subst hs
    refine ⟨hrun, ?_, hnr⟩
    cases hc : s.cons with
    | nil => exact absurd hc hne
    | cons a l => rw [hc] at hget; simpa using hget
  | runLoser =>
    simp only [stepSkip, step] at hs
    split at hs <;> simp at hs
    subst hs
    exact ⟨hrun, hget, hnr⟩
  | ctxDone i =>
    simp only [stepSkip, step] at hs
    split at hs <;> simp at hs
    subst hs
    rename_i hi
    have hi0 : i ≠ 0 := by intro h0; subst h0; rw [hget] at hi; cases hi
    exact ⟨hrun, by simp [List.getElem?_set_ne hi0, hget], hnr⟩
  | stop => simp [stepSkip, step, hrun] at hs
  | cancelRun =>
    simp only [stepSkip, step, Option.some.injEq] at hs
    subst hs
    exact ⟨hrun, hget, hnr⟩
  | renew => simp [stepSkip, step, hrun] at hs
  | reply ok => cases ok <;> simp [stepSkip, step, replyStep, hrun] at hs
  | run => simp [stepSkip, step, runStep, hrun] at hs
  | cons i =>
    by_cases hi0 : i = 0
    · subst hi0
      simp [stepSkip, step, consStep, hget, hnr] at hs
    · have hs' : step .fixed s (.cons i) = some t := hs
      obtain ⟨pc, b, _, rfl⟩ := consStep_shape hs'
      exact ⟨hrun, by simp [List.getElem?_set_ne hi0, hget], hnr⟩

end Kit.Spiffe
