import KitProofs.Lemmas.Batcher
/-!
The fan-out as it was before the `fix:` commit (property C10, `wedge_witness`): a reachable state of
`lts ⟨false, c, 10⟩` — for every buffer capacity `c` — in which `execute`, a `Subscribe`, `Close` and a
due `Batch` value are all pending and no internal step is enabled at any clock value.
-/
namespace Kit.Batcher
open Kit.Queue Kit.Processor

/-- The code as found: no exit channel. -/
def cfgOrig (c : Nat) : Cfg := ⟨false, c, 10⟩

/-- One subscriber whose reader never reads and whose forwarder has not run yet, `n` values in its
buffer, everything else idle. -/
structure Filled (n : Nat) (s : State) : Prop where
  q : s.p.q = []
  token : s.p.token = .free
  reset : s.p.reset = false
  stopped : s.p.stopped = false
  stopClosed : s.p.stopClosed = false
  pc : s.p.pc = .absent
  cpc : s.p.cpc = .idle
  epc : s.epc = .idle
  closed : s.closed = false
  cq : s.cq = 0
  cl : s.cl = 0
  cw : s.cw = 0
  cr : s.cr = 0
  waitS : s.waitS = 0
  waitSD : s.waitSD = 0
  subs : ∃ u, s.subs = [u] ∧ u.buf.length = n ∧ u.pc = .idle ∧ u.ctxDone = false ∧ u.exitClosed = false

theorem reach_run {cfg : Cfg} {s s' : State} (hr : Reach (lts cfg) s) :
    ∀ {ls : List Label}, runFrom cfg s ls = some s' → Reach (lts cfg) s' := by
  intro ls
  induction ls generalizing s with
  | nil => intro h; simp [runFrom] at h; exact h ▸ hr
  | cons a as ih =>
    intro h
    simp only [runFrom] at h
    cases hst : step cfg s a with
    | none => simp [hst] at h
    | some s1 =>
      simp only [hst, Option.bind_some] at h
      exact ih (Reach.step a hr hst) h

/-- Batch, the clock reaches the due time, the loop pops the value and calls `execute`, which takes
the lock. -/
def roundHead (s : State) (k v : Nat) : List Label :=
  let r : It := ⟨k, s.p.now + 10, v, s.p.nextId⟩
  [.proc (.enqueue k (s.p.now + 10) v true), .proc (.advance (s.p.now + 10)), .proc (.peek (some r)),
   .proc .pollNone, .proc .decide, .proc (.execCheck (some r)), .proc .cbStart, .execLock]

/-- One delivery into the buffer nobody drains. -/
theorem fill_round {c n : Nat} {s : State} (h : Filled n s) (hn : n < c) :
    ∃ s', runFrom (cfgOrig c) s (roundHead s 0 0 ++ [.send, .proc .cbReturn, .proc (.peek none)]) = some s' ∧
      Filled (n + 1) s' := by
  obtain ⟨hq, htok, hreset, hstop, hsc, hpc, hcpc, hepc, hcl, hcq, hcl', hcw, hcr, hw, hwd, u, hsubs, hlen, hupc, huc, hux⟩ := h
  obtain ⟨p, subs, epc, closed, cq, cl, cw, cr, waitS, waitSD, retS, out, calls⟩ := s
  obtain ⟨q, token, reset, stopped, stopClosed, pc, cpc, now, nextId, log, timer, readAt, armAt⟩ := p
  simp only at hq htok hreset hstop hsc hpc hcpc hepc hcl hcq hcl' hcw hcr hw hwd hsubs
  subst hq htok hreset hstop hsc hpc hcpc hepc hcl hcq hcl' hcw hcr hw hwd hsubs
  let r : It := ⟨0, now + 10, 0, nextId⟩
  refine ⟨{ p := { q := [], token := .free, reset := false, stopped := false, stopClosed := false, pc := .absent,
                   cpc := .idle, now := now + 10, nextId := nextId + 1,
                   log := .exec r (now + 10) :: .pop r :: .enq r :: log, timer := timer, readAt := now + 10,
                   armAt := armAt },
            subs := [{ u with buf := u.buf ++ [r] }], epc := .idle, closed := false, cq := 0, cl := 0, cw := 0,
            cr := 0, waitS := 0, waitSD := 0, retS := retS, out := out ++ [r], calls := (nextId, now) :: calls }, ?_, ?_⟩
  have h10 : now ≤ now + 10 := by omega
  have h0 : now + 10 - (now + 10) = 0 := by omega
  · simp [r, h10, h0, runFrom, roundHead, cfgOrig, step, procStep, Processor.step, process, enqGuard, lookup, remove, Queue.insert,
      IsHead, IsMin, pop, halfMs, Kit.Generated.C06.runNowMarginNs, satDur, maxDur, minDur, execLock, send, Sub.inList, hupc, hlen, hn]
  · constructor <;> simp [hlen, hupc, huc, hux]

theorem filled_zero (c : Nat) : ∃ s, Reach (lts (cfgOrig c)) s ∧ Filled 0 s := by
  refine ⟨{ init with subs := [Sub.new 0] }, ?_, ?_⟩
  · apply reach_run (ls := [.subCall, .subAcquire, .subReturn]) Reach.init
    simp [runFrom, lts, step, subCall, subAcquire, subReturn, init, lockFree]
  · constructor <;> simp [init, Processor.init, Sub.new]

/-- The buffer can be filled to any level up to its capacity. -/
theorem filled (c : Nat) : ∀ n, n ≤ c → ∃ s, Reach (lts (cfgOrig c)) s ∧ Filled n s := by
  intro n
  induction n with
  | zero => intro _; exact filled_zero c
  | succ n ih =>
    intro hn
    obtain ⟨s, hr, hf⟩ := ih (by omega)
    obtain ⟨s', hrun, hf'⟩ := fill_round (c := c) hf (by omega)
    exact ⟨s', reach_run hr hrun, hf'⟩

/-- The wedge: `execute` holds the lock, blocked on the full buffer of a subscriber whose context has
ended and whose forwarder waits for that lock; a `Subscribe` waits for the lock; one `Close` call
waits in `queue.Close()` for the loop, i.e. for `execute`, a second, overlapping one waits there for
the first; a later `Batch` value is due and not delivered. -/
structure Wedged (c : Nat) (s : State) : Prop where
  epc : ∃ r, s.epc = .sending r 0 ∧ s.p.pc = .running r
  subs : ∃ u, s.subs = [u] ∧ u.buf.length = c ∧ u.pc = .wantLock ∧ u.ctxDone = true ∧ u.exitClosed = false
  closed : s.closed = false
  token : s.p.token = .loop
  cpc : s.p.cpc = .chClosed
  cq : s.cq = 1
  cl : s.cl = 0
  cw : s.cw = 0
  cr : s.cr = 0
  waitS : s.waitS = 1
  waitSD : s.waitSD = 0
  due : ∃ x ∈ s.p.q, x.time ≤ s.p.now

/-- In a wedged state no internal step is enabled, whatever the clock shows. -/
theorem wedged_stuck {c : Nat} {s : State} (h : Wedged c s) (t : Int) (l : Label) (hl : l.isInternal = true) :
    step (cfgOrig c) { s with p := { s.p with now := t } } l = none := by
  obtain ⟨⟨r, hepc, hpc⟩, ⟨u, hsubs, hlen, hupc, huc, hux⟩, hcl, htok, hcpc, hcq, hcl', hcw, hcr, hw, hwd, _⟩ := h
  have hget : ∀ i, s.subs[i]? = if i = 0 then some u else none := by
    intro i; rw [hsubs]; cases i <;> simp
  cases l
  case proc pl =>
    cases pl <;> simp_all [step, procStep, Processor.step, Label.isInternal, Processor.Label.isInternal, Processor.Label.isLoop]
  all_goals
    simp_all [step, execLock, send, skipExit, skipClose, skipGone, subAcquire, subAcquireDone, lockFree, fwdTake, fwdDropCtx, fwdDropClose,
      fwdExitCtx, fwdExitClose, fwdCloseExit, fwdRemove, closeLock, closeReturn, Label.isInternal, Sub.inList, cfgOrig]
  all_goals (try (split <;> simp_all))

/-- The schedule from a full buffer to the wedge. -/
def wedgeTail (s : State) : List Label :=
  roundHead s 0 0 ++
  [.cancel 0, .fwdExitCtx 0, .fwdCloseExit 0, .subCall, .proc (.enqueue 1 (s.p.now + 20) 1 true),
   .proc (.advance (s.p.now + 20)), .closeCall, .proc .closeStopCh, .closeCall]

theorem wedge_from_full {c : Nat} {s : State} (h : Filled c s) :
    ∃ s', runFrom (cfgOrig c) s (wedgeTail s) = some s' ∧ Wedged c s' := by
  obtain ⟨hq, htok, hreset, hstop, hsc, hpc, hcpc, hepc, hcl, hcq, hcl', hcw, hcr, hw, hwd, u, hsubs, hlen, hupc, huc, hux⟩ := h
  obtain ⟨p, subs, epc, closed, cq, cl, cw, cr, waitS, waitSD, retS, out, calls⟩ := s
  obtain ⟨q, token, reset, stopped, stopClosed, pc, cpc, now, nextId, log, timer, readAt, armAt⟩ := p
  simp only at hq htok hreset hstop hsc hpc hcpc hepc hcl hcq hcl' hcw hcr hw hwd hsubs
  subst hq htok hreset hstop hsc hpc hcpc hepc hcl hcq hcl' hcw hcr hw hwd hsubs
  let r : It := ⟨0, now + 10, 0, nextId⟩
  let r2 : It := ⟨1, now + 20, 1, nextId + 1⟩
  have h10 : now ≤ now + 10 := by omega
  have h0 : now + 10 - (now + 10) = 0 := by omega
  have h20 : now + 10 ≤ now + 20 := by omega
  have h30 : now + 20 = now + 10 + 10 := by omega
  refine ⟨{ p := { q := [r2], token := .loop, reset := true, stopped := true, stopClosed := true, pc := .running r,
                   cpc := .chClosed, now := now + 20, nextId := nextId + 2,
                   log := .enq r2 :: .exec r (now + 10) :: .pop r :: .enq r :: log, timer := timer,
                   readAt := now + 10, armAt := armAt },
            subs := [{ u with pc := .wantLock, ctxDone := true, exitClosed := false }], epc := .sending r 0,
            closed := false, cq := 1, cl := 0, cw := 0, cr := 0, waitS := 1, waitSD := 0, retS := retS, out := out ++ [r],
            calls := (nextId + 1, now + 10) :: (nextId, now) :: calls }, ?_, ?_⟩
  · simp [r, r2, h10, h0, h20, h30, wedgeTail, runFrom, roundHead, cfgOrig, step, procStep, Processor.step, process, enqGuard,
      lookup, remove, Queue.insert, IsHead, IsMin, pop, halfMs, Kit.Generated.C06.runNowMarginNs, satDur, maxDur, minDur, execLock, cancel,
      fwdExitCtx, fwdCloseExit, subCall, closeCall, setSub, hupc]
  · constructor <;> simp [hlen, r2]

end Kit.Batcher
