/-
Encrypt = specification encoder; Decrypt inverts it.
-/
import KitModel.Enc
import KitProofs.Lemmas.EncLoop
import KitProofs.Lemmas.EncSegs
import KitProofs.Lemmas.EncHeader

namespace Kit.Enc
open Kit

/-- The payload as a list of sealed segments with their flags. -/
def sealedSegs (c : Crypto) (P : EncParams) (cph : Nat) (pk np : Bytes) : Nat → List (Bytes × Bool) → List (Bytes × Bool)
  | _, [] => []
  | i, (d, l) :: rest => (c.aseal cph pk (nonceFor P np i l) d, l) :: sealedSegs c P cph pk np (i + 1) rest

theorem specPayload_cons (c : Crypto) (P : EncParams) (cph : Nat) (pk np : Bytes) (i : Nat) (d l rest) :
    specPayload c P cph pk np i ((d, l) :: rest) =
      c.aseal cph pk (nonceFor P np i l) d ++ specPayload c P cph pk np (i + 1) rest := rfl

theorem sealedSegs_cons (c : Crypto) (P : EncParams) (cph : Nat) (pk np : Bytes) (i : Nat) (d l rest) :
    sealedSegs c P cph pk np i ((d, l) :: rest) =
      (c.aseal cph pk (nonceFor P np i l) d, l) :: sealedSegs c P cph pk np (i + 1) rest := rfl

theorem specPayload_eq_flatten (c : Crypto) (P : EncParams) (cph : Nat) (pk np : Bytes) :
    ∀ (segs : List (Bytes × Bool)) (i : Nat),
      ((numbered i segs).map fun x => c.aseal cph pk (nonceFor P np x.2.1 x.2.2) x.1).flatten
        = specPayload c P cph pk np i segs := by
  intro segs
  induction segs with
  | nil => intro i; rfl
  | cons a t ih => intro i; obtain ⟨d, l⟩ := a; simp [numbered, specPayload, ih]

/-- On well-shaped segments `Encrypt`'s loop writes exactly the specification payload. -/
theorem runSegs_encrypt (c : Crypto) (P : EncParams) (cph : Nat) (pk np : Bytes) (S : Nat) (hS : 0 < S)
    (segs : List (Bytes × Bool)) (i : Nat) (hsh : Shape S segs) (hcount : i + segs.length ≤ P.maxSeg + 1) :
    runSegs P.maxSeg (encryptSeg c P cph pk np) segs i .ok =
      ⟨numbered i segs, specPayload c P cph pk np i segs, .ok⟩ := by
  rw [runSegs_all_ok S P.maxSeg hS (encryptSeg c P cph pk np)
    (fun d i l => c.aseal cph pk (nonceFor P np i l) d) ?_ segs i hsh hcount, specPayload_eq_flatten]
  intro d i l hpos _
  have : d.isEmpty = false := by
    cases d with
    | nil => simp at hpos
    | cons _ _ => rfl
  simp [encryptSeg, this]

theorem specPayload_pos (c : Crypto) (P : EncParams) (cph : Nat) (pk np : Bytes) (S : Nat)
    (lc : c.LawfulFor P pk np) (x : Bytes × Bool) (xs : List (Bytes × Bool)) (i : Nat)
    (hsh : Shape S (x :: xs)) (hS : 0 < S) : 0 < (specPayload c P cph pk np i (x :: xs)).length := by
  obtain ⟨d, l⟩ := x
  have hd : 0 < d.length := by
    cases xs with
    | nil => exact hsh.2.1
    | cons y ys => rw [hsh.2.1]; exact hS
  simp only [specPayload, List.length_append, lc.seal_length]
  omega

/-- Splitting the specification payload into pieces of `S + overhead` bytes gives back the
    sealed segments with their flags. -/
theorem segments_specPayload (c : Crypto) (P : EncParams) (cph : Nat) (pk np : Bytes) (S : Nat) (hS : 0 < S)
    (lc : c.LawfulFor P pk np) : ∀ (segs : List (Bytes × Bool)) (i : Nat), Shape S segs →
    segments (S + P.overhead) (specPayload c P cph pk np i segs) = sealedSegs c P cph pk np i segs := by
  intro segs
  induction segs with
  | nil => intro i _; rfl
  | cons a t ih =>
    intro i hsh
    obtain ⟨d, l⟩ := a
    cases t with
    | nil =>
      obtain ⟨hl, hpos, hle⟩ := hsh
      subst hl
      simp only [specPayload, List.append_nil, sealedSegs]
      have hsl := lc.seal_length cph i true d
      rw [segments_le]
      · intro h; rw [h] at hsl; simp at hsl; omega
      · omega
    | cons x xs =>
      obtain ⟨hl, hlen, hrest⟩ := hsh
      have hpos := specPayload_pos c P cph pk np S lc x xs (i + 1) hrest hS
      have hsl : (c.aseal cph pk (nonceFor P np i l) d).length = S + P.overhead := by
        rw [lc.seal_length, hlen]
      rw [specPayload_cons, sealedSegs_cons]
      rw [segments_gt (S + P.overhead) (by omega) _ (by rw [List.length_append, hsl]; omega)]
      rw [List.take_left' hsl, List.drop_left' hsl, ih (i + 1) hrest]
      subst hl; rfl

/-- `Decrypt`'s loop over the sealed segments releases the plaintext and ends cleanly. -/
theorem runSegs_decrypt_sealed (c : Crypto) (P : EncParams) (cph : Nat) (pk np : Bytes) (S : Nat) (hS : 0 < S)
    (lc : c.LawfulFor P pk np) : ∀ (segs : List (Bytes × Bool)) (i : Nat), Shape S segs →
    i + segs.length ≤ P.maxSeg + 1 →
    (runSegs P.maxSeg (decryptSeg c P cph pk np) (sealedSegs c P cph pk np i segs) i .ok).out
        = (segs.map (·.1)).flatten ∧
    (runSegs P.maxSeg (decryptSeg c P cph pk np) (sealedSegs c P cph pk np i segs) i .ok).term = .ok := by
  intro segs
  induction segs with
  | nil => intro i _ _; exact ⟨rfl, rfl⟩
  | cons a t ih =>
    intro i hsh hcount
    obtain ⟨d, l⟩ := a
    have hfn : ∀ l, decryptSeg c P cph pk np (c.aseal cph pk (nonceFor P np i l) d) i l = .ok d := by
      intro l
      have hne : (c.aseal cph pk (nonceFor P np i l) d).isEmpty = false := by
        cases hx : c.aseal cph pk (nonceFor P np i l) d with
        | nil =>
          have := lc.seal_length cph i l d
          rw [hx] at this
          have hd : 0 < d.length := by
            cases t with
            | nil => exact hsh.2.1
            | cons y ys => rw [hsh.2.1]; exact hS
          simp at this; omega
        | cons _ _ => rfl
      simp [decryptSeg, hne, lc.open_seal]
    cases t with
    | nil =>
      obtain ⟨hl, _, _⟩ := hsh
      subst hl
      simp only [sealedSegs]
      rw [runSegs_single_last, hfn true]
      simp
    | cons x xs =>
      obtain ⟨hl, hlen, hrest⟩ := hsh
      subst hl
      rw [sealedSegs_cons, runSegs_cons_nonlast, hfn false]
      have hne : ¬ i = P.maxSeg := by simp only [List.length_cons] at hcount; omega
      simp only [hne, if_false]
      have := ih (i + 1) hrest (by simp only [List.length_cons] at hcount ⊢; omega)
      simp only [PSResult.cons, this.1, this.2, List.map_cons, List.flatten_cons, and_self]


theorem signHeader_eq (c : Crypto) (cd : Codec) (P : EncParams) (fk ml : Bytes) :
    signHeader c cd P fk ml = hdrBytes P.scheme ml (cd.b64 (headerMac c P fk ml)) := by
  simp [signHeader, hdrBytes, headerMessage, List.append_assoc]

theorem specEncrypt_eq (c : Crypto) (cd : Codec) (P : EncParams) (fk : Bytes) (m : Manifest) (p : Bytes) :
    specEncrypt c cd P fk m p =
      hdrBytes P.scheme (cd.render m) (cd.b64 (headerMac c P fk (cd.render m))) ++
        specPayload c P m.cph (payloadKey c P fk m.np) m.np 0 (segments P.segSize p) := by
  simp [specEncrypt, hdrBytes, headerMac, headerKey, headerMessage, payloadKey, List.append_assoc]

/-- The base64 half of the codec laws. -/
structure Codec.B64Lawful (cd : Codec) : Prop where
  unb64_b64 : ∀ x, cd.unb64 (cd.b64 x) = some x
  b64_line : ∀ x, x ≠ [] → cd.b64 x ≠ [] ∧ (10 : UInt8) ∉ cd.b64 x

theorem Codec.LawfulFor.b64 {cd : Codec} {m : Manifest} (l : cd.LawfulFor m) : cd.B64Lawful := ⟨l.unb64_b64, l.b64_line⟩

theorem header_wf_line (c : Crypto) (cd : Codec) (P : EncParams) (pwf : P.WF) (hmac : ∀ k msg, c.hmac k msg ≠ [])
    (fk ml : Bytes) (hne : ml ≠ []) (hnl : (10 : UInt8) ∉ ml) (lb : cd.B64Lawful) :
    HdrWF P.scheme ml (cd.b64 (headerMac c P fk ml)) :=
  ⟨pwf.scheme_ne, pwf.scheme_nl, hne, hnl, (lb.b64_line _ (hmac _ _)).1, (lb.b64_line _ (hmac _ _)).2⟩

theorem header_wf (c : Crypto) (cd : Codec) (P : EncParams) (pwf : P.WF) (hmac : ∀ k msg, c.hmac k msg ≠ [])
    (fk : Bytes) (m : Manifest) (lcd : cd.LawfulFor m) :
    HdrWF P.scheme (cd.render m) (cd.b64 (headerMac c P fk (cd.render m))) :=
  header_wf_line c cd P pwf hmac fk _ lcd.render_line.1 lcd.render_line.2 lcd.b64

/-- `Decrypt` on a non-failing source that starts with a header whose manifest line `ml` is **any**
    line the parser reads as `m` (not necessarily the rendering of `m`) and whose MAC was computed over
    `ml` itself under the key the run ends up using: everything up to the segment loop succeeds,
    whatever follows and however it is chunked. `rf` selects the code before/after the bad-unwrap fix. -/
theorem decrypt_of_header_line (b rf : Bool) (c : Crypto) (cd : Codec) (P : EncParams) (pwf : P.WF)
    (hmac : ∀ k msg, c.hmac k msg ≠ []) (lb : cd.B64Lawful) (fk : Bytes)
    (m : Manifest) (ml : Bytes) (hparse : cd.parse ml = some m) (hne : ml ≠ []) (hnl : (10 : UInt8) ∉ ml)
    (hm : m.valid P = true) (o : DecryptOpts)
    (hkn : o.keyName ≠ [] ∨ m.keyName ≠ [])
    (heff : ∀ kn, effKey rf P o m kn = fk) (hgood : ∀ kn, (rf && unwrapFailed rf P o m kn) = false)
    (payload : Bytes) (r : Reader) (heof : r.term = .eof)
    (hhdr : (signHeader c cd P fk ml).length ≤ P.hdrMax)
    (hstream : r.stream = signHeader c cd P fk ml ++ payload) :
    ∃ r', r'.stream = payload ∧ r'.term = .eof ∧
      decryptWith b rf c cd P o r =
        ((processSegments (P.segSize + P.overhead) P.maxSeg
            (decryptSeg c P m.cph (payloadKey c P fk m.np) m.np) r').out,
         (processSegments (P.segSize + P.overhead) P.maxSeg
            (decryptSeg c P m.cph (payloadKey c P fk m.np) m.np) r').term) := by
  rw [signHeader_eq] at hhdr hstream
  obtain ⟨r', hrh, hrs, hrt⟩ := readHeader_complete b P _ _ payload (header_wf_line c cd P pwf hmac fk ml hne hnl lb) hhdr r heof hstream
  refine ⟨r', hrs, hrt, ?_⟩
  unfold decryptWith
  rw [hrh]
  simp only [hparse, hm, Bool.not_true, Bool.false_eq_true, if_false]
  have hkey : (if o.keyName.isEmpty = true then m.keyName else o.keyName).isEmpty = false := by
    rcases hkn with h | h
    · have : o.keyName.isEmpty = false := by simpa using h
      simp [this]
    · by_cases ho : o.keyName.isEmpty = true
      · simp only [ho, if_true]; simpa using h
      · simp only [ho]; simpa using ho
  simp only [hkey, Bool.false_eq_true, if_false, heff, hgood]
  have hv : verifyHeader c cd P fk ml (cd.b64 (headerMac c P fk ml)) = none := by
    simp [verifyHeader, lb.unb64_b64]
  rw [hv]

/-- An unwrap function that returns the 32-byte file key without error. -/
theorem effKey_good (rf : Bool) (P : EncParams) (o : DecryptOpts) (m : Manifest) (fk : Bytes) (hfk : fk.length = P.fkLen)
    (hunwrap : ∀ kn, o.unwrap m kn = fk) (hnf : ∀ kn, o.unwrapFails m kn = false) :
    (∀ kn, effKey rf P o m kn = fk) ∧ (∀ kn, (rf && unwrapFailed rf P o m kn) = false) := by
  have huf : ∀ kn, unwrapFailed rf P o m kn = false := by
    intro kn; simp [unwrapFailed, hunwrap, hfk, hnf]
  exact ⟨fun kn => by simp [effKey, huf, hunwrap], fun kn => by simp [huf]⟩

/-- The special case of the manifest line `json.Marshal` produces. -/
theorem decrypt_of_honest_header (b : Bool) (c : Crypto) (cd : Codec) (P : EncParams) (pwf : P.WF)
    (hmac : ∀ k msg, c.hmac k msg ≠ []) (fk : Bytes) (hfk : fk.length = P.fkLen)
    (m : Manifest) (lcd : cd.LawfulFor m) (hm : m.valid P = true) (o : DecryptOpts)
    (hkn : o.keyName ≠ [] ∨ m.keyName ≠ [])
    (hunwrap : ∀ kn, o.unwrap m kn = fk) (hnf : ∀ kn, o.unwrapFails m kn = false)
    (payload : Bytes) (r : Reader) (heof : r.term = .eof)
    (hhdr : (signHeader c cd P fk (cd.render m)).length ≤ P.hdrMax)
    (hstream : r.stream = signHeader c cd P fk (cd.render m) ++ payload) :
    ∃ r', r'.stream = payload ∧ r'.term = .eof ∧
      decryptWith b true c cd P o r =
        ((processSegments (P.segSize + P.overhead) P.maxSeg
            (decryptSeg c P m.cph (payloadKey c P fk m.np) m.np) r').out,
         (processSegments (P.segSize + P.overhead) P.maxSeg
            (decryptSeg c P m.cph (payloadKey c P fk m.np) m.np) r').term) := by
  obtain ⟨h1, h2⟩ := effKey_good true P o m fk hfk hunwrap hnf
  exact decrypt_of_header_line b true c cd P pwf hmac lcd.b64 fk m _ lcd.parse_render lcd.render_line.1
    lcd.render_line.2 hm o hkn h1 h2 payload r heof hhdr hstream


/-- The document of an encoder that writes the manifest in its own way: any manifest line `ml`, the MAC
    over `ml` itself, the payload as the specification says for the manifest `m` that `ml` denotes. -/
def specEncryptLine (c : Crypto) (cd : Codec) (P : EncParams) (fk ml : Bytes) (m : Manifest) (p : Bytes) : Bytes :=
  signHeader c cd P fk ml ++ specPayload c P m.cph (payloadKey c P fk m.np) m.np 0 (segments P.segSize p)

theorem specEncrypt_eq_line (c : Crypto) (cd : Codec) (P : EncParams) (fk : Bytes) (m : Manifest) (p : Bytes) :
    specEncrypt c cd P fk m p = specEncryptLine c cd P fk (cd.render m) m p := by
  rw [specEncrypt_eq, specEncryptLine, signHeader_eq]

/-! ### the README-only decoder -/

theorem splitLine_append (line rest : Bytes) (h : (10 : UInt8) ∉ line) :
    splitLine (line ++ 10 :: rest) = some (line, rest) := by
  induction line with
  | nil => simp [splitLine]
  | cons b bs ih =>
    have hb : b ≠ 10 := fun h0 => h (by simp [h0])
    have hbs : (10 : UInt8) ∉ bs := fun h0 => h (by simp [h0])
    simp [splitLine, hb, ih hbs]

theorem specOpenSegs_sealed (c : Crypto) (P : EncParams) (cph : Nat) (pk np : Bytes)
    (lc : c.LawfulFor P pk np) : ∀ (segs : List (Bytes × Bool)) (i : Nat),
    specOpenSegs c P cph pk np i (sealedSegs c P cph pk np i segs) = some ((segs.map (·.1)).flatten) := by
  intro segs
  induction segs with
  | nil => intro i; rfl
  | cons a t ih =>
    intro i
    obtain ⟨d, l⟩ := a
    rw [sealedSegs_cons]
    simp only [specOpenSegs, lc.open_seal, ih (i + 1), List.map_cons, List.flatten_cons]

/-- A decoder written from README.md opens every document of the specification encoder (and hence,
    by `encrypt_layout`, every document `Encrypt` writes). -/
theorem specDecrypt_specEncrypt (c : Crypto) (cd : Codec) (P : EncParams) (pwf : P.WF)
    (fk : Bytes) (m : Manifest) (lcd : cd.LawfulFor m) (lc : c.LawfulFor P (payloadKey c P fk m.np) m.np)
    (hm : m.valid P = true) (p : Bytes) : specDecrypt c cd P fk (specEncrypt c cd P fk m p) = some p := by
  have hform : specEncrypt c cd P fk m p =
      P.scheme ++ 10 :: (cd.render m ++ 10 :: (cd.b64 (c.hmac (c.hkdf fk [] P.hdrInfo P.hdrKeyLen)
        (P.scheme ++ [10] ++ cd.render m ++ [10])) ++ 10 ::
        specPayload c P m.cph (c.hkdf fk m.np P.payInfo P.payKeyLen) m.np 0 (segments P.segSize p))) := by
    simp [specEncrypt, List.append_assoc]
  rw [hform]
  unfold specDecrypt
  rw [splitLine_append _ _ pwf.scheme_nl]
  simp only []
  rw [splitLine_append _ _ lcd.render_line.2]
  simp only []
  rw [splitLine_append _ _ (lcd.b64_line _ (lc.hmac_ne _ _)).2]
  simp only [ne_eq, not_true_eq_false, if_false, lcd.parse_render, lcd.unb64_b64]
  have := segments_specPayload c P m.cph (c.hkdf fk m.np P.payInfo P.payKeyLen) m.np P.segSize pwf.seg_pos lc
    (segments P.segSize p) 0 (segments_shape _ pwf.seg_pos _)
  rw [this]
  have h2 := specOpenSegs_sealed c P m.cph (payloadKey c P fk m.np) m.np lc (segments P.segSize p) 0
  simp only [payloadKey] at h2
  rw [h2, segments_concat _ pwf.seg_pos]

end Kit.Enc
