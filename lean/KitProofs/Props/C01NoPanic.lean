/-
C01 / C07 — enc/v1 never panics: no index or slice expression of `processSegments`, `readHeader`,
`EncryptSegment`, `DecryptSegment`, `Decrypt` is out of range and no AEAD precondition is violated,
for every reader script and every document bytes.  Stated over the instrumented model
`KitModel/EncChk.lean` (every Go expression that can panic is an explicit check; `none` = panic),
which is proved to compute exactly what the plain model (tied to the Go code by the C01/C02 checks)
computes.
-/
import KitModel.Enc
import KitModel.EncChk
import KitModel.EncReal
import KitProofs.Lemmas.EncNoPanic
import KitProofs.Lemmas.EncRealLaws

namespace Kit.Enc.C01NoPanic
open Kit Kit.Enc Kit.Enc.Chk

/-- **`processSegments` never panics**: for every reader script (caps, zero-length reads, EOF with or
    after data, failures), every segment size with `segSize + 1 ≤ cap` (the pooled buffer:
    `(*buf)[n:segSize+1]`, `(*buf)[n-1]`, `(*buf)[:n]`, `(*buf)[0]` are all in range) and every process
    function that does not itself panic on segments of `1..segSize` bytes; and it computes the plain
    model's result. -/
theorem processSegments_never_panics (cap segSize maxSeg : Nat) (hcap : segSize + 1 ≤ cap)
    (fnO : ProcFnO) (fn : ProcFn)
    (hfn : ∀ d i l, 0 < d.length → d.length ≤ segSize → fnO d i l = some (fn d i l)) (r : Reader) :
    processSegmentsO cap segSize maxSeg fnO r = some (processSegments segSize maxSeg fn r) :=
  processSegmentsO_eq cap segSize maxSeg hcap fnO fn hfn r

/-- The buffer arithmetic behind it: the inner read loop never holds more than `limit` bytes. -/
theorem fill_bounded (fuel : Nat) (r : Reader) (limit : Nat) (buf : Bytes) (h : buf.length ≤ limit) :
    (fill fuel r limit buf).1.length ≤ limit :=
  fill_length_le fuel r limit buf h

/-- **`readHeader` never panics** (`(*buf)[n:SegmentSize]`, `(*buf)[i]`, `(*buf)[lastNewline:i]`,
    `make([]byte, n-lastNewline)`, `(*buf)[lastNewline:n]`), for every source script and content, and the
    index-based code returns exactly what the list model returns. -/
theorem readHeader_never_panics (cap : Nat) (P : EncParams) (hcap : P.hdrMax ≤ cap) (r : Reader) :
    readHeaderO cap P r = some (readHeader P r) :=
  readHeaderO_eq cap P hcap r

/-- **`DecryptSegment` / `EncryptSegment` never panic**: the nonce always has the length the AEAD
    insists on, and `data[0:(l - Overhead())]` is only evaluated after a successful `Open`, which
    implies `l ≥ Overhead()`. -/
theorem decryptSegment_never_panics (c : Crypto) (P : EncParams) (nonceLen cph : Nat) (pk np : Bytes)
    (hn : ∀ i l, (nonceFor P np i l).length = nonceLen) (ho : OpenLen c P pk np) (d : Bytes) (i : Nat) (l : Bool) :
    decryptSegO c P nonceLen cph pk np d i l = some (decryptSeg c P cph pk np d i l) :=
  decryptSegO_eq c P nonceLen cph pk np hn ho d i l

theorem encryptSegment_never_panics (c : Crypto) (P : EncParams) (nonceLen cph : Nat) (pk np : Bytes)
    (hn : ∀ i l, (nonceFor P np i l).length = nonceLen) (lc : c.LawfulFor P pk np) (d : Bytes) (i : Nat) (l : Bool) :
    encryptSegO c P nonceLen cph pk np d i l = some (encryptSeg c P cph pk np d i l) :=
  encryptSegO_eq c P nonceLen cph pk np hn lc d i l

/-- **`Decrypt` never panics for any document bytes** (any source script, any options, any unwrapped
    key): the outcome is always a released byte string and a terminal that is `ok` or an error. -/
theorem decrypt_never_panics (cap nonceLen : Nat) (c : Crypto) (cd : Codec) (P : EncParams)
    (hcap1 : P.hdrMax ≤ cap) (hcap2 : P.segSize + P.overhead + 1 ≤ cap)
    (hn : ∀ np i l, (nonceFor P np i l).length = nonceLen) (ho : ∀ pk np, OpenLen c P pk np)
    (o : DecryptOpts) (r : Reader) :
    decryptO cap nonceLen c cd P o r = some (decryptImpl c cd P o r) :=
  decryptO_eq cap nonceLen c cd P hcap1 hcap2 hn ho o r

/-! ### the generated constants and the concrete Lean crypto -/

/-- What a successful `Open` of the concrete Lean AEADs implies about lengths. -/
theorem realCrypto_openLen (pk np : Bytes) : OpenLen Real.realCrypto EncParams.generated pk np := by
  intro cph i l x q h
  have ho : EncParams.generated.overhead = 16 := rfl
  rw [ho]
  by_cases h2 : (cph == 2) = true
  · simp only [Real.realCrypto, h2, if_true, Kit.Crypto.chacha20Poly1305Open] at h
    split at h
    · rename_i hc
      simp only [Bool.and_eq_true, decide_eq_true_eq] at hc
      split at h
      · cases h
        simp [Kit.Crypto.xorKS_length]; omega
      · cases h
    · cases h
  · simp only [Real.realCrypto, h2, Bool.false_eq_true, if_false, Kit.Crypto.gcmOpen] at h
    split at h
    · rename_i hc
      simp only [Bool.and_eq_true, decide_eq_true_eq] at hc
      split at h
      · cases h
        simp [Kit.Crypto.xorKS_length]; omega
      · cases h
    · cases h

/-- **With the constants regenerated from the source** (`BufPool` buffers of `Gen.bufSize` = 65 553
    bytes, header limit 65 536, segment 65 536 + 16, nonce 7 + 4 + 1 = 12) **and the concrete Lean
    AES-GCM / ChaCha20-Poly1305, `Decrypt` never panics**, whatever bytes it is given. -/
theorem decrypt_never_panics_real (cd : Codec) (o : DecryptOpts) (r : Reader) :
    decryptO Gen.bufSize Gen.nonceLength Real.realCrypto cd EncParams.generated o r =
      some (decryptImpl Real.realCrypto cd EncParams.generated o r) :=
  decrypt_never_panics Gen.bufSize Gen.nonceLength Real.realCrypto cd EncParams.generated (by decide) (by decide)
    (fun np i l => Real.nonceFor_generated_length np i l) realCrypto_openLen o r

/-- The two capacity facts, as regenerated: the buffer holds a decrypt segment plus the look-ahead
    byte exactly, and the header limit fits. -/
theorem buffer_capacity_facts :
    Gen.decryptSegmentArg + 1 = Gen.bufSize ∧ Gen.encryptSegmentArg + 1 ≤ Gen.bufSize ∧
    Gen.headerLimit ≤ Gen.bufSize ∧ Gen.nonceLength = 12 := by decide

/-- `Encrypt`'s loop never panics either (same buffer, smaller segment size). -/
theorem encrypt_loop_never_panics_real (cph : Nat) (fk np : Bytes) (r : Reader) :
    processSegmentsO Gen.bufSize EncParams.generated.segSize EncParams.generated.maxSeg
      (encryptSegO Real.realCrypto EncParams.generated Gen.nonceLength cph
        (payloadKey Real.realCrypto EncParams.generated fk np) np) r =
    some (processSegments EncParams.generated.segSize EncParams.generated.maxSeg
      (encryptSeg Real.realCrypto EncParams.generated cph (payloadKey Real.realCrypto EncParams.generated fk np) np) r) :=
  processSegments_never_panics Gen.bufSize _ _ (by decide) _ _
    (fun d i l _ _ => encryptSegO_eq Real.realCrypto EncParams.generated Gen.nonceLength cph _ np
      (fun i l => Real.nonceFor_generated_length np i l) (Real.realCrypto_lawful fk np) d i l) r

/-! ### termination (the hang side): the loops end by their own exit conditions -/

/-- `for n < segmentSize+1 && err == nil`: ends with the buffer full or with the source's terminal
    condition, within `r.measure + 1` reads (the script is finite: every read consumes a cap, a byte,
    or delivers the terminal) — the model's fuel never runs out. -/
theorem fill_terminates (r : Reader) (limit : Nat) (buf : Bytes) (hb : buf.length ≤ limit) :
    (fill (r.measure + 1) r limit buf).2.1 ≠ .none ∨ (fill (r.measure + 1) r limit buf).1.length = limit :=
  fill_exits (r.measure + 1) r limit buf (by omega) hb

/-- `for !done`: `processSegments` ends with a proper terminal (never the model's `fuel` marker) for
    every reader script and every segment size `> 0`: each iteration consumes `segSize` bytes of the
    finite stream. -/
theorem processSegments_terminates (segSize maxSeg : Nat) (hs : 0 < segSize) (fn : ProcFn)
    (hfn : ∀ d i l, fn d i l ≠ .error .fuel) (r : Reader) :
    (processSegments segSize maxSeg fn r).term ≠ .err .fuel := by
  rw [processSegments_spec segSize maxSeg fn hs r]
  apply runSegs_term_ne_fuel maxSeg fn hfn
  unfold finOf; split <;> simp

/-- `for newlines < 3 && err == nil`: `readHeader` ends by its own conditions (three newlines, buffer
    full, or the source's terminal condition) for every source script. -/
theorem readHeader_terminates (P : EncParams) (r : Reader) : readHeader P r ≠ .error .fuel := by
  unfold readHeader readHeaderWith
  have h := hdrLoop_ne_fuel P.scheme P.hdrMax (r.measure + 1) r 0 {} (by omega) (by omega)
  cases hl : hdrLoop P.scheme P.hdrMax (r.measure + 1) r 0 {} with
  | error e =>
    simp only []
    intro he; cases he; exact h hl
  | ok x =>
    obtain ⟨st, res, r'⟩ := x
    simp only []
    repeat' split
    all_goals simp

/-- Non-vacuity / witness that the checks bite: with a buffer one byte too small the instrumented
    loop does report a panic. -/
example : processSegmentsO 2 2 10 (fun d _ _ => some (.ok d)) ⟨[], [1, 2, 3], [], false, .eof⟩ = none := by decide

end Kit.Enc.C01NoPanic
