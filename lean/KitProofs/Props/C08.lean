import KitModel.PoolOwnership
import KitModel.Generated.C08
import KitProofs.Lemmas.PoolOwnership
import KitProofs.Lemmas.PoolOwnershipEnc
import KitProofs.Lemmas.Containers
/-!
# C08 — independent operations do not interfere through package-level shared state

* `ownership_inv`: in every reachable state of ANY number of interleaved pipelines (threads whose
  programs keep the discipline `wf`), under EVERY choice the pool makes, every array a thread
  reads, writes or puts is owned by / private to it, no array is held by two threads, everything
  in the pool is `pooled`.  `header_slices_never_pooled`: in particular whatever a thread reads
  through a slice (e.g. the manifest/MAC `readHeader` returned) is not a pooled array.
* `pipelines_independent`: the log (everything a pipeline observes, hence every result it can
  compute) of each pipeline in any interleaving equals its log when run alone.
* `enc_pipelines_wf`: the programs that transcribe `readHeader`/`Decrypt`/`processSegments`/
  `Encrypt` keep the discipline for every document and every chunking — GIVEN the regenerated fact
  that `readHeader` returns copies (`Generated.C08.headerRet`); `enc_pipelines_independent`
  combines the two.
* `alias_witness`: in the model of the code as found (results alias the buffer) the schedule
  "T1 readHeader returns → T2 Get → T2 reads its document into the buffer → T1 unmarshals/MACs"
  makes T1 read T2's bytes: T1's log differs from its run alone and the access is not owned.
* `logger_registry_linearizable`, `standard_parser_immutable`, byte-slice-pool facts.
-/
namespace Kit.C08
open Kit.PoolOwn Kit.Containers

/-! ## ownership -/

/-- **Ownership invariant.** -/
theorem ownership_inv (progs : Nat → List Instr) (hwf : ∀ t, wf (progs t) = true) {s : State}
    (h : Reach progs s) :
    (∀ t, accessOk s t = true) ∧
    (∀ t h, h ∈ (s.thr t).g.live → (s.own ((s.thr t).tbl h)).owner = some t) ∧
    (∀ t u h h', h ∈ (s.thr t).g.live → h' ∈ (s.thr u).g.live → (s.thr t).tbl h = (s.thr u).tbl h' → t = u ∧ h = h') ∧
    (∀ a ∈ s.pool, s.own a = .pooled) := by
  have I := inv_reach hwf h
  refine ⟨accessOk_of_inv I, I.owns, ?_, I.poolOk⟩
  intro t u h1 h2 hh1 hh2 e
  have := I.disjoint hh1 hh2 e
  subst this
  exact ⟨rfl, I.inj t h1 h2 hh1 hh2 e⟩

/-- no slice a thread is about to read through refers to a pooled (or foreign) array -/
theorem header_slices_never_pooled (progs : Nat → List Instr) (hwf : ∀ t, wf (progs t) = true) {s : State}
    (h : Reach progs s) (t : Nat) (sl : Sl) (rest : List Instr) (hp : (s.thr t).prog = .use sl :: rest) :
    (s.own ((s.thr t).tbl sl.h)).owner = some t ∧ s.own ((s.thr t).tbl sl.h) ≠ .pooled := by
  have ha := (ownership_inv progs hwf h).1 t
  simp only [accessOk, hp, Instr.handles, List.all_cons, List.all_nil, Bool.and_true, beq_iff_eq] at ha
  exact ⟨ha, fun e => by rw [e] at ha; cases ha⟩

/-- executable schedules produce reachable states (the driver's `runSched` is covered) -/
theorem runSched_reach (progs : Nat → List Instr) {s : State} (h : Reach progs s) (sched : List (Nat × Option Nat)) :
    Reach progs (runSched s sched) := by
  induction sched generalizing s with
  | nil => exact h
  | cons x rest ih =>
    obtain ⟨t, c⟩ := x
    simp only [runSched]
    cases hs : step s t c with
    | none => exact ih h
    | some s' => exact ih (Reach.step t c h hs)

theorem runSched_reach' (progs : Nat → List Instr) (sched : List (Nat × Option Nat)) :
    Reach progs (runSched (init progs) sched) := runSched_reach progs Reach.init sched

/-- **Independence.** Whatever the other pipelines do and whatever the pool hands out, the part
of `t`'s program executed so far has observed exactly what it observes when run alone. -/
theorem pipelines_independent (progs : Nat → List Instr) (hwf : ∀ t, wf (progs t) = true) {s : State}
    (h : Reach progs s) (t : Nat) :
    ∃ done, progs t = done ++ (s.thr t).prog ∧ (s.thr t).log = soloLog done := by
  obtain ⟨done, hd, S⟩ := sim_reach hwf h t
  exact ⟨done, hd, S.log⟩

/-- non-vacuity of the hypotheses of `ownership_inv` / `pipelines_independent`: a system of two
real Decrypt pipelines is `wf`, and a state in which both have finished after sharing one pooled
buffer is reachable (see also the evaluated `example` next to `alias_witness`) -/
example : (∀ t, wf (witnessProgs retFixed t) = true) ∧ Reach (witnessProgs retFixed) (witnessFinal retFixed) ∧
    (progOf retFixed docA).length = 41 := by
  refine ⟨?_, runSched_reach' _ _, by decide +kernel⟩
  intro t
  match t with
  | 0 => exact decrypt_fixed_wf segmentSize [docA] (bodyOf 0 docA)
  | 1 => exact decrypt_fixed_wf segmentSize [docB] (bodyOf 0 docB)
  | _ + 2 => rfl

/-- a finished pipeline has the result of its run alone -/
theorem pipelines_independent_final (progs : Nat → List Instr) (hwf : ∀ t, wf (progs t) = true) {s : State}
    (h : Reach progs s) (t : Nat) (hfin : (s.thr t).prog = []) : (s.thr t).log = soloLog (progs t) := by
  obtain ⟨done, hd, hl⟩ := pipelines_independent progs hwf h t
  rw [hfin, List.append_nil] at hd
  rw [hl, hd]

/-- two systems that agree on `t`'s program give `t` the same result -/
theorem pipelines_independent_of_others (progs progs' : Nat → List Instr)
    (hwf : ∀ t, wf (progs t) = true) (hwf' : ∀ t, wf (progs' t) = true) (t : Nat) (he : progs t = progs' t)
    {s s' : State} (h : Reach progs s) (h' : Reach progs' s')
    (hfin : (s.thr t).prog = []) (hfin' : (s'.thr t).prog = []) : (s.thr t).log = (s'.thr t).log := by
  rw [pipelines_independent_final progs hwf h t hfin, pipelines_independent_final progs' hwf' h' t hfin', he]

/-! ## the enc pipelines -/

/-- the regenerated fact the positive theorems rest on: `readHeader` returns copies -/
theorem header_results_are_copies : Kit.Generated.C08.headerRet = retFixed := by decide

/-- every function of scheme.go that Gets from `BufPool` Puts by a `defer` (all paths) with no
statement touching the buffer scheduled after it (no defer registered before it, nothing behind it
in its closure), never Puts otherwise, returns no slice of the buffer and
stores none where it outlives the call; `Decrypt` uses the results in the order the model assumes -/
theorem pool_discipline_facts :
    (Kit.Generated.C08.poolUses.all fun u =>
      u.putDeferred && u.putExplicit == 0 && u.afterPut.isEmpty && u.retains.isEmpty && !u.results.contains .alias) = true ∧
    Kit.Generated.C08.poolUses.map (·.func) = ["processSegments", "readHeader"] ∧
    Kit.Generated.C08.decryptUses =
      ["verifhook.Point()", "json.Unmarshal(manifest)", "opts.UnwrapKeyFn()",
       "fk.VerifyHeaderSignature(manifest,mac)", "processSegments()"] := by decide

/-- **Decrypt / Encrypt→Decrypt programs keep the discipline**, for every document, every way
the reader chunks it, every body — with the `readHeader` the source has now. -/
theorem enc_pipelines_wf (B : Nat) (reads : List (List Byte)) (body plain : List Byte) :
    wf (decryptProg Kit.Generated.C08.headerRet B 0 reads body) = true ∧
    wf (encryptProg 0 plain ++ decryptProg Kit.Generated.C08.headerRet B 1 reads body) = true ∧
    wf (encryptProg 0 plain) = true := by
  rw [header_results_are_copies]
  exact ⟨decrypt_fixed_wf B reads body, pipeline_fixed_wf B reads body plain, encrypt_wf plain⟩

theorem pipeSpec_wf (p : PipeSpec) : wf (p.prog Kit.Generated.C08.headerRet) = true := by
  cases p with
  | decrypt reads body => exact (enc_pipelines_wf segmentSize reads body []).1
  | full plain reads body => exact (enc_pipelines_wf segmentSize reads body plain).2.1
  | encrypt plain => exact (enc_pipelines_wf segmentSize [] [] plain).2.2
  | idle => rfl

/-- **Any number of enc pipelines, any documents, any interleaving, any pool behaviour**: all
accesses are owned and every finished pipeline has the result of its run alone. -/
theorem enc_pipelines_independent (pipes : Nat → PipeSpec) {s : State} (h : Reach (fun t => (pipes t).prog Kit.Generated.C08.headerRet) s) :
    (∀ t, accessOk s t = true) ∧
    (∀ t, (s.thr t).prog = [] → (s.thr t).log = soloLog ((pipes t).prog Kit.Generated.C08.headerRet)) :=
  ⟨(ownership_inv _ (fun t => pipeSpec_wf (pipes t)) h).1,
   fun t hf => pipelines_independent_final _ (fun t => pipeSpec_wf (pipes t)) h t hf⟩

/-- **`Put` is the last access.** In a program that keeps the discipline, no instruction after
`put h` mentions `h` — a deferred statement that touches the buffer and runs after the deferred Put
breaks `wf` (and with it every hypothesis of the theorems above). -/
theorem put_is_last_access (g : Ghost) (ok : GhostOk g) (h : Nat) (rest : List Instr)
    (hw : wfFrom g (.put h :: rest) = true) : ∀ i ∈ rest, h ∉ i.handles := by
  obtain ⟨g', hg, hw'⟩ := wfFrom_cons hw
  have hs := gstep_shape hg
  cases hs with
  | put _ hm =>
    exact no_mention_once_dropped (gshape_ok (GShape.put h hm) ok) (ok.lt h hm)
      (fun hm' => (ok.nodup.mem_erase_iff.mp hm').1 rfl) rest hw'

/-- **Witness for a clear that runs after the Put** (`defer clear(*buf)` registered before
`defer BufPool.Put(buf)` in `processSegments`): `wf` fails; stream 1 takes the buffer stream 0 has
Put and writes `[9,9]`; stream 0's late clear wipes it (an access to an array owned by stream 1);
stream 1 reads back `[0,0]` — alone it reads `[9,9]`. -/
theorem use_after_put_witness :
    wf (afterPutWitnessProgs 0) = false ∧ wf (processSegmentsProg true 0 segmentSize [1, 2]) = true ∧
    (let s := runSched (init afterPutWitnessProgs) (afterPutWitnessSched.take 8)
     s.own ((s.thr 0).tbl 0) = .owned 1 ∧ accessOk s 0 = false) ∧
    ((runSched (init afterPutWitnessProgs) afterPutWitnessSched).thr 1).log = [[0, 0]] ∧
    soloLog (afterPutWitnessProgs 1) = [[9, 9]] := by decide +kernel

/-! ### the reader `readHeader` pushes back: nobody reads the header buffer after its Put -/

/-- the regenerated fact: the bytes read past the header are pushed back as a fresh array filled
by `copy` — the reader that outlives `readHeader` and `Decrypt` keeps no slice of the pooled buffer -/
theorem surplus_is_copy : Kit.Generated.C08.surplusRet = .copy := by decide

/-- **Decrypt including the goroutine's read of the pushed-back bytes keeps the discipline**, for
every buffer size, every document, every chunking, every body — with the `readHeader` the source
has now (`headerRet`, `surplusRet` regenerated). -/
theorem enc_surplus_wf (B : Nat) (reads : List (List Byte)) (body plain : List Byte) :
    wf (decryptProgS Kit.Generated.C08.surplusRet Kit.Generated.C08.headerRet B 0 reads body) = true ∧
    wf (encryptProg 0 plain ++ decryptProgS Kit.Generated.C08.surplusRet Kit.Generated.C08.headerRet B 1 reads body) = true := by
  rw [header_results_are_copies, surplus_is_copy]
  exact ⟨decryptS_fixed_wf B reads body, pipelineS_fixed_wf B reads body plain⟩

/-- **No reader of the header buffer is alive after its Put**: in `Decrypt` (goroutine included),
whatever follows a `put h` — the Put of `readHeader`'s buffer in particular — does not go through
`h` any more; the pushed-back reader reads from an array of its own. -/
theorem no_reader_after_put (B : Nat) (reads : List (List Byte)) (body : List Byte) (pre rest : List Instr) (h : Nat)
    (hp : decryptProgS Kit.Generated.C08.surplusRet Kit.Generated.C08.headerRet B 0 reads body = pre ++ .put h :: rest) :
    ∀ i ∈ rest, h ∉ i.handles :=
  nothing_after_put (enc_surplus_wf B reads body []).1 hp

/-- **Any number of streams, opened and drained in any order** (any interleaving of the threads,
any pool behaviour — "all opened first, read later" is one of them): all accesses are owned and
every finished stream has observed exactly what it observes alone, the pushed-back bytes included. -/
theorem enc_open_streams_independent (docs : Nat → Option (List (List Byte) × List Byte)) {s : State}
    (h : Reach (fun t => match docs t with
      | some (reads, body) => decryptProgS Kit.Generated.C08.surplusRet Kit.Generated.C08.headerRet segmentSize 0 reads body
      | none => []) s) :
    (∀ t, accessOk s t = true) ∧
    (∀ t, (s.thr t).prog = [] → (s.thr t).log = soloLog (match docs t with
      | some (reads, body) => decryptProgS Kit.Generated.C08.surplusRet Kit.Generated.C08.headerRet segmentSize 0 reads body
      | none => [])) := by
  have hwf : ∀ t, wf ((fun t => match docs t with
      | some (reads, body) => decryptProgS Kit.Generated.C08.surplusRet Kit.Generated.C08.headerRet segmentSize 0 reads body
      | none => []) t) = true := by
    intro t
    simp only
    cases docs t with
    | none => rfl
    | some p => obtain ⟨reads, body⟩ := p; exact (enc_surplus_wf segmentSize reads body []).1
  exact ⟨(ownership_inv _ hwf h).1, fun t hf => pipelines_independent_final _ hwf h t hf⟩

/-- non-vacuity: two real documents with bytes behind the header, both opened before either is
read, the second stream handed the first one's header buffer (and its goroutine, which runs first,
that buffer again), drained in either order: reachable, finished, 8 arrays instead of 10, logs = solo; and the executable schedule of the
driver (`openAllThenDrain`) only produces reachable states -/
example : (∀ ord ∈ [[0, 1], [1, 0]],
      let s := openAllThenDrain .copy retFixed [(0, docA), (0, docB)] ord
      s.nArr = 8 ∧ (s.thr 0).prog = [] ∧ (s.thr 1).prog = [] ∧
      (s.thr 0).log = soloLog (progOfS .copy retFixed 0 docA) ∧ (s.thr 1).log = soloLog (progOfS .copy retFixed 0 docB)) ∧
    (progOfS .copy retFixed 0 docA).length = 43 ∧ openLen retFixed 0 docA = 36 := by decide +kernel

/-- **Witness for a pushed-back reader over the pooled buffer** (`bytes.NewReader(buf[lastNewline:n])`
instead of the copy — with the Put in `readHeader` or deferred to the return of `Decrypt`, the
goroutine's first read comes after it either way): the discipline is broken (`wf` fails); open
stream 0 (`…{}\nM\n` + `[1,2]`), open stream 1 (`…[]\nN\n` + `[9]`) — the pool hands it stream 0's
header buffer, it reads its document into it —, then drain stream 0: its goroutine reads `[9,2]`
where alone it reads `[1,2]` — stream 1's byte inside stream 0's first segment. Stream 1 itself is
unaffected. If stream 0's goroutine is handed a fresh buffer instead, the array it reads the
surplus from is at that moment IN THE POOL (`accessOk` fails). -/
theorem surplus_alias_witness :
    wf (progOfS .alias retFixed 0 docA) = false ∧ wf (progOfS .copy retFixed 0 docA) = true ∧
    (let s := openAllThenDrain .alias retFixed [(0, docA), (0, docB)] [0, 1]
     (s.thr 0).prog = [] ∧ (s.thr 1).prog = [] ∧
     (s.thr 0).log ≠ soloLog (progOfS .alias retFixed 0 docA) ∧
     (s.thr 0).log.reverse.take 3 = [[], [1, 2], [9, 2]] ∧
     (soloLog (progOfS .alias retFixed 0 docA)).reverse.take 3 = [[], [1, 2], [1, 2]] ∧
     (s.thr 1).log = soloLog (progOfS .alias retFixed 0 docB)) ∧
    (let s0 := init (openProgs .alias retFixed [(0, docA), (0, docB)])
     let s1 := runLifo (runLifo s0 0 (openLen retFixed 0 docA)) 1 (openLen retFixed 0 docB)
     let s := runSched s1 [(0, none)]
     (s.thr 0).prog.head? = some (.use ⟨0, 20, 2⟩) ∧ s.own ((s.thr 0).tbl 0) = .pooled ∧ accessOk s 0 = false) := by
  decide +kernel

/-! ### non-vacuity and the witness for the code as found -/

/-- the hypotheses of the positive theorems are satisfiable by real pipelines that really share a
buffer: with the repaired `readHeader`, in the very schedule of the witness below, T2 is handed
T1's header buffer, both finish, and both logs are those of the runs alone -/
example : (witnessFinal retFixed).nArr = 7 ∧ ((witnessFinal retFixed).thr 0).prog = [] ∧
    ((witnessFinal retFixed).thr 1).prog = [] ∧
    ((witnessFinal retFixed).thr 0).log = soloLog (progOf retFixed docA) ∧
    ((witnessFinal retFixed).thr 0).log.length = 26 := by decide +kernel

/-- **Witness for the code as found** (`readHeader` returning sub-slices of the pooled buffer and
putting it back): T1 `readHeader` returns → T2 `Get` obtains the same array → T2 reads its document
into it → T1 unmarshals and MACs `manifest`/`mac`: T1 observes T2's bytes (`[]` and `N` instead
of `{}` and `M`), i.e. its result depends on T2's document; the discipline is broken (`wf` fails)
and in the state after 28 steps, where T1 is about to unmarshal `manifest = buf[15:17]`, the array
behind it is owned by T2 (which is about to read its own document into it). -/
theorem alias_witness :
    wf (progOf retPreFix docA) = false ∧
    ((witnessFinal retPreFix).thr 0).prog = [] ∧
    ((witnessFinal retPreFix).thr 0).log ≠ soloLog (progOf retPreFix docA) ∧
    ((witnessFinal retPreFix).thr 0).log.reverse.take 4 = [[], [1, 2], [78], [91, 93]] ∧
    (soloLog (progOf retPreFix docA)).reverse.take 4 = [[], [1, 2], [77], [123, 125]] ∧
    (let s := runSched (init (witnessProgs retPreFix)) ((witnessSched retPreFix).take 28)
     (s.thr 0).prog.head? = some (.use ⟨0, 15, 2⟩) ∧ s.own ((s.thr 0).tbl 0) = .owned 1 ∧ accessOk s 0 = false) := by
  decide +kernel

/-! ## the logger registry -/

/-- the lock discipline extracted from logger.go is the one the registry model assumes -/
theorem logger_lock_facts_match : regFactsMatch Kit.Generated.C08.loggerMethods = true := by decide

/-- the snapshot (`getLoggers`, the only operation under the READ lock) does not change the registry -/
theorem logger_read_ops_readonly (op : RegOp) (h : (regExpectedShapes.lookup (regMethod op)) = some .read)
    (s : List Nat) : (regApply s op).1 = s := by
  cases op with
  | newLogger n => simp [regMethod, regExpectedShapes] at h
  | snapshot => rfl

/-- **The registry is linearizable**: every operation is one critical section of the one RWMutex
(get-or-create under the write lock, snapshot copy under the read lock), so every concurrent
history — any number of goroutines — is a history of the atomic registry.  The instance of C14's
`atomic_sections_linearizable` for the registry, proved here from the same generic simulation lemma
(`Lemmas/Containers.run_sim`) so that this module does not depend on the rest of C14's theorems. -/
theorem logger_registry_linearizable {tr : List (ILabel RegOp RegRet)} {c : ICfg (List Nat) RegRet RegOp}
    (h : Run (Impl.single regSpec).Step ((Impl.single regSpec).cfg0 regSpec.init) tr c) :
    Linearizable regSpec (tr.filterMap ILabel.hist) := by
  -- every operation is exactly one critical section performing the specified effect
  have hA : (Impl.single regSpec).Atomic regSpec :=
    { start_op := fun _ => rfl
      commit := fun k s s' r h => by obtain ⟨r', hr, he⟩ := h; cases hr; exact he
      defer := fun k s s' k' h => by obtain ⟨r', hr, _⟩ := h; cases hr }
  -- the generic simulation (the content of C14's `atomic_sections_linearizable`)
  exact ⟨tr.filterMap ILabel.toSpec, absCfg (Impl.single regSpec) c,
    by simpa [absCfg, Impl.cfg0, Spec.cfg0, absStat] using run_sim (Impl.single regSpec) regSpec hA h,
    hist_toSpec tr⟩

/-- in the atomic registry, asking twice for a name yields the same logger, and different names
never share one (what `NewLogger` callers rely on) -/
theorem registry_get_or_create (s : List Nat) (n : Nat) :
    (regApply (regApply s (.newLogger n)).1 (.newLogger n)).2 = (regApply s (.newLogger n)).2 ∧
    (regApply (regApply s (.newLogger n)).1 (.newLogger n)).1 = (regApply s (.newLogger n)).1 := by
  simp only [regApply]
  cases hi : regIndex s n with
  | some i => simp [hi]
  | none =>
    have : ∀ (l : List Nat), regIndex l n = none → regIndex (l ++ [n]) n = some l.length := by
      intro l
      induction l with
      | nil => simp [regIndex]
      | cons x xs ih =>
        intro h
        simp only [regIndex] at h
        by_cases e : x = n
        · simp [e] at h
        · simp only [e, if_false, Option.map_eq_none_iff] at h
          simp [regIndex, e, ih h]
    simp [this s hi]

/-- non-vacuity: two goroutines ask for the same name, a third takes a snapshot in between -/
example : ∃ c, Run (Impl.single regSpec).Step ((Impl.single regSpec).cfg0 regSpec.init)
    [.inv 0 (.newLogger 7), .inv 1 (.newLogger 7), .commit 1 (.newLogger 7) (.id 0), .inv 2 .snapshot,
     .commit 2 .snapshot (.names [7]), .commit 0 (.newLogger 7) (.id 0)] c := by
  refine ⟨_, .cons (.inv rfl) (.cons (.inv rfl) (.cons (.commit (k := RegOp.newLogger 7) rfl ⟨_, rfl, rfl⟩)
    (.cons (.inv rfl) (.cons (.commit (k := RegOp.snapshot) rfl ⟨_, rfl, rfl⟩)
    (.cons (.commit (k := RegOp.newLogger 7) rfl ⟨_, rfl, rfl⟩) (.nil _))))))⟩

/-! ## package-level variables that are only read -/

/-- a variable nobody assigns keeps its initial value through every sequence of operations, so
every reader copies the same value -/
theorem shared_var_immutable {α : Type} (v : SharedVar α) (hw : v.writes = []) (ops : List (VarOp α)) (v' : SharedVar α)
    (h : varRun v ops = some v') : v' = v := by
  induction ops generalizing v with
  | nil => simp [varRun] at h; exact h.symm
  | cons op rest ih =>
    simp only [varRun] at h
    cases op with
    | read => simp only [varStep] at h; exact ih v hw h
    | assign site x => simp [varStep, hw] at h

/-- **`cron.standardParser` is immutable**: the source contains no assignment to it, none through
it, its address is never taken, every `Parser` method has a value receiver and every field of
`Parser` is of value type (factgen aborts on a pointer/slice/map/… field, which all copies of the
value would share) — so the parser value every `ParseStandard` call copies is the initial one.
This says nothing yet about the OTHER package-level state a parse reads (`places`, `defaults`, the
`bounds` tables `seconds … dow` with their name maps): that is `package_vars_classified` /
`unwritten_vars_constant` below. -/
theorem standard_parser_immutable :
    Kit.Generated.C08.standardParserWrites = [] ∧ Kit.Generated.C08.parserValueReceivers = true ∧
    Kit.Generated.C08.parserValueFields = ["options"] ∧
    ∀ {α : Type} (p0 : α) (ops : List (VarOp α)) (v' : SharedVar α),
      varRun ⟨p0, Kit.Generated.C08.standardParserWrites⟩ ops = some v' → v'.val = p0 := by
  refine ⟨by decide, by decide, by decide, ?_⟩
  intro α p0 ops v' h
  rw [shared_var_immutable ⟨p0, Kit.Generated.C08.standardParserWrites⟩ rfl ops v' h]

/-- `cron.DefaultLogger` is assigned only by its declaration -/
theorem default_logger_immutable :
    Kit.Generated.C08.defaultLoggerWrites = [] ∧
    ∀ {α : Type} (l0 : α) (ops : List (VarOp α)) (v' : SharedVar α),
      varRun ⟨l0, Kit.Generated.C08.defaultLoggerWrites⟩ ops = some v' → v'.val = l0 := by
  refine ⟨by decide, ?_⟩
  intro α l0 ops v' h
  rw [shared_var_immutable ⟨l0, Kit.Generated.C08.defaultLoggerWrites⟩ rfl ops v' h]

/-- `aeskw.defaultIV` (a package-level byte slice) is only ever read: source of `copy`, operand
of a constant-time comparison -/
theorem aeskw_default_iv_immutable :
    Kit.Generated.C08.aeskwDefaultIVWrites = [] ∧
    ∀ (iv : List Byte) (ops : List (VarOp (List Byte))) (v' : SharedVar (List Byte)),
      varRun ⟨iv, Kit.Generated.C08.aeskwDefaultIVWrites⟩ ops = some v' → v'.val = iv := by
  refine ⟨by decide, ?_⟩
  intro iv ops v' h
  rw [shared_var_immutable ⟨iv, Kit.Generated.C08.aeskwDefaultIVWrites⟩ rfl ops v' h]

/-! ### every package-level variable of the anchored packages -/

/-- **Inventory.** Every package-level `var` of schemes/enc/v1, byteslicepool (none), logger, cron,
crypto, crypto/aeskw, crypto/padding, crypto/aescbcaead (none) — regenerated from the source with
its write sites — falls in exactly one class, and it is the class listed here:
* `immutable`: no write site in its package (assignment to it / its elements / its fields,
  inc/dec, address taken, delete/clear/copy-into/append-to, pointer-receiver call on a struct
  value, write through an alias or through a parameter of a callee that receives it — followed
  through `Parse → field → getField → getRange → parseIntOrName` for the `bounds` tables —, a
  returned reference);
* `config`: the same, but exported and meant to be set by clients (`logger.DaprVersion`,
  `cron.DefaultLogger`, `cron.DiscardLogger`): the property ASSUMES client code assigns exported
  variables (these, the sentinel errors, `enc.BufPool`) only before operations start;
* `guarded`: `logger.globalLoggers`, every function touching it first takes `globalLoggersLock`
  (`logger_lock_facts_match`, `logger_registry_linearizable`);  `lock`: that RWMutex;
* `pool`: `enc.BufPool`, used only through Get/Put under the ownership discipline
  (`pool_discipline_facts`, `enc_pipelines_independent`).
A new variable, a new write site or a changed kind changes the regenerated list and breaks this
`decide`.  Not tracked: what pointer/interface values point to — `defaultOpLogger` points to an
empty struct (kind checked), `DefaultLogger`/`DiscardLogger` wrap a standard-library `*log.Logger`. -/
theorem package_vars_classified :
    (Kit.Generated.C08.pkgVars.map fun v => (v.qname, classify v)) =
    [("schemes/enc/v1.ErrDecryptionKeyMissing", some .immutable), ("schemes/enc/v1.ErrDecryptionSignature", some .immutable),
     ("schemes/enc/v1.ErrDecryptionFailed", some .immutable), ("schemes/enc/v1.BufPool", some .pool),
     ("logger.DaprVersion", some .config), ("logger.logContextKey", some .immutable),
     ("logger.globalLoggers", some .guarded), ("logger.globalLoggersLock", some .lock),
     ("logger.defaultOpLogger", some .immutable),
     ("cron.DefaultLogger", some .config), ("cron.DiscardLogger", some .config),
     ("cron.places", some .immutable), ("cron.defaults", some .immutable), ("cron.standardParser", some .immutable),
     ("cron.seconds", some .immutable), ("cron.minutes", some .immutable), ("cron.hours", some .immutable),
     ("cron.dom", some .immutable), ("cron.months", some .immutable), ("cron.dow", some .immutable),
     ("crypto.ErrUnsupportedAlgorithm", some .immutable), ("crypto.ErrKeyTypeMismatch", some .immutable),
     ("crypto.ErrInvalidNonce", some .immutable), ("crypto.ErrInvalidTag", some .immutable),
     ("crypto.ErrInvalidPlaintextLength", some .immutable), ("crypto.ErrInvalidCiphertextLength", some .immutable),
     ("crypto/aeskw.defaultIV", some .immutable),
     ("crypto/padding.ErrInvalidPKCS7BlockSize", some .immutable), ("crypto/padding.ErrInvalidPKCS7Padding", some .immutable)] ∧
    (Kit.Generated.C08.pkgVars.filter fun v => v.guardedBy != "").map (fun v => (v.name, v.guardedBy)) =
      [("globalLoggers", "globalLoggersLock")] := by decide

/-- a variable classified `immutable` or `config` has no write site, hence (`shared_var_immutable`)
every sequence of the operations the source can perform on it leaves its initial value in place:
all readers — every parse reading `places`/`defaults`/`months`…, every logger reading
`DaprVersion` — see the same value whatever else runs in the package -/
theorem unwritten_vars_constant (v : PkgVar) (hc : classify v = some .immutable ∨ classify v = some .config)
    {α : Type} (x0 : α) (ops : List (VarOp α)) (v' : SharedVar α)
    (h : varRun ⟨x0, v.writes⟩ ops = some v') : v.writes = [] ∧ v'.val = x0 := by
  have hw : v.writes = [] := by
    unfold classify at hc
    by_cases h1 : (v.kind == "sync.Pool") = true
    · simp only [h1, if_true] at hc
      split at hc <;> simp at hc
    · simp only [h1] at hc
      by_cases h2 : (v.kind == "lock") = true
      · simp only [h2, if_true] at hc
        split at hc <;> simp at hc
      · simp only [h2] at hc
        by_cases h3 : (v.guardedBy != "") = true
        · simp [h3] at hc
        · simp only [h3] at hc
          by_cases h4 : (!v.writes.isEmpty) = true
          · simp [h4] at hc
          · simpa using h4
  refine ⟨hw, ?_⟩
  rw [shared_var_immutable ⟨x0, v.writes⟩ hw ops v' h]

/-- non-vacuity: reads are possible; a listed assignment WOULD change the value -/
example : varRun (⟨3, []⟩ : SharedVar Nat) [.read, .read] = some ⟨3, []⟩ ∧
    varRun (⟨3, ["x.go:1"]⟩ : SharedVar Nat) [.read, .assign "x.go:1" 4] = some ⟨4, ["x.go:1"]⟩ := ⟨rfl, by simp [varRun, varStep]⟩

/-- **The crypto packages keep no object with internal state at package level.** Of the
regenerated inventory, every variable of crypto, crypto/aeskw, crypto/padding, crypto/aescbcaead is
an error sentinel (`errors.New`, compared by identity, never written) — or the byte slice
`aeskw.defaultIV`, which has no write site (`aeskw_default_iv_immutable`); no method is called on
any of them and none needs a lock. The kind matters, not only the absence of writes: a package-level
`map`/interface/pointer/struct variable may hold an object whose methods change it (a `hash.Hash`,
a `cipher.BlockMode`, a `bufio.Reader`, a `*big.Int` scratch value) while the variable itself is
never assigned — `classify` would call it `immutable`, and two calls that overlap in time would
then work on one digest state. With this table, what a crypto entry point mutates is reachable
only from its own arguments and its own allocations (Go scoping; the packages use neither `unsafe`
nor package-level closures — a `func`-typed variable is an unknown kind, on which factgen aborts).
That overlapping calls on independent keys and messages then give their solo results is what the
harness family `crypto-overlap` observes on the real code for every algorithm. -/
theorem crypto_package_vars_stateless :
    ∀ v ∈ Kit.Generated.C08.pkgVars,
      v.pkg ∈ ["crypto", "crypto/aeskw", "crypto/padding", "crypto/aescbcaead"] →
      (v.kind = "error-value" ∨ (v.kind = "slice" ∧ v.qname = "crypto/aeskw.defaultIV")) ∧
      v.writes = [] ∧ v.calls = [] ∧ v.guardedBy = "" ∧ classify v = some .immutable := by decide

/-- non-vacuity: nine variables are concerned; and a never-assigned package-level table of digest
objects — `var oaepHashers = map[crypto.Hash]hash.Hash{…}` as the inventory would list it — passes
`classify` as `immutable` but not the condition above -/
example : (Kit.Generated.C08.pkgVars.filter fun v =>
      v.pkg ∈ ["crypto", "crypto/aeskw", "crypto/padding", "crypto/aescbcaead"]).length = 9 ∧
    (let v : PkgVar := { pkg := "crypto", name := "oaepHashers", exported := false, kind := "map",
                         writes := [], calls := [], guardedBy := "" }
     classify v = some .immutable ∧ ¬ (v.kind = "error-value" ∨ (v.kind = "slice" ∧ v.qname = "crypto/aeskw.defaultIV"))) := by
  decide

/-! ## byteslicepool -/

/-- **A recycled slice is indistinguishable from a fresh one**: with `Get` clearing up to the
capacity (the regenerated fact), `Get` then `Resize` to any size returns the same elements
whether the slice comes out of the pool — whatever the previous owner left in it, whatever length
it was put back with — or is newly allocated with that capacity. -/
theorem bsp_recycled_equals_fresh (p : PSlice) (size : Nat) :
    (bspResize (bspGet Kit.Generated.C08.bspZeroTo p) size).elems = (bspResize (bspFresh p.cells.length) size).elems ∧
    (bspGet Kit.Generated.C08.bspZeroTo p).elems = [] := by
  have hz : Kit.Generated.C08.bspZeroTo = .cap := by decide
  rw [hz]
  simp [bspGet, bspFresh, bspResize, PSlice.elems]

/-- non-vacuity: a dirty recycled slice put back with length 1 -/
example : (bspResize (bspGet .cap ⟨[238, 238, 238, 238], 1⟩) 3).elems = [0, 0, 0] ∧
    (bspResize (bspGet .cap ⟨[238, 238, 238, 238], 1⟩) 9).elems.length = 9 := by decide

/-- the code as found (`Get` clearing only `[0:len)`): caller 1 leaves 0xEE in a 4-cell slice and
puts `bs[:0]`; caller 2's `Get` + `Resize(bs, 2)` returns caller 1's bytes, a fresh slice zeros -/
theorem bsp_stale_witness :
    (bspResize (bspGet .len ⟨[238, 238, 238, 238], 0⟩) 2).elems = [238, 238] ∧
    (bspResize (bspFresh 4) 2).elems = [0, 0] := by decide

/-! ### `Resize` never transfers ownership of its argument -/

/-- T1: in byteslicepool.go only `Put` hands a slice to the pool and only `Get` takes one out —
in particular `Resize` does not pool its argument -/
theorem bsp_only_put_pools :
    Kit.Generated.C08.bspPutCallers = ["Put"] ∧ Kit.Generated.C08.bspGetCallers = ["Get"] ∧
    Kit.Generated.C08.bspPutCallers.contains "Resize" = false := by decide

/-- **`Resize` keeps ownership where it was.** Running `Resize` (as the source has it: no `Put`)
from any discipline state in which the caller holds `orig` with `len` written cells: the program
keeps the discipline, everything the caller held — `orig` included — is still held with at least
the same written prefix, and when it grows the caller additionally holds the new array with the
copy.  (Within the capacity nothing happens at all.) -/
theorem bsp_resize_keeps_ownership (g : Ghost) (ok : GhostOk g) (h len : Nat) (grow : Bool) (H : Holds g h len) :
    ∃ g', gRun g (bspResizeProg (Kit.Generated.C08.bspPutCallers.contains "Resize") h g.nh len grow) = some g' ∧
      (∀ x w, Holds g x w → Holds g' x w) ∧ Holds g' h len ∧
      (grow = true → Holds g' g.nh len) := by
  rw [bsp_only_put_pools.2.2]
  obtain ⟨g', hg', _, p, hgrow, _⟩ := bspResize_ok ok h len grow H
  exact ⟨g', hg', p, p _ _ H, fun e => (hgrow e).2⟩

/-- hence callers of the pool — Get, write, Resize (growing or not), keep using BOTH the original
and the result, Put both — keep the discipline, for all data -/
theorem bsp_callers_wf (vals more : List Byte) (grow : Bool) :
    wf (bspCallerProg (Kit.Generated.C08.bspPutCallers.contains "Resize") vals grow more) = true ∧
    wf (bspUserProg vals) = true := by
  rw [bsp_only_put_pools.2.2]
  exact ⟨bspCaller_wf vals more grow, bspUser_wf vals⟩

/-- so any number of them, interleaved in any way with any pool behaviour, never share a live
array and read back exactly what they read when alone -/
theorem bsp_callers_independent (spec : Nat → Option (List Byte × List Byte × Bool)) {s : State}
    (h : Reach (fun t => match spec t with
      | some (vals, more, grow) => bspCallerProg (Kit.Generated.C08.bspPutCallers.contains "Resize") vals grow more
      | none => []) s) :
    (∀ t, accessOk s t = true) ∧
    (∀ t u x y, x ∈ (s.thr t).g.live → y ∈ (s.thr u).g.live → (s.thr t).tbl x = (s.thr u).tbl y → t = u ∧ x = y) ∧
    (∀ t, (s.thr t).prog = [] → (s.thr t).log = soloLog (match spec t with
      | some (vals, more, grow) => bspCallerProg (Kit.Generated.C08.bspPutCallers.contains "Resize") vals grow more
      | none => [])) := by
  have hwf : ∀ t, wf ((fun t => match spec t with
      | some (vals, more, grow) => bspCallerProg (Kit.Generated.C08.bspPutCallers.contains "Resize") vals grow more
      | none => []) t) = true := by
    intro t
    simp only
    cases spec t with
    | none => rfl
    | some p => obtain ⟨vals, more, grow⟩ := p; exact (bsp_callers_wf vals more grow).1
  have I := ownership_inv _ hwf h
  exact ⟨I.1, I.2.2.1, fun t hf => pipelines_independent_final _ hwf h t hf⟩

/-- **Witness for a `Resize` that hands its argument to the pool** (the caller still holds it and
Puts it again): the discipline is broken; after caller 0 the array is in the pool twice; callers 1
and 2 each `Get` it and both hold it live; caller 1 reads back caller 2's bytes `[67,67]` instead
of its own `[66,66]`.  Beside it the same callers with the `Resize` of the source: the second
hand-out of array 0 is impossible, caller 2 gets another array, caller 1 reads its own bytes. -/
theorem bsp_resize_repool_witness :
    wf (bspCallerProg true [65, 65] true [65]) = false ∧
    (let s := runSched (init (bspWitnessProgs true)) (bspWitnessSched (some 0))
     (s.thr 1).tbl 0 = (s.thr 2).tbl 0 ∧ 0 ∈ (s.thr 1).g.live ∧ 0 ∈ (s.thr 2).g.live ∧
     (s.thr 1).log = [[67, 67]] ∧ soloLog ((bspWitnessProgs true 1).take 4) = [[66, 66]]) ∧
    (let s := runSched (init (bspWitnessProgs false)) (bspWitnessSched (some 0))
     (s.thr 1).tbl 0 ≠ (s.thr 2).tbl 0 ∧ (s.thr 1).log = [[66, 66]]) := by decide +kernel

end Kit.C08
