/-
C03 — the model is the code, second half: `PadPKCS7` as TRANSLATED from
/repo/crypto/padding/pkcs7_padding.go on this run (`KitModel/Generated/CodeC03.lean`, written by
`harness/cmd/go2lean`) computes exactly what the hand-written model `Kit.CryptoGlue.pad` computes, for
every block size (negative, 0, 1, ≥ 256 included) and every byte string whose padded length
`len(buf) + padLen` is still a Go `int` — so the theorems about `pad` (`Props/C03.lean`: `unpad_pad`,
`pad_len`, …) are theorems about the translated source text. (`Props/C03Code.lean` does the same for
`UnpadPKCS7`; its `enc` is reused here.)

The translation has no loop (no fuel): `bytes.Repeat(b, n)` is `List.flatten (List.replicate n.toNat b)`,
`make([]byte, k)` is `List.replicate k.toNat 0` behind a `0 ≤ k` check, `copy(out, buf)` is
`Kit.GoSem.fill`, `copy(out[bufLen:], padding)` is `Kit.GoSem.writeAt` behind a slice-bound check.

Ranges.
  * `padLen = size - bufLen % size`: for `2 ≤ size ≤ 255` it is in `[1, size] ⊆ [1, 255]` whatever
    `len(buf)` is (`pad_code_repeat_count_in_range`, no hypothesis on `buf`), so the real `bytes.Repeat`
    is never handed a negative count (its unmodelled panic is unreachable) and `byte(padLen)` loses
    nothing.
  * `bufLen + padLen` is the ONLY addition that can wrap. The exact condition for the function to be
    right is `len(buf) + (size - len(buf) % size) ≤ 2^63 - 1` for the size at hand
    (`pad_code_eq_model_exact`); when it fails (and `len(buf)` itself is a Go `int`) the sum wraps to a
    negative number and `make` panics — in the translation as in Go (`pad_code_panics_iff_wraps`; concrete
    witnesses `pad_code_wraps_at_max`, `pad_code_wraps_just_above_uniform`). The weakest bound on
    `len(buf)` alone that works for EVERY size is `len(buf) ≤ 2^63 - 1 - 233 = 9223372036854775574`
    (`pad_code_eq_model_uniform`): `max_{2 ≤ s ≤ 255} (2^63 - 1) % s = 232`, reached at `s = 241`, and
    a buffer one byte longer fails at size 241. The bound asked for, `len(buf) ≤ 2^63 - 1 - 256`, is a
    corollary (`pad_code_eq_model`).

Trusted here: the translator and `KitModel/Go/Sem.lean`.
-/
import KitProofs.Props.C03Code

namespace Kit.CryptoGlue.Code
open Kit Kit.CryptoGlue Kit.GoSem Kit.Generated.CodeC03

/-! ### The count handed to `bytes.Repeat`, and the shape of the translated function -/

/-- `padLen` of the translated `PadPKCS7`: the count handed to `bytes.Repeat` (and the byte repeated,
after `byte(·)`). -/
def padCount (buf : List UInt8) (size : Int) : Int :=
  wrapI64 (size - modI64 (lenI buf) size)

/-- The translated function, read with `padCount` named: `bytes.Repeat` (the `List.flatten
(List.replicate …)`) is reached exactly when `¬ (size ≤ 1 ∨ size ≥ 256)` (the `size = 0` check before
`%` can then not fire), and its count is `padCount buf size`. By `rfl`: this IS the generated
definition. -/
theorem pad_code_unfold (buf : List UInt8) (size : Int) :
    PadPKCS7 buf size =
      if (decide (size ≤ 1) || decide (size ≥ 256)) then
        .ok (([] : List UInt8), (some "ErrInvalidPKCS7BlockSize" : GoSem.Err))
      else if !(size != 0) then .panic "integer divide by zero: bufLen % size"
      else
        let padding : List UInt8 :=
          List.flatten (List.replicate (padCount buf size).toNat [byteOfInt (padCount buf size)])
        if !(decide (0 ≤ wrapI64 (lenI buf + padCount buf size))) then
          .panic "makeslice: len out of range: make([]byte, bufLen+padLen)"
        else
          let out : List UInt8 :=
            fill (List.replicate (wrapI64 (lenI buf + padCount buf size)).toNat (0 : UInt8)) buf
          if !(decide (0 ≤ lenI buf ∧ lenI buf ≤ lenI out ∧ lenI out ≤ lenI out)) then
            .panic "slice bounds out of range: out[bufLen:]"
          else .ok (writeAt out (lenI buf) (lenI out) padding, (none : GoSem.Err)) := rfl

/-- `padLen` for a valid block size, as a natural number: `size - len(buf) % size` — no wrap, `%` on
non-negative operands. No hypothesis on `buf`. -/
theorem padCount_eq (buf : List UInt8) (n : Nat) (h1 : 2 ≤ n) (h2 : n ≤ 255) :
    padCount buf (n : Int) = ((n - buf.length % n : Nat) : Int) := by
  have hm : buf.length % n < n := Nat.mod_lt _ (by omega)
  have hmod : modI64 (buf.length : Int) (n : Int) = ((buf.length % n : Nat) : Int) := by
    unfold modI64; rw [Int.tmod_eq_emod_of_nonneg (by omega)]; simp
  unfold padCount lenI
  rw [hmod, wrapI64_of_in (by unfold InI64; omega)]
  omega

/-- **The count handed to `bytes.Repeat` is always in `[1, 255]`** (indeed in `[1, size]`): whenever
the translated function gets past its size check — the only way to reach `bytes.Repeat`, see
`pad_code_unfold` — for EVERY byte string (no bound on its length needed). So the panic of the real
`bytes.Repeat` on a negative count, which the translation does not model, is unreachable. -/
theorem pad_code_repeat_count_in_range (buf : List UInt8) (size : Int)
    (hreach : ¬ (size ≤ 1 ∨ size ≥ 256)) :
    1 ≤ padCount buf size ∧ padCount buf size ≤ 255 ∧ padCount buf size ≤ size := by
  obtain ⟨n, hn⟩ : ∃ n : Nat, size = n := ⟨size.toNat, by omega⟩
  subst hn
  have hm : buf.length % n < n := Nat.mod_lt _ (by omega)
  rw [padCount_eq buf n (by omega) (by omega)]
  omega

/-- `byte(padLen)` loses nothing. -/
theorem byteOfInt_small (k : Nat) (hk : k < 256) : byteOfInt (k : Int) = UInt8.ofNat k := by
  unfold byteOfInt
  have : ((k : Int) % 256).toNat = k := by omega
  rw [this]

/-! ### The computation -/

/-- What the translated `PadPKCS7` computes for a valid block size when `bufLen + padLen` does not
wrap: `buf ‖ padLen × byte(padLen)`, built in a fresh zeroed buffer by the two `copy`s. -/
theorem pad_code_compute (buf : List UInt8) (n : Nat) (h1 : 2 ≤ n) (h2 : n ≤ 255)
    (hno : (buf.length : Int) + ((n - buf.length % n : Nat) : Int) ≤ 9223372036854775807) :
    PadPKCS7 buf (n : Int) =
      .ok (buf ++ List.replicate (n - buf.length % n) (UInt8.ofNat (n - buf.length % n)), none) := by
  have hm : buf.length % n < n := Nat.mod_lt _ (by omega)
  have hd : (decide ((n : Int) ≤ 1) || decide ((n : Int) ≥ 256)) = false := by simp; omega
  have hne : ((n : Int) != 0) = true := by simp; omega
  rw [pad_code_unfold, padCount_eq buf n h1 h2]
  generalize hk : n - buf.length % n = k at hno
  have hk255 : k < 256 := by omega
  have hw : wrapI64 (lenI buf + (k : Int)) = ((buf.length + k : Nat) : Int) := by
    unfold lenI
    rw [wrapI64_of_in (by unfold InI64; omega)]; simp
  have hge : decide ((0 : Int) ≤ ((buf.length + k : Nat) : Int)) = true := by simp; omega
  have hfill : fill (List.replicate (buf.length + k) (0 : UInt8)) buf = buf ++ List.replicate k 0 := by
    unfold fill
    have ht : buf.take (List.replicate (buf.length + k) (0 : UInt8)).length = buf := by
      rw [List.length_replicate]; exact List.take_of_length_le (by omega)
    have e : buf.length + k - buf.length = k := by omega
    rw [ht, List.drop_replicate, e]
  have hlen : lenI (buf ++ List.replicate k (0 : UInt8)) = ((buf.length + k : Nat) : Int) := by
    simp [lenI]
  have hbnd : decide (0 ≤ lenI buf ∧ lenI buf ≤ ((buf.length + k : Nat) : Int) ∧
      ((buf.length + k : Nat) : Int) ≤ ((buf.length + k : Nat) : Int)) = true := by
    simp [lenI]; omega
  have hwr : writeAt (buf ++ List.replicate k (0 : UInt8)) (lenI buf) ((buf.length + k : Nat) : Int)
      (List.replicate k (UInt8.ofNat k)) = buf ++ List.replicate k (UInt8.ofNat k) := by
    unfold writeAt lenI
    simp only [Int.toNat_natCast]
    have e1 : buf.length + k - buf.length = k := by omega
    rw [e1, List.take_left' rfl, List.take_of_length_le (by simp), List.length_replicate,
      List.drop_of_length_le (by simp), List.append_nil]
  simp only [hd, hne, Bool.not_true, Bool.false_eq_true, ↓reduceIte, hw, hge, Int.toNat_natCast,
    byteOfInt_small k hk255, List.flatten_replicate_singleton, hfill, hlen, hbnd, hwr]

/-- The model on a valid block size, in the shape of the translated function's result. -/
theorem enc_pad_model (buf : List UInt8) (n : Nat) (h1 : 2 ≤ n) (h2 : n ≤ 255) :
    enc (pad buf n) =
      (buf ++ List.replicate (n - buf.length % n) (UInt8.ofNat (n - buf.length % n)), none) := by
  unfold pad
  rw [if_neg (by omega)]
  rfl

/-- The exact no-wrap condition for the size at hand: vacuous for an invalid block size (the function
returns before it computes anything), `len(buf) + padLen ≤ 2^63 - 1` otherwise. -/
def PadNoWrap (buf : List UInt8) (size : Int) : Prop :=
  2 ≤ size → size ≤ 255 →
    (buf.length : Int) + (size - (buf.length : Int) % size) ≤ 9223372036854775807

theorem padNoWrap_nat (buf : List UInt8) (n : Nat) (h1 : 2 ≤ n) (h2 : n ≤ 255)
    (h : PadNoWrap buf (n : Int)) :
    (buf.length : Int) + ((n - buf.length % n : Nat) : Int) ≤ 9223372036854775807 := by
  have hm : buf.length % n < n := Nat.mod_lt _ (by omega)
  have := h (by omega) (by omega)
  have e : ((buf.length : Int) % (n : Int)) = ((buf.length % n : Nat) : Int) := by simp
  rw [e] at this
  omega

/-- **The translated `PadPKCS7` is the model's `pad`**, under the weakest hypothesis the code allows:
`size` any integer (not even required to be an int64), `buf` any byte string for which
`bufLen + padLen` does not wrap at THIS size (see `pad_code_panics_iff_wraps` for the converse). -/
theorem pad_code_eq_model_exact (buf : List UInt8) (size : Int) (hno : PadNoWrap buf size) :
    PadPKCS7 buf size = .ok (enc (pad buf size.toNat)) := by
  by_cases hs : size ≤ 1 ∨ size ≥ 256
  · have hs' : size.toNat ≤ 1 ∨ size.toNat ≥ 256 := by omega
    have hd : (decide (size ≤ 1) || decide (size ≥ 256)) = true := by simpa using hs
    rw [pad_code_unfold]
    unfold pad
    simp only [hd, ↓reduceIte, if_pos hs', enc_size]
  · obtain ⟨n, hn⟩ : ∃ n : Nat, size = n := ⟨size.toNat, by omega⟩
    subst hn
    rw [pad_code_compute buf n (by omega) (by omega) (padNoWrap_nat buf n (by omega) (by omega) hno),
      Int.toNat_natCast, enc_pad_model buf n (by omega) (by omega)]

/-- Every multiple-of-`n` argument: `(2^63 - 1) % n ≤ 232` for every valid block size (maximum at 241). -/
theorem maxI64_mod_le : ∀ n : Fin 256, 2 ≤ n.val → 9223372036854775807 % n.val ≤ 232 := by
  decide +kernel

/-- `len(buf) ≤ 2^63 - 1 - 233` suffices for every size: the padded length is the next multiple of
`size` above `len(buf)`, and the largest multiple of `size` below `2^63` is at least `2^63 - 1 - 232`. -/
theorem padNoWrap_of_uniform (buf : List UInt8) (size : Int)
    (hlen : (buf.length : Int) ≤ 9223372036854775574) : PadNoWrap buf size := by
  intro h1 h2
  obtain ⟨n, hn⟩ : ∃ n : Nat, size = n := ⟨size.toNat, by omega⟩
  subst hn
  have hpos : 0 < n := by omega
  have hM := maxI64_mod_le ⟨n, by omega⟩ (by simp; omega)
  simp only at hM
  have hdM := Nat.div_add_mod 9223372036854775807 n
  have hdL := Nat.div_add_mod buf.length n
  have hmL : buf.length % n < n := Nat.mod_lt _ hpos
  -- `len(buf) < n * (M / n)`, hence `len(buf) / n < M / n`
  have hlt : buf.length < n * (9223372036854775807 / n) := by omega
  have hq : buf.length / n < 9223372036854775807 / n := by
    rw [Nat.div_lt_iff_lt_mul hpos, Nat.mul_comm]; exact hlt
  have hmul : n * (buf.length / n + 1) ≤ n * (9223372036854775807 / n) :=
    Nat.mul_le_mul_left _ hq
  rw [Nat.mul_add, Nat.mul_one] at hmul
  have e : ((buf.length : Int) % (n : Int)) = ((buf.length % n : Nat) : Int) := by simp
  rw [e]
  omega

/-- The weakest bound on `len(buf)` alone that works for every size: `2^63 - 1 - 233`
(`pad_code_wraps_just_above_uniform`: one byte more fails at size 241). -/
theorem pad_code_eq_model_uniform (buf : List UInt8) (size : Int)
    (hlen : (buf.length : Int) ≤ 9223372036854775574) :
    PadPKCS7 buf size = .ok (enc (pad buf size.toNat)) :=
  pad_code_eq_model_exact buf size (padNoWrap_of_uniform buf size hlen)

/-- **1. The translated `PadPKCS7` is the model's `pad`**: every byte string with
`len(buf) ≤ 2^63 - 1 - 256`, every `size : Int` (negative, 0, 1, ≥ 256 included: both sides give
`ErrInvalidPKCS7BlockSize`). -/
theorem pad_code_eq_model (buf : List UInt8) (size : Int)
    (hlen : (buf.length : Int) ≤ 9223372036854775807 - 256) :
    PadPKCS7 buf size = .ok (enc (pad buf size.toNat)) :=
  pad_code_eq_model_uniform buf size (by omega)

/-! ### Outside the range: the wrapped addition -/

/-- **Converse of `pad_code_eq_model_exact`.** For a valid block size and a byte string whose length
is a Go `int`: when `bufLen + padLen` exceeds `2^63 - 1` it wraps to a negative number and `make`
panics (Go does the same: `makeslice: len out of range`). So the function returns a value iff
`PadNoWrap buf size`. -/
theorem pad_code_panics_iff_wraps (buf : List UInt8) (size : Int) (h1 : 2 ≤ size) (h2 : size ≤ 255)
    (hlen : (buf.length : Int) ≤ 9223372036854775807) :
    PadPKCS7 buf size = .panic "makeslice: len out of range: make([]byte, bufLen+padLen)"
      ↔ ¬ PadNoWrap buf size := by
  constructor
  · intro hp hno
    rw [pad_code_eq_model_exact buf size hno] at hp
    cases hp
  · intro hw
    obtain ⟨n, hn⟩ : ∃ n : Nat, size = n := ⟨size.toNat, by omega⟩
    subst hn
    have hm : buf.length % n < n := Nat.mod_lt _ (by omega)
    have hgt : (buf.length : Int) + ((n - buf.length % n : Nat) : Int) > 9223372036854775807 := by
      apply Int.lt_of_not_ge
      intro hle
      apply hw
      intro _ _
      have e : ((buf.length : Int) % (n : Int)) = ((buf.length % n : Nat) : Int) := by simp
      rw [e]; omega
    have hd : (decide ((n : Int) ≤ 1) || decide ((n : Int) ≥ 256)) = false := by simp; omega
    have hne : ((n : Int) != 0) = true := by simp; omega
    rw [pad_code_unfold, padCount_eq buf n (by omega) (by omega)]
    have hneg : decide (0 ≤ wrapI64 (lenI buf + ((n - buf.length % n : Nat) : Int))) = false := by
      unfold lenI wrapI64
      rw [Int.bmod_def]
      simp only [decide_eq_false_iff_not]
      split <;> omega
    simp only [hd, hne, hneg, Bool.not_true, Bool.not_false, Bool.false_eq_true, ↓reduceIte]

/-- Counter-witness at the top of the range: `2^63 - 1` bytes, block size 2 — `padLen = 1`,
`bufLen + padLen = 2^63` wraps to `-2^63`, `make` panics. (The list is never evaluated.) -/
theorem pad_code_wraps_at_max :
    PadPKCS7 (List.replicate 9223372036854775807 0) 2 =
      .panic "makeslice: len out of range: make([]byte, bufLen+padLen)" := by
  rw [pad_code_panics_iff_wraps _ 2 (by omega) (by omega) (by rw [List.length_replicate]; omega)]
  intro h
  have := h (by omega) (by omega)
  rw [List.length_replicate] at this
  omega

/-- Counter-witness just above the uniform bound: `2^63 - 1 - 232` bytes (a multiple of 241), block
size 241 — `padLen = 241`, `bufLen + padLen = 2^63 + 8` wraps, `make` panics. So
`9223372036854775574` in `pad_code_eq_model_uniform` cannot be raised. -/
theorem pad_code_wraps_just_above_uniform :
    PadPKCS7 (List.replicate 9223372036854775575 0) 241 =
      .panic "makeslice: len out of range: make([]byte, bufLen+padLen)" := by
  rw [pad_code_panics_iff_wraps _ 241 (by omega) (by omega) (by rw [List.length_replicate]; omega)]
  intro h
  have := h (by omega) (by omega)
  rw [List.length_replicate] at this
  omega

/-! ### 2. No panic, fresh result -/

/-- The model's `pad` never panics. -/
theorem pad_model_no_panic (buf : Bytes) (size : Nat) : ∀ w, pad buf size ≠ .panic w := by
  intro w h
  unfold pad at h
  split at h <;> cases h

/-- **On the translated code itself: no byte string in the range and no size makes it panic**
(`bufLen % size` with `size = 0`, `make` with a negative length, the slice `out[bufLen:]`). Stated
with the exact condition; `pad_code_never_panics` is the instance asked for. -/
theorem pad_code_never_panics_exact (buf : List UInt8) (size : Int) (hno : PadNoWrap buf size) :
    ∀ msg, PadPKCS7 buf size ≠ .panic msg := by
  intro msg h
  rw [pad_code_eq_model_exact buf size hno] at h
  cases h

theorem pad_code_never_panics (buf : List UInt8) (size : Int)
    (hlen : (buf.length : Int) ≤ 9223372036854775807 - 256) :
    ∀ msg, PadPKCS7 buf size ≠ .panic msg :=
  pad_code_never_panics_exact buf size (padNoWrap_of_uniform buf size (by omega))

/-- **The result is a fresh list of length `len(buf) + padLen`**: for a valid block size the
translated function returns `(out, nil)` where `out` has length `len(buf) + padLen` with
`padLen = padCount buf size ∈ [1, size]` (the count handed to `bytes.Repeat`), that length is a
multiple of `size`, `out` starts with `buf`, and what follows is `padLen` copies of `byte(padLen)`.
`out` is the zeroed `make([]byte, bufLen+padLen)` overwritten by the two `copy`s
(`pad_code_unfold`): nothing is appended to `buf`. -/
theorem pad_code_fresh_length_exact (buf : List UInt8) (size : Int) (h1 : 2 ≤ size) (h2 : size ≤ 255)
    (hno : PadNoWrap buf size) :
    ∃ out : List UInt8, PadPKCS7 buf size = .ok (out, none) ∧
      1 ≤ padCount buf size ∧ padCount buf size ≤ size ∧
      out.length = buf.length + (padCount buf size).toNat ∧
      out.length % size.toNat = 0 ∧
      out.take buf.length = buf ∧ buf <+: out ∧
      out.drop buf.length =
        List.replicate (padCount buf size).toNat (byteOfInt (padCount buf size)) := by
  have hr := pad_code_repeat_count_in_range buf size (by omega)
  obtain ⟨n, hn⟩ : ∃ n : Nat, size = n := ⟨size.toNat, by omega⟩
  subst hn
  have hm : buf.length % n < n := Nat.mod_lt _ (by omega)
  refine ⟨_, pad_code_compute buf n (by omega) (by omega)
    (padNoWrap_nat buf n (by omega) (by omega) hno), hr.1, hr.2.2, ?_, ?_, ?_, ?_, ?_⟩
  · rw [padCount_eq buf n (by omega) (by omega)]; simp
  · rw [List.length_append, List.length_replicate, Int.toNat_natCast]
    exact padLen_mod _ _ (by omega)
  · exact List.take_left' rfl
  · exact List.prefix_append _ _
  · rw [padCount_eq buf n (by omega) (by omega), Int.toNat_natCast, List.drop_left' rfl,
      byteOfInt_small _ (by omega)]

theorem pad_code_fresh_length (buf : List UInt8) (size : Int) (h1 : 2 ≤ size) (h2 : size ≤ 255)
    (hlen : (buf.length : Int) ≤ 9223372036854775807 - 256) :
    ∃ out : List UInt8, PadPKCS7 buf size = .ok (out, none) ∧
      1 ≤ padCount buf size ∧ padCount buf size ≤ size ∧
      out.length = buf.length + (padCount buf size).toNat ∧
      out.length % size.toNat = 0 ∧
      out.take buf.length = buf ∧ buf <+: out ∧
      out.drop buf.length =
        List.replicate (padCount buf size).toNat (byteOfInt (padCount buf size)) :=
  pad_code_fresh_length_exact buf size h1 h2 (padNoWrap_of_uniform buf size (by omega))

/-! ### 3. Round trip on the two translated functions -/

/-- The `[]byte` a translated `([]byte, error)` function returned (`[]` when it did not return). -/
def resBytes : GoSem.Res (List UInt8 × GoSem.Err) → List UInt8
  | .ok (b, _) => b
  | _ => []

/-- The model's round trip (as `Props/C03.unpad_pad`, from the lemmas of `Lemmas/CryptoGluePad.lean`). -/
theorem unpad_pad_model (buf : Bytes) (n : Nat) (h1 : 2 ≤ n) (h2 : n ≤ 255) :
    unpad (buf ++ List.replicate (n - buf.length % n) (UInt8.ofNat (n - buf.length % n))) n
      = .ok buf := by
  have hm : buf.length % n < n := Nat.mod_lt _ (by omega)
  exact unpad_of_shape buf _ n (by omega) (by omega) (by omega) (by omega) (padLen_mod _ _ (by omega))

/-- **`UnpadPKCS7 ∘ PadPKCS7 = id` on the translated functions themselves**, exact range, any fuel
above `size` (the unpad loop runs `padLen ≤ size` times plus one step). -/
theorem unpad_pad_code_roundtrip_exact (buf : List UInt8) (size : Int) (h1 : 2 ≤ size) (h2 : size ≤ 255)
    (hno : PadNoWrap buf size) (fuel : Nat) (hf : size.toNat < fuel) :
    ∃ p, PadPKCS7 buf size = .ok (p, none) ∧ UnpadPKCS7 fuel p size = .ok (buf, none) := by
  obtain ⟨n, hn⟩ : ∃ n : Nat, size = n := ⟨size.toNat, by omega⟩
  subst hn
  have hnw := padNoWrap_nat buf n (by omega) (by omega) hno
  refine ⟨_, pad_code_compute buf n (by omega) (by omega) hnw, ?_⟩
  rw [unpad_code_eq_model_anyInt _ (n : Int)
      (by rw [List.length_append, List.length_replicate]; omega) fuel (by omega),
    Int.toNat_natCast, unpad_pad_model buf n (by omega) (by omega)]
  rfl

/-- **3. Round trip**, as asked: fuel 256, `len(buf) ≤ 2^63 - 1 - 256`, `2 ≤ size ≤ 255`. -/
theorem unpad_pad_code_roundtrip (buf : List UInt8) (size : Int) (h1 : 2 ≤ size) (h2 : size ≤ 255)
    (hlen : (buf.length : Int) ≤ 9223372036854775807 - 256) :
    UnpadPKCS7 256 (resBytes (PadPKCS7 buf size)) size = .ok (buf, none) := by
  obtain ⟨p, hp, hu⟩ := unpad_pad_code_roundtrip_exact buf size h1 h2
    (padNoWrap_of_uniform buf size (by omega)) 256 (by omega)
  rw [hp]
  exact hu

/-! ### 4. Non-vacuity: the translated function, evaluated -/

/-- three bytes, block size 8: five bytes `05` -/
example : PadPKCS7 [1, 2, 3] 8 = .ok ([1, 2, 3, 5, 5, 5, 5, 5], none) := by decide +kernel
example : enc (pad [1, 2, 3] (8 : Int).toNat) = ([1, 2, 3, 5, 5, 5, 5, 5], none) := by decide +kernel
/-- a full block gets a whole block of padding -/
example : PadPKCS7 [1, 2, 3, 4] 4 = .ok ([1, 2, 3, 4, 4, 4, 4, 4], none) := by decide +kernel
/-- the empty message -/
example : PadPKCS7 [] 2 = .ok ([2, 2], none) := by decide +kernel
/-- the largest block size: 255 bytes `ff` behind one byte … -/
example : PadPKCS7 [7] 255 = .ok (7 :: List.replicate 254 254, none) := by decide +kernel
/-- … and on the empty message (the largest count `bytes.Repeat` ever sees) -/
example : PadPKCS7 [] 255 = .ok (List.replicate 255 255, none) := by decide +kernel
example : padCount [] 255 = 255 := by decide +kernel
example : padCount [1, 2, 3] 8 = 5 := by decide +kernel
/-- size 0 (no division by zero is reached), 1, 256, negative -/
example : PadPKCS7 [1, 2, 3] 0 = .ok ([], some "ErrInvalidPKCS7BlockSize") := by decide +kernel
example : PadPKCS7 [1, 2, 3] 1 = .ok ([], some "ErrInvalidPKCS7BlockSize") := by decide +kernel
example : PadPKCS7 [1, 2, 3] 256 = .ok ([], some "ErrInvalidPKCS7BlockSize") := by decide +kernel
example : PadPKCS7 [1, 2, 3] (-8) = .ok ([], some "ErrInvalidPKCS7BlockSize") := by decide +kernel
example : enc (pad [1, 2, 3] (-8 : Int).toNat) = ([], some "ErrInvalidPKCS7BlockSize") := by
  decide +kernel
/-- the round trip, evaluated on both translated functions -/
example : UnpadPKCS7 256 (resBytes (PadPKCS7 [1, 2, 3] 8)) 8 = .ok ([1, 2, 3], none) := by
  decide +kernel
example : UnpadPKCS7 256 (resBytes (PadPKCS7 [] 255)) 255 = .ok ([], none) := by decide +kernel
/-- the hypotheses of the theorems are satisfiable, and the theorems say what the evaluation says -/
example : PadPKCS7 [1, 2, 3] 8 = .ok (enc (pad [1, 2, 3] (8 : Int).toNat)) :=
  pad_code_eq_model [1, 2, 3] 8 (by decide)
example : UnpadPKCS7 256 (resBytes (PadPKCS7 [1, 2, 3] 8)) 8 = .ok ([1, 2, 3], none) :=
  unpad_pad_code_roundtrip [1, 2, 3] 8 (by decide) (by decide) (by decide)
example : ∃ out : List UInt8, PadPKCS7 [1, 2, 3] 8 = .ok (out, none) ∧ out.length = 3 + 5 :=
  ⟨[1, 2, 3, 5, 5, 5, 5, 5], by decide +kernel, by decide +kernel⟩

end Kit.CryptoGlue.Code
