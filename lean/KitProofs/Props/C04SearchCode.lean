import KitModel.CronSpec
import KitModel.Generated.CodeC04Search
import KitProofs.Lemmas.CronSpecFixed
import KitProofs.Lemmas.CronBridge
import KitProofs.Props.C04NextCode

namespace Kit.CronSpec.SearchCode
open Kit.CronSpec Kit.GoSem Kit.CronSpec.Code Kit.Generated.CodeC04Search

/-! ### the instantiation of the `time.Time` parameters by the calendar model -/

def tYear (z : Zone) (n : Int) : Int := year z (n / 1000000000)
def tMonth (z : Zone) (n : Int) : Int := month z (n / 1000000000)
def tDay (z : Zone) (n : Int) : Int := day z (n / 1000000000)
def tHour (z : Zone) (n : Int) : Int := hour z (n / 1000000000)
def tMinute (z : Zone) (n : Int) : Int := minute z (n / 1000000000)
def tSecond (z : Zone) (n : Int) : Int := second z (n / 1000000000)
def tWeekday (z : Zone) (n : Int) : Int := wday z (n / 1000000000)
def tDate (z : Zone) (y mo d h mi s _ns : Int) : Int := 1000000000 * goDate z y mo d h mi s
def tAddDate (z : Zone) (n y m d : Int) : Int := 1000000000 * addDate z (n / 1000000000) y m d
def tTruncate (n d : Int) : Int := 1000000000 * truncate (n / 1000000000) (d / 1000000000)

theorem ns_div (t : Int) : 1000000000 * t / 1000000000 = t :=
  Int.mul_ediv_cancel_left t (by decide)

@[simp] theorem tYear_ns (z : Zone) (t : Int) : tYear z (1000000000 * t) = year z t := by
  unfold tYear; rw [ns_div]
@[simp] theorem tMonth_ns (z : Zone) (t : Int) : tMonth z (1000000000 * t) = month z t := by
  unfold tMonth; rw [ns_div]
@[simp] theorem tDay_ns (z : Zone) (t : Int) : tDay z (1000000000 * t) = day z t := by
  unfold tDay; rw [ns_div]
@[simp] theorem tHour_ns (z : Zone) (t : Int) : tHour z (1000000000 * t) = hour z t := by
  unfold tHour; rw [ns_div]
@[simp] theorem tMinute_ns (z : Zone) (t : Int) : tMinute z (1000000000 * t) = minute z t := by
  unfold tMinute; rw [ns_div]
@[simp] theorem tSecond_ns (z : Zone) (t : Int) : tSecond z (1000000000 * t) = second z t := by
  unfold tSecond; rw [ns_div]
@[simp] theorem tWeekday_ns (z : Zone) (t : Int) : tWeekday z (1000000000 * t) = wday z t := by
  unfold tWeekday; rw [ns_div]
@[simp] theorem tAddDate_ns (z : Zone) (t y m d : Int) :
    tAddDate z (1000000000 * t) y m d = 1000000000 * addDate z t y m d := by
  unfold tAddDate; rw [ns_div]
@[simp] theorem tTruncate_minute (t : Int) :
    tTruncate (1000000000 * t) 60000000000 = 1000000000 * truncate t 60 := by
  unfold tTruncate; rw [ns_div]; rfl
@[simp] theorem tTruncate_second (t : Int) :
    tTruncate (1000000000 * t) 1000000000 = 1000000000 * truncate t 1 := by
  unfold tTruncate; rw [ns_div]; rfl

theorem hour_range (z : Zone) (u : Int) : 0 ≤ hour z u ∧ hour z u < 24 := by
  simp only [hour]; omega
theorem minute_range (z : Zone) (u : Int) : 0 ≤ minute z u ∧ minute z u < 60 := by
  simp only [minute]; omega
theorem second_range (z : Zone) (u : Int) : 0 ≤ second z u ∧ second z u < 60 := by
  simp only [second]; omega

/-! ### `dayStart` -/

/-- The translated `dayStart` under the instantiation, as an abbreviation. -/
abbrev cDayStart (z : Zone) (n : Int) : Res Int :=
  Kit.Generated.CodeC04Search.dayStart (tYear z) (tMonth z) (tDay z) (tHour z) (tMinute z)
    (tSecond z) (tWeekday z) (tDate z) (tAddDate z) tTruncate n

theorem dayStart_code_eq_model (z : Zone) (t : Int) :
    cDayStart z (1000000000 * t) = .ok (1000000000 * Kit.CronSpec.dayStart z t) := by
  have hh := hour_range z t
  unfold cDayStart Kit.Generated.CodeC04Search.dayStart Kit.CronSpec.dayStart
  simp only [tHour_ns, tDay_ns]
  by_cases h12 : hour z t > 12
  · simp only [h12, decide_true, ↓reduceIte]
    rw [wrapI64_of_in (x := 24 - hour z t) (by unfold InI64; omega),
      wrapI64_of_in (by unfold InI64; omega)]
    congr 1; omega
  · simp only [h12, decide_false, Bool.false_eq_true, ↓reduceIte]
    by_cases h0 : hour z t > 0
    · simp only [h0, decide_true, ↓reduceIte]
      rw [wrapI64_of_in (x := -hour z t) (by unfold InI64; omega),
        wrapI64_of_in (by unfold InI64; omega)]
      have e : 1000000000 * t + -hour z t * 3600000000000 = 1000000000 * (t - hour z t * 3600) := by
        omega
      rw [e, tDay_ns]
      by_cases hd : day z (t - hour z t * 3600) = day z t
      · simp [hd]
      · simp [hd]
    · simp only [h0, decide_false, Bool.false_eq_true, ↓reduceIte]
      have e : 1000000000 * t + -3600000000000 = 1000000000 * (t - 3600) := by omega
      rw [e, tDay_ns, tHour_ns]
      by_cases hc : hour z (t - 3600) = 0 ∧ day z (t - 3600) = day z t
      · simp [hc]
      · simp only [hc, ↓reduceIte]
        have : ((hour z (t - 3600) == 0) && (day z (t - 3600) == day z t)) = false := by
          simpa using hc
        simp [this]

/-! ### `dayMatches` -/

abbrev cDayMatches (z : Zone) (s : Sched) (n : Int) : Res Bool :=
  Kit.Generated.CodeC04Search.dayMatches (tYear z) (tMonth z) (tDay z) (tHour z) (tMinute z)
    (tSecond z) (tWeekday z) (tDate z) (tAddDate z) tTruncate
    (BitVec.ofNat 64 s.dom) (BitVec.ofNat 64 s.dow) n

theorem dayMatches_code_eq_model (s : Sched) (z : Zone) (t : Int)
    (hd : s.dom < 2 ^ 64) (hw : s.dow < 2 ^ 64) :
    cDayMatches z s (1000000000 * t) = .ok (Kit.CronSpec.dayMatches s z t) := by
  have h1 := day_range z t
  have h2 := Kit.CronBridge.wday_range z t
  unfold cDayMatches Kit.Generated.CodeC04Search.dayMatches Kit.CronSpec.dayMatches
  simp only [tDay_ns, tWeekday_ns,
    bit_code_eq_has s.dom hd (day z t) (by omega) (by omega),
    bit_code_eq_has s.dow hw (wday z t) (by omega) (by omega), star_code_eq]
  split <;> rfl

/-! ### the loop conditions -/

/-- `1<<uint(d) & set == 0` is the negation of the model's `has`. -/
theorem bit_code_eqz (set : Nat) (hs : set < 2 ^ 64) (d : Int) (h0 : 0 ≤ d)
    (h1 : d < 18446744073709551616) :
    ((((1#64) <<< (u64OfInt d).toNat) &&& BitVec.ofNat 64 set) == (0#64)) = !has set d := by
  rw [← bit_code_eq_has set hs d h0 h1]
  generalize (((1#64) <<< (u64OfInt d).toNat) &&& BitVec.ofNat 64 set) = x
  by_cases hx : x = 0#64
  · subst hx; decide
  · have := (u64_pos_iff x).2 hx
    simp [hx, this]

/-- How a model loop outcome reads in the translated loop's result type (the carried tuple is
`(t, added)`; instants are nanoseconds). -/
def encLoop : LoopOut → Res (LoopOutJ Int (Int × Bool))
  | .next t a => .ok (.brk (1000000000 * t, a))
  | .wrap t a => .ok (.jmp (1000000000 * t, a))
  | .fuel => .nofuel

section loops
variable (z : Zone) (b : Bool) (s : Sched) (yl : Int)

abbrev cLoop5 (fuel : Nat) (n : Int) (added : Bool) :=
  SpecSchedule_Next_loop5 fuel (tYear z) (tMonth z) (tDay z) (tHour z) (tMinute z) (tSecond z)
    (tWeekday z) (tDate z) (tAddDate z) tTruncate b (BitVec.ofNat 64 s.second)
    (BitVec.ofNat 64 s.minute) (BitVec.ofNat 64 s.hour) (BitVec.ofNat 64 s.dom)
    (BitVec.ofNat 64 s.month) (BitVec.ofNat 64 s.dow) () n () () added yl

theorem loop5_code_eq_model (hs : s.second < 2 ^ 64) (f : Nat) : ∀ (t : Int) (a : Bool),
    cLoop5 z b s yl f (1000000000 * t) a = encLoop (secondLoop s z f t a) := by
  induction f with
  | zero => intro t a; rfl
  | succ f ih =>
    intro t a
    have hr := second_range z t
    unfold cLoop5 at ih ⊢
    rw [SpecSchedule_Next_loop5]
    simp only [tSecond_ns, bit_code_eqz s.second hs (second z t) (by omega) (by omega)]
    unfold secondLoop loop
    cases hh : has s.second (second z t)
    · simp only [Bool.not_false, ↓reduceIte, Bool.false_eq_true]
      cases a
      · simp only [Bool.not_false, ↓reduceIte, Bool.false_eq_true, tTruncate_second]
        have e : 1000000000 * truncate t 1 + 1000000000 = 1000000000 * (truncate t 1 + 1) := by
          omega
        rw [e, tSecond_ns]
        by_cases hw : second z (truncate t 1 + 1) = 0
        · simp [hw, encLoop]
        · simp only [hw, beq_iff_eq, ↓reduceIte, decide_false, Bool.false_eq_true]
          exact ih _ _
      · simp only [Bool.not_true, ↓reduceIte, Bool.false_eq_true]
        have e : 1000000000 * t + 1000000000 = 1000000000 * (t + 1) := by omega
        rw [e, tSecond_ns]
        by_cases hw : second z (t + 1) = 0
        · simp [hw, encLoop]
        · simp only [hw, beq_iff_eq, ↓reduceIte, decide_false, Bool.false_eq_true]
          exact ih _ _
    · simp [encLoop]

abbrev cLoop4 (fuel : Nat) (n : Int) (added : Bool) :=
  SpecSchedule_Next_loop4 fuel (tYear z) (tMonth z) (tDay z) (tHour z) (tMinute z) (tSecond z)
    (tWeekday z) (tDate z) (tAddDate z) tTruncate b (BitVec.ofNat 64 s.second)
    (BitVec.ofNat 64 s.minute) (BitVec.ofNat 64 s.hour) (BitVec.ofNat 64 s.dom)
    (BitVec.ofNat 64 s.month) (BitVec.ofNat 64 s.dow) () n () () added yl

theorem loop4_code_eq_model (hs : s.minute < 2 ^ 64) (f : Nat) : ∀ (t : Int) (a : Bool),
    cLoop4 z b s yl f (1000000000 * t) a = encLoop (minuteLoop s z f t a) := by
  induction f with
  | zero => intro t a; rfl
  | succ f ih =>
    intro t a
    have hr := minute_range z t
    unfold cLoop4 at ih ⊢
    rw [SpecSchedule_Next_loop4]
    simp only [tMinute_ns, bit_code_eqz s.minute hs (minute z t) (by omega) (by omega)]
    unfold minuteLoop loop
    cases hh : has s.minute (minute z t)
    · simp only [Bool.not_false, ↓reduceIte, Bool.false_eq_true]
      cases a
      · simp only [Bool.not_false, ↓reduceIte, Bool.false_eq_true, tTruncate_minute]
        have e : 1000000000 * truncate t 60 + 60000000000 = 1000000000 * (truncate t 60 + 60) := by
          omega
        rw [e, tMinute_ns]
        by_cases hw : minute z (truncate t 60 + 60) = 0
        · simp [hw, encLoop]
        · simp only [hw, beq_iff_eq, ↓reduceIte, decide_false, Bool.false_eq_true]
          exact ih _ _
      · simp only [Bool.not_true, ↓reduceIte, Bool.false_eq_true]
        have e : 1000000000 * t + 60000000000 = 1000000000 * (t + 60) := by omega
        rw [e, tMinute_ns]
        by_cases hw : minute z (t + 60) = 0
        · simp [hw, encLoop]
        · simp only [hw, beq_iff_eq, ↓reduceIte, decide_false, Bool.false_eq_true]
          exact ih _ _
    · simp [encLoop]

abbrev cLoop3 (fuel : Nat) (n : Int) (added : Bool) :=
  SpecSchedule_Next_loop3 fuel (tYear z) (tMonth z) (tDay z) (tHour z) (tMinute z) (tSecond z)
    (tWeekday z) (tDate z) (tAddDate z) tTruncate b (BitVec.ofNat 64 s.second)
    (BitVec.ofNat 64 s.minute) (BitVec.ofNat 64 s.hour) (BitVec.ofNat 64 s.dom)
    (BitVec.ofNat 64 s.month) (BitVec.ofNat 64 s.dow) () n () () added yl

theorem loop3_code_eq_model (hs : s.hour < 2 ^ 64) (f : Nat) : ∀ (t : Int) (a : Bool),
    cLoop3 z b s yl f (1000000000 * t) a = encLoop (hourLoop s z f t a) := by
  induction f with
  | zero => intro t a; rfl
  | succ f ih =>
    intro t a
    have hr := hour_range z t
    unfold cLoop3 at ih ⊢
    rw [SpecSchedule_Next_loop3]
    simp only [tHour_ns, bit_code_eqz s.hour hs (hour z t) (by omega) (by omega)]
    unfold hourLoop loop
    cases hh : has s.hour (hour z t)
    · simp only [Bool.not_false, ↓reduceIte, Bool.false_eq_true]
      cases a
      · simp only [Bool.not_false, ↓reduceIte, Bool.false_eq_true, tDate, tYear_ns, tMonth_ns,
          tDay_ns]
        generalize goDate z (year z t) (month z t) (day z t) (hour z t) 0 0 = t1
        have e : 1000000000 * t1 + 3600000000000 = 1000000000 * (t1 + 3600) := by omega
        rw [e, tHour_ns, tDay_ns]
        by_cases hw : hour z (t1 + 3600) = 0 ∨ day z (t1 + 3600) ≠ day z t1
        · have : ((hour z (t1 + 3600) == 0) || (day z (t1 + 3600) != day z t1)) = true := by
            simpa using hw
          simp [hw, this, encLoop]
        · have : ((hour z (t1 + 3600) == 0) || (day z (t1 + 3600) != day z t1)) = false := by
            simpa using hw
          simp only [this, hw, ↓reduceIte, decide_false, Bool.false_eq_true]
          exact ih _ _
      · simp only [Bool.not_true, ↓reduceIte, Bool.false_eq_true, tDay_ns]
        have e : 1000000000 * t + 3600000000000 = 1000000000 * (t + 3600) := by omega
        rw [e, tHour_ns, tDay_ns]
        by_cases hw : hour z (t + 3600) = 0 ∨ day z (t + 3600) ≠ day z t
        · have : ((hour z (t + 3600) == 0) || (day z (t + 3600) != day z t)) = true := by
            simpa using hw
          simp [hw, this, encLoop]
        · have : ((hour z (t + 3600) == 0) || (day z (t + 3600) != day z t)) = false := by
            simpa using hw
          simp only [this, hw, ↓reduceIte, decide_false, Bool.false_eq_true]
          exact ih _ _
    · simp [encLoop]

abbrev cLoop2 (fuel : Nat) (n : Int) (added : Bool) :=
  SpecSchedule_Next_loop2 fuel (tYear z) (tMonth z) (tDay z) (tHour z) (tMinute z) (tSecond z)
    (tWeekday z) (tDate z) (tAddDate z) tTruncate b (BitVec.ofNat 64 s.second)
    (BitVec.ofNat 64 s.minute) (BitVec.ofNat 64 s.hour) (BitVec.ofNat 64 s.dom)
    (BitVec.ofNat 64 s.month) (BitVec.ofNat 64 s.dow) () n () () added yl

/-- The body of the day loop after the reset: `dayStart(t.AddDate(0,0,1))`, or two days ahead. -/
theorem dayInc_ns (t : Int) :
    (if 1000000000 * t < 1000000000 * Kit.CronSpec.dayStart z (addDate z t 0 0 1)
      then 1000000000 * Kit.CronSpec.dayStart z (addDate z t 0 0 1)
      else 1000000000 * Kit.CronSpec.dayStart z (addDate z t 0 0 2)) = 1000000000 * dayInc z t := by
  unfold dayInc
  by_cases h : t < Kit.CronSpec.dayStart z (addDate z t 0 0 1)
  · have : 1000000000 * t < 1000000000 * Kit.CronSpec.dayStart z (addDate z t 0 0 1) := by omega
    simp [h, this]
  · have : ¬ 1000000000 * t < 1000000000 * Kit.CronSpec.dayStart z (addDate z t 0 0 1) := by omega
    simp [h, this]

theorem loop2_code_eq_model (hd : s.dom < 2 ^ 64) (hw : s.dow < 2 ^ 64) (f : Nat) :
    ∀ (t : Int) (a : Bool),
    cLoop2 z b s yl f (1000000000 * t) a = encLoop (dayLoop s z f t a) := by
  induction f with
  | zero => intro t a; rfl
  | succ f ih =>
    intro t a
    have hdm := dayMatches_code_eq_model s z t hd hw
    unfold cLoop2 at ih ⊢
    unfold cDayMatches at hdm
    rw [SpecSchedule_Next_loop2]
    simp only [hdm]
    unfold dayLoop loop
    cases hh : Kit.CronSpec.dayMatches s z t
    · simp only [Bool.not_false, ↓reduceIte, Bool.false_eq_true]
      have key : ∀ t1 : Int,
          (match cDayStart z (tAddDate z (1000000000 * t1) 0 0 1) with
            | .panic msg => (.panic msg : Res (LoopOutJ Int (Int × Bool)))
            | .nofuel => .nofuel
            | .ok next =>
              if (!(decide (next > 1000000000 * t1))) then
                match cDayStart z (tAddDate z (1000000000 * t1) 0 0 2) with
                | .panic msg => .panic msg
                | .nofuel => .nofuel
                | .ok next =>
                  if (tDay z next == 1) then .ok (.jmp (next, true))
                  else cLoop2 z b s yl f next true
              else
                if (tDay z next == 1) then .ok (.jmp (next, true))
                else cLoop2 z b s yl f next true) =
          encLoop (if day z (dayInc z t1) = 1 then .wrap (dayInc z t1) true
            else dayLoop s z f (dayInc z t1) true) := by
        intro t1
        simp only [tAddDate_ns, dayStart_code_eq_model]
        rw [← dayInc_ns]
        by_cases h : 1000000000 * t1 < 1000000000 * Kit.CronSpec.dayStart z (addDate z t1 0 0 1)
        · simp only [h, gt_iff_lt, decide_true, Bool.not_true, Bool.false_eq_true, ↓reduceIte,
            tDay_ns]
          by_cases hw1 : day z (Kit.CronSpec.dayStart z (addDate z t1 0 0 1)) = 1
          · simp [hw1, encLoop]
          · simp only [hw1, beq_iff_eq, ↓reduceIte]
            exact ih _ _
        · simp only [h, gt_iff_lt, decide_false, Bool.not_false, ↓reduceIte, tDay_ns]
          by_cases hw1 : day z (Kit.CronSpec.dayStart z (addDate z t1 0 0 2)) = 1
          · simp [hw1, encLoop]
          · simp only [hw1, beq_iff_eq, ↓reduceIte]
            exact ih _ _
      unfold cLoop2 cDayStart at key
      cases a
      · simp only [Bool.not_false, ↓reduceIte, Bool.false_eq_true, tDate, tYear_ns, tMonth_ns,
          tDay_ns]
        exact key _
      · simp only [Bool.not_true, ↓reduceIte, Bool.false_eq_true]
        exact key _
    · simp [encLoop]

abbrev cLoop1 (fuel : Nat) (n : Int) (added : Bool) :=
  SpecSchedule_Next_loop1 fuel (tYear z) (tMonth z) (tDay z) (tHour z) (tMinute z) (tSecond z)
    (tWeekday z) (tDate z) (tAddDate z) tTruncate b (BitVec.ofNat 64 s.second)
    (BitVec.ofNat 64 s.minute) (BitVec.ofNat 64 s.hour) (BitVec.ofNat 64 s.dom)
    (BitVec.ofNat 64 s.month) (BitVec.ofNat 64 s.dow) () n () () added yl

theorem loop1_code_eq_model (hs : s.month < 2 ^ 64) (f : Nat) : ∀ (t : Int) (a : Bool),
    cLoop1 z b s yl f (1000000000 * t) a = encLoop (monthLoop s z f t a) := by
  induction f with
  | zero => intro t a; rfl
  | succ f ih =>
    intro t a
    have hr := month_range z t
    unfold cLoop1 at ih ⊢
    rw [SpecSchedule_Next_loop1]
    simp only [tMonth_ns, bit_code_eqz s.month hs (month z t) (by omega) (by omega)]
    unfold monthLoop loop
    cases hh : has s.month (month z t)
    · simp only [Bool.not_false, ↓reduceIte, Bool.false_eq_true]
      have key : ∀ t1 : Int,
          (match cDayStart z (tAddDate z (1000000000 * t1) 0 1 0) with
            | .panic msg => (.panic msg : Res (LoopOutJ Int (Int × Bool)))
            | .nofuel => .nofuel
            | .ok t2 =>
              if (tMonth z t2 == 1) then .ok (.jmp (t2, true))
              else cLoop1 z b s yl f t2 true) =
          encLoop (if month z (Kit.CronSpec.dayStart z (addDate z t1 0 1 0)) = 1
            then .wrap (Kit.CronSpec.dayStart z (addDate z t1 0 1 0)) true
            else monthLoop s z f (Kit.CronSpec.dayStart z (addDate z t1 0 1 0)) true) := by
        intro t1
        simp only [tAddDate_ns, dayStart_code_eq_model, tMonth_ns]
        by_cases hw1 : month z (Kit.CronSpec.dayStart z (addDate z t1 0 1 0)) = 1
        · simp [hw1, encLoop]
        · simp only [hw1, beq_iff_eq, ↓reduceIte]
          exact ih _ _
      unfold cLoop1 cDayStart at key
      cases a
      · have hds := dayStart_code_eq_model z (goDate z (year z t) (month z t) 1 0 0 0)
        unfold cDayStart at hds
        simp only [Bool.not_false, ↓reduceIte, Bool.false_eq_true, tDate, tYear_ns, tMonth_ns, hds]
        exact key _
      · simp only [Bool.not_true, ↓reduceIte, Bool.false_eq_true]
        exact key _
    · simp [encLoop]

end loops

end Kit.CronSpec.SearchCode
